(* C05 over Model/ConcAll.v (every request kind as a thread, one step per top-level transaction, any number of threads, any
   schedule): a write guarded by a provider generation is accepted only against that generation, and of the requests holding
   the same generation for one provider at most one is accepted with an increment.  Built on the accounting of Proofs/C10c.v.
   Also: the `alive` hypothesis of c10c_accounting follows when no request is a DELETE of the provider. *)
From PV Require Import Model.ConcAll Proofs.Defs Proofs.C10 Proofs.C05 Proofs.C07d Proofs.C07f Proofs.C07g Proofs.C10c.
From PV Require Proofs.C09 Proofs.C09c.

(* ================================================================ the generation a thread holds for provider u *)
(* provider writes whose write transaction compares the generation it holds *)
Definition guards (r : req) (u : Z) : bool :=
  match r with
  | InvSet _ u0 _ _ | InvPost _ u0 _ | InvPut _ u0 _ _ | InvDelete u0 _ | InvDeleteAll _ u0
  | TraitsSet _ u0 _ _ | TraitsDelete _ u0 => u0 =? u
  | AggsSet v u0 _ _ => (19 <=? v) && (u0 =? u)
  | _ => false
  end.
(* the generation carried by the request itself *)
Definition carried (r : req) : option Z :=
  match r with
  | InvSet _ _ g _ | InvPut _ _ g _ | TraitsSet _ _ g _ | AggsSet _ _ g _ => Some g
  | _ => None
  end.
Definition reshape_held (ri : list rinv_in) (u : Z) : option Z :=
  if nodupb (map ri_rp ri) then option_map ri_gen (find (fun r => ri_rp r =? u) ri) else None.
Definition x_held (x : actx) (u : Z) : option Z :=
  match x_kind x with KReshape => reshape_held (x_ri x) u | _ => None end.
Definition t_held (t : tstate) (u : Z) : option Z :=
  match t with
  | TProvRead r => if guards r u then carried r else None
  | TProvWrite r g => if guards r u then Some g else None
  | TRi x _ | TCons x _ _ | TCreate x _ _ _ | TReload x _ _ _ | TObjs x _ _ _ | TMain x _ _ => x_held x u
  | _ => None
  end.
Definition a_held (t : athread) (u : Z) : option Z :=
  match t with
  | ATree (TTOther t0) | ACached _ t0 | ACacheLoad t0 | ADelLoad t0 => t_held t0 u
  | ATraitsRead u0 g _ | ATraitsLook u0 _ g | ATraitsWrite u0 _ g _ => if u0 =? u then Some g else None
  | AAggsRead v u0 g _ | AAggsWrite v u0 _ g _ => if (19 <=? v) && (u0 =? u) then Some g else None
  | _ => None
  end.
Lemma anote_held gt gp t u : a_held (anote gt gp t) u = a_held t u.
Proof. destruct t; reflexivity. Qed.

(* ================================================================ a successful write transaction saw the generation it holds *)
Lemma bumped_gen u g d d' : bumped u g d d' -> gen_of d u = Some g.
Proof. intro H. apply bumped_spec in H. apply H. Qed.

Lemma set_traits_c_gen d u g w d' : set_traits_c d u g w = Ok d' -> gen_of d u = Some g.
Proof.
  unfold set_traits_c, set_traits_txn. cbv zeta.
  destruct (filter (fun t => negb (memZ t (traits_of d u))) w) as [|a ta];
    destruct (filter (fun t => negb (memZ t w)) (traits_of d u)) as [|b tb]; intro H.
  - unfold gen_of. destruct (find_rp d u) as [r|]; [|discriminate]. destruct (rp_gen r =? g) eqn:E; [|discriminate].
    apply Z.eqb_eq in E. cbn. congruence.
  - apply incr_rp_gen_inv in H. destruct H as (l' & H & _). apply cas_rp_l_spec in H. rewrite gen_of_gl. apply H.
  - apply incr_rp_gen_inv in H. destruct H as (l' & H & _). apply cas_rp_l_spec in H. rewrite gen_of_gl. apply H.
  - apply incr_rp_gen_inv in H. destruct H as (l' & H & _). apply cas_rp_l_spec in H. rewrite gen_of_gl. apply H.
Qed.

Lemma prov_write_gen r g d d' rs u : prov_write r g d = (d', rs) -> status rs < 300 -> guards r u = true -> gen_of d u = Some g.
Proof.
  unfold prov_write, guards. destruct r; try discriminate; intros H Hs Hg.
  - apply Z.eqb_eq in Hg. subst u0. destruct (set_inventory d u g l) as [d1|e] eqn:E; [|destruct e; injection H as _ <-; cbn in Hs; lia].
    eapply bumped_gen, set_inventory_bumped, E.
  - apply Z.eqb_eq in Hg. subst u0. destruct (add_inventory d u g x) as [d1|e] eqn:E; [|destruct e; injection H as _ <-; cbn in Hs; lia].
    eapply bumped_gen, add_inventory_bumped, E.
  - apply Z.eqb_eq in Hg. subst u0. destruct (update_inventory d u g x) as [d1|e] eqn:E; [|destruct e; injection H as _ <-; cbn in Hs; lia].
    eapply bumped_gen, update_inventory_bumped, E.
  - apply Z.eqb_eq in Hg. subst u0. destruct (delete_inventory d u g rc) as [d1|e] eqn:E; [|destruct e; injection H as _ <-; cbn in Hs; lia].
    eapply bumped_gen, delete_inventory_bumped, E.
  - apply Z.eqb_eq in Hg. subst u0. destruct (set_inventory d u g []) as [d1|e] eqn:E; [|destruct e; injection H as _ <-; cbn in Hs; lia].
    eapply bumped_gen, set_inventory_bumped, E.
  - apply Z.eqb_eq in Hg. subst u0. destruct (set_traits_c d u g ts) as [d1|e] eqn:E; [|injection H as _ <-; cbn in Hs; lia].
    eapply set_traits_c_gen, E.
  - apply Z.eqb_eq in Hg. subst u0. destruct (set_traits_c d u g []) as [d1|e] eqn:E; [|injection H as _ <-; cbn in Hs; lia].
    eapply set_traits_c_gen, E.
  - apply andb_true_iff in Hg. destruct Hg as [Hv Hg]. apply Z.eqb_eq in Hg. subst u0. rewrite Hv in H.
    destruct (set_aggregates_txn d u g (dedup l) true) as [d1|e] eqn:E; [|injection H as _ <-; cbn in Hs; lia].
    eapply bumped_gen, set_aggregates_txn_bumped, E.
Qed.

(* the main transaction of POST /reshaper saw, for every provider of its inventories section, the generation named *)
Lemma main_txn_reshape_gen x ks objs d d' u g : x_kind x = KReshape -> reshape_held (x_ri x) u = Some g ->
  main_txn x ks objs d = Ok d' -> gen_of d u = Some g.
Proof.
  intros Hk Hh H. unfold main_txn in H. cbv zeta in H. rewrite Hk in H. unfold reshape_held in Hh.
  destruct (nodupb (map ri_rp (x_ri x))) eqn:Hnd; [|discriminate].
  destruct (find (fun r => ri_rp r =? u) (x_ri x)) as [r|] eqn:F; [|discriminate]. injection Hh as <-.
  apply find_some in F. destruct F as [Hin Eu]. apply Z.eqb_eq in Eu.
  destruct (reshape_txn_c_fresh d (fold_left update_consumer ks d) (x_ri x) objs d' (C09.fold_update_consumer_rps ks d) Hnd H)
    as (_ & HG & _).
  rewrite <- Eu, <- (HG r Hin). symmetry. apply gen_of_rps. apply C09.fold_update_consumer_rps.
Qed.

(* ---------------------------------------------------------------- the allocation writes keep their request context *)
Definition t_ctx (t : tstate) : option actx :=
  match t with
  | TRi x _ | TCons x _ _ | TCreate x _ _ _ | TReload x _ _ _ | TObjs x _ _ _ | TMain x _ _ => Some x
  | _ => None
  end.
Lemma t_held_ctx t x u : t_ctx t = Some x -> t_held t u = x_held x u.
Proof. destruct t; cbn [t_ctx]; try discriminate; intros [= ->]; reflexivity. Qed.
Lemma after_cons_ctx x ks : t_ctx (after_cons x ks) = Some x.
Proof. unfold after_cons. destruct (work_items ks (x_all x)); reflexivity. Qed.

Lemma tstep_ctx t d x : t_ctx t = Some x ->
  (t_resp (snd (tstep t d)) = None -> t_ctx (snd (tstep t d)) = Some x) /\
  (forall r, t_resp (snd (tstep t d)) = Some r -> status r < 300 ->
     exists ks objs d', t = TMain x ks objs /\ main_txn x ks objs d = Ok d').
Proof.
  assert (Hcl : forall us s c, 300 <= s -> forall r, t_resp (cleanup_or_done us (err s c)) = Some r -> status r < 300 -> False).
  { intros us s c Hs r E Hr. rewrite cleanup_resp in E. injection E as <-. cbn in Hr. lia. }
  destruct t as [r|r|r g|x0 todo|x0 todo acc|x0 c todo acc|x0 c todo acc|x0 ks todo objs|x0 ks objs|todo r|c|c rows|c];
    cbn [t_ctx]; try discriminate; intros [= ->]; cbn [tstep].
  - destruct todo as [|r rest]; cbn [fst snd].
    + destruct (x_all x) as [|c l]; [split; [intros _; apply after_cons_ctx|]|split; [reflexivity|discriminate]].
      intros r E. destruct (after_cons_open x [] 0) as [A _]. rewrite A in E. discriminate.
    + destruct (find_rp d (ri_rp r)) as [me|]; cbn [fst snd t_resp]; [|split; [discriminate|intros r0 [= <-] H; cbn in H; lia]].
      destruct (negb _); cbn [fst snd t_resp]; [split; [discriminate|intros r0 [= <-] H; cbn in H; lia]|].
      destruct rest as [|r2 rest2]; [|split; [reflexivity|discriminate]].
      destruct (x_all x) as [|c l]; [split; [intros _; apply after_cons_ctx|]|split; [reflexivity|discriminate]].
      intros r0 E. destruct (after_cons_open x [] 0) as [A _]. rewrite A in E. discriminate.
  - destruct todo as [|c rest]; cbn [fst snd].
    { split; [intros _; apply after_cons_ctx|]. intros r E. destruct (after_cons_open x (rev acc) 0) as [A _]. rewrite A in E. discriminate. }
    cbv zeta. destruct (rq_attrs (x_cf x) (x_v x) c) as [[pj us] ty].
    destruct (find_cons d (ci_uuid c)) as [k|]; destruct (_ && _); cbn [fst snd];
      try (split; [rewrite cleanup_resp; discriminate|intros r E Hr; exfalso; eapply (Hcl _ 409); [lia|exact E|exact Hr]]).
    + destruct rest as [|c2 rest2]; [|split; [reflexivity|discriminate]].
      split; [intros _; apply after_cons_ctx|]. intros r E. match type of E with t_resp (after_cons ?a ?b) = _ => destruct (after_cons_open a b 0) as [A _] end.
      rewrite A in E. discriminate.
    + split; [reflexivity|discriminate].
  - destruct (rq_attrs (x_cf x) (x_v x) c) as [[pj us] ty].
    destruct (find_cons d (ci_uuid c)) as [k|]; cbn [fst snd]; [split; [reflexivity|discriminate]|].
    destruct todo as [|c2 rest2]; [|split; [reflexivity|discriminate]].
    split; [intros _; apply after_cons_ctx|]. intros r E. match type of E with t_resp (after_cons ?a ?b) = _ => destruct (after_cons_open a b 0) as [A _] end.
    rewrite A in E. discriminate.
  - destruct (rq_attrs (x_cf x) (x_v x) c) as [[pj us] ty].
    destruct (find_cons d (ci_uuid c)) as [k|]; cbn [fst snd];
      [|split; [rewrite cleanup_resp; discriminate|intros r E Hr; exfalso; eapply (Hcl _ 404); [lia|exact E|exact Hr]]].
    destruct (28 <=? x_v x); cbn [fst snd];
      [split; [rewrite cleanup_resp; discriminate|intros r E Hr; exfalso; eapply (Hcl _ 409); [lia|exact E|exact Hr]]|].
    destruct todo as [|c2 rest2]; [|split; [reflexivity|discriminate]].
    split; [intros _; apply after_cons_ctx|]. intros r E. match type of E with t_resp (after_cons ?a ?b) = _ => destruct (after_cons_open a b 0) as [A _] end.
    rewrite A in E. discriminate.
  - destruct todo as [|w rest]; cbn [fst snd]; [split; [reflexivity|discriminate]|]. cbv zeta. destruct w as [k|k a].
    + cbn [fst snd]. destruct rest; split; try reflexivity; discriminate.
    + destruct (find_rp d (ai_rp a)); cbn [fst snd];
        [|split; [rewrite cleanup_resp; discriminate|intros r E Hr; exfalso; eapply (Hcl _ 400); [lia|exact E|exact Hr]]].
      destruct rest; split; try reflexivity; discriminate.
  - destruct (main_txn x ks objs d) as [d'|e] eqn:Em; cbn [fst snd]; rewrite cleanup_resp.
    + split; [discriminate|]. intros r _ _. eauto.
    + split; [discriminate|]. intros r [= <-] Hr. exfalso.
      assert (300 <= status (main_err x e)) by (unfold main_err; destruct (x_kind x); [apply alloc_err_status|apply alloc_err_status|apply reshape_err_status]).
      lia.
Qed.

Lemma x_held_kind x u g : x_held x u = Some g -> x_kind x = KReshape /\ reshape_held (x_ri x) u = Some g.
Proof. unfold x_held. destruct (x_kind x); try discriminate. auto. Qed.

Lemma precheck_none_gen r me d g u : prov_precheck r me d = None -> guards r u = true -> carried r = Some g -> rp_gen me = g.
Proof.
  unfold prov_precheck, guards, carried. destruct r; try discriminate; intros H Hg [= <-].
  - destruct (negb (g0 =? rp_gen me)) eqn:E; [discriminate|]. apply negb_false_iff, Z.eqb_eq in E. auto.
  - destruct (negb (g0 =? rp_gen me)) eqn:E; [discriminate|]. apply negb_false_iff, Z.eqb_eq in E. auto.
  - destruct (negb (g0 =? rp_gen me)) eqn:E; [discriminate|]. apply negb_false_iff, Z.eqb_eq in E. auto.
  - apply andb_true_iff in Hg. destruct Hg as [Hv _]. rewrite Hv in H. cbn [andb] in H.
    destruct (negb (g0 =? rp_gen me)) eqn:E; [discriminate|]. apply negb_false_iff, Z.eqb_eq in E. auto.
Qed.
Lemma guards_target r u : guards r u = true -> prov_target r = Some u.
Proof.
  unfold guards, prov_target. destruct r; try discriminate; intro H; try (apply Z.eqb_eq in H; congruence).
  apply andb_true_iff in H. destruct H as [_ H]. apply Z.eqb_eq in H. congruence.
Qed.

(* one transaction of a thread of Model/Conc.v that holds generation g for u *)
Lemma t_held_step t d u g : t_resp t = None -> t_held t u = Some g ->
  (t_resp (snd (tstep t d)) = None -> t_held (snd (tstep t d)) u = Some g) /\
  (forall r, t_resp (snd (tstep t d)) = Some r -> status r < 300 -> gen_of d u = Some g).
Proof.
  intros Er Hh. destruct (t_ctx t) as [x|] eqn:Ec.
  { rewrite (t_held_ctx t x u Ec) in Hh. destruct (tstep_ctx t d x Ec) as [A B]. split.
    - intro E. rewrite (t_held_ctx _ x u (A E)). exact Hh.
    - intros r E Hr. destruct (B r E Hr) as (ks & objs & d' & -> & Hm). destruct (x_held_kind x u g Hh) as [Hk Hr'].
      eapply main_txn_reshape_gen; eassumption. }
  destruct t; cbn [t_ctx] in Ec; try discriminate; cbn [t_resp] in Er; try discriminate; cbn [t_held] in Hh; try discriminate.
  - (* TProvRead *)
    destruct (guards r u) eqn:Hg; [|discriminate]. cbn [tstep]. rewrite (guards_target r u Hg).
    destruct (find_rp d u) as [me|]; cbn [fst snd t_resp]; [|split; [discriminate|intros r0 [= <-] H; cbn in H; lia]].
    destruct (prov_precheck r me d) as [e|] eqn:Ep; cbn [fst snd t_resp t_held].
    + split; [discriminate|]. intros r0 [= <-] H. pose proof (prov_precheck_status r me d e Ep). lia.
    + split; [|discriminate]. intros _. rewrite Hg, (precheck_none_gen r me d g u Ep Hg Hh). reflexivity.
  - (* TProvWrite *)
    destruct (guards r u) eqn:Hg; [|discriminate]. injection Hh as ->. cbn [tstep].
    destruct (prov_write r g d) as [d' rs] eqn:Ew. cbn [fst snd t_resp]. split; [discriminate|].
    intros r0 [= <-] Hs. eapply prov_write_gen; eassumption.
Qed.

(* one transaction of any thread of Model/ConcAll.v that holds generation g for u: it keeps holding g while its answer is
   open, and it fixes a success only in a transaction that found u at generation g *)
Lemma a_held_step cf t d u g : a_resp t = None -> a_held t u = Some g ->
  (a_resp (fst (astep cf t d)) = None -> a_held (fst (astep cf t d)) u = Some g) /\
  (forall r, a_resp (fst (astep cf t d)) = Some r -> status r < 300 -> gen_of d u = Some g).
Proof.
  intros Er Hh.
  assert (Herr : forall s c d1, 300 <= s ->
            (a_resp (ADone (err s c)) = None -> a_held (ADone (err s c)) u = Some g) /\
            (forall r, a_resp (ADone (err s c)) = Some r -> status r < 300 -> gen_of d1 u = Some g)).
  { intros s c d1 Hs. split; [discriminate|]. intros r [= <-] H. cbn in H. lia. }
  destruct t as [t0|snap t0|t0|c|t0|u0 g0 ts|u0 ts g0|u0 ts g0 lost|v u0 g0 l|v u0 l g0 gone|n|n|n|old new|id new|n|id|t1|t1|t1|t1 stale];
    cbn [a_held] in Hh; try discriminate.
  - (* ATree (TTOther _) *)
    destruct t0 as [r|v u0 name parent|v u0 name parent|v u0 name np g0|u0|u0|t0]; try discriminate.
    cbn [a_resp] in Er. cbn [astep ttstep]. pose proof (t_held_step t0 d u g Er Hh) as H.
    destruct (tstep t0 d) as [d' t']. exact H.
  - (* ACached *)
    cbn [a_resp] in Er.
    destruct t0 as [r|r|r g1|x todo|x todo acc|x c todo acc|x c todo acc|x ks todo objs|x ks objs|todo r|c|c rows|c];
      try (rewrite acached_default by (intros; discriminate); cbn [fst snd a_resp a_held];
           match goal with |- context [tstep ?tt d] => exact (t_held_step tt d u g Er Hh) end).
    + destruct todo as [|[k|k a] rest];
        try (rewrite acached_default by (intros; discriminate); cbn [fst snd a_resp a_held];
             match goal with |- context [tstep ?tt d] => exact (t_held_step tt d u g Er Hh) end).
      cbn [astep tstep]. destruct (cache_misses snap (wipe_list d (co_uuid k)));
        destruct rest; cbn [fst snd a_resp a_held t_resp t_held]; (split; [intros _; exact Hh|discriminate]).
    + cbn [astep]. unfold main_txn_cached. cbn [t_held] in Hh. destruct (x_held_kind x u g Hh) as [Hk Hr].
      destruct (main_txn x ks objs (set_rcs d (rcs d ++ stale_rows d snap))) as [d'|e] eqn:Em; cbn [fst snd a_resp]; rewrite cleanup_resp.
      * split; [discriminate|]. intros r _ _. exact (main_txn_reshape_gen x ks objs _ d' u g Hk Hr Em).
      * split; [discriminate|]. intros r [= <-] H. exfalso.
        assert (300 <= status (main_err x e)) by (unfold main_err; destruct (x_kind x); [apply alloc_err_status|apply alloc_err_status|apply reshape_err_status]).
        lia.
  - (* ACacheLoad *)
    cbn [astep fst snd a_resp a_held]. split; [intros _; exact Hh|].
    intros r E _. exfalso. destruct t0; cbn [t_resp] in E; try discriminate; cbn [t_held] in Hh; discriminate.
  - (* ADelLoad *)
    cbn [astep fst snd a_resp a_held]. split; [intros _; exact Hh|].
    intros r E _. exfalso. destruct t0; cbn [t_resp] in E; try discriminate; cbn [t_held] in Hh; discriminate.
  - (* ATraitsRead *)
    destruct (u0 =? u) eqn:Eu; [|discriminate]. injection Hh as ->. apply Z.eqb_eq in Eu. subst u0. cbn [astep].
    destruct (find_rp d u) as [me|]; cbn [fst snd]; [|apply Herr; lia].
    destruct (negb (g =? rp_gen me)) eqn:E; cbn [fst snd]; [apply Herr; lia|]. apply negb_false_iff, Z.eqb_eq in E.
    cbn [a_resp a_held]. rewrite Z.eqb_refl, <- E. split; [reflexivity|discriminate].
  - (* ATraitsLook *)
    destruct (u0 =? u) eqn:Eu; [|discriminate]. injection Hh as ->. cbn [astep].
    destruct (negb _); cbn [fst snd]; [apply Herr; lia|]. cbn [a_resp a_held]. rewrite Eu. split; [reflexivity|discriminate].
  - (* ATraitsWrite *)
    destruct (u0 =? u) eqn:Eu; [|discriminate]. injection Hh as ->. apply Z.eqb_eq in Eu. subst u0. cbn [astep].
    destruct (existsb _ ts); cbn [fst snd]; [apply Herr; lia|].
    unfold set_traits_chk. destruct (forallb _ _); cbn [fst snd]; [|apply Herr; lia].
    destruct (set_traits_c d u g ts) as [d'|e] eqn:E; cbn [fst snd]; [|destruct e; cbn [fst snd]; apply Herr; lia].
    split; [discriminate|]. intros r _ _. eapply set_traits_c_gen, E.
  - (* AAggsRead *)
    destruct ((19 <=? v) && (u0 =? u)) eqn:Eu; [|discriminate]. injection Hh as ->. apply andb_true_iff in Eu. destruct Eu as [Ev Eu].
    apply Z.eqb_eq in Eu. subst u0. cbn [astep]. destruct (find_rp d u) as [me|]; cbn [fst snd]; [|apply Herr; lia].
    rewrite Ev. cbn [andb]. destruct (negb (g =? rp_gen me)) eqn:E; cbn [fst snd]; [apply Herr; lia|]. apply negb_false_iff, Z.eqb_eq in E.
    cbn [a_resp a_held]. rewrite Ev, Z.eqb_refl, <- E. split; [reflexivity|discriminate].
  - (* AAggsWrite *)
    destruct ((19 <=? v) && (u0 =? u)) eqn:Eu; [|discriminate]. injection Hh as ->. apply andb_true_iff in Eu. destruct Eu as [Ev Eu].
    apply Z.eqb_eq in Eu. subst u0. cbn [astep]. destruct (if gone then None else find_rp d u) as [me|]; cbn [fst snd]; [|apply Herr; lia].
    rewrite Ev. destruct (set_aggregates_txn d u g (dedup l) true) as [d'|e] eqn:E; cbn [fst snd]; [|apply Herr; lia].
    split; [discriminate|]. intros r _ _. eapply bumped_gen, set_aggregates_txn_bumped, E.
Qed.

(* (a) a thread holding generation g for u that fixes a success does so in a transaction that found u at generation g, and
   moves u's generation within the bounds of its kind (g -> g + 1 for the kinds whose bounds are exact) *)
Theorem c05a_commit_generation : forall cf t d u g r,
  a_resp t = None -> a_held t u = Some g ->
  a_resp (fst (astep cf t d)) = Some r -> status r < 300 ->
  gen_of d u = Some g /\ in_bounds (a_bounds t u) (gdelta d (snd (astep cf t d)) u).
Proof.
  intros cf t d u g r Er Hh E Hs. split; [exact (proj2 (a_held_step cf t d u g Er Hh) r E Hs)|].
  pose proof (a_acct cf t d u) as A. rewrite Er in A. destruct A as [[A _]|[r' [A1 [[A2 _]|[_ A2]]]]]; [congruence| |exact A2].
  rewrite E in A1. injection A1 as <-. lia.
Qed.

(* ================================================================ (b) at most one increment per held generation *)
Lemma b01_nonneg u0 u : 0 <= b01 u0 u.
Proof. apply b01_range. Qed.
Lemma a_bounds_lo t u : 0 <= fst (a_bounds t u).
Proof.
  assert (Hk : forall k, 0 <= fst (kind_bounds k)) by (intro k; rewrite kind_bounds_fst; lia).
  assert (Hr : forall r, 0 <= fst (req_bounds r u)).
  { intro r. destruct r; cbn [req_bounds fst]; try lia; try apply b01_nonneg. destruct (19 <=? v); cbn [fst]; [apply b01_nonneg|lia]. }
  assert (Ht : forall t0, 0 <= fst (t_bounds t0 u)) by (intro t0; destruct t0; cbn [t_bounds fst]; auto; lia).
  destruct t; cbn [a_bounds fst]; auto; try lia.
  - destruct t; cbn [fst]; auto; lia.
  - destruct (19 <=? v); cbn [fst]; [apply b01_nonneg|lia].
  - destruct (19 <=? v); cbn [fst]; [apply b01_nonneg|lia].
Qed.
Lemma gdelta_refl d u : gdelta d d u = 0.
Proof. apply quiet_gdelta, quiet_refl. Qed.

Section AtMostOne.
  Variables (cf : cfg) (u g : Z).

  (* one request: its tally is not negative; while its answer is open it has added nothing and - if it is one of the
     requests holding g - still holds g *)
  Definition th1 (t : athread) (z : Z) (f : bool) : Prop :=
    0 <= z /\ (a_resp t = None -> z = 0 /\ (f = true -> a_held t u = Some g)).

  Lemma th1_step t z f d : th1 t z f ->
    th1 (fst (astep cf t d)) (z + gdelta d (snd (astep cf t d)) u) f /\
    0 <= gdelta d (snd (astep cf t d)) u /\
    (0 < gdelta d (snd (astep cf t d)) u -> z = 0 /\ (f = true -> gen_of d u = Some g)).
  Proof.
    intros [Hz Ho]. pose proof (a_acct cf t d u) as A. destruct (a_resp t) as [r|] eqn:Er.
    - destruct A as [A1 A2]. rewrite (quiet_gdelta _ _ u A2), Z.add_0_r. split; [|split; [lia|lia]].
      split; [exact Hz|]. rewrite A1. discriminate.
    - destruct (Ho eq_refl) as [-> Hf]. destruct A as [[A1 [A2 _]]|[r [A1 A]]].
      + rewrite (quiet_gdelta _ _ u A2). split; [|split; [lia|lia]]. split; [lia|]. intros _. split; [reflexivity|].
        intro Ef. apply (proj1 (a_held_step cf t d u g Er (Hf Ef)) A1).
      + destruct A as [[Hs Hq]|[Hs [Hlo _]]].
        * rewrite (quiet_gdelta _ _ u Hq). split; [|split; [lia|lia]]. split; [lia|]. rewrite A1. discriminate.
        * pose proof (a_bounds_lo t u) as Hb. split; [|split; [lia|]].
          -- split; [lia|]. rewrite A1. discriminate.
          -- intros _. split; [reflexivity|]. intro Ef. apply (proj2 (a_held_step cf t d u g Er (Hf Ef)) r A1 Hs).
  Qed.

  Inductive thL : list athread -> list Z -> list bool -> Prop :=
  | th_nil : thL [] [] []
  | th_cons t z f ts tl fs : th1 t z f -> thL ts tl fs -> thL (t :: ts) (z :: tl) (f :: fs).
  (* the number of requests holding g that have incremented u *)
  Fixpoint cnt (fs : list bool) (tl : list Z) : Z :=
    match fs, tl with
    | f :: fs', z :: tl' => (if f && (0 <? z) then 1 else 0) + cnt fs' tl'
    | _, _ => 0
    end.
  Lemma cnt_nonneg : forall fs tl, 0 <= cnt fs tl.
  Proof. induction fs as [|f fs IH]; intros [|z tl]; cbn [cnt]; try lia. specialize (IH tl). destruct (f && (0 <? z)); lia. Qed.

  Lemma thL_anote gt gp ts tl fs : thL ts tl fs -> thL (map (anote gt gp) ts) tl fs.
  Proof.
    induction 1 as [|t z f ts tl fs H1 _ IH]; cbn [map]; constructor; [|exact IH].
    unfold th1 in *. rewrite anote_resp, anote_held. exact H1.
  Qed.

  Lemma raw_step_th : forall ts tl fs, thL ts tl fs -> forall i d,
    let dl := gdelta d (snd (a_step_raw cf i ts d)) u in
    thL (fst (a_step_raw cf i ts d)) (add_nth i dl tl) fs /\ 0 <= dl /\
    (0 < dl -> cnt fs (add_nth i dl tl) = cnt fs tl + (if nth i fs false then 1 else 0) /\
               (nth i fs false = true -> gen_of d u = Some g)) /\
    (dl = 0 -> cnt fs (add_nth i dl tl) = cnt fs tl).
  Proof.
    induction 1 as [|t z f ts tl fs H1 HL IH]; intros i d; cbv zeta.
    - assert (E : a_step_raw cf i [] d = ([], d)) by (destruct i; reflexivity). rewrite E. cbn [fst snd]. rewrite gdelta_refl.
      assert (Ea : add_nth i 0 [] = []) by (destruct i; reflexivity). rewrite Ea. split; [constructor|]. split; [lia|]. split; [lia|reflexivity].
    - destruct i as [|i]; cbn [a_step_raw add_nth nth].
      + pose proof (th1_step t z f d H1) as [S1 [S2 S3]]. destruct (astep cf t d) as [t' d']. cbn [fst snd] in *.
        split; [constructor; assumption|]. split; [exact S2|]. split.
        * intro Hp. destruct (S3 Hp) as [-> Hg]. split; [|exact Hg]. cbn [cnt]. rewrite Z.add_0_l.
          assert (E1 : (0 <? 0) = false) by reflexivity. assert (E2 : (0 <? gdelta d d' u) = true) by (apply Z.ltb_lt; exact Hp).
          rewrite E1, E2, andb_false_r, andb_true_r. destruct f; lia.
        * intro E0. rewrite E0, Z.add_0_r. reflexivity.
      + specialize (IH i d). cbv zeta in IH. destruct (a_step_raw cf i ts d) as [ts' d']. cbn [fst snd] in *.
        destruct IH as [I1 [I2 [I3 I4]]]. split; [constructor; assumption|]. split; [exact I2|]. split.
        * intro Hp. destruct (I3 Hp) as [Ec Hg]. split; [|exact Hg]. cbn [cnt]. rewrite Ec. lia.
        * intro E0. cbn [cnt]. rewrite (I4 E0). reflexivity.
  Qed.

  Theorem run_at_most_one : forall s ts d tl fs, thL ts tl fs -> alive cf u s ts d ->
    cnt fs tl <= 1 -> (cnt fs tl = 1 -> exists g', gen_of d u = Some g' /\ g < g') ->
    let '(_, _, tl') := a_run_tally cf u s ts d tl in cnt fs tl' <= 1.
  Proof.
    induction s as [|i s IH]; intros ts d tl fs HL Hal Hc Hg; cbn [a_run_tally]; [exact Hc|].
    cbn [alive] in Hal. destruct Hal as [Hne Hal]. pose proof (raw_step_th ts tl fs HL i d) as R. cbv zeta in R.
    unfold a_step_thread in *. destruct (a_step_raw cf i ts d) as [ts1 d1]. cbn [fst snd] in R.
    destruct R as [R1 [R2 [R3 R4]]].
    assert (Hne1 : gen_of d1 u <> None) by (destruct s; cbn [alive] in Hal; apply Hal).
    destruct (gen_of d u) as [gd|] eqn:Egd; [|contradiction]. destruct (gen_of d1 u) as [gd1|] eqn:Egd1; [|contradiction].
    assert (Ed : gdelta d d1 u = gd1 - gd) by (unfold gdelta; rewrite Egd, Egd1; reflexivity).
    apply IH; [apply thL_anote; exact R1|exact Hal| |].
    - destruct (Z.eq_dec (gdelta d d1 u) 0) as [E0|En]; [rewrite (R4 E0); exact Hc|].
      destruct (R3 ltac:(lia)) as [Ec Hgen]. rewrite Ec. destruct (nth i fs false); [|lia].
      pose proof (cnt_nonneg fs tl). destruct (Z.eq_dec (cnt fs tl) 1) as [E1|]; [|lia].
      destruct (Hg E1) as [g' [Eg' Hlt]]. specialize (Hgen eq_refl). injection Hgen as ->. injection Eg' as <-. lia.
    - intro E1. rewrite Egd1. exists gd1. split; [reflexivity|].
      destruct (Z.eq_dec (gdelta d d1 u) 0) as [E0|En].
      + rewrite (R4 E0) in E1. destruct (Hg E1) as [g' [Eg' Hlt]]. injection Eg' as <-. lia.
      + destruct (R3 ltac:(lia)) as [Ec Hgen]. destruct (nth i fs false) eqn:Ef.
        * specialize (Hgen eq_refl). injection Hgen as ->. lia.
        * rewrite Ec, Z.add_0_r in E1. destruct (Hg E1) as [g' [Eg' Hlt]]. injection Eg' as <-. lia.
  Qed.

  (* two different requests of the set with a positive tally would count twice *)
  Lemma cnt_two : forall fs tl i j, i <> j -> nth i fs false = true -> nth j fs false = true ->
    0 < nth i tl 0 -> 0 < nth j tl 0 -> 2 <= cnt fs tl.
  Proof.
    assert (One : forall fs tl i, nth i fs false = true -> 0 < nth i tl 0 -> 1 <= cnt fs tl).
    { induction fs as [|f fs IH]; intros tl i Hf Hz; [destruct i; discriminate|]. destruct tl as [|z tl]; [destruct i; cbn in Hz; lia|].
      cbn [cnt]. destruct i as [|i]; cbn [nth] in *.
      - subst f. assert (E : (0 <? z) = true) by (apply Z.ltb_lt; exact Hz). rewrite E. cbn [andb]. pose proof (cnt_nonneg fs tl). lia.
      - specialize (IH tl i Hf Hz). destruct (f && (0 <? z)); lia. }
    induction fs as [|f fs IH]; intros tl i j Hij Hfi Hfj Hzi Hzj; [destruct i; discriminate|].
    destruct tl as [|z tl]; [destruct i; cbn in Hzi; lia|]. cbn [cnt].
    destruct i as [|i], j as [|j]; cbn [nth] in *; try contradiction.
    - subst f. assert (E : (0 <? z) = true) by (apply Z.ltb_lt; exact Hzi). rewrite E. cbn [andb]. pose proof (One fs tl j Hfj Hzj). lia.
    - subst f. assert (E : (0 <? z) = true) by (apply Z.ltb_lt; exact Hzj). rewrite E. cbn [andb]. pose proof (One fs tl i Hfi Hzi). lia.
    - assert (Hij' : i <> j) by congruence. specialize (IH tl i j Hij' Hfi Hfj Hzi Hzj). destruct (f && (0 <? z)); lia.
  Qed.
End AtMostOne.

(* ================================================================ (c) a provider nobody deletes exists throughout *)
Definition keeps (d d' : db) (u : Z) : Prop := gen_of d u <> None -> gen_of d' u <> None.
Lemma keeps_refl d u : keeps d d u.
Proof. intro H. exact H. Qed.
Lemma keeps_rps d d' u : rps d' = rps d -> keeps d d' u.
Proof. intros E H. rewrite (gen_of_rps d d' u E). exact H. Qed.
Lemma keeps_ole d d' u : ole (gen_of d u) (gen_of d' u) -> keeps d d' u.
Proof. intros H Hn. destruct (gen_of d u) as [g|] eqn:E; [|contradiction]. destruct (H g eq_refl) as [g' [E' _]]. rewrite E'. discriminate. Qed.
Lemma keeps_bump1 u0 d d' u : bump1 u0 d d' -> keeps d d' u.
Proof.
  intros [[g [A B]] C] Hn. destruct (Z.eq_dec u u0) as [->|Hx]; [rewrite B; discriminate|rewrite (C u Hx); exact Hn].
Qed.

(* the thread is (about to issue) the DELETE of provider u *)
Definition is_del (u : Z) (t : athread) : bool :=
  match t with ATree (TTDelLoad u0) | ATree (TTDelete u0) => u0 =? u | _ => false end.

Lemma astep_keeps cf t d u : is_del u t = false -> keeps d (snd (astep cf t d)) u.
Proof.
  intro Hd.
  destruct t as [t0|snap t0|t0|c|t0|u0 g0 ts|u0 ts g0|u0 ts g0 lost|v u0 g0 l|v u0 l g0 gone|n|n|n|old new|id new|n|id|t1|t1|t1|t1 stale].
  - cbn [astep]. destruct t0 as [r|v u0 name parent|v u0 name parent|v u0 name np g0|u0|u0|t0]; cbn [ttstep].
    + apply keeps_refl.
    + unfold h_rp_create. destruct (_ && _); [apply keeps_refl|].
      destruct (rp_create d u0 name parent) as [d'|e] eqn:E; [|destruct e; apply keeps_refl]. cbn [fst snd].
      apply keeps_ole. apply (proj1 (rp_create_spec _ _ _ _ _ E)).
    + destruct (find_rp d u0); [|apply keeps_refl]. destruct (_ && _); apply keeps_refl.
    + destruct (find_rp d u0) as [me|]; [|apply keeps_refl].
      destruct (rp_update d me name np (37 <=? v)) as [d'|e] eqn:E; cbn [rp_update_answer snd]; [|destruct e; apply keeps_refl].
      intro H. rewrite (proj2 (proj2 (rp_update_spec _ _ _ _ _ _ E)) u). exact H.
    + destruct (find_rp d u0); apply keeps_refl.
    + cbn [is_del] in Hd. apply Z.eqb_neq in Hd.
      destruct (rp_delete d u0) as [d'|e] eqn:E; cbn [rp_delete_answer snd]; [|destruct e; apply keeps_refl].
      intro H. rewrite (proj1 (proj2 (rp_delete_spec _ _ _ E) u ltac:(congruence))). exact H.
    + pose proof (fun d' t' => tstep_mono t0 d d' t') as M. destruct (tstep t0 d) as [d' t']. cbn [snd]. apply keeps_ole. apply (M d' t' eq_refl).
  - assert (Hdef : forall t1, keeps d (fst (tstep t1 d)) u).
    { intro t1. pose proof (fun d' t' => tstep_mono t1 d d' t') as M. destruct (tstep t1 d) as [d' t']. apply keeps_ole. apply (M d' t' eq_refl). }
    destruct t0 as [r|r|r g1|x todo|x todo acc|x c todo acc|x c todo acc|x ks todo objs|x ks objs|todo r|c|c rows|c];
      try (rewrite acached_default by (intros; discriminate); cbn [snd]; apply Hdef).
    + destruct todo as [|[k|k a] rest]; try (rewrite acached_default by (intros; discriminate); cbn [snd]; apply Hdef).
      cbn [astep tstep]. destruct (cache_misses _ _); destruct rest; apply keeps_refl.
    + cbn [astep]. unfold main_txn_cached.
      destruct (main_txn x ks objs (set_rcs d (rcs d ++ stale_rows d snap))) as [d'|e] eqn:Em; cbn [snd]; [|apply keeps_refl].
      apply keeps_ole. change (gen_of (set_rcs d' (rcs d)) u) with (gen_of d' u).
      change (gen_of d u) with (gen_of (set_rcs d (rcs d ++ stale_rows d snap)) u).
      apply (tstep_mono (TMain x ks objs) _ d' (cleanup_or_done (created_uuids (empty_created ks (x_all x))) (ok 204))).
      cbn [tstep]. rewrite Em. reflexivity.
  - cbn [astep]. apply keeps_refl.
  - cbn [astep]. cbn [tstep]. destruct (wipe_list d c); apply keeps_refl.
  - cbn [astep]. apply keeps_refl.
  - cbn [astep]. destruct (find_rp d u0); [|apply keeps_refl]. destruct (negb _); apply keeps_refl.
  - cbn [astep]. destruct (negb _); apply keeps_refl.
  - cbn [astep]. destruct (existsb _ ts); [apply keeps_refl|]. unfold set_traits_chk. destruct (forallb _ _); [|apply keeps_refl].
    destruct (set_traits_c d u0 g0 ts) as [d'|e] eqn:E; [|destruct e; apply keeps_refl]. cbn [snd].
    destruct (set_traits_c_class _ _ _ _ _ E) as [->|H]; [apply keeps_refl|eapply keeps_bump1; exact H].
  - cbn [astep]. destruct (find_rp d u0); [|apply keeps_refl]. destruct (_ && _); apply keeps_refl.
  - cbn [astep]. destruct (if gone then None else find_rp d u0); [|apply keeps_refl].
    destruct (set_aggregates_txn d u0 g0 (dedup l) (19 <=? v)) as [d'|e] eqn:E; [|apply keeps_refl]. cbn [snd].
    destruct (19 <=? v); [eapply keeps_bump1, bumped_bump1, set_aggregates_txn_bumped, E|].
    apply keeps_rps. apply (proj1 (set_aggregates_txn_false _ _ _ _ _ E)).
  - cbn [astep]. destruct (rc_create d n) as [d'|e] eqn:E; [|apply keeps_refl]. apply keeps_rps. apply (rc_create_psame _ _ _ E).
  - cbn [astep]. destruct (rc_id_of_name d n); apply keeps_refl.
  - cbn [astep]. destruct (rc_create d n) as [d'|e] eqn:E; [|apply keeps_refl]. apply keeps_rps. apply (rc_create_psame _ _ _ E).
  - cbn [astep]. destruct (rc_id_of_name d old) as [id|]; [|apply keeps_refl]. destruct (id <? MIN_CUSTOM_RC_ID); apply keeps_refl.
  - cbn [astep]. destruct (negb _); [apply keeps_refl|]. destruct (_ || _); [apply keeps_refl|]. apply keeps_rps. reflexivity.
  - cbn [astep]. destruct (rc_id_of_name d n) as [id|]; [|apply keeps_refl]. destruct (id <? MIN_CUSTOM_RC_ID); apply keeps_refl.
  - cbn [astep]. destruct (existsb _ (invs d)); [apply keeps_refl|]. destruct (negb _); [apply keeps_refl|]. apply keeps_rps. reflexivity.
  - cbn [astep]. destruct (trait_exists d t1); apply keeps_refl.
  - cbn [astep]. destruct (trait_create d t1) as [d'|e] eqn:E; [|apply keeps_refl]. apply keeps_rps. apply (trait_create_psame _ _ _ E).
  - cbn [astep]. destruct (negb _); [apply keeps_refl|]. destruct (is_std_trait t1); apply keeps_refl.
  - cbn [astep]. destruct stale; [apply keeps_refl|]. destruct (existsb _ (rp_traits d)); [apply keeps_refl|]. destruct (negb _); [apply keeps_refl|].
    apply keeps_rps. reflexivity.
Qed.

Lemma astep_is_del cf t d u : is_del u t = false -> is_del u (fst (astep cf t d)) = false.
Proof.
  intro Hd.
  destruct t as [t0|snap t0|t0|c|t0|u0 g0 ts|u0 ts g0|u0 ts g0 lost|v u0 g0 l|v u0 l g0 gone|n|n|n|old new|id new|n|id|t1|t1|t1|t1 stale];
    try (cbn [astep]; repeat match goal with |- context [match ?x with _ => _ end] => destruct x end; reflexivity).
  - cbn [astep]. destruct t0 as [r|v u0 name parent|v u0 name parent|v u0 name np g0|u0|u0|t0]; cbn [ttstep].
    + reflexivity.
    + destruct (h_rp_create d v u0 name parent). reflexivity.
    + destruct (find_rp d u0); [|reflexivity]. destruct (_ && _); reflexivity.
    + destruct (find_rp d u0) as [me|]; [|reflexivity]. destruct (rp_update d me name np (37 <=? v)) as [d'|e]; [reflexivity|destruct e; reflexivity].
    + cbn [is_del] in Hd. destruct (find_rp d u0); [cbn [fst is_del]; exact Hd|reflexivity].
    + destruct (rp_delete d u0) as [d'|e]; [reflexivity|destruct e; reflexivity].
    + destruct (tstep t0 d). reflexivity.
Qed.
Lemma anote_is_del gt gp t u : is_del u (anote gt gp t) = is_del u t.
Proof. destruct t; reflexivity. Qed.

Lemma a_step_raw_keeps cf u : forall ts i d, Forall (fun t => is_del u t = false) ts ->
  Forall (fun t => is_del u t = false) (fst (a_step_raw cf i ts d)) /\ keeps d (snd (a_step_raw cf i ts d)) u.
Proof.
  induction ts as [|t ts IH]; intros i d HF; [destruct i; cbn [a_step_raw fst snd]; (split; [constructor|apply keeps_refl])|].
  inversion HF as [|? ? Ht HF']; subst. destruct i as [|i]; cbn [a_step_raw].
  - pose proof (astep_keeps cf t d u Ht) as K. pose proof (astep_is_del cf t d u Ht) as D. destruct (astep cf t d) as [t' d'].
    cbn [fst snd] in *. split; [constructor; assumption|exact K].
  - destruct (IH i d HF') as [A B]. destruct (a_step_raw cf i ts d) as [ts' d']. cbn [fst snd] in *. split; [constructor; assumption|exact B].
Qed.

(* u exists at the start and no thread is (about to issue) its DELETE: u exists after every step of every schedule *)
Theorem alive_no_delete cf u : forall s ts d, Forall (fun t => is_del u t = false) ts -> gen_of d u <> None -> alive cf u s ts d.
Proof.
  induction s as [|i s IH]; intros ts d HF Hn; cbn [alive]; [auto|]. split; [exact Hn|].
  destruct (a_step_raw_keeps cf u ts i d HF) as [A B]. unfold a_step_thread. destruct (a_step_raw cf i ts d) as [ts1 d1]. cbn [fst snd] in *.
  apply IH; [|apply B; exact Hn]. apply Forall_forall. intros t Ht. apply in_map_iff in Ht. destruct Ht as [t0 [<- Ht0]].
  rewrite anote_is_del. rewrite Forall_forall in A. apply A. exact Ht0.
Qed.
Lemma ainit_is_del cf r u : r <> RpDelete u -> is_del u (ainit cf r) = false.
Proof.
  intro H. destruct r; cbn [ainit ttinit]; try reflexivity;
    repeat match goal with |- context [if ?b then _ else _] => destruct b end; try reflexivity.
  all: try (cbn [is_del]; apply Z.eqb_neq; intro E; apply H; congruence).
  all: try (unfold tinit; cbn [prov_target]; repeat match goal with |- context [match ?x with _ => _ end] => destruct x end; reflexivity).
Qed.

(* ================================================================ the theorems over whole schedules *)
Lemma Forall_ainit_no_delete cf u reqs : (forall r, In r reqs -> r <> RpDelete u) ->
  Forall (fun t => is_del u t = false) (map (ainit cf) reqs).
Proof.
  intro H. apply Forall_forall. intros t Ht. apply in_map_iff in Ht. destruct Ht as [r [<- Hr]]. apply ainit_is_del. apply H. exact Hr.
Qed.

(* (c) the accounting of Proofs/C10c.v with a hypothesis on the requests only: nobody deletes u *)
Theorem c10c_accounting_no_delete : forall cf reqs s d u g,
  gen_of d u = Some g -> (forall r, In r reqs -> r <> RpDelete u) ->
  let '(ts, d', tl) := a_run_tally cf u s (map (ainit cf) reqs) d (map (fun _ => 0) reqs) in
  a_exec cf reqs s d = (ts, d') /\
  acctL u ts tl (map (fun r => a_bounds (ainit cf r) u) reqs) /\
  gen_of d' u = Some (g + sumZ tl).
Proof.
  intros cf reqs s d u g Hg Hnd. pose proof (c10c_accounting cf reqs s d u) as H.
  destruct (a_run_tally cf u s (map (ainit cf) reqs) d (map (fun _ => 0) reqs)) as [[ts d'] tl].
  destruct H as [H1 [H2 H3]]. split; [exact H1|]. split; [exact H2|]. apply (H3 g Hg).
  apply alive_no_delete; [apply Forall_ainit_no_delete; exact Hnd|rewrite Hg; discriminate].
Qed.

(* the requests that hold generation g for u from the start: PUT inventories, PUT inventory, PUT traits, PUT aggregates
   from 1.19 carrying g for u, POST /reshaper naming u with generation g (inventories section, providers named once) *)
Definition holds0 (cf : cfg) (u g : Z) (r : req) : bool :=
  match a_held (ainit cf r) u with Some g0 => g0 =? g | None => false end.

Lemma held_table cf u :
  (forall v u0 g l, a_held (ainit cf (InvSet v u0 g l)) u = if u0 =? u then Some g else None) /\
  (forall v u0 g x, a_held (ainit cf (InvPut v u0 g x)) u = if u0 =? u then Some g else None) /\
  (forall v u0 g ts, 6 <= v -> a_held (ainit cf (TraitsSet v u0 g ts)) u = if u0 =? u then Some g else None) /\
  (forall v u0 g l, 19 <= v -> a_held (ainit cf (AggsSet v u0 g l)) u = if u0 =? u then Some g else None) /\
  (forall v u0 g l, 1 <= v < 19 -> a_held (ainit cf (AggsSet v u0 g l)) u = None) /\
  (forall v ri al, 30 <= v -> a_held (ainit cf (Reshape v ri al)) u = reshape_held ri u) /\
  (forall v u0 x, a_held (ainit cf (InvPost v u0 x)) u = None) /\
  (forall u0 rc, a_held (ainit cf (InvDelete u0 rc)) u = None) /\
  (forall v u0, a_held (ainit cf (InvDeleteAll v u0)) u = None) /\
  (forall v u0, a_held (ainit cf (TraitsDelete v u0)) u = None) /\
  (forall v c, a_held (ainit cf (AllocPut v c)) u = None) /\
  (forall v l, a_held (ainit cf (AllocPost v l)) u = None).
Proof.
  repeat split; intros; cbn [ainit ttinit tinit a_held t_held prov_target prov_version_gate guards carried ADone x_held x_kind x_ri];
    repeat match goal with
           | |- context [?a <? ?b] => let E := fresh in destruct (a <? b) eqn:E; [apply Z.ltb_lt in E; try lia|]
           end; cbn [a_held t_held guards carried x_held x_kind x_ri]; try reflexivity.
  all: try (assert (E : (19 <=? v) = true) by (apply Z.leb_le; lia); rewrite E; cbn [andb]).
  all: try (assert (E : (19 <=? v) = false) by (apply Z.leb_gt; lia); rewrite E; cbn [andb]).
  all: try (destruct (u0 =? u); reflexivity).
  all: try reflexivity.
Qed.

Lemma cnt_zero {A} (fs : list bool) (l : list A) : cnt fs (map (fun _ => 0) l) = 0.
Proof.
  revert l. induction fs as [|f fs IH]; intros [|x l]; cbn [cnt map]; try reflexivity. rewrite IH, andb_false_r. reflexivity.
Qed.
Lemma thL_init cf u g : forall reqs, thL u g (map (ainit cf) reqs) (map (fun _ => 0) reqs) (map (holds0 cf u g) reqs).
Proof.
  induction reqs as [|r reqs IH]; cbn [map]; constructor; [|exact IH]. unfold th1. split; [lia|]. intros _. split; [reflexivity|].
  unfold holds0. destruct (a_held (ainit cf r) u) as [g0|]; [|discriminate]. intro E. apply Z.eqb_eq in E. congruence.
Qed.

(* (b) any start state, any requests none of which deletes u, any schedule: of the requests holding generation g for u,
   AT MOST ONE increments u's generation.  (By c10c_accounting a request that increments is a request answered with success;
   the others holding g are rejected - or accepted without an increment: a PUT traits that changes nothing, which still has
   compared the generation.) *)
Theorem c05a_at_most_one : forall cf reqs s d u g,
  gen_of d u <> None -> (forall r, In r reqs -> r <> RpDelete u) ->
  let fs := map (holds0 cf u g) reqs in
  let '(_, _, tl) := a_run_tally cf u s (map (ainit cf) reqs) d (map (fun _ => 0) reqs) in
  cnt fs tl <= 1 /\
  forall i j, i <> j -> nth i fs false = true -> nth j fs false = true -> 0 < nth i tl 0 -> 0 < nth j tl 0 -> False.
Proof.
  intros cf reqs s d u g Hex Hnd. cbv zeta.
  pose proof (run_at_most_one cf u g s (map (ainit cf) reqs) d (map (fun _ => 0) reqs) (map (holds0 cf u g) reqs)
                (thL_init cf u g reqs) (alive_no_delete cf u s _ d (Forall_ainit_no_delete cf u reqs Hnd) Hex)) as H.
  rewrite cnt_zero in H. specialize (H ltac:(lia) ltac:(lia)).
  destruct (a_run_tally cf u s (map (ainit cf) reqs) d (map (fun _ => 0) reqs)) as [[ts d'] tl].
  split; [exact H|]. intros i j Hij Hi Hj Zi Zj. pose proof (cnt_two (map (holds0 cf u g) reqs) tl i j Hij Hi Hj Zi Zj). lia.
Qed.

(* requests deriving the generation themselves (POST / DELETE inventory, DELETE inventories, DELETE traits): the generation
   they hold from their read transaction on is the one stored then - and (a) applies from there *)
Lemma c05a_self_derived_read cf r d u : guards r u = true -> carried r = None ->
  a_resp (fst (astep cf (ATree (TTOther (TProvRead r))) d)) = None ->
  a_held (fst (astep cf (ATree (TTOther (TProvRead r))) d)) u = gen_of d u /\ gen_of d u <> None.
Proof.
  intros Hg Hc. cbn [astep ttstep tstep]. rewrite (guards_target r u Hg). unfold gen_of.
  destruct (find_rp d u) as [me|]; cbn [fst a_resp t_resp]; [|discriminate].
  destruct (prov_precheck r me d); cbn [fst a_resp t_resp a_held t_held]; [discriminate|]. intros _. rewrite Hg. cbn. split; [reflexivity|discriminate].
Qed.

(* ================================================================ examples (set-up of harness/conc_extra.py, provider 1 at 4) *)
(* 'same-traits-twice': two identical PUT traits carrying the stored generation and the stored traits: BOTH are accepted, none
   increments (each has compared the generation); so "at most one succeeds" holds for successes WITH an increment only *)
Example c05a_same_traits_twice :
  let reqs := [TraitsSet 39 1 4 [100002]; TraitsSet 39 1 4 [100002]] in
  let '(ts, d', tl) := a_run_tally cx_cf 1 [0; 1; 0; 1; 0; 1]%nat (map (ainit cx_cf) reqs) cx_d0 [0; 0] in
  (map (holds0 cx_cf 1 4) reqs, map cx_status ts, cx_gen cx_d0 1, cx_gen d' 1, tl) = ([true; true], [200; 200], 4, 4, [0; 0]).
Proof. timeout 120 vm_compute. reflexivity. Qed.
(* a PUT traits that changes something against a PUT inventories, both carrying generation 4: one is refused *)
Example c05a_traits_vs_inventories :
  let reqs := [TraitsSet 39 1 4 [100001]; InvSet 39 1 4 [mkInvIn 0 8 0 1 2147483647 1 1 0; mkInvIn 2 200 0 1 2147483647 1 1 0]] in
  let '(ts, d', tl) := a_run_tally cx_cf 1 [0; 1; 0; 1; 0]%nat (map (ainit cx_cf) reqs) cx_d0 [0; 0] in
  (map (holds0 cx_cf 1 4) reqs, map cx_status ts, cx_gen cx_d0 1, cx_gen d' 1, tl) = ([true; true], [409; 200], 4, 5, [0; 1]).
Proof. timeout 120 vm_compute. reflexivity. Qed.

Print Assumptions c05a_commit_generation.
Print Assumptions c05a_at_most_one.
Print Assumptions c10c_accounting_no_delete.
Print Assumptions alive_no_delete.
Print Assumptions held_table.
Print Assumptions c05a_same_traits_twice.
Print Assumptions c05a_traits_vs_inventories.
