(* C06 - consumer generations prevent lost updates of a consumer's allocations: proofs.
   Built on the execution machinery and the allocation-write invariant AInv of Proofs/C05.v. *)
From PV Require Import Proofs.ConcDefs Proofs.C04 Proofs.C10 Proofs.C05.

(* ================================================================== well-formed requests *)
Lemma ctx_of_consumers cf r e : In e (req_consumers r) ->
  exists x0, ctx_of cf r = Some x0 /\ x_all x0 = req_consumers r /\ x_v x0 = req_version r.
Proof. destruct r; cbn; try contradiction; intros _; eexists; repeat split. Qed.

Lemma req_wf_consumers r : req_wf r = true ->
  NoDup (map ci_uuid (req_consumers r)) /\ forall e, In e (req_consumers r) -> cons_in_wf e = true.
Proof.
  assert (L : forall l, cons_list_wf l = true -> NoDup (map ci_uuid l) /\ forall e, In e l -> cons_in_wf e = true).
  { intros l H. unfold cons_list_wf in H. apply andb_true_iff in H. destruct H as [H1 H2].
    split; [apply nodupb_NoDup; assumption|]. apply forallb_forall. assumption. }
  destruct r; cbn; intros H; try solve [split; [constructor|intros e []]].
  - split; [repeat constructor; intros []|]. intros e [<-|[]]. assumption.
  - apply L. assumption.
  - apply andb_true_iff in H. destruct H as [_ H]. apply L. assumption.
Qed.

Lemma cons_in_wf_amt e al x : cons_in_wf e = true -> In al (ci_allocs e) -> In x (ai_res al) -> 1 <= snd x.
Proof.
  unfold cons_in_wf. intros H Ha Hx. apply andb_true_iff in H. destruct H as [H _].
  rewrite forallb_forall in H. specialize (H al Ha). apply alloc_in_wf_spec in H. destruct H as [H _]. auto.
Qed.

(* ================================================================== _set_allocations and one consumer *)
Lemma cas_conss_first : forall l d d' c g, cas_conss d l = Ok d' -> In c (map fst l) ->
  (forall g', In (c, g') l -> g' = g) -> cgl (consumers d) c = Some g.
Proof.
  induction l as [|[u g0] l IH]; intros d d' c g H Hin Hall; [destruct Hin|]. cbn [cas_conss] in H.
  destruct (incr_cons_gen d u g0) as [d1|] eqn:E; [|discriminate]. cbn [bind] in H.
  apply incr_cons_gen_inv in E. destruct E as (l' & E & ->). apply cas_cons_l_spec in E. destruct E as (E1 & E2 & E3).
  destruct (Z.eq_dec u c) as [->|Hu].
  - rewrite E1. f_equal. apply Hall. left. reflexivity.
  - rewrite <- (E3 c) by congruence. apply (IH _ _ _ _ H).
    + destruct Hin as [Hin|Hin]; [cbn in Hin; congruence|assumption].
    + intros g' Hg'. apply Hall. right. assumption.
Qed.

Lemma first_by_sub : forall l seen p, In p (first_by seen l) -> In p l.
Proof.
  induction l as [|[k g] l IH]; intros seen p H; cbn [first_by] in H; [destruct H|].
  destruct (memZ k seen); [right; eauto|]. destruct H as [<-|H]; [left; reflexivity|right; eauto].
Qed.

Lemma sa_cons_before w0 l0 w1 c g : set_allocations w0 l0 = Ok w1 -> In c (map q_cons l0) ->
  (forall a, In a l0 -> q_cons a = c -> q_cgen a = g) -> cgl (consumers w0) c = Some g.
Proof.
  unfold set_allocations. cbv zeta. intros H Hin Hall.
  destruct (check_capacity _ l0) as [[]|]; [|discriminate]. cbn [bind] in H.
  destruct (cas_rps _ _) as [d3|] eqn:E3; [|discriminate]. cbn [bind] in H.
  destruct (cas_conss _ _) as [d4|] eqn:E4; [|discriminate]. cbn [bind] in H.
  apply cas_rps_spec in E3. destruct E3 as (_ & _ & C3 & _). cbn in C3. rewrite <- C3.
  apply (cas_conss_first _ _ _ _ _ E4).
  - apply first_by_In; [|reflexivity]. rewrite map_map. cbn. assumption.
  - intros g' Hg'. apply first_by_sub in Hg'. apply in_map_iff in Hg'. destruct Hg' as (a & Ea & Ha). inv Ea.
    apply Hall; auto.
Qed.

Lemma sa_keeps w0 l0 w1 c : set_allocations w0 l0 = Ok w1 ->
  (forall a, In a l0 -> q_cons a = c -> 0 < q_amt a) -> ole (cgl (consumers w0) c) (cgl (consumers w1) c).
Proof.
  unfold set_allocations. cbv zeta. intros H Hall.
  destruct (check_capacity _ l0) as [[]|]; [|discriminate]. cbn [bind] in H.
  destruct (cas_rps _ _) as [d3|] eqn:E3; [|discriminate]. cbn [bind] in H.
  destruct (cas_conss _ _) as [d4|] eqn:E4; [|discriminate]. cbn [bind] in H. injection H as <-.
  apply cas_rps_spec in E3. destruct E3 as (_ & _ & C3 & _). cbn in C3.
  apply cas_conss_spec in E4. destruct E4 as (_ & F4 & _). rewrite C3 in F4.
  eapply ole_trans; [apply F4|]. apply ole_eq.
  unfold delete_consumers_if_no_allocations. cbn [consumers set_consumers].
  match goal with |- cgl (filter ?f _) _ = _ =>
    match f with (fun c => negb (memZ _ ?cs && negb (existsb _ ?al))) =>
      rewrite (cgl_filter (fun z => negb (memZ z cs && negb (existsb (fun a => a_cons a =? z) al)))) end end.
  match goal with |- (if negb (memZ c ?cs && _) then _ else _) = _ => destruct (memZ c cs) eqn:M end; [|reflexivity].
  exfalso. apply memZ_In in M. apply filter_In in M. destruct M as (M1 & M2).
  apply (proj1 (dedup_In _ _)) in M1. apply in_map_iff in M1. destruct M1 as (a & Ea & Ha).
  apply negb_true_iff in M2. apply memZ_nIn in M2. apply M2. apply in_map_iff. exists a. split; [assumption|].
  apply filter_In. split; [assumption|]. apply Z.ltb_lt. auto.
Qed.

Section C06.
Variables (cf : cfg) (reqs : list req) (s : list nat) (d : db).
Notation T := (T cf reqs s d).
Notation D := (D cf reqs s d).

(* ================================================================== what the objects of the commit step say about consumer c *)
Section Objs.
Variables (i : nat) (r : req) (x0 : actx) (c : Z).
Hypotheses (Hx : x_all x0 = req_consumers r) (Hwf : req_wf r = true).

Lemma obj_entry k ks b : Forall2 (CobjOK cf reqs s d i x0 k) ks (x_all x0) -> ObjOK x0 ks b -> q_cons b = c ->
  exists kobj e, In (kobj, e) (combine ks (x_all x0)) /\ In e (req_consumers r) /\ ci_uuid e = c /\
    q_cgen b = co_gen kobj /\ CobjOK cf reqs s d i x0 k kobj e /\
    ((exists al, In al (ci_allocs e) /\ In (q_rc b, q_amt b) (ai_res al)) \/ (ci_allocs e = [] /\ q_amt b = 0)).
Proof.
  intros F (kobj & e & Hp & Ec & Eg & Hd) Hc. exists kobj, e. pose proof (F2_comb _ _ _ _ _ F Hp) as CO.
  split; [assumption|]. split; [rewrite <- Hx; eapply in_combine_r; eassumption|].
  split; [destruct CO as (U & _); congruence|]. auto.
Qed.

Lemma objs_amt k ks objs : Forall2 (CobjOK cf reqs s d i x0 k) ks (x_all x0) ->
  (forall a, In a objs -> ObjOK x0 ks a) -> ~ wipes r c ->
  forall l0, map strip l0 = map strip objs -> forall a, In a l0 -> q_cons a = c -> 0 < q_amt a.
Proof.
  intros F O NW l0 S0 a Ha Hc. destruct (strip_in _ _ _ S0 Ha) as (b & Hb & Eb). unfold strip in Eb.
  injection Eb as E1 E2 E3 E4 E5. assert (Hcb : q_cons b = c) by congruence. rewrite E5.
  destruct (obj_entry k ks b F (O _ Hb) Hcb) as (kobj & e & _ & He & Eu & _ & _ & [(al & Hal & Hy)|(Ee & _)]).
  - destruct (req_wf_consumers _ Hwf) as (_ & W). pose proof (cons_in_wf_amt _ _ _ (W _ He) Hal Hy) as L. cbn in L. lia.
  - exfalso. apply NW. exists e. auto.
Qed.

Lemma objs_gen k ks objs e g : Forall2 (CobjOK cf reqs s d i x0 k) ks (x_all x0) ->
  (forall a, In a objs -> ObjOK x0 ks a) ->
  In e (req_consumers r) -> ci_uuid e = c -> ci_gen e = Some g -> 28 <= x_v x0 ->
  forall l0, map strip l0 = map strip objs -> forall a, In a l0 -> q_cons a = c -> q_cgen a = g.
Proof.
  intros F O He Eu Eg V l0 S0 a Ha Hc. destruct (strip_in _ _ _ S0 Ha) as (b & Hb & Eb). unfold strip in Eb.
  injection Eb as E1 E2 E3 E4 E5. assert (Hcb : q_cons b = c) by congruence. rewrite E2.
  destruct (obj_entry k ks b F (O _ Hb) Hcb) as (kobj & e' & _ & He' & Eu' & Eq & CO & _).
  destruct (req_wf_consumers _ Hwf) as (ND & _).
  assert (e' = e) by (eapply NoDup_map_eq; [exact ND|assumption|assumption|congruence]). subst e'.
  destruct CO as (_ & _ & CG & _). destruct (CG V _ Eg) as (G & _). congruence.
Qed.

End Objs.

(* ================================================================== C06_commit_generation *)
Lemma c06_commit_detail i r c g ts' d' :
  exec cf reqs s d = (ts', d') -> nth_error reqs i = Some r ->
  carries_cons_gen r c (Some g) -> req_wf r = true -> succeeded ts' i ->
  (wipes r c -> forall k, wipe_list (D k) c <> []) ->
  exists k, commits_at cf reqs s d i k /\ cgen_of (D k) c = Some g /\
            (exists g', cgen_of (D (S k)) c = Some g' /\ g < g' \/ cgen_of (D (S k)) c = None).
Proof.
  intros He Hr (e & He0 & Eu & Eg & V) Hwf Hs HW.
  destruct (at_step_end _ _ _ _ _ _ He) as [ET ED]. rewrite <- ET in Hs.
  destruct (ctx_of_consumers cf r e He0) as (x0 & Hx0 & Hx & Hv).
  destruct (alloc_master cf reqs s d i r x0 _ Hr Hx0 Hs) as (k & ks & objs & L & Hk & Ht & HP & Hm).
  cbn [AInv] in HP. destruct HP as (_ & _ & F & (O1 & O2 & O3)).
  apply main_txn_spec in Hm. destruct Hm as (_ & w0 & l0 & w1 & S0 & CG & SA & CE).
  assert (EC : forall z, cgen_of (D k) z = cgl (consumers w0) z) by (intros z; rewrite CG; reflexivity).
  assert (EC' : forall z, cgen_of (D (S k)) z = cgl (consumers w1) z).
  { intros z. unfold cgen_of, find_cons. rewrite CE. reflexivity. }
  rewrite <- Hv in V.
  (* there is an object for c *)
  assert (Hq : exists q, In q objs /\ q_cons q = c).
  { assert (He1 : In e (x_all x0)) by (rewrite Hx; assumption).
    destruct (F2_in_r _ _ _ _ F He1) as (kobj & Hp & (U & _)). destruct (wi_complete _ _ _ _ Hp) as (W1 & W2).
    destruct (ci_allocs e) as [|al als] eqn:Ea.
    - destruct (O3 kobj (W2 eq_refl)) as [(q & Hq & Eq)|(k' & _ & Wr)].
      + exists q. split; [assumption|congruence].
      + exfalso. rewrite U, Eu in Wr. refine (HW _ k' Wr). exists e. auto.
    - destruct (O2 kobj al (W1 _ (or_introl eq_refl))) as (q & Hq & Eq).
      + destruct (req_wf_consumers _ Hwf) as (_ & W). eapply cons_in_wf_ne; [apply (W e He0)|rewrite Ea; left; reflexivity].
      + exists q. split; [assumption|congruence]. }
  assert (Hin : In c (map q_cons l0)).
  { rewrite (strip_conss _ _ S0). destruct Hq as (q & Hq & <-). apply in_map. assumption. }
  pose proof (sa_cons_before _ _ _ _ g SA Hin
                (objs_gen i r x0 c Hx Hwf k ks objs e g F O1 He0 Eu Eg V l0 S0)) as B.
  exists k. split; [|split].
  - split; [assumption|]. exists (TMain x0 ks objs). split; [assumption|exact I].
  - rewrite EC. assumption.
  - apply set_allocations_ok in SA. destruct SA as (_ & _ & lm & _ & L2 & L3).
    rewrite EC'. destruct (cgl (consumers w1) c) as [g'|] eqn:G'; [|exists 0; right; reflexivity].
    apply L3 in G'. destruct (L2 c Hin _ B) as (g2 & G2 & Lt). rewrite G' in G2. inv G2. exists g2. left. auto.
Qed.

Lemma c06_null_detail i r c ts' d' :
  exec cf reqs s d = (ts', d') -> nth_error reqs i = Some r ->
  carries_cons_gen r c None -> succeeded ts' i ->
  exists k, nth_error s k = Some i /\ cgen_of (D k) c = None /\ cgen_of (D (S k)) c = Some 0.
Proof.
  intros He Hr (e & He0 & Eu & Eg & V) Hs.
  destruct (at_step_end _ _ _ _ _ _ He) as [ET ED]. rewrite <- ET in Hs.
  destruct (ctx_of_consumers cf r e He0) as (x0 & Hx0 & Hx & Hv).
  destruct (alloc_master cf reqs s d i r x0 _ Hr Hx0 Hs) as (k & ks & objs & L & Hk & Ht & HP & Hm).
  cbn [AInv] in HP. destruct HP as (_ & _ & F & _).
  assert (He1 : In e (x_all x0)) by (rewrite Hx; assumption).
  destruct (F2_in_r _ _ _ _ F He1) as (kobj & Hp & (U & Cr & _ & CN)).
  rewrite <- Hv in V. specialize (Cr (CN V Eg)). destruct Cr as (k' & _ & A & B & C).
  exists k'. rewrite U, Eu in B, C. auto.
Qed.

(* ================================================================== C06_at_most_one: consumer c stays and its generation grows *)
Section Global.
Variable c : Z.
Hypothesis Hall : forall r, In r reqs -> in_scope r /\ req_wf r = true /\ ~ wipes r c.

Lemma T_length k : length (T k) = length reqs.
Proof.
  assert (L1 : forall j ts d0, length (fst (step_thread j ts d0)) = length ts).
  { induction j as [|j IH]; intros [|t ts] d0; cbn [step_thread]; try reflexivity.
    - destruct (tstep t d0). reflexivity.
    - specialize (IH ts d0). destruct (step_thread j ts d0). cbn in *. congruence. }
  assert (L2 : forall s0 ts d0, length (fst (run_sched s0 ts d0)) = length ts).
  { induction s0 as [|j s0 IH]; intros ts d0; cbn [run_sched]; [reflexivity|].
    specialize (L1 j ts d0). destruct (step_thread j ts d0) as [ts1 d1]. rewrite IH. assumption. }
  unfold C05.T, at_step, exec. rewrite L2, map_length. reflexivity.
Qed.

Lemma scope_cases r : in_scope r -> (exists u, prov_target r = Some u) \/
  (exists x0, ctx_of cf r = Some x0 /\ x_all x0 = req_consumers r /\ x_v x0 = req_version r).
Proof. destruct r; cbn; try contradiction; intros _; eauto 6. Qed.

Lemma prov_write_consumers r g0 d0 d1 rs : prov_write r g0 d0 = (d1, rs) -> consumers d1 = consumers d0.
Proof.
  intros H. assert (K : forall u g, bumped u g d0 d1 -> consumers d1 = consumers d0).
  { intros u g Hb. apply bumped_spec in Hb. tauto. }
  unfold prov_write in H. destruct r; try (inv H; reflexivity); pw_split H E; try (pw_err H; reflexivity); inv H.
  - eapply K, set_inventory_bumped; eassumption.
  - eapply K, add_inventory_bumped; eassumption.
  - eapply K, update_inventory_bumped; eassumption.
  - eapply K, delete_inventory_bumped; eassumption.
  - eapply K, set_inventory_bumped; eassumption.
  - apply set_traits_c_spec in E. destruct E as (_ & [(_ & ->)|(_ & B)]); [reflexivity|eapply K; eassumption].
  - apply set_traits_c_spec in E. destruct E as (_ & [(_ & ->)|(_ & B)]); [reflexivity|eapply K; eassumption].
  - unfold set_aggregates_txn in E. cbv zeta in E. destruct (19 <=? v).
    + apply incr_rp_gen_inv in E. destruct E as (l' & _ & ->). reflexivity.
    + inv E. reflexivity.
Qed.

Lemma cons_step k : (forall k', (k' <= k)%nat -> exists g, cgen_of (D k') c = Some g) ->
  ole (cgen_of (D k) c) (cgen_of (D (S k)) c).
Proof.
  intros Hex. destruct (trace_db cf reqs s d k) as [E|(j & t & t' & Hk & Ht & Hs)]; [rewrite E; apply ole_refl|].
  assert (SAME : consumers (D (S k)) = consumers (D k) -> ole (cgen_of (D k) c) (cgen_of (D (S k)) c)).
  { intros E. apply ole_eq. unfold cgen_of, find_cons. rewrite E. reflexivity. }
  destruct (nth_error reqs j) as [r|] eqn:Hr.
  2:{ exfalso. apply nth_error_None in Hr. assert (nth_error (T k) j <> None) by congruence.
      apply nth_error_Some in H. rewrite T_length in H. lia. }
  destruct (Hall r (nth_error_In _ _ Hr)) as (Sc & Hwf & NW).
  destruct (scope_cases r Sc) as [(u & Hu)|(x0 & Hx0 & Hx & Hv)].
  - destruct (PInv_all cf reqs s d j r u Hr Hu k) as (t1 & Ht1 & HP). rewrite Ht in Ht1. inv Ht1.
    apply SAME. destruct t1; cbn in HP; try contradiction.
    + cbn in Hs. inv Hs. congruence.
    + subst r0. cbn [tstep] in Hs. rewrite Hu in Hs. repeat bmH Hs; inv Hs; congruence.
    + cbn [tstep] in Hs. destruct (prov_write r0 g (D k)) as [d1 rs] eqn:E. inv Hs.
      eapply prov_write_consumers; eassumption.
  - destruct (AInv_all cf reqs s d j r x0 Hr Hx0 k) as (t1 & Ht1 & HP). rewrite Ht in Ht1. inv Ht1.
    assert (NC : forall u, Created cf reqs s d j k u -> u <> c).
    { intros u (k' & L & _ & N & _) ->. destruct (Hex k' ltac:(lia)) as (g & G). congruence. }
    destruct t1; cbn [AInv] in HP; try contradiction; cbn [tstep] in Hs.
    + inv Hs. first [apply ole_refl|first [apply ole_refl|apply SAME; congruence]].
    + repeat bmH Hs; inv Hs; first [apply ole_refl|apply SAME; congruence].
    + destruct todo as [|e rest]; [inv Hs; first [apply ole_refl|apply SAME; congruence]|]. cbv zeta in Hs.
      destruct (rq_attrs _ _ e) as [[proj user] ty]. apply SAME.
      destruct (find_cons (D k) (ci_uuid e)); destruct (_ && _); injection Hs as <- _; apply aux_names_rps.
    + destruct (rq_attrs _ _ c0) as [[proj user] ty]. destruct (find_cons (D k) (ci_uuid c0)) eqn:FC.
      * inv Hs. first [apply ole_refl|first [apply ole_refl|apply SAME; congruence]].
      * injection Hs as Hd _. rewrite <- Hd. unfold cgen_of, find_cons. cbn [consumers set_consumers].
        change (ole (cgl (consumers (D k)) c) (cgl (consumers (D k) ++ [mkCons (ci_uuid c0) proj user ty 0]) c)).
        rewrite cgl_app1. destruct (Hex k (Nat.le_refl k)) as (g & G). unfold cgen_of in G.
        change (cgl (consumers (D k)) c = Some g) in G. rewrite G. apply ole_refl.
    + destruct (rq_attrs _ _ c0) as [[proj user] ty]. repeat bmH Hs; inv Hs; first [apply ole_refl|apply SAME; congruence].
    + destruct todo as [|w rest]; [inv Hs; first [apply ole_refl|apply SAME; congruence]|]. cbv zeta in Hs.
      destruct w; [inv Hs; first [apply ole_refl|apply SAME; congruence]|].
      destruct (find_rp (D k) (ai_rp a)); inv Hs; first [apply ole_refl|apply SAME; congruence].
    + destruct HP as (-> & _ & F & (O1 & _)).
      destruct (main_txn x0 ks objs (D k)) as [d1|e] eqn:E; inv Hs; [|first [apply ole_refl|apply SAME; congruence]].
      apply main_txn_spec in E. destruct E as (_ & w0 & l0 & w1 & S0 & CG & SA & CE).
      unfold cgen_of, find_cons. rewrite CE.
      change (ole (cgl (consumers (D k)) c) (cgl (consumers w1) c)). rewrite <- CG.
      apply (sa_keeps _ _ _ _ SA). eapply objs_amt; eassumption.
    + destruct todo as [|u rest]; [inv Hs; first [apply ole_refl|apply SAME; congruence]|]. injection Hs as Hd _. rewrite <- Hd.
      assert (Hu : u <> c) by (apply NC, HP; left; reflexivity).
      apply ole_eq. unfold cgen_of, find_cons, delete_consumers_if_no_allocations. cbn [consumers set_consumers].
      match goal with |- option_map _ (find_cons_l (filter ?f _) _) = _ =>
        match f with (fun c => negb (memZ _ ?cs && negb (existsb _ ?al))) =>
          change (cgl (filter (fun r => (fun z => negb (memZ z cs && negb (existsb (fun a => a_cons a =? z) al))) (c_uuid r))
                              (consumers (D k))) c = cgl (consumers (D k)) c) end end.
      rewrite cgl_filter. cbn [memZ existsb]. apply Z.eqb_neq in Hu. rewrite Z.eqb_sym, Hu. reflexivity.
Qed.

Hypothesis Hc : has_consumer d c.

Lemma cons_all : forall k k', (k' <= k)%nat -> exists g, cgen_of (D k') c = Some g.
Proof.
  induction k as [|k IH]; intros k' Hk'.
  - assert (k' = 0)%nat by lia. subst k'. destruct Hc as (kc & Hin & Eu).
    unfold cgen_of, find_cons. destruct (find_cons_l (consumers (D 0)) c) as [x|] eqn:F; [eexists; reflexivity|].
    exfalso. rewrite (find_cons_l_none (consumers (D 0)) c) in F. exact (F kc Hin Eu).
  - destruct (Nat.eq_dec k' (S k)) as [->|Hne]; [|apply IH; lia].
    destruct (IH k (Nat.le_refl k)) as (g & G). destruct (cons_step k IH _ G) as (g' & G' & _). eauto.
Qed.

Lemma cons_mono : forall k k', (k <= k')%nat -> ole (cgen_of (D k) c) (cgen_of (D k') c).
Proof.
  intros k k' Hle. induction Hle as [|k' Hle IH]; [apply ole_refl|].
  eapply ole_trans; [exact IH|]. apply cons_step. intros k1 _. apply (cons_all k1 k1). lia.
Qed.

End Global.
End C06.

(* ================================================================== the statements *)
Lemma c06_commit_generation :
  forall cf reqs s d i r c g ts' d',
    exec cf reqs s d = (ts', d') -> nth_error reqs i = Some r ->
    carries_cons_gen r c (Some g) -> req_wf r = true -> succeeded ts' i ->
    (wipes r c -> forall k, wipe_list (snd (at_step cf reqs s d k)) c <> []) ->
    exists k, commits_at cf reqs s d i k /\ cgen_of (snd (at_step cf reqs s d k)) c = Some g /\
              (exists g', cgen_of (snd (at_step cf reqs s d (S k))) c = Some g' /\ g < g' \/
               cgen_of (snd (at_step cf reqs s d (S k))) c = None).
Proof. intros. eapply c06_commit_detail; eassumption. Qed.

Lemma c06_null_means_absent :
  forall cf reqs s d i r c ts' d',
    exec cf reqs s d = (ts', d') -> nth_error reqs i = Some r ->
    carries_cons_gen r c None -> req_wf r = true -> succeeded ts' i ->
    exists k, nth_error s k = Some i /\ cgen_of (snd (at_step cf reqs s d k)) c = None /\
              cgen_of (snd (at_step cf reqs s d (S k))) c = Some 0.
Proof. intros. eapply c06_null_detail; eassumption. Qed.

Lemma c06_at_most_one :
  forall cf reqs s d i j ri rj c g ts' d',
    exec cf reqs s d = (ts', d') -> i <> j ->
    (forall r, In r reqs -> in_scope r /\ req_wf r = true /\ ~ wipes r c) ->
    has_consumer d c ->
    nth_error reqs i = Some ri -> nth_error reqs j = Some rj ->
    carries_cons_gen ri c (Some g) -> carries_cons_gen rj c (Some g) ->
    succeeded ts' i -> succeeded ts' j -> False.
Proof.
  intros cf reqs s d i j ri rj c g ts' d' He Hij Hall Hc Hri Hrj Hci Hcj Hsi Hsj.
  destruct (Hall _ (nth_error_In _ _ Hri)) as (_ & Wi & NWi).
  destruct (Hall _ (nth_error_In _ _ Hrj)) as (_ & Wj & NWj).
  destruct (c06_commit_detail cf reqs s d i ri c g ts' d' He Hri Hci Wi Hsi ltac:(intros; contradiction))
    as (ki & (Ski & _) & Gi & Ai).
  destruct (c06_commit_detail cf reqs s d j rj c g ts' d' He Hrj Hcj Wj Hsj ltac:(intros; contradiction))
    as (kj & (Skj & _) & Gj & Aj).
  assert (Hne : ki <> kj) by congruence.
  assert (AL : forall k, exists g0, cgen_of (D cf reqs s d k) c = Some g0).
  { intros k. apply (cons_all cf reqs s d c Hall Hc k k). lia. }
  destruct Ai as (gi & [(Gi' & Li)|N]); [|destruct (AL (S ki)); congruence].
  destruct Aj as (gj & [(Gj' & Lj)|N]); [|destruct (AL (S kj)); congruence].
  destruct (Nat.lt_ge_cases ki kj) as [Hlt|Hge].
  - destruct (cons_mono cf reqs s d c Hall Hc (S ki) kj ltac:(lia) _ Gi') as (g2 & G2 & L2). rewrite Gj in G2. inv G2. lia.
  - destruct (cons_mono cf reqs s d c Hall Hc (S kj) ki ltac:(lia) _ Gj') as (g2 & G2 & L2). rewrite Gi in G2. inv G2. lia.
Qed.

(* the premise of c06_commit_generation about cleared consumers is needed: two concurrent requests clearing
   the same consumer with the same generation both succeed; the second one finds no rows, performs no
   compare-and-swap, and at its commit step the consumer no longer exists ("double wipe") *)
Definition commit_with (cf : cfg) (reqs : list req) (s : list nat) (d : db) (i : nat) (c g : Z) (k : nat) : bool :=
  match nth_error (fst (at_step cf reqs s d k)) i with
  | Some (TProvWrite _ _) | Some (TMain _ _ _) => oeqb (cgen_of (snd (at_step cf reqs s d k)) c) (Some g)
  | _ => false
  end.
Lemma commit_with_true cf reqs s d i c g k :
  commits_at cf reqs s d i k -> cgen_of (snd (at_step cf reqs s d k)) c = Some g -> commit_with cf reqs s d i c g k = true.
Proof.
  intros (_ & t & Ht & Hc) G. unfold commit_with. rewrite Ht, G.
  destruct t; try contradiction; cbn; apply Z.eqb_refl.
Qed.

Lemma c06_commit_generation_double_wipe_refuted :
  exists cf reqs s d i r c g,
    nth_error reqs i = Some r /\ carries_cons_gen r c (Some g) /\ req_wf r = true /\
    succeeded (fst (exec cf reqs s d)) i /\
    ~ exists k, commits_at cf reqs s d i k /\ cgen_of (snd (at_step cf reqs s d k)) c = Some g.
Proof.
  set (wipe := AllocPut 28 (mkConsIn 7 [] (Some 5) (Some 6) (Some 0) None)).
  exists (mkCfg 900 901), [wipe; wipe], [0; 1; 1; 1; 0; 0]%nat,
         (mkDb [mkRp 1 1 0 None 1] [mkInv 1 0 10 0 1 10 1 1 0] [mkAlloc 7 1 0 1] [mkCons 7 5 6 None 0]
               [5] [6] [] [] [] [] [] []), 0%nat, wipe, 7, 0.
  split; [reflexivity|]. split; [|split; [reflexivity|split]].
  - eexists. split; [left; reflexivity|]. split; [reflexivity|]. split; [reflexivity|]. cbn. lia.
  - exists (ok 204). split; [vm_compute; reflexivity|cbn; lia].
  - intros (k & Hc & G). pose proof (commit_with_true _ _ _ _ _ _ _ _ Hc G) as B. destruct Hc as (H2 & _).
    destruct k as [|[|[|[|[|[|k]]]]]];
      try (cbn in H2; destruct k; discriminate);
      match type of B with ?x = true => assert (N : x = false) by (vm_compute; reflexivity) end; congruence.
Qed.
