(* C06 over Model/ConcAll.v (every request kind as a thread, one step per top-level transaction, any number of threads, any
   schedule): consumer generations.
     - every transaction of every thread does one of four things to a consumer c: nothing, create it at generation 0, move
       its generation from g to g + 1, or end it (delete the record); which of these a transaction may do depends on
       whether the answer of its request is still open, fixed >= 300, or fixed < 300 (c_acct);
     - a tally of the increments per request: final = initial + sum of the tallies as long as c exists; requests answered
       >= 300 and unfinished requests contribute nothing, accepted ones 0 or 1 (c06a_accounting);
     - a thread holding generation g for c commits only against g (c06a_commit_generation), and of the threads holding the
       same g at most one increments c while c exists (c06a_at_most_one);
     - of the threads carrying null for c at most one increments c as long as c is not deleted, and that one created c
       itself (c06a_null_at_most_one).
   Built like Proofs/C10c.v / Proofs/C05a.v. *)
From PV Require Import Model.ConcAll Proofs.Defs Proofs.C04 Proofs.C10 Proofs.C05 Proofs.C10c Proofs.C05a.
From PV Require Proofs.C06.

(* ================================================================ what one transaction does to consumer c *)
Definition csame (d d' : db) (c : Z) : Prop := cgen_of d' c = cgen_of d c.
Definition ccreate (d d' : db) (c : Z) : Prop := cgen_of d c = None /\ cgen_of d' c = Some 0.
Definition cend (d d' : db) (c : Z) : Prop := exists g, cgen_of d c = Some g /\ cgen_of d' c = None.
Definition cincr (d d' : db) (c : Z) : Prop := exists g, cgen_of d c = Some g /\ cgen_of d' c = Some (g + 1).

Lemma cgen_cgl d c : cgen_of d c = cgl (consumers d) c.
Proof. reflexivity. Qed.
Lemma csame_cons d d' c : consumers d' = consumers d -> csame d d' c.
Proof. intro E. unfold csame. rewrite !cgen_cgl, E. reflexivity. Qed.
Lemma csame_refl d c : csame d d c.
Proof. reflexivity. Qed.

(* the increment of c's generation over one transaction (0 when c does not exist on one side) *)
Definition cdelta (d d' : db) (c : Z) : Z :=
  match cgen_of d c, cgen_of d' c with Some g, Some g' => g' - g | _, _ => 0 end.
Lemma csame_cdelta d d' c : csame d d' c -> cdelta d d' c = 0.
Proof. intro H. unfold cdelta. rewrite H. destruct (cgen_of d c); [lia|reflexivity]. Qed.
Lemma ccreate_cdelta d d' c : ccreate d d' c -> cdelta d d' c = 0.
Proof. intros [H _]. unfold cdelta. rewrite H. reflexivity. Qed.
Lemma cend_cdelta d d' c : cend d d' c -> cdelta d d' c = 0.
Proof. intros [g [H1 H2]]. unfold cdelta. rewrite H1, H2. reflexivity. Qed.
Lemma cincr_cdelta d d' c : cincr d d' c -> cdelta d d' c = 1.
Proof. intros [g [H1 H2]]. unfold cdelta. rewrite H1, H2. lia. Qed.

(* ================================================================ the consumer compare-and-swaps of _set_allocations, exactly *)
Lemma fb_sub : forall l seen p, In p (first_by seen l) -> In p l /\ ~ In (fst p) seen.
Proof.
  induction l as [|[k0 g] l IH]; intros seen p; cbn [first_by]; [intros []|].
  destruct (memZ k0 seen) eqn:E.
  - intro H. destruct (IH _ _ H). split; [right|]; assumption.
  - intros [<-|H]; [split; [left; reflexivity|cbn [fst]; intro Hin; apply memZ_In in Hin; congruence]|].
    destruct (IH _ _ H) as [H1 H2]. split; [right; assumption|]. intro Hin. apply H2. right. assumption.
Qed.
Lemma fb_nodup : forall l seen, NoDup (map fst (first_by seen l)).
Proof.
  induction l as [|[k0 g] l IH]; intro seen; cbn [first_by]; [constructor|].
  destruct (memZ k0 seen); [apply IH|]. cbn [map fst]. constructor; [|apply IH].
  intro H. apply in_map_iff in H. destruct H as [p [E Hp]]. apply fb_sub in Hp. destruct Hp as [_ Hp].
  apply Hp. left. symmetry. exact E.
Qed.

Lemma cas_conss_exact : forall l d d', cas_conss d l = Ok d' -> NoDup (map fst l) ->
  (forall c g, In (c, g) l -> cgl (consumers d) c = Some g /\ cgl (consumers d') c = Some (g + 1)) /\
  (forall c, ~ In c (map fst l) -> cgl (consumers d') c = cgl (consumers d) c).
Proof.
  induction l as [|[u g0] l IH]; intros d d' H ND; cbn [cas_conss] in H.
  - injection H as <-. split; [intros c g []|reflexivity].
  - destruct (incr_cons_gen d u g0) as [d1|] eqn:E; [|discriminate]. cbn [bind] in H.
    apply incr_cons_gen_inv in E. destruct E as (l' & E & ->). apply cas_cons_l_spec in E. destruct E as (E1 & E2 & E3).
    cbn [map fst] in ND. inversion ND as [|? ? Hu ND']. subst. destruct (IH _ _ H ND') as [I1 I2]. cbn [consumers set_consumers] in I1, I2.
    split.
    + intros c g [Hp|Hp].
      * injection Hp as <- <-. split; [exact E1|]. rewrite (I2 u Hu). exact E2.
      * assert (Hc : c <> u) by (intros ->; apply Hu; apply (in_map fst) in Hp; exact Hp).
        destruct (I1 c g Hp) as [A B]. split; [rewrite <- (E3 c Hc); exact A|exact B].
    + intros c Hc. cbn [map fst] in Hc. rewrite I2 by (intro Hx; apply Hc; right; exact Hx). apply E3. intro Ec. apply Hc. left. symmetry. exact Ec.
Qed.

Lemma sa_cons_exact w0 l0 w1 : set_allocations w0 l0 = Ok w1 ->
  (forall c, In c (map q_cons l0) -> exists o, In o l0 /\ q_cons o = c /\ cgl (consumers w0) c = Some (q_cgen o) /\
      (cgl (consumers w1) c = Some (q_cgen o + 1) \/ cgl (consumers w1) c = None)) /\
  (forall c, ~ In c (map q_cons l0) -> cgl (consumers w1) c = cgl (consumers w0) c) /\
  (forall o, In o l0 -> 0 < q_amt o -> cgl (consumers w1) (q_cons o) <> None).
Proof.
  unfold set_allocations. cbv zeta. intro H.
  destruct (check_capacity _ l0) as [[]|]; [|discriminate]. cbn [bind] in H.
  destruct (cas_rps _ _) as [d3|] eqn:E3; [|discriminate]. cbn [bind] in H.
  destruct (cas_conss _ _) as [d4|] eqn:E4; [|discriminate]. cbn [bind] in H. injection H as <-.
  apply cas_rps_spec in E3. destruct E3 as (_ & _ & C3 & _). cbn in C3.
  destruct (cas_conss_exact _ _ _ E4 (fb_nodup _ _)) as [X1 X2]. rewrite C3 in X1, X2.
  assert (Hdel : forall c, cgl (consumers (delete_consumers_if_no_allocations d4
             (filter (fun c0 => negb (memZ c0 (map q_cons (filter (fun a => 0 <? q_amt a) l0)))) (dedup (map q_cons l0))))) c =
           cgl (consumers d4) c \/
           (In c (map q_cons l0) /\ ~ In c (map q_cons (filter (fun a => 0 <? q_amt a) l0)) /\
            cgl (consumers (delete_consumers_if_no_allocations d4
             (filter (fun c0 => negb (memZ c0 (map q_cons (filter (fun a => 0 <? q_amt a) l0)))) (dedup (map q_cons l0))))) c = None)).
  { intro c. unfold delete_consumers_if_no_allocations. cbn [consumers set_consumers].
    match goal with |- cgl (filter ?f _) _ = _ \/ _ =>
      match f with (fun c => negb (memZ _ ?cs && negb (existsb _ ?al))) =>
        rewrite (cgl_filter (fun z => negb (memZ z cs && negb (existsb (fun a => a_cons a =? z) al)))) end end.
    match goal with |- (if negb (memZ c ?cs && ?b) then _ else _) = _ \/ _ => destruct (memZ c cs) eqn:M; [destruct b|] end;
      cbn [andb negb]; try (left; reflexivity).
    right. apply memZ_In in M. apply filter_In in M. destruct M as (M1 & M2). apply (proj1 (dedup_In _ _)) in M1.
    apply negb_true_iff in M2. apply memZ_nIn in M2. auto. }
  split; [|split].
  - intros c Hc.
    assert (Hin : In c (map fst (first_by [] (map (fun a => (q_cons a, q_cgen a)) l0)))).
    { apply first_by_In; [|reflexivity]. rewrite map_map. cbn. exact Hc. }
    apply in_map_iff in Hin. destruct Hin as ([c1 g] & Ec & Hp). cbn [fst] in Ec. subst c1.
    destruct (X1 c g Hp) as [A B]. apply fb_sub in Hp. destruct Hp as [Hp _]. apply in_map_iff in Hp. destruct Hp as (o & Eo & Ho).
    injection Eo as Eo1 Eo2. exists o. split; [exact Ho|]. split; [exact Eo1|]. rewrite Eo2. split; [exact A|].
    destruct (Hdel c) as [Ed|(_ & _ & Ed)]; [left; rewrite Ed; exact B|right; exact Ed].
  - intros c Hc. destruct (Hdel c) as [Ed|(Hin & _)]; [|contradiction]. rewrite Ed. apply X2.
    intro Hin. apply in_map_iff in Hin. destruct Hin as (p & Ep & Hp). apply fb_sub in Hp. destruct Hp as [Hp _].
    apply in_map_iff in Hp. destruct Hp as (o & Eo & Ho). apply Hc. apply in_map_iff. exists o. split; [|exact Ho].
    rewrite <- Ep, <- Eo. reflexivity.
  - intros o Ho Hpos. destruct (Hdel (q_cons o)) as [Ed|(_ & Hn & _)].
    + rewrite Ed. assert (Hin : In (q_cons o) (map fst (first_by [] (map (fun a => (q_cons a, q_cgen a)) l0)))).
      { apply first_by_In; [|reflexivity]. rewrite map_map. cbn. apply in_map. exact Ho. }
      apply in_map_iff in Hin. destruct Hin as ([c1 g] & Ec & Hp). cbn [fst] in Ec. subst c1.
      destruct (X1 _ g Hp) as [_ B]. rewrite B. discriminate.
    + exfalso. apply Hn. apply in_map. apply filter_In. split; [exact Ho|]. apply Z.ltb_lt. exact Hpos.
Qed.

(* the main transaction of an allocation write, for consumer c *)
Lemma main_cons_exact x ks objs d d' : main_txn x ks objs d = Ok d' ->
  (forall c, In c (map q_cons objs) -> exists o, In o objs /\ q_cons o = c /\ cgen_of d c = Some (q_cgen o) /\
      (cgen_of d' c = Some (q_cgen o + 1) \/ cgen_of d' c = None)) /\
  (forall c, ~ In c (map q_cons objs) -> cgen_of d' c = cgen_of d c) /\
  (forall o, In o objs -> 0 < q_amt o -> cgen_of d' (q_cons o) <> None).
Proof.
  intro H. apply main_txn_spec in H. destruct H as (_ & w0 & l0 & w1 & S0 & CG & SA & CE).
  destruct (sa_cons_exact _ _ _ SA) as (X1 & X2 & X3).
  assert (EC' : forall z, cgen_of d' z = cgl (consumers w1) z) by (intro z; rewrite cgen_cgl, CE; reflexivity).
  split; [|split].
  - intros c Hc. rewrite <- (strip_conss _ _ S0) in Hc. destruct (X1 c Hc) as (o & Ho & Ec & A & B).
    destruct (strip_in _ _ _ S0 Ho) as (b & Hb & Eb). unfold strip in Eb. injection Eb as E1 E2 _ _ _.
    exists b. split; [exact Hb|]. split; [congruence|]. rewrite <- E2, cgen_cgl, <- CG, !EC'. auto.
  - intros c Hc. rewrite <- (strip_conss _ _ S0) in Hc. rewrite EC', cgen_cgl, <- CG. apply X2. exact Hc.
  - intros o Ho Hpos. assert (Hm : In (strip o) (map strip l0)) by (rewrite S0; apply in_map; exact Ho).
    apply in_map_iff in Hm. destruct Hm as (a & Ea & Ha). unfold strip in Ea. injection Ea as E1 _ _ _ E5.
    rewrite EC', <- E1. apply X3; [exact Ha|lia].
Qed.

(* ================================================================ transactions that leave the consumers table alone *)
Lemma rp_create_cons d u name parent d' : rp_create d u name parent = Ok d' -> consumers d' = consumers d.
Proof.
  unfold rp_create. intro H.
  match type of H with bind ?r _ = _ => destruct r as [root|e]; cbn [bind] in H; [|discriminate] end.
  destruct (existsb _ (rps d)); [discriminate|]. injection H as <-. reflexivity.
Qed.
Lemma h_rp_create_cons d v u name parent : consumers (fst (h_rp_create d v u name parent)) = consumers d.
Proof.
  unfold h_rp_create. destruct (_ && _); [reflexivity|].
  destruct (rp_create d u name parent) as [d'|e] eqn:E; [cbn [fst]; eapply rp_create_cons; exact E|destruct e; reflexivity].
Qed.
Lemma rp_update_cons d me name np ar d' : rp_update d me name np ar = Ok d' -> consumers d' = consumers d.
Proof.
  unfold rp_update. cbv zeta. intro H.
  match type of H with bind ?r _ = _ => destruct r as [upd|e]; cbn [bind] in H; [|discriminate] end.
  destruct (name_taken d name (rp_uuid me)); [discriminate|]. injection H as <-.
  destruct upd as [[[par root] sub]|]; reflexivity.
Qed.
Lemma rp_delete_cons d u d' : rp_delete d u = Ok d' -> consumers d' = consumers d.
Proof.
  unfold rp_delete. destruct (existsb _ (rps d)); [discriminate|]. destruct (existsb _ (allocs d)); [discriminate|].
  destruct (find_rp d u); [|discriminate]. intros [= <-]. reflexivity.
Qed.
Lemma set_traits_c_cons d u g w d' : set_traits_c d u g w = Ok d' -> consumers d' = consumers d.
Proof.
  intro H. apply set_traits_c_spec in H. destruct H as (_ & [(_ & ->)|(_ & B)]); [reflexivity|].
  apply bumped_spec in B. apply B.
Qed.
Lemma set_aggregates_txn_cons d u g w b d' : set_aggregates_txn d u g w b = Ok d' -> consumers d' = consumers d.
Proof.
  destruct b; intro H; [|eapply set_aggregates_txn_false_cons; exact H].
  apply set_aggregates_txn_bumped in H. apply bumped_spec in H. apply H.
Qed.
Lemma rc_create_cons d n d' : rc_create d n = Ok d' -> consumers d' = consumers d.
Proof. unfold rc_create. destruct (rc_id_of_name d n); [discriminate|]. intros [= <-]. reflexivity. Qed.
Lemma trait_create_cons d n d' : trait_create d n = Ok d' -> consumers d' = consumers d.
Proof. unfold trait_create. destruct (trait_exists d n); [discriminate|]. intros [= <-]. reflexivity. Qed.

(* Consumer.delete() of consumers without allocations: nothing, or the end of c *)
Lemma dcina_effect d us c :
  csame d (delete_consumers_if_no_allocations d us) c \/ cend d (delete_consumers_if_no_allocations d us) c.
Proof.
  unfold csame, cend. rewrite !cgen_cgl. unfold delete_consumers_if_no_allocations. cbn [consumers set_consumers].
  match goal with |- cgl (filter ?f _) _ = _ \/ _ =>
    match f with (fun c => negb (memZ _ ?cs && negb (existsb _ ?al))) =>
      rewrite (cgl_filter (fun z => negb (memZ z cs && negb (existsb (fun a => a_cons a =? z) al)))) end end.
  destruct (negb _); [left; reflexivity|]. destruct (cgl (consumers d) c) as [g|]; [right; exists g; auto|left; reflexivity].
Qed.
(* ... and only of the consumers listed *)
Lemma dcina_other d us c : ~ In c us -> csame d (delete_consumers_if_no_allocations d us) c.
Proof.
  intro Hn. unfold csame. rewrite !cgen_cgl. unfold delete_consumers_if_no_allocations. cbn [consumers set_consumers].
  match goal with |- cgl (filter ?f _) _ = _ =>
    match f with (fun c => negb (memZ _ ?cs && negb (existsb _ ?al))) =>
      rewrite (cgl_filter (fun z => negb (memZ z cs && negb (existsb (fun a => a_cons a =? z) al)))) end end.
  apply memZ_nIn in Hn. rewrite Hn. reflexivity.
Qed.

(* ================================================================ one transaction of a thread, for consumer c *)
Definition c_outcome (before after : option resp) (d d' : db) (c : Z) : Prop :=
  match before with
  | Some r => after = Some r /\ (csame d d' c \/ cend d d' c)
  | None => (after = None /\ (csame d d' c \/ ccreate d d' c)) \/
            exists r, after = Some r /\ ((300 <= status r /\ csame d d' c) \/
                                         (status r < 300 /\ (csame d d' c \/ cincr d d' c \/ cend d d' c)))
  end.
Lemma co_open d d' c : consumers d' = consumers d -> c_outcome None None d d' c.
Proof. intro E. left. split; [reflexivity|]. left. apply csame_cons. exact E. Qed.
Lemma co_settle r d d' c : consumers d' = consumers d -> c_outcome None (Some r) d d' c.
Proof.
  intro E. right. exists r. split; [reflexivity|]. pose proof (csame_cons d d' c E) as S.
  destruct (Z_lt_le_dec (status r) 300); [right|left]; auto.
Qed.
Lemma co_cleanup us r d d' c : consumers d' = consumers d -> c_outcome None (t_resp (cleanup_or_done us r)) d d' c.
Proof. rewrite cleanup_resp. apply co_settle. Qed.
Lemma co_after_cons x ks d d' c : consumers d' = consumers d -> c_outcome None (t_resp (after_cons x ks)) d d' c.
Proof. intro E. rewrite (proj1 (after_cons_open x ks 0)). apply co_open. exact E. Qed.

Lemma create_effect d row c : cgen_of d (c_uuid row) = None -> c_gen row = 0 ->
  let d' := set_consumers d (consumers d ++ [row]) in
  (c = c_uuid row -> ccreate d d' c) /\ (c <> c_uuid row -> csame d d' c).
Proof.
  intros Hn Hg. cbv zeta. unfold ccreate, csame. rewrite !cgen_cgl in *. cbn [consumers set_consumers]. rewrite cgl_app1. split.
  - intros ->. rewrite Hn, Z.eqb_refl, Hg. auto.
  - intro Hc. destruct (cgl (consumers d) c); [reflexivity|]. apply not_eq_sym in Hc. apply Z.eqb_neq in Hc. rewrite Hc. reflexivity.
Qed.

Lemma t_cacct t d c : c_outcome (t_resp t) (t_resp (snd (tstep t d))) d (fst (tstep t d)) c.
Proof.
  destruct t as [r|r|r g|x todo|x todo acc|x e todo acc|x e todo acc|x ks todo objs|x ks objs|todo r|c0|c0 rows|c0];
    cbn [t_resp tstep].
  - (* TDone *) split; [reflexivity|left; apply csame_refl].
  - (* TProvRead *)
    destruct (prov_target r) as [u0|]; [|apply co_settle; reflexivity].
    destruct (find_rp d u0) as [me|]; [|apply co_settle; reflexivity].
    destruct (prov_precheck r me d) as [e|]; cbn [fst snd t_resp]; [apply co_settle|apply co_open]; reflexivity.
  - (* TProvWrite *)
    destruct (prov_write r g d) as [d' rs] eqn:Ew. cbn [fst snd t_resp]. apply co_settle. eapply C06.prov_write_consumers. exact Ew.
  - (* TRi *)
    destruct todo as [|r rest]; cbn [fst snd].
    + destruct (x_all x) as [|e l]; [apply co_after_cons; reflexivity|apply co_open; reflexivity].
    + destruct (find_rp d (ri_rp r)) as [me|]; [|apply co_settle; reflexivity].
      destruct (negb (ri_gen r =? rp_gen me)); cbn [fst snd t_resp]; [apply co_settle; reflexivity|].
      destruct rest as [|r2 rest2]; [|apply co_open; reflexivity].
      destruct (x_all x) as [|e l]; [apply co_after_cons; reflexivity|apply co_open; reflexivity].
  - (* TCons *)
    destruct todo as [|e rest]; cbn [fst snd]; [apply co_after_cons; reflexivity|]. cbv zeta.
    destruct (rq_attrs (x_cf x) (x_v x) e) as [[pj us] ty].
    pose proof (proj1 (proj2 (aux_names_rps (x_cf x) (x_v x) d e))) as Ea.
    destruct (find_cons d (ci_uuid e)) as [k|]; destruct (_ && _); cbn [fst snd]; try (apply co_cleanup; exact Ea).
    + destruct rest as [|e2 rest2]; [apply co_after_cons; exact Ea|apply co_open; exact Ea].
    + apply co_open. exact Ea.
  - (* TCreate *)
    destruct (rq_attrs (x_cf x) (x_v x) e) as [[pj us] ty].
    destruct (find_cons d (ci_uuid e)) as [k|] eqn:F; cbn [fst snd]; [apply co_open; reflexivity|].
    assert (Hn : cgen_of d (ci_uuid e) = None) by (unfold cgen_of; rewrite F; reflexivity).
    destruct (create_effect d (mkCons (ci_uuid e) pj us ty 0) c Hn eq_refl) as [C1 C2]. cbn [c_uuid] in C1, C2.
    assert (Ho : forall t', t_resp t' = None -> c_outcome None (t_resp t') d
                   (set_consumers d (consumers d ++ [mkCons (ci_uuid e) pj us ty 0])) c).
    { intros t' ->. left. split; [reflexivity|]. destruct (Z.eq_dec c (ci_uuid e)) as [E|E]; [right; auto|left; auto]. }
    apply Ho. destruct todo; [apply (proj1 (after_cons_open x _ 0))|reflexivity].
  - (* TReload *)
    destruct (rq_attrs (x_cf x) (x_v x) e) as [[pj us] ty].
    destruct (find_cons d (ci_uuid e)) as [k|]; cbn [fst snd]; [|apply co_cleanup; reflexivity].
    destruct (28 <=? x_v x); cbn [fst snd]; [apply co_cleanup; reflexivity|].
    destruct todo as [|e2 rest2]; [apply co_after_cons; reflexivity|apply co_open; reflexivity].
  - (* TObjs *)
    destruct todo as [|w rest]; cbn [fst snd]; [apply co_open; reflexivity|]. cbv zeta.
    destruct w as [k|k a].
    + cbn [fst snd]. destruct rest; apply co_open; reflexivity.
    + destruct (find_rp d (ai_rp a)); cbn [fst snd]; [|apply co_cleanup; reflexivity].
      destruct rest; apply co_open; reflexivity.
  - (* TMain *)
    destruct (main_txn x ks objs d) as [d'|e0] eqn:Em; cbn [fst snd]; rewrite cleanup_resp; [|apply co_settle; reflexivity].
    right. eexists. split; [reflexivity|]. right. split; [cbn; lia|].
    destruct (main_cons_exact _ _ _ _ _ Em) as (X1 & X2 & _).
    destruct (in_dec Z.eq_dec c (map q_cons objs)) as [Hin|Hni]; [|left; apply X2; exact Hni].
    destruct (X1 c Hin) as (o & _ & _ & A & [B|B]); [right; left|right; right]; exists (q_cgen o); auto.
  - (* TCleanup *)
    destruct todo as [|u rest]; cbn [fst snd t_resp]; [split; [reflexivity|left; apply csame_refl]|].
    split; [destruct rest; reflexivity|apply dcina_effect].
  - (* TDelRead *)
    destruct (wipe_list d c0); cbn [fst snd t_resp]; [apply co_settle|apply co_open]; reflexivity.
  - (* TDelRows *) apply co_open. reflexivity.
  - (* TDelCons *)
    cbn [fst snd t_resp]. right. eexists. split; [reflexivity|]. right. split; [cbn; lia|].
    destruct (dcina_effect d [c0] c); auto.
Qed.

(* one transaction of any thread of Model/ConcAll.v *)
Lemma a_cacct cf t d c : c_outcome (a_resp t) (a_resp (fst (astep cf t d))) d (snd (astep cf t d)) c.
Proof.
  assert (Hwrap : forall t0 (W : tstate -> athread), (forall t1, a_resp (W t1) = t_resp t1) ->
            c_outcome (t_resp t0) (a_resp (W (snd (tstep t0 d)))) d (fst (tstep t0 d)) c).
  { intros t0 W H1. rewrite H1. apply t_cacct. }
  destruct t as [t0|snap t0|t0|c0|t0|u0 g ts|u0 ts g|u0 ts g lost|v u0 g l|v u0 l g gone|n|n|n|old new|id new|n|id|t1|t1|t1|t1 stale].
  - (* ATree *)
    destruct t0 as [r|v u0 name parent|v u0 name parent|v u0 name np g|u0|u0|t0]; cbn [a_resp astep ttstep].
    + split; [reflexivity|left; apply csame_refl].
    + pose proof (h_rp_create_cons d v u0 name parent) as H. destruct (h_rp_create d v u0 name parent) as [d' r]. cbn [fst snd a_resp] in *.
      apply co_settle. exact H.
    + destruct (find_rp d u0) as [me|]; cbn [fst snd a_resp]; [|apply co_settle; reflexivity].
      destruct (_ && _); cbn [fst snd a_resp]; [apply co_settle|apply co_open]; reflexivity.
    + destruct (find_rp d u0) as [me|]; cbn [fst snd a_resp]; [|apply co_settle; reflexivity].
      destruct (rp_update d me name np (37 <=? v)) as [d'|e] eqn:E; cbn [rp_update_answer fst snd a_resp].
      * apply co_settle. eapply rp_update_cons. exact E.
      * destruct e; cbn [fst snd a_resp]; apply co_settle; reflexivity.
    + destruct (find_rp d u0); cbn [fst snd a_resp]; [apply co_open|apply co_settle]; reflexivity.
    + destruct (rp_delete d u0) as [d'|e] eqn:E; cbn [rp_delete_answer fst snd a_resp].
      * apply co_settle. eapply rp_delete_cons. exact E.
      * destruct e; cbn [fst snd a_resp]; apply co_settle; reflexivity.
    + pose proof (Hwrap t0 (fun t1 => ATree (TTOther t1)) (fun _ => eq_refl)) as H.
      destruct (tstep t0 d) as [d' t']. exact H.
  - (* ACached *)
    cbn [a_resp].
    destruct t0 as [r|r|r g|x todo|x todo acc|x e todo acc|x e todo acc|x ks todo objs|x ks objs|todo r|c1|c1 rows|c1];
      try (rewrite acached_default by (intros; discriminate); cbn [fst snd];
           match goal with |- context [tstep ?tt d] => exact (Hwrap tt (fun t1 => ACached snap t1) (fun _ => eq_refl)) end).
    + (* TObjs *)
      destruct todo as [|[k|k a] rest];
        try (rewrite acached_default by (intros; discriminate); cbn [fst snd];
             match goal with |- context [tstep ?tt d] => exact (Hwrap tt (fun t1 => ACached snap t1) (fun _ => eq_refl)) end).
      cbn [astep tstep t_resp]. destruct (cache_misses snap (wipe_list d (co_uuid k)));
        destruct rest; cbn [fst snd a_resp t_resp]; apply co_open; reflexivity.
    + (* TMain *)
      cbn [astep t_resp]. unfold main_txn_cached.
      destruct (main_txn x ks objs (set_rcs d (rcs d ++ stale_rows d snap))) as [d'|e0] eqn:Em; cbn [fst snd a_resp]; rewrite cleanup_resp;
        [|apply co_settle; reflexivity].
      right. eexists. split; [reflexivity|]. right. split; [cbn; lia|].
      destruct (main_cons_exact _ _ _ _ _ Em) as (X1 & X2 & _).
      destruct (in_dec Z.eq_dec c (map q_cons objs)) as [Hin|Hni]; [|left; exact (X2 c Hni)].
      destruct (X1 c Hin) as (o & _ & _ & A & [B|B]); [right; left|right; right]; exists (q_cgen o); split; [exact A|exact B|exact A|exact B].
  - (* ACacheLoad *)
    cbn [a_resp astep fst snd]. destruct (t_resp t0) as [r|]; [apply co_settle|apply co_open]; reflexivity.
  - (* ADelRead *)
    cbn [a_resp astep tstep]. destruct (wipe_list d c0); cbn [tdone fst snd a_resp t_resp]; [apply co_settle|apply co_open]; reflexivity.
  - (* ADelLoad *)
    cbn [a_resp astep fst snd]. destruct (t_resp t0) as [r|]; [apply co_settle|apply co_open]; reflexivity.
  - (* ATraitsRead *)
    cbn [a_resp astep]. destruct (find_rp d u0) as [me|]; cbn [fst snd a_resp]; [|apply co_settle; reflexivity].
    destruct (negb (g =? rp_gen me)); cbn [fst snd a_resp]; [apply co_settle|apply co_open]; reflexivity.
  - (* ATraitsLook *)
    cbn [a_resp astep]. destruct (negb _); cbn [fst snd a_resp]; [apply co_settle|apply co_open]; reflexivity.
  - (* ATraitsWrite *)
    cbn [a_resp astep]. destruct (existsb _ ts); cbn [fst snd a_resp]; [apply co_settle; reflexivity|].
    unfold set_traits_chk. destruct (forallb _ _); cbn [fst snd a_resp]; [|apply co_settle; reflexivity].
    destruct (set_traits_c d u0 g ts) as [d'|e] eqn:E; cbn [fst snd a_resp]; [|destruct e; cbn [fst snd a_resp]; apply co_settle; reflexivity].
    apply co_settle. eapply set_traits_c_cons. exact E.
  - (* AAggsRead *)
    cbn [a_resp astep]. destruct (find_rp d u0) as [me|]; cbn [fst snd a_resp]; [|apply co_settle; reflexivity].
    destruct (_ && _); cbn [fst snd a_resp]; [apply co_settle|apply co_open]; reflexivity.
  - (* AAggsWrite *)
    cbn [a_resp astep]. destruct (if gone then None else find_rp d u0); cbn [fst snd a_resp]; [|apply co_settle; reflexivity].
    destruct (set_aggregates_txn d u0 g (dedup l) (19 <=? v)) as [d'|e] eqn:E; cbn [fst snd a_resp]; [|apply co_settle; reflexivity].
    apply co_settle. eapply set_aggregates_txn_cons. exact E.
  - (* ARcCreate *)
    cbn [a_resp astep]. destruct (rc_create d n) as [d'|e] eqn:E; cbn [fst snd a_resp]; apply co_settle; [eapply rc_create_cons; exact E|reflexivity].
  - (* ARcPutLook *)
    cbn [a_resp astep]. destruct (rc_id_of_name d n); cbn [fst snd a_resp]; [apply co_settle|apply co_open]; reflexivity.
  - (* ARcPutCreate *)
    cbn [a_resp astep]. destruct (rc_create d n) as [d'|e] eqn:E; cbn [fst snd a_resp]; apply co_settle; [eapply rc_create_cons; exact E|reflexivity].
  - (* ARcRenLook *)
    cbn [a_resp astep]. destruct (rc_id_of_name d old) as [id|]; cbn [fst snd a_resp]; [|apply co_settle; reflexivity].
    destruct (id <? MIN_CUSTOM_RC_ID); cbn [fst snd a_resp]; [apply co_settle|apply co_open]; reflexivity.
  - (* ARcRenSave *)
    cbn [a_resp astep]. destruct (negb _); cbn [fst snd a_resp]; [apply co_settle; reflexivity|].
    destruct (_ || _); cbn [fst snd a_resp]; apply co_settle; reflexivity.
  - (* ARcDelLook *)
    cbn [a_resp astep]. destruct (rc_id_of_name d n) as [id|]; cbn [fst snd a_resp]; [|apply co_settle; reflexivity].
    destruct (id <? MIN_CUSTOM_RC_ID); cbn [fst snd a_resp]; [apply co_settle|apply co_open]; reflexivity.
  - (* ARcDestroy *)
    cbn [a_resp astep]. destruct (existsb _ (invs d)); cbn [fst snd a_resp]; [apply co_settle; reflexivity|].
    destruct (negb _); cbn [fst snd a_resp]; apply co_settle; reflexivity.
  - (* ATraitPutLook *)
    cbn [a_resp astep]. destruct (trait_exists d t1); cbn [fst snd a_resp]; [apply co_settle|apply co_open]; reflexivity.
  - (* ATraitCreate *)
    cbn [a_resp astep]. destruct (trait_create d t1) as [d'|e] eqn:E; cbn [fst snd a_resp]; apply co_settle; [eapply trait_create_cons; exact E|reflexivity].
  - (* ATraitDelLook *)
    cbn [a_resp astep]. destruct (negb _); cbn [fst snd a_resp]; [apply co_settle; reflexivity|].
    destruct (is_std_trait t1); cbn [fst snd a_resp]; [apply co_settle|apply co_open]; reflexivity.
  - (* ATraitDestroy *)
    cbn [a_resp astep]. destruct stale; cbn [fst snd a_resp]; [apply co_settle; reflexivity|].
    destruct (existsb _ (rp_traits d)); cbn [fst snd a_resp]; [apply co_settle; reflexivity|].
    destruct (negb _); cbn [fst snd a_resp]; apply co_settle; reflexivity.
Qed.

(* ================================================================ the generation a thread holds for consumer c *)
(* Every place of the thread's state that mentions c is bound to generation g: entries of the request not inspected yet carry
   g (and the request is at 1.28 or later, where the carried generation is compared), the Consumer objects built so far and
   the allocation objects made from them hold g.  A thread that is creating c, or has created it, does not hold a generation
   of an existing consumer; a thread that does not mention c holds every g (it never writes c). *)
Definition ck (w : witem) : cobj := match w with WWipe k | WRp k _ => k end.
Definition ent_ok (v g c : Z) (e : cons_in) : bool := negb (ci_uuid e =? c) || (oeqb (ci_gen e) (Some g) && (28 <=? v)).
Definition cobj_ok (g c : Z) (k : cobj) : bool := negb (co_uuid k =? c) || (co_gen k =? g).
Definition obj_ok (g c : Z) (o : areq) : bool := negb (q_cons o =? c) || (q_cgen o =? g).
Definition t_cheld (t : tstate) (c g : Z) : bool :=
  match t with
  | TRi x _ => forallb (ent_ok (x_v x) g c) (x_all x)
  | TCons x todo acc => forallb (ent_ok (x_v x) g c) todo && forallb (cobj_ok g c) acc
  | TCreate x e todo acc | TReload x e todo acc =>
      negb (ci_uuid e =? c) && forallb (ent_ok (x_v x) g c) todo && forallb (cobj_ok g c) acc
  | TObjs x ks todo objs => forallb (fun w => cobj_ok g c (ck w)) todo && forallb (obj_ok g c) objs
  | TMain x ks objs => forallb (obj_ok g c) objs
  | _ => false
  end.
Definition a_cheld (t : athread) (c g : Z) : bool :=
  match t with
  | ATree (TTOther t0) | ACached _ t0 | ACacheLoad t0 => t_cheld t0 c g
  | _ => false
  end.
(* the committing transaction has an allocation object for c *)
Definition t_cobjs (t : tstate) (c : Z) : bool := match t with TMain _ _ objs => memZ c (map q_cons objs) | _ => false end.
Definition a_cobjs (t : athread) (c : Z) : bool :=
  match t with ATree (TTOther t0) | ACached _ t0 => t_cobjs t0 c | _ => false end.
Lemma anote_cheld gt gp t c g : a_cheld (anote gt gp t) c g = a_cheld t c g.
Proof. destruct t; reflexivity. Qed.

Lemma fc_uuid d c k : find_cons d c = Some k -> c_uuid k = c.
Proof. unfold find_cons. intro H. apply find_cons_l_uuid in H. apply H. Qed.
Lemma oeqb_true a b : oeqb a b = true -> a = b.
Proof. destruct a, b; cbn; try discriminate; [|reflexivity]. intro H. apply Z.eqb_eq in H. congruence. Qed.
Lemma forallb_rev {A} (p : A -> bool) l : forallb p l = true -> forallb p (rev l) = true.
Proof. rewrite !forallb_forall. intros H x Hx. apply H. apply in_rev. exact Hx. Qed.
Lemma work_items_ck : forall ks l w, In w (work_items ks l) -> In (ck w) ks.
Proof.
  induction ks as [|k ks IH]; intros l w H; [destruct l; destruct H|]. destruct l as [|e l]; [destruct H|]. cbn [work_items] in H.
  destruct (ci_allocs e) as [|al als].
  - destruct H as [<-|H]; [left; reflexivity|right; eapply IH; exact H].
  - apply in_app_or in H. destruct H as [H|H]; [|right; eapply IH; exact H].
    apply in_map_iff in H. destruct H as (a & <- & _). left. reflexivity.
Qed.
Lemma held_after_cons x ks c g : forallb (cobj_ok g c) ks = true -> t_cheld (after_cons x ks) c g = true.
Proof.
  intro H. unfold after_cons. destruct (work_items ks (x_all x)) as [|w ws] eqn:E; [reflexivity|].
  cbn [t_cheld forallb]. rewrite andb_true_r. change (forallb (fun w0 => cobj_ok g c (ck w0)) (w :: ws) = true).
  apply forallb_forall. intros w0 Hw. rewrite <- E in Hw. apply work_items_ck in Hw.
  rewrite forallb_forall in H. apply H. exact Hw.
Qed.
Lemma main_err_status x e : 300 <= status (main_err x e).
Proof. unfold main_err. destruct (x_kind x); [apply alloc_err_status|apply alloc_err_status|apply reshape_err_status]. Qed.

(* the main transaction against the generation held *)
Lemma main_held x ks objs d0 d' c g : main_txn x ks objs d0 = Ok d' -> forallb (obj_ok g c) objs = true ->
  if memZ c (map q_cons objs)
  then cgen_of d0 c = Some g /\ (cgen_of d' c = Some (g + 1) \/ cgen_of d' c = None)
  else cgen_of d' c = cgen_of d0 c.
Proof.
  intros Em Hh. destruct (main_cons_exact _ _ _ _ _ Em) as (X1 & X2 & _).
  destruct (memZ c (map q_cons objs)) eqn:M.
  - apply memZ_In in M. destruct (X1 c M) as (o & Ho & Ec & A & B). rewrite forallb_forall in Hh. specialize (Hh o Ho).
    unfold obj_ok in Hh. rewrite Ec, Z.eqb_refl in Hh. cbn [negb orb] in Hh. apply Z.eqb_eq in Hh. rewrite Hh in A, B. auto.
  - apply memZ_nIn in M. apply X2. exact M.
Qed.

Definition held_after (resp' : option resp) (held' cobjs : bool) (d d' : db) (c g : Z) : Prop :=
  (resp' = None -> held' = true) /\
  (forall r, resp' = Some r -> status r < 300 ->
     if cobjs then cgen_of d c = Some g /\ (cgen_of d' c = Some (g + 1) \/ cgen_of d' c = None) else csame d d' c).
Lemma ha_err us s cd h b d d' c g : 300 <= s -> held_after (t_resp (cleanup_or_done us (err s cd))) h b d d' c g.
Proof. intro Hs. rewrite cleanup_resp. split; [discriminate|]. intros r [= <-] H. cbn in H. lia. Qed.
Lemma ha_open t' b d d' c g : t_resp t' = None -> t_cheld t' c g = true -> held_after (t_resp t') (t_cheld t' c g) b d d' c g.
Proof. intros E H. rewrite E. split; [intros _; exact H|discriminate]. Qed.

Lemma t_cheld_step t d c g : t_resp t = None -> t_cheld t c g = true ->
  held_after (t_resp (snd (tstep t d))) (t_cheld (snd (tstep t d)) c g) (t_cobjs t c) d (fst (tstep t d)) c g.
Proof.
  intros Er Hh.
  assert (Hac : forall x ks b d1, forallb (cobj_ok g c) ks = true ->
            held_after (t_resp (after_cons x ks)) (t_cheld (after_cons x ks) c g) b d d1 c g).
  { intros x ks b d1 H. apply ha_open; [apply (proj1 (after_cons_open x ks 0))|apply held_after_cons; exact H]. }
  destruct t as [r|r|r g0|x todo|x todo acc|x e todo acc|x e todo acc|x ks todo objs|x ks objs|todo r|c0|c0 rows|c0];
    cbn [t_cheld] in Hh; try discriminate; cbn [tstep t_cobjs].
  - (* TRi *)
    destruct todo as [|r rest]; cbn [fst snd].
    + destruct (x_all x) as [|e l] eqn:El; [apply Hac; reflexivity|]. apply ha_open; [reflexivity|]. cbn [t_cheld]. rewrite Hh. reflexivity.
    + destruct (find_rp d (ri_rp r)) as [me|]; [|apply (ha_err []); lia].
      destruct (negb (ri_gen r =? rp_gen me)); cbn [fst snd]; [apply (ha_err []); lia|].
      destruct rest as [|r2 rest2]; [|apply ha_open; [reflexivity|exact Hh]].
      destruct (x_all x) as [|e l] eqn:El; [apply Hac; reflexivity|]. apply ha_open; [reflexivity|]. cbn [t_cheld]. rewrite Hh. reflexivity.
  - (* TCons *)
    apply andb_true_iff in Hh. destruct Hh as [He Ha].
    destruct todo as [|e rest]; cbn [fst snd]; [apply Hac; apply forallb_rev; exact Ha|]. cbv zeta.
    cbn [forallb] in He. apply andb_true_iff in He. destruct He as [He Hrest].
    destruct (rq_attrs (x_cf x) (x_v x) e) as [[pj us] ty].
    destruct (find_cons d (ci_uuid e)) as [k|] eqn:F.
    + destruct ((28 <=? x_v x) && negb (oeqb (Some (c_gen k)) (ci_gen e))) eqn:Cd; cbn [fst snd]; [apply ha_err; lia|].
      assert (Hk : cobj_ok g c (mkCobj (c_uuid k) (c_gen k) (c_proj k) (c_user k) (c_type k) false pj us ty) = true).
      { unfold cobj_ok. cbn [co_uuid co_gen]. destruct (c_uuid k =? c) eqn:Eu; [|reflexivity]. cbn [negb orb].
        apply Z.eqb_eq in Eu. pose proof (fc_uuid _ _ _ F) as Ek. unfold ent_ok in He.
        assert (Ec : (ci_uuid e =? c) = true) by (apply Z.eqb_eq; congruence). rewrite Ec in He. cbn [negb orb] in He.
        apply andb_true_iff in He. destruct He as [Hg Hv]. rewrite Hv in Cd. cbn [andb] in Cd. apply negb_false_iff in Cd.
        apply oeqb_true in Hg. apply oeqb_true in Cd. rewrite Hg in Cd. injection Cd as ->. apply Z.eqb_refl. }
      destruct rest as [|e2 rest2].
      * apply Hac. apply forallb_rev. cbn [forallb]. rewrite Hk, Ha. reflexivity.
      * apply ha_open; [reflexivity|]. cbn [t_cheld forallb] in *. rewrite Hrest, Hk, Ha. reflexivity.
    + destruct ((28 <=? x_v x) && match ci_gen e with Some _ => true | None => false end) eqn:Cd; cbn [fst snd]; [apply ha_err; lia|].
      apply ha_open; [reflexivity|]. cbn [t_cheld]. rewrite Hrest, Ha, !andb_true_r. unfold ent_ok in He.
      destruct (ci_uuid e =? c); [|reflexivity]. cbn [negb orb] in He. apply andb_true_iff in He. destruct He as [Hg Hv].
      apply oeqb_true in Hg. rewrite Hg, Hv in Cd. discriminate.
  - (* TCreate *)
    apply andb_true_iff in Hh. destruct Hh as [Hh Ha]. apply andb_true_iff in Hh. destruct Hh as [Hne He].
    destruct (rq_attrs (x_cf x) (x_v x) e) as [[pj us] ty].
    destruct (find_cons d (ci_uuid e)) as [k|] eqn:F; cbn [fst snd].
    + apply ha_open; [reflexivity|]. cbn [t_cheld]. rewrite Hne, He, Ha. reflexivity.
    + assert (Hk : cobj_ok g c (mkCobj (ci_uuid e) 0 pj us ty true pj us ty) = true) by (unfold cobj_ok; cbn [co_uuid]; rewrite Hne; reflexivity).
      destruct todo as [|e2 rest2].
      * apply Hac. apply forallb_rev. cbn [forallb]. rewrite Hk, Ha. reflexivity.
      * apply ha_open; [reflexivity|]. cbn [t_cheld forallb] in *. rewrite He, Hk, Ha. reflexivity.
  - (* TReload *)
    apply andb_true_iff in Hh. destruct Hh as [Hh Ha]. apply andb_true_iff in Hh. destruct Hh as [Hne He].
    destruct (rq_attrs (x_cf x) (x_v x) e) as [[pj us] ty].
    destruct (find_cons d (ci_uuid e)) as [k|] eqn:F; cbn [fst snd]; [|apply ha_err; lia].
    destruct (28 <=? x_v x); cbn [fst snd]; [apply ha_err; lia|].
    assert (Hk : cobj_ok g c (mkCobj (c_uuid k) (c_gen k) (c_proj k) (c_user k) (c_type k) false pj us ty) = true).
    { unfold cobj_ok. cbn [co_uuid]. rewrite (fc_uuid _ _ _ F), Hne. reflexivity. }
    destruct todo as [|e2 rest2].
    + apply Hac. apply forallb_rev. cbn [forallb]. rewrite Hk, Ha. reflexivity.
    + apply ha_open; [reflexivity|]. cbn [t_cheld forallb] in *. rewrite He, Hk, Ha. reflexivity.
  - (* TObjs *)
    apply andb_true_iff in Hh. destruct Hh as [Hw Ho].
    destruct todo as [|w rest]; cbn [fst snd]; [apply ha_open; [reflexivity|exact Ho]|]. cbv zeta.
    cbn [forallb] in Hw. apply andb_true_iff in Hw. destruct Hw as [Hw Hrest].
    assert (Hnext : forall objs' d1, forallb (obj_ok g c) objs' = true ->
              held_after (t_resp (match rest with [] => TMain x ks objs' | _ :: _ => TObjs x ks rest objs' end))
                         (t_cheld (match rest with [] => TMain x ks objs' | _ :: _ => TObjs x ks rest objs' end) c g) false d d1 c g).
    { intros objs' d1 H. destruct rest; (apply ha_open; [reflexivity|]); cbn [t_cheld]; [exact H|]. rewrite Hrest, H. reflexivity. }
    destruct w as [k|k a]; cbn [ck] in Hw.
    + cbn [fst snd]. apply Hnext. rewrite forallb_app, Ho. cbn [andb]. apply forallb_forall. intros o Hin.
      apply in_map_iff in Hin. destruct Hin as (q & <- & Hq). apply C04.wipe_list_In in Hq. destruct Hq as [Eq _].
      unfold obj_ok. cbn [q_cons q_cgen]. rewrite Eq. exact Hw.
    + destruct (find_rp d (ai_rp a)); cbn [fst snd]; [|apply ha_err; lia].
      apply Hnext. rewrite forallb_app, Ho. cbn [andb]. apply forallb_forall. intros o Hin.
      apply in_map_iff in Hin. destruct Hin as (y & <- & _). exact Hw.
  - (* TMain *)
    destruct (main_txn x ks objs d) as [d'|e0] eqn:Em; cbn [fst snd]; rewrite cleanup_resp.
    + split; [discriminate|]. intros r _ _. exact (main_held _ _ _ _ _ _ _ Em Hh).
    + split; [discriminate|]. intros r [= <-] H. pose proof (main_err_status x e0). lia.
Qed.

Lemma a_cheld_step cf t d c g : a_resp t = None -> a_cheld t c g = true ->
  held_after (a_resp (fst (astep cf t d))) (a_cheld (fst (astep cf t d)) c g) (a_cobjs t c) d (snd (astep cf t d)) c g.
Proof.
  intros Er Hh.
  destruct t as [t0|snap t0|t0|c0|t0|u0 g0 ts|u0 ts g0|u0 ts g0 lost|v u0 g0 l|v u0 l g0 gone|n|n|n|old new|id new|n|id|t1|t1|t1|t1 stale];
    cbn [a_cheld] in Hh; try discriminate.
  - (* ATree *)
    destruct t0 as [r|v u0 name parent|v u0 name parent|v u0 name np g0|u0|u0|t0]; try discriminate.
    cbn [a_resp] in Er. cbn [astep ttstep a_cobjs]. pose proof (t_cheld_step t0 d c g Er Hh) as H.
    destruct (tstep t0 d) as [d' t']. exact H.
  - (* ACached *)
    cbn [a_resp] in Er. cbn [a_cobjs].
    destruct t0 as [r|r|r g0|x todo|x todo acc|x e todo acc|x e todo acc|x ks todo objs|x ks objs|todo r|c1|c1 rows|c1];
      try (rewrite acached_default by (intros; discriminate); cbn [fst snd a_resp a_cheld];
           match goal with |- context [tstep ?tt d] => exact (t_cheld_step tt d c g Er Hh) end).
    + (* TObjs *)
      destruct todo as [|[k|k a] rest];
        try (rewrite acached_default by (intros; discriminate); cbn [fst snd a_resp a_cheld];
             match goal with |- context [tstep ?tt d] => exact (t_cheld_step tt d c g Er Hh) end).
      pose proof (t_cheld_step (TObjs x ks (WWipe k :: rest) objs) d c g Er Hh) as H. cbn [astep].
      destruct (tstep (TObjs x ks (WWipe k :: rest) objs) d) as [d' t'] eqn:Es. cbn [fst snd t_cobjs] in H.
      assert (Eo : t_resp t' = None) by (cbn [tstep] in Es; injection Es as _ <-; destruct rest; reflexivity).
      rewrite Eo in H. destruct (cache_misses snap (wipe_list d (co_uuid k))); cbn [fst snd a_resp a_cheld]; [|rewrite Eo; exact H].
      split; [intros _; apply H; reflexivity|discriminate].
    + (* TMain *)
      cbn [t_cheld] in Hh. cbn [astep t_cobjs]. unfold main_txn_cached.
      destruct (main_txn x ks objs (set_rcs d (rcs d ++ stale_rows d snap))) as [d'|e0] eqn:Em; cbn [fst snd a_resp]; rewrite cleanup_resp.
      * split; [discriminate|]. intros r _ _. exact (main_held _ _ _ _ _ _ _ Em Hh).
      * split; [discriminate|]. intros r [= <-] H. pose proof (main_err_status x e0). lia.
  - (* ACacheLoad *)
    cbn [astep fst snd a_resp a_cheld a_cobjs]. split; [intros _; exact Hh|]. intros r _ _. apply csame_refl.
Qed.

(* (b) A thread holding generation g for consumer c whose answer becomes a success in this transaction: if the transaction has
   an allocation object for c, it found c at generation g and left it at g + 1 (or ended it, when it leaves c without
   allocations); if it has none - the request does not write c, or it is a clearing write whose re-read found no rows -
   it leaves c as it is, without comparing anything. *)
Theorem c06a_commit_generation : forall cf t d c g r,
  a_resp t = None -> a_cheld t c g = true ->
  a_resp (fst (astep cf t d)) = Some r -> status r < 300 ->
  if a_cobjs t c
  then cgen_of d c = Some g /\ (cgen_of (snd (astep cf t d)) c = Some (g + 1) \/ cgen_of (snd (astep cf t d)) c = None)
  else cgen_of (snd (astep cf t d)) c = cgen_of d c.
Proof. intros cf t d c g r Er Hh E Hs. exact (proj2 (a_cheld_step cf t d c g Er Hh) r E Hs). Qed.

(* ================================================================ (a) schedules: a tally of increments per request *)
Fixpoint c_run_tally (cf : cfg) (c : Z) (s : list nat) (ts : list athread) (d : db) (tl : list Z)
  : list athread * db * list Z :=
  match s with
  | [] => (ts, d, tl)
  | i :: s' => let '(ts', d') := a_step_thread cf i ts d in c_run_tally cf c s' ts' d' (add_nth i (cdelta d d' c) tl)
  end.
Lemma c_run_tally_run cf c : forall s ts d tl, fst (c_run_tally cf c s ts d tl) = a_run_sched cf s ts d.
Proof.
  induction s as [|i s IH]; intros ts d tl; cbn [c_run_tally a_run_sched]; [reflexivity|].
  destruct (a_step_thread cf i ts d) as [ts' d']. apply IH.
Qed.

(* a per-request invariant P (thread state, tally, a fixed attribute) lifted to schedules; Q = what the stepping request's
   transaction guarantees in addition *)
Section Lift.
  Variables (cf : cfg) (c : Z) (A : Type) (P : athread -> Z -> A -> Prop) (Q : Z -> A -> db -> db -> Prop).
  Hypothesis P_anote : forall gt gp t z a, P t z a -> P (anote gt gp t) z a.
  Hypothesis P_step : forall t z a d, P t z a ->
    P (fst (astep cf t d)) (z + cdelta d (snd (astep cf t d)) c) a /\ Q z a d (snd (astep cf t d)).
  Hypothesis Q_refl : forall z a d, Q z a d d.

  Inductive PL : list athread -> list Z -> list A -> Prop :=
  | PL_nil : PL [] [] []
  | PL_cons t z a ts tl al : P t z a -> PL ts tl al -> PL (t :: ts) (z :: tl) (a :: al).

  Lemma PL_anote gt gp ts tl al : PL ts tl al -> PL (map (anote gt gp) ts) tl al.
  Proof. induction 1 as [|t z a ts tl al H1 _ IH]; cbn [map]; constructor; [apply P_anote; exact H1|exact IH]. Qed.

  Lemma raw_step_PL : forall ts tl al, PL ts tl al -> forall i d,
    PL (fst (a_step_raw cf i ts d)) (add_nth i (cdelta d (snd (a_step_raw cf i ts d)) c) tl) al /\
    ((length ts <= i)%nat /\ snd (a_step_raw cf i ts d) = d \/
     exists z a, nth_error tl i = Some z /\ nth_error al i = Some a /\ Q z a d (snd (a_step_raw cf i ts d))).
  Proof.
    induction 1 as [|t z a ts tl al H1 HL IH]; intros i d.
    - assert (E : a_step_raw cf i [] d = ([], d)) by (destruct i; reflexivity). rewrite E. cbn [fst snd].
      assert (Ea : forall z, add_nth i z [] = []) by (intro z; destruct i; reflexivity). rewrite Ea.
      split; [constructor|]. left. split; [cbn; lia|reflexivity].
    - destruct i as [|i]; cbn [a_step_raw add_nth].
      + destruct (P_step t z a d H1) as [S1 S2]. destruct (astep cf t d) as [t' d']. cbn [fst snd] in *.
        split; [constructor; assumption|]. right. exists z, a. auto.
      + specialize (IH i d). destruct (a_step_raw cf i ts d) as [ts' d']. cbn [fst snd] in *. destruct IH as [I1 I2].
        split; [constructor; assumption|]. destruct I2 as [[I2 I3]|I2]; [left; split; [cbn [length]; lia|exact I3]|right; exact I2].
  Qed.

  Lemma step_PL ts tl al i d : PL ts tl al ->
    PL (fst (a_step_thread cf i ts d)) (add_nth i (cdelta d (snd (a_step_thread cf i ts d)) c) tl) al /\
    ((length ts <= i)%nat /\ snd (a_step_thread cf i ts d) = d \/
     exists z a, nth_error tl i = Some z /\ nth_error al i = Some a /\ Q z a d (snd (a_step_thread cf i ts d))).
  Proof.
    intro H. pose proof (raw_step_PL ts tl al H i d) as R. unfold a_step_thread.
    destruct (a_step_raw cf i ts d) as [ts' d']. cbn [fst snd] in *. destruct R as [R1 R2]. split; [apply PL_anote; exact R1|exact R2].
  Qed.

  Theorem run_PL : forall s ts d tl al, PL ts tl al -> let '(ts', _, tl') := c_run_tally cf c s ts d tl in PL ts' tl' al.
  Proof.
    induction s as [|i s IH]; intros ts d tl al H; cbn [c_run_tally]; [exact H|].
    pose proof (step_PL ts tl al i d H) as [Hs _]. destruct (a_step_thread cf i ts d) as [ts' d']. cbn [fst snd] in Hs.
    apply IH. exact Hs.
  Qed.

  Lemma PL_nth : forall ts tl al, PL ts tl al -> forall i t, nth_error ts i = Some t ->
    exists z a, nth_error tl i = Some z /\ nth_error al i = Some a /\ P t z a.
  Proof.
    induction 1 as [|t0 z a ts tl al H1 _ IH]; intros i t Hi; [destruct i; discriminate|].
    destruct i as [|i]; cbn [nth_error] in *; [injection Hi as <-; eauto|apply IH; exact Hi].
  Qed.
  Lemma PL_length ts tl al : PL ts tl al -> length tl = length ts /\ length al = length ts.
  Proof. induction 1 as [|t0 z a ts tl al H1 _ [I1 I2]]; cbn [length]; auto. Qed.
End Lift.

(* c exists in the start state and after every step of the schedule: one segment of c's life *)
Fixpoint c_alive (cf : cfg) (c : Z) (s : list nat) (ts : list athread) (d : db) : Prop :=
  cgen_of d c <> None /\
  match s with
  | [] => True
  | i :: s' => let '(ts', d') := a_step_thread cf i ts d in c_alive cf c s' ts' d'
  end.
Lemma c_alive_head cf c s ts d : c_alive cf c s ts d -> cgen_of d c <> None.
Proof. destruct s; cbn [c_alive]; intro H; apply H. Qed.
Lemma cdelta_refl d c : cdelta d d c = 0.
Proof. apply csame_cdelta, csame_refl. Qed.
Lemma add_nth_zero : forall l i, add_nth i 0 l = l.
Proof. induction l as [|x l IH]; intro i; [destruct i; reflexivity|]. destruct i; cbn [add_nth]; [rewrite Z.add_0_r|rewrite IH]; reflexivity. Qed.

Theorem c_run_sum cf c : forall s ts d tl g, length tl = length ts -> c_alive cf c s ts d -> cgen_of d c = Some g ->
  let '(_, d', tl') := c_run_tally cf c s ts d tl in cgen_of d' c = Some (g + (sumZ tl' - sumZ tl)).
Proof.
  induction s as [|i s IH]; intros ts d tl g Hlen Hal Hg; cbn [c_run_tally].
  - rewrite Hg. f_equal. lia.
  - destruct Hal as [_ Hal]. pose proof (a_step_raw_length cf ts i d) as Hl. pose proof (a_step_raw_range cf ts i d) as Hr.
    unfold a_step_thread in *. destruct (a_step_raw cf i ts d) as [ts1 d1] eqn:Es. cbn [fst] in Hl.
    set (ts' := map (anote (gone_traits d d1) (gone_rps d d1)) ts1) in *.
    pose proof (c_alive_head _ _ _ _ _ Hal) as Hne. destruct (cgen_of d1 c) as [g1|] eqn:Hg1; [|contradiction].
    assert (Hd : cdelta d d1 c = g1 - g) by (unfold cdelta; rewrite Hg, Hg1; reflexivity).
    specialize (IH ts' d1 (add_nth i (cdelta d d1 c) tl) g1).
    assert (Hlen' : length (add_nth i (cdelta d d1 c) tl) = length ts').
    { rewrite add_nth_length. unfold ts'. rewrite map_length, Hl. exact Hlen. }
    specialize (IH Hlen' Hal Hg1).
    destruct (c_run_tally cf c s ts' d1 (add_nth i (cdelta d d1 c) tl)) as [[tsf df] tlf]. rewrite IH. f_equal.
    destruct (le_lt_dec (length ts) i) as [Hge|Hlt].
    + assert (E : d1 = d) by (pose proof (Hr Hge) as E0; congruence). rewrite add_nth_range by lia.
      assert (g1 = g) by (rewrite E in Hg1; congruence). lia.
    + rewrite sumZ_add_nth by lia. lia.
Qed.

(* the state of one request: answer not fixed - nothing added yet; rejected - nothing added; accepted - 0 or 1 *)
Definition cacct1 (t : athread) (z : Z) (_ : unit) : Prop :=
  match a_resp t with
  | None => z = 0
  | Some r => (300 <= status r /\ z = 0) \/ (status r < 300 /\ 0 <= z <= 1)
  end.
Lemma cacct1_step cf c t z a d : cacct1 t z a -> cacct1 (fst (astep cf t d)) (z + cdelta d (snd (astep cf t d)) c) a /\ True.
Proof.
  intro H. split; [|exact I]. pose proof (a_cacct cf t d c) as A. unfold cacct1, c_outcome in *. destruct (a_resp t) as [r|] eqn:Er.
  - destruct A as [A1 A2]. rewrite A1. assert (E : cdelta d (snd (astep cf t d)) c = 0) by (destruct A2; [apply csame_cdelta|apply cend_cdelta]; assumption).
    rewrite E, Z.add_0_r. exact H.
  - subst z. destruct A as [[A1 A2]|[r [A1 A]]]; rewrite A1.
    + destruct A2 as [A2|A2]; [rewrite (csame_cdelta _ _ _ A2)|rewrite (ccreate_cdelta _ _ _ A2)]; reflexivity.
    + destruct A as [[Hs A]|[Hs A]]; [left; rewrite (csame_cdelta _ _ _ A); auto|right]. split; [exact Hs|].
      destruct A as [A|[A|A]]; [rewrite (csame_cdelta _ _ _ A)|rewrite (cincr_cdelta _ _ _ A)|rewrite (cend_cdelta _ _ _ A)]; lia.
Qed.
Lemma cacct1_anote gt gp t z a : cacct1 t z a -> cacct1 (anote gt gp t) z a.
Proof. unfold cacct1. rewrite anote_resp. auto. Qed.
Definition cacctL := PL unit cacct1.
Lemma cacctL_init cf : forall reqs, cacctL (map (ainit cf) reqs) (map (fun _ => 0) reqs) (map (fun _ => tt) reqs).
Proof.
  induction reqs as [|r reqs IH]; cbn [map]; constructor; [|exact IH]. unfold cacct1.
  destruct (a_resp (ainit cf r)) as [r'|] eqn:E; [left; split; [eapply ainit_resp_err; exact E|reflexivity]|reflexivity].
Qed.

(* (a) For every start state, every list of requests, every schedule and every consumer c: with the tally tl of the increments
   of c's generation made by the transactions of each request,
     - a request whose answer is not fixed yet, or is >= 300, has added nothing; a request answered with success 0 or 1;
     - c's final generation is its initial generation plus the sum of the tally, if c exists throughout.
   c_run_sum is the same for any thread states: it applies to every segment of a schedule over which c exists; between
   segments c is ended (by a clearing write, DELETE /allocations/{c}, or the clean-up of a request that created it and
   failed) and created again at generation 0 (c_acct: these are the only transactions that change whether c exists). *)
Theorem c06a_accounting : forall cf reqs s d c,
  let '(ts, d', tl) := c_run_tally cf c s (map (ainit cf) reqs) d (map (fun _ => 0) reqs) in
  a_exec cf reqs s d = (ts, d') /\
  cacctL ts tl (map (fun _ => tt) reqs) /\
  (forall g, cgen_of d c = Some g -> c_alive cf c s (map (ainit cf) reqs) d -> cgen_of d' c = Some (g + sumZ tl)).
Proof.
  intros cf reqs s d c.
  pose proof (c_run_tally_run cf c s (map (ainit cf) reqs) d (map (fun _ => 0) reqs)) as Hrun.
  pose proof (run_PL cf c unit cacct1 (fun _ _ _ _ => True) cacct1_anote (cacct1_step cf c) s _ d _ _ (cacctL_init cf reqs)) as Hacct.
  pose proof (fun g => c_run_sum cf c s (map (ainit cf) reqs) d (map (fun _ => 0) reqs) g) as Hsum.
  destruct (c_run_tally cf c s (map (ainit cf) reqs) d (map (fun _ => 0) reqs)) as [[ts d'] tl]. cbn [fst] in Hrun.
  split; [symmetry; exact Hrun|]. split; [exact Hacct|]. intros g Hg Hal.
  specialize (Hsum g). rewrite !map_length in Hsum. specialize (Hsum eq_refl Hal Hg). rewrite sumZ_zero in Hsum.
  rewrite Hsum. f_equal. lia.
Qed.

(* every transaction does one of four things to c *)
Lemma astep_effect cf t d c : let d' := snd (astep cf t d) in csame d d' c \/ ccreate d d' c \/ cincr d d' c \/ cend d d' c.
Proof.
  cbv zeta. pose proof (a_cacct cf t d c) as A. unfold c_outcome in A. destruct (a_resp t).
  - destruct A as [_ [A|A]]; auto.
  - destruct A as [[_ [A|A]]|[r [_ [[_ A]|[_ [A|[A|A]]]]]]]; auto.
Qed.
Lemma c_step_effect cf c : forall ts i d, let d' := snd (a_step_thread cf i ts d) in
  csame d d' c \/ ccreate d d' c \/ cincr d d' c \/ cend d d' c.
Proof.
  assert (R : forall ts i d, let d' := snd (a_step_raw cf i ts d) in csame d d' c \/ ccreate d d' c \/ cincr d d' c \/ cend d d' c).
  { induction ts as [|t ts IH]; intros i d; cbv zeta; [destruct i; left; apply csame_refl|].
    destruct i as [|i]; cbn [a_step_raw].
    - pose proof (astep_effect cf t d c) as H. cbv zeta in H. destruct (astep cf t d). exact H.
    - specialize (IH i d). cbv zeta in IH. destruct (a_step_raw cf i ts d). exact IH. }
  intros ts i d. cbv zeta. specialize (R ts i d). cbv zeta in R. unfold a_step_thread. destruct (a_step_raw cf i ts d). exact R.
Qed.

(* segments: a schedule s1 ++ s2 is s1 followed by s2 from the state and the tally reached *)
Lemma c_run_tally_app cf c : forall s1 s2 ts d tl,
  c_run_tally cf c (s1 ++ s2) ts d tl = let '(ts1, d1, tl1) := c_run_tally cf c s1 ts d tl in c_run_tally cf c s2 ts1 d1 tl1.
Proof.
  induction s1 as [|i s1 IH]; intros s2 ts d tl; cbn [app c_run_tally]; [reflexivity|].
  destruct (a_step_thread cf i ts d) as [ts' d']. apply IH.
Qed.

(* (a) for one segment of c's life: whatever happened before (s1: c may have been created, ended, created again), if c exists
   from the end of s1 to the end of s1 ++ s2, its final generation is the one it had after s1 plus what the requests added
   during s2 *)
Theorem c06a_accounting_segment : forall cf reqs s1 s2 d c,
  let '(ts1, d1, tl1) := c_run_tally cf c s1 (map (ainit cf) reqs) d (map (fun _ => 0) reqs) in
  let '(ts2, d2, tl2) := c_run_tally cf c (s1 ++ s2) (map (ainit cf) reqs) d (map (fun _ => 0) reqs) in
  cacctL ts2 tl2 (map (fun _ => tt) reqs) /\
  forall g1, cgen_of d1 c = Some g1 -> c_alive cf c s2 ts1 d1 -> cgen_of d2 c = Some (g1 + (sumZ tl2 - sumZ tl1)).
Proof.
  intros cf reqs s1 s2 d c.
  pose proof (run_PL cf c unit cacct1 (fun _ _ _ _ => True) cacct1_anote (cacct1_step cf c) (s1 ++ s2) _ d _ _ (cacctL_init cf reqs)) as H2.
  pose proof (run_PL cf c unit cacct1 (fun _ _ _ _ => True) cacct1_anote (cacct1_step cf c) s1 _ d _ _ (cacctL_init cf reqs)) as H1.
  rewrite c_run_tally_app in *.
  destruct (c_run_tally cf c s1 (map (ainit cf) reqs) d (map (fun _ => 0) reqs)) as [[ts1 d1] tl1].
  pose proof (fun g => c_run_sum cf c s2 ts1 d1 tl1 g (proj1 (PL_length _ _ _ _ _ H1))) as Hs.
  destruct (c_run_tally cf c s2 ts1 d1 tl1) as [[ts2 d2] tl2]. split; [exact H2|]. intros g1 Hg Hal. exact (Hs g1 Hal Hg).
Qed.

(* ================================================================ (c) at most one increment per held generation *)
Section AtMostOne.
  Variables (cf : cfg) (c g : Z).

  Definition ch1 (t : athread) (z : Z) (f : bool) : Prop :=
    0 <= z /\ (a_resp t = None -> z = 0 /\ (f = true -> a_cheld t c g = true)).
  Definition chQ (z : Z) (f : bool) (d d' : db) : Prop :=
    0 <= cdelta d d' c /\ (0 < cdelta d d' c -> z = 0 /\ (f = true -> cgen_of d c = Some g)).

  Lemma ch1_step t z f d : ch1 t z f ->
    ch1 (fst (astep cf t d)) (z + cdelta d (snd (astep cf t d)) c) f /\ chQ z f d (snd (astep cf t d)).
  Proof.
    intros [Hz Ho]. pose proof (a_cacct cf t d c) as A. unfold c_outcome in A. unfold ch1, chQ. destruct (a_resp t) as [r|] eqn:Er.
    - destruct A as [A1 A2]. assert (E : cdelta d (snd (astep cf t d)) c = 0) by (destruct A2; [apply csame_cdelta|apply cend_cdelta]; assumption).
      rewrite E, Z.add_0_r, A1. split; [split; [exact Hz|discriminate]|split; lia].
    - destruct (Ho eq_refl) as [-> Hf]. destruct A as [[A1 A2]|[r [A1 A]]].
      + assert (E : cdelta d (snd (astep cf t d)) c = 0) by (destruct A2; [apply csame_cdelta|apply ccreate_cdelta]; assumption).
        rewrite E. split; [|split; lia]. split; [lia|]. intros _. split; [reflexivity|]. intro Ef.
        apply (proj1 (a_cheld_step cf t d c g Er (Hf Ef)) A1).
      + rewrite A1. destruct A as [[Hs A]|[Hs A]].
        * rewrite (csame_cdelta _ _ _ A). split; [split; [lia|discriminate]|split; lia].
        * destruct A as [A|[A|A]]; [rewrite (csame_cdelta _ _ _ A)|rewrite (cincr_cdelta _ _ _ A)|rewrite (cend_cdelta _ _ _ A)];
            (split; [split; [lia|discriminate]|split; [lia|]]); try lia.
          intros _. split; [reflexivity|]. intro Ef. pose proof (proj2 (a_cheld_step cf t d c g Er (Hf Ef)) r A1 Hs) as H.
          destruct (a_cobjs t c); [apply H|]. destruct A as [g0 [B1 B2]]. unfold csame in H. rewrite B1, B2 in H. injection H as H. lia.
  Qed.
  Lemma ch1_anote gt gp t z f : ch1 t z f -> ch1 (anote gt gp t) z f.
  Proof. unfold ch1. rewrite anote_resp, anote_cheld. auto. Qed.
  Lemma chQ_refl z f d : chQ z f d d.
  Proof. unfold chQ. rewrite cdelta_refl. split; lia. Qed.

  Definition chL := PL bool ch1.

  Lemma cnt_add : forall fs tl i f dl, nth_error tl i = Some 0 -> nth_error fs i = Some f -> 0 < dl ->
    cnt fs (add_nth i dl tl) = cnt fs tl + (if f then 1 else 0).
  Proof.
    induction fs as [|f0 fs IH]; intros tl i f dl Ht Hf Hp; [destruct i; discriminate|].
    destruct tl as [|z tl]; [destruct i; discriminate|]. destruct i as [|i]; cbn [nth_error add_nth cnt] in *.
    - injection Ht as ->. injection Hf as ->. assert (E2 : (0 <? 0 + dl) = true) by (apply Z.ltb_lt; lia).
      assert (E1 : (0 <? 0) = false) by reflexivity. rewrite E1, E2, andb_false_r, andb_true_r. destruct f; lia.
    - rewrite (IH tl i f dl Ht Hf Hp). lia.
  Qed.

  Theorem run_c_at_most_one : forall s ts d tl fs, chL ts tl fs -> c_alive cf c s ts d ->
    cnt fs tl <= 1 -> (cnt fs tl = 1 -> exists g', cgen_of d c = Some g' /\ g < g') ->
    let '(_, _, tl') := c_run_tally cf c s ts d tl in cnt fs tl' <= 1.
  Proof.
    induction s as [|i s IH]; intros ts d tl fs HL Hal Hc Hg; cbn [c_run_tally]; [exact Hc|].
    cbn [c_alive] in Hal. destruct Hal as [Hne Hal].
    pose proof (step_PL cf c bool ch1 chQ ch1_anote ch1_step ts tl fs i d HL) as R.
    destruct (a_step_thread cf i ts d) as [ts1 d1]. cbn [fst snd] in R. destruct R as [R1 R2].
    pose proof (c_alive_head _ _ _ _ _ Hal) as Hne1.
    destruct (cgen_of d c) as [gd|] eqn:Egd; [|contradiction]. destruct (cgen_of d1 c) as [gd1|] eqn:Egd1; [|contradiction].
    assert (Ed : cdelta d d1 c = gd1 - gd) by (unfold cdelta; rewrite Egd, Egd1; reflexivity).
    assert (HQ : cdelta d d1 c = 0 \/ exists f, nth_error tl i = Some 0 /\ nth_error fs i = Some f /\ 0 < cdelta d d1 c /\
                                                  (f = true -> gd = g)).
    { destruct R2 as [[_ ->]|(z & f & Hz & Hf & Q1 & Q2)]; [left; apply cdelta_refl|].
      destruct (Z.eq_dec (cdelta d d1 c) 0) as [E0|En]; [left; exact E0|right]. destruct (Q2 ltac:(lia)) as [-> Hgen].
      exists f. repeat split; auto; [lia|]. intro Ef. specialize (Hgen Ef). rewrite Egd in Hgen. congruence. }
    apply IH; [exact R1|exact Hal| |].
    - destruct HQ as [E0|(f & Hz & Hf & Hp & Hgen)]; [rewrite E0, add_nth_zero; exact Hc|].
      rewrite (cnt_add fs tl i f _ Hz Hf Hp). destruct f; [|lia].
      pose proof (cnt_nonneg fs tl). destruct (Z.eq_dec (cnt fs tl) 1) as [E1|]; [|lia].
      destruct (Hg E1) as [g' [Eg' Hlt]]. specialize (Hgen eq_refl). injection Eg' as <-. lia.
    - intro E1. rewrite Egd1. exists gd1. split; [reflexivity|].
      destruct HQ as [E0|(f & Hz & Hf & Hp & Hgen)].
      + rewrite E0, add_nth_zero in E1. destruct (Hg E1) as [g' [Eg' Hlt]]. injection Eg' as <-. lia.
      + rewrite (cnt_add fs tl i f _ Hz Hf Hp) in E1. destruct f.
        * specialize (Hgen eq_refl). lia.
        * rewrite Z.add_0_r in E1. destruct (Hg E1) as [g' [Eg' Hlt]]. injection Eg' as <-. lia.
  Qed.
End AtMostOne.

(* the requests that hold generation g for c from the start: PUT / POST /allocations and POST /reshaper from 1.28 whose entries
   for c all carry g - and, vacuously, those that do not mention c (they never write it) *)
Definition cholds0 (cf : cfg) (c g : Z) (r : req) : bool := a_cheld (ainit cf r) c g.
Lemma chL_init cf c g : forall reqs, chL c g (map (ainit cf) reqs) (map (fun _ => 0) reqs) (map (cholds0 cf c g) reqs).
Proof.
  induction reqs as [|r reqs IH]; cbn [map]; constructor; [|exact IH]. unfold ch1. split; [lia|]. intros _. split; [reflexivity|].
  unfold cholds0. auto.
Qed.

(* (c) any start state, any requests, any schedule during which c exists: of the requests holding generation g for c, AT MOST
   ONE increments c's generation. *)
Theorem c06a_at_most_one : forall cf reqs s d c g,
  c_alive cf c s (map (ainit cf) reqs) d ->
  let fs := map (cholds0 cf c g) reqs in
  let '(_, _, tl) := c_run_tally cf c s (map (ainit cf) reqs) d (map (fun _ => 0) reqs) in
  cnt fs tl <= 1 /\
  forall i j, i <> j -> nth i fs false = true -> nth j fs false = true -> 0 < nth i tl 0 -> 0 < nth j tl 0 -> False.
Proof.
  intros cf reqs s d c g Hal. cbv zeta.
  pose proof (run_c_at_most_one cf c g s (map (ainit cf) reqs) d (map (fun _ => 0) reqs) (map (cholds0 cf c g) reqs)
                (chL_init cf c g reqs) Hal) as H.
  rewrite cnt_zero in H. specialize (H ltac:(lia) ltac:(lia)).
  destruct (c_run_tally cf c s (map (ainit cf) reqs) d (map (fun _ => 0) reqs)) as [[ts d'] tl].
  split; [exact H|]. intros i j Hij Hi Hj Zi Zj. pose proof (cnt_two (map (cholds0 cf c g) reqs) tl i j Hij Hi Hj Zi Zj). lia.
Qed.

(* ================================================================ (d) requests carrying null for c *)
(* The thread carries null for c (at 1.28 or later) and has not got hold of c: the entries for c not inspected yet carry null,
   no Consumer object and no allocation object for c has been built; it may be in the middle of its attempt to create c. *)
Definition is_none (o : option Z) : bool := match o with None => true | Some _ => false end.
Definition ent_null (v c : Z) (e : cons_in) : bool := negb (ci_uuid e =? c) || (is_none (ci_gen e) && (28 <=? v)).
Definition cobj_no (c : Z) (k : cobj) : bool := negb (co_uuid k =? c).
Definition obj_no (c : Z) (o : areq) : bool := negb (q_cons o =? c).
Definition t_cnull (t : tstate) (c : Z) : bool :=
  match t with
  | TRi x _ => forallb (ent_null (x_v x) c) (x_all x)
  | TCons x todo acc => forallb (ent_null (x_v x) c) todo && forallb (cobj_no c) acc
  | TCreate x e todo acc | TReload x e todo acc =>
      ent_null (x_v x) c e && forallb (ent_null (x_v x) c) todo && forallb (cobj_no c) acc
  | TObjs x ks todo objs => forallb (fun w => cobj_no c (ck w)) todo && forallb (obj_no c) objs
  | TMain x ks objs => forallb (obj_no c) objs
  | _ => false
  end.
Definition a_cnull (t : athread) (c : Z) : bool :=
  match t with
  | ATree (TTOther t0) | ACached _ t0 | ACacheLoad t0 => t_cnull t0 c
  | _ => false
  end.
Lemma anote_cnull gt gp t c : a_cnull (anote gt gp t) c = a_cnull t c.
Proof. destruct t; reflexivity. Qed.

Lemma null_after_cons x ks c : forallb (cobj_no c) ks = true -> t_cnull (after_cons x ks) c = true.
Proof.
  intro H. unfold after_cons. destruct (work_items ks (x_all x)) as [|w ws] eqn:E; [reflexivity|].
  cbn [t_cnull forallb]. rewrite andb_true_r. change (forallb (fun w0 => cobj_no c (ck w0)) (w :: ws) = true).
  apply forallb_forall. intros w0 Hw. rewrite <- E in Hw. apply work_items_ck in Hw.
  rewrite forallb_forall in H. apply H. exact Hw.
Qed.
Lemma main_null x ks objs d0 d' c : main_txn x ks objs d0 = Ok d' -> forallb (obj_no c) objs = true -> cgen_of d' c = cgen_of d0 c.
Proof.
  intros Em Hh. destruct (main_cons_exact _ _ _ _ _ Em) as (_ & X2 & _). apply X2. intro Hin.
  apply in_map_iff in Hin. destruct Hin as (o & Eo & Ho). rewrite forallb_forall in Hh. specialize (Hh o Ho).
  unfold obj_no in Hh. rewrite Eo, Z.eqb_refl in Hh. discriminate.
Qed.

Definition null_after (resp' : option resp) (null' : bool) (d d' : db) (c : Z) : Prop :=
  (resp' = None -> null' = true \/ ccreate d d' c) /\
  (forall r, resp' = Some r -> status r < 300 -> csame d d' c).
Lemma na_err us s cd h d d' c : 300 <= s -> null_after (t_resp (cleanup_or_done us (err s cd))) h d d' c.
Proof. intro Hs. rewrite cleanup_resp. split; [discriminate|]. intros r [= <-] H. cbn in H. lia. Qed.
Lemma na_open t' d d' c : t_resp t' = None -> t_cnull t' c = true -> null_after (t_resp t') (t_cnull t' c) d d' c.
Proof. intros E H. rewrite E. split; [intros _; left; exact H|discriminate]. Qed.

Lemma t_cnull_step t d c : t_resp t = None -> t_cnull t c = true ->
  null_after (t_resp (snd (tstep t d))) (t_cnull (snd (tstep t d)) c) d (fst (tstep t d)) c.
Proof.
  intros Er Hh.
  assert (Hac : forall x ks d1, forallb (cobj_no c) ks = true ->
            null_after (t_resp (after_cons x ks)) (t_cnull (after_cons x ks) c) d d1 c).
  { intros x ks d1 H. apply na_open; [apply (proj1 (after_cons_open x ks 0))|apply null_after_cons; exact H]. }
  destruct t as [r|r|r g0|x todo|x todo acc|x e todo acc|x e todo acc|x ks todo objs|x ks objs|todo r|c0|c0 rows|c0];
    cbn [t_cnull] in Hh; try discriminate; cbn [tstep].
  - (* TRi *)
    destruct todo as [|r rest]; cbn [fst snd].
    + destruct (x_all x) as [|e l] eqn:El; [apply Hac; reflexivity|]. apply na_open; [reflexivity|]. cbn [t_cnull]. rewrite Hh. reflexivity.
    + destruct (find_rp d (ri_rp r)) as [me|]; [|apply (na_err []); lia].
      destruct (negb (ri_gen r =? rp_gen me)); cbn [fst snd]; [apply (na_err []); lia|].
      destruct rest as [|r2 rest2]; [|apply na_open; [reflexivity|exact Hh]].
      destruct (x_all x) as [|e l] eqn:El; [apply Hac; reflexivity|]. apply na_open; [reflexivity|]. cbn [t_cnull]. rewrite Hh. reflexivity.
  - (* TCons *)
    apply andb_true_iff in Hh. destruct Hh as [He Ha].
    destruct todo as [|e rest]; cbn [fst snd]; [apply Hac; apply forallb_rev; exact Ha|]. cbv zeta.
    cbn [forallb] in He. apply andb_true_iff in He. destruct He as [He Hrest].
    destruct (rq_attrs (x_cf x) (x_v x) e) as [[pj us] ty].
    destruct (find_cons d (ci_uuid e)) as [k|] eqn:F.
    + destruct ((28 <=? x_v x) && negb (oeqb (Some (c_gen k)) (ci_gen e))) eqn:Cd; cbn [fst snd]; [apply na_err; lia|].
      assert (Hk : cobj_no c (mkCobj (c_uuid k) (c_gen k) (c_proj k) (c_user k) (c_type k) false pj us ty) = true).
      { unfold cobj_no. cbn [co_uuid]. rewrite (fc_uuid _ _ _ F). unfold ent_null in He. destruct (ci_uuid e =? c); [|reflexivity].
        cbn [negb orb] in He. apply andb_true_iff in He. destruct He as [Hg Hv]. rewrite Hv in Cd.
        destruct (ci_gen e); [discriminate|]. discriminate. }
      destruct rest as [|e2 rest2].
      * apply Hac. apply forallb_rev. cbn [forallb]. rewrite Hk, Ha. reflexivity.
      * apply na_open; [reflexivity|]. cbn [t_cnull forallb] in *. rewrite Hrest, Hk, Ha. reflexivity.
    + destruct ((28 <=? x_v x) && match ci_gen e with Some _ => true | None => false end) eqn:Cd; cbn [fst snd]; [apply na_err; lia|].
      apply na_open; [reflexivity|]. cbn [t_cnull]. rewrite He, Hrest, Ha. reflexivity.
  - (* TCreate *)
    apply andb_true_iff in Hh. destruct Hh as [Hh Ha]. apply andb_true_iff in Hh. destruct Hh as [Hne He].
    destruct (rq_attrs (x_cf x) (x_v x) e) as [[pj us] ty].
    destruct (find_cons d (ci_uuid e)) as [k|] eqn:F; cbn [fst snd].
    + apply na_open; [reflexivity|]. cbn [t_cnull]. rewrite Hne, He, Ha. reflexivity.
    + assert (Hn : cgen_of d (ci_uuid e) = None) by (unfold cgen_of; rewrite F; reflexivity).
      destruct (create_effect d (mkCons (ci_uuid e) pj us ty 0) c Hn eq_refl) as [C1 _]. cbn [c_uuid] in C1.
      assert (Eo : t_resp (match todo with [] => after_cons x (rev (mkCobj (ci_uuid e) 0 pj us ty true pj us ty :: acc))
                                     | _ :: _ => TCons x todo (mkCobj (ci_uuid e) 0 pj us ty true pj us ty :: acc) end) = None).
      { destruct todo; [apply (proj1 (after_cons_open x _ 0))|reflexivity]. }
      rewrite Eo. split; [|discriminate]. intros _.
      destruct (Z.eq_dec c (ci_uuid e)) as [Ec|Ec]; [right; apply C1; exact Ec|left].
      assert (Hk : cobj_no c (mkCobj (ci_uuid e) 0 pj us ty true pj us ty) = true).
      { unfold cobj_no. cbn [co_uuid]. apply negb_true_iff, Z.eqb_neq. congruence. }
      destruct todo as [|e2 rest2].
      * apply null_after_cons. apply forallb_rev. cbn [forallb]. rewrite Hk, Ha. reflexivity.
      * cbn [t_cnull forallb] in *. rewrite He, Hk, Ha. reflexivity.
  - (* TReload *)
    apply andb_true_iff in Hh. destruct Hh as [Hh Ha]. apply andb_true_iff in Hh. destruct Hh as [Hne He].
    destruct (rq_attrs (x_cf x) (x_v x) e) as [[pj us] ty].
    destruct (find_cons d (ci_uuid e)) as [k|] eqn:F; cbn [fst snd]; [|apply na_err; lia].
    destruct (28 <=? x_v x) eqn:Ev; cbn [fst snd]; [apply na_err; lia|].
    assert (Hk : cobj_no c (mkCobj (c_uuid k) (c_gen k) (c_proj k) (c_user k) (c_type k) false pj us ty) = true).
    { unfold cobj_no. cbn [co_uuid]. rewrite (fc_uuid _ _ _ F). unfold ent_null in Hne. destruct (ci_uuid e =? c); [|reflexivity].
      cbn [negb orb] in Hne. rewrite Ev, andb_false_r in Hne. discriminate. }
    destruct todo as [|e2 rest2].
    + apply Hac. apply forallb_rev. cbn [forallb]. rewrite Hk, Ha. reflexivity.
    + apply na_open; [reflexivity|]. cbn [t_cnull forallb] in *. rewrite He, Hk, Ha. reflexivity.
  - (* TObjs *)
    apply andb_true_iff in Hh. destruct Hh as [Hw Ho].
    destruct todo as [|w rest]; cbn [fst snd]; [apply na_open; [reflexivity|exact Ho]|]. cbv zeta.
    cbn [forallb] in Hw. apply andb_true_iff in Hw. destruct Hw as [Hw Hrest].
    assert (Hnext : forall objs' d1, forallb (obj_no c) objs' = true ->
              null_after (t_resp (match rest with [] => TMain x ks objs' | _ :: _ => TObjs x ks rest objs' end))
                         (t_cnull (match rest with [] => TMain x ks objs' | _ :: _ => TObjs x ks rest objs' end) c) d d1 c).
    { intros objs' d1 H. destruct rest; (apply na_open; [reflexivity|]); cbn [t_cnull]; [exact H|]. rewrite Hrest, H. reflexivity. }
    destruct w as [k|k a]; cbn [ck] in Hw.
    + cbn [fst snd]. apply Hnext. rewrite forallb_app, Ho. cbn [andb]. apply forallb_forall. intros o Hin.
      apply in_map_iff in Hin. destruct Hin as (q & <- & Hq). apply C04.wipe_list_In in Hq. destruct Hq as [Eq _].
      unfold obj_no. cbn [q_cons]. rewrite Eq. exact Hw.
    + destruct (find_rp d (ai_rp a)); cbn [fst snd]; [|apply na_err; lia].
      apply Hnext. rewrite forallb_app, Ho. cbn [andb]. apply forallb_forall. intros o Hin.
      apply in_map_iff in Hin. destruct Hin as (y & <- & _). exact Hw.
  - (* TMain *)
    destruct (main_txn x ks objs d) as [d'|e0] eqn:Em; cbn [fst snd]; rewrite cleanup_resp.
    + split; [discriminate|]. intros r _ _. exact (main_null _ _ _ _ _ _ Em Hh).
    + split; [discriminate|]. intros r [= <-] H. pose proof (main_err_status x e0). lia.
Qed.

Lemma a_cnull_step cf t d c : a_resp t = None -> a_cnull t c = true ->
  null_after (a_resp (fst (astep cf t d))) (a_cnull (fst (astep cf t d)) c) d (snd (astep cf t d)) c.
Proof.
  intros Er Hh.
  destruct t as [t0|snap t0|t0|c0|t0|u0 g0 ts|u0 ts g0|u0 ts g0 lost|v u0 g0 l|v u0 l g0 gone|n|n|n|old new|id new|n|id|t1|t1|t1|t1 stale];
    cbn [a_cnull] in Hh; try discriminate.
  - (* ATree *)
    destruct t0 as [r|v u0 name parent|v u0 name parent|v u0 name np g0|u0|u0|t0]; try discriminate.
    cbn [a_resp] in Er. cbn [astep ttstep]. pose proof (t_cnull_step t0 d c Er Hh) as H.
    destruct (tstep t0 d) as [d' t']. exact H.
  - (* ACached *)
    cbn [a_resp] in Er.
    destruct t0 as [r|r|r g0|x todo|x todo acc|x e todo acc|x e todo acc|x ks todo objs|x ks objs|todo r|c1|c1 rows|c1];
      try (rewrite acached_default by (intros; discriminate); cbn [fst snd a_resp a_cnull];
           match goal with |- context [tstep ?tt d] => exact (t_cnull_step tt d c Er Hh) end).
    + (* TObjs *)
      destruct todo as [|[k|k a] rest];
        try (rewrite acached_default by (intros; discriminate); cbn [fst snd a_resp a_cnull];
             match goal with |- context [tstep ?tt d] => exact (t_cnull_step tt d c Er Hh) end).
      pose proof (t_cnull_step (TObjs x ks (WWipe k :: rest) objs) d c Er Hh) as H. cbn [astep].
      destruct (tstep (TObjs x ks (WWipe k :: rest) objs) d) as [d' t'] eqn:Es. cbn [fst snd] in H.
      assert (Eo : t_resp t' = None) by (cbn [tstep] in Es; injection Es as _ <-; destruct rest; reflexivity).
      rewrite Eo in H. destruct (cache_misses snap (wipe_list d (co_uuid k))); cbn [fst snd a_resp a_cnull]; [|rewrite Eo; exact H].
      split; [intros _; apply H; reflexivity|discriminate].
    + (* TMain *)
      cbn [t_cnull] in Hh. cbn [astep]. unfold main_txn_cached.
      destruct (main_txn x ks objs (set_rcs d (rcs d ++ stale_rows d snap))) as [d'|e0] eqn:Em; cbn [fst snd a_resp]; rewrite cleanup_resp.
      * split; [discriminate|]. intros r _ _. exact (main_null _ _ _ _ _ _ Em Hh).
      * split; [discriminate|]. intros r [= <-] H. pose proof (main_err_status x e0). lia.
  - (* ACacheLoad *)
    cbn [astep fst snd a_resp a_cnull]. split; [intros _; left; exact Hh|]. intros r _ _. apply csame_refl.
Qed.

(* c is not ended by any step of the schedule (it may be created) *)
Fixpoint c_no_end (cf : cfg) (c : Z) (s : list nat) (ts : list athread) (d : db) : Prop :=
  match s with
  | [] => True
  | i :: s' => let '(ts', d') := a_step_thread cf i ts d in ~ cend d d' c /\ c_no_end cf c s' ts' d'
  end.

Section NullCase.
  Variables (cf : cfg) (c : Z).
  (* the request has added nothing and - while its answer is open - still carries null without a hold on c *)
  Definition nrb (t : athread) (z : Z) : bool :=
    (z =? 0) && match a_resp t with None => a_cnull t c | Some _ => true end.

  (* such a request stays so, unless its transaction is the creation of c *)
  Lemma nr_step t z d : nrb t z = true ->
    nrb (fst (astep cf t d)) (z + cdelta d (snd (astep cf t d)) c) = true \/ ccreate d (snd (astep cf t d)) c.
  Proof.
    unfold nrb. intro H. apply andb_true_iff in H. destruct H as [Hz Hn]. apply Z.eqb_eq in Hz. subst z.
    pose proof (a_cacct cf t d c) as A. unfold c_outcome in A. destruct (a_resp t) as [r|] eqn:Er.
    - destruct A as [A1 A2]. assert (E : cdelta d (snd (astep cf t d)) c = 0) by (destruct A2; [apply csame_cdelta|apply cend_cdelta]; assumption).
      rewrite E, A1. left. reflexivity.
    - pose proof (a_cnull_step cf t d c Er Hn) as [N1 N2]. destruct A as [[A1 A2]|[r [A1 A]]].
      + destruct A2 as [A2|A2]; [|right; exact A2]. destruct (N1 A1) as [N|N]; [|right; exact N].
        left. rewrite (csame_cdelta _ _ _ A2), A1, N. reflexivity.
      + left. rewrite A1. destruct A as [[Hs A]|[Hs _]]; [rewrite (csame_cdelta _ _ _ A); reflexivity|].
        rewrite (csame_cdelta _ _ _ (N2 r A1 Hs)). reflexivity.
  Qed.

  (* 1 for the requests that are not in that state any more *)
  Fixpoint nzl (ts : list athread) (tl : list Z) : list Z :=
    match ts, tl with
    | t :: ts', z :: tl' => (if nrb t z then 0 else 1) :: nzl ts' tl'
    | _, _ => []
    end.
  Lemma nzl_anote gt gp : forall ts tl, nzl (map (anote gt gp) ts) tl = nzl ts tl.
  Proof.
    induction ts as [|t ts IH]; intros [|z tl]; cbn [map nzl]; try reflexivity. rewrite IH. unfold nrb. rewrite anote_resp, anote_cnull. reflexivity.
  Qed.
  Lemma cnt_nil_r fs : cnt fs [] = 0.
  Proof. destruct fs; reflexivity. Qed.

  Lemma raw_step_nn : forall ts tl fs i d,
    let dl := cdelta d (snd (a_step_raw cf i ts d)) c in
    cnt fs (nzl (fst (a_step_raw cf i ts d)) (add_nth i dl tl)) <= cnt fs (nzl ts tl) \/
    (ccreate d (snd (a_step_raw cf i ts d)) c /\ cnt fs (nzl (fst (a_step_raw cf i ts d)) (add_nth i dl tl)) <= cnt fs (nzl ts tl) + 1).
  Proof.
    induction ts as [|t ts IH]; intros tl fs i d; cbv zeta.
    - assert (E : a_step_raw cf i [] d = ([], d)) by (destruct i; reflexivity). rewrite E. cbn [fst snd nzl]. left. lia.
    - destruct i as [|i]; cbn [a_step_raw].
      + destruct tl as [|z tl]; [destruct (astep cf t d) as [t' d']; cbn [fst snd add_nth nzl]; left; lia|].
        destruct fs as [|f fs]; [destruct (astep cf t d) as [t' d']; cbn [fst snd add_nth nzl cnt]; left; lia|].
        pose proof (nr_step t z d) as S. destruct (astep cf t d) as [t' d']. cbn [fst snd add_nth nzl cnt] in *.
        destruct (nrb t z) eqn:En.
        * destruct (S eq_refl) as [S1|S1]; [rewrite S1; left; lia|]. right. split; [exact S1|].
          destruct (nrb t' (z + cdelta d d' c)); destruct f; try change (0 <? 0) with false; try change (0 <? 1) with true; cbn [andb]; lia.
        * left. destruct (nrb t' (z + cdelta d d' c)); destruct f; try change (0 <? 0) with false; try change (0 <? 1) with true; cbn [andb]; lia.
      + specialize (IH (match tl with [] => [] | _ :: tl' => tl' end) (match fs with [] => [] | _ :: fs' => fs' end) i d). cbv zeta in IH.
        destruct (a_step_raw cf i ts d) as [ts' d']. cbn [fst snd] in *.
        destruct tl as [|z tl]; [cbn [add_nth nzl]; left; lia|]. cbn [add_nth nzl].
        destruct fs as [|f fs]; [cbn [cnt]; left; lia|]. cbn [cnt]. destruct IH as [IH|[IH1 IH2]]; [left; lia|right; split; [exact IH1|lia]].
  Qed.

  Theorem run_null : forall s ts d tl fs, c_no_end cf c s ts d ->
    cnt fs (nzl ts tl) <= 1 -> (cgen_of d c = None -> cnt fs (nzl ts tl) = 0) ->
    let '(ts', _, tl') := c_run_tally cf c s ts d tl in cnt fs (nzl ts' tl') <= 1.
  Proof.
    induction s as [|i s IH]; intros ts d tl fs Hne Hc H0; cbn [c_run_tally]; [exact Hc|].
    cbn [c_no_end] in Hne. pose proof (raw_step_nn ts tl fs i d) as R. cbv zeta in R. unfold a_step_thread in *.
    destruct (a_step_raw cf i ts d) as [ts1 d1]. cbn [fst snd] in R. destruct Hne as [Hne Hrest].
    pose proof (cnt_nonneg fs (nzl ts tl)) as Hnn.
    pose proof (cnt_nonneg fs (nzl ts1 (add_nth i (cdelta d d1 c) tl))) as Hnn1.
    apply IH; [exact Hrest| |]; rewrite nzl_anote.
    - destruct R as [R|[[R0 _] R]]; [lia|]. rewrite (H0 R0) in R. lia.
    - intro E1. destruct R as [R|[[_ R0] _]]; [|congruence].
      destruct (cgen_of d c) as [g0|] eqn:E0; [exfalso; apply Hne; exists g0; auto|]. rewrite (H0 eq_refl) in R. lia.
  Qed.

  Lemma nzl_pos : forall ts tl i, length tl = length ts -> 0 < nth i tl 0 -> 0 < nth i (nzl ts tl) 0.
  Proof.
    induction ts as [|t ts IH]; intros [|z tl] i Hl Hp; cbn [length] in Hl; try discriminate; [destruct i; cbn in Hp; lia|].
    destruct i as [|i]; cbn [nth nzl] in *.
    - unfold nrb. assert (E : (z =? 0) = false) by (apply Z.eqb_neq; lia). rewrite E. cbn. lia.
    - apply IH; [lia|exact Hp].
  Qed.
End NullCase.

(* the requests that carry null for c (from 1.28) - and, vacuously, the allocation writes that do not mention c *)
Definition cnull0 (cf : cfg) (c : Z) (r : req) : bool := a_cnull (ainit cf r) c.
Lemma nzl_init cf c : forall reqs, cnt (map (cnull0 cf c) reqs) (nzl c (map (ainit cf) reqs) (map (fun _ => 0) reqs)) = 0.
Proof.
  induction reqs as [|r reqs IH]; cbn [map nzl cnt]; [reflexivity|]. rewrite IH. unfold cnull0, nrb.
  destruct (a_cnull (ainit cf r) c) eqn:E; [|reflexivity]. cbn [Z.eqb andb]. destruct (a_resp (ainit cf r)); reflexivity.
Qed.

(* (d) any start state, any requests, any schedule in which c is not ended: of the requests carrying null for c AT MOST ONE
   increments c's generation - the one whose own transaction created c (nr_step: a request carrying null adds nothing until
   it has created c; once c exists - and is not ended - nobody else creates it).  Nothing is said about its answer: the
   creator can still be rejected after another request, carrying generation 0, has written the consumer it created. *)
Theorem c06a_null_at_most_one : forall cf reqs s d c,
  c_no_end cf c s (map (ainit cf) reqs) d ->
  let fs := map (cnull0 cf c) reqs in
  let '(_, _, tl) := c_run_tally cf c s (map (ainit cf) reqs) d (map (fun _ => 0) reqs) in
  forall i j, i <> j -> nth i fs false = true -> nth j fs false = true -> 0 < nth i tl 0 -> 0 < nth j tl 0 -> False.
Proof.
  intros cf reqs s d c Hne. cbv zeta.
  pose proof (run_null cf c s (map (ainit cf) reqs) d (map (fun _ => 0) reqs) (map (cnull0 cf c) reqs) Hne) as H.
  rewrite nzl_init in H. specialize (H ltac:(lia) ltac:(lia)).
  pose proof (run_PL cf c unit cacct1 (fun _ _ _ _ => True) cacct1_anote (cacct1_step cf c) s _ d _ _ (cacctL_init cf reqs)) as Hacct.
  destruct (c_run_tally cf c s (map (ainit cf) reqs) d (map (fun _ => 0) reqs)) as [[ts d'] tl].
  intros i j Hij Hi Hj Zi Zj. destruct (PL_length _ _ _ _ _ Hacct) as [Hl _].
  pose proof (cnt_two (map (cnull0 cf c) reqs) (nzl c ts tl) i j Hij Hi Hj (nzl_pos c ts tl i Hl Zi) (nzl_pos c ts tl j Hl Zj)). lia.
Qed.

(* ================================================================ which requests hold g / carry null for c from the start *)
Lemma ent_ok_spec v g c e : ent_ok v g c e = true <-> (ci_uuid e = c -> ci_gen e = Some g /\ 28 <= v).
Proof.
  unfold ent_ok. destruct (ci_uuid e =? c) eqn:E; cbn [negb orb].
  - apply Z.eqb_eq in E. rewrite andb_true_iff, Z.leb_le. split.
    + intros [H1 H2] _. split; [apply oeqb_true; exact H1|exact H2].
    + intros H. destruct (H E) as [-> H2]. split; [cbn; apply Z.eqb_refl|exact H2].
  - apply Z.eqb_neq in E. split; [intros _ H; contradiction|reflexivity].
Qed.
Lemma ent_null_spec v c e : ent_null v c e = true <-> (ci_uuid e = c -> ci_gen e = None /\ 28 <= v).
Proof.
  unfold ent_null. destruct (ci_uuid e =? c) eqn:E; cbn [negb orb].
  - apply Z.eqb_eq in E. rewrite andb_true_iff, Z.leb_le. split.
    + intros [H1 H2] _. split; [destruct (ci_gen e); [discriminate|reflexivity]|exact H2].
    + intros H. destruct (H E) as [-> H2]. split; [reflexivity|exact H2].
  - apply Z.eqb_neq in E. split; [intros _ H; contradiction|reflexivity].
Qed.
Lemma cheld_table cf c g :
  (forall v e, cholds0 cf c g (AllocPut v e) = ent_ok v g c e) /\
  (forall v l, 13 <= v -> cholds0 cf c g (AllocPost v l) = forallb (ent_ok v g c) l) /\
  (forall v ri l, 30 <= v -> cholds0 cf c g (Reshape v ri l) = forallb (ent_ok v g c) l) /\
  (forall c0, cholds0 cf c g (AllocDelete c0) = false) /\
  (forall v e, cnull0 cf c (AllocPut v e) = ent_null v c e) /\
  (forall v l, 13 <= v -> cnull0 cf c (AllocPost v l) = forallb (ent_null v c) l) /\
  (forall v ri l, 30 <= v -> cnull0 cf c (Reshape v ri l) = forallb (ent_null v c) l) /\
  (forall c0, cnull0 cf c (AllocDelete c0) = false).
Proof.
  unfold cholds0, cnull0. repeat split; intros; cbn [ainit tinit a_cheld a_cnull];
    repeat match goal with
           | |- context [?a <? ?b] => let E := fresh in destruct (a <? b) eqn:E; [apply Z.ltb_lt in E; lia|]
           end; cbn [t_cheld t_cnull x_v x_all forallb]; rewrite ?andb_true_r; reflexivity.
Qed.

(* ================================================================ c_alive from the requests *)
(* Sufficient for c_alive: c exists at the start, no request is DELETE /allocations/c, and every entry for c in a request has
   non-empty allocations with positive amounts.  The thread-local invariant: the thread has not created c and does not have it
   on a clean-up list, is not DELETE /allocations/c, pairs its Consumer objects with the entries of its request, and every
   allocation object it has for c has a positive amount. *)
Definition pos_all (e : cons_in) : Prop := forall a y, In a (ci_allocs e) -> In y (ai_res a) -> 0 < snd y.
Definition xok (x : actx) (c : Z) : Prop :=
  forall e, In e (x_all x) -> pos_all e /\ (ci_uuid e = c -> ci_allocs e <> []).
Definition objs_pos (objs : list areq) (c : Z) : Prop := forall o, In o objs -> q_cons o = c -> 0 < q_amt o.
Definition items_ok (todo : list witem) (c : Z) : Prop :=
  (forall k, In (WWipe k) todo -> co_uuid k <> c) /\ (forall k a y, In (WRp k a) todo -> In y (ai_res a) -> 0 < snd y).
Definition t_kc (t : tstate) (c : Z) : Prop :=
  match t with
  | TRi x _ => xok x c
  | TCons x todo acc =>
      xok x c /\ (exists done, x_all x = done ++ todo /\ map co_uuid (rev acc) = map ci_uuid done) /\ ~ In c (created_uuids acc)
  | TCreate x e todo acc | TReload x e todo acc =>
      xok x c /\ (exists done, x_all x = done ++ e :: todo /\ map co_uuid (rev acc) = map ci_uuid done) /\ ~ In c (created_uuids acc)
  | TObjs x ks todo objs => ~ In c (created_uuids ks) /\ items_ok todo c /\ objs_pos objs c
  | TMain x ks objs => ~ In c (created_uuids ks) /\ objs_pos objs c
  | TCleanup todo _ => ~ In c todo
  | TDelRead c0 | TDelRows c0 _ | TDelCons c0 => c0 <> c
  | _ => True
  end.
Definition a_kc (t : athread) (c : Z) : Prop :=
  match t with
  | ATree (TTOther t0) | ACached _ t0 | ACacheLoad t0 | ADelLoad t0 => t_kc t0 c
  | ADelRead c0 => c0 <> c
  | _ => True
  end.
Lemma anote_kc gt gp t c : a_kc (anote gt gp t) c <-> a_kc t c.
Proof. destruct t; cbn; tauto. Qed.

Lemma kc_cod us r c : t_kc (cleanup_or_done us r) c <-> ~ In c us.
Proof. destruct us; cbn; tauto. Qed.
Lemma created_rev_in l c : In c (created_uuids (rev l)) -> In c (created_uuids l).
Proof.
  unfold created_uuids. rewrite !in_map_iff. intros (k & E & Hk). exists k. split; [exact E|].
  apply filter_In in Hk. apply filter_In. split; [apply in_rev; apply Hk|apply Hk].
Qed.
Lemma empty_created_sub : forall ks l k, In k (empty_created ks l) -> In k ks.
Proof.
  induction ks as [|k0 ks IH]; intros [|e l] k H; cbn [empty_created] in H; try destruct H.
  destruct (ci_allocs e); [destruct H as [<-|H]; [left; reflexivity|right; eapply IH; exact H]|right; eapply IH; exact H].
Qed.
Lemma work_items_src : forall ks l, map co_uuid ks = map ci_uuid l ->
  (forall k, In (WWipe k) (work_items ks l) -> exists e, In e l /\ ci_uuid e = co_uuid k /\ ci_allocs e = []) /\
  (forall k a, In (WRp k a) (work_items ks l) -> exists e, In e l /\ In a (ci_allocs e)).
Proof.
  induction ks as [|k0 ks IH]; intros [|e0 l] Hm; cbn [map] in Hm; try discriminate; [split; intros ? []; intros []|].
  injection Hm as Hu Hm. destruct (IH l Hm) as [I1 I2]. cbn [work_items]. destruct (ci_allocs e0) as [|al als] eqn:Ea; split.
  - intros k [Hk|Hk]; [injection Hk as <-; exists e0; split; [left; reflexivity|auto]|].
    destruct (I1 k Hk) as (e & He & H). exists e. split; [right; exact He|exact H].
  - intros k a [Hk|Hk]; [discriminate|]. destruct (I2 k a Hk) as (e & He & H). exists e. split; [right; exact He|exact H].
  - intros k Hk. apply in_app_or in Hk. destruct Hk as [Hk|Hk]; [apply in_map_iff in Hk; destruct Hk as (a & Ea' & _); discriminate|].
    destruct (I1 k Hk) as (e & He & H). exists e. split; [right; exact He|exact H].
  - intros k a Hk. apply in_app_or in Hk. destruct Hk as [Hk|Hk].
    + apply in_map_iff in Hk. destruct Hk as (a' & Ea' & Ha'). injection Ea' as <- <-. exists e0. split; [left; reflexivity|rewrite Ea; exact Ha'].
    + destruct (I2 k a Hk) as (e & He & H). exists e. split; [right; exact He|exact H].
Qed.
Lemma kc_after_cons x ks c : xok x c -> map co_uuid ks = map ci_uuid (x_all x) -> ~ In c (created_uuids ks) -> t_kc (after_cons x ks) c.
Proof.
  intros Hx Hm Hn. destruct (work_items_src ks (x_all x) Hm) as [W1 W2].
  assert (Hi : items_ok (work_items ks (x_all x)) c).
  { split.
    - intros k Hk Ec. destruct (W1 k Hk) as (e & He & Eu & Ea). destruct (Hx e He) as [_ H]. apply H; [congruence|exact Ea].
    - intros k a y Hk Hy. destruct (W2 k a Hk) as (e & He & Ha). destruct (Hx e He) as [H _]. exact (H a y Ha Hy). }
  unfold after_cons. destruct (work_items ks (x_all x)) as [|w ws]; cbn [t_kc]; [split; [exact Hn|intros o []]|].
  split; [exact Hn|]. split; [exact Hi|intros o []].
Qed.
Lemma pair_step x (done rest : list cons_in) e (acc : list cobj) k' :
  x_all x = done ++ e :: rest -> map co_uuid (rev acc) = map ci_uuid done -> co_uuid k' = ci_uuid e ->
  x_all x = (done ++ [e]) ++ rest /\ map co_uuid (rev (k' :: acc)) = map ci_uuid (done ++ [e]).
Proof.
  intros H1 H2 H3. split; [rewrite <- app_assoc; exact H1|]. cbn [rev]. rewrite !map_app, H2. cbn [map]. rewrite H3. reflexivity.
Qed.

Definition kc_ok (t' : tstate) (d' : db) (c : Z) : Prop := t_kc t' c /\ cgen_of d' c <> None.
Lemma kco_same t' d d' c : t_kc t' c -> consumers d' = consumers d -> cgen_of d c <> None -> kc_ok t' d' c.
Proof. intros H E Hn. split; [exact H|]. rewrite (csame_cons d d' c E). exact Hn. Qed.

Lemma t_kc_step t d c : t_kc t c -> cgen_of d c <> None -> kc_ok (snd (tstep t d)) (fst (tstep t d)) c.
Proof.
  intros Hh Hc.
  assert (Hfin : forall x (done : list cons_in) acc d1, xok x c -> x_all x = done ++ [] -> map co_uuid (rev acc) = map ci_uuid done ->
            ~ In c (created_uuids acc) -> consumers d1 = consumers d -> kc_ok (after_cons x (rev acc)) d1 c).
  { intros x done acc d1 Hx H1 H2 Hn E. apply kco_same with (d := d); [|exact E|exact Hc].
    apply kc_after_cons; [exact Hx|rewrite H2, H1, app_nil_r; reflexivity|intro H; apply Hn, created_rev_in, H]. }
  destruct t as [r|r|r g0|x todo|x todo acc|x e todo acc|x e todo acc|x ks todo objs|x ks objs|todo r|c0|c0 rows|c0];
    cbn [t_kc] in Hh; cbn [tstep].
  - apply kco_same with (d := d); [exact I|reflexivity|exact Hc].
  - destruct (prov_target r) as [u0|]; [|apply kco_same with (d := d); [exact I|reflexivity|exact Hc]].
    destruct (find_rp d u0) as [me|]; [|apply kco_same with (d := d); [exact I|reflexivity|exact Hc]].
    destruct (prov_precheck r me d); apply kco_same with (d := d); try exact I; try reflexivity; exact Hc.
  - destruct (prov_write r g0 d) as [d' rs] eqn:Ew. apply kco_same with (d := d); [exact I|eapply C06.prov_write_consumers; exact Ew|exact Hc].
  - (* TRi *)
    assert (Hnext : kc_ok (match x_all x with [] => after_cons x [] | c1 :: l1 => TCons x (c1 :: l1) [] end) d c).
    { apply kco_same with (d := d); [|reflexivity|exact Hc]. destruct (x_all x) as [|e l] eqn:El.
      - apply kc_after_cons; [exact Hh|rewrite El; reflexivity|intros []].
      - cbn [t_kc]. split; [exact Hh|]. split; [exists []; rewrite El; split; reflexivity|intros []]. }
    destruct todo as [|r rest]; cbn [fst snd]; [exact Hnext|].
    destruct (find_rp d (ri_rp r)) as [me|]; [|apply kco_same with (d := d); [exact I|reflexivity|exact Hc]].
    destruct (negb (ri_gen r =? rp_gen me)); cbn [fst snd]; [apply kco_same with (d := d); [exact I|reflexivity|exact Hc]|].
    destruct rest as [|r2 rest2]; [exact Hnext|apply kco_same with (d := d); [exact Hh|reflexivity|exact Hc]].
  - (* TCons *)
    destruct Hh as (Hx & (done & H1 & H2) & Hn).
    destruct todo as [|e rest]; cbn [fst snd]; [apply (Hfin x done acc d Hx H1 H2 Hn eq_refl)|]. cbv zeta.
    destruct (rq_attrs (x_cf x) (x_v x) e) as [[pj us] ty]. pose proof (proj1 (proj2 (aux_names_rps (x_cf x) (x_v x) d e))) as Ea.
    destruct (find_cons d (ci_uuid e)) as [k|] eqn:F.
    + destruct (_ && _); cbn [fst snd]; [apply kco_same with (d := d); [apply kc_cod; exact Hn|exact Ea|exact Hc]|].
      destruct (pair_step x done rest e acc (mkCobj (c_uuid k) (c_gen k) (c_proj k) (c_user k) (c_type k) false pj us ty) H1 H2 (fc_uuid _ _ _ F)) as [P1 P2].
      destruct rest as [|e2 rest2]; [apply (Hfin x _ _ _ Hx P1 P2); [exact Hn|exact Ea]|].
      apply kco_same with (d := d); [|exact Ea|exact Hc]. cbn [t_kc]. split; [exact Hx|]. split; [eauto|exact Hn].
    + destruct (_ && _); cbn [fst snd]; [apply kco_same with (d := d); [apply kc_cod; exact Hn|exact Ea|exact Hc]|].
      apply kco_same with (d := d); [|exact Ea|exact Hc]. cbn [t_kc]. split; [exact Hx|]. split; [eauto|exact Hn].
  - (* TCreate *)
    destruct Hh as (Hx & (done & H1 & H2) & Hn). destruct (rq_attrs (x_cf x) (x_v x) e) as [[pj us] ty].
    destruct (find_cons d (ci_uuid e)) as [k|] eqn:F; cbn [fst snd].
    { apply kco_same with (d := d); [|reflexivity|exact Hc]. cbn [t_kc]. split; [exact Hx|]. split; [eauto|exact Hn]. }
    assert (Hcn : cgen_of d (ci_uuid e) = None) by (unfold cgen_of; rewrite F; reflexivity).
    assert (Hne : ci_uuid e <> c) by (intro E0; apply Hc; rewrite <- E0; exact Hcn).
    destruct (create_effect d (mkCons (ci_uuid e) pj us ty 0) c Hcn eq_refl) as [_ C2]. cbn [c_uuid] in C2.
    assert (Hc' : cgen_of (set_consumers d (consumers d ++ [mkCons (ci_uuid e) pj us ty 0])) c <> None).
    { rewrite (C2 ltac:(congruence)). exact Hc. }
    assert (Hn' : ~ In c (created_uuids (mkCobj (ci_uuid e) 0 pj us ty true pj us ty :: acc))).
    { intros [E|H]; [cbn in E; congruence|exact (Hn H)]. }
    destruct (pair_step x done todo e acc (mkCobj (ci_uuid e) 0 pj us ty true pj us ty) H1 H2 eq_refl) as [P1 P2].
    split; [|exact Hc'].
    destruct todo as [|e2 rest2].
    + apply kc_after_cons; [exact Hx|rewrite P2, P1, app_nil_r; reflexivity|intro H; apply Hn', created_rev_in, H].
    + cbn [t_kc]. split; [exact Hx|]. split; [eauto|exact Hn'].
  - (* TReload *)
    destruct Hh as (Hx & (done & H1 & H2) & Hn). destruct (rq_attrs (x_cf x) (x_v x) e) as [[pj us] ty].
    destruct (find_cons d (ci_uuid e)) as [k|] eqn:F; cbn [fst snd]; [|apply kco_same with (d := d); [apply kc_cod; exact Hn|reflexivity|exact Hc]].
    destruct (28 <=? x_v x); cbn [fst snd]; [apply kco_same with (d := d); [apply kc_cod; exact Hn|reflexivity|exact Hc]|].
    destruct (pair_step x done todo e acc (mkCobj (c_uuid k) (c_gen k) (c_proj k) (c_user k) (c_type k) false pj us ty) H1 H2 (fc_uuid _ _ _ F)) as [P1 P2].
    destruct todo as [|e2 rest2]; [apply (Hfin x _ _ _ Hx P1 P2); [exact Hn|reflexivity]|].
    apply kco_same with (d := d); [|reflexivity|exact Hc]. cbn [t_kc]. split; [exact Hx|]. split; [eauto|exact Hn].
  - (* TObjs *)
    destruct Hh as (Hn & (Hi1 & Hi2) & Ho).
    destruct todo as [|w rest]; cbn [fst snd]; [apply kco_same with (d := d); [cbn [t_kc]; auto|reflexivity|exact Hc]|]. cbv zeta.
    assert (Hrest : items_ok rest c) by (split; [intros k Hk; apply Hi1; right; exact Hk|intros k a y Hk; apply (Hi2 k a y); right; exact Hk]).
    assert (Hnext : forall objs', objs_pos objs' c ->
              kc_ok (match rest with [] => TMain x ks objs' | _ :: _ => TObjs x ks rest objs' end) d c).
    { intros objs' H. apply kco_same with (d := d); [|reflexivity|exact Hc]. destruct rest; cbn [t_kc]; auto. }
    destruct w as [k|k a].
    + cbn [fst snd]. apply Hnext. intros o Hin Eo. apply in_app_or in Hin. destruct Hin as [Hin|Hin]; [exact (Ho o Hin Eo)|].
      exfalso. apply in_map_iff in Hin. destruct Hin as (q & <- & Hq). apply C04.wipe_list_In in Hq. destruct Hq as [Eq _].
      cbn [q_cons] in Eo. apply (Hi1 k); [left; reflexivity|congruence].
    + destruct (find_rp d (ai_rp a)) as [rp0|]; cbn [fst snd]; [|apply kco_same with (d := d); [apply kc_cod; exact Hn|reflexivity|exact Hc]].
      apply Hnext. intros o Hin Eo. apply in_app_or in Hin. destruct Hin as [Hin|Hin]; [exact (Ho o Hin Eo)|].
      apply in_map_iff in Hin. destruct Hin as (y & <- & Hy). cbn [q_amt]. apply (Hi2 k a y); [left; reflexivity|exact Hy].
  - (* TMain *)
    destruct Hh as (Hn & Ho).
    destruct (main_txn x ks objs d) as [d'|e0] eqn:Em; cbn [fst snd]; [|apply kco_same with (d := d); [apply kc_cod; exact Hn|reflexivity|exact Hc]].
    split.
    + apply kc_cod. intro Hin. apply Hn. unfold created_uuids in *. apply in_map_iff in Hin. destruct Hin as (k & E & Hk).
      apply filter_In in Hk. apply in_map_iff. exists k. split; [exact E|]. apply filter_In. split; [eapply empty_created_sub; apply Hk|apply Hk].
    + destruct (main_cons_exact _ _ _ _ _ Em) as (_ & X2 & X3).
      destruct (in_dec Z.eq_dec c (map q_cons objs)) as [Hin|Hni]; [|rewrite (X2 c Hni); exact Hc].
      apply in_map_iff in Hin. destruct Hin as (o & Eo & Hoo). rewrite <- Eo. apply (X3 o Hoo). apply (Ho o Hoo Eo).
  - (* TCleanup *)
    destruct todo as [|u rest]; cbn [fst snd]; [apply kco_same with (d := d); [exact I|reflexivity|exact Hc]|].
    split; [destruct rest; cbn [t_kc]; [exact I|intro H; apply Hh; right; exact H]|].
    rewrite (dcina_other d [u] c); [exact Hc|]. intros [E|[]]. apply Hh. left. exact E.
  - destruct (wipe_list d c0); (apply kco_same with (d := d); [|reflexivity|exact Hc]); [exact I|exact Hh].
  - split; [exact Hh|]. rewrite (csame_cons d _ c eq_refl). exact Hc.
  - split; [exact I|]. rewrite (dcina_other d [c0] c); [exact Hc|]. intros [E|[]]. exact (Hh E).
Qed.

Lemma a_kc_step cf t d c : a_kc t c -> cgen_of d c <> None ->
  a_kc (fst (astep cf t d)) c /\ cgen_of (snd (astep cf t d)) c <> None.
Proof.
  intros Hh Hc.
  assert (Hs : forall t' d', a_kc t' c -> consumers d' = consumers d -> a_kc t' c /\ cgen_of d' c <> None).
  { intros t' d' H E. split; [exact H|]. rewrite (csame_cons d d' c E). exact Hc. }
  destruct t as [t0|snap t0|t0|c0|t0|u0 g ts|u0 ts g|u0 ts g lost|v u0 g l|v u0 l g gone|n|n|n|old new|id new|n|id|t1|t1|t1|t1 stale].
  - destruct t0 as [r|v u0 name parent|v u0 name parent|v u0 name np g|u0|u0|t0]; cbn [astep ttstep].
    + apply Hs; [exact I|reflexivity].
    + pose proof (h_rp_create_cons d v u0 name parent) as H. destruct (h_rp_create d v u0 name parent) as [d' r]. apply Hs; [exact I|exact H].
    + destruct (find_rp d u0) as [me|]; [|apply Hs; [exact I|reflexivity]]. destruct (_ && _); apply Hs; try exact I; reflexivity.
    + destruct (find_rp d u0) as [me|]; [|apply Hs; [exact I|reflexivity]].
      destruct (rp_update d me name np (37 <=? v)) as [d'|e] eqn:E; cbn [rp_update_answer];
        [apply Hs; [exact I|eapply rp_update_cons; exact E]|destruct e; apply Hs; try exact I; reflexivity].
    + destruct (find_rp d u0); apply Hs; try exact I; reflexivity.
    + destruct (rp_delete d u0) as [d'|e] eqn:E; cbn [rp_delete_answer];
        [apply Hs; [exact I|eapply rp_delete_cons; exact E]|destruct e; apply Hs; try exact I; reflexivity].
    + cbn [a_kc] in Hh. pose proof (t_kc_step t0 d c Hh Hc) as H. destruct (tstep t0 d) as [d' t']. exact H.
  - cbn [a_kc] in Hh.
    destruct t0 as [r|r|r g|x todo|x todo acc|x e todo acc|x e todo acc|x ks todo objs|x ks objs|todo r|c1|c1 rows|c1];
      try (rewrite acached_default by (intros; discriminate); cbn [fst snd a_kc];
           match goal with |- context [tstep ?tt d] => exact (t_kc_step tt d c Hh Hc) end).
    + destruct todo as [|[k|k a] rest];
        try (rewrite acached_default by (intros; discriminate); cbn [fst snd a_kc];
             match goal with |- context [tstep ?tt d] => exact (t_kc_step tt d c Hh Hc) end).
      pose proof (t_kc_step (TObjs x ks (WWipe k :: rest) objs) d c Hh Hc) as H. cbn [astep].
      destruct (tstep (TObjs x ks (WWipe k :: rest) objs) d) as [d' t']. destruct (cache_misses snap (wipe_list d (co_uuid k))); exact H.
    + cbn [astep]. unfold main_txn_cached. pose proof (t_kc_step (TMain x ks objs) (set_rcs d (rcs d ++ stale_rows d snap)) c Hh Hc) as H.
      cbn [tstep] in H. destruct (main_txn x ks objs (set_rcs d (rcs d ++ stale_rows d snap))) as [d'|e0]; cbn [fst snd a_kc] in *; exact H.
  - cbn [astep fst snd]. apply Hs; [exact Hh|reflexivity].
  - cbn [astep]. pose proof (t_kc_step (TDelRead c0) d c Hh Hc) as H. destruct (tstep (TDelRead c0) d) as [d' t']. cbn [fst snd] in *.
    destruct (tdone t'); exact H.
  - cbn [astep fst snd]. apply Hs; [exact Hh|reflexivity].
  - cbn [astep]. destruct (find_rp d u0) as [me|]; [|apply Hs; [exact I|reflexivity]]. destruct (negb _); apply Hs; try exact I; reflexivity.
  - cbn [astep]. destruct (negb _); apply Hs; try exact I; reflexivity.
  - cbn [astep]. destruct (existsb _ ts); [apply Hs; [exact I|reflexivity]|]. unfold set_traits_chk. destruct (forallb _ _); [|apply Hs; [exact I|reflexivity]].
    destruct (set_traits_c d u0 g ts) as [d'|e] eqn:E; [apply Hs; [exact I|eapply set_traits_c_cons; exact E]|destruct e; apply Hs; try exact I; reflexivity].
  - cbn [astep]. destruct (find_rp d u0) as [me|]; [|apply Hs; [exact I|reflexivity]]. destruct (_ && _); apply Hs; try exact I; reflexivity.
  - cbn [astep]. destruct (if gone then None else find_rp d u0); [|apply Hs; [exact I|reflexivity]].
    destruct (set_aggregates_txn d u0 g (dedup l) (19 <=? v)) as [d'|e] eqn:E; [apply Hs; [exact I|eapply set_aggregates_txn_cons; exact E]|apply Hs; [exact I|reflexivity]].
  - cbn [astep]. destruct (rc_create d n) as [d'|e] eqn:E; apply Hs; try exact I; [eapply rc_create_cons; exact E|reflexivity].
  - cbn [astep]. destruct (rc_id_of_name d n); apply Hs; try exact I; reflexivity.
  - cbn [astep]. destruct (rc_create d n) as [d'|e] eqn:E; apply Hs; try exact I; [eapply rc_create_cons; exact E|reflexivity].
  - cbn [astep]. destruct (rc_id_of_name d old) as [id|]; [|apply Hs; [exact I|reflexivity]]. destruct (id <? MIN_CUSTOM_RC_ID); apply Hs; try exact I; reflexivity.
  - cbn [astep]. destruct (negb _); [apply Hs; [exact I|reflexivity]|]. destruct (_ || _); apply Hs; try exact I; reflexivity.
  - cbn [astep]. destruct (rc_id_of_name d n) as [id|]; [|apply Hs; [exact I|reflexivity]]. destruct (id <? MIN_CUSTOM_RC_ID); apply Hs; try exact I; reflexivity.
  - cbn [astep]. destruct (existsb _ (invs d)); [apply Hs; [exact I|reflexivity]|]. destruct (negb _); apply Hs; try exact I; reflexivity.
  - cbn [astep]. destruct (trait_exists d t1); apply Hs; try exact I; reflexivity.
  - cbn [astep]. destruct (trait_create d t1) as [d'|e] eqn:E; apply Hs; try exact I; [eapply trait_create_cons; exact E|reflexivity].
  - cbn [astep]. destruct (negb _); [apply Hs; [exact I|reflexivity]|]. destruct (is_std_trait t1); apply Hs; try exact I; reflexivity.
  - cbn [astep]. destruct stale; [apply Hs; [exact I|reflexivity]|]. destruct (existsb _ (rp_traits d)); [apply Hs; [exact I|reflexivity]|].
    destruct (negb _); apply Hs; try exact I; reflexivity.
Qed.

Lemma raw_kc cf c : forall ts i d, Forall (fun t => a_kc t c) ts -> cgen_of d c <> None ->
  Forall (fun t => a_kc t c) (fst (a_step_raw cf i ts d)) /\ cgen_of (snd (a_step_raw cf i ts d)) c <> None.
Proof.
  induction ts as [|t ts IH]; intros i d Hf Hc; [destruct i; auto|]. inversion Hf as [|? ? H1 H2]. subst.
  destruct i as [|i]; cbn [a_step_raw].
  - pose proof (a_kc_step cf t d c H1 Hc) as [A B]. destruct (astep cf t d). split; [constructor; assumption|exact B].
  - destruct (IH i d H2 Hc) as [A B]. destruct (a_step_raw cf i ts d). split; [constructor; assumption|exact B].
Qed.
Theorem c_alive_kc cf c : forall s ts d, Forall (fun t => a_kc t c) ts -> cgen_of d c <> None -> c_alive cf c s ts d.
Proof.
  induction s as [|i s IH]; intros ts d Hf Hc; cbn [c_alive]; [auto|]. split; [exact Hc|].
  destruct (raw_kc cf c ts i d Hf Hc) as [A B]. unfold a_step_thread. destruct (a_step_raw cf i ts d) as [ts1 d1]. cbn [fst snd] in *.
  apply IH; [|exact B]. apply Forall_forall. intros t Ht. apply in_map_iff in Ht. destruct Ht as (t0 & <- & Ht0). apply anote_kc.
  rewrite Forall_forall in A. apply A. exact Ht0.
Qed.

(* the condition on the requests *)
Definition keeps_consumer (c : Z) (r : req) : Prop :=
  r <> AllocDelete c /\ forall e, In e (req_consumers r) -> ci_uuid e = c -> ci_allocs e <> [].
Lemma ainit_kc cf c r : req_wf r = true -> keeps_consumer c r -> a_kc (ainit cf r) c.
Proof.
  intros Hwf [Hnd Hne]. destruct (C06.req_wf_consumers r Hwf) as [_ Hc].
  assert (Hx : forall e, In e (req_consumers r) -> pos_all e /\ (ci_uuid e = c -> ci_allocs e <> [])).
  { intros e He. split; [|apply Hne; exact He]. intros a y Ha Hy. pose proof (C06.cons_in_wf_amt e a y (Hc e He) Ha Hy). lia. }
  destruct r; cbn [ainit ttinit tinit a_kc req_consumers] in *;
    repeat match goal with |- context [if ?b then _ else _] => destruct b end; cbn [a_kc ADone t_kc x_all]; auto;
    try (destruct (prov_target _); [destruct (prov_version_gate _)|]; cbn [a_kc t_kc]; exact I).
  all: try (destruct (prov_version_gate _); exact I).
  - split; [exact Hx|]. split; [exists []; split; reflexivity|intros []].
  - split; [exact Hx|]. split; [exists []; split; reflexivity|intros []].
  - intros ->. apply Hnd. reflexivity.
Qed.

(* c exists at the start, no request is DELETE /allocations/c, no entry for c has empty allocations: c exists throughout *)
Theorem c06a_alive_from_requests : forall cf reqs s d c,
  cgen_of d c <> None -> Forall (fun r => req_wf r = true /\ keeps_consumer c r) reqs ->
  c_alive cf c s (map (ainit cf) reqs) d.
Proof.
  intros cf reqs s d c Hc Hf. apply c_alive_kc; [|exact Hc]. apply Forall_forall. intros t Ht.
  apply in_map_iff in Ht. destruct Ht as (r & <- & Hr). rewrite Forall_forall in Hf. destruct (Hf r Hr) as [A B]. apply ainit_kc; assumption.
Qed.

(* ================================================================ examples (start state = the set-up of harness/conc_extra.py:
   consumers 2 and 3 exist at generation 1, consumer 5 does not exist) *)
Definition cy_run (c : Z) (s : list nat) (reqs : list req) : list Z * option Z * option Z * list Z :=
  let '(ts, d', tl) := c_run_tally cx_cf c s (map (ainit cx_cf) reqs) cx_d0 (map (fun _ => 0) reqs) in
  (map cx_status ts, cgen_of cx_d0 c, cgen_of d' c, tl).
Definition cy_pA := AllocPut 39 (mkConsIn 2 [mkAllocIn 1 [(0, 2)]] (Some 2) (Some 1) (Some 1) (Some 1)).
Definition cy_pB := AllocPut 39 (mkConsIn 2 [mkAllocIn 2 [(0, 3)]] (Some 1) (Some 1) (Some 1) (Some 1)).
Definition cy_pN := AllocPut 39 (mkConsIn 2 [mkAllocIn 6 [(0, 1)]] (Some 1) (Some 1) None (Some 1)).
Definition cy_wipe := AllocPut 39 (mkConsIn 2 [] (Some 1) (Some 1) (Some 1) (Some 1)).
Definition cy_n5a := AllocPut 39 (mkConsIn 5 [mkAllocIn 1 [(0, 2)]] (Some 1) (Some 1) None (Some 1)).
Definition cy_n5b := AllocPut 39 (mkConsIn 5 [mkAllocIn 6 [(0, 1)]] (Some 1) (Some 1) None (Some 1)).
Definition cy_g5 := AllocPut 39 (mkConsIn 5 [mkAllocIn 2 [(0, 3)]] (Some 1) (Some 1) (Some 0) (Some 1)).

(* (c) is not vacuous: two writes holding generation 1 for consumer 2 (FIXED['C06'] stale-write-changing-attributes), the first
   overtaken between its consumer look-up and its main transaction: c exists throughout, one increment, the other 409 *)
Example c06a_two_writers :
  cy_run 2 [0; 0; 1; 1; 1; 0]%nat [cy_pA; cy_pB] = ([409; 204], Some 1, Some 2, [0; 1]) /\
  map (cholds0 cx_cf 2 1) [cy_pA; cy_pB] = [true; true] /\
  c_alive cx_cf 2 [0; 0; 1; 1; 1; 0]%nat (map (ainit cx_cf) [cy_pA; cy_pB]) cx_d0.
Proof. split; [timeout 120 vm_compute; reflexivity|]. split; [reflexivity|]. timeout 120 vm_compute. repeat split; discriminate. Qed.

(* c_alive is needed in (c): consumer generations restart at 0 when a consumer is deleted and created again, so a generation
   number recurs.  Request 1 looks consumer 2 up at generation 1; request 0 writes it (1 -> 2); DELETE /allocations/2 ends it;
   request 3 (null) creates it again (0 -> 1); request 1 then commits against generation 1: both requests holding 1 increment *)
Example c06a_needs_alive :
  cy_run 2 [1; 0; 0; 0; 2; 2; 2; 2; 3; 3; 3; 3; 1; 1]%nat [cy_pA; cy_pB; AllocDelete 2; cy_pN] =
    ([204; 204; 204; 204], Some 1, Some 2, [1; 1; 0; 1]) /\
  map (cholds0 cx_cf 2 1) [cy_pA; cy_pB; AllocDelete 2; cy_pN] = [true; true; false; false].
Proof. split; [timeout 120 vm_compute; reflexivity|reflexivity]. Qed.

(* the recorded finding "double wipe" in Model/ConcAll.v: two clearing writes holding generation 1 both answer 204; the second
   one's re-read finds no rows, its main transaction has no allocation object for consumer 2 (the else-branch of
   c06a_commit_generation) and compares nothing.  Neither has a positive tally - consumer 2 is ended by the first - so the finding
   is about answers, not increments: (c) holds for it trivially, and c_alive fails *)
Example c06a_double_wipe :
  cy_run 2 [0; 0; 0; 1; 0; 1; 1]%nat [cy_wipe; cy_wipe] = ([204; 204], Some 1, None, [0; 0]) /\
  map (cholds0 cx_cf 2 1) [cy_wipe; cy_wipe] = [true; true].
Proof. split; [timeout 120 vm_compute; reflexivity|reflexivity]. Qed.

(* the recorded finding "success on a consumer created by a failed request" (FIXED['C06'] null-put-vs-gen0-put): request 0
   (null) creates consumer 5; request 1 (generation 0) writes it before request 0's main transaction; request 0 gets 409.
   Consistent with (c) - only request 1 holds generation 0 - and with (d) - only request 0 carries null; what fails is the
   expectation that the creator is the one accepted *)
Example c06a_null_vs_gen0 :
  cy_run 5 [0; 0; 0; 1; 1; 1; 0; 0]%nat [cy_n5a; cy_g5] = ([409; 204], None, Some 1, [0; 1]) /\
  map (cnull0 cx_cf 5) [cy_n5a; cy_g5] = [true; false] /\ map (cholds0 cx_cf 5 0) [cy_n5a; cy_g5] = [false; true] /\
  c_no_end cx_cf 5 [0; 0; 0; 1; 1; 1; 0; 0]%nat (map (ainit cx_cf) [cy_n5a; cy_g5]) cx_d0.
Proof.
  split; [timeout 120 vm_compute; reflexivity|]. split; [reflexivity|]. split; [reflexivity|].
  timeout 120 vm_compute. repeat split; intros [g [H1 H2]]; discriminate.
Qed.

(* (d) is not vacuous: two requests carrying null for consumer 5, the second overtaken: one creates and increments, the other 409 *)
Example c06a_two_null_puts :
  cy_run 5 [0; 0; 1; 0; 0; 1]%nat [cy_n5a; cy_n5b] = ([204; 409], None, Some 1, [1; 0]) /\
  map (cnull0 cx_cf 5) [cy_n5a; cy_n5b] = [true; true] /\
  c_no_end cx_cf 5 [0; 0; 1; 0; 0; 1]%nat (map (ainit cx_cf) [cy_n5a; cy_n5b]) cx_d0.
Proof.
  split; [timeout 120 vm_compute; reflexivity|]. split; [reflexivity|].
  timeout 120 vm_compute. repeat split; intros [g [H1 H2]]; discriminate.
Qed.

(* c_no_end is needed in (d): null PUT, DELETE /allocations/5, null PUT - one after the other - both null requests increment *)
Example c06a_null_needs_no_end :
  cy_run 5 [0; 0; 0; 0; 1; 1; 1; 1; 2; 2; 2; 2]%nat [cy_n5a; AllocDelete 5; cy_n5b] = ([204; 204; 204], None, Some 1, [1; 0; 1]) /\
  map (cnull0 cx_cf 5) [cy_n5a; AllocDelete 5; cy_n5b] = [true; false; true].
Proof. split; [timeout 120 vm_compute; reflexivity|reflexivity]. Qed.

Print Assumptions c06a_accounting.
Print Assumptions c06a_accounting_segment.
Print Assumptions c_step_effect.
Print Assumptions cheld_table.
Print Assumptions c06a_alive_from_requests.
Print Assumptions c06a_commit_generation.
Print Assumptions c06a_at_most_one.
Print Assumptions c06a_null_at_most_one.
Print Assumptions c06a_needs_alive.
Print Assumptions c06a_null_vs_gen0.
