(* C07 - Concurrent claims are serializable and never jointly over-commit: proofs.
   C07a: refutation of the statement without consumers_preexist (concrete schedule).
   C07b: no transaction of any in-flight request over-commits an inventory.
   C07d-C07l: serializability (commit-order serial log):
     C07d shared definitions; C07e independence of the auxiliary name tables; C07f the retry loop
     replace_all; C07g reshaper generations; C07i stability relation and effects of the write
     transactions; C07j thread invariants and non-committing steps; C07k committing steps and their
     validation by serial replay; C07l induction over the schedule. *)
From PV Require Export Proofs.C07a Proofs.C07b Proofs.C07l.
