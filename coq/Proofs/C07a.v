(* C07 (A): refutation of the full serializability statement without `consumers_preexist`. *)
From PV Require Import Proofs.ConcDefs.

Definition cf_w := mkCfg 0 0.
Definition d_w : db :=
  run cf_w db0 [RpCreate 39 1 1 None; InvSet 39 1 0 [mkInvIn 0 8 0 1 2147483647 1 1 0];
                RpCreate 39 2 2 None; InvSet 39 2 0 [mkInvIn 0 8 0 1 2147483647 1 1 0]].
Definition reqs_w : list req :=
  [AllocPut 39 (mkConsIn 1 [mkAllocIn 1 [(0,2)]] (Some 1) (Some 1) None (Some 1));
   AllocPut 39 (mkConsIn 1 [mkAllocIn 2 [(0,3)]] (Some 1) (Some 1) (Some 0) (Some 1))].
Definition s_w : list nat := [0;0;0;1;1;1;0;0]%nat.

Lemma order_is_1 (order : list nat) (P : nat -> Prop) :
  NoDup order -> (forall i, In i order <-> P i) -> P 1%nat -> (forall i, P i -> i = 1%nat) -> order = [1%nat].
Proof.
  intros Hnd Hiff H1 Honly.
  assert (Hin : In 1%nat order) by (apply Hiff; exact H1).
  assert (Hall : forall i, In i order -> i = 1%nat) by (intros i Hi; apply Honly, Hiff, Hi).
  destruct order as [|a [|b r]].
  - destruct Hin.
  - rewrite (Hall a (or_introl eq_refl)). reflexivity.
  - exfalso. inversion Hnd as [|? ? Hna _]; subst. apply Hna.
    rewrite (Hall a (or_introl eq_refl)), (Hall b (or_intror (or_introl eq_refl))). left. reflexivity.
Qed.

Theorem c07_refuted :
  exists cf reqs s d,
    (forall r, In r reqs -> in_scope r /\ req_wf r = true) /\
    let '(ts', d') := exec cf reqs s d in
    finished ts' /\
    forall order : list nat,
      NoDup order -> (forall i, In i order <-> succeeded ts' i) ->
      ~ (core_state (fst (run_serial cf (map (fun i => nth i reqs (RpDelete 0)) order) d)) = core_state d' /\
         Forall2 (fun i t => nth_error ts' i = Some t) order
                 (snd (run_serial cf (map (fun i => nth i reqs (RpDelete 0)) order) d))).
Proof.
  exists cf_w, reqs_w, s_w, d_w. split.
  - intros r [<-|[<-|[]]]; (split; [cbn; lia|reflexivity]).
  - destruct (exec cf_w reqs_w s_w d_w) as [ts' d'] eqn:E. vm_compute in E. injection E as <- <-.
    split.
    + intros t [<-|[<-|[]]]; eexists; reflexivity.
    + intros order Hnd Hiff.
      assert (Ho : order = [1%nat]).
      { apply (order_is_1 order _ Hnd Hiff).
        - eexists. split; [reflexivity|]. cbn. lia.
        - intros i [r [Hn Hs]]. destruct i as [|[|i]]; [|reflexivity|].
          + cbn in Hn. injection Hn as <-. cbn in Hs. lia.
          + cbn in Hn. destruct i; discriminate. }
      subst order. intros [_ HF]. vm_compute in HF.
      inversion HF as [|? ? ? ? H1 _]; subst. discriminate H1.
Qed.
Print Assumptions c07_refuted.
