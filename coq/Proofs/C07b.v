(* C07 (B): no transaction of any in-flight request over-commits an inventory. *)
From PV Require Import Proofs.ConcDefs Proofs.C01.

(* ================================================================ the step relation *)
Definition G (u : Z) (d d' : db) : Prop :=
  allocs_pos d -> allocs_pos d' /\
  forall rc, overcommitted d' u rc -> overcommitted d u rc /\ usage d' u rc <= usage d u rc.

Lemma G_refl u d : G u d d.
Proof. intros Hp. split; [exact Hp|]. intros rc H. split; [exact H|lia]. Qed.

Lemma G_trans u a b c : G u a b -> G u b c -> G u a c.
Proof.
  intros H1 H2 Hp. destruct (H1 Hp) as [Hpb Hb]. destruct (H2 Hpb) as [Hpc Hc].
  split; [exact Hpc|]. intros rc Ho. destruct (Hc rc Ho) as [Hob Hub]. destruct (Hb rc Hob) as [Hoa Hua].
  split; [exact Hoa|lia].
Qed.

Lemma G_frame u d d' : allocs d' = allocs d -> (forall rc, find_inv d' u rc = find_inv d u rc) -> G u d d'.
Proof.
  intros A F Hp. split; [eapply allocs_pos_same; eauto|].
  intros rc [i [Hi Hc]]. rewrite F in Hi. rewrite (usage_same _ _ _ _ A) in *. split; [exists i; auto|lia].
Qed.

Lemma G_same u d d' : same_ia d d' -> G u d d'.
Proof. intros [I A]. apply G_frame; [exact A|]. intros rc. apply find_inv_same. exact I. Qed.

Lemma G_inv_frame u u0 d d' : u0 <> u -> inv_frame u0 d d' -> G u d d'.
Proof. intros Hne [A F]. apply G_frame; [exact A|]. intros rc. apply F. congruence. Qed.

Lemma G_shrink u d d' p : invs d' = invs d -> allocs d' = filter p (allocs d) -> G u d d'.
Proof.
  intros I A Hp. split.
  - intros a Ha. rewrite A in Ha. apply filter_In in Ha. apply Hp. tauto.
  - intros rc [i [Hi Hc]]. rewrite (find_inv_same _ _ _ _ I) in Hi.
    assert (usage d' u rc <= usage d u rc) by (unfold usage; rewrite A; apply usage_l_filter_le; exact Hp).
    split; [exists i; split; [exact Hi|lia]|assumption].
Qed.

(* ================================================================ set_allocations_w by parts *)
Lemma cas_rps_w_frame l : forall d d' oe, cas_rps_w d l = (d', oe) -> same_ia d d'.
Proof.
  induction l as [|[u g] l IH]; intros d d' oe; cbn [cas_rps_w].
  - intros [= <- _]. apply same_ia_refl.
  - destruct (incr_rp_gen d u g) as [d1|e] eqn:E.
    + intros H. eapply same_ia_trans; [eapply incr_rp_gen_frame; exact E|eapply IH; exact H].
    + intros [= <- _]. apply same_ia_refl.
Qed.
Lemma cas_conss_w_frame l : forall d d' oe, cas_conss_w d l = (d', oe) -> same_ia d d'.
Proof.
  induction l as [|[u g] l IH]; intros d d' oe; cbn [cas_conss_w].
  - intros [= <- _]. apply same_ia_refl.
  - destruct (incr_cons_gen d u g) as [d1|e] eqn:E.
    + intros H. eapply same_ia_trans; [eapply incr_cons_gen_frame; exact E|eapply IH; exact H].
    + intros [= <- _]. apply same_ia_refl.
Qed.
Lemma cas_conss_w_err l : forall d d' e, cas_conss_w d l = (d', Some e) -> e = EConcurrent.
Proof.
  induction l as [|[u g] l IH]; intros d d' e; cbn [cas_conss_w]; [discriminate|].
  unfold incr_cons_gen. destruct (cas_cons_l (consumers d) u g).
  - apply IH.
  - intros [= _ <-]. reflexivity.
Qed.

Lemma check_loop_err d : forall l seen e, check_loop d seen l = Err e -> e = EInvalidInventory.
Proof.
  induction l as [|a l IH]; intros seen e; cbn [check_loop]; [discriminate|].
  destruct (q_amt a =? 0); [apply IH|].
  destruct (find_inv d (q_rp a) (q_rc a)); [|intros [= <-]; reflexivity].
  destruct (_ || _ || _); [intros [= <-]; reflexivity|].
  destruct (_ || _); [intros [= <-]; reflexivity|apply IH].
Qed.
Lemma check_capacity_err d l e : check_capacity d l = Err e -> e <> ERpConcurrent.
Proof.
  unfold check_capacity. destruct (negb _); [intros [= <-]; discriminate|].
  destruct (existsb _ l); [intros [= <-]; discriminate|].
  intros H. apply check_loop_err in H. subst e. discriminate.
Qed.
Lemma check_capacity_ok d l : check_capacity d l = Ok tt -> check_loop d [] l = Ok tt.
Proof. unfold check_capacity. destruct (negb _); [discriminate|]. destruct (existsb _ l); [discriminate|auto]. Qed.

Definition parts (w : db) (l : list areq) (w' : db) : Prop :=
  check_loop (purge w l) [] l = Ok tt /\ invs w' = invs w /\
  allocs w' = allocs (purge w l) ++ map mk_alloc (filter (fun a => negb (q_amt a =? 0)) l).

Lemma saw_cases w l w' oe : set_allocations_w w l = (w', oe) ->
  (exists e, oe = Some e /\ e <> ERpConcurrent /\ e <> EConcurrent) \/ parts w l w'.
Proof.
  unfold set_allocations_w. fold (purge w l).
  destruct (check_capacity (purge w l) l) as [[]|e] eqn:Hc.
  2:{ intros [= <- <-]. left. exists e. split; [reflexivity|]. split; [eapply check_capacity_err; eauto|].
      unfold check_capacity in Hc. destruct (negb _); [injection Hc as <-; discriminate|].
      destruct (existsb _ l); [injection Hc as <-; discriminate|]. apply check_loop_err in Hc. subst. discriminate. }
  apply check_capacity_ok in Hc.
  match goal with |- context [cas_rps_w ?x ?y] => destruct (cas_rps_w x y) as [d3 o3] eqn:E1 end.
  apply cas_rps_w_frame in E1. destruct E1 as [I1 A1].
  destruct o3 as [e3|].
  { intros [= <- <-]. right. split; [exact Hc|]. split; [rewrite I1|rewrite A1]; reflexivity. }
  match goal with |- context [cas_conss_w ?x ?y] => destruct (cas_conss_w x y) as [d4 o4] eqn:E2 end.
  apply cas_conss_w_frame in E2. destruct E2 as [I2 A2].
  destruct o4 as [e4|]; intros [= <- <-]; right; (split; [exact Hc|]).
  - split; [rewrite I2, I1|rewrite A2, A1]; reflexivity.
  - cbn [delete_consumers_if_no_allocations set_consumers invs allocs].
    split; [rewrite I2, I1|rewrite A2, A1]; reflexivity.
Qed.

Lemma parts_usage w l w' u rc : parts w l w' -> usage w' u rc = usage (purge w l) u rc + sum_prefix l u rc.
Proof. intros [_ [_ HA]]. unfold usage. rewrite HA, usage_l_app, usage_l_new. reflexivity. Qed.

Lemma parts_G w l w' : parts w l w' -> nonneg l -> forall u, G u w w'.
Proof.
  intros HP Hnn u Hp. pose proof HP as [Hc [HI HA]]. split.
  - intros a Ha. rewrite HA in Ha. apply in_app_or in Ha. destruct Ha as [Ha|Ha].
    + cbn [purge set_allocs allocs] in Ha. apply filter_In in Ha. apply Hp. tauto.
    + apply in_map_iff in Ha. destruct Ha as [q [<- Hq]]. apply filter_In in Hq. destruct Hq as [Hq Hnz].
      apply negb_true_iff in Hnz. apply Z.eqb_neq in Hnz. specialize (Hnn q Hq). cbn. lia.
  - intros rc [i [Hi Hov]]. rewrite (find_inv_same _ _ _ _ HI) in Hi.
    rewrite (parts_usage _ _ _ u rc HP) in *.
    destruct (existsb (posat u rc) l) eqn:Ex.
    + exfalso. destruct (check_loop_bound (purge w l) u rc l [] Hnn Hc Ex) as [i' [Hi' Hb]].
      unfold find_inv in Hi'. cbn [purge set_allocs invs] in Hi'. fold (find_inv w u rc) in Hi'.
      rewrite Hi in Hi'. injection Hi' as <-. cbn [sum_prefix] in Hb. lia.
    + rewrite (sum_prefix_zero u rc l Hnn Ex) in *.
      assert (Hle : usage (purge w l) u rc <= usage w u rc).
      { unfold usage, purge. cbn [set_allocs allocs]. apply usage_l_filter_le. exact Hp. }
      split; [exists i; split; [exact Hi|lia]|lia].
Qed.

Lemma refresh_nonneg c : forall l l', refresh c l = Some l' -> nonneg l -> nonneg l'.
Proof.
  induction l as [|a l IH]; intros l'; cbn [refresh].
  - intros [= <-] _ q [].
  - destruct (find_rp c (q_rp a)); [|discriminate]. destruct (refresh c l) as [rest|]; [|discriminate].
    intros [= <-] Hnn q [<-|Hq].
    + cbn [q_amt]. apply Hnn. left. reflexivity.
    + apply (IH rest eq_refl); [intros x Hx; apply Hnn; right; exact Hx|exact Hq].
Qed.

Lemma replace_all_G u c : forall fuel w l d', nonneg l -> replace_all fuel c w l = Ok d' -> G u w d'.
Proof.
  induction fuel as [|f IH]; intros w l d' Hnn; cbn [replace_all]; [discriminate|].
  destruct (set_allocations_w w l) as [w' oe] eqn:E.
  destruct (saw_cases _ _ _ _ E) as [[e [-> [Hne1 Hne2]]]|HP].
  - destruct e; try discriminate. contradiction.
  - destruct oe as [e|].
    + destruct e; try discriminate.
      destruct (refresh c l) as [l'|] eqn:Er; [|discriminate].
      intros H. eapply G_trans; [eapply parts_G; eauto|].
      eapply IH; [eapply refresh_nonneg; eauto|exact H].
    + intros [= <-]. eapply parts_G; eauto.
Qed.

Lemma reshape_txn_c_G u c d ri objs d' : nonneg objs -> ~ In u (map ri_rp ri) ->
  reshape_txn_c c d ri objs = Ok d' -> G u d d'.
Proof.
  intros Hnn Hni. unfold reshape_txn_c, bind.
  destruct (reshape_interim d ri) as [[d1 gens]|] eqn:Ei; [|discriminate].
  fold (regen gens).
  destruct (replace_all retry_fuel c d1 (map (regen gens) objs)) as [d2|] eqn:Er; [|discriminate].
  intros Hf.
  apply reshape_interim_props in Ei. destruct Ei as [AB [_ FB]].
  apply reshape_final_props in Hf. destruct Hf as [AF FF].
  eapply G_trans; [apply G_frame; [exact AB|intros rc; apply FB; exact Hni]|].
  eapply G_trans; [eapply replace_all_G; [apply nonneg_regen; exact Hnn|exact Er]|].
  apply G_frame; [exact AF|intros rc; apply FF; exact Hni].
Qed.

(* ================================================================ provider writes *)
Lemma set_traits_c_frame d u g w d' : set_traits_c d u g w = Ok d' -> same_ia d d'.
Proof.
  unfold set_traits_c. intros H.
  repeat match type of H with context [match ?x with _ => _ end] => destruct x eqn:? end;
    try discriminate; try (injection H as <-; apply same_ia_refl); eapply set_traits_txn_frame; eauto.
Qed.

Lemma prov_write_G u r g d d' rs : ~ inv_change r u -> prov_write r g d = (d', rs) -> G u d d'.
Proof.
  intros Hni H. destruct r; cbn [prov_write] in H; cbn [inv_change] in Hni;
    try (injection H as <- _; apply G_refl).
  - destruct (set_inventory d u0 g l) as [d1|e] eqn:E.
    + injection H as <- _. eapply G_inv_frame; [exact Hni|eapply set_inventory_frame; eauto].
    + destruct e; injection H as <- _; apply G_refl.
  - destruct (add_inventory d u0 g x) as [d1|e] eqn:E.
    + injection H as <- _. eapply G_inv_frame; [exact Hni|eapply add_inventory_frame; eauto].
    + destruct e; injection H as <- _; apply G_refl.
  - destruct (update_inventory d u0 g x) as [d1|e] eqn:E.
    + injection H as <- _. eapply G_inv_frame; [exact Hni|eapply update_inventory_frame; eauto].
    + destruct e; injection H as <- _; apply G_refl.
  - destruct (delete_inventory d u0 g rc) as [d1|e] eqn:E.
    + injection H as <- _. eapply G_inv_frame; [exact Hni|eapply delete_inventory_frame; eauto].
    + destruct e; injection H as <- _; apply G_refl.
  - destruct (set_inventory d u0 g []) as [d1|e] eqn:E.
    + injection H as <- _. eapply G_inv_frame; [exact Hni|eapply set_inventory_frame; eauto].
    + destruct e; injection H as <- _; apply G_refl.
  - destruct (set_traits_c d u0 g ts) as [d1|e] eqn:E; injection H as <- _; [|apply G_refl].
    apply G_same. eapply set_traits_c_frame; eauto.
  - destruct (set_traits_c d u0 g []) as [d1|e] eqn:E; injection H as <- _; [|apply G_refl].
    apply G_same. eapply set_traits_c_frame; eauto.
  - destruct (set_aggregates_txn d u0 g (dedup l) (19 <=? v)) as [d1|e] eqn:E; injection H as <- _; [|apply G_refl].
    apply G_same. eapply set_aggregates_txn_frame; eauto.
Qed.

(* ================================================================ thread invariant *)
Definition witems_ok (todo : list witem) : Prop := forall k a, In (WRp k a) todo -> alloc_in_wf a = true.
Definition ctx_ok (u : Z) (x : actx) : Prop :=
  ~ In u (map ri_rp (x_ri x)) /\ forallb cons_in_wf (x_all x) = true.

Definition thread_okB (u : Z) (t : tstate) : Prop :=
  match t with
  | TProvRead r | TProvWrite r _ => ~ inv_change r u
  | TRi x _ | TCons x _ _ | TCreate x _ _ _ | TReload x _ _ _ => ctx_ok u x
  | TObjs x _ todo objs => ctx_ok u x /\ witems_ok todo /\ nonneg objs
  | TMain x _ objs => ctx_ok u x /\ nonneg objs
  | _ => True
  end.

Lemma work_items_ok : forall ks l, forallb cons_in_wf l = true -> witems_ok (work_items ks l).
Proof.
  induction ks as [|k ks IH]; intros l Hwf k0 a0 Hin; cbn [work_items] in Hin; [destruct Hin|].
  destruct l as [|c l]; [destruct Hin|]. cbn [forallb] in Hwf. apply andb_true_iff in Hwf. destruct Hwf as [Hc Hl].
  destruct (ci_allocs c) as [|a al] eqn:Ea.
  - destruct Hin as [Hin|Hin]; [discriminate|]. eapply IH; eauto.
  - apply in_app_or in Hin. destruct Hin as [Hin|Hin]; [|eapply IH; eauto].
    apply in_map_iff in Hin. destruct Hin as [a1 [[= <- <-] Hin]].
    unfold cons_in_wf in Hc. rewrite Ea in Hc. apply andb_true_iff in Hc. destruct Hc as [Hc _].
    rewrite forallb_forall in Hc. apply Hc. exact Hin.
Qed.

Lemma after_cons_ok u x ks : ctx_ok u x -> thread_okB u (after_cons x ks).
Proof.
  intros Hx. unfold after_cons. pose proof (work_items_ok ks (x_all x) (proj2 Hx)) as Hw.
  destruct (work_items ks (x_all x)) as [|w ws]; cbn [thread_okB].
  - split; [exact Hx|]. intros q [].
  - split; [exact Hx|]. split; [exact Hw|]. intros q [].
Qed.

Lemma cleanup_ok u us r : thread_okB u (cleanup_or_done us r).
Proof. destruct us; exact I. Qed.

Lemma next_cons_ok u x (rest : list cons_in) ks acc : ctx_ok u x ->
  thread_okB u (match rest with [] => after_cons x ks | _ => TCons x rest acc end).
Proof. intros Hx. destruct rest; [apply after_cons_ok; exact Hx|exact Hx]. Qed.

Lemma aux_names_frame cf v d c : same_ia d (aux_names cf v d c).
Proof. unfold aux_names. destruct (38 <=? v); split; reflexivity. Qed.

Lemma tinit_okB cf u r : req_wf r = true -> ~ inv_change r u -> thread_okB u (tinit cf r).
Proof.
  intros Hwf Hni. destruct r; cbn [tinit prov_target prov_version_gate]; try exact I; try exact Hni;
    cbn [req_wf] in Hwf.
  - destruct (v <? 5); [exact I|exact Hni].
  - destruct (v <? 6); [exact I|exact Hni].
  - destruct (v <? 6); [exact I|exact Hni].
  - destruct (v <? 1); [exact I|exact Hni].
  - cbn [thread_okB]. split; [intros []|]. cbn [x_all forallb]. rewrite Hwf. reflexivity.
  - destruct (v <? 13); [exact I|]. cbn [thread_okB]. split; [intros []|]. cbn [x_all].
    unfold cons_list_wf in Hwf. apply andb_true_iff in Hwf. tauto.
  - destruct (v <? 30); [exact I|]. cbn [thread_okB]. apply andb_true_iff in Hwf. destruct Hwf as [_ Hal].
    split; [exact Hni|]. cbn [x_all]. unfold cons_list_wf in Hal. apply andb_true_iff in Hal. tauto.
Qed.

Lemma main_txn_G u x ks objs d d' : ctx_ok u x -> nonneg objs -> main_txn x ks objs d = Ok d' -> G u d d'.
Proof.
  intros [Hni _] Hnn. unfold main_txn. intros H.
  eapply G_trans; [apply G_same; apply (fold_update_consumer_frame ks d)|].
  destruct (x_kind x).
  - eapply replace_all_G; eauto.
  - eapply replace_all_G; eauto.
  - eapply reshape_txn_c_G; eauto.
Qed.

Lemma tstep_okB u t d d' t' : thread_okB u t -> tstep t d = (d', t') -> thread_okB u t' /\ G u d d'.
Proof.
  intros Hok H. destruct t; unfold tstep in H; cbn [thread_okB] in Hok.
  - injection H as <- <-. split; [exact I|apply G_refl].
  - destruct (prov_target r); [|injection H as <- <-; split; [exact I|apply G_refl]].
    destruct (find_rp d z); [|injection H as <- <-; split; [exact I|apply G_refl]].
    destruct (prov_precheck r r0 d); injection H as <- <-; (split; [|apply G_refl]); [exact I|exact Hok].
  - destruct (prov_write r g d) as [d1 rs] eqn:E. injection H as <- <-. split; [exact I|].
    eapply prov_write_G; eauto.
  - assert (Hn : thread_okB u (match x_all x with [] => after_cons x [] | l => TCons x l [] end)).
    { destruct (x_all x); [apply after_cons_ok; exact Hok|exact Hok]. }
    destruct todo as [|r rest]; [injection H as <- <-; split; [exact Hn|apply G_refl]|].
    destruct (find_rp d (ri_rp r)); [|injection H as <- <-; split; [exact I|apply G_refl]].
    destruct (negb _); injection H as <- <-; (split; [|apply G_refl]); [exact I|].
    destruct rest; [exact Hn|exact Hok].
  - destruct todo as [|c rest]; [injection H as <- <-; split; [apply after_cons_ok; exact Hok|apply G_refl]|].
    cbv zeta in H. destruct (rq_attrs (x_cf x) (x_v x) c) as [[proj user] ty].
    pose proof (aux_names_frame (x_cf x) (x_v x) d c) as HF.
    destruct (find_cons d (ci_uuid c)) as [k|].
    + destruct (_ && _); injection H as <- <-; (split; [|apply G_same; exact HF]).
      * apply cleanup_ok.
      * apply next_cons_ok. exact Hok.
    + destruct (_ && _); injection H as <- <-; (split; [|apply G_same; exact HF]).
      * apply cleanup_ok.
      * exact Hok.
  - destruct (rq_attrs (x_cf x) (x_v x) c) as [[proj user] ty].
    destruct (find_cons d (ci_uuid c)); injection H as <- <-.
    + split; [exact Hok|apply G_refl].
    + split; [apply next_cons_ok; exact Hok|apply G_same; split; reflexivity].
  - destruct (rq_attrs (x_cf x) (x_v x) c) as [[proj user] ty].
    destruct (find_cons d (ci_uuid c)); [|injection H as <- <-; split; [apply cleanup_ok|apply G_refl]].
    destruct (28 <=? x_v x); injection H as <- <-; (split; [|apply G_refl]).
    + apply cleanup_ok.
    + apply next_cons_ok. exact Hok.
  - destruct Hok as [Hx [Hw Hnn]].
    destruct todo as [|w rest]; [injection H as <- <-; split; [split; assumption|apply G_refl]|].
    cbv zeta in H.
    assert (Hw' : witems_ok rest) by (intros k a Hin; eapply Hw; right; exact Hin).
    assert (Hnext : forall objs', nonneg objs' ->
              thread_okB u (match rest with [] => TMain x ks objs' | _ => TObjs x ks rest objs' end)).
    { intros objs' Hn'. destruct rest; cbn [thread_okB]; auto. }
    destruct w as [k|k a].
    + injection H as <- <-. split; [|apply G_refl]. apply Hnext.
      intros q Hq. apply in_app_or in Hq. destruct Hq as [Hq|Hq]; [apply Hnn; exact Hq|].
      apply in_map_iff in Hq. destruct Hq as [q0 [<- Hq0]]. cbn [q_amt].
      apply wipe_list_zero in Hq0. lia.
    + destruct (find_rp d (ai_rp a)); injection H as <- <-; (split; [|apply G_refl]); [|apply cleanup_ok].
      apply Hnext. intros q Hq. apply in_app_or in Hq. destruct Hq as [Hq|Hq]; [apply Hnn; exact Hq|].
      apply in_map_iff in Hq. destruct Hq as [y [<- Hy]]. cbn [q_amt].
      specialize (Hw k a (or_introl eq_refl)). unfold alloc_in_wf in Hw.
      apply andb_true_iff in Hw. destruct Hw as [Hw _]. apply andb_true_iff in Hw. destruct Hw as [Hw _].
      rewrite forallb_forall in Hw. apply Hw in Hy. apply Z.leb_le in Hy. lia.
  - destruct Hok as [Hx Hnn]. destruct (main_txn x ks objs d) as [d1|e] eqn:E; injection H as <- <-.
    + split; [apply cleanup_ok|eapply main_txn_G; eauto].
    + split; [apply cleanup_ok|apply G_refl].
  - destruct todo as [|u0 rest]; injection H as <- <-; [split; [exact I|apply G_refl]|].
    split; [destruct rest; exact I|apply G_same; apply dcina_frame].
  - destruct (wipe_list d c); injection H as <- <-; (split; [exact I|apply G_refl]).
  - injection H as <- <-. split; [exact I|]. eapply G_shrink; [reflexivity|]. cbn [set_allocs allocs]. reflexivity.
  - injection H as <- <-. split; [exact I|apply G_same; apply dcina_frame].
Qed.

(* ================================================================ schedules *)
Lemma step_thread_okB u : forall i ts d ts' d', Forall (thread_okB u) ts -> step_thread i ts d = (ts', d') ->
  Forall (thread_okB u) ts' /\ G u d d'.
Proof.
  induction i as [|i IH]; intros ts d ts' d' Hall H; destruct ts as [|t ts]; cbn [step_thread] in H.
  - injection H as <- <-. split; [constructor|apply G_refl].
  - inversion Hall as [|? ? Ht Hts]; subst. destruct (tstep t d) as [d1 t1] eqn:E. injection H as <- <-.
    destruct (tstep_okB u t d d1 t1 Ht E) as [H1 H2]. split; [constructor; assumption|exact H2].
  - injection H as <- <-. split; [constructor|apply G_refl].
  - inversion Hall as [|? ? Ht Hts]; subst. destruct (step_thread i ts d) as [ts1 d1] eqn:E. injection H as <- <-.
    destruct (IH ts d ts1 d1 Hts E) as [H1 H2]. split; [constructor; assumption|exact H2].
Qed.

Lemma run_sched_okB u : forall s ts d ts' d', Forall (thread_okB u) ts -> run_sched s ts d = (ts', d') -> G u d d'.
Proof.
  induction s as [|i s IH]; intros ts d ts' d' Hall H; cbn [run_sched] in H.
  - injection H as _ <-. apply G_refl.
  - destruct (step_thread i ts d) as [ts1 d1] eqn:E.
    destruct (step_thread_okB u i ts d ts1 d1 Hall E) as [H1 H2].
    eapply G_trans; [exact H2|eapply IH; eauto].
Qed.

Theorem c07_no_joint_overcommit :
  forall cf reqs s d ts' d' u rc,
    allocs_pos d ->
    (forall r, In r reqs -> in_scope r /\ req_wf r = true) ->
    (forall r, In r reqs -> ~ inv_change r u) ->
    exec cf reqs s d = (ts', d') -> overcommitted d' u rc ->
    overcommitted d u rc /\ usage d' u rc <= usage d u rc.
Proof.
  intros cf reqs s d ts' d' u rc Hp Hsc Hni He Ho. unfold exec in He.
  assert (Hall : Forall (thread_okB u) (map (tinit cf) reqs)).
  { apply Forall_forall. intros t Ht. apply in_map_iff in Ht. destruct Ht as [r [<- Hr]].
    apply tinit_okB; [apply Hsc; exact Hr|apply Hni; exact Hr]. }
  destruct (run_sched_okB u s _ d ts' d' Hall He Hp) as [_ H]. apply H. exact Ho.
Qed.
Print Assumptions c07_no_joint_overcommit.
