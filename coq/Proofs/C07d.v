(* C07 (C): shared definitions for the serializability proof. No proofs of substance here. *)
From PV Require Import Proofs.ConcDefs.

(* replace the auxiliary name tables (projects, users, consumer types) *)
Definition with_aux (d : db) (p u c : list Z) : db :=
  mkDb (rps d) (invs d) (allocs d) (consumers d) p u c (rcs d) (traits d) (aggs d) (rp_aggs d) (rp_traits d).

(* n transactions of one thread, no early stop (TDone is a fixpoint of tstep) *)
Fixpoint nsteps (n : nat) (t : tstate) (d : db) : db * tstate :=
  match n with
  | O => (d, t)
  | S n' => let '(d', t') := tstep t d in nsteps n' t' d'
  end.

(* an allocation object without the provider generation it carries *)
Definition strip (a : areq) : Z * Z * Z * Z * Z := (q_cons a, q_cgen a, q_rp a, q_rc a, q_amt a).
Definition rpkey (a : areq) : Z * Z := (q_rp a, q_rpgen a).
Definition conskey (a : areq) : Z * Z := (q_cons a, q_cgen a).

(* the same objects carrying the provider generations of state w *)
Definition fresh (w : db) (l : list areq) : list areq :=
  map (fun a => mkAreq (q_cons a) (q_cgen a) (q_rp a)
                       (match gen_of w (q_rp a) with Some g => g | None => 0 end)
                       (q_rc a) (q_amt a)) l.

(* provider generations of c are below those of w *)
Definition gens_le (c w : db) : Prop :=
  forall u g, gen_of c u = Some g -> exists g', gen_of w u = Some g' /\ g <= g'.
