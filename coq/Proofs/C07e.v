From PV Require Import Proofs.ConcDefs Proofs.C07d.
(* C07 (C): no transaction of the model reads or (except aux_names) writes the auxiliary name tables
   projects / users / ctypes: every transaction commutes with with_aux, hence thread steps preserve
   core_eq and agree on the thread state. Also basic facts about nsteps / run_thread. *)

Ltac auxn := cbn [with_aux rps invs allocs consumers projects users ctypes rcs traits aggs rp_aggs rp_traits].

Lemma core_eq_refl d : core_eq d d.
Proof. unfold core_eq; repeat split; reflexivity. Qed.
Lemma core_eq_sym d d' : core_eq d d' -> core_eq d' d.
Proof. unfold core_eq; intuition congruence. Qed.
Lemma core_eq_trans a b c : core_eq a b -> core_eq b c -> core_eq a c.
Proof. unfold core_eq; intuition congruence. Qed.
Lemma core_eq_with_aux d p u c : core_eq d (with_aux d p u c).
Proof. unfold core_eq; auxn; repeat split; reflexivity. Qed.
Lemma core_eq_is_with_aux d d' : core_eq d d' -> d' = with_aux d (projects d') (users d') (ctypes d').
Proof.
  destruct d, d'; unfold core_eq, with_aux; cbn.
  intros (-> & -> & -> & -> & -> & -> & -> & -> & ->); reflexivity.
Qed.
Lemma core_eq_core_state d d' : core_eq d d' -> core_state d = core_state d'.
Proof. intros H; rewrite (core_eq_is_with_aux _ _ H); reflexivity. Qed.

Lemma with_aux_idem d p u c p' u' c' : with_aux (with_aux d p u c) p' u' c' = with_aux d p' u' c'.
Proof. reflexivity. Qed.

Definition rmap (r : result db) (p u c : list Z) : result db :=
  match r with Ok d' => Ok (with_aux d' p u c) | Err e => Err e end.

(* pure reads *)
Lemma find_rp_aux d p u c : find_rp (with_aux d p u c) = find_rp d.
Proof. reflexivity. Qed.
Lemma find_inv_aux d p u c : find_inv (with_aux d p u c) = find_inv d.
Proof. reflexivity. Qed.
Lemma find_cons_aux d p u c : find_cons (with_aux d p u c) = find_cons d.
Proof. reflexivity. Qed.
Lemma usage_aux d p u c : usage (with_aux d p u c) = usage d.
Proof. reflexivity. Qed.
Lemma rc_exists_aux d p u c : rc_exists (with_aux d p u c) = rc_exists d.
Proof. reflexivity. Qed.
Lemma trait_exists_aux d p u c : trait_exists (with_aux d p u c) = trait_exists d.
Proof. reflexivity. Qed.
Lemma rcs_of_aux x d p u c : rcs_of x (with_aux d p u c) = rcs_of x d.
Proof. reflexivity. Qed.
Lemma has_alloc_on_aux d p u c : has_alloc_on (with_aux d p u c) = has_alloc_on d.
Proof. reflexivity. Qed.
Lemma traits_of_aux d p u c : traits_of (with_aux d p u c) = traits_of d.
Proof. reflexivity. Qed.
Lemma aggs_of_aux d p u c : aggs_of (with_aux d p u c) = aggs_of d.
Proof. reflexivity. Qed.
Lemma wipe_list_aux d p u c : wipe_list (with_aux d p u c) = wipe_list d.
Proof. reflexivity. Qed.
Lemma interim_inv_aux d p u c : interim_inv (with_aux d p u c) = interim_inv d.
Proof. reflexivity. Qed.
Lemma traits_differ_aux d p u c : traits_differ (with_aux d p u c) = traits_differ d.
Proof. reflexivity. Qed.
Lemma prov_precheck_aux r me d p u c : prov_precheck r me (with_aux d p u c) = prov_precheck r me d.
Proof. destruct r; reflexivity. Qed.

Lemma check_loop_aux d p u c seen l : check_loop (with_aux d p u c) seen l = check_loop d seen l.
Proof.
  revert seen; induction l as [|a l IH]; intros seen; [reflexivity|].
  cbn [check_loop]. rewrite !IH, find_inv_aux, usage_aux. reflexivity.
Qed.
Lemma check_capacity_aux d p u c l : check_capacity (with_aux d p u c) l = check_capacity d l.
Proof.
  unfold check_capacity. rewrite check_loop_aux. reflexivity.
Qed.
Lemma refresh_aux d p u c l : refresh (with_aux d p u c) l = refresh d l.
Proof.
  induction l as [|a l IH]; [reflexivity|]. cbn [refresh]. rewrite IH, find_rp_aux. reflexivity.
Qed.

(* primitive transactions *)
Lemma incr_rp_gen_aux d x g p u c : incr_rp_gen (with_aux d p u c) x g = rmap (incr_rp_gen d x g) p u c.
Proof. unfold incr_rp_gen, rmap; auxn. destruct (cas_rp_l (rps d) x g); reflexivity. Qed.
Lemma incr_cons_gen_aux d x g p u c : incr_cons_gen (with_aux d p u c) x g = rmap (incr_cons_gen d x g) p u c.
Proof. unfold incr_cons_gen, rmap; auxn. destruct (cas_cons_l (consumers d) x g); reflexivity. Qed.
Lemma delete_inventory_from_provider_aux d x l p u c :
  delete_inventory_from_provider (with_aux d p u c) x l = rmap (delete_inventory_from_provider d x l) p u c.
Proof.
  unfold delete_inventory_from_provider, rmap. rewrite has_alloc_on_aux.
  destruct (existsb (has_alloc_on d x) l); reflexivity.
Qed.
Lemma add_inventory_to_provider_aux d x l p u c :
  add_inventory_to_provider (with_aux d p u c) x l = with_aux (add_inventory_to_provider d x l) p u c.
Proof. reflexivity. Qed.
Lemma update_inventory_for_provider_aux l : forall d x p u c,
  update_inventory_for_provider (with_aux d p u c) x l = rmap (update_inventory_for_provider d x l) p u c.
Proof.
  induction l as [|a l IH]; intros; [reflexivity|].
  cbn [update_inventory_for_provider]. rewrite find_inv_aux.
  destruct (find_inv d x (ii_rc a)); [|reflexivity].
  rewrite <- IH. reflexivity.
Qed.
Lemma set_inventory_aux d x g l p u c :
  set_inventory (with_aux d p u c) x g l = rmap (set_inventory d x g l) p u c.
Proof.
  unfold set_inventory. rewrite rc_exists_aux, rcs_of_aux.
  destruct (negb _); [reflexivity|].
  rewrite delete_inventory_from_provider_aux.
  destruct (delete_inventory_from_provider d x _) as [d1|e]; [|reflexivity].
  cbn [rmap bind]. rewrite add_inventory_to_provider_aux, update_inventory_for_provider_aux.
  destruct (update_inventory_for_provider _ x _) as [d3|e]; [|reflexivity].
  cbn [rmap bind]. apply incr_rp_gen_aux.
Qed.
Lemma add_inventory_aux d x g i p u c :
  add_inventory (with_aux d p u c) x g i = rmap (add_inventory d x g i) p u c.
Proof.
  unfold add_inventory. rewrite rc_exists_aux, find_inv_aux.
  destruct (negb _); [reflexivity|]. destruct (find_inv d x (ii_rc i)); [reflexivity|].
  rewrite add_inventory_to_provider_aux. apply incr_rp_gen_aux.
Qed.
Lemma update_inventory_aux d x g i p u c :
  update_inventory (with_aux d p u c) x g i = rmap (update_inventory d x g i) p u c.
Proof.
  unfold update_inventory. rewrite rc_exists_aux.
  destruct (negb _); [reflexivity|]. rewrite update_inventory_for_provider_aux.
  destruct (update_inventory_for_provider d x [i]); [|reflexivity].
  cbn [rmap bind]. apply incr_rp_gen_aux.
Qed.
Lemma delete_inventory_aux d x g rc p u c :
  delete_inventory (with_aux d p u c) x g rc = rmap (delete_inventory d x g rc) p u c.
Proof.
  unfold delete_inventory. rewrite rc_exists_aux, find_inv_aux.
  destruct (negb _); [reflexivity|]. rewrite delete_inventory_from_provider_aux.
  destruct (delete_inventory_from_provider d x [rc]); [|reflexivity].
  cbn [rmap bind]. destruct (find_inv d x rc); [|reflexivity]. apply incr_rp_gen_aux.
Qed.
Lemma set_traits_txn_aux d x g want p u c :
  set_traits_txn (with_aux d p u c) x g want = rmap (set_traits_txn d x g want) p u c.
Proof.
  unfold set_traits_txn; cbv zeta. rewrite traits_of_aux.
  destruct (filter _ want); [destruct (filter _ (traits_of d x)); [reflexivity|]|]; auxn;
  match goal with |- incr_rp_gen (set_rp_traits _ ?X) _ _ = _ =>
    exact (incr_rp_gen_aux (set_rp_traits d X) x g p u c) end.
Qed.
Lemma set_traits_c_aux d x g want p u c :
  set_traits_c (with_aux d p u c) x g want = rmap (set_traits_c d x g want) p u c.
Proof.
  unfold set_traits_c; cbv zeta. rewrite traits_of_aux, find_rp_aux.
  destruct (filter _ want); [destruct (filter _ (traits_of d x))|]; try apply set_traits_txn_aux.
  destruct (find_rp d x); [|reflexivity]. destruct (_ =? _); reflexivity.
Qed.
Lemma set_aggregates_txn_aux d x g want incr p u c :
  set_aggregates_txn (with_aux d p u c) x g want incr = rmap (set_aggregates_txn d x g want incr) p u c.
Proof.
  unfold set_aggregates_txn; cbv zeta. rewrite aggs_of_aux. destruct incr; [|reflexivity].
  match goal with |- incr_rp_gen (set_rp_aggs (set_aggs _ ?X) ?Y) _ _ = _ =>
    exact (incr_rp_gen_aux (set_rp_aggs (set_aggs d X) Y) x g p u c) end.
Qed.
Lemma consumer_update_aux d k g pr us ty p u c :
  consumer_update (with_aux d p u c) k g pr us ty = with_aux (consumer_update d k g pr us ty) p u c.
Proof. reflexivity. Qed.
Lemma update_consumer_aux d k p u c :
  update_consumer (with_aux d p u c) k = with_aux (update_consumer d k) p u c.
Proof. unfold update_consumer. destruct (_ || _); reflexivity. Qed.
Lemma fold_update_consumer_aux ks : forall d p u c,
  fold_left update_consumer ks (with_aux d p u c) = with_aux (fold_left update_consumer ks d) p u c.
Proof.
  induction ks as [|k ks IH]; intros; [reflexivity|].
  cbn [fold_left]. rewrite update_consumer_aux. apply IH.
Qed.
Lemma delete_consumers_if_no_allocations_aux d cs p u c :
  delete_consumers_if_no_allocations (with_aux d p u c) cs =
  with_aux (delete_consumers_if_no_allocations d cs) p u c.
Proof. reflexivity. Qed.

Lemma cas_rps_aux l : forall d p u c, cas_rps (with_aux d p u c) l = rmap (cas_rps d l) p u c.
Proof.
  induction l as [|[x g] l IH]; intros; [reflexivity|].
  cbn [cas_rps]. rewrite incr_rp_gen_aux. destruct (incr_rp_gen d x g); [|reflexivity].
  cbn [rmap bind]. apply IH.
Qed.
Lemma cas_rps_w_aux l : forall d p u c,
  cas_rps_w (with_aux d p u c) l = (with_aux (fst (cas_rps_w d l)) p u c, snd (cas_rps_w d l)).
Proof.
  induction l as [|[x g] l IH]; intros; [reflexivity|].
  cbn [cas_rps_w]. rewrite incr_rp_gen_aux. destruct (incr_rp_gen d x g); [|reflexivity].
  cbn [rmap]. apply IH.
Qed.
Lemma cas_conss_w_aux l : forall d p u c,
  cas_conss_w (with_aux d p u c) l = (with_aux (fst (cas_conss_w d l)) p u c, snd (cas_conss_w d l)).
Proof.
  induction l as [|[x g] l IH]; intros; [reflexivity|].
  cbn [cas_conss_w]. rewrite incr_cons_gen_aux. destruct (incr_cons_gen d x g); [|reflexivity].
  cbn [rmap]. apply IH.
Qed.

Lemma set_allocations_w_aux d l p u c :
  set_allocations_w (with_aux d p u c) l =
  (with_aux (fst (set_allocations_w d l)) p u c, snd (set_allocations_w d l)).
Proof.
  unfold set_allocations_w.
  change (set_allocs (with_aux d p u c) (filter (fun a => negb (memZ (a_cons a) (map q_cons l))) (allocs (with_aux d p u c))))
    with (with_aux (set_allocs d (filter (fun a => negb (memZ (a_cons a) (map q_cons l))) (allocs d))) p u c).
  set (d1 := set_allocs d _).
  rewrite check_capacity_aux.
  destruct (check_capacity d1 l); [|reflexivity].
  match goal with |- context [cas_rps_w (set_allocs (with_aux d1 p u c) ?X) ?L] =>
    change (set_allocs (with_aux d1 p u c) X) with (with_aux (set_allocs d1 X) p u c) end.
  auxn. rewrite cas_rps_w_aux.
  destruct (cas_rps_w _ _) as [d3 [e|]]; [reflexivity|].
  cbn [fst snd]. rewrite cas_conss_w_aux.
  destruct (cas_conss_w _ _) as [d4 [e|]]; reflexivity.
Qed.

(* committed state cm is only read; w is the working state *)
Lemma replace_all_aux f : forall cm w l p u c p' u' c',
  replace_all f (with_aux cm p' u' c') (with_aux w p u c) l = rmap (replace_all f cm w l) p u c.
Proof.
  induction f as [|f IH]; intros; [reflexivity|].
  cbn [replace_all]. rewrite set_allocations_w_aux, refresh_aux.
  destruct (set_allocations_w w l) as [w' [e|]]; cbn [fst snd]; [|reflexivity].
  destruct e; try reflexivity.
  destruct (refresh cm l); [|reflexivity]. apply IH.
Qed.

Definition rmap2 (r : result (db * list (Z * Z))) (p u c : list Z) : result (db * list (Z * Z)) :=
  match r with Ok x => Ok (with_aux (fst x) p u c, snd x) | Err e => Err e end.

Lemma reshape_interim_aux l : forall d p u c,
  reshape_interim (with_aux d p u c) l = rmap2 (reshape_interim d l) p u c.
Proof.
  induction l as [|r l IH]; intros; [reflexivity|].
  cbn [reshape_interim]. destruct (ri_invs r) as [|i il].
  - rewrite IH. destruct (reshape_interim d l) as [[d1 gs]|e]; reflexivity.
  - rewrite interim_inv_aux, set_inventory_aux.
    destruct (set_inventory d _ _ _) as [d1|e]; [|reflexivity].
    cbn [rmap bind]. rewrite IH. destruct (reshape_interim d1 l) as [[d2 gs]|e]; reflexivity.
Qed.
Lemma reshape_final_aux l : forall gens d p u c,
  reshape_final (with_aux d p u c) l gens = rmap (reshape_final d l gens) p u c.
Proof.
  induction l as [|r l IH]; intros; [reflexivity|].
  cbn [reshape_final]. destruct gens as [|[x g] gens]; [reflexivity|].
  rewrite set_inventory_aux. destruct (set_inventory d _ _ _) as [d1|e]; [|reflexivity].
  cbn [rmap bind]. apply IH.
Qed.
Lemma reshape_txn_c_aux cm d ri objs p u c p' u' c' :
  reshape_txn_c (with_aux cm p' u' c') (with_aux d p u c) ri objs = rmap (reshape_txn_c cm d ri objs) p u c.
Proof.
  unfold reshape_txn_c. rewrite reshape_interim_aux.
  destruct (reshape_interim d ri) as [[d1 gens]|e]; [|reflexivity].
  cbn [rmap2 bind fst snd]. rewrite replace_all_aux.
  destruct (replace_all _ cm d1 _) as [d2|e]; [|reflexivity].
  cbn [rmap bind]. apply reshape_final_aux.
Qed.

Lemma main_txn_aux x ks objs d p u c :
  main_txn x ks objs (with_aux d p u c) =
  match main_txn x ks objs d with Ok d' => Ok (with_aux d' p u c) | Err e => Err e end.
Proof.
  unfold main_txn. rewrite fold_update_consumer_aux.
  destruct (x_kind x); [apply replace_all_aux | apply replace_all_aux | apply reshape_txn_c_aux].
Qed.

Lemma prov_write_aux r g d p u c :
  prov_write r g (with_aux d p u c) = (with_aux (fst (prov_write r g d)) p u c, snd (prov_write r g d)).
Proof.
  destruct r; try reflexivity; cbn [prov_write];
  rewrite ?set_inventory_aux, ?add_inventory_aux, ?update_inventory_aux, ?delete_inventory_aux,
          ?set_traits_c_aux, ?set_aggregates_txn_aux, ?traits_differ_aux;
  match goal with |- context [rmap ?X _ _ _] => destruct X as [d'|[]] end; reflexivity.
Qed.

Lemma aux_names_with_aux cf v d c : exists p u t, aux_names cf v d c = with_aux d p u t.
Proof.
  unfold aux_names. destruct (38 <=? v); do 3 eexists; unfold with_aux, set_ctypes, set_users, set_projects; cbn; reflexivity.
Qed.

(* every transaction of a thread commutes with replacing the auxiliary tables; only TCons
   (get-or-create of names) changes them *)
Lemma tstep_aux t d p u c : exists p' u' c',
  tstep t (with_aux d p u c) = (with_aux (fst (tstep t d)) p' u' c', snd (tstep t d)).
Proof.
  destruct t as [r|r|r g|x todo|x todo acc|x k todo acc|x k todo acc|x ks todo objs|x ks objs|todo r|k|k rows|k].
  - exists p, u, c; reflexivity.
  - exists p, u, c. cbn [tstep]. destruct (prov_target r) as [z|]; [|reflexivity].
    rewrite find_rp_aux. destruct (find_rp d z) as [me|]; [|reflexivity].
    rewrite prov_precheck_aux. destruct (prov_precheck r me d); reflexivity.
  - exists p, u, c. cbn [tstep]. rewrite prov_write_aux. destruct (prov_write r g d); reflexivity.
  - exists p, u, c. cbn [tstep]. destruct todo as [|r rest]; [reflexivity|].
    rewrite find_rp_aux. destruct (find_rp d (ri_rp r)) as [me|]; [|reflexivity].
    destruct (negb _); reflexivity.
  - cbn [tstep]. destruct todo as [|k rest]; [exists p, u, c; reflexivity|].
    cbv zeta.
    destruct (aux_names_with_aux (x_cf x) (x_v x) (with_aux d p u c) k) as (p' & u' & c' & E).
    destruct (aux_names_with_aux (x_cf x) (x_v x) d k) as (p2 & u2 & c2 & E2).
    exists p', u', c'. rewrite E, E2, find_cons_aux, !with_aux_idem.
    destruct (rq_attrs (x_cf x) (x_v x) k) as [[pj us] ty].
    destruct (find_cons d (ci_uuid k)) as [k0|]; destruct (_ && _); cbn [fst snd]; rewrite ?with_aux_idem; reflexivity.
  - exists p, u, c. cbn [tstep]. destruct (rq_attrs (x_cf x) (x_v x) k) as [[pj us] ty].
    rewrite find_cons_aux. destruct (find_cons d (ci_uuid k)); reflexivity.
  - exists p, u, c. cbn [tstep]. destruct (rq_attrs (x_cf x) (x_v x) k) as [[pj us] ty].
    rewrite find_cons_aux. destruct (find_cons d (ci_uuid k)); [|reflexivity].
    destruct (28 <=? x_v x); reflexivity.
  - exists p, u, c. cbn [tstep]. destruct todo as [|w rest]; [reflexivity|].
    destruct w as [k|k a]; [reflexivity|].
    rewrite find_rp_aux. destruct (find_rp d (ai_rp a)); reflexivity.
  - exists p, u, c. cbn [tstep]. rewrite main_txn_aux.
    destruct (main_txn x ks objs d); reflexivity.
  - exists p, u, c. cbn [tstep]. destruct todo; reflexivity.
  - exists p, u, c. cbn [tstep]. rewrite wipe_list_aux. destruct (wipe_list d k); reflexivity.
  - exists p, u, c. reflexivity.
  - exists p, u, c. reflexivity.
Qed.

Lemma tstep_core t d1 d2 : core_eq d1 d2 ->
  core_eq (fst (tstep t d1)) (fst (tstep t d2)) /\ snd (tstep t d1) = snd (tstep t d2).
Proof.
  intros H. rewrite (core_eq_is_with_aux _ _ H).
  destruct (tstep_aux t d1 (projects d2) (users d2) (ctypes d2)) as (p' & u' & c' & E).
  rewrite E. cbn [fst snd]. split; [apply core_eq_with_aux | reflexivity].
Qed.

Lemma nsteps_core n t d1 d2 : core_eq d1 d2 ->
  core_eq (fst (nsteps n t d1)) (fst (nsteps n t d2)) /\ snd (nsteps n t d1) = snd (nsteps n t d2).
Proof.
  revert t d1 d2. induction n as [|n IH]; intros t d1 d2 H; [split; [exact H | reflexivity]|].
  cbn [nsteps]. destruct (tstep_core t d1 d2 H) as [Hc Ht].
  destruct (tstep t d1) as [d1' t1], (tstep t d2) as [d2' t2]. cbn [fst snd] in Hc, Ht. subst t2.
  apply IH, Hc.
Qed.

Lemma nsteps_done n r d : nsteps n (TDone r) d = (d, TDone r).
Proof. induction n as [|n IH]; [reflexivity|]. cbn [nsteps tstep]. exact IH. Qed.

Lemma run_thread_nsteps n t d : run_thread n t d = nsteps n t d.
Proof.
  revert t d. induction n as [|n IH]; intros t d; [reflexivity|].
  cbn [run_thread nsteps].
  destruct t; try (destruct (tstep _ d) as [d' t']; apply IH).
  symmetry. apply (nsteps_done (S n)).
Qed.

Lemma nsteps_add a b t d : nsteps (a + b) t d = let '(d1, t1) := nsteps a t d in nsteps b t1 d1.
Proof.
  revert b t d. induction a as [|a IH]; intros b t d; [reflexivity|].
  cbn [Nat.add nsteps]. destruct (tstep t d) as [d' t']. apply IH.
Qed.

Lemma nsteps_done_unique a b t d da ra db rb :
  nsteps a t d = (da, TDone ra) -> nsteps b t d = (db, TDone rb) -> da = db /\ ra = rb.
Proof.
  intros Ha Hb.
  pose proof (nsteps_add a b t d) as H1. rewrite Ha, nsteps_done in H1.
  pose proof (nsteps_add b a t d) as H2. rewrite Hb, nsteps_done in H2.
  rewrite Nat.add_comm, H1 in H2. inversion H2; split; reflexivity.
Qed.

Print Assumptions nsteps_core.
Print Assumptions main_txn_aux.
