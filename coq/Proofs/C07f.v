(* C07 (F): the retry loop replace_all.  Whenever it succeeds, the single attempt made with the
   objects carrying the working state's own provider generations succeeds from the original working
   state with exactly the same result. *)
From PV Require Import Proofs.ConcDefs Proofs.C07d.
From PV Require Import Proofs.C10.

(* ------------------------------------------------------------------ factoring through a projection *)
Section Fac.
  Context {A B : Type} (s : A -> B).

  Lemma map_fac {C} (f : A -> C) (h : B -> C) l :
    (forall a, f a = h (s a)) -> map f l = map h (map s l).
  Proof. intros H. rewrite map_map. apply map_ext. exact H. Qed.

  Lemma map_congr {C} (f : A -> C) (h : B -> C) l1 l2 :
    (forall a, f a = h (s a)) -> map s l1 = map s l2 -> map f l1 = map f l2.
  Proof. intros H E. rewrite (map_fac f h l1 H), (map_fac f h l2 H), E. reflexivity. Qed.

  Lemma forallb_fac (f : A -> bool) (h : B -> bool) l :
    (forall a, f a = h (s a)) -> forallb f l = forallb h (map s l).
  Proof. intros H. induction l as [|a l IH]; cbn; [reflexivity|]. rewrite H, IH. reflexivity. Qed.

  Lemma forallb_congr (f : A -> bool) (h : B -> bool) l1 l2 :
    (forall a, f a = h (s a)) -> map s l1 = map s l2 -> forallb f l1 = forallb f l2.
  Proof. intros H E. rewrite (forallb_fac f h l1 H), (forallb_fac f h l2 H), E. reflexivity. Qed.

  Lemma existsb_fac (f : A -> bool) (h : B -> bool) l :
    (forall a, f a = h (s a)) -> existsb f l = existsb h (map s l).
  Proof. intros H. induction l as [|a l IH]; cbn; [reflexivity|]. rewrite H, IH. reflexivity. Qed.

  Lemma existsb_congr (f : A -> bool) (h : B -> bool) l1 l2 :
    (forall a, f a = h (s a)) -> map s l1 = map s l2 -> existsb f l1 = existsb f l2.
  Proof. intros H E. rewrite (existsb_fac f h l1 H), (existsb_fac f h l2 H), E. reflexivity. Qed.

  Lemma filter_map_fac {C} (p : A -> bool) (hp : B -> bool) (f : A -> C) (h : B -> C) l :
    (forall a, p a = hp (s a)) -> (forall a, f a = h (s a)) ->
    map f (filter p l) = map h (filter hp (map s l)).
  Proof.
    intros Hp Hf. induction l as [|a l IH]; cbn; [reflexivity|].
    rewrite <- Hp. destruct (p a); cbn; [rewrite Hf, IH|rewrite IH]; reflexivity.
  Qed.

  Lemma filter_map_congr {C} (p : A -> bool) (hp : B -> bool) (f : A -> C) (h : B -> C) l1 l2 :
    (forall a, p a = hp (s a)) -> (forall a, f a = h (s a)) -> map s l1 = map s l2 ->
    map f (filter p l1) = map f (filter p l2).
  Proof.
    intros Hp Hf E. rewrite (filter_map_fac p hp f h l1 Hp Hf), (filter_map_fac p hp f h l2 Hp Hf), E.
    reflexivity.
  Qed.
End Fac.

(* projections of a strip *)
Definition s_cons (x : Z * Z * Z * Z * Z) : Z := fst (fst (fst (fst x))).
Definition s_cgen (x : Z * Z * Z * Z * Z) : Z := snd (fst (fst (fst x))).
Definition s_rp (x : Z * Z * Z * Z * Z) : Z := snd (fst (fst x)).
Definition s_rc (x : Z * Z * Z * Z * Z) : Z := snd (fst x).
Definition s_amt (x : Z * Z * Z * Z * Z) : Z := snd x.

Lemma strip_inj a b : strip a = strip b ->
  q_cons a = q_cons b /\ q_cgen a = q_cgen b /\ q_rp a = q_rp b /\ q_rc a = q_rc b /\ q_amt a = q_amt b.
Proof. unfold strip. intros [= A B C D E]. auto. Qed.

Lemma map_strip_cons a l b l' : map strip (a :: l) = map strip (b :: l') ->
  (q_cons a = q_cons b /\ q_cgen a = q_cgen b /\ q_rp a = q_rp b /\ q_rc a = q_rc b /\ q_amt a = q_amt b) /\
  map strip l = map strip l'.
Proof.
  cbn [map]. remember (strip a) as x eqn:X. remember (strip b) as y eqn:Y.
  intros [= E1 E2]. subst. split; [apply strip_inj|]; assumption.
Qed.

(* ------------------------------------------------------------------ fresh *)
Lemma fresh_strip w l : map strip (fresh w l) = map strip l.
Proof. unfold fresh. rewrite map_map. apply map_ext. reflexivity. Qed.

Lemma fresh_strip_eq w l1 l2 : map strip l1 = map strip l2 -> fresh w l1 = fresh w l2.
Proof.
  unfold fresh. apply (map_congr strip) with
    (h := fun x => mkAreq (s_cons x) (s_cgen x) (s_rp x)
                     (match gen_of w (s_rp x) with Some g => g | None => 0 end) (s_rc x) (s_amt x)).
  reflexivity.
Qed.

(* ------------------------------------------------------------------ the capacity check *)
Lemma sum_prefix_congr u rc : forall s1 s2, map strip s1 = map strip s2 ->
  sum_prefix s1 u rc = sum_prefix s2 u rc.
Proof.
  induction s1 as [|a s1 IH]; intros [|b s2] E; try discriminate E; [reflexivity|].
  apply map_strip_cons in E. destruct E as ((_ & _ & Erp & Erc & Eamt) & E).
  cbn. rewrite Erp, Erc, Eamt, (IH _ E). reflexivity.
Qed.

Lemma check_loop_congr d : forall l1 l2 seen1 seen2,
  map strip seen1 = map strip seen2 -> map strip l1 = map strip l2 ->
  check_loop d seen1 l1 = check_loop d seen2 l2.
Proof.
  induction l1 as [|a l1 IH]; intros [|b l2] seen1 seen2 Es E; try discriminate E; [reflexivity|].
  assert (Es' : map strip (a :: seen1) = map strip (b :: seen2)).
  { cbn [map] in *. remember (strip a) as x. remember (strip b) as y. injection E as -> _. congruence. }
  apply map_strip_cons in E. destruct E as ((_ & _ & Erp & Erc & Eamt) & E).
  cbn [check_loop]. rewrite (sum_prefix_congr (q_rp a) (q_rc a) _ _ Es').
  rewrite Erp, Erc, Eamt, (IH _ _ _ Es' E). reflexivity.
Qed.

Lemma check_capacity_congr d l1 l2 : map strip l1 = map strip l2 ->
  check_capacity d l1 = check_capacity d l2.
Proof.
  intros E. unfold check_capacity.
  rewrite (forallb_congr strip (fun a => rc_exists d (q_rc a)) (fun x => rc_exists d (s_rc x)) l1 l2)
    by (reflexivity || exact E).
  rewrite (map_congr strip q_rc s_rc l1 l2) by (reflexivity || exact E).
  rewrite (existsb_congr strip
             (fun a => negb (existsb (fun i => (i_rp i =? q_rp a) && memZ (i_rc i) (map q_rc l2)) (invs d)))
             (fun x => negb (existsb (fun i => (i_rp i =? s_rp x) && memZ (i_rc i) (map q_rc l2)) (invs d)))
             l1 l2) by (reflexivity || exact E).
  rewrite (check_loop_congr d l1 l2 [] [] eq_refl E). reflexivity.
Qed.

(* ------------------------------------------------------------------ one attempt, in stages *)
(* after the purge of the named consumers' rows *)
Definition saw_tail (d1 : db) (l : list areq) : db * option exn :=
  match check_capacity d1 l with
  | Err e => (d1, Some e)
  | Ok _ =>
      let d2 := set_allocs d1 (allocs d1 ++ map (fun a => mkAlloc (q_cons a) (q_rp a) (q_rc a) (q_amt a))
                                              (filter (fun a => negb (q_amt a =? 0)) l)) in
      match cas_rps_w d2 (first_by [] (map rpkey l)) with
      | (d3, Some e) => (d3, Some e)
      | (d3, None) =>
          match cas_conss_w d3 (first_by [] (map conskey l)) with
          | (d4, Some e) => (d4, Some e)
          | (d4, None) =>
              let with_allocs := map q_cons (filter (fun a => 0 <? q_amt a) l) in
              let to_check := filter (fun c => negb (memZ c with_allocs)) (dedup (map q_cons l)) in
              (delete_consumers_if_no_allocations d4 to_check, None)
          end
      end
  end.

Definition purged (d : db) (l : list areq) : db :=
  set_allocs d (filter (fun a => negb (memZ (a_cons a) (map q_cons l))) (allocs d)).

Lemma saw_unfold d l : set_allocations_w d l = saw_tail (purged d l) l.
Proof. reflexivity. Qed.

Lemma saw_tail_congr d1 l1 l2 :
  map strip l1 = map strip l2 -> first_by [] (map rpkey l1) = first_by [] (map rpkey l2) ->
  saw_tail d1 l1 = saw_tail d1 l2.
Proof.
  intros E EF. unfold saw_tail. cbv zeta.
  rewrite (check_capacity_congr d1 l1 l2 E), EF.
  rewrite (filter_map_congr strip (fun a => negb (q_amt a =? 0)) (fun x => negb (s_amt x =? 0))
             (fun a => mkAlloc (q_cons a) (q_rp a) (q_rc a) (q_amt a))
             (fun x => mkAlloc (s_cons x) (s_rp x) (s_rc x) (s_amt x)) l1 l2)
    by (reflexivity || exact E).
  rewrite (map_congr strip conskey (fun x => (s_cons x, s_cgen x)) l1 l2) by (reflexivity || exact E).
  rewrite (filter_map_congr strip (fun a => 0 <? q_amt a) (fun x => 0 <? s_amt x) q_cons s_cons l1 l2)
    by (reflexivity || exact E).
  rewrite (map_congr strip q_cons s_cons l1 l2) by (reflexivity || exact E).
  reflexivity.
Qed.

Lemma saw_strip_congr w l1 l2 :
  map strip l1 = map strip l2 -> first_by [] (map rpkey l1) = first_by [] (map rpkey l2) ->
  set_allocations_w w l1 = set_allocations_w w l2.
Proof.
  intros E EF. rewrite !saw_unfold. unfold purged.
  rewrite (map_congr strip q_cons s_cons l1 l2) by (reflexivity || exact E).
  apply saw_tail_congr; assumption.
Qed.

(* ------------------------------------------------------------------ first_by *)
Lemma memZ_cons x k l : memZ x (k :: l) = (x =? k) || memZ x l.
Proof. reflexivity. Qed.

Lemma first_by_keys : forall l seen,
  NoDup (map fst (first_by seen l)) /\
  forall k, In k (map fst (first_by seen l)) -> memZ k seen = false.
Proof.
  induction l as [|[k g] l IH]; intros seen; cbn [first_by].
  - split; [constructor|intros k []].
  - destruct (memZ k seen) eqn:M; [apply IH|].
    destruct (IH (k :: seen)) as [ND NS]. cbn [map fst]. split.
    + constructor; [|exact ND]. intros Hin. apply NS in Hin.
      rewrite memZ_cons, Z.eqb_refl in Hin. discriminate.
    + intros k' [<-|Hin]; [exact M|]. apply NS in Hin. rewrite memZ_cons in Hin.
      apply orb_false_iff in Hin. apply Hin.
Qed.

Lemma first_by_head a l :
  first_by [] (map rpkey (a :: l)) = (q_rp a, q_rpgen a) :: first_by [q_rp a] (map rpkey l).
Proof. reflexivity. Qed.

(* ------------------------------------------------------------------ provider generation CAS *)
Lemma incr_ok d u g d1 : incr_rp_gen d u g = Ok d1 ->
  gen_of d u = Some g /\ gen_of d1 u = Some (g + 1) /\ forall x, x <> u -> gen_of d1 x = gen_of d x.
Proof.
  intros H. apply incr_rp_gen_inv in H. destruct H as (l' & C & ->).
  apply cas_rp_l_spec in C. exact C.
Qed.

Lemma incr_err d u g e : incr_rp_gen d u g = Err e -> e = ERpConcurrent.
Proof. unfold incr_rp_gen. destruct (cas_rp_l (rps d) u g); [discriminate|]. intros [= <-]. reflexivity. Qed.

Lemma cas_rps_w_ok : forall FB d d3, cas_rps_w d FB = (d3, None) -> NoDup (map fst FB) ->
  forall u g, In (u, g) FB -> gen_of d u = Some g.
Proof.
  induction FB as [|[u0 g0] FB IH]; intros d d3 H ND u g Hin; [destruct Hin|].
  cbn [cas_rps_w] in H. destruct (incr_rp_gen d u0 g0) as [d1|e] eqn:I; [|discriminate].
  apply incr_ok in I. destruct I as (I1 & _ & I3).
  cbn [map fst] in ND. inversion ND as [|? ? Hn ND']; subst.
  destruct Hin as [[= <- <-]|Hin]; [exact I1|].
  rewrite <- I3.
  - eapply IH; eassumption.
  - intros ->. apply Hn. apply (in_map fst) in Hin. exact Hin.
Qed.

(* a provider not among the keys keeps its generation, whatever the outcome *)
Lemma cas_rps_w_other : forall FB d d' o, cas_rps_w d FB = (d', o) ->
  forall u, ~ In u (map fst FB) -> gen_of d' u = gen_of d u.
Proof.
  induction FB as [|[u0 g0] FB IH]; intros d d' o H u Hn; cbn [cas_rps_w] in H.
  - injection H as <- _. reflexivity.
  - destruct (incr_rp_gen d u0 g0) as [d1|e] eqn:I.
    + apply incr_ok in I. destruct I as (_ & _ & I3). cbn [map fst] in Hn.
      rewrite (IH _ _ _ H u) by (intros Hc; apply Hn; right; exact Hc). apply I3. intros ->. apply Hn. left. reflexivity.
    + injection H as <- _. reflexivity.
Qed.

(* ------------------------------------------------------------------ errors *)
Lemma check_loop_err d : forall l seen e, check_loop d seen l = Err e -> e <> ERpConcurrent.
Proof.
  induction l as [|a l IH]; intros seen e H; cbn [check_loop] in H; [discriminate|].
  destruct (q_amt a =? 0); [eapply IH; eassumption|].
  destruct (find_inv d (q_rp a) (q_rc a)) as [i|]; [|injection H as <-; discriminate].
  destruct (_ || _ || _) in H; [injection H as <-; discriminate|].
  destruct (_ || _) in H; [injection H as <-; discriminate|].
  eapply IH; eassumption.
Qed.

Lemma check_capacity_err d l e : check_capacity d l = Err e -> e <> ERpConcurrent.
Proof.
  unfold check_capacity. destruct (negb _); [intros [= <-]; discriminate|].
  destruct (existsb _ l); [intros [= <-]; discriminate|]. apply check_loop_err.
Qed.

Lemma cas_conss_w_err : forall CB d d' e, cas_conss_w d CB = (d', Some e) -> e = EConcurrent.
Proof.
  induction CB as [|[u g] CB IH]; intros d d' e H; cbn [cas_conss_w] in H; [discriminate|].
  destruct (incr_cons_gen d u g) as [d1|e'] eqn:I; [eapply IH; eassumption|].
  injection H as _ <-. unfold incr_cons_gen in I. destruct (cas_cons_l _ _ _); [discriminate|].
  injection I as <-. reflexivity.
Qed.

(* state before the generation CAS of an attempt whose capacity check passed *)
Definition pre (d : db) (l : list areq) : db :=
  set_allocs d (filter (fun a => negb (memZ (a_cons a) (map q_cons l))) (allocs d)
                ++ map (fun a => mkAlloc (q_cons a) (q_rp a) (q_rc a) (q_amt a))
                       (filter (fun a => negb (q_amt a =? 0)) l)).

Lemma gen_of_pre d l u : gen_of (pre d l) u = gen_of d u.
Proof. reflexivity. Qed.

Lemma saw_none w l d' : set_allocations_w w l = (d', None) ->
  exists d3, cas_rps_w (pre w l) (first_by [] (map rpkey l)) = (d3, None).
Proof.
  rewrite saw_unfold. unfold saw_tail. destruct (check_capacity (purged w l) l); [|discriminate].
  cbv zeta. change (set_allocs (purged w l) _) with (pre w l).
  destruct (cas_rps_w (pre w l) _) as [d3 [e|]]; [discriminate|]. intros _. eauto.
Qed.

Lemma saw_retry w l w' : set_allocations_w w l = (w', Some ERpConcurrent) ->
  cas_rps_w (pre w l) (first_by [] (map rpkey l)) = (w', Some ERpConcurrent).
Proof.
  rewrite saw_unfold. unfold saw_tail. destruct (check_capacity (purged w l) l) as [|e] eqn:C.
  - cbv zeta. change (set_allocs (purged w l) _) with (pre w l).
    destruct (cas_rps_w (pre w l) _) as [d3 [e|]]; [intros [= <- <-]; reflexivity|].
    destruct (cas_conss_w d3 _) as [d4 [e|]] eqn:CC; [|discriminate].
    intros [= _ ->]. apply cas_conss_w_err in CC. discriminate.
  - intros [= _ ->]. apply check_capacity_err in C. congruence.
Qed.

(* ------------------------------------------------------------------ a successful attempt *)
Lemma saw_ok_first w l d' : set_allocations_w w l = (d', None) ->
  forall u g, In (u, g) (first_by [] (map rpkey l)) -> gen_of w u = Some g.
Proof.
  intros H u g Hin. apply saw_none in H. destruct H as [d3 H].
  rewrite <- (gen_of_pre w l). eapply cas_rps_w_ok; [exact H|apply first_by_keys|exact Hin].
Qed.

Lemma first_by_fresh w : forall l seen,
  (forall u g, In (u, g) (first_by seen (map rpkey l)) -> gen_of w u = Some g) ->
  first_by seen (map rpkey l) = first_by seen (map rpkey (fresh w l)).
Proof.
  induction l as [|a l IH]; intros seen H; [reflexivity|].
  cbn [map fresh first_by rpkey q_rp q_rpgen] in *.
  destruct (memZ (q_rp a) seen); [apply IH; exact H|].
  rewrite (H _ _ (or_introl eq_refl)). f_equal. apply IH. intros u g Hin. apply H. right. exact Hin.
Qed.

Lemma saw_ok_fresh w l d' : set_allocations_w w l = (d', None) -> set_allocations_w w (fresh w l) = (d', None).
Proof.
  intros H. rewrite <- H. apply saw_strip_congr; [apply fresh_strip|].
  symmetry. apply first_by_fresh. apply (saw_ok_first _ _ _ H).
Qed.

Lemma replace_all_first c w l w' : set_allocations_w w l = (w', None) -> replace_all retry_fuel c w l = Ok w'.
Proof.
  intros H. change retry_fuel with (S (Nat.pred retry_fuel)). cbn [replace_all]. rewrite H. reflexivity.
Qed.

(* ------------------------------------------------------------------ refresh *)
Lemma refresh_cons c a l l' : refresh c (a :: l) = Some l' ->
  exists r l0', find_rp c (q_rp a) = Some r /\ refresh c l = Some l0' /\
                l' = mkAreq (q_cons a) (q_cgen a) (q_rp a) (rp_gen r) (q_rc a) (q_amt a) :: l0'.
Proof.
  cbn [refresh]. destruct (find_rp c (q_rp a)) as [r|]; [|discriminate].
  destruct (refresh c l) as [l0'|]; [|discriminate]. intros [= <-]. eauto.
Qed.

Lemma refresh_strip c : forall l l', refresh c l = Some l' -> map strip l' = map strip l.
Proof.
  induction l as [|a l IH]; intros l' H.
  - injection H as <-. reflexivity.
  - apply refresh_cons in H. destruct H as (r & l0' & _ & R & ->).
    cbn [map]. rewrite (IH _ R). reflexivity.
Qed.

Lemma refresh_idem c : forall l l', refresh c l = Some l' -> refresh c l' = Some l'.
Proof.
  induction l as [|a l IH]; intros l' H.
  - injection H as <-. reflexivity.
  - apply refresh_cons in H. destruct H as (r & l0' & F & R & ->).
    cbn [refresh q_rp q_cons q_cgen q_rc q_amt]. rewrite F, (IH _ R). reflexivity.
Qed.

(* ------------------------------------------------------------------ an attempt that failed at the
   first compared provider leaves a state from which attempts behave as from the original one *)
Lemma purged_pre w l L : map q_cons L = map q_cons l -> purged (pre w l) L = purged w L.
Proof.
  intros E. unfold purged, pre, set_allocs. rewrite E.
  cbn [rps invs allocs consumers projects users ctypes rcs traits aggs rp_aggs rp_traits].
  f_equal. rewrite filter_app, filter_filter_imp by auto.
  rewrite (filter_none _ (map _ _)); [apply app_nil_r|].
  intros x Hx. apply in_map_iff in Hx. destruct Hx as (a & <- & Ha). apply filter_In in Ha.
  cbn [a_cons]. apply negb_false_iff. apply memZ_In. apply in_map. apply Ha.
Qed.

Lemma saw_pre w l L : map q_cons L = map q_cons l ->
  set_allocations_w (pre w l) L = set_allocations_w w L.
Proof. intros E. rewrite !saw_unfold, (purged_pre _ _ _ E). reflexivity. Qed.

Lemma fresh_cons w l : map q_cons (fresh w l) = map q_cons l.
Proof. unfold fresh. rewrite map_map. apply map_ext. reflexivity. Qed.

(* ------------------------------------------------------------------ a refreshed list whose first
   object does not carry the working state's generation can never succeed *)
Lemma stuck c a0 l0 : refresh c (a0 :: l0) = Some (a0 :: l0) ->
  forall f w d', gen_of w (q_rp a0) <> Some (q_rpgen a0) -> replace_all f c w (a0 :: l0) <> Ok d'.
Proof.
  intros R. induction f as [|f IH]; intros w d' Hg H; cbn [replace_all] in H; [discriminate|].
  destruct (set_allocations_w w (a0 :: l0)) as [w' [e|]] eqn:S.
  - destruct e; try discriminate H. rewrite R in H.
    apply saw_retry in S. rewrite first_by_head in S. cbn [cas_rps_w] in S.
    destruct (incr_rp_gen (pre w (a0 :: l0)) (q_rp a0) (q_rpgen a0)) as [d1|e] eqn:I.
    + apply incr_ok in I. destruct I as (I1 & _). rewrite gen_of_pre in I1. contradiction.
    + injection S as <- _. revert H. apply IH. rewrite gen_of_pre. exact Hg.
  - apply Hg. eapply saw_ok_first; [exact S|]. rewrite first_by_head. left. reflexivity.
Qed.

(* ------------------------------------------------------------------ MAIN *)
Lemma replace_all_fresh fuel c w l d' :
  gens_le c w -> replace_all fuel c w l = Ok d' -> set_allocations_w w (fresh w l) = (d', None).
Proof.
  revert w l. induction fuel as [|f IH]; intros w l G H; cbn [replace_all] in H; [discriminate|].
  destruct (set_allocations_w w l) as [w' [e|]] eqn:S.
  2:{ injection H as <-. apply saw_ok_fresh. exact S. }
  destruct e; try discriminate H.
  destruct (refresh c l) as [l'|] eqn:R; [|discriminate].
  apply saw_retry in S.
  destruct l as [|a0 l0]; [discriminate S|].
  rewrite first_by_head in S. cbn [cas_rps_w] in S.
  destruct (incr_rp_gen (pre w (a0 :: l0)) (q_rp a0) (q_rpgen a0)) as [d1|e] eqn:I.
  - (* the first comparison succeeded, a later one failed: the refreshed first object is stale for good *)
    exfalso. apply incr_ok in I. destruct I as (I1 & I2 & _). rewrite gen_of_pre in I1.
    assert (W : gen_of w' (q_rp a0) = Some (q_rpgen a0 + 1)).
    { rewrite (cas_rps_w_other _ _ _ _ S); [exact I2|].
      intros Hin. apply first_by_keys in Hin. rewrite memZ_cons, Z.eqb_refl in Hin. discriminate. }
    pose proof (refresh_idem _ _ _ R) as R'.
    apply refresh_cons in R. destruct R as (r & l0' & Fr & _ & ->).
    revert H. apply (stuck _ _ _ R'). cbn [q_rp q_rpgen]. rewrite W. intros [= E].
    destruct (G (q_rp a0) (rp_gen r)) as (g' & G1 & G2).
    { unfold gen_of. rewrite Fr. reflexivity. }
    rewrite I1 in G1. injection G1 as <-. lia.
  - (* the first comparison failed: nothing but the purge and the new rows happened *)
    injection S as <- _.
    assert (G' : gens_le c (pre w (a0 :: l0))) by exact G.
    specialize (IH _ _ G' H). change (fresh (pre w (a0 :: l0)) l') with (fresh w l') in IH.
    rewrite (fresh_strip_eq w l' (a0 :: l0)) in IH by (eapply refresh_strip; exact R).
    rewrite saw_pre in IH by apply fresh_cons. exact IH.
Qed.

Print Assumptions replace_all_fresh.
