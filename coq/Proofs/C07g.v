From PV Require Import Proofs.ConcDefs Proofs.C07d.
From PV Require Import Proofs.C07f.
From PV Require Import Proofs.C10 Proofs.C01.

(* C07 (G): provider-generation bookkeeping of the allocation replacement and of the reshaper
   transaction; the reshaper transaction run on objects carrying the current generations. *)

(* ------------------------------------------------------------------ list helpers *)
Lemma Forall2_impl_in {A B} (P Q : A -> B -> Prop) l l' :
  Forall2 P l l' -> (forall a b, In a l -> P a b -> Q a b) -> Forall2 Q l l'.
Proof.
  induction 1 as [|a b l l' Hab HF IH]; intros HI; constructor.
  - apply HI; [left; reflexivity|assumption].
  - apply IH. intros a0 b0 Ha. apply HI. right. assumption.
Qed.

Lemma Forall2_map_r {A B} (P : A -> B -> Prop) (f : A -> B) l :
  Forall2 P l (map f l) <-> Forall (fun a => P a (f a)) l.
Proof.
  induction l as [|a l IH]; cbn; split; intros H; try constructor.
  - inversion H; subst; assumption.
  - apply IH. inversion H; subst; assumption.
  - inversion H; subst; assumption.
  - apply IH. inversion H; subst; assumption.
Qed.

Lemma gen_of_rps d d' u : rps d' = rps d -> gen_of d' u = gen_of d u.
Proof. intros E. unfold gen_of, find_rp. rewrite E. reflexivity. Qed.

(* ------------------------------------------------------------------ first_by *)
Lemma first_by_keys_nd : forall l seen,
  NoDup (map fst (first_by seen l)) /\
  forall u, In u (map fst (first_by seen l)) <-> (In u (map fst l) /\ ~ In u seen).
Proof.
  induction l as [|[k g] l IH]; intros seen; cbn [first_by map fst].
  - split; [constructor|]. intros u. cbn. tauto.
  - destruct (memZ k seen) eqn:M.
    + destruct (IH seen) as [ND HI]. split; [assumption|].
      intros u. rewrite HI. apply memZ_In in M. cbn [In].
      split; [tauto|]. intros [[->|H] Hn]; [contradiction|tauto].
    + destruct (IH (k :: seen)) as [ND HI]. apply memZ_false in M. cbn [map fst]. split.
      * constructor; [|assumption]. rewrite HI. cbn [In]. tauto.
      * intros u. cbn [In]. rewrite HI. cbn [In].
        destruct (Z.eq_dec k u) as [->|Hk]; [tauto|]. tauto.
Qed.

(* ------------------------------------------------------------------ CAS loops of the working state *)
Lemma cas_rps_w_spec : forall l d d', NoDup (map fst l) -> cas_rps_w d l = (d', None) ->
  (forall u, In u (map fst l) -> exists g, gen_of d u = Some g /\ gen_of d' u = Some (g + 1)) /\
  (forall u, ~ In u (map fst l) -> gen_of d' u = gen_of d u).
Proof.
  induction l as [|[u g] l IH]; intros d d' ND H; cbn [cas_rps_w] in H.
  - injection H as <-. split; [intros u []|reflexivity].
  - destruct (incr_rp_gen d u g) as [d1|] eqn:E; [|discriminate].
    cbn [map fst] in ND. inversion ND as [|? ? Hni ND']; subst.
    apply incr_rp_gen_inv in E. destruct E as (l' & E & ->). apply cas_rp_l_spec in E.
    destruct E as (E1 & E2 & E3).
    destruct (IH _ _ ND' H) as [A B]. cbn [map fst]. split.
    + intros x [<-|Hx].
      * exists g. split; [rewrite gen_of_gl; assumption|].
        rewrite (B u Hni). rewrite gen_of_gl. cbn. assumption.
      * destruct (A x Hx) as (g' & G1 & G2). exists g'. split; [|assumption].
        rewrite gen_of_gl in G1. cbn in G1. rewrite E3 in G1; [rewrite gen_of_gl; assumption|].
        intros ->. contradiction.
    + intros x Hx. rewrite B by (intros Hi; apply Hx; right; assumption).
      rewrite !gen_of_gl. cbn. apply E3. intros ->. apply Hx. left. reflexivity.
Qed.

Lemma cas_conss_w_rps : forall l d d' o, cas_conss_w d l = (d', o) -> rps d' = rps d.
Proof.
  induction l as [|[u g] l IH]; intros d d' o H; cbn [cas_conss_w] in H.
  - injection H as <- _. reflexivity.
  - destruct (incr_cons_gen d u g) as [d1|] eqn:E.
    + apply incr_cons_gen_inv in E. destruct E as (l' & _ & ->). apply IH in H. exact H.
    + injection H as <- _. reflexivity.
Qed.

(* generations after a successful attempt *)
Lemma saw_ok_gens w l d' : set_allocations_w w l = (d', None) ->
  (forall u, In u (map q_rp l) -> exists g, gen_of w u = Some g /\ gen_of d' u = Some (g + 1)) /\
  (forall u, ~ In u (map q_rp l) -> gen_of d' u = gen_of w u).
Proof.
  unfold set_allocations_w. cbv zeta.
  destruct (check_capacity _ l) as [[]|]; [|discriminate].
  destruct (cas_rps_w _ _) as [d3 [e|]] eqn:E3; [discriminate|].
  destruct (cas_conss_w _ _) as [d4 [e|]] eqn:E4; [discriminate|].
  intros [= <-].
  apply cas_conss_w_rps in E4.
  destruct (first_by_keys_nd (map (fun a => (q_rp a, q_rpgen a)) l) []) as [ND HI].
  apply cas_rps_w_spec in E3; [|assumption]. destruct E3 as [A B].
  assert (K : forall u, In u (map fst (first_by [] (map (fun a => (q_rp a, q_rpgen a)) l))) <-> In u (map q_rp l)).
  { intros u. rewrite HI. rewrite map_map. cbn. tauto. }
  assert (G4 : forall u, gen_of (delete_consumers_if_no_allocations d4
              (filter (fun c => negb (memZ c (map q_cons (filter (fun a => 0 <? q_amt a) l)))) (dedup (map q_cons l)))) u
              = gen_of d3 u).
  { intros u. unfold gen_of, find_rp. cbn. rewrite E4. reflexivity. }
  split.
  - intros u Hu. apply K in Hu. destruct (A u Hu) as (g & G1 & G2). exists g. split; [exact G1|].
    rewrite G4. exact G2.
  - intros u Hu. rewrite G4. rewrite B; [reflexivity|]. intros Hi. apply Hu. apply K. exact Hi.
Qed.

(* ------------------------------------------------------------------ reshaper: interim / final inventories *)
Definition interim_gen (r : rinv_in) : Z := match ri_invs r with [] => ri_gen r | _ => ri_gen r + 1 end.

Lemma gens_le_refl d : gens_le d d.
Proof. intros u g H. exists g. split; [assumption|lia]. Qed.
Lemma gens_le_trans a b c : gens_le a b -> gens_le b c -> gens_le a c.
Proof.
  intros H1 H2 u g Hg. destruct (H1 u g Hg) as (g1 & E1 & L1). destruct (H2 u g1 E1) as (g2 & E2 & L2).
  exists g2. split; [assumption|lia].
Qed.

Lemma reshape_interim_gens : forall ri d dB gens, nodupb (map ri_rp ri) = true -> reshape_interim d ri = Ok (dB, gens) ->
  gens = map (fun r => (ri_rp r, interim_gen r)) ri /\
  (forall r, In r ri -> ri_invs r <> [] -> gen_of d (ri_rp r) = Some (ri_gen r) /\ gen_of dB (ri_rp r) = Some (ri_gen r + 1)) /\
  (forall r, In r ri -> ri_invs r = [] -> gen_of dB (ri_rp r) = gen_of d (ri_rp r)) /\
  (forall u, ~ In u (map ri_rp ri) -> gen_of dB u = gen_of d u) /\ gens_le d dB.
Proof.
  induction ri as [|r l IH]; intros d dB gens Hnd H; cbn [reshape_interim] in H.
  - injection H as <- <-. cbn [map In].
    split; [reflexivity|]. split; [intros ? []|]. split; [intros ? []|].
    split; [reflexivity|apply gens_le_refl].
  - cbn [map] in Hnd. apply nodupb_notin in Hnd. destruct Hnd as [Hni Hnd].
    assert (Hne : forall r', In r' l -> ri_rp r' <> ri_rp r).
    { intros r' Hr' E. apply Hni. rewrite <- E. apply in_map. exact Hr'. }
    destruct (ri_invs r) as [|x0 xs] eqn:Er; unfold bind in H.
    + destruct (reshape_interim d l) as [[d2 g2]|] eqn:E; [|discriminate]. injection H as <- <-. cbn [fst snd].
      destruct (IH _ _ _ Hnd E) as (G1 & G2 & G3 & G4 & G5).
      split; [cbn [map]; unfold interim_gen at 1; rewrite Er; f_equal; exact G1|].
      split; [|split; [|split]].
      * intros r' [<-|Hr'] Hne'; [congruence|]. apply G2; assumption.
      * intros r' [<-|Hr'] He; [apply G4; exact Hni|apply G3; assumption].
      * intros u Hu. apply G4. intros Hi. apply Hu. right. exact Hi.
      * exact G5.
    + rewrite <- Er in H.
      destruct (set_inventory d (ri_rp r) (ri_gen r) _) as [d1|] eqn:Es; [|discriminate].
      destruct (reshape_interim d1 l) as [[d2 g2]|] eqn:E; [|discriminate]. injection H as <- <-. cbn [fst snd].
      destruct (IH _ _ _ Hnd E) as (G1 & G2 & G3 & G4 & G5).
      apply set_inventory_bumped, bumped_spec in Es. destruct Es as (S1 & S2 & S3 & _).
      split; [cbn [map]; unfold interim_gen at 1; rewrite Er; f_equal; exact G1|].
      split; [|split; [|split]].
      * intros r' [<-|Hr'] Hne'.
        -- split; [exact S1|]. rewrite (G4 _ Hni). exact S2.
        -- destruct (G2 r' Hr' Hne') as [A B]. split; [|exact B]. rewrite <- S3; [exact A|apply Hne; exact Hr'].
      * intros r' [<-|Hr'] He; [congruence|]. rewrite (G3 r' Hr' He). apply S3. apply Hne. exact Hr'.
      * intros u Hu. rewrite G4 by (intros Hi; apply Hu; right; exact Hi).
        apply S3. intros ->. apply Hu. left. reflexivity.
      * eapply gens_le_trans; [|exact G5]. intros u g Hg.
        destruct (Z.eq_dec u (ri_rp r)) as [->|Hu].
        -- rewrite S1 in Hg. injection Hg as <-. exists (ri_gen r + 1). split; [exact S2|lia].
        -- exists g. split; [rewrite S3; assumption|lia].
Qed.

Lemma reshape_final_gens : forall ri gens d d', nodupb (map ri_rp ri) = true -> length gens = length ri ->
  reshape_final d ri gens = Ok d' -> Forall2 (fun r x => gen_of d (ri_rp r) = Some (snd x)) ri gens.
Proof.
  induction ri as [|r l IH]; intros gens d d' Hnd Hlen H.
  - destruct gens; [constructor|discriminate].
  - destruct gens as [|[u0 g] gens]; [discriminate|]. cbn [length] in Hlen. injection Hlen as Hlen.
    cbn [map] in Hnd. apply nodupb_notin in Hnd. destruct Hnd as [Hni Hnd].
    cbn [reshape_final] in H. unfold bind in H.
    destruct (set_inventory d (ri_rp r) g (ri_invs r)) as [d1|] eqn:Es; [|discriminate].
    apply set_inventory_bumped, bumped_spec in Es. destruct Es as (S1 & S2 & S3 & _).
    constructor; [exact S1|].
    eapply Forall2_impl_in; [exact (IH _ _ _ Hnd Hlen H)|].
    intros a b Ha Hab. cbn beta in *. rewrite <- S3; [exact Hab|].
    intros E. apply Hni. rewrite <- E. apply in_map. exact Ha.
Qed.

(* ------------------------------------------------------------------ objects and generations *)
Lemma fresh_q_rp w l : map q_rp (fresh w l) = map q_rp l.
Proof. unfold fresh. rewrite map_map. reflexivity. Qed.
Lemma regen_q_rp gens l : map q_rp (map (regen gens) l) = map q_rp l.
Proof. rewrite map_map. apply map_ext. intros a. apply regen_fields. Qed.

Lemma lookup_gen_interim : forall ri u,
  match lookup_gen (map (fun r => (ri_rp r, interim_gen r)) ri) u with
  | Some g => exists r, In r ri /\ ri_rp r = u /\ g = interim_gen r
  | None => ~ In u (map ri_rp ri)
  end.
Proof.
  unfold lookup_gen. induction ri as [|r l IH]; intros u; cbn [map find fst].
  - intros [].
  - destruct (ri_rp r =? u) eqn:E.
    + apply Z.eqb_eq in E. exists r. cbn. auto.
    + apply Z.eqb_neq in E. specialize (IH u).
      destruct (find _ _) as [x|].
      * destruct IH as (r' & A & B & C). exists r'. cbn [In]. auto.
      * cbn [In]. tauto.
Qed.

(* ------------------------------------------------------------------ the reshaper transaction on fresh objects *)
Section Fresh.
Hypothesis replace_all_first : forall c w l w',
  set_allocations_w w l = (w', None) -> replace_all retry_fuel c w l = Ok w'.
Hypothesis replace_all_fresh : forall fuel c w l d',
  gens_le c w -> replace_all fuel c w l = Ok d' -> set_allocations_w w (fresh w l) = (d', None).

Lemma reshape_txn_c_fresh_gen c d ri objs d' :
  rps d = rps c -> nodupb (map ri_rp ri) = true ->
  reshape_txn_c c d ri objs = Ok d' ->
  reshape_txn_c c d ri (fresh d objs) = Ok d' /\
  (forall r, In r ri -> gen_of d (ri_rp r) = Some (ri_gen r)) /\
  (forall u, In u (map q_rp objs) -> gen_of d u <> None).
Proof.
  intros Hrps Hnd H. unfold reshape_txn_c, bind in H.
  destruct (reshape_interim d ri) as [[dB gens]|] eqn:Ei; [|discriminate].
  fold (regen gens) in H.
  destruct (replace_all retry_fuel c dB (map (regen gens) objs)) as [d2|] eqn:Er; [|discriminate].
  destruct (reshape_interim_gens _ _ _ _ Hnd Ei) as (G1 & G2 & G3 & G4 & G5).
  (* (a) the successful attempt ran on the generations of dB *)
  assert (Hle : gens_le c dB).
  { intros u g Hg. apply G5. rewrite (gen_of_rps c d u Hrps). exact Hg. }
  pose proof (replace_all_fresh _ _ _ _ _ Hle Er) as Hs.
  destruct (saw_ok_gens _ _ _ Hs) as [S1 S2].
  rewrite fresh_q_rp, regen_q_rp in S1, S2. rewrite regen_q_rp in H.
  (* (b) the final inventories succeeded, so dB carried the interim generations *)
  assert (HB : forall r, In r ri -> gen_of dB (ri_rp r) = Some (interim_gen r)).
  { apply reshape_final_gens in H; [|exact Hnd|].
    2:{ rewrite map_length. rewrite G1. apply map_length. }
    rewrite G1, map_map in H. apply Forall2_map_r in H. rewrite Forall_forall in H.
    intros r Hr. specialize (H r Hr). cbn [fst snd] in H.
    destruct (memZ (ri_rp r) (map q_rp objs)) eqn:M.
    - apply memZ_In in M. destruct (S1 _ M) as (g & A & B). rewrite B in H. injection H as H.
      rewrite A. f_equal. lia.
    - apply memZ_false in M. rewrite (S2 _ M) in H. exact H. }
  assert (HRS : forall r, In r ri -> gen_of d (ri_rp r) = Some (ri_gen r)).
  { intros r Hr. destruct (ri_invs r) as [|x0 xs] eqn:Ev.
    - rewrite <- (G3 r Hr Ev), (HB r Hr). unfold interim_gen. rewrite Ev. reflexivity.
    - apply G2; [exact Hr|]. rewrite Ev. discriminate. }
  (* (c) regenerated fresh objects = fresh regenerated objects *)
  assert (HC : map (regen gens) (fresh d objs) = fresh dB (map (regen gens) objs)).
  { unfold fresh. rewrite !map_map. apply map_ext. intros a.
    unfold regen. cbn [q_rp q_cons q_cgen q_rc q_amt].
    pose proof (lookup_gen_interim ri (q_rp a)) as L. rewrite <- G1 in L.
    destruct (lookup_gen gens (q_rp a)) as [g|].
    - destruct L as (r & Hr & Eu & ->). cbn [q_rp q_cons q_cgen q_rc q_amt].
      rewrite <- Eu, (HB r Hr). reflexivity.
    - rewrite (G4 _ L). reflexivity. }
  split; [|split; [exact HRS|]].
  - unfold reshape_txn_c, bind. rewrite Ei. fold (regen gens).
    rewrite HC. rewrite (replace_all_first c dB _ d2 Hs).
    rewrite <- HC, regen_q_rp, fresh_q_rp. exact H.
  - intros u Hu. destruct (S1 u Hu) as (g & A & _).
    destruct (memZ u (map ri_rp ri)) eqn:M.
    + apply memZ_In in M. apply in_map_iff in M. destruct M as (r & <- & Hr). rewrite (HRS r Hr). discriminate.
    + apply memZ_false in M. rewrite <- (G4 u M), A. discriminate.
Qed.
End Fresh.

(* MAIN: instantiated with the retry-loop lemmas of Proofs/C07f.v *)
Lemma reshape_txn_c_fresh c d ri objs d' :
  rps d = rps c -> nodupb (map ri_rp ri) = true ->
  reshape_txn_c c d ri objs = Ok d' ->
  reshape_txn_c c d ri (fresh d objs) = Ok d' /\
  (forall r, In r ri -> gen_of d (ri_rp r) = Some (ri_gen r)) /\
  (forall u, In u (map q_rp objs) -> gen_of d u <> None).
Proof. apply (reshape_txn_c_fresh_gen replace_all_first replace_all_fresh). Qed.
