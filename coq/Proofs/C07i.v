(* C07 (C): stability relation between database states, effects of the write transactions. *)
From PV Require Import Proofs.ConcDefs Proofs.C07d Proofs.C12.
From PV Require Proofs.C10 Proofs.C08.

(* ================================================================ definitions *)
Definition crows (d : db) (c : Z) : list alloc := filter (fun a => a_cons a =? c) (allocs d).
Definition rp_dom (d : db) : list Z := map rp_uuid (rps d).
Definition rp_ex (d : db) (u : Z) : bool := match find_rp d u with Some _ => true | None => false end.
Definition ConsHas (d : db) : Prop :=
  forall row, In row (consumers d) -> exists a, In a (allocs d) /\ a_cons a = c_uuid row /\ rp_ex d (a_rp a) = true.

Definition Step (d d' : db) : Prop :=
  traits d' = traits d /\ rp_dom d' = rp_dom d /\
  (forall c row', find_cons d' c = Some row' ->
     exists row, find_cons d c = Some row /\ (c_gen row < c_gen row' \/ (row' = row /\ crows d' c = crows d c))) /\
  (ConsHas d -> ConsHas d').
Definition Deletes (d d' : db) (r : req) : Prop :=
  forall c, find_cons d c <> None -> find_cons d' c = None -> wipes r c.

Lemma Step_refl d : Step d d.
Proof.
  split; [reflexivity|]. split; [reflexivity|]. split; [|auto].
  intros c row' H. exists row'. split; [exact H|right; auto].
Qed.

Lemma Step_trans a b c : Step a b -> Step b c -> Step a c.
Proof.
  intros (T1 & D1 & C1 & H1) (T2 & D2 & C2 & H2). split; [congruence|]. split; [congruence|]. split; [|auto].
  intros x row2 F2. destruct (C2 x row2 F2) as (row1 & F1 & K2). destruct (C1 x row1 F1) as (row0 & F0 & K1).
  exists row0. split; [exact F0|].
  destruct K2 as [K2|[-> R2]]; destruct K1 as [K1|[-> R1]].
  - left; lia.
  - left; lia.
  - left; lia.
  - right. split; [reflexivity|congruence].
Qed.

Lemma rp_ex_dom d d' u : rp_dom d' = rp_dom d -> rp_ex d' u = rp_ex d u.
Proof.
  unfold rp_ex, rp_dom, find_rp. intros H.
  destruct (find_rp_l (rps d') u) as [r'|] eqn:E'; destruct (find_rp_l (rps d) u) as [r|] eqn:E; try reflexivity; exfalso.
  - assert (X : exists r, find_rp_l (rps d') u = Some r) by eauto. apply C08.find_rp_l_In in X. rewrite H in X.
    apply C08.find_rp_l_In in X. destruct X as [r X]. congruence.
  - assert (X : exists r, find_rp_l (rps d) u = Some r) by eauto. apply C08.find_rp_l_In in X. rewrite <- H in X.
    apply C08.find_rp_l_In in X. destruct X as [r' X]. congruence.
Qed.

(* a step that leaves allocations and consumers alone *)
Lemma Step_frame d d' : traits d' = traits d -> rp_dom d' = rp_dom d -> allocs d' = allocs d ->
  consumers d' = consumers d -> Step d d'.
Proof.
  intros T D A C. split; [exact T|]. split; [exact D|]. split.
  - intros c row' F. exists row'. unfold find_cons in *. rewrite C in F. split; [exact F|]. right.
    split; [reflexivity|]. unfold crows. rewrite A. reflexivity.
  - intros H row Hr. rewrite C in Hr. destruct (H row Hr) as (a & A1 & A2 & A3). exists a.
    rewrite A. split; [exact A1|]. split; [exact A2|]. rewrite (rp_ex_dom d d' _ D). exact A3.
Qed.

Lemma Deletes_frame d d' r : consumers d' = consumers d -> Deletes d d' r.
Proof. intros C c H1 H2. unfold find_cons in *. rewrite C in H2. contradiction. Qed.

Lemma core_eq_Step d d' : core_eq d d' -> Step d d'.
Proof. intros (R & I & A & C & _ & T & _). apply Step_frame; auto. unfold rp_dom. rewrite R. reflexivity. Qed.
Lemma core_eq_Deletes d d' r : core_eq d d' -> Deletes d d' r.
Proof. intros (R & I & A & C & _). apply Deletes_frame. auto. Qed.

(* ================================================================ provider writes: frames *)
Definition PF (d d' : db) : Prop :=
  traits d' = traits d /\ rp_dom d' = rp_dom d /\ allocs d' = allocs d /\ consumers d' = consumers d.
Lemma PF_refl d : PF d d. Proof. repeat split. Qed.
Lemma PF_trans a b c : PF a b -> PF b c -> PF a c.
Proof. intros (A1 & A2 & A3 & A4) (B1 & B2 & B3 & B4). repeat split; congruence. Qed.
Lemma PF_Step d d' : PF d d' -> Step d d'.
Proof. intros (A & B & C & D). apply Step_frame; auto. Qed.

Lemma incr_rp_gen_PF d u g d' : incr_rp_gen d u g = Ok d' -> PF d d'.
Proof.
  unfold incr_rp_gen. destruct (cas_rp_l (rps d) u g) as [l|] eqn:E; [|discriminate]. intros [= <-].
  repeat split. unfold rp_dom. cbn. eapply C08.cas_rp_l_keys; eauto.
Qed.
Lemma del_inv_PF d u l d' : delete_inventory_from_provider d u l = Ok d' -> PF d d'.
Proof. unfold delete_inventory_from_provider. destruct (existsb _ l); [discriminate|]. intros [= <-]. repeat split. Qed.
Lemma upd_inv_PF u : forall l d d', update_inventory_for_provider d u l = Ok d' -> PF d d'.
Proof.
  induction l as [|x l IH]; intros d d'; cbn [update_inventory_for_provider].
  - intros [= <-]. apply PF_refl.
  - destruct (find_inv d u (ii_rc x)); [|discriminate]. intros H. apply IH in H.
    eapply PF_trans; [|exact H]. repeat split.
Qed.
Lemma set_inventory_PF d u g l d' : set_inventory d u g l = Ok d' -> PF d d'.
Proof.
  unfold set_inventory, bind. destruct (negb _); [discriminate|].
  destruct (delete_inventory_from_provider d u _) as [d1|] eqn:E1; [|discriminate].
  destruct (update_inventory_for_provider _ u _) as [d3|] eqn:E3; [|discriminate]. intros H.
  eapply PF_trans; [eapply del_inv_PF; eauto|]. eapply PF_trans; [|eapply incr_rp_gen_PF; eauto].
  eapply PF_trans; [|eapply upd_inv_PF; eauto]. repeat split.
Qed.
Lemma add_inventory_PF d u g x d' : add_inventory d u g x = Ok d' -> PF d d'.
Proof.
  unfold add_inventory. destruct (negb _); [discriminate|]. destruct (find_inv d u (ii_rc x)); [discriminate|].
  intros H. eapply PF_trans; [|eapply incr_rp_gen_PF; eauto]. repeat split.
Qed.
Lemma update_inventory_PF d u g x d' : update_inventory d u g x = Ok d' -> PF d d'.
Proof.
  unfold update_inventory, bind. destruct (negb _); [discriminate|].
  destruct (update_inventory_for_provider d u [x]) as [d1|] eqn:E; [|discriminate].
  intros H. eapply PF_trans; [eapply upd_inv_PF; eauto|eapply incr_rp_gen_PF; eauto].
Qed.
Lemma delete_inventory_PF d u g rc d' : delete_inventory d u g rc = Ok d' -> PF d d'.
Proof.
  unfold delete_inventory, bind. destruct (negb _); [discriminate|].
  destruct (delete_inventory_from_provider d u [rc]) as [d1|] eqn:E; [|discriminate].
  destruct (find_inv d u rc); [|discriminate].
  intros H. eapply PF_trans; [eapply del_inv_PF; eauto|eapply incr_rp_gen_PF; eauto].
Qed.
Lemma set_traits_txn_PF d u g w d' : set_traits_txn d u g w = Ok d' -> PF d d'.
Proof.
  unfold set_traits_txn. intros H.
  repeat match type of H with context [match ?x with _ => _ end] => destruct x end;
    try (injection H as <-; apply PF_refl);
    (eapply PF_trans; [|eapply incr_rp_gen_PF; eauto]); repeat split.
Qed.
Lemma set_traits_c_PF d u g w d' : set_traits_c d u g w = Ok d' -> PF d d'.
Proof.
  unfold set_traits_c. intros H.
  repeat match type of H with context [match ?x with _ => _ end] => destruct x eqn:? end;
    try discriminate; try (injection H as <-; apply PF_refl); eapply set_traits_txn_PF; eauto.
Qed.
Lemma set_aggregates_txn_PF d u g w b d' : set_aggregates_txn d u g w b = Ok d' -> PF d d'.
Proof.
  unfold set_aggregates_txn. destruct b.
  - intros H. eapply PF_trans; [|eapply incr_rp_gen_PF; eauto]. repeat split.
  - intros [= <-]. repeat split.
Qed.

(* ================================================================ provider writes: classification *)
Definition gen_free (r : req) : bool := match r with AggsSet v _ _ _ => v <? 19 | _ => false end.

Lemma incr_rp_gen_gen d u g d' : incr_rp_gen d u g = Ok d' -> gen_of d u = Some g.
Proof.
  intros H. apply C10.incr_rp_gen_inv in H. destruct H as (l' & H & _).
  apply C10.cas_rp_l_spec in H. destruct H as (H & _). exact H.
Qed.

Lemma set_traits_c_gen d u g w d' : set_traits_c d u g w = Ok d' -> gen_of d u = Some g.
Proof.
  unfold set_traits_c, set_traits_txn. intros H.
  destruct (filter (fun t => negb (memZ t (traits_of d u))) w) as [|a ta];
    destruct (filter (fun t => negb (memZ t w)) (traits_of d u)) as [|b tb].
  - unfold gen_of. destruct (find_rp d u) as [r|]; [|discriminate].
    destruct (rp_gen r =? g) eqn:E; [|discriminate]. apply Z.eqb_eq in E. cbn. congruence.
  - apply incr_rp_gen_gen in H. exact H.
  - apply incr_rp_gen_gen in H. exact H.
  - apply incr_rp_gen_gen in H. exact H.
Qed.

Lemma bumped_gen u g d d' : C10.bumped u g d d' -> gen_of d u = Some g.
Proof. intros H. apply C10.bumped_spec in H. tauto. Qed.

Lemma prov_write_cases r g d d' rs u : prov_target r = Some u -> prov_write r g d = (d', rs) ->
  (d' = d /\ 400 <= status rs) \/
  (status rs < 300 /\ PF d d' /\ (gen_of d u = Some g \/ gen_free r = true)).
Proof.
  intros Ht H. destruct r; cbn [prov_target] in Ht; try discriminate; injection Ht as ->; cbn [prov_write] in H.
  - destruct (set_inventory d u g l) as [d1|e] eqn:E.
    + injection H as <- <-. right. split; [cbn; lia|]. split; [eapply set_inventory_PF; eauto|].
      left. eapply bumped_gen, C10.set_inventory_bumped; eauto.
    + left. destruct e; injection H as <- <-; (split; [reflexivity|cbn; lia]).
  - destruct (add_inventory d u g x) as [d1|e] eqn:E.
    + injection H as <- <-. right. split; [cbn; lia|]. split; [eapply add_inventory_PF; eauto|].
      left. eapply bumped_gen, C10.add_inventory_bumped; eauto.
    + left. destruct e; injection H as <- <-; (split; [reflexivity|cbn; lia]).
  - destruct (update_inventory d u g x) as [d1|e] eqn:E.
    + injection H as <- <-. right. split; [cbn; lia|]. split; [eapply update_inventory_PF; eauto|].
      left. eapply bumped_gen, C10.update_inventory_bumped; eauto.
    + left. destruct e; injection H as <- <-; (split; [reflexivity|cbn; lia]).
  - destruct (delete_inventory d u g rc) as [d1|e] eqn:E.
    + injection H as <- <-. right. split; [cbn; lia|]. split; [eapply delete_inventory_PF; eauto|].
      left. eapply bumped_gen, C10.delete_inventory_bumped; eauto.
    + left. destruct e; injection H as <- <-; (split; [reflexivity|cbn; lia]).
  - destruct (set_inventory d u g []) as [d1|e] eqn:E.
    + injection H as <- <-. right. split; [cbn; lia|]. split; [eapply set_inventory_PF; eauto|].
      left. eapply bumped_gen, C10.set_inventory_bumped; eauto.
    + left. destruct e; injection H as <- <-; (split; [reflexivity|cbn; lia]).
  - destruct (set_traits_c d u g ts) as [d1|e] eqn:E; injection H as <- <-.
    + right. split; [cbn; lia|]. split; [eapply set_traits_c_PF; eauto|]. left. eapply set_traits_c_gen; eauto.
    + left. split; [reflexivity|cbn; lia].
  - destruct (set_traits_c d u g []) as [d1|e] eqn:E; injection H as <- <-.
    + right. split; [cbn; lia|]. split; [eapply set_traits_c_PF; eauto|]. left. eapply set_traits_c_gen; eauto.
    + left. split; [reflexivity|cbn; lia].
  - destruct (set_aggregates_txn d u g (dedup l) (19 <=? v)) as [d1|e] eqn:E; injection H as <- <-.
    + right. split; [destruct (19 <=? v); cbn; lia|]. split; [eapply set_aggregates_txn_PF; eauto|].
      cbn [gen_free]. destruct (19 <=? v) eqn:V.
      * left. eapply bumped_gen, C10.set_aggregates_txn_bumped; eauto.
      * right. apply Z.leb_gt in V. apply Z.ltb_lt. exact V.
    + left. split; [reflexivity|cbn; lia].
Qed.

Lemma gen_free_write r g g' d : gen_free r = true -> prov_write r g d = prov_write r g' d.
Proof.
  destruct r; cbn [gen_free]; try discriminate. intros V. apply Z.ltb_lt in V.
  cbn [prov_write]. assert (E : (19 <=? v) = false) by (apply Z.leb_gt; exact V). rewrite E.
  unfold set_aggregates_txn. reflexivity.
Qed.
Lemma gen_free_precheck r me d : gen_free r = true -> prov_precheck r me d = None.
Proof.
  destruct r; cbn [gen_free]; try discriminate. intros V. apply Z.ltb_lt in V.
  cbn [prov_precheck]. assert (E : (19 <=? v) = false) by (apply Z.leb_gt; exact V). rewrite E. reflexivity.
Qed.

Lemma prov_precheck_gen r me me' d : rp_gen me = rp_gen me' -> prov_precheck r me d = prov_precheck r me' d.
Proof. intros E. destruct r; cbn [prov_precheck]; rewrite ?E; reflexivity. Qed.
Lemma prov_precheck_traits r me d d' : traits d' = traits d -> prov_precheck r me d' = prov_precheck r me d.
Proof.
  intros E. destruct r; cbn [prov_precheck]; try reflexivity.
  assert (X : forallb (trait_exists d') ts = forallb (trait_exists d) ts).
  { induction ts as [|t ts IH]; cbn [forallb]; [reflexivity|]. rewrite IH. unfold trait_exists. rewrite E. reflexivity. }
  rewrite X. reflexivity.
Qed.
Lemma prov_precheck_err r me d e : prov_precheck r me d = Some e -> 400 <= status e.
Proof.
  destruct r; cbn [prov_precheck]; try discriminate; intros H;
    repeat match type of H with context [if ?c then _ else _] => destruct c end;
    try discriminate; injection H as <-; cbn; lia.
Qed.

(* ================================================================ first_by *)
Lemma memZ_cons_false k u seen : memZ u seen = false -> u <> k -> memZ u (k :: seen) = false.
Proof.
  intros H N. unfold memZ in *. cbn [existsb]. rewrite H. apply orb_false_iff. split; [|reflexivity].
  apply Z.eqb_neq. exact N.
Qed.

Lemma first_by_spec : forall l seen,
  NoDup (map fst (first_by seen l)) /\
  (forall k g, In (k, g) (first_by seen l) -> memZ k seen = false /\ In (k, g) l) /\
  (forall k, In k (map fst l) -> memZ k seen = false -> In k (map fst (first_by seen l))).
Proof.
  induction l as [|[k g] l IH]; intros seen; cbn [first_by].
  - split; [constructor|]. split; [intros ? ? []|intros ? []].
  - destruct (memZ k seen) eqn:M.
    + destruct (IH seen) as (N & I & J). split; [exact N|]. split.
      * intros k0 g0 H. destruct (I k0 g0 H). split; [assumption|right; assumption].
      * intros k0 [<-|H] Hs; [cbn in Hs; congruence|apply J; assumption].
    + destruct (IH (k :: seen)) as (N & I & J). split; [|split].
      * cbn [map fst]. constructor; [|exact N]. intros H. apply in_map_iff in H. destruct H as [[k1 g1] [E H]].
        cbn in E. subst k1. destruct (I k g1 H) as [H1 _]. unfold memZ in H1. cbn [existsb] in H1.
        rewrite Z.eqb_refl in H1. discriminate.
      * intros k0 g0 [[= <- <-]|H]; [split; [exact M|left; reflexivity]|].
        destruct (I k0 g0 H) as [H1 H2]. split; [|right; exact H2].
        unfold memZ in *. cbn [existsb] in H1. apply orb_false_iff in H1. tauto.
      * intros k0 Hin Hs. cbn [map fst]. destruct (Z.eq_dec k k0) as [->|Hne]; [left; reflexivity|right].
        destruct Hin as [Hin|Hin]; [cbn in Hin; congruence|]. apply J; [exact Hin|].
        apply memZ_cons_false; [exact Hs|congruence].
Qed.

Lemma first_by_keys_iff l k : In k (map fst (first_by [] l)) <-> In k (map fst l).
Proof.
  destruct (first_by_spec l []) as (_ & I & J). split.
  - intros H. apply in_map_iff in H. destruct H as [[k1 g1] [E H]]. cbn in E. subst k1.
    destruct (I k g1 H) as [_ H2]. apply in_map_iff. exists (k, g1). auto.
  - intros H. apply J; [exact H|reflexivity].
Qed.

(* ================================================================ cas_rps_w / cas_conss_w *)
Lemma cas_rps_w_PF l : forall d d' oe, cas_rps_w d l = (d', oe) -> PF d d'.
Proof.
  induction l as [|[u g] l IH]; intros d d' oe; cbn [cas_rps_w].
  - intros [= <- _]. apply PF_refl.
  - destruct (incr_rp_gen d u g) as [d1|e] eqn:E.
    + intros H. eapply PF_trans; [eapply incr_rp_gen_PF; eauto|eapply IH; eauto].
    + intros [= <- _]. apply PF_refl.
Qed.

Lemma gen_of_rp_ex d u g : gen_of d u = Some g -> rp_ex d u = true.
Proof. unfold gen_of, rp_ex. destruct (find_rp d u); [reflexivity|discriminate]. Qed.

Lemma cas_rps_w_ok_ex l : forall d d', cas_rps_w d l = (d', None) -> forall u, In u (map fst l) -> rp_ex d u = true.
Proof.
  induction l as [|[u g] l IH]; intros d d'; cbn [cas_rps_w]; [intros _ ? []|].
  destruct (incr_rp_gen d u g) as [d1|e] eqn:E; [|discriminate].
  intros H x [<-|Hx].
  - cbn. eapply gen_of_rp_ex, incr_rp_gen_gen; eauto.
  - rewrite <- (rp_ex_dom d d1). 2:{ apply incr_rp_gen_PF in E. apply E. }
    eapply IH; eauto.
Qed.

Definition bump_row (row : consumer) : consumer :=
  mkCons (c_uuid row) (c_proj row) (c_user row) (c_type row) (c_gen row + 1).

Lemma cas_cons_l_rows : forall l u g l', cas_cons_l l u g = Some l' ->
  exists row, find_cons_l l u = Some row /\ c_gen row = g /\ find_cons_l l' u = Some (bump_row row) /\
              (forall x, x <> u -> find_cons_l l' x = find_cons_l l x) /\ map c_uuid l' = map c_uuid l.
Proof.
  induction l as [|r l IH]; intros u g l'; cbn [cas_cons_l]; [discriminate|].
  destruct (c_uuid r =? u) eqn:E.
  - destruct (c_gen r =? g) eqn:G; [|discriminate]. intros [= <-]. apply Z.eqb_eq in E, G.
    subst u g. exists r. cbn [find_cons_l c_uuid]. rewrite Z.eqb_refl. split; [reflexivity|]. split; [reflexivity|].
    split; [reflexivity|]. split; [|reflexivity].
    intros x Hx. assert (X : (c_uuid r =? x) = false) by (apply Z.eqb_neq; congruence). rewrite X. reflexivity.
  - destruct (cas_cons_l l u g) as [l''|] eqn:C; [|discriminate]. intros [= <-].
    destruct (IH _ _ _ C) as (row & F & G & F' & O & K). exists row. cbn [find_cons_l]. rewrite E.
    split; [exact F|]. split; [exact G|]. split; [exact F'|]. split; [|cbn; rewrite K; reflexivity].
    intros x Hx. destruct (c_uuid r =? x); [reflexivity|apply O; exact Hx].
Qed.

(* everything but the consumers table is untouched *)
Definition CF (d d' : db) : Prop :=
  rps d' = rps d /\ allocs d' = allocs d /\ traits d' = traits d /\ map c_uuid (consumers d') = map c_uuid (consumers d).

Lemma cas_conss_w_CF l : forall d d' oe, cas_conss_w d l = (d', oe) -> CF d d'.
Proof.
  induction l as [|[u g] l IH]; intros d d' oe; cbn [cas_conss_w].
  - intros [= <- _]. repeat split.
  - unfold incr_cons_gen. destruct (cas_cons_l (consumers d) u g) as [l'|] eqn:E.
    + intros H. apply IH in H. destruct H as (A & B & C & D). cbn in A, B, C, D.
      apply cas_cons_l_rows in E. destruct E as (_ & _ & _ & _ & _ & K). repeat split; congruence.
    + intros [= <- _]. repeat split.
Qed.

Lemma cas_conss_w_ok l : forall d d', cas_conss_w d l = (d', None) -> NoDup (map fst l) ->
  (forall c, ~ In c (map fst l) -> find_cons d' c = find_cons d c) /\
  (forall c g, In (c, g) l -> exists row, find_cons d c = Some row /\ c_gen row = g /\
                                           find_cons d' c = Some (bump_row row)).
Proof.
  induction l as [|[u g] l IH]; intros d d'; cbn [cas_conss_w].
  - intros [= <-] _. split; [reflexivity|intros ? ? []].
  - unfold incr_cons_gen. destruct (cas_cons_l (consumers d) u g) as [l'|] eqn:E; [|discriminate].
    intros H N. cbn [map fst] in N. inversion N as [|? ? N1 N2]; subst.
    destruct (IH _ _ H N2) as [O S]. apply cas_cons_l_rows in E. destruct E as (row & F & G & F' & O' & K).
    unfold find_cons in *. cbn [set_consumers consumers] in *. split.
    + intros c Hc. rewrite O by (intros X; apply Hc; right; exact X). apply O'. intros ->. apply Hc. left. reflexivity.
    + intros c g0 [[= <- <-]|Hin].
      * exists row. split; [exact F|]. split; [exact G|]. rewrite O by exact N1. exact F'.
      * destruct (S c g0 Hin) as (row0 & F0 & G0 & F0'). exists row0.
        assert (Hne : c <> u) by (intros ->; apply N1; apply in_map_iff; exists (u, g0); auto).
        rewrite O' in F0 by exact Hne. auto.
Qed.

(* ================================================================ a successful attempt *)
Definition new_rows (L : list areq) : list alloc :=
  map (fun a => mkAlloc (q_cons a) (q_rp a) (q_rc a) (q_amt a)) (filter (fun a => negb (q_amt a =? 0)) L).
Definition purged_rows (w : db) (L : list areq) : list alloc :=
  filter (fun a => negb (memZ (a_cons a) (map q_cons L))) (allocs w).
Definition pos_cons (L : list areq) : list Z := map q_cons (filter (fun a => 0 <? q_amt a) L).

Lemma saw_ok_spec w L d' : set_allocations_w w L = (d', None) ->
  traits d' = traits w /\ rp_dom d' = rp_dom w /\
  allocs d' = purged_rows w L ++ new_rows L /\
  (forall u, In u (map q_rp L) -> rp_ex w u = true) /\
  (forall c, ~ In c (map q_cons L) -> find_cons d' c = find_cons w c) /\
  (forall c, In c (map q_cons L) -> exists row g, find_cons w c = Some row /\ c_gen row = g /\ In (c, g) (map conskey L) /\
      (find_cons d' c = None \/ find_cons d' c = Some (bump_row row))) /\
  (forall c, find_cons w c <> None -> find_cons d' c = None -> In c (map q_cons L) /\ ~ In c (pos_cons L)) /\
  (forall row', In row' (consumers d') -> In (c_uuid row') (map c_uuid (consumers w)) /\
      (In (c_uuid row') (map q_cons L) -> exists a, In a (new_rows L) /\ a_cons a = c_uuid row')).
Proof.
  unfold set_allocations_w. fold (purged_rows w L) (new_rows L).
  destruct (check_capacity _ L) as [[]|e]; [|discriminate].
  match goal with |- context [cas_rps_w ?x ?y] => destruct (cas_rps_w x y) as [d3 o3] eqn:E1 end.
  destruct o3 as [e3|]; [discriminate|].
  match goal with |- context [cas_conss_w ?x ?y] => destruct (cas_conss_w x y) as [d4 o4] eqn:E2 end.
  destruct o4 as [e4|]; [discriminate|]. intros [= <-].
  pose proof (cas_rps_w_PF _ _ _ _ E1) as (T3 & D3 & A3 & C3). cbn [set_allocs traits allocs consumers] in T3, A3, C3.
  pose proof (cas_rps_w_ok_ex _ _ _ E1) as X3.
  pose proof (cas_conss_w_CF _ _ _ _ E2) as (R4 & A4 & T4 & K4).
  destruct (first_by_spec (map (fun a => (q_cons a, q_cgen a)) L) []) as (N & I & J).
  destruct (cas_conss_w_ok _ _ _ E2 N) as [O4 S4].
  assert (Hkeys : forall c, In c (map fst (first_by [] (map (fun a => (q_cons a, q_cgen a)) L))) <-> In c (map q_cons L)).
  { intros c. rewrite first_by_keys_iff, map_map. cbn [fst]. reflexivity. }
  assert (F3 : forall c, find_cons d3 c = find_cons w c) by (intros c; unfold find_cons; rewrite C3; reflexivity).
  set (tc := filter (fun c => negb (memZ c (map q_cons (filter (fun a => 0 <? q_amt a) L)))) (dedup (map q_cons L))) in *.
  set (keep := fun u => negb (memZ u tc && negb (existsb (fun a => a_cons a =? u) (allocs d4)))).
  assert (Fd : forall c, find_cons (delete_consumers_if_no_allocations d4 tc) c = if keep c then find_cons d4 c else None).
  { intros c. unfold find_cons, delete_consumers_if_no_allocations. cbn [set_consumers consumers].
    apply (find_cons_l_filter keep). }
  assert (Atot : allocs d4 = purged_rows w L ++ new_rows L) by (rewrite A4, A3; reflexivity).
  assert (Hnew : forall c, In c (map q_cons L) -> keep c = true -> exists a, In a (new_rows L) /\ a_cons a = c).
  { intros c Hc Hk. unfold keep in Hk. apply negb_true_iff in Hk. apply andb_false_iff in Hk.
    assert (Hex : exists a, In a (allocs d4) /\ a_cons a = c).
    { destruct Hk as [Hk|Hk].
      - apply memZ_nIn in Hk. unfold tc in Hk. rewrite filter_In in Hk.
        destruct (memZ c (map q_cons (filter (fun a => 0 <? q_amt a) L))) eqn:M.
        + apply memZ_In in M. apply in_map_iff in M. destruct M as [q [Eq Hq]]. apply filter_In in Hq.
          destruct Hq as [Hq Hpos]. apply Z.ltb_lt in Hpos. exists (mkAlloc (q_cons q) (q_rp q) (q_rc q) (q_amt q)).
          split; [|exact Eq]. rewrite Atot. apply in_or_app. right. unfold new_rows. apply in_map_iff.
          exists q. split; [reflexivity|]. apply filter_In. split; [exact Hq|]. apply negb_true_iff. apply Z.eqb_neq. lia.
        + exfalso. apply Hk. split; [apply dedup_In; exact Hc|reflexivity].
      - apply negb_false_iff in Hk. apply existsb_exists in Hk. destruct Hk as [a [Ha Ea]]. apply Z.eqb_eq in Ea. eauto. }
    destruct Hex as [a [Ha Ea]]. rewrite Atot in Ha. apply in_app_or in Ha. destruct Ha as [Ha|Ha]; [|eauto].
    exfalso. unfold purged_rows in Ha. apply filter_In in Ha. destruct Ha as [_ Ha]. apply negb_true_iff in Ha.
    apply memZ_nIn in Ha. apply Ha. rewrite Ea. exact Hc. }
  split; [cbn; congruence|]. split; [unfold rp_dom in *; cbn; rewrite R4; exact D3|].
  split; [cbn; exact Atot|].
  split.
  { intros u Hu. rewrite <- (rp_ex_dom w (set_allocs (set_allocs w (purged_rows w L)) (purged_rows w L ++ new_rows L))) by reflexivity.
    apply X3. apply first_by_keys_iff. rewrite map_map. cbn [fst]. exact Hu. }
  split.
  { intros c Hc. rewrite Fd. assert (Hk : keep c = true).
    { unfold keep. apply negb_true_iff. apply andb_false_iff. left. apply memZ_nIn. unfold tc. rewrite filter_In, dedup_In. tauto. }
    rewrite Hk, O4 by (rewrite Hkeys; exact Hc). apply F3. }
  split.
  { intros c Hc. assert (Hc' := Hc). rewrite <- Hkeys in Hc'. apply in_map_iff in Hc'. destruct Hc' as [[c0 g] [Ec Hin]].
    cbn in Ec. subst c0. destruct (S4 c g Hin) as (row & F & G & F'). exists row, g. rewrite <- F3.
    split; [exact F|]. split; [exact G|]. split; [apply (I c g Hin)|].
    rewrite Fd. destruct (keep c); [right; exact F'|left; reflexivity]. }
  split.
  { intros c Hw Hd. rewrite Fd in Hd. destruct (keep c) eqn:Hk.
    - exfalso. destruct (memZ c (map q_cons L)) eqn:M.
      + apply memZ_In in M. rewrite <- Hkeys in M. apply in_map_iff in M. destruct M as [[c0 g] [Ec Hin]]. cbn in Ec. subst c0.
        destruct (S4 c g Hin) as (row & _ & _ & F'). congruence.
      + apply memZ_nIn in M. rewrite O4, F3 in Hd by (rewrite Hkeys; exact M). contradiction.
    - unfold keep in Hk. apply negb_false_iff in Hk. apply andb_true_iff in Hk. destruct Hk as [Hk _].
      apply memZ_In in Hk. unfold tc in Hk. apply filter_In in Hk. destruct Hk as [Hk1 Hk2].
      apply (proj1 (dedup_In _ _)) in Hk1. apply negb_true_iff in Hk2. apply memZ_nIn in Hk2. split; assumption. }
  { intros row' Hr. unfold delete_consumers_if_no_allocations in Hr. cbn [set_consumers consumers] in Hr.
    apply filter_In in Hr. destruct Hr as [Hr Hk]. split.
    - rewrite <- C3. cbn. rewrite <- K4. apply in_map. exact Hr.
    - intros Hc. apply Hnew; [exact Hc|exact Hk]. }
Qed.

(* ================================================================ update_consumer: what it keeps *)
Lemma update_consumer_keeps d k :
  rps (update_consumer d k) = rps d /\ allocs (update_consumer d k) = allocs d /\ traits (update_consumer d k) = traits d /\
  invs (update_consumer d k) = invs d.
Proof. unfold update_consumer. destruct (_ || _); repeat split. Qed.
Lemma fold_update_keeps ks : forall d,
  rps (fold_left update_consumer ks d) = rps d /\ allocs (fold_left update_consumer ks d) = allocs d /\
  traits (fold_left update_consumer ks d) = traits d /\ invs (fold_left update_consumer ks d) = invs d.
Proof.
  induction ks as [|k ks IH]; intros d; cbn [fold_left]; [repeat split|].
  destruct (IH (update_consumer d k)) as (A & B & C & D). destruct (update_consumer_keeps d k) as (A' & B' & C' & D').
  repeat split; congruence.
Qed.

(* working state w of a main transaction started in d with the consumer objects ks *)
Definition WS (ks : list cobj) (d w : db) : Prop :=
  traits w = traits d /\ rp_dom w = rp_dom d /\ allocs w = allocs d /\
  map c_uuid (consumers w) = map c_uuid (consumers d) /\
  (forall c, C10.cgl (consumers w) c = C10.cgl (consumers d) c) /\
  (forall c, ~ In c (map co_uuid ks) -> find_cons w c = find_cons d c).

Lemma WS_update ks d : WS ks d (fold_left update_consumer ks d).
Proof.
  destruct (fold_update_keeps ks d) as (A & B & C & D). destruct (fold_update_basic ks d) as (_ & _ & K).
  destruct (C10.fold_update_spec ks d) as [_ G].
  split; [exact C|]. split; [unfold rp_dom; rewrite A; reflexivity|]. split; [exact B|]. split; [exact K|].
  split; [exact G|]. intros c Hc. apply fold_update_find_other. exact Hc.
Qed.

Lemma WS_PF ks d w w' : WS ks d w -> PF w w' -> WS ks d w'.
Proof.
  intros (A & B & C & D & E & F) (A' & B' & C' & D').
  split; [congruence|]. split; [congruence|]. split; [congruence|]. split; [congruence|].
  split; [intros c; rewrite D'; apply E|]. intros c Hc. unfold find_cons. rewrite D'. apply F. exact Hc.
Qed.

Lemma cgl_find d c : C10.cgl (consumers d) c = option_map c_gen (find_cons d c).
Proof. reflexivity. Qed.

Lemma crows_app_other (l1 l2 : list alloc) c :
  (forall a, In a l2 -> a_cons a <> c) ->
  filter (fun a => a_cons a =? c) (l1 ++ l2) = filter (fun a => a_cons a =? c) l1.
Proof.
  intros H. rewrite filter_app. rewrite (filter_none _ l2); [apply app_nil_r|].
  intros a Ha. apply Z.eqb_neq. apply H. exact Ha.
Qed.

Lemma filter_filter_keep (p q : alloc -> bool) l :
  (forall a, p a = true -> q a = true) -> filter p (filter q l) = filter p l.
Proof.
  intros H. induction l as [|a l IH]; cbn [filter]; [reflexivity|].
  destruct (q a) eqn:Q; cbn [filter].
  - destruct (p a); [f_equal|]; exact IH.
  - destruct (p a) eqn:P; [rewrite (H a P) in Q; discriminate|exact IH].
Qed.

Lemma new_rows_in L a : In a (new_rows L) -> In (a_cons a) (map q_cons L) /\ In (a_rp a) (map q_rp L).
Proof.
  unfold new_rows. intros H. apply in_map_iff in H. destruct H as [q [<- Hq]]. apply filter_In in Hq.
  destruct Hq as [Hq _]. cbn. split; apply in_map; exact Hq.
Qed.

(* the effect of the successful allocation replacement of a main transaction *)
Lemma alloc_step ks d w L d' :
  WS ks d w -> set_allocations_w w L = (d', None) ->
  (forall k, In k ks -> In (co_uuid k) (map q_cons L)) ->
  Step d d' /\
  (forall c, find_cons d c <> None -> find_cons d' c = None -> In c (map q_cons L) /\ ~ In c (pos_cons L)) /\
  (forall c, In c (map q_cons L) -> exists row g, find_cons d c = Some row /\ c_gen row = g /\ In (c, g) (map conskey L)) /\
  (forall u, In u (map q_rp L) -> rp_ex d u = true).
Proof.
  intros (T & D & A & K & G & O) Hs H1.
  destruct (saw_ok_spec _ _ _ Hs) as (T' & D' & A' & X' & O' & S' & Del' & R').
  assert (Hother : forall c, ~ In c (map q_cons L) -> find_cons d' c = find_cons d c).
  { intros c Hc. rewrite O' by exact Hc. apply O. intros Hk. apply Hc. apply in_map_iff in Hk.
    destruct Hk as [k [<- Hk]]. apply H1. exact Hk. }
  split; [|split; [|split]].
  - split; [congruence|]. split; [congruence|]. split.
    + intros c row' F. destruct (memZ c (map q_cons L)) eqn:M.
      * apply memZ_In in M. destruct (S' c M) as (row1 & g & F1 & G1 & _ & [F'|F']); [congruence|].
        rewrite F' in F. injection F as <-. pose proof (G c) as Gc. rewrite !cgl_find, F1 in Gc. cbn in Gc.
        destruct (find_cons d c) as [row|]; [|discriminate]. cbn in Gc. injection Gc as Gc.
        exists row. split; [reflexivity|]. left. cbn. lia.
      * apply memZ_nIn in M. rewrite Hother in F by exact M. exists row'. split; [exact F|]. right.
        split; [reflexivity|]. unfold crows. rewrite A', <- A. rewrite crows_app_other.
        -- unfold purged_rows. apply filter_filter_keep. intros a Ha. apply Z.eqb_eq in Ha.
           apply negb_true_iff. apply memZ_nIn. rewrite Ha. exact M.
        -- intros a Ha Ea. apply new_rows_in in Ha. rewrite Ea in Ha. tauto.
    + intros HC row' Hr. destruct (R' row' Hr) as [Hu Hn].
      destruct (memZ (c_uuid row') (map q_cons L)) eqn:M.
      * apply memZ_In in M. destruct (Hn M) as (a & Ha & Ea). exists a. rewrite A'.
        split; [apply in_or_app; right; exact Ha|]. split; [exact Ea|].
        rewrite (rp_ex_dom w d') by exact D'. apply X'. apply new_rows_in in Ha. tauto.
      * apply memZ_nIn in M. rewrite K in Hu. apply in_map_iff in Hu. destruct Hu as [row [Eu Hrow]].
        destruct (HC row Hrow) as (a & Ha & Ea & Xa). exists a. rewrite A'. split.
        -- apply in_or_app. left. unfold purged_rows. rewrite A. apply filter_In. split; [exact Ha|].
           apply negb_true_iff. apply memZ_nIn. rewrite Ea, Eu. exact M.
        -- split; [congruence|]. rewrite (rp_ex_dom d d'); [exact Xa|congruence].
  - intros c Hd Hd'. apply Del'; [|exact Hd']. intros Hw. pose proof (G c) as Gc. rewrite !cgl_find, Hw in Gc.
    destruct (find_cons d c); [discriminate|contradiction].
  - intros c Hc. destruct (S' c Hc) as (row1 & g & F1 & G1 & I1 & _).
    pose proof (G c) as Gc. rewrite !cgl_find, F1 in Gc. destruct (find_cons d c) as [row|]; [|discriminate].
    cbn in Gc. injection Gc as Gc. exists row, g. split; [reflexivity|]. split; [congruence|exact I1].
  - intros u Hu. rewrite (rp_ex_dom w d) by (symmetry; exact D). apply X'. exact Hu.
Qed.
