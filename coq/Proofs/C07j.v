(* C07 (C): per-thread invariants, their stability, and the effect of every non-committing step. *)
From PV Require Import Proofs.ConcDefs Proofs.C07d Proofs.C12 Proofs.C07i.
From PV Require Proofs.C10 Proofs.C01 Proofs.C07e Proofs.C07f Proofs.C07g.

(* ================================================================ request contexts *)
Definition req_ctx (cf : cfg) (r : req) : option actx :=
  match r with
  | AllocPut v c => Some (mkActx cf v KPut [] [c])
  | AllocPost v l => if v <? 13 then None else Some (mkActx cf v KPost [] l)
  | Reshape v ri al => if v <? 30 then None else Some (mkActx cf v KReshape ri al)
  | _ => None
  end.
Definition start_of (x : actx) : tstate :=
  match x_kind x with KReshape => TRi x (x_ri x) | _ => TCons x (x_all x) [] end.

Lemma tinit_ctx cf r x : req_ctx cf r = Some x -> tinit cf r = start_of x /\ req_consumers r = x_all x /\ x_cf x = cf.
Proof.
  destruct r; cbn [req_ctx]; try discriminate.
  - intros [= <-]. auto.
  - cbn [tinit]. destruct (v <? 13); [discriminate|]. intros [= <-]. auto.
  - cbn [tinit]. destruct (v <? 30); [discriminate|]. intros [= <-]. auto.
Qed.

Definition ctx_wf (x : actx) : Prop :=
  28 <= x_v x /\ cons_list_wf (x_all x) = true /\ (forall c, In c (x_all x) -> ci_gen c <> None) /\
  nodupb (map ri_rp (x_ri x)) = true.

Lemma req_ctx_wf cf r x : in_scope r -> req_wf r = true ->
  (forall k, In k (req_consumers r) -> ci_gen k <> None) -> req_ctx cf r = Some x -> ctx_wf x.
Proof.
  intros Hs Hw Hg. destruct r; cbn [req_ctx]; try discriminate; cbn [in_scope req_wf req_consumers] in *.
  - intros [= <-]. unfold ctx_wf. cbn. split; [exact Hs|]. split; [apply cons_list_wf_single; exact Hw|]. split; [exact Hg|reflexivity].
  - destruct (v <? 13); [discriminate|]. intros [= <-]. unfold ctx_wf. cbn. auto.
  - destruct (v <? 30); [discriminate|]. intros [= <-]. unfold ctx_wf. cbn.
    apply andb_true_iff in Hw. destruct Hw as [Hw Hal]. apply andb_true_iff in Hw. destruct Hw as [_ Hnd]. auto.
Qed.

(* ================================================================ consumer objects *)
Definition krow (k : cobj) : consumer := mkCons (co_uuid k) (co_proj k) (co_user k) (co_type k) (co_gen k).
Definition cobj_inv (d : db) (k : cobj) : Prop :=
  forall row, find_cons d (co_uuid k) = Some row -> co_gen k < c_gen row \/ row = krow k.
Definition cobj_ok (x : actx) (d : db) (k : cobj) (c : cons_in) : Prop :=
  In c (x_all x) /\ co_uuid k = ci_uuid c /\ ci_gen c = Some (co_gen k) /\ co_created k = false /\
  (rq_proj k, rq_user k, rq_type k) = rq_attrs (x_cf x) (x_v x) c /\
  cobj_inv d k /\ (ci_allocs c = [] -> find_cons d (ci_uuid c) <> None).

Lemma cobj_inv_Step d d' k : Step d d' -> cobj_inv d k -> cobj_inv d' k.
Proof.
  intros (_ & _ & S & _) H row' F. destruct (S _ _ F) as (row & F0 & K). specialize (H row F0).
  destruct K as [K|[-> _]]; [|exact H]. left. destruct H as [H| ->]; [lia|exact K].
Qed.

Lemma cobj_ok_Step x d d' k c : Step d d' ->
  (forall c0, In c0 (x_all x) -> ci_allocs c0 = [] -> find_cons d (ci_uuid c0) <> None -> find_cons d' (ci_uuid c0) <> None) ->
  cobj_ok x d k c -> cobj_ok x d' k c.
Proof.
  intros S ND (A & B & C & D & E & F & G).
  split; [exact A|]. split; [exact B|]. split; [exact C|]. split; [exact D|]. split; [exact E|]. split.
  - eapply cobj_inv_Step; eauto.
  - intros H. apply ND; auto.
Qed.

(* ================================================================ allocation objects *)
Definition wstrip (d : db) (k : cobj) : list (Z * Z * Z * Z * Z) :=
  map (fun a => (co_uuid k, co_gen k, a_rp a, a_rc a, 0))
      (filter (fun a => rp_ex d (a_rp a)) (crows d (co_uuid k))).
Definition part_ok (d : db) (w : witem) (p : list areq) : Prop :=
  match w with
  | WRp k a => exists g, p = map (fun y => mkAreq (co_uuid k) (co_gen k) (ai_rp a) g (fst y) (snd y)) (ai_res a)
  | WWipe k => p <> [] /\ Forall (fun q => q_cons q = co_uuid k /\ q_cgen q = co_gen k /\ q_amt q = 0) p /\
               (forall row, find_cons d (co_uuid k) = Some row -> c_gen row = co_gen k -> map strip p = wstrip d k)
  end.
Definition parts_ok (d : db) (ws : list witem) (objs : list areq) : Prop :=
  exists parts, objs = concat parts /\ Forall2 (part_ok d) ws parts.

Lemma wstrip_Step d d' k : rp_dom d' = rp_dom d -> crows d' (co_uuid k) = crows d (co_uuid k) -> wstrip d' k = wstrip d k.
Proof.
  intros D C. unfold wstrip. rewrite C. f_equal. apply filter_ext. intros a. apply rp_ex_dom. exact D.
Qed.

Lemma part_ok_Step d d' w p : Step d d' -> (forall k, w = WWipe k -> cobj_inv d k) -> part_ok d w p -> part_ok d' w p.
Proof.
  intros S HI. destruct w as [k|k a]; cbn [part_ok]; [|auto].
  intros (N & F & W). split; [exact N|]. split; [exact F|].
  intros row' F' G'. destruct S as (_ & D & S & _). destruct (S _ _ F') as (row & F0 & K).
  destruct K as [K|[-> C]].
  - exfalso. destruct (HI k eq_refl row F0) as [H| ->]; [lia|]. cbn in K. lia.
  - rewrite (wstrip_Step d d' k D C). apply (W row F0 G').
Qed.

Lemma parts_ok_Step d d' ws objs : Step d d' -> (forall k, In (WWipe k) ws -> cobj_inv d k) ->
  parts_ok d ws objs -> parts_ok d' ws objs.
Proof.
  intros S HI (parts & E & F). exists parts. split; [exact E|]. clear E.
  induction F as [|w p ws parts Hp F IH]; constructor.
  - eapply part_ok_Step; eauto. intros k ->. apply HI. left. reflexivity.
  - apply IH. intros k Hk. apply HI. right. exact Hk.
Qed.

(* ================================================================ work items *)
Lemma work_items_in : forall ks l w, In w (work_items ks l) ->
  exists k c, In (k, c) (combine ks l) /\
    match w with WWipe k' => k' = k /\ ci_allocs c = [] | WRp k' a => k' = k /\ In a (ci_allocs c) end.
Proof.
  induction ks as [|k ks IH]; intros l w H; cbn [work_items] in H; [destruct H|].
  destruct l as [|c l]; [destruct H|].
  assert (Htl : In w (work_items ks l) -> exists k0 c0, In (k0, c0) (combine (k :: ks) (c :: l)) /\
     match w with WWipe k' => k' = k0 /\ ci_allocs c0 = [] | WRp k' a => k' = k0 /\ In a (ci_allocs c0) end).
  { intros H'. destruct (IH l w H') as (k0 & c0 & I & M). exists k0, c0. split; [right; exact I|exact M]. }
  destruct (ci_allocs c) as [|a al] eqn:Ea.
  - destruct H as [<-|H]; [|auto]. exists k, c. split; [left; reflexivity|auto].
  - apply in_app_or in H. destruct H as [H|H]; [|auto].
    apply in_map_iff in H. destruct H as [a1 [<- H]]. exists k, c. split; [left; reflexivity|]. rewrite Ea. auto.
Qed.

Lemma work_items_of : forall ks l k c, In (k, c) (combine ks l) ->
  (ci_allocs c = [] -> In (WWipe k) (work_items ks l)) /\
  (forall a, In a (ci_allocs c) -> In (WRp k a) (work_items ks l)).
Proof.
  induction ks as [|k0 ks IH]; intros l k c H; [destruct H|]. destruct l as [|c0 l]; [destruct H|].
  cbn [combine] in H. cbn [work_items]. destruct H as [[= <- <-]|H].
  - destruct (ci_allocs c0) as [|a al] eqn:Ea.
    + split; [intros _; left; reflexivity|intros a []].
    + split; [discriminate|]. intros a1 H1. apply in_or_app. left. apply in_map. exact H1.
  - destruct (IH l k c H) as [I1 I2]. destruct (ci_allocs c0) as [|a al].
    + split; [intros E; right; auto|intros a Ha; right; auto].
    + split; [intros E; apply in_or_app; right; auto|intros a1 Ha; apply in_or_app; right; auto].
Qed.

Lemma Forall2_combine {A B} (P : A -> B -> Prop) l l' : Forall2 P l l' ->
  length l = length l' /\ forall a b, In (a, b) (combine l l') -> P a b.
Proof.
  induction 1 as [|a b l l' H F [IH1 IH2]]; [split; [reflexivity|intros ? ? []]|].
  split; [cbn; congruence|]. intros a0 b0 [[= <- <-]|H0]; auto.
Qed.

Lemma Forall2_in_l {A B} (P : A -> B -> Prop) l l' a : Forall2 P l l' -> In a l -> exists b, In b l' /\ P a b.
Proof.
  induction 1 as [|a0 b0 l l' H F IH]; [intros []|]. intros [<-|Hin].
  - exists b0. split; [left; reflexivity|exact H].
  - destruct (IH Hin) as (b & Hb & Pb). exists b. split; [right; exact Hb|exact Pb].
Qed.

Lemma in_concat_part {A} (p : list A) parts q : In p parts -> In q p -> In q (concat parts).
Proof. intros Hp Hq. apply in_concat. exists p. auto. Qed.

(* facts about the objects of a complete set of parts *)
Lemma wf_alloc_in x c a : ctx_wf x -> In c (x_all x) -> In a (ci_allocs c) -> alloc_in_wf a = true.
Proof.
  intros (_ & W & _) Hc Ha. unfold cons_list_wf in W. apply andb_true_iff in W. destruct W as [W _].
  rewrite forallb_forall in W. apply W in Hc. unfold cons_in_wf in Hc. apply andb_true_iff in Hc. destruct Hc as [Hc _].
  rewrite forallb_forall in Hc. apply Hc. exact Ha.
Qed.

Lemma alloc_in_wf_facts a : alloc_in_wf a = true -> ai_res a <> [] /\ forall y, In y (ai_res a) -> 1 <= snd y.
Proof.
  unfold alloc_in_wf. intros H. apply andb_true_iff in H. destruct H as [H N]. apply andb_true_iff in H. destruct H as [H _].
  split; [destruct (ai_res a); [discriminate|discriminate]|].
  intros y Hy. rewrite forallb_forall in H. apply H in Hy. apply Z.leb_le. exact Hy.
Qed.

Section Objs.
Variables (x : actx) (d : db) (ks : list cobj) (objs : list areq).
Hypothesis Hwf : ctx_wf x.
Hypothesis Hks : Forall2 (cobj_ok x d) ks (x_all x).
Hypothesis Hparts : parts_ok d (work_items ks (x_all x)) objs.

Lemma objs_named k : In k ks -> In (co_uuid k) (map q_cons objs).
Proof.
  intros Hk. destruct (Forall2_combine _ _ _ Hks) as [Hlen Hcomb].
  destruct (in_combine_ex_l ks (x_all x) k Hlen Hk) as [c Hc]. pose proof (Hcomb _ _ Hc) as (Hin & _).
  destruct (work_items_of _ _ _ _ Hc) as [W1 W2].
  destruct Hparts as (parts & -> & F).
  destruct (ci_allocs c) as [|a al] eqn:Ea.
  - destruct (Forall2_in_l _ _ _ _ F (W1 eq_refl)) as (p & Hp & (N & Fa & _)).
    destruct p as [|q p]; [congruence|]. inversion Fa as [|? ? (Q1 & _) _]; subst.
    apply in_map_iff. exists q. split; [exact Q1|]. eapply in_concat_part; [exact Hp|left; reflexivity].
  - destruct (Forall2_in_l _ _ _ _ F (W2 a (or_introl eq_refl))) as (p & Hp & (g & ->)).
    assert (Ha : In a (ci_allocs c)) by (rewrite Ea; left; reflexivity).
    destruct (alloc_in_wf_facts a (wf_alloc_in x c a Hwf Hin Ha)) as [Hne _].
    destruct (ai_res a) as [|y ys] eqn:Er; [congruence|].
    apply in_map_iff. eexists. split; [|eapply in_concat_part; [exact Hp|left; reflexivity]]. reflexivity.
Qed.

(* every object belongs to one of the request's consumers; objects of a consumer without positive amounts
   come from a wipe *)
Lemma objs_origin q : In q objs ->
  exists k c, In (k, c) (combine ks (x_all x)) /\ q_cons q = co_uuid k /\ q_cgen q = co_gen k /\ 0 <= q_amt q /\
              (ci_allocs c <> [] -> 0 < q_amt q).
Proof.
  intros Hq. destruct (Forall2_combine _ _ _ Hks) as [Hlen Hcomb]. destruct Hparts as (parts & -> & F).
  apply in_concat in Hq. destruct Hq as (p & Hp & Hq).
  assert (Hw : exists w, In w (work_items ks (x_all x)) /\ part_ok d w p).
  { clear - F Hp. induction F as [|w p0 ws parts H F IH]; [destruct Hp|]. destruct Hp as [->|Hp].
    - exists w. split; [left; reflexivity|exact H].
    - destruct (IH Hp) as (w0 & I & P). exists w0. split; [right; exact I|exact P]. }
  destruct Hw as (w & Hw & Pw). destruct (work_items_in _ _ _ Hw) as (k & c & Hc & M). exists k, c. split; [exact Hc|].
  destruct w as [k'|k' a].
  - destruct M as [-> Ea]. destruct Pw as (_ & Fa & _). rewrite Forall_forall in Fa. destruct (Fa q Hq) as (Q1 & Q2 & Q3).
    split; [exact Q1|]. split; [exact Q2|]. split; [lia|]. congruence.
  - destruct M as [-> Ha]. destruct Pw as (g & ->). apply in_map_iff in Hq. destruct Hq as (y & <- & Hy). cbn.
    pose proof (Hcomb _ _ Hc) as (Hin & _).
    destruct (alloc_in_wf_facts a (wf_alloc_in x c a Hwf Hin Ha)) as [_ Hpos]. specialize (Hpos y Hy).
    split; [reflexivity|]. split; [reflexivity|]. split; [lia|]. intros _. lia.
Qed.

Lemma objs_unpos_wipes c0 : In c0 (map q_cons objs) -> ~ In c0 (pos_cons objs) ->
  exists c, In c (x_all x) /\ ci_uuid c = c0 /\ ci_allocs c = [].
Proof.
  intros Hin Hnp. apply in_map_iff in Hin. destruct Hin as (q & <- & Hq).
  destruct (objs_origin q Hq) as (k & c & Hc & Q1 & _ & _ & Qp).
  destruct (Forall2_combine _ _ _ Hks) as [_ Hcomb]. pose proof (Hcomb _ _ Hc) as (Hin & Hu & _).
  exists c. split; [exact Hin|]. split; [congruence|].
  destruct (ci_allocs c) as [|a al] eqn:Ea; [reflexivity|]. exfalso. apply Hnp.
  unfold pos_cons. apply in_map_iff. exists q. split; [reflexivity|]. apply filter_In. split; [exact Hq|].
  apply Z.ltb_lt. apply Qp. discriminate.
Qed.
End Objs.

(* ================================================================ the thread invariant *)
Definition TI (cf : cfg) (r : req) (d : db) (t : tstate) : Prop :=
  match t with
  | TDone _ => True
  | TProvRead r' => r' = r /\ tinit cf r = TProvRead r
  | TProvWrite r' g => r' = r /\ tinit cf r = TProvRead r /\
      exists u, prov_target r = Some u /\ rp_ex d u = true /\ forall me, rp_gen me = g -> prov_precheck r me d = None
  | TRi x todo => req_ctx cf r = Some x /\ ctx_wf x
  | TCons x todo acc => req_ctx cf r = Some x /\ ctx_wf x /\
      exists done, x_all x = done ++ todo /\ Forall2 (cobj_ok x d) (rev acc) done
  | TObjs x ks todo objs => req_ctx cf r = Some x /\ ctx_wf x /\ Forall2 (cobj_ok x d) ks (x_all x) /\ todo <> [] /\
      exists wdone, work_items ks (x_all x) = wdone ++ todo /\ parts_ok d wdone objs
  | TMain x ks objs => req_ctx cf r = Some x /\ ctx_wf x /\ Forall2 (cobj_ok x d) ks (x_all x) /\
      parts_ok d (work_items ks (x_all x)) objs
  | _ => False
  end.

Lemma Forall2_impl {A B} (P Q : A -> B -> Prop) l l' : (forall a b, P a b -> Q a b) -> Forall2 P l l' -> Forall2 Q l l'.
Proof. intros H. induction 1; constructor; auto. Qed.

Lemma wipe_cobj_inv x d ks ws k : Forall2 (cobj_ok x d) ks (x_all x) ->
  (forall w, In w ws -> In w (work_items ks (x_all x))) -> In (WWipe k) ws -> cobj_inv d k.
Proof.
  intros Hks Hsub Hk. destruct (work_items_in _ _ _ (Hsub _ Hk)) as (k0 & c & Hc & [-> _]).
  destruct (Forall2_combine _ _ _ Hks) as [_ Hcomb]. apply (Hcomb _ _ Hc).
Qed.

Lemma TI_Step cf r d d' t : Step d d' ->
  (forall c, wipes r c -> find_cons d c <> None -> find_cons d' c <> None) ->
  TI cf r d t -> TI cf r d' t.
Proof.
  intros S ND. destruct t; cbn [TI]; auto.
  - intros (E & I & u & Hu & X & P). split; [exact E|]. split; [exact I|]. exists u. split; [exact Hu|].
    destruct S as (T & D & _). split; [rewrite (rp_ex_dom d d' u D); exact X|].
    intros me Hme. rewrite (prov_precheck_traits r me d d' T). apply P. exact Hme.
  - intros (Hc & Hw & done & E & F). split; [exact Hc|]. split; [exact Hw|]. exists done. split; [exact E|].
    eapply Forall2_impl; [|exact F]. intros k c. apply cobj_ok_Step; [exact S|].
    intros c0 Hin Ha. apply ND. exists c0. destruct (tinit_ctx _ _ _ Hc) as (_ & -> & _). auto.
  - intros (Hc & Hw & F & N & wdone & E & P). split; [exact Hc|]. split; [exact Hw|].
    assert (ND' : forall c0, In c0 (x_all x) -> ci_allocs c0 = [] -> find_cons d (ci_uuid c0) <> None -> find_cons d' (ci_uuid c0) <> None).
    { intros c0 Hin Ha. apply ND. exists c0. destruct (tinit_ctx _ _ _ Hc) as (_ & -> & _). auto. }
    split; [eapply Forall2_impl; [|exact F]; intros k c; apply cobj_ok_Step; assumption|]. split; [exact N|].
    exists wdone. split; [exact E|]. eapply parts_ok_Step; [exact S| |exact P].
    intros k Hk. eapply (wipe_cobj_inv x d ks wdone); eauto. intros w Hw'. rewrite E. apply in_or_app. left. exact Hw'.
  - intros (Hc & Hw & F & P). split; [exact Hc|]. split; [exact Hw|].
    assert (ND' : forall c0, In c0 (x_all x) -> ci_allocs c0 = [] -> find_cons d (ci_uuid c0) <> None -> find_cons d' (ci_uuid c0) <> None).
    { intros c0 Hin Ha. apply ND. exists c0. destruct (tinit_ctx _ _ _ Hc) as (_ & -> & _). auto. }
    split; [eapply Forall2_impl; [|exact F]; intros k c; apply cobj_ok_Step; assumption|].
    eapply parts_ok_Step; [exact S| |exact P]. intros k Hk. eapply (wipe_cobj_inv x d ks); eauto.
Qed.

Lemma TI_core_eq cf r d d' t : core_eq d d' -> TI cf r d t -> TI cf r d' t.
Proof.
  intros H. apply TI_Step; [apply core_eq_Step; exact H|].
  intros c _ Hc. destruct H as (_ & _ & _ & C & _). unfold find_cons in *. rewrite <- C. exact Hc.
Qed.

(* ================================================================ helper facts for the steps *)
Lemma created_none x d (ks : list cobj) (cs : list cons_in) : Forall2 (cobj_ok x d) ks cs -> created_uuids ks = [].
Proof.
  intros F. unfold created_uuids. induction F as [|k c ks cs H F IH]; [reflexivity|].
  cbn [filter]. destruct H as (_ & _ & _ & -> & _). exact IH.
Qed.
Lemma created_none_rev x d (acc : list cobj) cs : Forall2 (cobj_ok x d) (rev acc) cs -> created_uuids acc = [].
Proof.
  intros F. unfold created_uuids. rewrite (filter_none co_created); [reflexivity|].
  intros k Hk. apply in_rev in Hk. destruct (Forall2_in_l _ _ _ _ F Hk) as (c & _ & (_ & _ & _ & E & _)). exact E.
Qed.

Lemma empty_created_sub : forall ks l k, In k (empty_created ks l) -> In k ks.
Proof.
  induction ks as [|k0 ks IH]; intros l k H; cbn [empty_created] in H; [destruct H|].
  destruct l as [|c l]; [destruct H|]. destruct (ci_allocs c).
  - destruct H as [<-|H]; [left; reflexivity|right; eapply IH; eauto].
  - right. eapply IH; eauto.
Qed.
Lemma created_none_empty x d ks cs l : Forall2 (cobj_ok x d) ks cs -> created_uuids (empty_created ks l) = [].
Proof.
  intros F. unfold created_uuids. rewrite (filter_none co_created); [reflexivity|].
  intros k Hk. apply empty_created_sub in Hk. destruct (Forall2_in_l _ _ _ _ F Hk) as (c & _ & (_ & _ & _ & E & _)). exact E.
Qed.

Lemma after_cons_TI cf r x d ks : req_ctx cf r = Some x -> ctx_wf x -> Forall2 (cobj_ok x d) ks (x_all x) ->
  TI cf r d (after_cons x ks).
Proof.
  intros Hc Hw F. unfold after_cons. destruct (work_items ks (x_all x)) as [|w ws] eqn:E; cbn [TI].
  - split; [exact Hc|]. split; [exact Hw|]. split; [exact F|]. rewrite E. exists []. split; [reflexivity|constructor].
  - split; [exact Hc|]. split; [exact Hw|]. split; [exact F|]. split; [discriminate|].
    exists []. split; [exact E|]. exists []. split; [reflexivity|constructor].
Qed.

Lemma consumer_eta row : row = mkCons (c_uuid row) (c_proj row) (c_user row) (c_type row) (c_gen row).
Proof. destruct row; reflexivity. Qed.

Lemma wipe_strip d c k g : co_uuid k = c -> co_gen k = g ->
  forall row, find_cons d c = Some row ->
  map strip (map (fun a => mkAreq (q_cons a) g (q_rp a) (q_rpgen a) (q_rc a) (q_amt a)) (wipe_list d c)) = wstrip d k.
Proof.
  intros <- <- row F. unfold wipe_list, wstrip, crows. rewrite F. induction (allocs d) as [|a l IH]; [reflexivity|].
  cbn [flat_map filter]. destruct (a_cons a =? co_uuid k) eqn:E; [|exact IH].
  cbn [filter]. unfold rp_ex at 1. destruct (find_rp d (a_rp a)) as [r0|]; [|exact IH].
  cbn [app map strip q_cons q_cgen q_rp q_rc q_amt]. rewrite IH. reflexivity.
Qed.

Lemma wipe_part_ok d x ks k : ConsHas d -> Forall2 (cobj_ok x d) ks (x_all x) ->
  In (WWipe k) (work_items ks (x_all x)) ->
  part_ok d (WWipe k) (map (fun a => mkAreq (q_cons a) (co_gen k) (q_rp a) (q_rpgen a) (q_rc a) (q_amt a))
                           (wipe_list d (co_uuid k))).
Proof.
  intros HC Hks Hk. destruct (work_items_in _ _ _ Hk) as (k0 & c & Hc & [<- Ea]).
  destruct (Forall2_combine _ _ _ Hks) as [_ Hcomb]. destruct (Hcomb _ _ Hc) as (_ & Hu & _ & _ & _ & _ & Hex).
  specialize (Hex Ea). rewrite <- Hu in Hex. destruct (find_cons d (co_uuid k)) as [row|] eqn:F; [|congruence].
  cbn [part_ok]. split; [|split].
  - pose proof F as F'. unfold find_cons in F'. apply find_cons_l_some in F'. destruct F' as [Eu Hin].
    destruct (HC row Hin) as (a & Ha & Ec & Xa). unfold rp_ex in Xa. destruct (find_rp d (a_rp a)) as [r0|] eqn:Fr; [|discriminate].
    destruct (C10.wipe_nonempty d (co_uuid k)) as (q & Hq & _); [eauto| |].
    { exists a. split; [exact Ha|]. split; [congruence|eauto]. }
    intros E. apply map_eq_nil in E. rewrite E in Hq. destruct Hq.
  - apply Forall_forall. intros q Hq. apply in_map_iff in Hq. destruct Hq as (q0 & <- & Hq0). cbn.
    apply wipe_list_in in Hq0. destruct Hq0 as (kk & a & r0 & _ & _ & _ & _ & ->). cbn. auto.
  - intros row' _ _. eapply wipe_strip; eauto.
Qed.

Lemma parts_ok_snoc d ws objs w p : parts_ok d ws objs -> part_ok d w p -> parts_ok d (ws ++ [w]) (objs ++ p).
Proof.
  intros (parts & -> & F) P. exists (parts ++ [p]). split.
  - rewrite concat_app. cbn. rewrite app_nil_r. reflexivity.
  - apply Forall2_app; [exact F|constructor; [exact P|constructor]].
Qed.

(* ================================================================ non-committing steps *)
Definition active (t : tstate) : Prop :=
  match t with TDone _ | TProvWrite _ _ | TMain _ _ _ => False | _ => True end.

Lemma aux_names_core cf v d c : core_eq d (aux_names cf v d c).
Proof. destruct (C07e.aux_names_with_aux cf v d c) as (p & u & t & ->). apply C07e.core_eq_with_aux. Qed.

Lemma tstep_active cf r d t d' t' : ConsHas d -> TI cf r d t -> active t -> tstep t d = (d', t') ->
  core_eq d d' /\ TI cf r d' t' /\ (forall rs, t' = TDone rs -> 400 <= status rs).
Proof.
  intros HC HT Ha H.
  assert (Hgoal : core_eq d d' /\ TI cf r d t' /\ (forall rs, t' = TDone rs -> 400 <= status rs));
    [|destruct Hgoal as (A & B & C); split; [exact A|]; split; [eapply TI_core_eq; eauto|exact C]].
  destruct t; cbn [active] in Ha; try contradiction; cbn [TI] in HT; try contradiction; unfold tstep in H.
  - (* TProvRead *)
    destruct HT as [-> Hi]. destruct (prov_target r) as [u|] eqn:Et.
    2:{ injection H as <- <-. split; [apply C07e.core_eq_refl|]. split; [exact I|]. intros rs [= <-]. cbn. lia. }
    destruct (find_rp d u) as [me|] eqn:Fr.
    2:{ injection H as <- <-. split; [apply C07e.core_eq_refl|]. split; [exact I|]. intros rs [= <-]. cbn. lia. }
    destruct (prov_precheck r me d) as [e|] eqn:Ep; injection H as <- <-; (split; [apply C07e.core_eq_refl|]).
    + split; [exact I|]. intros rs [= <-]. eapply prov_precheck_err; eauto.
    + split; [|discriminate]. cbn [TI]. split; [reflexivity|]. split; [exact Hi|]. exists u. split; [exact Et|].
      split; [unfold rp_ex; rewrite Fr; reflexivity|]. intros me' Hme. rewrite (prov_precheck_gen r me' me d Hme). exact Ep.
  - (* TRi *)
    destruct HT as [Hc Hw].
    assert (Hn : TI cf r d (match x_all x with [] => after_cons x [] | l => TCons x l [] end)).
    { destruct (x_all x) as [|c l] eqn:E.
      - apply after_cons_TI; [exact Hc|exact Hw|rewrite E; constructor].
      - cbn [TI]. split; [exact Hc|]. split; [exact Hw|]. exists []. split; [exact E|constructor]. }
    destruct todo as [|r0 rest]; [injection H as <- <-; split; [apply C07e.core_eq_refl|]; split; [exact Hn|]|].
    { intros rs E. destruct (x_all x); [unfold after_cons in E; destruct (work_items [] []); discriminate|discriminate]. }
    destruct (find_rp d (ri_rp r0)) as [me|].
    2:{ injection H as <- <-. split; [apply C07e.core_eq_refl|]. split; [exact I|]. intros rs [= <-]. cbn. lia. }
    destruct (negb _); injection H as <- <-; (split; [apply C07e.core_eq_refl|]).
    + split; [exact I|]. intros rs [= <-]. cbn. lia.
    + destruct rest; [split; [exact Hn|]|split; [split; assumption|discriminate]].
      intros rs E. destruct (x_all x); [unfold after_cons in E; destruct (work_items [] []); discriminate|discriminate].
  - (* TCons *)
    destruct HT as (Hc & Hw & done & Eall & F).
    assert (Hdone : forall ks rs, after_cons x ks <> TDone rs).
    { intros ks rs. unfold after_cons. destruct (work_items ks (x_all x)); discriminate. }
    destruct todo as [|c rest].
    { injection H as <- <-. split; [apply C07e.core_eq_refl|]. rewrite app_nil_r in Eall. subst done.
      split; [apply after_cons_TI; assumption|]. intros rs E. exfalso. eapply Hdone; eauto. }
    cbv zeta in H. unfold rq_attrs in H.
    pose proof (aux_names_core (x_cf x) (x_v x) d c) as Hcore.
    pose proof (created_none_rev _ _ _ _ F) as Hcr.
    destruct Hw as (Hv & Hcl & Hg & Hnd).
    assert (Hv' : (28 <=? x_v x) = true) by (apply Z.leb_le; exact Hv).
    assert (Hin : In c (x_all x)) by (rewrite Eall; apply in_or_app; right; left; reflexivity).
    destruct (find_cons d (ci_uuid c)) as [row|] eqn:Fc.
    + rewrite Hv' in H. cbn [andb] in H. destruct (oeqb (Some (c_gen row)) (ci_gen c)) eqn:Eg; cbn [negb] in H.
      * injection H as <- <-. split; [exact Hcore|].
        set (knew := mkCobj (c_uuid row) (c_gen row) (c_proj row) (c_user row) (c_type row) false
                       (match ci_proj c with Some p => p | None => incomplete_proj (x_cf x) end)
                       (match ci_proj c with Some _ => oz (ci_user c) | None => incomplete_user (x_cf x) end)
                       (if 38 <=? x_v x then Some (oz (ci_type c)) else None)).
        assert (Hk : cobj_ok x d knew c).
        { pose proof Fc as Fc'. unfold find_cons in Fc'. apply find_cons_l_some in Fc'. destruct Fc' as [Eu _].
          split; [exact Hin|]. split; [exact Eu|]. split.
          { destruct (ci_gen c) as [g|]; cbn in Eg; [|discriminate]. apply Z.eqb_eq in Eg. cbn. congruence. }
          split; [reflexivity|]. split; [reflexivity|]. split.
          - intros row' Fr. cbn [knew co_uuid] in Fr. rewrite Eu, Fc in Fr. injection Fr as <-. right.
            unfold krow, knew. cbn. apply consumer_eta.
          - intros _. congruence. }
        assert (F' : Forall2 (cobj_ok x d) (rev (knew :: acc)) (done ++ [c])).
        { cbn [rev]. apply Forall2_app; [exact F|constructor; [exact Hk|constructor]]. }
        assert (Eall' : x_all x = (done ++ [c]) ++ rest) by (rewrite <- app_assoc; exact Eall).
        destruct rest as [|c1 rest].
        -- rewrite app_nil_r in Eall'. split; [apply after_cons_TI; [exact Hc|repeat split; assumption|rewrite Eall'; exact F']|].
           intros rs E. exfalso. eapply Hdone; eauto.
        -- split; [|discriminate]. cbn [TI]. split; [exact Hc|]. split; [repeat split; assumption|].
           exists (done ++ [c]). split; [exact Eall'|exact F'].
      * injection H as <- <-. split; [exact Hcore|]. rewrite Hcr. cbn [cleanup_or_done]. split; [exact I|].
        intros rs [= <-]. cbn. lia.
    + rewrite Hv' in H. cbn [andb] in H. destruct (ci_gen c) as [g|] eqn:Eg; [|exfalso; apply (Hg c Hin); exact Eg].
      injection H as <- <-. split; [exact Hcore|]. rewrite Hcr. cbn [cleanup_or_done]. split; [exact I|].
      intros rs [= <-]. cbn. lia.
  - (* TObjs *)
    destruct HT as (Hc & Hw & F & N & wdone & E & P).
    destruct todo as [|w rest]; [congruence|]. cbv zeta in H.
    pose proof (created_none _ _ _ _ F) as Hcr.
    assert (Hnext : forall p, part_ok d w p ->
       TI cf r d (match rest with [] => TMain x ks (objs ++ p) | _ => TObjs x ks rest (objs ++ p) end)).
    { intros p Pp. pose proof (parts_ok_snoc _ _ _ _ _ P Pp) as P'. destruct rest as [|w1 rest]; cbn [TI].
      - split; [exact Hc|]. split; [exact Hw|]. split; [exact F|]. rewrite E. exact P'.
      - split; [exact Hc|]. split; [exact Hw|]. split; [exact F|]. split; [discriminate|].
        exists (wdone ++ [w]). split; [rewrite <- app_assoc; exact E|exact P']. }
    assert (Hnd : forall p rs, (match rest with [] => TMain x ks (objs ++ p) | _ => TObjs x ks rest (objs ++ p) end) <> TDone rs).
    { intros p rs. destruct rest; discriminate. }
    destruct w as [k|k a].
    + injection H as <- <-. split; [apply C07e.core_eq_refl|]. split; [|intros rs Ed; exfalso; eapply Hnd; eauto].
      apply Hnext. eapply wipe_part_ok; eauto. rewrite E. apply in_or_app. right. left. reflexivity.
    + destruct (find_rp d (ai_rp a)) as [r0|]; injection H as <- <-; (split; [apply C07e.core_eq_refl|]).
      * split; [|intros rs Ed; exfalso; eapply Hnd; eauto]. apply Hnext. cbn [part_ok]. eexists. reflexivity.
      * rewrite Hcr. cbn [cleanup_or_done]. split; [exact I|]. intros rs [= <-]. cbn. lia.
Qed.
