(* C07 (C): the committing steps.  A successful commit in state d is reproduced by running the whole
   request serially from d (validation). *)
From PV Require Import Proofs.ConcDefs Proofs.C07d Proofs.C12 Proofs.C07i Proofs.C07j.
From PV Require Proofs.C10 Proofs.C01 Proofs.C07e Proofs.C07f Proofs.C07g.

(* ================================================================ reachability by own steps *)
Definition reach (t : tstate) (d : db) (t' : tstate) (d' : db) : Prop := exists n, nsteps n t d = (d', t').

Lemma reach_refl t d : reach t d t d.
Proof. exists 0%nat. reflexivity. Qed.
Lemma reach_trans t1 d1 t2 d2 t3 d3 : reach t1 d1 t2 d2 -> reach t2 d2 t3 d3 -> reach t1 d1 t3 d3.
Proof.
  intros [a Ha] [b Hb]. exists (a + b)%nat. rewrite C07e.nsteps_add, Ha. exact Hb.
Qed.
Lemma reach_step t d t' d' : tstep t d = (d', t') -> reach t d t' d'.
Proof. intros H. exists 1%nat. cbn [nsteps]. rewrite H. reflexivity. Qed.

(* ================================================================ provider writes *)
Lemma tinit_provread cf r : tinit cf r = TProvRead r -> exists u, prov_target r = Some u.
Proof.
  destruct r; cbn [tinit prov_target]; try discriminate; eauto.
  - destruct (v <? 13); discriminate.
  - destruct (v <? 30); discriminate.
Qed.

Lemma tstep_provwrite cf r r' g d d' t' : TI cf r d (TProvWrite r' g) -> tstep (TProvWrite r' g) d = (d', t') ->
  exists rs, t' = TDone rs /\
    ((d' = d /\ 400 <= status rs) \/
     (status rs < 300 /\ Step d d' /\ consumers d' = consumers d /\ reach (tinit cf r) d (TDone rs) d')).
Proof.
  cbn [TI]. intros (-> & Hi & u & Hu & X & P). unfold tstep.
  destruct (prov_write r g d) as [d1 rs] eqn:E. intros [= <- <-]. exists rs. split; [reflexivity|].
  destruct (prov_write_cases r g d d1 rs u Hu E) as [[-> Hs]|(Hs & HF & Hg)]; [left; auto|right].
  split; [exact Hs|]. split; [apply PF_Step; exact HF|]. split; [apply HF|].
  rewrite Hi. unfold rp_ex in X. destruct (find_rp d u) as [me|] eqn:Fr; [|discriminate].
  assert (Hpre : prov_precheck r me d = None /\ prov_write r (rp_gen me) d = (d1, rs)).
  { destruct Hg as [Hg|Hg].
    - unfold gen_of in Hg. rewrite Fr in Hg. cbn in Hg. injection Hg as Hg. split; [apply P; exact Hg|rewrite Hg; exact E].
    - split; [apply gen_free_precheck; exact Hg|rewrite (gen_free_write r (rp_gen me) g d Hg); exact E]. }
  destruct Hpre as [Hp Hwr].
  eapply reach_trans; [apply reach_step|apply reach_step].
  - unfold tstep. rewrite Hu, Fr, Hp. reflexivity.
  - unfold tstep. rewrite Hwr. reflexivity.
Qed.

(* ================================================================ main transaction: decomposition *)
Lemma reshape_interim_PF : forall l d dB gens, reshape_interim d l = Ok (dB, gens) -> PF d dB.
Proof.
  induction l as [|r l IH]; intros d dB gens; cbn [reshape_interim].
  - intros [= <- <-]. apply PF_refl.
  - destruct (ri_invs r); unfold bind.
    + destruct (reshape_interim d l) as [[d2 g2]|] eqn:E; [|discriminate]. intros [= <- <-]. cbn [fst]. eapply IH; eauto.
    + destruct (set_inventory d (ri_rp r) (ri_gen r) _) as [d1|] eqn:Es; [|discriminate].
      destruct (reshape_interim d1 l) as [[d2 g2]|] eqn:E; [|discriminate]. intros [= <- <-]. cbn [fst].
      eapply PF_trans; [eapply set_inventory_PF; eauto|eapply IH; eauto].
Qed.
Lemma reshape_final_PF : forall l gens d d', reshape_final d l gens = Ok d' -> PF d d'.
Proof.
  induction l as [|r l IH]; intros gens d d'; cbn [reshape_final].
  - intros [= <-]. apply PF_refl.
  - destruct gens as [|[u0 g] gens]; [intros [= <-]; apply PF_refl|]. unfold bind.
    destruct (set_inventory d (ri_rp r) g (ri_invs r)) as [d1|] eqn:Es; [|discriminate]. intros H.
    eapply PF_trans; [eapply set_inventory_PF; eauto|eapply IH; eauto].
Qed.

Lemma strip_regen gens a : strip (C01.regen gens a) = strip a.
Proof. unfold C01.regen. destruct (lookup_gen gens (q_rp a)); reflexivity. Qed.
Lemma map_strip_regen gens l : map strip (map (C01.regen gens) l) = map strip l.
Proof. rewrite map_map. apply map_ext. intros a. apply strip_regen. Qed.

Lemma gens_le_rps c w : rps w = rps c -> gens_le c w.
Proof. intros E u g H. exists g. split; [|lia]. rewrite (C07g.gen_of_rps c w u E). exact H. Qed.

Lemma main_txn_decomp x ks objs d d' : main_txn x ks objs d = Ok d' ->
  exists w L d2, WS ks d w /\ set_allocations_w w L = (d2, None) /\ map strip L = map strip objs /\ PF d2 d'.
Proof.
  unfold main_txn. set (d1 := fold_left update_consumer ks d).
  assert (Hrps : rps d1 = rps d) by (apply (fold_update_keeps ks d)).
  assert (HW : WS ks d d1) by apply WS_update.
  assert (Hput : replace_all retry_fuel d d1 objs = Ok d' ->
    exists w L d2, WS ks d w /\ set_allocations_w w L = (d2, None) /\ map strip L = map strip objs /\ PF d2 d').
  { intros H. exists d1, (fresh d1 objs), d'. split; [exact HW|]. split.
    - eapply C07f.replace_all_fresh; [apply gens_le_rps; exact Hrps|exact H].
    - split; [apply C07f.fresh_strip|apply PF_refl]. }
  destruct (x_kind x); [exact Hput|exact Hput|].
  unfold reshape_txn_c, bind. destruct (reshape_interim d1 (x_ri x)) as [[dB gens]|] eqn:Ei; [|discriminate].
  fold (C01.regen gens).
  destruct (replace_all retry_fuel d dB (map (C01.regen gens) objs)) as [d2|] eqn:Er; [|discriminate].
  intros Hf. exists dB, (fresh dB (map (C01.regen gens) objs)), d2.
  pose proof (reshape_interim_PF _ _ _ _ Ei) as PB.
  split; [eapply WS_PF; eauto|]. split.
  - eapply C07f.replace_all_fresh; [|exact Er].
    apply C10.reshape_interim_spec in Ei. destruct Ei as [Ps _]. intros u g Hg.
    rewrite <- (C07g.gen_of_rps d d1 u Hrps) in Hg. apply (C10.pstep_ole _ _ u Ps g Hg).
  - split; [rewrite C07f.fresh_strip; apply map_strip_regen|eapply reshape_final_PF; eauto].
Qed.

(* ================================================================ a successful main transaction *)
Lemma strip_q_cons l1 l2 : map strip l1 = map strip l2 -> map q_cons l1 = map q_cons l2.
Proof. apply (C07f.map_congr strip q_cons C07f.s_cons). reflexivity. Qed.
Lemma strip_q_rp l1 l2 : map strip l1 = map strip l2 -> map q_rp l1 = map q_rp l2.
Proof. apply (C07f.map_congr strip q_rp C07f.s_rp). reflexivity. Qed.
Lemma strip_conskey l1 l2 : map strip l1 = map strip l2 -> map conskey l1 = map conskey l2.
Proof. apply (C07f.map_congr strip conskey (fun s => (C07f.s_cons s, C07f.s_cgen s))). reflexivity. Qed.
Lemma strip_pos_cons l1 l2 : map strip l1 = map strip l2 -> pos_cons l1 = pos_cons l2.
Proof.
  unfold pos_cons. apply (C07f.filter_map_congr strip (fun a => 0 <? q_amt a) (fun s => 0 <? C07f.s_amt s) q_cons C07f.s_cons);
    reflexivity.
Qed.

Lemma ks_uuids x d ks : Forall2 (cobj_ok x d) ks (x_all x) -> map co_uuid ks = map ci_uuid (x_all x).
Proof. induction 1 as [|k c ks cs H F IH]; [reflexivity|]. cbn [map]. destruct H as (_ & -> & _). f_equal. exact IH. Qed.

Lemma ks_nodup x d ks : ctx_wf x -> Forall2 (cobj_ok x d) ks (x_all x) -> NoDup (map co_uuid ks).
Proof.
  intros (_ & W & _) F. rewrite (ks_uuids x d ks F). apply nodupb_NoDup.
  unfold cons_list_wf in W. apply andb_true_iff in W. tauto.
Qed.

Lemma main_ok_facts cf r x ks objs d d' :
  TI cf r d (TMain x ks objs) -> main_txn x ks objs d = Ok d' ->
  Step d d' /\ Deletes d d' r /\
  (forall k, In k ks -> find_cons d (co_uuid k) = Some (krow k)) /\
  (forall u, In u (map q_rp objs) -> rp_ex d u = true).
Proof.
  cbn [TI]. intros (Hc & Hw & F & P) Hm.
  destruct (main_txn_decomp _ _ _ _ _ Hm) as (w & L & d2 & HW & Hs & HL & HF).
  pose proof (strip_q_cons _ _ HL) as Ecs. pose proof (strip_q_rp _ _ HL) as Erp.
  pose proof (strip_conskey _ _ HL) as Eck. pose proof (strip_pos_cons _ _ HL) as Epc.
  destruct (alloc_step ks d w L d2 HW Hs) as (S2 & Del & Named & Ex).
  { intros k Hk. rewrite Ecs. eapply objs_named; eauto. }
  split; [eapply Step_trans; [exact S2|apply PF_Step; exact HF]|]. split; [|split].
  - intros c Hd Hd'. assert (Hd2 : find_cons d2 c = None).
    { destruct HF as (_ & _ & _ & C). unfold find_cons in *. rewrite <- C. exact Hd'. }
    destruct (Del c Hd Hd2) as [D1 D2]. rewrite Ecs in D1. rewrite Epc in D2.
    destruct (objs_unpos_wipes x d ks objs Hw F P c D1 D2) as (c0 & Hin & Eu & Ea).
    exists c0. destruct (tinit_ctx _ _ _ Hc) as (_ & -> & _). auto.
  - intros k Hk. assert (Hn : In (co_uuid k) (map q_cons L)) by (rewrite Ecs; eapply objs_named; eauto).
    destruct (Named _ Hn) as (row & g & Fr & G & Hin). rewrite Eck in Hin.
    apply in_map_iff in Hin. destruct Hin as (q & Eq & Hq). unfold conskey in Eq. injection Eq as Eq1 Eq2.
    destruct (objs_origin x d ks objs Hw F P q Hq) as (k' & c' & Hc' & Q1 & Q2 & _).
    assert (Ek : k' = k).
    { apply (NoDup_map_inj co_uuid ks); [eapply ks_nodup; eauto| |exact Hk|congruence].
      apply in_combine_l in Hc'. exact Hc'. }
    subst k'. destruct (Forall2_combine _ _ _ F) as [_ Hcomb]. destruct (Hcomb _ _ Hc') as (_ & _ & _ & _ & _ & Hinv & _).
    destruct (Hinv row Fr) as [Hlt|E]; [lia|rewrite <- E; exact Fr].
  - intros u Hu. apply Ex. rewrite Erp. exact Hu.
Qed.

(* ================================================================ serial replay: the consumer phase *)
Definition cons_next (x : actx) (todo : list cons_in) (acc : list cobj) : tstate :=
  match todo with [] => after_cons x (rev acc) | _ => TCons x todo acc end.
Definition objs_next (x : actx) (ks : list cobj) (todo : list witem) (objs : list areq) : tstate :=
  match todo with [] => TMain x ks objs | _ => TObjs x ks todo objs end.
Definition ri_done (x : actx) : tstate :=
  match x_all x with [] => after_cons x [] | l => TCons x l [] end.

(* what the serial replay needs to know about a consumer object held by the committing thread *)
Definition cobj_now (x : actx) (d : db) (k : cobj) (c : cons_in) : Prop :=
  co_uuid k = ci_uuid c /\ ci_gen c = Some (co_gen k) /\ co_created k = false /\
  (rq_proj k, rq_user k, rq_type k) = rq_attrs (x_cf x) (x_v x) c /\
  find_cons d (co_uuid k) = Some (krow k).

Lemma tstep_cons_ok x d c rest acc k p u t : 28 <= x_v x -> cobj_now x d k c ->
  tstep (TCons x (c :: rest) acc) (with_aux d p u t) =
  (aux_names (x_cf x) (x_v x) (with_aux d p u t) c, cons_next x rest (k :: acc)).
Proof.
  intros Hv (Eu & Eg & Ecr & Erq & Fc). unfold tstep. cbv zeta. unfold rq_attrs in *.
  change (find_cons (with_aux d p u t) (ci_uuid c)) with (find_cons d (ci_uuid c)).
  rewrite <- Eu, Fc. assert (Hv' : (28 <=? x_v x) = true) by (apply Z.leb_le; exact Hv). rewrite Hv'.
  rewrite Eg. cbn [krow c_gen c_uuid c_proj c_user c_type oeqb]. rewrite Z.eqb_refl. cbn [negb andb].
  pose proof (f_equal (fun z => fst (fst z)) Erq) as E1. pose proof (f_equal (fun z => snd (fst z)) Erq) as E2.
  pose proof (f_equal snd Erq) as E3. cbn [fst snd] in E1, E2, E3. rewrite <- E1, <- E2, <- E3.
  assert (Ek : mkCobj (co_uuid k) (co_gen k) (co_proj k) (co_user k) (co_type k) false (rq_proj k) (rq_user k) (rq_type k) = k).
  { destruct k; cbn in *. subst. reflexivity. }
  rewrite Ek. reflexivity.
Qed.

Lemma ser_cons x d : 28 <= x_v x -> forall todo kst, Forall2 (cobj_now x d) kst todo ->
  forall acc p u t, exists p' u' t',
    reach (cons_next x todo acc) (with_aux d p u t) (after_cons x (rev acc ++ kst)) (with_aux d p' u' t').
Proof.
  intros Hv todo kst F. induction F as [|k c kst todo Hk F IH]; intros acc p u t.
  - exists p, u, t. cbn [cons_next]. rewrite app_nil_r. apply reach_refl.
  - destruct (C07e.aux_names_with_aux (x_cf x) (x_v x) (with_aux d p u t) c) as (p1 & u1 & t1 & E1).
    destruct (IH (k :: acc) p1 u1 t1) as (p' & u' & t' & R). exists p', u', t'.
    eapply reach_trans; [apply reach_step; cbn [cons_next]; apply (tstep_cons_ok x d c todo acc k p u t Hv Hk)|].
    rewrite E1. change (with_aux (with_aux d p u t) p1 u1 t1) with (with_aux d p1 u1 t1).
    cbn [rev] in R. rewrite <- app_assoc in R. exact R.
Qed.

Lemma ser_cons0 x d ks : 28 <= x_v x -> Forall2 (cobj_now x d) ks (x_all x) ->
  forall p u t, exists p' u' t', reach (TCons x (x_all x) []) (with_aux d p u t) (after_cons x ks) (with_aux d p' u' t').
Proof.
  intros Hv F p u t. destruct (x_all x) as [|c l] eqn:E.
  - inversion F; subst. exists p, u, t. apply reach_step. reflexivity.
  - destruct (ser_cons x d Hv _ _ F [] p u t) as (p' & u' & t' & R). exists p', u', t'. exact R.
Qed.

(* ================================================================ serial replay: the objects phase *)
Definition all_current (d : db) (l : list areq) : Prop := forall q, In q l -> gen_of d (q_rp q) = Some (q_rpgen q).

Lemma ser_objs x d ks : forall todo parts,
  Forall2 (part_ok d) todo parts ->
  (forall k, In (WWipe k) todo -> find_cons d (co_uuid k) = Some (krow k)) ->
  (forall k a, In (WRp k a) todo -> rp_ex d (ai_rp a) = true) ->
  forall objs0 p u t, exists ps,
    reach (objs_next x ks todo objs0) (with_aux d p u t) (TMain x ks (objs0 ++ ps)) (with_aux d p u t) /\
    map strip ps = map strip (concat parts) /\ all_current d ps.
Proof.
  intros todo parts F. induction F as [|w pt todo parts Hp F IH]; intros HW HR objs0 p u t.
  - exists []. rewrite app_nil_r. split; [apply reach_refl|]. split; [reflexivity|intros q []].
  - assert (HW' : forall k, In (WWipe k) todo -> find_cons d (co_uuid k) = Some (krow k)) by (intros; apply HW; right; assumption).
    assert (HR' : forall k a, In (WRp k a) todo -> rp_ex d (ai_rp a) = true) by (intros; eapply HR; right; eassumption).
    destruct w as [k|k a].
    + (* wipe *)
      set (ps1 := map (fun a => mkAreq (q_cons a) (co_gen k) (q_rp a) (q_rpgen a) (q_rc a) (q_amt a)) (wipe_list d (co_uuid k))).
      destruct (IH HW' HR' (objs0 ++ ps1) p u t) as (ps & R & Es & Ec). exists (ps1 ++ ps).
      split; [|split].
      * eapply reach_trans; [apply reach_step|rewrite app_assoc; exact R].
        cbn [objs_next]. unfold tstep. reflexivity.
      * cbn [concat]. rewrite !map_app, Es. f_equal.
        pose proof (HW k (or_introl eq_refl)) as Fk. destruct Hp as (_ & _ & Hp).
        rewrite (Hp (krow k) Fk eq_refl). unfold ps1. eapply wipe_strip; eauto.
      * intros q Hq. apply in_app_or in Hq. destruct Hq as [Hq|Hq]; [|apply Ec; exact Hq].
        unfold ps1 in Hq. apply in_map_iff in Hq. destruct Hq as (q0 & <- & Hq0). cbn.
        apply wipe_list_in in Hq0. destruct Hq0 as (kk & a & r0 & _ & _ & _ & Fr & ->). cbn.
        unfold gen_of. rewrite Fr. reflexivity.
    + (* provider *)
      pose proof (HR k a (or_introl eq_refl)) as Hex. unfold rp_ex in Hex.
      destruct (find_rp d (ai_rp a)) as [r0|] eqn:Fr; [|discriminate].
      set (ps1 := map (fun y => mkAreq (co_uuid k) (co_gen k) (ai_rp a) (rp_gen r0) (fst y) (snd y)) (ai_res a)).
      destruct (IH HW' HR' (objs0 ++ ps1) p u t) as (ps & R & Es & Ec). exists (ps1 ++ ps).
      split; [|split].
      * eapply reach_trans; [apply reach_step|rewrite app_assoc; exact R].
        cbn [objs_next]. unfold tstep. change (find_rp (with_aux d p u t) (ai_rp a)) with (find_rp d (ai_rp a)).
        rewrite Fr. reflexivity.
      * cbn [concat]. rewrite !map_app, Es. f_equal. destruct Hp as (g & ->). unfold ps1. rewrite !map_map. reflexivity.
      * intros q Hq. apply in_app_or in Hq. destruct Hq as [Hq|Hq]; [|apply Ec; exact Hq].
        unfold ps1 in Hq. apply in_map_iff in Hq. destruct Hq as (y & <- & _). cbn. unfold gen_of. rewrite Fr. reflexivity.
Qed.

Lemma current_is_fresh w : forall l1 l2, map strip l1 = map strip l2 -> all_current w l1 -> l1 = fresh w l2.
Proof.
  induction l1 as [|a l1 IH]; intros [|b l2] E Hc; try discriminate; [reflexivity|].
  apply C07f.map_strip_cons in E. destruct E as [(E1 & E2 & E3 & E4 & E5) El]. unfold fresh. cbn [map]. f_equal.
  - rewrite <- E3, (Hc a (or_introl eq_refl)). destruct a; cbn in *. subst. reflexivity.
  - apply IH; [exact El|]. intros q Hq. apply Hc. right. exact Hq.
Qed.

(* ================================================================ serial replay: reshaper prechecks *)
Lemma ser_ri x d p u t : forall todo, (forall r0, In r0 todo -> gen_of d (ri_rp r0) = Some (ri_gen r0)) ->
  reach (TRi x todo) (with_aux d p u t) (ri_done x) (with_aux d p u t).
Proof.
  induction todo as [|r0 rest IH]; intros H.
  - apply reach_step. reflexivity.
  - pose proof (H r0 (or_introl eq_refl)) as H0. unfold gen_of in H0.
    destruct (find_rp d (ri_rp r0)) as [me|] eqn:Fr; [|discriminate]. cbn in H0. injection H0 as H0.
    assert (St : tstep (TRi x (r0 :: rest)) (with_aux d p u t) =
                 (with_aux d p u t, match rest with [] => ri_done x | _ => TRi x rest end)).
    { unfold tstep. change (find_rp (with_aux d p u t) (ri_rp r0)) with (find_rp d (ri_rp r0)). rewrite Fr, H0, Z.eqb_refl.
      cbn [negb]. reflexivity. }
    destruct rest as [|r1 rest]; [apply reach_step; exact St|].
    eapply reach_trans; [apply reach_step; exact St|]. apply IH. intros r2 Hr2. apply H. right. exact Hr2.
Qed.

(* ================================================================ the main transaction on fresh objects *)
Lemma fresh_rps w w' l : rps w' = rps w -> fresh w' l = fresh w l.
Proof. intros E. unfold fresh. apply map_ext. intros a. rewrite (C07g.gen_of_rps w w' (q_rp a) E). reflexivity. Qed.

Lemma main_txn_fresh x ks objs d d' : nodupb (map ri_rp (x_ri x)) = true -> main_txn x ks objs d = Ok d' ->
  main_txn x ks (fresh d objs) d = Ok d' /\
  (x_kind x = KReshape -> forall r0, In r0 (x_ri x) -> gen_of d (ri_rp r0) = Some (ri_gen r0)).
Proof.
  intros Hnd. unfold main_txn. set (d1 := fold_left update_consumer ks d).
  assert (Hrps : rps d1 = rps d) by (apply (fold_update_keeps ks d)).
  rewrite <- (fresh_rps d d1 objs Hrps).
  assert (Hput : replace_all retry_fuel d d1 objs = Ok d' -> replace_all retry_fuel d d1 (fresh d1 objs) = Ok d').
  { intros H. apply C07f.replace_all_first. eapply C07f.replace_all_fresh; [apply gens_le_rps; exact Hrps|exact H]. }
  destruct (x_kind x).
  - intros H. split; [apply Hput; exact H|discriminate].
  - intros H. split; [apply Hput; exact H|discriminate].
  - intros H. destruct (C07g.reshape_txn_c_fresh d d1 (x_ri x) objs d' Hrps Hnd H) as (A & B & _).
    split; [exact A|]. intros _ r0 Hr0. rewrite <- (C07g.gen_of_rps d d1 _ Hrps). apply B. exact Hr0.
Qed.

(* ================================================================ validation of a successful main transaction *)
Lemma Forall2_in_part d ws parts w : Forall2 (part_ok d) ws parts -> In w ws ->
  exists p, In p parts /\ part_ok d w p.
Proof. apply Forall2_in_l. Qed.

Lemma cobj_now_of x d ks cs : Forall2 (cobj_ok x d) ks cs ->
  (forall k, In k ks -> find_cons d (co_uuid k) = Some (krow k)) -> Forall2 (cobj_now x d) ks cs.
Proof.
  induction 1 as [|k c ks cs H F IH]; intros E; constructor.
  - destruct H as (_ & A & B & C & D & _). repeat split; auto. apply E. left. reflexivity.
  - apply IH. intros k0 Hk0. apply E. right. exact Hk0.
Qed.

Lemma after_cons_objs_next x ks : after_cons x ks = objs_next x ks (work_items ks (x_all x)) [].
Proof. unfold after_cons, objs_next. destruct (work_items ks (x_all x)); reflexivity. Qed.

Lemma main_validation cf r x ks objs d d' :
  TI cf r d (TMain x ks objs) -> main_txn x ks objs d = Ok d' ->
  exists d'', reach (tinit cf r) d (TDone (ok 204)) d'' /\ core_eq d'' d'.
Proof.
  intros HT Hm. destruct (main_ok_facts cf r x ks objs d d' HT Hm) as (_ & _ & E1 & E2).
  cbn [TI] in HT. destruct HT as (Hc & Hw & F & P).
  destruct (tinit_ctx _ _ _ Hc) as (Hinit & _ & _).
  pose proof Hw as (Hv & Hcl & Hg & Hnd).
  destruct (main_txn_fresh x ks objs d d' Hnd Hm) as [Hfresh Hgens].
  pose proof (cobj_now_of x d ks _ F E1) as Fnow.
  destruct P as (parts & Eobjs & FP).
  destruct (Forall2_combine _ _ _ F) as [Hlen Hcomb].
  (* the db as a with_aux of itself *)
  assert (Ed : d = with_aux d (projects d) (users d) (ctypes d)) by (destruct d; reflexivity).
  (* phase 1: up to after_cons x ks *)
  assert (R1 : exists p u t, reach (tinit cf r) (with_aux d (projects d) (users d) (ctypes d)) (after_cons x ks) (with_aux d p u t)).
  { rewrite Hinit. unfold start_of.
    assert (RC : forall p u t, exists p' u' t',
              reach (TCons x (x_all x) []) (with_aux d p u t) (after_cons x ks) (with_aux d p' u' t'))
      by (apply ser_cons0; assumption).
    destruct (x_kind x) eqn:Ek; try apply RC.
    pose proof (ser_ri x d (projects d) (users d) (ctypes d) (x_ri x) (Hgens eq_refl)) as RR.
    unfold ri_done in RR. destruct (x_all x) as [|c l] eqn:Eall.
    - inversion F; subst. exists (projects d), (users d), (ctypes d). exact RR.
    - destruct (RC (projects d) (users d) (ctypes d)) as (p' & u' & t' & R). exists p', u', t'.
      eapply reach_trans; [exact RR|exact R]. }
  rewrite <- Ed in R1. destruct R1 as (p & u & t & R1).
  (* phase 2: the objects *)
  destruct (ser_objs x d ks (work_items ks (x_all x)) parts FP) with (objs0 := @nil areq) (p := p) (u := u) (t := t)
    as (ps & R2 & Es & Ecur).
  { intros k Hk. destruct (work_items_in _ _ _ Hk) as (k0 & c & Hkc & [<- _]). apply E1. apply in_combine_l in Hkc. exact Hkc. }
  { intros k a Hk. destruct (Forall2_in_part _ _ _ _ FP Hk) as (pt & Hpt & (g & ->)).
    destruct (work_items_in _ _ _ Hk) as (k0 & c & Hkc & [<- Ha]).
    destruct (Hcomb _ _ Hkc) as (Hin & _).
    destruct (alloc_in_wf_facts a (wf_alloc_in x c a Hw Hin Ha)) as [Hne _].
    destruct (ai_res a) as [|y ys] eqn:Er; [congruence|]. apply E2. rewrite Eobjs.
    apply in_map_iff. eexists. split; [|eapply in_concat_part; [exact Hpt|left; reflexivity]]. reflexivity. }
  rewrite <- Eobjs in Es. cbn [app] in R2.
  pose proof (current_is_fresh d ps objs Es Ecur) as Eps. rewrite Eps in R2.
  (* phase 3: the main transaction *)
  exists (with_aux d' p u t). split; [|apply C07e.core_eq_sym, C07e.core_eq_with_aux].
  eapply reach_trans; [exact R1|]. rewrite after_cons_objs_next. eapply reach_trans; [exact R2|].
  apply reach_step. unfold tstep. rewrite C07e.main_txn_aux, Hfresh.
  rewrite (created_none_empty x d ks _ (x_all x) F). reflexivity.
Qed.

(* ================================================================ the committing step of an allocation write *)
Lemma tstep_main cf r x ks objs d d' t' : TI cf r d (TMain x ks objs) -> tstep (TMain x ks objs) d = (d', t') ->
  exists rs, t' = TDone rs /\
    ((d' = d /\ 400 <= status rs) \/
     (status rs < 300 /\ Step d d' /\ Deletes d d' r /\
      exists d'', reach (tinit cf r) d (TDone rs) d'' /\ core_eq d'' d')).
Proof.
  intros HT. unfold tstep. destruct (main_txn x ks objs d) as [d1|e] eqn:Hm; intros [= <- <-].
  - exists (ok 204). pose proof HT as (_ & _ & F & _).
    split; [rewrite (created_none_empty x d ks _ (x_all x) F); reflexivity|]. right.
    destruct (main_ok_facts cf r x ks objs d d1 HT Hm) as (S & D & _).
    split; [cbn; lia|]. split; [exact S|]. split; [exact D|]. eapply main_validation; eauto.
  - exists (main_err x e). pose proof HT as (_ & _ & F & _).
    split; [rewrite (created_none x d ks _ F); reflexivity|]. left. split; [reflexivity|].
    unfold main_err. destruct (x_kind x); [apply alloc_err_status|apply alloc_err_status|apply reshape_err_status].
Qed.
