(* C07 (C): assembly - the commit-order serial log, by induction over the schedule. *)
From PV Require Import Proofs.ConcDefs Proofs.C07d Proofs.C12 Proofs.C07i Proofs.C07j Proofs.C07k.
From PV Require Proofs.C07e.

(* the premises of the statement, as in Props/C07.v *)
Definition consumers_preexist (reqs : list req) (d : db) : Prop :=
  forall r k, In r reqs -> In k (req_consumers r) -> has_consumer d (ci_uuid k) /\ ci_gen k <> None.
Definition single_wiper (reqs : list req) : Prop :=
  forall i j ri rj c, nth_error reqs i = Some ri -> nth_error reqs j = Some rj ->
    wipes ri c -> wipes rj c -> i = j.
Definition completes (cf : cfg) (reqs : list req) : Prop :=
  forall r d0, In r reqs -> exists rs, snd (run_req cf r d0) = TDone rs.

(* ================================================================ initial states *)
Lemma ConsHas_init d : RI d -> ConsIff d -> ConsHas d.
Proof.
  intros (RA & _) CI row Hr. assert (Hc : has_consumer d (c_uuid row)) by (exists row; auto).
  apply CI in Hc. destruct Hc as (a & Ha & Ea). exists a. split; [exact Ha|]. split; [exact Ea|].
  destruct (RA a Ha) as ((r0 & Fr) & _). unfold rp_ex. rewrite Fr. reflexivity.
Qed.

Lemma tinit_TI cf r d : in_scope r -> req_wf r = true -> (forall k, In k (req_consumers r) -> ci_gen k <> None) ->
  TI cf r d (tinit cf r) /\ (forall rs, tinit cf r = TDone rs -> 400 <= status rs).
Proof.
  intros Hs Hw Hg.
  assert (Hal : forall x, req_ctx cf r = Some x -> tinit cf r = start_of x ->
                 TI cf r d (tinit cf r) /\ (forall rs, tinit cf r = TDone rs -> 400 <= status rs)).
  { intros x Hc Hi. pose proof (req_ctx_wf cf r x Hs Hw Hg Hc) as Hwf. rewrite Hi. unfold start_of.
    destruct (x_kind x); cbn [TI]; (split; [|discriminate]).
    - split; [exact Hc|]. split; [exact Hwf|]. exists []. split; [reflexivity|constructor].
    - split; [exact Hc|]. split; [exact Hwf|]. exists []. split; [reflexivity|constructor].
    - split; assumption. }
  destruct r; cbn [in_scope] in Hs; try contradiction.
  - cbn. split; [auto|discriminate].
  - cbn. split; [auto|discriminate].
  - cbn. split; [auto|discriminate].
  - cbn. split; [auto|discriminate].
  - cbn [tinit prov_target prov_version_gate]. destruct (v <? 5) eqn:E; cbn [TI].
    + split; [exact I|]. intros rs [= <-]. cbn. lia.
    + split; [|discriminate]. split; [reflexivity|]. cbn. rewrite E. reflexivity.
  - cbn [tinit prov_target prov_version_gate]. destruct (v <? 6) eqn:E; cbn [TI].
    + split; [exact I|]. intros rs [= <-]. cbn. lia.
    + split; [|discriminate]. split; [reflexivity|]. cbn. rewrite E. reflexivity.
  - cbn [tinit prov_target prov_version_gate]. destruct (v <? 6) eqn:E; cbn [TI].
    + split; [exact I|]. intros rs [= <-]. cbn. lia.
    + split; [|discriminate]. split; [reflexivity|]. cbn. rewrite E. reflexivity.
  - cbn [tinit prov_target prov_version_gate]. destruct (v <? 1) eqn:E; cbn [TI].
    + split; [exact I|]. intros rs [= <-]. cbn. lia.
    + split; [|discriminate]. split; [reflexivity|]. cbn. rewrite E. reflexivity.
  - apply (Hal (mkActx cf v KPut [] [c])); reflexivity.
  - destruct (v <? 13) eqn:E.
    + cbn [tinit]. rewrite E. cbn [TI]. split; [exact I|]. intros rs [= <-]. cbn. lia.
    + apply (Hal (mkActx cf v KPost [] l)); cbn; rewrite E; reflexivity.
  - destruct (v <? 30) eqn:E.
    + cbn [tinit]. rewrite E. cbn [TI]. split; [exact I|]. intros rs [= <-]. cbn. lia.
    + apply (Hal (mkActx cf v KReshape ri al)); cbn; rewrite E; reflexivity.
Qed.

(* ================================================================ one scheduled step *)
Lemma step_thread_spec : forall i ts d ts' d', step_thread i ts d = (ts', d') ->
  length ts' = length ts /\
  (forall j, j <> i -> nth_error ts' j = nth_error ts j) /\
  match nth_error ts i with
  | None => ts' = ts /\ d' = d
  | Some t => exists t', tstep t d = (d', t') /\ nth_error ts' i = Some t'
  end.
Proof.
  induction i as [|i IH]; intros ts d ts' d' H; destruct ts as [|t ts]; cbn [step_thread] in H.
  - injection H as <- <-. cbn. auto.
  - destruct (tstep t d) as [d1 t1] eqn:E. injection H as <- <-. cbn [nth_error length]. split; [reflexivity|].
    split; [intros [|j] Hj; [congruence|reflexivity]|]. exists t1. auto.
  - injection H as <- <-. cbn. auto.
  - destruct (step_thread i ts d) as [ts1 d1] eqn:E. injection H as <- <-.
    destruct (IH ts d ts1 d1 E) as (L & O & M). cbn [nth_error length]. split; [congruence|].
    split; [intros [|j] Hj; [reflexivity|apply O; congruence]|].
    destruct (nth_error ts i); [exact M|]. destruct M as [-> ->]. auto.
Qed.

Lemma run_serial_app cf : forall l1 l2 d,
  run_serial cf (l1 ++ l2) d =
  let '(d1, t1) := run_serial cf l1 d in let '(d2, t2) := run_serial cf l2 d1 in (d2, t1 ++ t2).
Proof.
  induction l1 as [|r l1 IH]; intros l2 d; cbn [app run_serial].
  - destruct (run_serial cf l2 d) as [d2 t2]. reflexivity.
  - destruct (run_req cf r d) as [d1 t]. rewrite IH. destruct (run_serial cf l1 d1) as [d2 t1].
    destruct (run_serial cf l2 d2) as [d3 t2]. reflexivity.
Qed.

Section Sched.
Variables (cf : cfg) (reqs : list req) (d0 : db).
Hypothesis Hsw : single_wiper reqs.
Hypothesis Hcomp : completes cf reqs.

Definition rq (i : nat) : req := nth i reqs (RpDelete 0).

Definition Inv (ts : list tstate) (d : db) (log : list nat) : Prop :=
  ConsHas d /\ length ts = length reqs /\
  (forall i r t, nth_error reqs i = Some r -> nth_error ts i = Some t -> TI cf r d t) /\
  NoDup log /\ (forall i, In i log <-> succeeded ts i) /\
  core_eq (fst (run_serial cf (map rq log) d0)) d /\
  Forall2 (fun i t => nth_error ts i = Some t) log (snd (run_serial cf (map rq log) d0)).

Lemma succeeded_other ts ts' i j : j <> i -> nth_error ts' j = nth_error ts j -> (succeeded ts' j <-> succeeded ts j).
Proof. intros _ E. unfold succeeded. rewrite E. reflexivity. Qed.

(* the serial run of request r from a state core-equal to d *)
Lemma run_fuel_core n t d ds d'' rs : (exists rs0, snd (run_thread n t d) = TDone rs0) -> core_eq ds d ->
  reach t d (TDone rs) d'' ->
  core_eq (fst (run_thread n t ds)) d'' /\ snd (run_thread n t ds) = TDone rs.
Proof.
  intros [rs0 H0] Hce [m Hm]. rewrite C07e.run_thread_nsteps in *.
  destruct (nsteps n t d) as [dx tx] eqn:E. cbn [snd] in H0. subst tx.
  destruct (C07e.nsteps_done_unique _ _ _ _ _ _ _ _ E Hm) as [-> ->].
  destruct (C07e.nsteps_core n t ds d Hce) as [A B]. rewrite E in A, B. cbn [fst snd] in A, B. auto.
Qed.

Lemma run_req_eq r d : run_req cf r d = run_thread 1000 (tinit cf r) d.
Proof. unfold run_req. reflexivity. Qed.

Lemma run_req_core r d ds d'' rs : In r reqs -> core_eq ds d -> reach (tinit cf r) d (TDone rs) d'' ->
  core_eq (fst (run_req cf r ds)) d'' /\ snd (run_req cf r ds) = TDone rs.
Proof.
  intros Hin Hce Hr. pose proof (Hcomp r d Hin) as H. rewrite !run_req_eq in *.
  revert H. generalize 1000%nat. intros n H. apply (run_fuel_core n _ d); assumption.
Qed.

Lemma step_Inv i ts d log ts' d' : Inv ts d log -> step_thread i ts d = (ts', d') -> exists log', Inv ts' d' log'.
Proof.
  intros (HC & HL & HT & HN & HS & HE & HF) Hst.
  destruct (step_thread_spec _ _ _ _ _ Hst) as (L' & O & M).
  destruct (nth_error ts i) as [t|] eqn:Et.
  2:{ destruct M as [-> ->]. exists log. exact (conj HC (conj HL (conj HT (conj HN (conj HS (conj HE HF)))))). }
  destruct M as (t' & Hstep & Et').
  assert (Hlt : (i < length reqs)%nat) by (rewrite <- HL; apply nth_error_Some; congruence).
  destruct (nth_error reqs i) as [r|] eqn:Er; [|apply nth_error_None in Er; lia].
  pose proof (HT i r t Er Et) as HTi.
  assert (Hrin : In r reqs) by (eapply nth_error_In; eauto).
  assert (Hrq : rq i = r) by (unfold rq; apply nth_error_nth; exact Er).
  (* a step that leaves the core unchanged and does not make thread i succeed *)
  assert (Quiet : core_eq d d' -> TI cf r d' t' -> ~ succeeded ts i -> ~ succeeded ts' i -> exists log', Inv ts' d' log').
  { intros Hce HTi' Hns Hns'. exists log. split; [apply (core_eq_Step d d' Hce); exact HC|]. split; [congruence|]. split.
    - intros j rj tj Erj Etj. destruct (Nat.eq_dec j i) as [->|Hne].
      + rewrite Er in Erj. injection Erj as <-. rewrite Et' in Etj. injection Etj as <-. exact HTi'.
      + rewrite (O j Hne) in Etj. eapply TI_core_eq; [exact Hce|eapply HT; eauto].
    - split; [exact HN|]. split.
      + intros j. destruct (Nat.eq_dec j i) as [->|Hne].
        * rewrite HS. tauto.
        * rewrite HS. symmetry. apply (succeeded_other ts ts' i j Hne (O j Hne)).
      + split; [eapply C07e.core_eq_trans; eauto|].
        assert (Hni : ~ In i log) by (rewrite HS; exact Hns).
        clear - HF O Hni. induction HF as [|j tj l tl Hj HF IH]; constructor.
        * rewrite O; [exact Hj|]. intros ->. apply Hni. left. reflexivity.
        * apply IH. intros H. apply Hni. right. exact H. }
  assert (Hnd : forall t0, nth_error ts i = Some t0 -> (forall rs, t0 <> TDone rs) -> ~ succeeded ts i).
  { intros t0 E0 Hnd (rs & E & _). rewrite E0 in E. injection E as ->. eapply Hnd; eauto. }
  assert (Hfail : forall rs, t' = TDone rs -> 400 <= status rs -> ~ succeeded ts' i).
  { intros rs -> Hs (rs' & E & Hlt'). rewrite Et' in E. injection E as <-. lia. }
  (* a successful commit *)
  assert (Commit : forall rs d'', t' = TDone rs -> status rs < 300 -> (forall rs0, t <> TDone rs0) ->
            Step d d' -> Deletes d d' r -> reach (tinit cf r) d (TDone rs) d'' -> core_eq d'' d' ->
            exists log', Inv ts' d' log').
  { intros rs d'' -> Hsu Hnot HSt HDel Hreach Hce. exists (log ++ [i]).
    assert (Hni : ~ In i log) by (rewrite HS; eapply Hnd; eauto).
    destruct HSt as (T & D & Sc & SH). split; [apply SH; exact HC|]. split; [congruence|]. split.
    - intros j rj tj Erj Etj. destruct (Nat.eq_dec j i) as [->|Hne].
      + rewrite Et' in Etj. injection Etj as <-. exact I.
      + rewrite (O j Hne) in Etj. eapply TI_Step; [split; [exact T|split; [exact D|split; [exact Sc|exact SH]]]| |eapply HT; eauto].
        intros c Hw Hd Hd'. apply Hne. eapply (Hsw j i rj r c); eauto.
    - split.
      { clear - HN Hni. induction log as [|a l IH]; cbn; [constructor; [intros []|constructor]|].
        inversion HN as [|? ? H1 H2]; subst. constructor.
        - intros H. apply in_app_or in H. destruct H as [H|[<-|[]]]; [contradiction|]. apply Hni. left. reflexivity.
        - apply IH; [exact H2|]. intros H. apply Hni. right. exact H. }
      split.
      + intros j. rewrite in_app_iff. cbn [In]. destruct (Nat.eq_dec j i) as [->|Hne].
        * split; [intros _; exists rs; auto|auto].
        * rewrite HS, (succeeded_other ts ts' i j Hne (O j Hne)). split; [intros [H|[H|[]]]; [exact H|congruence]|auto].
      + rewrite map_app, run_serial_app. cbn [map]. rewrite Hrq.
        destruct (run_serial cf (map rq log) d0) as [ds tss] eqn:Es. cbn [fst snd] in HE, HF. cbn [run_serial].
        destruct (run_req_core r d ds d'' rs Hrin HE Hreach) as [A B].
        destruct (run_req cf r ds) as [dsx tx]. cbn [fst snd] in A, B |- *. subst tx.
        split; [eapply C07e.core_eq_trans; eauto|]. apply Forall2_app.
        * clear - HF O Hni. induction HF as [|j tj l tl Hj HF IH]; constructor.
          -- rewrite O; [exact Hj|]. intros ->. apply Hni. left. reflexivity.
          -- apply IH. intros H. apply Hni. right. exact H.
        * constructor; [exact Et'|constructor]. }
  destruct t; cbn [TI] in HTi; try contradiction.
  - (* TDone *) unfold tstep in Hstep. injection Hstep as <- <-.
    exists log. split; [exact HC|]. split; [congruence|]. split.
    + intros j rj tj Erj Etj. destruct (Nat.eq_dec j i) as [->|Hne]; [rewrite Et' in Etj; injection Etj as <-; exact I|].
      rewrite (O j Hne) in Etj. eapply HT; eauto.
    + split; [exact HN|]. assert (Hsame : forall j, nth_error ts' j = nth_error ts j).
      { intros j. destruct (Nat.eq_dec j i) as [->|Hne]; [congruence|apply O; exact Hne]. }
      split; [intros j; rewrite HS; unfold succeeded; rewrite Hsame; reflexivity|]. split; [exact HE|].
      clear - HF Hsame. induction HF; constructor; [rewrite Hsame; assumption|assumption].
  - (* TProvRead *)
    destruct (tstep_active cf r d _ d' t' HC (HT i r _ Er Et) I Hstep) as (A & B & C).
    apply Quiet; [exact A|exact B|eapply Hnd; eauto; discriminate|].
    intros (rs & E & Hlt'). rewrite Et' in E. injection E as ->. specialize (C rs eq_refl). lia.
  - (* TProvWrite *)
    destruct (tstep_provwrite cf r _ _ d d' t' (HT i r _ Er Et) Hstep) as (rs & -> & [[-> Hs]|(Hs & HSt & Hco & Hre)]).
    + apply Quiet; [apply C07e.core_eq_refl|exact I|eapply Hnd; eauto; discriminate|eapply Hfail; eauto].
    + eapply (Commit rs d'); eauto; [discriminate|apply Deletes_frame; exact Hco|apply C07e.core_eq_refl].
  - (* TRi *)
    destruct (tstep_active cf r d _ d' t' HC (HT i r _ Er Et) I Hstep) as (A & B & C).
    apply Quiet; [exact A|exact B|eapply Hnd; eauto; discriminate|].
    intros (rs & E & Hlt'). rewrite Et' in E. injection E as ->. specialize (C rs eq_refl). lia.
  - (* TCons *)
    destruct (tstep_active cf r d _ d' t' HC (HT i r _ Er Et) I Hstep) as (A & B & C).
    apply Quiet; [exact A|exact B|eapply Hnd; eauto; discriminate|].
    intros (rs & E & Hlt'). rewrite Et' in E. injection E as ->. specialize (C rs eq_refl). lia.
  - (* TObjs *)
    destruct (tstep_active cf r d _ d' t' HC (HT i r _ Er Et) I Hstep) as (A & B & C).
    apply Quiet; [exact A|exact B|eapply Hnd; eauto; discriminate|].
    intros (rs & E & Hlt'). rewrite Et' in E. injection E as ->. specialize (C rs eq_refl). lia.
  - (* TMain *)
    destruct (tstep_main cf r _ _ _ d d' t' (HT i r _ Er Et) Hstep) as (rs & -> & [[-> Hs]|(Hs & HSt & HDel & d'' & Hre & Hce)]).
    + apply Quiet; [apply C07e.core_eq_refl|exact I|eapply Hnd; eauto; discriminate|eapply Hfail; eauto].
    + eapply (Commit rs d''); eauto. discriminate.
Qed.

Lemma run_sched_Inv : forall s ts d log ts' d', Inv ts d log -> run_sched s ts d = (ts', d') -> exists log', Inv ts' d' log'.
Proof.
  induction s as [|i s IH]; intros ts d log ts' d' HI H; cbn [run_sched] in H.
  - injection H as <- <-. eauto.
  - destruct (step_thread i ts d) as [ts1 d1] eqn:E. destruct (step_Inv _ _ _ _ _ _ HI E) as [log1 HI1]. eapply IH; eauto.
Qed.
End Sched.

(* ================================================================ the theorem *)
Theorem c07_serializable_partial :
  forall cf reqs s d ts' d',
    RI d -> ConsIff d -> Forest d ->
    (forall r, In r reqs -> in_scope r /\ req_wf r = true) ->
    consumers_preexist reqs d -> single_wiper reqs -> completes cf reqs ->
    exec cf reqs s d = (ts', d') -> finished ts' ->
    exists order : list nat,
      NoDup order /\ (forall i, In i order <-> succeeded ts' i) /\
      core_state (fst (run_serial cf (map (fun i => nth i reqs (RpDelete 0)) order) d)) = core_state d' /\
      Forall2 (fun i t => nth_error ts' i = Some t) order
              (snd (run_serial cf (map (fun i => nth i reqs (RpDelete 0)) order) d)).
Proof.
  intros cf reqs s d ts' d' HRI HCI _ Hsc Hpre Hsw Hcomp Hex _. unfold exec in Hex.
  assert (Hinit : forall i r t, nth_error reqs i = Some r -> nth_error (map (tinit cf) reqs) i = Some t ->
            t = tinit cf r /\ TI cf r d t /\ (forall rs, t = TDone rs -> 400 <= status rs)).
  { intros i r t Er Et. rewrite (map_nth_error (tinit cf) i reqs Er) in Et. injection Et as <-.
    assert (Hin : In r reqs) by (eapply nth_error_In; eauto). destruct (Hsc r Hin) as [H1 H2].
    split; [reflexivity|]. apply tinit_TI; [exact H1|exact H2|]. intros k Hk. apply (Hpre r k Hin Hk). }
  assert (HI : Inv cf reqs d (map (tinit cf) reqs) d []).
  { split; [apply ConsHas_init; assumption|]. split; [apply map_length|]. split.
    - intros i r t Er Et. apply (Hinit i r t Er Et).
    - split; [constructor|]. split.
      + intros i. split; [intros []|]. intros (rs & E & Hlt).
        destruct (nth_error reqs i) as [r|] eqn:Er.
        * destruct (Hinit i r _ Er E) as (_ & _ & H). specialize (H rs eq_refl). lia.
        * apply nth_error_None in Er. assert (X : nth_error (map (tinit cf) reqs) i = None)
            by (apply nth_error_None; rewrite map_length; exact Er). congruence.
      + cbn. split; [apply C07e.core_eq_refl|constructor]. }
  destruct (run_sched_Inv cf reqs d Hsw Hcomp s _ _ _ _ _ HI Hex) as (log & _ & _ & _ & HN & HS & HE & HF).
  exists log. split; [exact HN|]. split; [exact HS|]. split; [|exact HF].
  apply C07e.core_eq_core_state. exact HE.
Qed.
Print Assumptions c07_serializable_partial.
