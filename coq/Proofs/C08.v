(* C08 - referential integrity of the stored records: proofs. *)
From PV Require Import Proofs.Defs.

(* ================================================================ basic list facts *)
Lemma memZ_In x l : memZ x l = true <-> In x l.
Proof.
  unfold memZ. rewrite existsb_exists. split.
  - intros [y [Hy E]]. apply Z.eqb_eq in E. subst. assumption.
  - intro H. exists x. split; [assumption|apply Z.eqb_refl].
Qed.
Lemma memZ_nIn x l : memZ x l = false <-> ~ In x l.
Proof. rewrite <- memZ_In. destruct (memZ x l); intuition congruence. Qed.

Lemma existsb_false_forall {A} (f : A -> bool) l :
  existsb f l = false -> forall x, In x l -> f x = false.
Proof.
  intros H x Hx. destruct (f x) eqn:E; [|reflexivity].
  assert (existsb f l = true) by (apply existsb_exists; eauto). congruence.
Qed.

(* key lists *)
Definition rpk (d : db) : list Z := map rp_uuid (rps d).
Definition ikey (i : inv) : Z * Z := (i_rp i, i_rc i).
Definition invk (d : db) : list (Z * Z) := map ikey (invs d).
Definition consk (d : db) : list Z := map c_uuid (consumers d).

Lemma find_rp_l_In l u : (exists r, find_rp_l l u = Some r) <-> In u (map rp_uuid l).
Proof.
  induction l as [|r l IH]; cbn [find_rp_l map In].
  - split; [intros [? H]; discriminate | intros []].
  - destruct (rp_uuid r =? u) eqn:E.
    + apply Z.eqb_eq in E. split; [auto | eauto].
    + apply Z.eqb_neq in E. rewrite IH. split; [auto | intros [H|H]; [contradiction|assumption]].
Qed.
Lemma find_rp_l_Some l u r : find_rp_l l u = Some r -> In r l /\ rp_uuid r = u.
Proof.
  induction l as [|x l IH]; cbn [find_rp_l In]; [discriminate|].
  destruct (rp_uuid x =? u) eqn:E.
  - intros [= <-]. apply Z.eqb_eq in E. auto.
  - intro H. destruct (IH H). auto.
Qed.
Lemma find_inv_l_In l u rc : (exists i, find_inv_l l u rc = Some i) <-> In (u, rc) (map ikey l).
Proof.
  induction l as [|i l IH]; cbn [find_inv_l map In].
  - split; [intros [? H]; discriminate | intros []].
  - destruct ((i_rp i =? u) && (i_rc i =? rc)) eqn:E.
    + apply andb_true_iff in E. destruct E as [E1 E2]. apply Z.eqb_eq in E1, E2.
      split; [intros _; left; unfold ikey; congruence | eauto].
    + rewrite IH. split; [auto|]. intros [H|H]; [|assumption].
      unfold ikey in H. injection H as H1 H2. subst. rewrite !Z.eqb_refl in E. discriminate.
Qed.
Lemma find_cons_l_In l u : (exists r, find_cons_l l u = Some r) <-> In u (map c_uuid l).
Proof.
  induction l as [|r l IH]; cbn [find_cons_l map In].
  - split; [intros [? H]; discriminate | intros []].
  - destruct (c_uuid r =? u) eqn:E.
    + apply Z.eqb_eq in E. split; [auto | eauto].
    + apply Z.eqb_neq in E. rewrite IH. split; [auto | intros [H|H]; [contradiction|assumption]].
Qed.
Lemma find_cons_l_Some l u r : find_cons_l l u = Some r -> In r l /\ c_uuid r = u.
Proof.
  induction l as [|x l IH]; cbn [find_cons_l In]; [discriminate|].
  destruct (c_uuid x =? u) eqn:E.
  - intros [= <-]. apply Z.eqb_eq in E. auto.
  - intro H. destruct (IH H). auto.
Qed.

Lemma rp_in_iff d u : rp_in d u <-> In u (rpk d).
Proof. unfold rp_in, find_rp, rpk. apply find_rp_l_In. Qed.
Lemma inv_in_iff d u rc : (exists i, find_inv d u rc = Some i) <-> In (u, rc) (invk d).
Proof. unfold find_inv, invk. apply find_inv_l_In. Qed.
Lemma cons_in_iff d u : (exists k, find_cons d u = Some k) <-> In u (consk d).
Proof. unfold find_cons, consk. apply find_cons_l_In. Qed.

(* ================================================================ refusals *)
Lemma c08_refuse_provider :
  forall cf d u d' rs, rp_in d u ->
    ((exists a, In a (allocs d) /\ a_rp a = u) \/ (exists r, In r (rps d) /\ rp_parent r = Some u)) ->
    step cf d (RpDelete u) = (d', rs) -> status rs = 409 /\ d' = d.
Proof.
  intros cf d u d' rs [r Hr] H. unfold step, h_rp_delete, rp_delete. rewrite Hr.
  destruct (existsb (fun r0 => oeqb (rp_parent r0) (Some u)) (rps d)) eqn:Ec.
  - intros [= <- <-]. split; reflexivity.
  - destruct H as [[a [Ha Ea]] | [c [Hc Ec']]].
    + assert (E : existsb (fun a0 => a_rp a0 =? u) (allocs d) = true).
      { apply existsb_exists. exists a. split; [assumption|]. apply Z.eqb_eq. assumption. }
      rewrite E. intros [= <- <-]. split; reflexivity.
    + exfalso. pose proof (existsb_false_forall _ _ Ec c Hc) as F. cbv beta in F.
      rewrite Ec' in F. cbn in F. rewrite Z.eqb_refl in F. discriminate.
Qed.

Lemma c08_refuse_inventory :
  forall cf d u rc d' rs, rp_in d u -> rc_exists d rc = true ->
    (exists a, In a (allocs d) /\ a_rp a = u /\ a_rc a = rc) ->
    step cf d (InvDelete u rc) = (d', rs) -> status rs = 409 /\ d' = d.
Proof.
  intros cf d u rc d' rs [r Hr] Hrc [a [Ha [E1 E2]]].
  unfold step, h_inv_delete, delete_inventory, delete_inventory_from_provider. rewrite Hr, Hrc.
  assert (E : existsb (has_alloc_on d u) [rc] = true).
  { cbn [existsb]. apply orb_true_iff. left. unfold has_alloc_on. apply existsb_exists.
    exists a. split; [assumption|]. subst. rewrite !Z.eqb_refl. reflexivity. }
  cbn [negb]. rewrite E. cbn [bind]. intros [= <- <-]. split; reflexivity.
Qed.

Lemma c08_refuse_inventory_all :
  forall cf d v u d' rs, rp_in d u -> 5 <= v ->
    (exists a i, In a (allocs d) /\ a_rp a = u /\ In i (invs d) /\ i_rp i = u /\ i_rc i = a_rc a) ->
    step cf d (InvDeleteAll v u) = (d', rs) -> status rs = 409 /\ d' = d.
Proof.
  intros cf d v u d' rs [r Hr] Hv [a [i [Ha [E1 [Hi [E2 E3]]]]]].
  unfold step, h_inv_delete_all. destruct (v <? 5) eqn:Ev; [apply Z.ltb_lt in Ev; lia|].
  rewrite Hr. unfold set_inventory, delete_inventory_from_provider. cbn [forallb negb map].
  match goal with |- context [existsb (has_alloc_on d u) ?l] =>
    assert (E : existsb (has_alloc_on d u) l = true) end.
  { apply existsb_exists. exists (a_rc a). split.
    - apply filter_In. split; [|reflexivity]. unfold rcs_of. apply in_map_iff. exists i. split; [assumption|].
      apply filter_In. split; [assumption|]. apply Z.eqb_eq. assumption.
    - unfold has_alloc_on. apply existsb_exists. exists a. split; [assumption|].
      rewrite E1, !Z.eqb_refl. reflexivity. }
  rewrite E. cbn [bind]. intros [= <- <-]. split; reflexivity.
Qed.

Lemma c08_refuse_class :
  forall cf d v n id d' rs, 2 <= v -> rc_id_of_name d n = Some id ->
    (id < MIN_CUSTOM_RC_ID \/ exists i, In i (invs d) /\ i_rc i = id) ->
    step cf d (RcDelete v n) = (d', rs) ->
    (status rs = (if id <? MIN_CUSTOM_RC_ID then 400 else 409)) /\ d' = d.
Proof.
  intros cf d v n id d' rs Hv Hid H. unfold step, h_rc_delete, rc_destroy.
  destruct (v <? 2) eqn:Ev; [apply Z.ltb_lt in Ev; lia|]. rewrite Hid.
  destruct (id <? MIN_CUSTOM_RC_ID) eqn:El.
  - intros [= <- <-]. split; reflexivity.
  - destruct H as [H|[i [Hi Ei]]]; [apply Z.ltb_ge in El; lia|].
    assert (E : existsb (fun i0 => i_rc i0 =? id) (invs d) = true).
    { apply existsb_exists. exists i. split; [assumption|]. apply Z.eqb_eq. assumption. }
    rewrite E. intros [= <- <-]. split; reflexivity.
Qed.

Lemma c08_refuse_trait :
  forall cf d v t d' rs, 6 <= v -> trait_exists d t = true ->
    (is_std_trait t = true \/ exists x, In x (rp_traits d) /\ snd x = t) ->
    step cf d (TraitDelete v t) = (d', rs) ->
    (status rs = (if is_std_trait t then 400 else 409)) /\ d' = d.
Proof.
  intros cf d v t d' rs Hv Ht H. unfold step, h_trait_delete, trait_destroy.
  destruct (v <? 6) eqn:Ev; [apply Z.ltb_lt in Ev; lia|]. rewrite Ht. cbn [negb].
  destruct (is_std_trait t) eqn:Es.
  - intros [= <- <-]. split; reflexivity.
  - destruct H as [H|[x [Hx Ex]]]; [discriminate|].
    assert (E : existsb (fun x0 => snd x0 =? t) (rp_traits d) = true).
    { apply existsb_exists. exists x. split; [assumption|]. apply Z.eqb_eq. assumption. }
    rewrite E. intros [= <- <-]. split; reflexivity.
Qed.

Lemma c08_cascade :
  forall cf d u d' rs, Forest d -> RI d ->
    step cf d (RpDelete u) = (d', rs) -> is_success rs -> ~ mentions d' u.
Proof.
  intros cf d u d' rs _ _. unfold step, h_rp_delete, rp_delete, is_success.
  destruct (find_rp d u) eqn:Hf; [|intros [= <- <-]; cbn; lia].
  destruct (existsb (fun r0 => oeqb (rp_parent r0) (Some u)) (rps d)); [intros [= <- <-]; cbn; lia|].
  destruct (existsb (fun a => a_rp a =? u) (allocs d)) eqn:Ea; [intros [= <- <-]; cbn; lia|].
  intros [= <- <-] _. unfold mentions. rewrite rp_in_iff. unfold rpk. cbn.
  intros [H|[[i [Hi Ei]]|[[a [Ha Ea']]|[[x [Hx Ex]]|[x [Hx Ex]]]]]].
  - apply in_map_iff in H. destruct H as [r' [E Hr']]. apply filter_In in Hr'. destruct Hr' as [_ Hr'].
    rewrite E, Z.eqb_refl in Hr'. discriminate.
  - apply filter_In in Hi. destruct Hi as [_ Hi]. rewrite Ei, Z.eqb_refl in Hi. discriminate.
  - pose proof (existsb_false_forall _ _ Ea a Ha) as F. cbv beta in F. rewrite Ea', Z.eqb_refl in F. discriminate.
  - apply filter_In in Hx. destruct Hx as [_ Hx]. rewrite Ex, Z.eqb_refl in Hx. discriminate.
  - apply filter_In in Hx. destruct Hx as [_ Hx]. rewrite Ex, Z.eqb_refl in Hx. discriminate.
Qed.

(* ================================================================ RI over key lists *)
Definition RA (d : db) : Prop := forall a, In a (allocs d) ->
  In (a_rp a) (rpk d) /\ In (a_rp a, a_rc a) (invk d) /\ In (a_cons a) (consk d).
Definition RV (d : db) : Prop :=
  forall k, In k (invk d) -> In (fst k) (rpk d) /\ rc_exists d (snd k) = true.
Definition RT (d : db) : Prop :=
  forall x, In x (rp_traits d) -> In (fst x) (rpk d) /\ trait_exists d (snd x) = true.
Definition RG (d : db) : Prop :=
  forall x, In x (rp_aggs d) -> In (fst x) (rpk d) /\ In (snd x) (aggs d).
Definition RI2 (d : db) : Prop := RA d /\ RV d /\ RT d /\ RG d.

Lemma RI_RI2 d : RI d <-> RI2 d.
Proof.
  unfold RI, RI2, RA, RV, RT, RG. split; intros [HA [HV [HT HG]]]; (split; [|split; [|split]]).
  - intros a Ha. destruct (HA a Ha) as [H1 [H2 H3]].
    rewrite rp_in_iff in H1. rewrite inv_in_iff in H2. rewrite cons_in_iff in H3. auto.
  - intros k Hk. unfold invk in Hk. apply in_map_iff in Hk. destruct Hk as [i [<- Hi]].
    destruct (HV i Hi) as [H1 H2]. rewrite rp_in_iff in H1. cbn. auto.
  - intros x Hx. destruct (HT x Hx) as [H1 H2]. rewrite rp_in_iff in H1. auto.
  - intros x Hx. destruct (HG x Hx) as [H1 H2]. rewrite rp_in_iff in H1. auto.
  - intros a Ha. destruct (HA a Ha) as [H1 [H2 H3]].
    rewrite rp_in_iff, inv_in_iff, cons_in_iff. auto.
  - intros i Hi. rewrite rp_in_iff. apply (HV (ikey i)). unfold invk. apply in_map. assumption.
  - intros x Hx. rewrite rp_in_iff. auto.
  - intros x Hx. rewrite rp_in_iff. auto.
Qed.

Lemma RI2_mono d d' :
  incl (allocs d') (allocs d) -> incl (rpk d) (rpk d') -> incl (invk d) (invk d') ->
  incl (consk d) (consk d') -> incl (invk d') (invk d) ->
  (forall rc, rc_exists d rc = true -> rc_exists d' rc = true) ->
  incl (rp_traits d') (rp_traits d) ->
  (forall t, trait_exists d t = true -> trait_exists d' t = true) ->
  incl (rp_aggs d') (rp_aggs d) -> incl (aggs d) (aggs d') -> RI2 d -> RI2 d'.
Proof.
  intros Hal Hrp Hik Hck Hik' Hrc Hrt Htr Hra Hag [HA [HV [HT HG]]]. split; [|split; [|split]].
  - intros a Ha. destruct (HA a (Hal a Ha)) as [H1 [H2 H3]].
    split; [apply Hrp; assumption|split; [apply Hik|apply Hck]; assumption].
  - intros k Hk. destruct (HV k (Hik' k Hk)). split; [apply Hrp|apply Hrc]; assumption.
  - intros x Hx. destruct (HT x (Hrt x Hx)). split; [apply Hrp|apply Htr]; assumption.
  - intros x Hx. destruct (HG x (Hra x Hx)). split; [apply Hrp|apply Hag]; assumption.
Qed.
Ltac mono := apply RI2_mono; try apply incl_refl; try (intros; assumption).

Lemma RI2_set_rps d x : incl (rpk d) (map rp_uuid x) -> RI2 d -> RI2 (set_rps d x).
Proof. intro H. mono. Qed.
Lemma RI2_set_consumers d x : incl (consk d) (map c_uuid x) -> RI2 d -> RI2 (set_consumers d x).
Proof. intro H. mono. Qed.
Lemma RI2_set_invs_keys d x : map ikey x = invk d -> RI2 d -> RI2 (set_invs d x).
Proof.
  intro H. mono; change (invk (set_invs d x)) with (map ikey x); rewrite H; apply incl_refl.
Qed.
Lemma RI2_set_allocs_incl d x : incl x (allocs d) -> RI2 d -> RI2 (set_allocs d x).
Proof. intro H. mono. Qed.

Lemma bind_Ok {A B} (r : result A) (f : A -> result B) b :
  bind r f = Ok b -> exists a, r = Ok a /\ f a = Ok b.
Proof. destruct r; cbn [bind]; [eauto|discriminate]. Qed.

(* the rows other than the auxiliary tables and consumers agree; consumers only grow *)
Definition ext (d0 d1 : db) : Prop :=
  rps d1 = rps d0 /\ invs d1 = invs d0 /\ allocs d1 = allocs d0 /\ rcs d1 = rcs d0 /\
  traits d1 = traits d0 /\ aggs d1 = aggs d0 /\ rp_aggs d1 = rp_aggs d0 /\ rp_traits d1 = rp_traits d0 /\
  incl (consk d0) (consk d1).
Lemma ext_refl d : ext d d.
Proof. unfold ext. repeat (split; [reflexivity|]). apply incl_refl. Qed.
Lemma ext_trans a b c : ext a b -> ext b c -> ext a c.
Proof.
  unfold ext. intros [A1 [A2 [A3 [A4 [A5 [A6 [A7 [A8 A9]]]]]]]] [B1 [B2 [B3 [B4 [B5 [B6 [B7 [B8 B9]]]]]]]].
  repeat (split; [congruence|]). eapply incl_tran; eassumption.
Qed.
Lemma RI2_ext d0 d1 : ext d0 d1 -> RI2 d0 -> RI2 d1.
Proof.
  intros [A1 [A2 [A3 [A4 [A5 [A6 [A7 [A8 A9]]]]]]]].
  apply RI2_mono; unfold rpk, invk, rc_exists, trait_exists;
    rewrite ?A1, ?A2, ?A3, ?A4, ?A5, ?A6, ?A7, ?A8; try apply incl_refl; try (intros; assumption).
Qed.

(* ================================================================ generations *)
Lemma cas_rp_l_keys l u g l' : cas_rp_l l u g = Some l' -> map rp_uuid l' = map rp_uuid l.
Proof.
  revert l'. induction l as [|r l IH]; cbn [cas_rp_l]; intros l'; [discriminate|].
  destruct (rp_uuid r =? u).
  - destruct (rp_gen r =? g); [|discriminate]. intros [= <-]. reflexivity.
  - destruct (cas_rp_l l u g) as [l''|]; [|discriminate]. intros [= <-]. cbn [map]. rewrite (IH l''); reflexivity.
Qed.
Lemma cas_cons_l_keys l u g l' : cas_cons_l l u g = Some l' -> map c_uuid l' = map c_uuid l.
Proof.
  revert l'. induction l as [|r l IH]; cbn [cas_cons_l]; intros l'; [discriminate|].
  destruct (c_uuid r =? u).
  - destruct (c_gen r =? g); [|discriminate]. intros [= <-]. reflexivity.
  - destruct (cas_cons_l l u g) as [l''|]; [|discriminate]. intros [= <-]. cbn [map]. rewrite (IH l''); reflexivity.
Qed.
Lemma incr_rp_gen_spec d u g d' :
  incr_rp_gen d u g = Ok d' -> exists x, d' = set_rps d x /\ map rp_uuid x = rpk d.
Proof.
  unfold incr_rp_gen. destruct (cas_rp_l (rps d) u g) as [l|] eqn:E; [|discriminate].
  intros [= <-]. exists l. split; [reflexivity|]. eapply cas_rp_l_keys; eassumption.
Qed.
Lemma incr_cons_gen_spec d u g d' :
  incr_cons_gen d u g = Ok d' -> exists x, d' = set_consumers d x /\ map c_uuid x = consk d.
Proof.
  unfold incr_cons_gen. destruct (cas_cons_l (consumers d) u g) as [l|] eqn:E; [|discriminate].
  intros [= <-]. exists l. split; [reflexivity|]. eapply cas_cons_l_keys; eassumption.
Qed.
Lemma incr_rp_gen_RI d u g d' : RI2 d -> incr_rp_gen d u g = Ok d' -> RI2 d'.
Proof.
  intros H E. apply incr_rp_gen_spec in E. destruct E as [x [-> E]].
  apply RI2_set_rps; [rewrite E; apply incl_refl|assumption].
Qed.
Lemma cas_rps_spec l : forall d d',
  cas_rps d l = Ok d' -> exists x, d' = set_rps d x /\ map rp_uuid x = rpk d.
Proof.
  induction l as [|[u g] l IH]; cbn [cas_rps]; intros d d'.
  - intros [= <-]. exists (rps d). split; [destruct d; reflexivity|reflexivity].
  - intro H. apply bind_Ok in H. destruct H as [d1 [H1 H2]].
    apply incr_rp_gen_spec in H1. destruct H1 as [x1 [-> E1]].
    apply IH in H2. destruct H2 as [x2 [-> E2]]. exists x2. split; [reflexivity|].
    rewrite E2. exact E1.
Qed.
Lemma cas_conss_spec l : forall d d',
  cas_conss d l = Ok d' -> exists x, d' = set_consumers d x /\ map c_uuid x = consk d.
Proof.
  induction l as [|[u g] l IH]; cbn [cas_conss]; intros d d'.
  - intros [= <-]. exists (consumers d). split; [destruct d; reflexivity|reflexivity].
  - intro H. apply bind_Ok in H. destruct H as [d1 [H1 H2]].
    apply incr_cons_gen_spec in H1. destruct H1 as [x1 [-> E1]].
    apply IH in H2. destruct H2 as [x2 [-> E2]]. exists x2. split; [reflexivity|].
    rewrite E2. exact E1.
Qed.

Ltac sd := cbn [rps invs allocs consumers projects users ctypes rcs traits aggs rp_aggs rp_traits
                set_rps set_invs set_allocs set_consumers set_projects set_users set_ctypes set_rcs
                set_traits set_aggs set_rp_aggs set_rp_traits] in *.

Lemma in_map_filter {A B} (f : A -> B) (p : A -> bool) l y :
  In y (map f (filter p l)) <-> exists x, In x l /\ p x = true /\ f x = y.
Proof.
  rewrite in_map_iff. split.
  - intros [x [E H]]. apply filter_In in H. destruct H. eauto.
  - intros [x [H [P E]]]. exists x. split; [assumption|]. apply filter_In. auto.
Qed.

(* ================================================================ providers *)
Lemma map_uuid_pres (f : rp -> rp) l :
  (forall r, rp_uuid (f r) = rp_uuid r) -> map rp_uuid (map f l) = map rp_uuid l.
Proof. intro H. rewrite map_map. apply map_ext. exact H. Qed.

Lemma rp_create_RI d u name parent d' : RI2 d -> rp_create d u name parent = Ok d' -> RI2 d'.
Proof.
  intros H E. unfold rp_create in E. apply bind_Ok in E. destruct E as [root [_ E]].
  destruct (existsb _ (rps d)); [discriminate|]. injection E as <-.
  apply RI2_set_rps; [|assumption]. rewrite map_app. apply incl_appl, incl_refl.
Qed.

Lemma rp_update_RI d me name np al d' : RI2 d -> rp_update d me name np al = Ok d' -> RI2 d'.
Proof.
  intros H E. unfold rp_update in E. apply bind_Ok in E. destruct E as [upd [_ E]].
  destruct (name_taken d name (rp_uuid me)); [discriminate|]. injection E as <-.
  apply RI2_set_rps; [|assumption].
  rewrite map_uuid_pres.
  2:{ intro r. destruct (rp_uuid r =? rp_uuid me) eqn:E; [apply Z.eqb_eq in E; cbn; auto|reflexivity]. }
  destruct upd as [[[par root] sub]|]; [|apply incl_refl].
  unfold set_roots. rewrite map_uuid_pres.
  2:{ intro r. destruct (memZ (rp_uuid r) sub); reflexivity. }
  rewrite map_uuid_pres.
  2:{ intro r. destruct (rp_uuid r =? rp_uuid me) eqn:E; [apply Z.eqb_eq in E; cbn; auto|reflexivity]. }
  apply incl_refl.
Qed.

Lemma rpk_filter d u w :
  In w (rpk d) -> w <> u -> In w (map rp_uuid (filter (fun r => negb (rp_uuid r =? u)) (rps d))).
Proof.
  intros H Hne. unfold rpk in H. apply in_map_iff in H. destruct H as [r [E Hr]].
  apply in_map_filter. exists r. split; [assumption|split; [|assumption]].
  apply negb_true_iff, Z.eqb_neq. congruence.
Qed.

Lemma rp_delete_RI d u d' : RI2 d -> rp_delete d u = Ok d' -> RI2 d'.
Proof.
  intros [HA [HV [HT HG]]]. unfold rp_delete.
  destruct (existsb _ (rps d)); [discriminate|].
  destruct (existsb (fun a => a_rp a =? u) (allocs d)) eqn:Ea; [discriminate|].
  destruct (find_rp d u); [|discriminate]. intros [= <-]. split; [|split; [|split]].
  - intros a Ha. sd. destruct (HA a Ha) as [H1 [H2 H3]].
    assert (Hne : a_rp a <> u).
    { apply Z.eqb_neq. exact (existsb_false_forall _ _ Ea a Ha). }
    split; [|split; [|exact H3]].
    + unfold rpk at 1. sd. apply rpk_filter; assumption.
    + unfold invk in *. sd. apply in_map_iff in H2. destruct H2 as [i [Ei Hi]].
      apply in_map_filter. exists i. split; [assumption|split; [|assumption]].
      apply negb_true_iff, Z.eqb_neq. unfold ikey in Ei. congruence.
  - intros k Hk. unfold invk in Hk. sd. apply in_map_filter in Hk. destruct Hk as [i [Hi [P Ek]]].
    apply negb_true_iff, Z.eqb_neq in P.
    destruct (HV k) as [H1 H2]; [unfold invk; apply in_map_iff; eauto|].
    split; [|exact H2]. unfold rpk at 1. sd. apply rpk_filter; [assumption|]. subst k. exact P.
  - intros x Hx. sd. apply filter_In in Hx. destruct Hx as [Hx P]. apply negb_true_iff, Z.eqb_neq in P.
    destruct (HT x Hx) as [H1 H2]. split; [|exact H2]. unfold rpk at 1. sd. apply rpk_filter; assumption.
  - intros x Hx. sd. apply filter_In in Hx. destruct Hx as [Hx P]. apply negb_true_iff, Z.eqb_neq in P.
    destruct (HG x Hx) as [H1 H2]. split; [|exact H2]. unfold rpk at 1. sd. apply rpk_filter; assumption.
Qed.

(* ================================================================ inventories *)
Lemma delete_inv_RI d u td d' :
  RI2 d -> delete_inventory_from_provider d u td = Ok d' -> RI2 d' /\ exists x, d' = set_invs d x.
Proof.
  intros [HA [HV [HT HG]]]. unfold delete_inventory_from_provider.
  destruct (existsb (has_alloc_on d u) td) eqn:E; [discriminate|]. intros [= <-].
  split; [|eexists; reflexivity]. split; [|split; [|split]]; [| |exact HT|exact HG].
  - intros a Ha. destruct (HA a Ha) as [H1 [H2 H3]]. split; [exact H1|split; [|exact H3]].
    unfold invk in *. sd. apply in_map_iff in H2. destruct H2 as [i [Ei Hi]].
    apply in_map_filter. exists i. split; [assumption|split; [|assumption]].
    destruct ((i_rp i =? u) && memZ (i_rc i) td) eqn:F; [|reflexivity]. exfalso.
    apply andb_true_iff in F. destruct F as [F1 F2]. apply Z.eqb_eq in F1. apply memZ_In in F2.
    pose proof (existsb_false_forall _ _ E _ F2) as G. unfold has_alloc_on in G.
    pose proof (existsb_false_forall _ _ G a Ha) as G'. cbv beta in G'.
    unfold ikey in Ei. injection Ei as E1 E2. rewrite <- E1, <- E2, F1, !Z.eqb_refl in G'. discriminate.
  - intros k Hk. apply HV. unfold invk in *. sd. apply in_map_filter in Hk.
    destruct Hk as [i [Hi [_ Ek]]]. apply in_map_iff. eauto.
Qed.

Lemma add_inv_RI d u l :
  RI2 d -> In u (rpk d) -> (forall x, In x l -> rc_exists d (ii_rc x) = true) ->
  RI2 (add_inventory_to_provider d u l).
Proof.
  intros [HA [HV [HT HG]]] Hu Hl. unfold add_inventory_to_provider.
  split; [|split; [|split]]; [| |exact HT|exact HG].
  - intros a Ha. destruct (HA a Ha) as [H1 [H2 H3]]. split; [exact H1|split; [|exact H3]].
    unfold invk in *. sd. rewrite map_app. apply in_or_app. left. assumption.
  - intros k Hk. unfold invk in Hk. sd. rewrite map_app in Hk. apply in_app_or in Hk. destruct Hk as [Hk|Hk].
    + apply HV. exact Hk.
    + apply in_map_iff in Hk. destruct Hk as [i [<- Hi]]. apply in_map_iff in Hi. destruct Hi as [x [<- Hx]].
      cbn. split; [exact Hu|apply Hl; assumption].
Qed.

Lemma replace_inv_keys l n : map ikey (replace_inv l n) = map ikey l.
Proof.
  induction l as [|i l IH]; cbn [replace_inv map]; [reflexivity|].
  destruct ((i_rp i =? i_rp n) && (i_rc i =? i_rc n)) eqn:E; cbn [map].
  - apply andb_true_iff in E. destruct E as [E1 E2]. apply Z.eqb_eq in E1, E2. unfold ikey. congruence.
  - rewrite IH. reflexivity.
Qed.

Lemma update_inv_spec u l : forall d d',
  update_inventory_for_provider d u l = Ok d' -> exists x, d' = set_invs d x /\ map ikey x = invk d.
Proof.
  induction l as [|x l IH]; cbn [update_inventory_for_provider]; intros d d'.
  - intros [= <-]. exists (invs d). split; [destruct d; reflexivity|reflexivity].
  - destruct (find_inv d u (ii_rc x)); [|discriminate]. intro H. apply IH in H.
    destruct H as [x2 [-> E]]. exists x2. split; [reflexivity|]. rewrite E. unfold invk. sd.
    apply replace_inv_keys.
Qed.

Lemma set_inventory_RI d u g l d' :
  RI2 d -> In u (rpk d) -> set_inventory d u g l = Ok d' ->
  RI2 d' /\ exists xi xr, d' = set_rps (set_invs d xi) xr /\ map rp_uuid xr = rpk d.
Proof.
  intros H Hu. unfold set_inventory.
  destruct (negb (forallb (fun x => rc_exists d (ii_rc x)) l)) eqn:Ef; [discriminate|].
  apply negb_false_iff in Ef. rewrite forallb_forall in Ef.
  intro E. apply bind_Ok in E. destruct E as [d1 [E1 E]]. apply bind_Ok in E. destruct E as [d3 [E3 E]].
  apply (delete_inv_RI _ _ _ _ H) in E1. destruct E1 as [H1 [x1 ->]].
  apply update_inv_spec in E3. destruct E3 as [x3 [-> K3]].
  apply incr_rp_gen_spec in E. destruct E as [xr [-> Kr]].
  split.
  - apply RI2_set_rps; [rewrite Kr; apply incl_refl|]. apply RI2_set_invs_keys; [exact K3|].
    apply add_inv_RI; [exact H1|exact Hu|]. intros x Hx. apply filter_In in Hx. destruct Hx as [Hx _].
    apply (Ef x Hx).
  - eexists. exists xr. split; [reflexivity|exact Kr].
Qed.

Lemma add_inventory_RI d u g x d' : RI2 d -> In u (rpk d) -> add_inventory d u g x = Ok d' -> RI2 d'.
Proof.
  intros H Hu. unfold add_inventory. destruct (rc_exists d (ii_rc x)) eqn:Er; [|discriminate]. cbn [negb].
  destruct (find_inv d u (ii_rc x)); [discriminate|]. intro E.
  eapply incr_rp_gen_RI; [|exact E]. apply add_inv_RI; [assumption|assumption|].
  intros y [<-|[]]. exact Er.
Qed.

Lemma update_inventory_RI d u g x d' : RI2 d -> update_inventory d u g x = Ok d' -> RI2 d'.
Proof.
  intros H. unfold update_inventory. destruct (negb (rc_exists d (ii_rc x))); [discriminate|].
  intro E. apply bind_Ok in E. destruct E as [d1 [E1 E]].
  apply update_inv_spec in E1. destruct E1 as [x1 [-> K]].
  eapply incr_rp_gen_RI; [|exact E]. apply RI2_set_invs_keys; assumption.
Qed.

Lemma delete_inventory_RI d u g rc d' : RI2 d -> delete_inventory d u g rc = Ok d' -> RI2 d'.
Proof.
  intros H. unfold delete_inventory. destruct (negb (rc_exists d rc)); [discriminate|].
  intro E. apply bind_Ok in E. destruct E as [d1 [E1 E]].
  apply (delete_inv_RI _ _ _ _ H) in E1. destruct E1 as [H1 _].
  destruct (find_inv d u rc); [|discriminate]. eapply incr_rp_gen_RI; eassumption.
Qed.

(* ---------------------------------------------------------------- handlers: providers, inventories *)
Lemma find_rp_rpk d u r : find_rp d u = Some r -> In u (rpk d).
Proof. intro H. apply rp_in_iff. exists r. exact H. Qed.

Lemma h_rp_create_RI d v u name parent : RI2 d -> RI2 (fst (h_rp_create d v u name parent)).
Proof.
  intro H. unfold h_rp_create. destruct ((v <? 14) && _); [assumption|].
  destruct (rp_create d u name parent) as [d'|e] eqn:E; [|destruct e; assumption].
  cbn [fst]. eapply rp_create_RI; eassumption.
Qed.
Lemma h_rp_update_RI d v u name parent : RI2 d -> RI2 (fst (h_rp_update d v u name parent)).
Proof.
  intro H. unfold h_rp_update. destruct (find_rp d u) as [me|]; [|assumption].
  destruct ((v <? 14) && _); [assumption|].
  destruct (rp_update d me name _ (37 <=? v)) as [d'|e] eqn:E; [|destruct e; assumption].
  cbn [fst]. eapply rp_update_RI; eassumption.
Qed.
Lemma h_rp_delete_RI d u : RI2 d -> RI2 (fst (h_rp_delete d u)).
Proof.
  intro H. unfold h_rp_delete. destruct (find_rp d u) as [me|]; [|assumption].
  destruct (rp_delete d u) as [d'|e] eqn:E; [|destruct e; assumption].
  cbn [fst]. eapply rp_delete_RI; eassumption.
Qed.
Lemma h_inv_set_RI d v u g l : RI2 d -> RI2 (fst (h_inv_set d v u g l)).
Proof.
  intro H. unfold h_inv_set. destruct (find_rp d u) as [me|] eqn:Hf; [|assumption].
  apply find_rp_rpk in Hf. destruct (negb _); [assumption|]. destruct (existsb _ l); [assumption|].
  destruct (set_inventory d u (rp_gen me) l) as [d'|e] eqn:E; [|destruct e; assumption].
  cbn [fst]. eapply set_inventory_RI; eassumption.
Qed.
Lemma h_inv_post_RI d v u x : RI2 d -> RI2 (fst (h_inv_post d v u x)).
Proof.
  intro H. unfold h_inv_post. destruct (find_rp d u) as [me|] eqn:Hf; [|assumption].
  apply find_rp_rpk in Hf. destruct (bad_capacity v x); [assumption|].
  destruct (add_inventory d u (rp_gen me) x) as [d'|e] eqn:E; [|destruct e; assumption].
  cbn [fst]. eapply add_inventory_RI; eassumption.
Qed.
Lemma h_inv_put_RI d v u g x : RI2 d -> RI2 (fst (h_inv_put d v u g x)).
Proof.
  intro H. unfold h_inv_put. destruct (find_rp d u) as [me|] eqn:Hf; [|assumption].
  destruct (negb _); [assumption|]. destruct (bad_capacity v x); [assumption|].
  destruct (update_inventory d u (rp_gen me) x) as [d'|e] eqn:E; [|destruct e; assumption].
  cbn [fst]. eapply update_inventory_RI; eassumption.
Qed.
Lemma h_inv_delete_RI d u rc : RI2 d -> RI2 (fst (h_inv_delete d u rc)).
Proof.
  intro H. unfold h_inv_delete. destruct (find_rp d u) as [me|] eqn:Hf; [|assumption].
  destruct (delete_inventory d u (rp_gen me) rc) as [d'|e] eqn:E; [|destruct e; assumption].
  cbn [fst]. eapply delete_inventory_RI; eassumption.
Qed.
Lemma h_inv_delete_all_RI d v u : RI2 d -> RI2 (fst (h_inv_delete_all d v u)).
Proof.
  intro H. unfold h_inv_delete_all. destruct (v <? 5); [assumption|].
  destruct (find_rp d u) as [me|] eqn:Hf; [|assumption]. apply find_rp_rpk in Hf.
  destruct (set_inventory d u (rp_gen me) []) as [d'|e] eqn:E; [|destruct e; assumption].
  cbn [fst]. eapply set_inventory_RI; eassumption.
Qed.

(* ================================================================ traits / aggregates *)
Lemma set_traits_txn_RI d u g want d' :
  RI2 d -> In u (rpk d) -> (forall t, In t want -> trait_exists d t = true) ->
  set_traits_txn d u g want = Ok d' -> RI2 d'.
Proof.
  intros H Hu Hw. unfold set_traits_txn. cbv zeta.
  remember (filter (fun t => negb (memZ t (traits_of d u))) want) as ta eqn:Eta.
  remember (filter (fun t => negb (memZ t want)) (traits_of d u)) as td eqn:Etd.
  assert (K : forall d',
    incr_rp_gen (set_rp_traits d (filter (fun x => negb ((fst x =? u) && memZ (snd x) td)) (rp_traits d)
                                   ++ map (fun t => (u, t)) ta)) u g = Ok d' -> RI2 d').
  { intros d'' E. eapply incr_rp_gen_RI; [|exact E]. destruct H as [HA [HV [HT HG]]].
    split; [|split; [|split]]; [exact HA|exact HV| |exact HG].
    intros x Hx. sd. apply in_app_or in Hx. destruct Hx as [Hx|Hx].
    - apply filter_In in Hx. destruct Hx as [Hx _]. exact (HT x Hx).
    - apply in_map_iff in Hx. destruct Hx as [t [<- Ht]]. cbn [fst snd]. split; [exact Hu|].
      apply Hw. rewrite Eta in Ht. apply filter_In in Ht. tauto. }
  clear Eta Etd. destruct ta; destruct td; try apply K. intros [= <-]. exact H.
Qed.

Lemma set_aggregates_txn_RI d u g want incr d' :
  RI2 d -> In u (rpk d) -> set_aggregates_txn d u g want incr = Ok d' -> RI2 d'.
Proof.
  intros H Hu. unfold set_aggregates_txn. cbv zeta.
  match goal with |- (if _ then incr_rp_gen ?X _ _ else _) = _ -> _ => assert (K : RI2 X) end.
  { destruct H as [HA [HV [HT HG]]]. split; [|split; [|split]]; [exact HA|exact HV|exact HT|].
    intros x Hx. sd. apply in_app_or in Hx. destruct Hx as [Hx|Hx].
    - apply filter_In in Hx. destruct Hx as [Hx _]. destruct (HG x Hx) as [H1 H2].
      split; [exact H1|]. apply in_or_app. left. exact H2.
    - apply in_map_iff in Hx. destruct Hx as [a [<- Ha]]. cbn [fst snd]. split; [exact Hu|].
      destruct (memZ a (aggs d)) eqn:M.
      + apply in_or_app. left. apply memZ_In. exact M.
      + apply in_or_app. right. apply filter_In. split; [exact Ha|]. rewrite M. reflexivity. }
  destruct incr.
  - intro E. eapply incr_rp_gen_RI; eassumption.
  - intros [= <-]. exact K.
Qed.

Lemma h_traits_set_RI d v u g ts : RI2 d -> RI2 (fst (h_traits_set d v u g ts)).
Proof.
  intro H. unfold h_traits_set. destruct (v <? 6); [assumption|].
  destruct (find_rp d u) as [me|] eqn:Hf; [|assumption]. apply find_rp_rpk in Hf.
  destruct (negb (g =? rp_gen me)); [assumption|].
  destruct (forallb (trait_exists d) ts) eqn:Ef; [|assumption]. cbn [negb].
  destruct (set_traits_txn d u (rp_gen me) ts) as [d'|e] eqn:E; [|assumption].
  cbn [fst]. eapply set_traits_txn_RI; try eassumption. rewrite forallb_forall in Ef. exact Ef.
Qed.
Lemma h_traits_delete_RI d v u : RI2 d -> RI2 (fst (h_traits_delete d v u)).
Proof.
  intro H. unfold h_traits_delete. destruct (v <? 6); [assumption|].
  destruct (find_rp d u) as [me|] eqn:Hf; [|assumption]. apply find_rp_rpk in Hf.
  destruct (set_traits_txn d u (rp_gen me) []) as [d'|e] eqn:E; [|assumption].
  cbn [fst]. eapply set_traits_txn_RI; try eassumption. intros t [].
Qed.
Lemma h_aggs_set_RI d v u g l : RI2 d -> RI2 (fst (h_aggs_set d v u g l)).
Proof.
  intro H. unfold h_aggs_set. destruct (v <? 1); [assumption|].
  destruct (find_rp d u) as [me|] eqn:Hf; [|assumption]. apply find_rp_rpk in Hf.
  destruct ((19 <=? v) && negb (g =? rp_gen me)); [assumption|].
  destruct (set_aggregates_txn d u (rp_gen me) (dedup l) (19 <=? v)) as [d'|e] eqn:E; [|assumption].
  cbn [fst]. eapply set_aggregates_txn_RI; eassumption.
Qed.

(* ================================================================ resource classes / traits *)
Lemma rc_create_RI d n d' : RI2 d -> rc_create d n = Ok d' -> RI2 d'.
Proof.
  intro H. unfold rc_create. destruct (rc_id_of_name d n); [discriminate|]. intros [= <-].
  revert H. mono. intro rc. unfold rc_exists. sd. rewrite existsb_app.
  destruct ((0 <=? rc) && (rc <? n_std_rc)); [reflexivity|]. cbn [orb]. intros ->. reflexivity.
Qed.

Lemma rc_destroy_RI d n d' : RI2 d -> rc_destroy d n = Ok d' -> RI2 d'.
Proof.
  intros [HA [HV [HT HG]]]. unfold rc_destroy. destruct (rc_id_of_name d n) as [id|]; [|discriminate].
  destruct (id <? MIN_CUSTOM_RC_ID); [discriminate|].
  destruct (existsb (fun i => i_rc i =? id) (invs d)) eqn:Ei; [discriminate|]. intros [= <-].
  split; [|split; [|split]]; [exact HA| |exact HT|exact HG].
  intros k Hk. destruct (HV k Hk) as [H1 H2]. split; [exact H1|].
  change (invk (set_rcs d (filter (fun x => negb (fst x =? id)) (rcs d)))) with (invk d) in Hk.
  unfold invk in Hk. apply in_map_iff in Hk. destruct Hk as [i [<- Hi]].
  pose proof (existsb_false_forall _ _ Ei i Hi) as F. cbv beta in F. cbn [snd ikey] in *.
  unfold rc_exists in *. sd. apply orb_true_iff in H2. destruct H2 as [->|H2]; [reflexivity|].
  apply orb_true_iff. right. apply existsb_exists in H2. destruct H2 as [x [Hx Ex]].
  apply existsb_exists. exists x. split; [|exact Ex]. apply filter_In. split; [exact Hx|].
  apply Z.eqb_eq in Ex. rewrite Ex, F. reflexivity.
Qed.

Lemma existsb_map_fst (f : Z * Z -> Z * Z) l rc :
  (forall x, fst (f x) = fst x) ->
  existsb (fun x => fst x =? rc) (map f l) = existsb (fun x => fst x =? rc) l.
Proof. intro H. induction l as [|x l IH]; cbn [map existsb]; [reflexivity|]. rewrite H, IH. reflexivity. Qed.

Lemma rc_rename_RI d old new d' : RI2 d -> rc_rename d old new = Ok d' -> RI2 d'.
Proof.
  intro H. unfold rc_rename. destruct (rc_id_of_name d old) as [id|]; [|discriminate].
  destruct (id <? MIN_CUSTOM_RC_ID); [discriminate|]. destruct (_ || is_std_rc_name new); [discriminate|].
  intros [= <-]. revert H. mono. intro rc. unfold rc_exists. sd. rewrite existsb_map_fst; [auto|].
  intro x. destruct (fst x =? id) eqn:E; [apply Z.eqb_eq in E; cbn; auto|reflexivity].
Qed.

Lemma trait_create_RI d t d' : RI2 d -> trait_create d t = Ok d' -> RI2 d'.
Proof.
  intro H. unfold trait_create. destruct (trait_exists d t); [discriminate|]. intros [= <-].
  revert H. mono. intro t'. unfold trait_exists, memZ. sd. rewrite existsb_app.
  destruct (is_std_trait t'); [reflexivity|]. cbn [orb]. intros ->. reflexivity.
Qed.

Lemma trait_destroy_RI d t d' : RI2 d -> trait_destroy d t = Ok d' -> RI2 d'.
Proof.
  intros [HA [HV [HT HG]]]. unfold trait_destroy. destruct (negb (trait_exists d t)); [discriminate|].
  destruct (is_std_trait t); [discriminate|].
  destruct (existsb (fun x => snd x =? t) (rp_traits d)) eqn:Ex; [discriminate|]. intros [= <-].
  split; [|split; [|split]]; [exact HA|exact HV| |exact HG].
  intros x Hx. destruct (HT x Hx) as [H1 H2]. split; [exact H1|].
  pose proof (existsb_false_forall _ _ Ex x Hx) as F. cbv beta in F.
  unfold trait_exists in *. sd. apply orb_true_iff in H2. destruct H2 as [->|H2]; [reflexivity|].
  apply orb_true_iff. right. apply memZ_In. apply memZ_In in H2. apply filter_In. split; [exact H2|].
  rewrite F. reflexivity.
Qed.

Lemma h_rc_create_RI d v n : RI2 d -> RI2 (fst (h_rc_create d v n)).
Proof.
  intro H. unfold h_rc_create. destruct (v <? 2); [assumption|]. destruct (is_std_rc_name n); [assumption|].
  destruct (rc_create d n) as [d'|e] eqn:E; [|assumption]. cbn [fst]. eapply rc_create_RI; eassumption.
Qed.
Lemma h_rc_put_RI d v n : RI2 d -> RI2 (fst (h_rc_put d v n)).
Proof.
  intro H. unfold h_rc_put. destruct (v <? 2); [assumption|]. destruct (v <? 7); [assumption|]. destruct (is_std_rc_name n); [assumption|].
  destruct (rc_id_of_name d n); [assumption|].
  destruct (rc_create d n) as [d'|e] eqn:E; [|assumption]. cbn [fst]. eapply rc_create_RI; eassumption.
Qed.
Lemma h_rc_rename_RI d v old new : RI2 d -> RI2 (fst (h_rc_rename d v old new)).
Proof.
  intro H. unfold h_rc_rename. destruct (v <? 2); [assumption|]. destruct (6 <? v); [apply h_rc_put_RI; assumption|].
  destruct (is_std_rc_name new); [assumption|].
  destruct (rc_rename d old new) as [d'|e] eqn:E; [|destruct e; assumption].
  cbn [fst]. eapply rc_rename_RI; eassumption.
Qed.
Lemma h_rc_delete_RI d v n : RI2 d -> RI2 (fst (h_rc_delete d v n)).
Proof.
  intro H. unfold h_rc_delete. destruct (v <? 2); [assumption|].
  destruct (rc_destroy d n) as [d'|e] eqn:E; [|destruct e; assumption].
  cbn [fst]. eapply rc_destroy_RI; eassumption.
Qed.
Lemma h_trait_put_RI d v t : RI2 d -> RI2 (fst (h_trait_put d v t)).
Proof.
  intro H. unfold h_trait_put. destruct (v <? 6); [assumption|]. destruct (is_std_trait t); [assumption|].
  destruct (trait_create d t) as [d'|e] eqn:E; [|assumption]. cbn [fst]. eapply trait_create_RI; eassumption.
Qed.
Lemma h_trait_delete_RI d v t : RI2 d -> RI2 (fst (h_trait_delete d v t)).
Proof.
  intro H. unfold h_trait_delete. destruct (v <? 6); [assumption|].
  destruct (trait_destroy d t) as [d'|e] eqn:E; [|destruct e; assumption].
  cbn [fst]. eapply trait_destroy_RI; eassumption.
Qed.

(* ================================================================ consumers without allocations *)
Lemma delete_cons_RI d cs : RI2 d -> RI2 (delete_consumers_if_no_allocations d cs).
Proof.
  intros [HA [HV [HT HG]]]. unfold delete_consumers_if_no_allocations.
  split; [|split; [|split]]; [|exact HV|exact HT|exact HG].
  intros a Ha. destruct (HA a Ha) as [H1 [H2 H3]]. split; [exact H1|split; [exact H2|]].
  unfold consk in *. sd. apply in_map_iff in H3. destruct H3 as [k [Ek Hk]].
  apply in_map_filter. exists k. split; [exact Hk|split; [|exact Ek]].
  assert (E : existsb (fun a0 => a_cons a0 =? c_uuid k) (allocs d) = true).
  { apply existsb_exists. exists a. split; [exact Ha|]. apply Z.eqb_eq. congruence. }
  rewrite E. cbn [negb]. rewrite andb_false_r. reflexivity.
Qed.

Lemma h_alloc_delete_RI d c : RI2 d -> RI2 (fst (h_alloc_delete d c)).
Proof.
  intro H. unfold h_alloc_delete. destruct (wipe_list d c); [assumption|]. cbn [fst].
  apply delete_cons_RI. apply RI2_set_allocs_incl; [|assumption].
  intros a0 Ha. apply filter_In in Ha. tauto.
Qed.

(* ================================================================ _set_allocations *)
Lemma check_loop_inv d : forall l seen, check_loop d seen l = Ok tt ->
  forall a, In a l -> q_amt a <> 0 -> In (q_rp a, q_rc a) (invk d).
Proof.
  induction l as [|x l IH]; cbn [check_loop]; intros seen; [intros _ a []|].
  destruct (q_amt x =? 0) eqn:E0.
  - intros H a [<-|Ha] Hnz; [apply Z.eqb_eq in E0; contradiction|]. eapply IH; eassumption.
  - destruct (find_inv d (q_rp x) (q_rc x)) as [i|] eqn:Ei; [|discriminate].
    destruct (_ || _ || _); [discriminate|]. destruct (_ || _); [discriminate|].
    intros H a [<-|Ha] Hnz; [apply inv_in_iff; eauto|eapply IH; eassumption].
Qed.

Lemma check_capacity_loop d l u : check_capacity d l = Ok u -> check_loop d [] l = Ok tt.
Proof.
  unfold check_capacity. destruct (negb (forallb _ l)); [discriminate|].
  destruct (existsb _ l); [discriminate|]. destruct u. auto.
Qed.

Lemma set_allocations_RI d l d' :
  RI2 d -> (forall q, In q l -> In (q_rp q) (rpk d)) -> (forall q, In q l -> In (q_cons q) (consk d)) ->
  set_allocations d l = Ok d' ->
  RI2 d' /\ rpk d' = rpk d /\
  (forall a, In a (allocs d') ->
     In a (allocs d) \/ exists q, In q l /\ q_amt q <> 0 /\ a_cons a = q_cons q).
Proof.
  intros H Hrp Hc. unfold set_allocations. cbv zeta.
  set (d1 := set_allocs d (filter (fun a => negb (memZ (a_cons a) (map q_cons l))) (allocs d))).
  set (d2 := set_allocs d1 (allocs d1 ++ map (fun a => mkAlloc (q_cons a) (q_rp a) (q_rc a) (q_amt a))
                                              (filter (fun a => negb (q_amt a =? 0)) l))).
  intro E. apply bind_Ok in E. destruct E as [u [Ecap E]]. apply bind_Ok in E. destruct E as [d3 [E3 E]].
  apply bind_Ok in E. destruct E as [d4 [E4 E]]. injection E as <-.
  apply check_capacity_loop in Ecap.
  apply cas_rps_spec in E3. destruct E3 as [xr [-> Kr]].
  apply cas_conss_spec in E4. destruct E4 as [xc [-> Kc]].
  assert (H1 : RI2 d1).
  { apply RI2_set_allocs_incl; [|exact H]. intros a Ha. apply filter_In in Ha. tauto. }
  assert (H2 : RI2 d2).
  { destruct H1 as [HA [HV [HT HG]]]. split; [|split; [|split]]; [|exact HV|exact HT|exact HG].
    intros a Ha. unfold d2 in Ha. sd. apply in_app_or in Ha. destruct Ha as [Ha|Ha]; [exact (HA a Ha)|].
    apply in_map_iff in Ha. destruct Ha as [q [<- Hq]]. apply filter_In in Hq. destruct Hq as [Hq Hnz].
    apply negb_true_iff, Z.eqb_neq in Hnz. cbn [a_rp a_rc a_cons].
    split; [exact (Hrp q Hq)|split; [|exact (Hc q Hq)]].
    exact (check_loop_inv d1 l [] Ecap q Hq Hnz). }
  split; [|split].
  - apply delete_cons_RI. apply RI2_set_consumers; [rewrite Kc; apply incl_refl|].
    apply RI2_set_rps; [rewrite Kr; apply incl_refl|]. exact H2.
  - exact Kr.
  - intros a Ha. unfold delete_consumers_if_no_allocations, d2, d1 in Ha. sd.
    apply in_app_or in Ha. destruct Ha as [Ha|Ha].
    + left. apply filter_In in Ha. tauto.
    + right. apply in_map_iff in Ha. destruct Ha as [q [<- Hq]]. apply filter_In in Hq. destruct Hq as [Hq Hnz].
      apply negb_true_iff, Z.eqb_neq in Hnz. exists q. cbn [a_cons]. auto.
Qed.

(* ================================================================ consumers of a request *)
Definition Rkc (k : cobj) (c : cons_in) : Prop := co_uuid k = ci_uuid c.

Lemma ensure_consumer_spec cf v d c d1 o :
  ensure_consumer cf v d c = (d1, o) ->
  ext d d1 /\
  match o with
  | None => True
  | Some k => co_uuid k = ci_uuid c /\ In (co_uuid k) (consk d1) /\
              (co_created k = true -> ~ In (co_uuid k) (consk d))
  end.
Proof.
  unfold ensure_consumer. cbv beta zeta.
  set (d0 := set_users (set_projects d _) _).
  assert (X0 : ext d d0).
  { unfold ext, d0, consk. sd. repeat (split; [reflexivity|]). apply incl_refl. }
  destruct (find_cons d0 (ci_uuid c)) as [k0|] eqn:Hf.
  - apply find_cons_l_Some in Hf. destruct Hf as [Hin Hu].
    destruct ((28 <=? v) && negb _); [intros [= <- <-]; split; [exact X0|exact I]|].
    destruct (38 <=? v); intros [= <- <-]; cbn [co_uuid co_created].
    + split; [unfold ext, d0, consk; sd; repeat (split; [reflexivity|]); apply incl_refl|].
      split; [exact Hu|split; [|discriminate]]. unfold consk. sd. apply in_map. exact Hin.
    + split; [exact X0|]. split; [exact Hu|split; [|discriminate]]. unfold consk. apply in_map. exact Hin.
  - assert (Hn : ~ In (ci_uuid c) (consk d)).
    { intro Hin. apply cons_in_iff in Hin. destruct Hin as [k Hk].
      change (find_cons d0 (ci_uuid c) = Some k) in Hk. congruence. }
    destruct ((28 <=? v) && _); [intros [= <- <-]; split; [exact X0|exact I]|].
    destruct (38 <=? v); intros [= <- <-]; cbn [co_uuid co_created].
    + split; [unfold ext, d0, consk; sd; repeat (split; [reflexivity|]); rewrite map_app; apply incl_appl, incl_refl|].
      split; [reflexivity|split; [|intros _; exact Hn]]. unfold consk. sd. rewrite map_app.
      apply in_or_app. right. left. reflexivity.
    + split; [unfold ext, d0, consk; sd; repeat (split; [reflexivity|]); rewrite map_app; apply incl_appl, incl_refl|].
      split; [reflexivity|split; [|intros _; exact Hn]]. unfold consk. sd. rewrite map_app.
      apply in_or_app. right. left. reflexivity.
Qed.

Lemma update_consumer_ext d k : ext d (update_consumer d k).
Proof.
  unfold update_consumer. cbv zeta. destruct (_ || _); [|apply ext_refl].
  unfold consumer_update, ext, consk. sd. repeat (split; [reflexivity|]).
  rewrite map_map. erewrite map_ext; [apply incl_refl|].
  intro x. cbv beta. destruct ((c_uuid x =? co_uuid k) && (c_gen x =? co_gen k)) eqn:E; [|reflexivity].
  apply andb_true_iff in E. destruct E as [E _]. apply Z.eqb_eq in E. cbn. auto.
Qed.
Lemma fold_update_ext ks : forall d, ext d (fold_left update_consumer ks d).
Proof.
  induction ks as [|k ks IH]; cbn [fold_left]; intro d; [apply ext_refl|].
  eapply ext_trans; [apply update_consumer_ext|apply IH].
Qed.

Lemma consk_delete_created d ks u :
  In u (consk (delete_created d ks)) <->
  In u (consk d) /\ ~ In u (map co_uuid (filter co_created ks)).
Proof.
  unfold delete_created, consk. cbv zeta. sd. rewrite in_map_filter. split.
  - intros [x [Hx [P E]]]. subst u. apply negb_true_iff, memZ_nIn in P. split; [apply in_map; exact Hx|exact P].
  - intros [H1 H2]. apply in_map_iff in H1. destruct H1 as [x [E Hx]]. exists x.
    split; [exact Hx|split; [|exact E]]. apply negb_true_iff, memZ_nIn. congruence.
Qed.

Lemma RI_delete_created d ks :
  RI2 d -> (forall a, In a (allocs d) -> ~ In (a_cons a) (map co_uuid (filter co_created ks))) ->
  RI2 (delete_created d ks).
Proof.
  intros [HA [HV [HT HG]]] Hn. split; [|split; [|split]]; [|exact HV|exact HT|exact HG].
  intros a Ha. destruct (HA a Ha) as [H1 [H2 H3]]. split; [exact H1|split; [exact H2|]].
  apply consk_delete_created. split; [exact H3|apply Hn; exact Ha].
Qed.

Lemma RI_err d0 d1 ks :
  RI2 d0 -> ext d0 d1 ->
  (forall k, In k ks -> co_created k = true -> ~ In (co_uuid k) (consk d0)) ->
  RI2 (delete_created d1 ks).
Proof.
  intros H X Hk. apply RI_delete_created; [eapply RI2_ext; eassumption|].
  intros a Ha Hin. apply in_map_iff in Hin. destruct Hin as [k [Ek Hin]]. apply filter_In in Hin.
  destruct Hin as [Hin Hcr]. destruct X as [_ [_ [Xa _]]]. rewrite Xa in Ha.
  destruct H as [HA _]. destruct (HA a Ha) as [_ [_ H3]]. apply (Hk k Hin Hcr). rewrite Ek. exact H3.
Qed.

Lemma inspect_none cf v d0 : RI2 d0 -> forall l d acc d1,
  ext d0 d -> (forall k, In k acc -> co_created k = true -> ~ In (co_uuid k) (consk d0)) ->
  inspect_consumers cf v d acc l = (d1, None) -> RI2 d1.
Proof.
  intros H0. induction l as [|c l IH]; cbn [inspect_consumers]; intros d acc d1 X Hacc; [discriminate|].
  destruct (ensure_consumer cf v d c) as [dm o] eqn:Ee. apply ensure_consumer_spec in Ee.
  destruct Ee as [Xm S]. assert (X' : ext d0 dm) by (eapply ext_trans; eassumption).
  destruct o as [k|].
  - apply IH; [exact X'|]. intros k' [<-|Hk'].
    + intros Hcr Hin. destruct S as [_ [_ S3]]. apply (S3 Hcr). destruct X as [_ [_ [_ [_ [_ [_ [_ [_ Xc]]]]]]]].
      apply Xc. exact Hin.
    + apply Hacc. exact Hk'.
  - intros [= <-]. eapply RI_err; eassumption.
Qed.

Lemma inspect_some cf v : forall l d acc d1 ks,
  inspect_consumers cf v d acc l = (d1, Some ks) ->
  ext d d1 /\ exists ks', ks = rev acc ++ ks' /\ Forall2 Rkc ks' l /\
    (forall k, In k ks' -> In (co_uuid k) (consk d1) /\ (co_created k = true -> ~ In (co_uuid k) (consk d))).
Proof.
  induction l as [|c l IH]; cbn [inspect_consumers]; intros d acc d1 ks.
  - intros [= <- <-]. split; [apply ext_refl|]. exists []. rewrite app_nil_r.
    split; [reflexivity|split; [constructor|intros k []]].
  - destruct (ensure_consumer cf v d c) as [dm o] eqn:Ee. apply ensure_consumer_spec in Ee.
    destruct Ee as [Xm S]. destruct o as [k|]; [|discriminate].
    intro E. apply IH in E. destruct E as [X1 [ks' [-> [F Hk]]]]. destruct S as [S1 [S2 S3]].
    split; [eapply ext_trans; eassumption|]. exists (k :: ks'). cbn [rev]. rewrite <- app_assoc.
    split; [reflexivity|split; [constructor; assumption|]].
    intros k' [<-|Hk'].
    + split; [|exact S3]. destruct X1 as [_ [_ [_ [_ [_ [_ [_ [_ Xc]]]]]]]]. apply Xc. exact S2.
    + destruct (Hk k' Hk') as [P1 P2]. split; [exact P1|]. intros Hcr Hin. apply (P2 Hcr).
      destruct Xm as [_ [_ [_ [_ [_ [_ [_ [_ Xc]]]]]]]]. apply Xc. exact Hin.
Qed.

Lemma wipe_list_spec d c q :
  In q (wipe_list d c) -> In (q_rp q) (rpk d) /\ q_cons q = c /\ q_amt q = 0.
Proof.
  unfold wipe_list. destruct (find_cons d c) as [k|]; [|intros []]. intro H.
  apply in_flat_map in H. destruct H as [a [Ha H]]. destruct (a_cons a =? c); [|destruct H].
  destruct (find_rp d (a_rp a)) as [r|] eqn:Hf; [|destruct H]. destruct H as [<-|[]]. cbn.
  split; [eapply find_rp_rpk; eassumption|auto].
Qed.

Lemma new_allocs_spec d k : forall l objs, new_allocs d k l = Some objs ->
  forall q, In q objs -> In (q_rp q) (rpk d) /\ q_cons q = co_uuid k.
Proof.
  induction l as [|a l IH]; cbn [new_allocs]; intros objs.
  - intros [= <-] q [].
  - destruct (find_rp d (ai_rp a)) as [r|] eqn:Hf; [|discriminate].
    destruct (new_allocs d k l) as [rest|]; [|discriminate]. intros [= <-] q Hq.
    apply in_app_or in Hq. destruct Hq as [Hq|Hq].
    + apply in_map_iff in Hq. destruct Hq as [x [<- _]]. cbn. split; [eapply find_rp_rpk; eassumption|reflexivity].
    + exact (IH rest eq_refl q Hq).
Qed.

Lemma alloc_objs_spec d k al objs : alloc_objs d k al = Some objs ->
  forall q, In q objs -> In (q_rp q) (rpk d) /\ q_cons q = co_uuid k /\ (q_amt q <> 0 -> al <> []).
Proof.
  unfold alloc_objs. destruct al as [|a al].
  - intros [= <-] q Hq. apply wipe_list_spec in Hq. destruct Hq as [P1 [P2 P3]].
    split; [exact P1|split; [exact P2|]]. intro. contradiction.
  - intros E q Hq. destruct (new_allocs_spec _ _ _ _ E q Hq) as [P1 P2].
    split; [exact P1|split; [exact P2|]]. intros _. discriminate.
Qed.

Lemma alloc_list_spec d : forall ks l, Forall2 Rkc ks l -> forall objs,
  alloc_list d ks l = Some objs ->
  forall q, In q objs -> In (q_rp q) (rpk d) /\
    exists k c, In k ks /\ In c l /\ q_cons q = co_uuid k /\ co_uuid k = ci_uuid c /\
                (q_amt q <> 0 -> ci_allocs c <> []).
Proof.
  induction 1 as [|k c ks l R F IH]; cbn [alloc_list]; intros objs.
  - intros [= <-] q [].
  - destruct (alloc_objs d k (ci_allocs c)) as [a|] eqn:Ea; [|discriminate].
    destruct (alloc_list d ks l) as [b|]; [|discriminate]. intros [= <-] q Hq.
    apply in_app_or in Hq. destruct Hq as [Hq|Hq].
    + destruct (alloc_objs_spec _ _ _ _ Ea q Hq) as [P1 [P2 P3]]. split; [exact P1|].
      exists k, c. split; [left; reflexivity|split; [left; reflexivity|auto]].
    + destruct (IH b eq_refl q Hq) as [P1 [k' [c' [Q1 [Q2 Q3]]]]]. split; [exact P1|].
      exists k', c'. split; [right; exact Q1|split; [right; exact Q2|exact Q3]].
Qed.

Lemma empty_created_spec : forall ks l, Forall2 Rkc ks l -> forall k,
  In k (empty_created ks l) ->
  In k ks /\ exists c, In c l /\ ci_allocs c = [] /\ co_uuid k = ci_uuid c.
Proof.
  induction 1 as [|k c ks l R F IH]; cbn [empty_created]; intros k0; [intros []|].
  destruct (ci_allocs c) eqn:Ea.
  - intros [<-|Hk].
    + split; [left; reflexivity|]. exists c. split; [left; reflexivity|auto].
    + destruct (IH k0 Hk) as [P1 [c' [Q1 Q2]]]. split; [right; exact P1|]. exists c'. split; [right; exact Q1|exact Q2].
  - intro Hk. destruct (IH k0 Hk) as [P1 [c' [Q1 Q2]]]. split; [right; exact P1|]. exists c'. split; [right; exact Q1|exact Q2].
Qed.

Lemma nodupb_inj {A} (f : A -> Z) : forall l, nodupb (map f l) = true ->
  forall x y, In x l -> In y l -> f x = f y -> x = y.
Proof.
  induction l as [|a l IH]; cbn [map nodupb]; intros H x y; [intros []|].
  apply andb_true_iff in H. destruct H as [H1 H2]. apply negb_true_iff, memZ_nIn in H1.
  intros [<-|Hx] [<-|Hy] E.
  - reflexivity.
  - exfalso. apply H1. rewrite E. apply in_map. exact Hy.
  - exfalso. apply H1. rewrite <- E. apply in_map. exact Hx.
  - apply IH; assumption.
Qed.

(* removing the consumers the request created but allocates nothing to *)
Lemma finish d0 d2 ks l objs :
  RI2 d0 -> RI2 d2 ->
  (forall a, In a (allocs d2) ->
     In a (allocs d0) \/ exists q, In q objs /\ q_amt q <> 0 /\ a_cons a = q_cons q) ->
  Forall2 Rkc ks l -> nodupb (map ci_uuid l) = true ->
  (forall k, In k ks -> co_created k = true -> ~ In (co_uuid k) (consk d0)) ->
  (forall q, In q objs -> q_amt q <> 0 -> exists c, In c l /\ ci_allocs c <> [] /\ q_cons q = ci_uuid c) ->
  RI2 (delete_created d2 (empty_created ks l)).
Proof.
  intros H0 H2 Hal F Hnd Hks Hobjs. apply RI_delete_created; [exact H2|].
  intros a Ha Hin. apply in_map_iff in Hin. destruct Hin as [k [Ek Hin]]. apply filter_In in Hin.
  destruct Hin as [Hin Hcr]. destruct (empty_created_spec _ _ F k Hin) as [Hk [c [Hc [Hempty Ekc]]]].
  destruct (Hal a Ha) as [Hold|[q [Hq [Hnz Eq]]]].
  - destruct H0 as [HA _]. destruct (HA a Hold) as [_ [_ H3]]. apply (Hks k Hk Hcr). rewrite Ek. exact H3.
  - destruct (Hobjs q Hq Hnz) as [c' [Hc' [Hne Eq']]].
    assert (c = c') by (apply (nodupb_inj ci_uuid l Hnd); [assumption|assumption|congruence]).
    subst c'. contradiction.
Qed.

(* ================================================================ PUT / POST allocations *)
Lemma h_alloc_put_RI cf d v c : RI2 d -> RI2 (fst (h_alloc_put cf d v c)).
Proof.
  intro H. unfold h_alloc_put. destruct (ensure_consumer cf v d c) as [d1 o] eqn:Ee.
  apply ensure_consumer_spec in Ee. destruct Ee as [X S].
  destruct o as [k|]; [|cbn [fst]; eapply RI2_ext; eassumption]. destruct S as [S1 [S2 S3]].
  assert (Hks : forall k0, In k0 [k] -> co_created k0 = true -> ~ In (co_uuid k0) (consk d)).
  { intros k0 [<-|[]]. exact S3. }
  destruct (alloc_objs d1 k (ci_allocs c)) as [objs|] eqn:Ea; [|cbn [fst]; eapply RI_err; eassumption].
  destruct (set_allocations (update_consumer d1 k) objs) as [d2|e] eqn:Es;
    [|cbn [fst]; eapply RI_err; eassumption]. cbn [fst].
  pose proof (update_consumer_ext d1 k) as XU.
  assert (XX : ext d (update_consumer d1 k)) by (eapply ext_trans; eassumption).
  apply set_allocations_RI in Es.
  - destruct Es as [R2 [_ Hal]]. apply (finish d d2 [k] [c] objs); try assumption.
    + intros a Ha. destruct (Hal a Ha) as [L|R]; [left|right; exact R].
      destruct XX as [_ [_ [Xa _]]]. rewrite <- Xa. exact L.
    + constructor; [exact S1|constructor].
    + reflexivity.
    + intros q Hq Hnz. exists c. split; [left; reflexivity|].
      destruct (alloc_objs_spec _ _ _ _ Ea q Hq) as [_ [P2 P3]]. split; [auto|congruence].
  - eapply RI2_ext; eassumption.
  - intros q Hq. destruct (alloc_objs_spec _ _ _ _ Ea q Hq) as [P1 _].
    destruct XU as [Xr _]. unfold rpk. rewrite Xr. exact P1.
  - intros q Hq. destruct (alloc_objs_spec _ _ _ _ Ea q Hq) as [_ [P2 _]].
    destruct XU as [_ [_ [_ [_ [_ [_ [_ [_ Xc]]]]]]]]. apply Xc. rewrite P2. exact S2.
Qed.

Lemma h_alloc_post_RI cf d v l :
  RI2 d -> nodupb (map ci_uuid l) = true -> RI2 (fst (h_alloc_post cf d v l)).
Proof.
  intros H Hnd. unfold h_alloc_post. destruct (v <? 13); [assumption|].
  destruct (inspect_consumers cf v d [] l) as [d1 o] eqn:Ei. destruct o as [ks|].
  2:{ cbn [fst]. eapply (inspect_none cf v d H l d [] d1); [apply ext_refl|intros k []|exact Ei]. }
  apply inspect_some in Ei. destruct Ei as [X [ks' [-> [F Hk]]]]. cbn [rev app].
  assert (Hks : forall k0, In k0 ks' -> co_created k0 = true -> ~ In (co_uuid k0) (consk d)).
  { intros k0 Hk0. exact (proj2 (Hk k0 Hk0)). }
  destruct (alloc_list d1 ks' l) as [objs|] eqn:Ea; [|cbn [fst]; eapply RI_err; eassumption].
  destruct (set_allocations (fold_left update_consumer ks' d1) objs) as [d2|e] eqn:Es;
    [|cbn [fst]; eapply RI_err; eassumption]. cbn [fst].
  pose proof (fold_update_ext ks' d1) as XU.
  assert (XX : ext d (fold_left update_consumer ks' d1)) by (eapply ext_trans; eassumption).
  apply set_allocations_RI in Es.
  - destruct Es as [R2 [_ Hal]]. apply (finish d d2 ks' l objs); try assumption.
    + intros a Ha. destruct (Hal a Ha) as [L|R]; [left|right; exact R].
      destruct XX as [_ [_ [Xa _]]]. rewrite <- Xa. exact L.
    + intros q Hq Hnz. destruct (alloc_list_spec d1 ks' l F objs Ea q Hq) as [_ [k [c [Q1 [Q2 [Q3 [Q4 Q5]]]]]]].
      exists c. split; [exact Q2|split; [auto|congruence]].
  - eapply RI2_ext; eassumption.
  - intros q Hq. destruct (alloc_list_spec d1 ks' l F objs Ea q Hq) as [P1 _].
    destruct XU as [Xr _]. unfold rpk. rewrite Xr. exact P1.
  - intros q Hq. destruct (alloc_list_spec d1 ks' l F objs Ea q Hq) as [_ [k [c [Q1 [Q2 [Q3 _]]]]]].
    destruct XU as [_ [_ [_ [_ [_ [_ [_ [_ Xc]]]]]]]]. apply Xc. rewrite Q3. exact (proj1 (Hk k Q1)).
Qed.

(* ================================================================ reshaper *)
Lemma reshape_interim_RI : forall l d x,
  RI2 d -> (forall r, In r l -> In (ri_rp r) (rpk d)) -> reshape_interim d l = Ok x ->
  RI2 (fst x) /\ rpk (fst x) = rpk d /\ allocs (fst x) = allocs d /\ consumers (fst x) = consumers d.
Proof.
  induction l as [|r l IH]; cbn [reshape_interim]; intros d x H Hr.
  - intros [= <-]. cbn [fst]. auto.
  - destruct (ri_invs r) eqn:Einv.
    + intro E. apply bind_Ok in E. destruct E as [y [Ey E]]. injection E as <-. cbn [fst].
      apply IH in Ey; [exact Ey|exact H|]. intros r' Hr'. apply Hr. right. exact Hr'.
    + intro E. apply bind_Ok in E. destruct E as [d1 [E1 E]]. apply bind_Ok in E. destruct E as [y [Ey E]].
      injection E as <-. cbn [fst].
      apply set_inventory_RI in E1; [|exact H|apply Hr; left; reflexivity].
      destruct E1 as [H1 [xi [xr [-> Kr]]]].
      apply IH in Ey; [|exact H1|].
      * destruct Ey as [P1 [P2 [P3 P4]]]. split; [exact P1|]. split; [rewrite P2; exact Kr|].
        split; [rewrite P3; reflexivity|rewrite P4; reflexivity].
      * intros r' Hr'. unfold rpk at 1. sd. rewrite Kr. apply Hr. right. exact Hr'.
Qed.

Lemma reshape_final_RI : forall l gens d d',
  RI2 d -> (forall r, In r l -> In (ri_rp r) (rpk d)) -> reshape_final d l gens = Ok d' ->
  RI2 d' /\ allocs d' = allocs d.
Proof.
  induction l as [|r l IH]; cbn [reshape_final]; intros gens d d' H Hr.
  - intros [= <-]. auto.
  - destruct gens as [|[u g] gens]; [intros [= <-]; auto|].
    intro E. apply bind_Ok in E. destruct E as [d1 [E1 E]].
    apply set_inventory_RI in E1; [|exact H|apply Hr; left; reflexivity].
    destruct E1 as [H1 [xi [xr [-> Kr]]]].
    apply IH in E; [|exact H1|].
    + destruct E as [P1 P2]. split; [exact P1|]. rewrite P2. reflexivity.
    + intros r' Hr'. unfold rpk at 1. sd. rewrite Kr. apply Hr. right. exact Hr'.
Qed.

Lemma regen_spec gens objs q' :
  In q' (map (fun a => match lookup_gen gens (q_rp a) with
                       | Some g => mkAreq (q_cons a) (q_cgen a) (q_rp a) g (q_rc a) (q_amt a)
                       | None => a end) objs) ->
  exists q, In q objs /\ q_cons q' = q_cons q /\ q_rp q' = q_rp q /\ q_amt q' = q_amt q.
Proof.
  intro H. apply in_map_iff in H. destruct H as [q [E Hq]]. exists q. split; [exact Hq|].
  destruct (lookup_gen gens (q_rp q)); subst q'; cbn; auto.
Qed.

Lemma reshape_txn_RI d ri objs d' :
  RI2 d -> (forall r, In r ri -> In (ri_rp r) (rpk d)) ->
  (forall q, In q objs -> In (q_rp q) (rpk d)) -> (forall q, In q objs -> In (q_cons q) (consk d)) ->
  reshape_txn d ri objs = Ok d' ->
  RI2 d' /\ (forall a, In a (allocs d') ->
     In a (allocs d) \/ exists q, In q objs /\ q_amt q <> 0 /\ a_cons a = q_cons q).
Proof.
  intros H Hr Hrp Hc. unfold reshape_txn. intro E. apply bind_Ok in E. destruct E as [[d1 gens] [E1 E]].
  apply bind_Ok in E. destruct E as [d2 [E2 E]].
  apply reshape_interim_RI in E1; [|exact H|exact Hr]. cbn [fst] in E1. destruct E1 as [H1 [K1 [A1 C1]]].
  apply set_allocations_RI in E2; [|exact H1| |].
  - destruct E2 as [H2 [K2 Hal]]. apply reshape_final_RI in E; [|exact H2|].
    + destruct E as [H3 A3]. split; [exact H3|]. intros a Ha. rewrite A3 in Ha.
      destruct (Hal a Ha) as [L|[q' [Hq' [Hnz Eq]]]]; [left; rewrite <- A1; exact L|right].
      apply regen_spec in Hq'. destruct Hq' as [q [Hq [Q1 [Q2 Q3]]]]. exists q.
      split; [exact Hq|split; congruence].
    + intros r Hr'. rewrite K2, K1. apply Hr. exact Hr'.
  - intros q' Hq'. apply regen_spec in Hq'. destruct Hq' as [q [Hq [Q1 [Q2 Q3]]]].
    rewrite K1, Q2. apply Hrp. exact Hq.
  - intros q' Hq'. apply regen_spec in Hq'. destruct Hq' as [q [Hq [Q1 [Q2 Q3]]]].
    unfold consk. rewrite C1, Q1. apply Hc. exact Hq.
Qed.

Lemma precheck_spec d : forall ri, reshape_precheck d ri = None -> forall r, In r ri -> In (ri_rp r) (rpk d).
Proof.
  induction ri as [|x ri IH]; cbn [reshape_precheck]; [intros _ r []|].
  destruct (find_rp d (ri_rp x)) as [me|] eqn:Hf; [|discriminate].
  destruct (negb (ri_gen x =? rp_gen me)); [discriminate|].
  intros E r [<-|Hr]; [eapply find_rp_rpk; eassumption|apply IH; assumption].
Qed.

Lemma h_reshape_RI cf d v ri al :
  RI2 d -> nodupb (map ci_uuid al) = true -> RI2 (fst (h_reshape cf d v ri al)).
Proof.
  intros H Hnd. unfold h_reshape. destruct (v <? 30); [assumption|].
  destruct (reshape_precheck d ri) as [r|] eqn:Ep; [assumption|].
  pose proof (precheck_spec d ri Ep) as Hri.
  destruct (inspect_consumers cf v d [] al) as [d1 o] eqn:Ei. destruct o as [ks|].
  2:{ cbn [fst]. eapply (inspect_none cf v d H al d [] d1); [apply ext_refl|intros k []|exact Ei]. }
  apply inspect_some in Ei. destruct Ei as [X [ks' [-> [F Hk]]]]. cbn [rev app].
  assert (Hks : forall k0, In k0 ks' -> co_created k0 = true -> ~ In (co_uuid k0) (consk d)).
  { intros k0 Hk0. exact (proj2 (Hk k0 Hk0)). }
  destruct (alloc_list d1 ks' al) as [objs|] eqn:Ea; [|cbn [fst]; eapply RI_err; eassumption].
  destruct (reshape_txn (fold_left update_consumer ks' d1) ri objs) as [d2|e] eqn:Es;
    [|cbn [fst]; eapply RI_err; eassumption]. cbn [fst].
  pose proof (fold_update_ext ks' d1) as XU.
  assert (XX : ext d (fold_left update_consumer ks' d1)) by (eapply ext_trans; eassumption).
  apply reshape_txn_RI in Es.
  - destruct Es as [R2 Hal]. apply (finish d d2 ks' al objs); try assumption.
    + intros a Ha. destruct (Hal a Ha) as [L|R]; [left|right; exact R].
      destruct XX as [_ [_ [Xa _]]]. rewrite <- Xa. exact L.
    + intros q Hq Hnz. destruct (alloc_list_spec d1 ks' al F objs Ea q Hq) as [_ [k [c [Q1 [Q2 [Q3 [Q4 Q5]]]]]]].
      exists c. split; [exact Q2|split; [auto|congruence]].
  - eapply RI2_ext; eassumption.
  - intros r Hr. destruct XX as [Xr _]. unfold rpk. rewrite Xr. apply Hri. exact Hr.
  - intros q Hq. destruct (alloc_list_spec d1 ks' al F objs Ea q Hq) as [P1 _].
    destruct XU as [Xr _]. unfold rpk. rewrite Xr. exact P1.
  - intros q Hq. destruct (alloc_list_spec d1 ks' al F objs Ea q Hq) as [_ [k [c [Q1 [Q2 [Q3 _]]]]]].
    destruct XU as [_ [_ [_ [_ [_ [_ [_ [_ Xc]]]]]]]]. apply Xc. rewrite Q3. exact (proj1 (Hk k Q1)).
Qed.

(* ================================================================ main statements *)
Lemma step_RI2 cf d r : RI2 d -> req_wf r = true -> RI2 (fst (step cf d r)).
Proof.
  intros H Hwf. destruct r; cbn [step].
  - apply h_rp_create_RI; assumption.
  - apply h_rp_update_RI; assumption.
  - apply h_rp_delete_RI; assumption.
  - apply h_inv_set_RI; assumption.
  - apply h_inv_post_RI; assumption.
  - apply h_inv_put_RI; assumption.
  - apply h_inv_delete_RI; assumption.
  - apply h_inv_delete_all_RI; assumption.
  - apply h_traits_set_RI; assumption.
  - apply h_traits_delete_RI; assumption.
  - apply h_aggs_set_RI; assumption.
  - apply h_alloc_put_RI; assumption.
  - apply h_alloc_post_RI; [assumption|]. cbn [req_wf] in Hwf. unfold cons_list_wf in Hwf.
    apply andb_true_iff in Hwf. tauto.
  - apply h_alloc_delete_RI; assumption.
  - apply h_reshape_RI; [assumption|]. cbn [req_wf] in Hwf. unfold cons_list_wf in Hwf.
    apply andb_true_iff in Hwf. destruct Hwf as [_ Hwf]. apply andb_true_iff in Hwf. tauto.
  - apply h_rc_create_RI; assumption.
  - apply h_rc_put_RI; assumption.
  - apply h_rc_rename_RI; assumption.
  - apply h_rc_delete_RI; assumption.
  - apply h_trait_put_RI; assumption.
  - apply h_trait_delete_RI; assumption.
Qed.

Lemma c08_step :
  forall cf d r d' rs, RI d -> req_wf r = true -> step cf d r = (d', rs) -> RI d'.
Proof.
  intros cf d r d' rs H Hwf E. apply RI_RI2. apply RI_RI2 in H.
  replace d' with (fst (step cf d r)) by (rewrite E; reflexivity).
  apply step_RI2; assumption.
Qed.

Lemma run_RI cf : forall l d, RI d -> reqs_wf l -> RI (run cf d l).
Proof.
  induction l as [|r l IH]; cbn [run]; intros d H Hwf; [exact H|].
  inversion Hwf as [|r' l' Hr Hl]; subst. apply IH; [|exact Hl].
  destruct (step cf d r) as [d' rs] eqn:E. cbn [fst]. eapply c08_step; eassumption.
Qed.

Lemma c08_invariant : forall cf d, reachable cf d -> RI d.
Proof.
  intros cf d [l [Hwf ->]]. apply run_RI; [|exact Hwf].
  unfold RI, db0. cbn [allocs invs rp_traits rp_aggs]. split; [|split; [|split]]; intros ? [].
Qed.
