(* C08c - referential integrity under ALL interleavings of ALL write requests (Model/ConcAll.v): proofs.
   The model follows /repo at aeae483 (repairs 42072ba, 09e8fa2, cd58161 included).

   RESULT.  The unrestricted statement  "RI d -> RI after any schedule of any requests"  is FALSE for the faithful
   model (C08c_ri_all_schedules_refuted), in ONE way, reproduced on the real application (same statuses, same
   tables):
       POST /reshaper with a consumer whose "allocations" are {} re-reads that consumer's rows, which fills the
       request's resource class cache; its write transaction resolves the classes of the new inventories from that
       cache; a DELETE /resource_classes/{name} (of a class no inventory refers to yet) committing in between leaves
       an inventory of a class that is gone (C08c_ri_refuted_reshape_vs_class_delete: 2 requests, 7 transactions - the
       cache load is a reader transaction of its own, ACacheLoad).
       Model/Conc.v has no cache (its transaction always looks at the class table) and answers 400 there
       (C08c_conc_reshape_thread_lacks_cache); ConcAll.ACached carries the cache.
   Under the hypothesis race_free = no_reshape_class_delete_race, which excludes exactly that pair of requests (no
   DELETE /resource_classes together with a POST /reshaper that wipes a consumer), RI holds after every schedule,
   hence after every prefix, of any number of requests of any kind (C08c_ri_all_schedules_partial,
   C08c_ri_every_prefix_partial, C08c_ri_reachable_partial).

   REPAIRED.  Two races that an earlier version of this file refuted are gone; the schedules that broke RI are now
   theorems in the other direction, with the answers of the repaired code:
   - PUT /resource_providers/{u}/aggregates (below 1.19: no generation) racing DELETE /resource_providers/{u}:
     _set_aggregates verifies the provider row first, 404 (C08c_aggs_vs_provider_delete_repaired,
     C08c_aggs_vs_provider_delete_all); Model/Conc.v's thread still lacks the check
     (C08c_conc_aggs_thread_lacks_recheck).
   - DELETE /traits/{name} twice + a re-creating PUT /traits/{name} + an associating PUT: _destroy_in_db deletes
     by the id whose associations it counted, 404 (C08c_trait_recreated_repaired).
   The database model keys traits by name and providers by uuid; ConcAll.anote notes in the threads that hold a
   row id across transactions without a generation check that the row they looked up has been deleted.

   METHOD.  Nothing is assumed about what a thread read in an earlier transaction:
   - allocation writes (section 1): consumers named by the allocation objects need not exist any more; the write
     transaction compares-and-swaps the generation of every one of them, so a successful attempt proves they exist,
     and failed attempts of the retry loop are followed through the weaker invariant RIx (rows of the request's
     own consumers may dangle until the last attempt);
   - provider writes (section 2): any remembered generation; the provider's existence follows from the generation
     compare-and-swap of the write transaction, or from the existence check of _set_aggregates;
   - provider / class / trait deletes re-count their dependents inside the write transaction;
   - PUT /resource_providers/{u}/traits: Model/Conc.v's thread lacks the re-verification the code has since
     6eda2e3 and is refuted (C08c_conc_traits_thread_lacks_recheck); ConcAll.set_traits_chk has it and is proved;
   - the class cache: for PUT / POST /allocations a stale entry is harmless (an allocation needs an inventory of
     the class, and that inventory proves the class exists: RI2_restore); for the reshaper see above.
   The only state-dependent thread-local invariant is "no entry of a wiping reshaper's class cache is stale"; it is
   preserved by every transaction of every other thread except the destroy step of DELETE /resource_classes
   (keeps / ainv_frame). *)
From PV Require Import Proofs.Defs Proofs.C08.
From PV Require Proofs.C01 Proofs.C05 Proofs.C09 Proofs.C09c Proofs.C10 Proofs.C18 Proofs.C19 Proofs.C07i.
From PV Require Import Model.ConcAll.

(* ================================================================ 1. the allocation transaction keeps RI whatever
   the thread remembered: consumers are re-verified by the generation compare-and-swap *)
Definition RAx (C : list Z) (d : db) : Prop := forall a, In a (allocs d) ->
  In (a_rp a) (rpk d) /\ In (a_rp a, a_rc a) (invk d) /\ (In (a_cons a) (consk d) \/ In (a_cons a) C).
Definition RIx (C : list Z) (d : db) : Prop := RAx C d /\ RV d /\ RT d /\ RG d.

Lemma RI2_RIx C d : RI2 d -> RIx C d.
Proof.
  intros [HA H]. split; [|exact H]. intros a Ha. destruct (HA a Ha) as [H1 [H2 H3]]. auto.
Qed.

Lemma saw_ok_cons w l w' : set_allocations_w w l = (w', None) -> forall q, In q l -> In (q_cons q) (consk w).
Proof.
  intros H q Hq. apply C07i.saw_ok_spec in H.
  destruct H as (_ & _ & _ & _ & _ & H & _).
  destruct (H (q_cons q)) as (row & g & Hf & _); [apply in_map; exact Hq|].
  apply cons_in_iff. exists row. exact Hf.
Qed.

Lemma shape_RIx w l w' o : C18.shape w l w' o -> RIx (map q_cons l) w ->
  (o = None -> forall q, In q l -> In (q_cons q) (consk w)) ->
  RIx (map q_cons l) w' /\ (o = None -> RI2 w').
Proof.
  intros Hs [HA [HV [HT HG]]] Hok. pose proof (C18.shape_rpk _ _ _ _ Hs) as Hrpk.
  destruct Hs as (Hi & Hrc & Htr & Hag & Hra & Hrt & _ & Hal & Hc1 & Hc2).
  assert (Hik : invk w' = invk w) by (unfold invk; rewrite Hi; reflexivity).
  assert (Hold : forall a, In a (allocs (C01.purge w l)) -> In a (allocs w) /\ ~ In (a_cons a) (map q_cons l)).
  { intros a Ha. unfold C01.purge in Ha. cbn [allocs set_allocs] in Ha. apply filter_In in Ha.
    destruct Ha as [Ha Hm]. split; [exact Ha|]. apply negb_true_iff in Hm. apply memZ_nIn. exact Hm. }
  assert (Hcase : forall a, In a (allocs w') ->
            (In a (allocs w) /\ ~ In (a_cons a) (map q_cons l)) \/
            exists q, In q l /\ q_amt q <> 0 /\ a = C01.mk_alloc q /\ check_loop (C01.purge w l) [] l = Ok tt).
  { intros a Ha. destruct Hal as [Hal|[Hck Hal]]; rewrite Hal in Ha.
    - left. apply Hold. exact Ha.
    - apply in_app_or in Ha. destruct Ha as [Ha|Ha]; [left; apply Hold; exact Ha|right].
      unfold C18.news in Ha. apply in_map_iff in Ha. destruct Ha as [q [<- Hq]]. apply filter_In in Hq.
      destruct Hq as [Hq Hnz]. apply negb_true_iff, Z.eqb_neq in Hnz. exists q. auto. }
  assert (HV' : RV w').
  { intros k Hk. rewrite Hik in Hk. rewrite Hrpk, (C18.rc_exists_same w w' _ Hrc). exact (HV k Hk). }
  assert (HT' : RT w').
  { intros x Hx. rewrite Hrt in Hx. rewrite Hrpk, (C18.trait_exists_same w w' _ Htr). exact (HT x Hx). }
  assert (HG' : RG w').
  { intros x Hx. rewrite Hra in Hx. rewrite Hrpk, Hag. exact (HG x Hx). }
  (* rows and the provider / inventory they refer to *)
  assert (Hrow : forall a, In a (allocs w') -> In (a_rp a) (rpk w') /\ In (a_rp a, a_rc a) (invk w')).
  { intros a Ha. rewrite Hrpk, Hik. destruct (Hcase a Ha) as [[Hin _]|[q [Hq [Hnz [-> Hck]]]]].
    - destruct (HA a Hin) as [H1 [H2 _]]. auto.
    - pose proof (check_loop_inv _ _ _ Hck q Hq Hnz) as Hinv.
      assert (Hinv' : In (q_rp q, q_rc q) (invk w)) by exact Hinv.
      cbn [C01.mk_alloc a_rp a_rc]. split; [exact (proj1 (HV _ Hinv'))|exact Hinv']. }
  split.
  - split; [|split; [exact HV'|split; [exact HT'|exact HG']]].
    intros a Ha. destruct (Hrow a Ha) as [H1 H2]. split; [exact H1|]. split; [exact H2|].
    destruct (Hcase a Ha) as [[Hin Hn]|[q [Hq [_ [-> _]]]]].
    + destruct (HA a Hin) as [_ [_ [H3|H3]]]; [|contradiction].
      destruct (Hc2 _ H3) as [H|[_ H]]; [left; exact H|]. exfalso. exact (H a Ha eq_refl).
    + right. cbn [C01.mk_alloc a_cons]. apply in_map. exact Hq.
  - intros ->. split; [|split; [exact HV'|split; [exact HT'|exact HG']]].
    intros a Ha. destruct (Hrow a Ha) as [H1 H2]. split; [exact H1|]. split; [exact H2|].
    assert (Hin : In (a_cons a) (consk w)).
    { destruct (Hcase a Ha) as [[Hin Hn]|[q [Hq [_ [-> _]]]]].
      - destruct (HA a Hin) as [_ [_ [H3|H3]]]; [exact H3|contradiction].
      - cbn [C01.mk_alloc a_cons]. apply (Hok eq_refl). exact Hq. }
    destruct (Hc2 _ Hin) as [H|[_ H]]; [exact H|]. exfalso. exact (H a Ha eq_refl).
Qed.

Lemma refresh_cons c : forall l l', refresh c l = Some l' -> map q_cons l' = map q_cons l.
Proof.
  induction l as [|a l IH]; intros l'; cbn [refresh].
  - intros [= <-]. reflexivity.
  - destruct (find_rp c (q_rp a)) as [r|]; [|discriminate].
    destruct (refresh c l) as [rest|]; [|discriminate]. intros [= <-]. cbn [map q_cons].
    rewrite (IH rest eq_refl). reflexivity.
Qed.

Lemma replace_all_RI' f c w l w' : RI2 w -> replace_all f c w l = Ok w' -> RI2 w'.
Proof.
  intros Hri.
  apply (C18.replace_all_inv (fun w l => RIx (map q_cons l) w) RI2).
  - intros w0 l0 w1 e c0 l1 HJ Hs Hr. rewrite (refresh_cons _ _ _ Hr).
    apply C18.saw_shape in Hs. apply (shape_RIx _ _ _ _ Hs HJ). discriminate.
  - intros w0 l0 w1 HJ Hs. pose proof (saw_ok_cons _ _ _ Hs) as Hc. apply C18.saw_shape in Hs.
    apply (shape_RIx _ _ _ _ Hs HJ (fun _ => Hc)). reflexivity.
  - apply RI2_RIx. exact Hri.
Qed.

Lemma main_txn_RI' x ks objs d d' : RI2 d -> main_txn x ks objs d = Ok d' -> RI2 d'.
Proof.
  intros Hri. unfold main_txn. cbv zeta.
  pose proof (fold_update_ext ks d) as Hext. set (d1 := fold_left update_consumer ks d) in *.
  pose proof (RI2_ext _ _ Hext Hri) as Hri1.
  assert (Hplain : replace_all retry_fuel d d1 objs = Ok d' -> RI2 d') by (apply replace_all_RI'; exact Hri1).
  destruct (x_kind x); [exact Hplain|exact Hplain|]. intro E.
  apply C18.reshape_txn_c_inv in E. destruct E as [dB [gens [dC [gens' [Ei [Er Ef]]]]]].
  apply C18.reshape_interim_RI' in Ei; [|exact Hri1]. cbn [fst] in Ei. destruct Ei as [HB _].
  apply replace_all_RI' in Er; [|exact HB].
  apply C18.reshape_final_RI' in Ef; [tauto|exact Er].
Qed.

(* ================================================================ 2. provider write transactions with ANY
   remembered generation *)
Lemma set_traits_txn_in d u g want d' : set_traits_txn d u g want = Ok d' -> d' = d \/ In u (rpk d).
Proof.
  unfold set_traits_txn. cbv zeta.
  destruct (filter (fun t => negb (memZ t (traits_of d u))) want);
    destruct (filter (fun t => negb (memZ t want)) (traits_of d u));
    intro H; try (right; apply C18.incr_rp_gen_in in H; exact H).
  left. injection H as <-. reflexivity.
Qed.

Lemma traits_of_RT d u t : RT d -> memZ t (traits_of d u) = true -> trait_exists d t = true.
Proof.
  intros HT H. apply memZ_In in H. unfold traits_of in H. apply in_map_iff in H.
  destruct H as [x [<- Hx]]. apply filter_In in Hx. exact (proj2 (HT x (proj1 Hx))).
Qed.

Lemma set_traits_c_RI d u g want d' : RI2 d ->
  forallb (trait_exists d) (filter (fun t => negb (memZ t (traits_of d u))) want) = true ->
  set_traits_c d u g want = Ok d' -> RI2 d'.
Proof.
  intros Hri Hf H.
  assert (K : set_traits_txn d u g want = Ok d' -> RI2 d').
  { intro E. destruct (set_traits_txn_in _ _ _ _ _ E) as [->|Hu]; [exact Hri|].
    eapply set_traits_txn_RI; [exact Hri|exact Hu| |exact E].
    intros t Ht. destruct (memZ t (traits_of d u)) eqn:M.
    - eapply traits_of_RT; [exact (proj1 (proj2 (proj2 Hri)))|exact M].
    - rewrite forallb_forall in Hf. apply Hf. apply filter_In. split; [exact Ht|]. rewrite M. reflexivity. }
  unfold set_traits_c in H.
  destruct (filter (fun t => negb (memZ t (traits_of d u))) want);
    destruct (filter (fun t => negb (memZ t want)) (traits_of d u)); try (apply K; exact H).
  destruct (find_rp d u) as [r|]; [|discriminate]. destruct (rp_gen r =? g); [|discriminate].
  injection H as <-. exact Hri.
Qed.

Lemma set_traits_chk_RI d u g want d' : RI2 d -> set_traits_chk d u g want = Ok d' -> RI2 d'.
Proof.
  intros Hri. unfold set_traits_chk.
  destruct (forallb (trait_exists d) _) eqn:Hf; [|discriminate]. apply set_traits_c_RI; assumption.
Qed.

Definition old_aggs (r : req) : option Z :=
  match r with AggsSet v u _ _ => if v <? 19 then Some u else None | _ => None end.
Definition not_traits_set (r : req) : Prop := match r with TraitsSet _ _ _ _ => False | _ => True end.

Ltac pw_case E :=
  match goal with |- RI2 (fst (match ?x with Ok _ => _ | Err _ => _ end)) => destruct x as [?d'|?e] eqn:E end.

Lemma prov_write_RI r g d : RI2 d -> not_traits_set r -> old_aggs r = None -> RI2 (fst (prov_write r g d)).
Proof.
  intros Hri Hnt Hold. destruct r; cbn [prov_write]; try exact Hri.
  - pw_case E; [|destruct e; exact Hri]. cbn [fst].
    pose proof (C18.set_inventory_in _ _ _ _ _ E) as Hu.
    eapply set_inventory_RI; eassumption.
  - pw_case E; [|destruct e; exact Hri]. cbn [fst].
    eapply add_inventory_RI; [exact Hri| |exact E].
    unfold add_inventory in E. destruct (negb _); [discriminate|]. destruct (find_inv d u (ii_rc x)); [discriminate|].
    apply C18.incr_rp_gen_in in E. exact E.
  - pw_case E; [|destruct e; exact Hri]. cbn [fst].
    eapply update_inventory_RI; eassumption.
  - pw_case E; [|destruct e; exact Hri]. cbn [fst].
    eapply delete_inventory_RI; eassumption.
  - pw_case E; [|destruct e; exact Hri]. cbn [fst].
    pose proof (C18.set_inventory_in _ _ _ _ _ E) as Hu.
    eapply set_inventory_RI; eassumption.
  - contradiction.
  - pw_case E; [|exact Hri]. cbn [fst].
    eapply set_traits_c_RI; [exact Hri| |exact E]. reflexivity.
  - pw_case E; [|exact Hri]. cbn [fst].
    eapply set_aggregates_txn_RI; [exact Hri| |exact E].
    cbn [old_aggs] in Hold. destruct (19 <=? v) eqn:Ev.
    + unfold set_aggregates_txn in E. cbv zeta in E. apply C18.incr_rp_gen_in in E. exact E.
    + assert (Hv : (v <? 19) = true) by (apply Z.ltb_lt; apply Z.leb_gt in Ev; lia).
      rewrite Hv in Hold. discriminate.
Qed.

(* a provider write transaction never removes a provider *)
Lemma tstep_rpk t d : rpk (fst (tstep t d)) = rpk d.
Proof. apply C18.sameS_rpk. apply C09c.tstep_same. Qed.

(* the threads of Model/Conc.v that follow the code: all but PUT .../traits (no re-verification of the traits) and
   PUT .../aggregates below 1.19 (no re-verification of the provider) - ainit never produces those *)
Definition cinv (t : tstate) : Prop :=
  match t with
  | TProvRead r | TProvWrite r _ => not_traits_set r /\ old_aggs r = None
  | _ => True
  end.

Lemma cinv_cod us rs : cinv (cleanup_or_done us rs).
Proof. destruct us; exact I. Qed.
Lemma cinv_after_cons x ks : cinv (after_cons x ks).
Proof. unfold after_cons. destruct (work_items ks (x_all x)); exact I. Qed.
Lemma cinv_cons_next x rest acc :
  cinv (match rest with [] => after_cons x (rev acc) | _ => TCons x rest acc end).
Proof. destruct rest; [apply cinv_after_cons|exact I]. Qed.
Lemma cinv_ri_next x : cinv (match x_all x with [] => after_cons x [] | l => TCons x l [] end).
Proof. destruct (x_all x); [apply cinv_after_cons|exact I]. Qed.

Ltac inj E := apply pair_equal_spec in E; destruct E as [<- <-].

Lemma tstep_RI d t d' t' : RI2 d -> cinv t -> tstep t d = (d', t') -> RI2 d' /\ cinv t'.
Proof.
  intros Hri Hi E. destruct t; cbv beta iota delta [tstep] in E; cbn [cinv] in Hi.
  - (* TDone *) inj E. split; [exact Hri|exact I].
  - (* TProvRead *)
    destruct (prov_target r) as [u|] eqn:Et; [|inj E; split; [exact Hri|exact I]].
    destruct (find_rp d u) as [me|] eqn:Ef; [|inj E; split; [exact Hri|exact I]].
    destruct (prov_precheck r me d) as [e|]; inj E; (split; [exact Hri|]); [exact I|exact Hi].
  - (* TProvWrite *) destruct Hi as [Hnt Ho].
    pose proof (prov_write_RI r g d Hri Hnt Ho) as H.
    destruct (prov_write r g d) as [d2 rs]. inj E. split; [exact H|exact I].
  - (* TRi *)
    destruct todo as [|ri rest]; [inj E; split; [exact Hri|apply cinv_ri_next]|].
    destruct (find_rp d (ri_rp ri)) as [me|]; [|inj E; split; [exact Hri|exact I]].
    destruct (negb (ri_gen ri =? rp_gen me)); inj E; (split; [exact Hri|]); [exact I|].
    destruct rest; [apply cinv_ri_next|exact I].
  - (* TCons *)
    destruct todo as [|c rest]; [inj E; split; [exact Hri|apply cinv_after_cons]|].
    cbv zeta in E. destruct (rq_attrs (x_cf x) (x_v x) c) as [[pj us] ty].
    assert (H1 : RI2 (aux_names (x_cf x) (x_v x) d c)) by (eapply RI2_ext; [apply C18.aux_ext|exact Hri]).
    destruct (find_cons d (ci_uuid c)) as [k|].
    + destruct ((28 <=? x_v x) && negb (oeqb (Some (c_gen k)) (ci_gen c))); inj E;
        (split; [exact H1|]); [apply cinv_cod|apply cinv_cons_next].
    + destruct ((28 <=? x_v x) && match ci_gen c with Some _ => true | None => false end); inj E;
        (split; [exact H1|]); [apply cinv_cod|exact I].
  - (* TCreate *)
    destruct (rq_attrs (x_cf x) (x_v x) c) as [[pj us] ty].
    destruct (find_cons d (ci_uuid c)) as [k|]; inj E.
    + split; [exact Hri|exact I].
    + split; [|apply cinv_cons_next]. apply RI2_set_consumers; [|exact Hri].
      rewrite map_app. apply incl_appl, incl_refl.
  - (* TReload *)
    destruct (rq_attrs (x_cf x) (x_v x) c) as [[pj us] ty].
    destruct (find_cons d (ci_uuid c)) as [k|]; [|inj E; split; [exact Hri|apply cinv_cod]].
    destruct (28 <=? x_v x); inj E; (split; [exact Hri|]); [apply cinv_cod|apply cinv_cons_next].
  - (* TObjs *)
    destruct todo as [|w rest]; [inj E; split; [exact Hri|exact I]|].
    cbv zeta in E. destruct w as [k|k a].
    + inj E. split; [exact Hri|]. destruct rest; exact I.
    + destruct (find_rp d (ai_rp a)) as [rp|]; inj E; (split; [exact Hri|]); [destruct rest; exact I|apply cinv_cod].
  - (* TMain *)
    destruct (main_txn x ks objs d) as [d2|e] eqn:Em; inj E.
    + split; [eapply main_txn_RI'; eassumption|apply cinv_cod].
    + split; [exact Hri|apply cinv_cod].
  - (* TCleanup *)
    destruct todo as [|u rest]; inj E.
    + split; [exact Hri|exact I].
    + split; [apply delete_cons_RI; exact Hri|]. destruct rest; exact I.
  - (* TDelRead *)
    destruct (wipe_list d c); inj E; (split; [exact Hri|exact I]).
  - (* TDelRows *) inj E. split; [|exact I]. apply RI2_set_allocs_incl; [|exact Hri].
    intros a Ha. apply filter_In in Ha. tauto.
  - (* TDelCons *) inj E. split; [apply delete_cons_RI; exact Hri|exact I].
Qed.

(* ================================================================ 2b. frames: the transactions of Model/Conc.v
   never touch the class table; allocation replacement never touches the inventories *)
Lemma replace_all_frame f c w l w' : replace_all f c w l = Ok w' ->
  invs w' = invs w /\ rcs w' = rcs w /\ traits w' = traits w.
Proof.
  apply (C18.replace_all_inv (fun w1 _ => invs w1 = invs w /\ rcs w1 = rcs w /\ traits w1 = traits w)
                             (fun w1 => invs w1 = invs w /\ rcs w1 = rcs w /\ traits w1 = traits w)).
  - intros w0 l0 w1 e c0 l1 [H1 [H2 H3]] Hs _. apply C18.saw_shape in Hs.
    destruct Hs as (Hi & Hr & Ht & _). repeat split; congruence.
  - intros w0 l0 w1 [H1 [H2 H3]] Hs. apply C18.saw_shape in Hs.
    destruct Hs as (Hi & Hr & Ht & _). repeat split; congruence.
  - repeat split; reflexivity.
Qed.

Lemma main_txn_keep x ks objs d d' : main_txn x ks objs d = Ok d' -> C19.keep d d'.
Proof.
  unfold main_txn. cbv zeta.
  pose proof (C19.fold_update_consumer_kp ks d) as H0. set (d1 := fold_left update_consumer ks d) in *.
  assert (Hplain : replace_all retry_fuel d d1 objs = Ok d' -> C19.keep d d').
  { intro E. apply replace_all_frame in E. destruct E as [_ [E1 E2]]. eapply C19.keep_trans; [exact H0|].
    split; assumption. }
  destruct (x_kind x); [exact Hplain|exact Hplain|]. intro E.
  apply C18.reshape_txn_c_inv in E. destruct E as [dB [gens [dC [gens' [Ei [Er Ef]]]]]].
  apply C19.reshape_interim_kp in Ei. cbn [fst] in Ei.
  apply replace_all_frame in Er. destruct Er as [_ [Er1 Er2]].
  apply C19.reshape_final_kp in Ef.
  eapply C19.keep_trans; [exact H0|]. eapply C19.keep_trans; [exact Ei|].
  eapply C19.keep_trans; [split; eassumption|exact Ef].
Qed.
Lemma main_txn_rcs x ks objs d d' : main_txn x ks objs d = Ok d' -> rcs d' = rcs d.
Proof. intro H. exact (proj1 (main_txn_keep _ _ _ _ _ H)). Qed.

Lemma main_txn_invs x ks objs d d' : x_kind x <> KReshape -> main_txn x ks objs d = Ok d' -> invs d' = invs d.
Proof.
  intro Hk. unfold main_txn. cbv zeta.
  pose proof (fold_update_ext ks d) as (_ & H0 & _). set (d1 := fold_left update_consumer ks d) in *.
  assert (Hplain : replace_all retry_fuel d d1 objs = Ok d' -> invs d' = invs d).
  { intro E. apply replace_all_frame in E. destruct E as [E _]. congruence. }
  destruct (x_kind x); [exact Hplain|exact Hplain|congruence].
Qed.

Lemma set_traits_c_keep d u g w d' : set_traits_c d u g w = Ok d' -> C19.keep d d'.
Proof.
  unfold set_traits_c.
  destruct (filter (fun t => negb (memZ t (traits_of d u))) w);
    destruct (filter (fun t => negb (memZ t w)) (traits_of d u)); intro H;
    try (apply C19.set_traits_txn_kp in H; exact H).
  destruct (find_rp d u) as [r|]; [|discriminate]. destruct (rp_gen r =? g); [|discriminate].
  injection H as <-. apply C19.keep_refl.
Qed.
Lemma set_traits_c_rcs d u g w d' : set_traits_c d u g w = Ok d' -> rcs d' = rcs d.
Proof. intro H. exact (proj1 (set_traits_c_keep _ _ _ _ _ H)). Qed.

Ltac pw_keep E :=
  match goal with |- C19.keep _ (fst (match ?x with Ok _ => _ | Err _ => _ end)) => destruct x as [?d'|?e] eqn:E end.

Lemma prov_write_keep r g d : C19.keep d (fst (prov_write r g d)).
Proof.
  destruct r; cbn [prov_write]; try apply C19.keep_refl; pw_keep E; try (destruct e; apply C19.keep_refl); cbn [fst].
  - exact (C19.set_inventory_kp _ _ _ _ _ E).
  - exact (C19.add_inventory_kp _ _ _ _ _ E).
  - exact (C19.update_inventory_kp _ _ _ _ _ E).
  - exact (C19.delete_inventory_kp _ _ _ _ _ E).
  - exact (C19.set_inventory_kp _ _ _ _ _ E).
  - eapply set_traits_c_keep; exact E.
  - eapply set_traits_c_keep; exact E.
  - exact (C19.set_aggregates_txn_kp _ _ _ _ _ _ E).
Qed.

Lemma aux_names_keep cf v d c : C19.keep d (aux_names cf v d c).
Proof. unfold aux_names. destruct (38 <=? v); split; reflexivity. Qed.

Ltac brk_keep :=
  repeat (cbn [fst];
    match goal with
    | |- C19.keep _ (fst (if ?b then _ else _)) => destruct b
    | |- C19.keep _ (fst (match ?x with _ => _ end)) => destruct x eqn:?
    end);
  cbn [fst]; try apply C19.keep_refl; try (split; reflexivity).

Lemma tstep_keep t d : C19.keep d (fst (tstep t d)).
Proof.
  destruct t; cbn [tstep].
  - apply C19.keep_refl.
  - brk_keep.
  - pose proof (prov_write_keep r g d) as H. destruct (prov_write r g d) as [d' rs]. exact H.
  - brk_keep.
  - destruct todo as [|c rest]; [apply C19.keep_refl|]. cbv zeta.
    destruct (rq_attrs (x_cf x) (x_v x) c) as [[pj us] ty].
    destruct (find_cons d (ci_uuid c)); destruct (_ && _); apply aux_names_keep.
  - destruct (rq_attrs (x_cf x) (x_v x) c) as [[pj us] ty].
    destruct (find_cons d (ci_uuid c)); split; reflexivity.
  - destruct (rq_attrs (x_cf x) (x_v x) c) as [[pj us] ty]. brk_keep.
  - destruct todo as [|w rest]; [apply C19.keep_refl|]. cbv zeta.
    destruct w; [apply C19.keep_refl|]. destruct (find_rp d (ai_rp a)); apply C19.keep_refl.
  - destruct (main_txn x ks objs d) as [d'|e] eqn:E; cbn [fst]; [|apply C19.keep_refl].
    eapply main_txn_keep; exact E.
  - destruct todo; split; reflexivity.
  - destruct (wipe_list d c); apply C19.keep_refl.
  - split; reflexivity.
  - split; reflexivity.
Qed.
Lemma tstep_rcs t d : rcs (fst (tstep t d)) = rcs d.
Proof. exact (proj1 (tstep_keep t d)). Qed.
Lemma tstep_traits t d : traits (fst (tstep t d)) = traits d.
Proof. exact (proj2 (tstep_keep t d)). Qed.

(* ================================================================ 2c. the main transaction with the class cache *)
Lemma set_rcs_self d : set_rcs d (rcs d) = d.
Proof. destruct d; reflexivity. Qed.

Lemma RI2_more_classes d e : RI2 d -> RI2 (set_rcs d (rcs d ++ e)).
Proof.
  mono. intro rc. unfold rc_exists. cbn [rcs set_rcs]. rewrite existsb_app.
  destruct ((0 <=? rc) && (rc <? n_std_rc)); [reflexivity|]. cbn [orb]. intros ->. reflexivity.
Qed.

(* restoring the class table after a transaction that left the inventories alone *)
Lemma RI2_restore d dE : RI2 d -> RI2 dE -> invs dE = invs d -> rpk dE = rpk d -> RI2 (set_rcs dE (rcs d)).
Proof.
  intros [_ [HV _]] [HA [_ [HT HG]]] Hi Hr. split; [|split; [|split]]; [exact HA| |exact HT|exact HG].
  intros k Hk. change (invk (set_rcs dE (rcs d))) with (invk dE) in Hk.
  change (rpk (set_rcs dE (rcs d))) with (rpk dE).
  assert (Hk' : In k (invk d)) by (unfold invk in *; rewrite <- Hi; exact Hk).
  destruct (HV k Hk') as [H1 H2]. split; [rewrite Hr; exact H1|exact H2].
Qed.

Lemma main_txn_cached_RI snap x ks objs d d' : RI2 d ->
  (x_kind x = KReshape -> stale_rows d snap = []) ->
  main_txn_cached snap x ks objs d = Ok d' -> RI2 d'.
Proof.
  intros Hri Hst. unfold main_txn_cached.
  destruct (main_txn x ks objs (set_rcs d (rcs d ++ stale_rows d snap))) as [dE|e] eqn:E; [|discriminate].
  intros [= <-].
  pose proof (main_txn_RI' _ _ _ _ _ (RI2_more_classes d (stale_rows d snap) Hri) E) as HE.
  pose proof (C18.sameS_rpk _ _ (C18.main_txn_sameS _ _ _ _ _ E)) as Hr.
  change (rpk (set_rcs d (rcs d ++ stale_rows d snap))) with (rpk d) in Hr.
  destruct (x_kind x) eqn:Ek.
  - assert (Hk : x_kind x <> KReshape) by congruence.
    apply RI2_restore; try assumption. exact (main_txn_invs _ _ _ _ _ Hk E).
  - assert (Hk : x_kind x <> KReshape) by congruence.
    apply RI2_restore; try assumption. exact (main_txn_invs _ _ _ _ _ Hk E).
  - rewrite (Hst eq_refl), app_nil_r, set_rcs_self in E.
    rewrite <- (main_txn_rcs _ _ _ _ _ E), set_rcs_self. exact (main_txn_RI' _ _ _ _ _ Hri E).
Qed.

Lemma main_txn_cached_rpk snap x ks objs d d' : main_txn_cached snap x ks objs d = Ok d' -> rpk d' = rpk d.
Proof.
  unfold main_txn_cached.
  destruct (main_txn x ks objs (set_rcs d (rcs d ++ stale_rows d snap))) as [dE|e] eqn:E; [|discriminate].
  intros [= <-]. exact (C18.sameS_rpk _ _ (C18.main_txn_sameS _ _ _ _ _ E)).
Qed.
Lemma main_txn_cached_rcs snap x ks objs d d' : main_txn_cached snap x ks objs d = Ok d' -> rcs d' = rcs d.
Proof.
  unfold main_txn_cached. destruct (main_txn _ _ _ _) as [dE|e]; [|discriminate]. intros [= <-]. reflexivity.
Qed.

Lemma main_txn_cached_traits snap x ks objs d d' : main_txn_cached snap x ks objs d = Ok d' -> traits d' = traits d.
Proof.
  unfold main_txn_cached.
  destruct (main_txn x ks objs (set_rcs d (rcs d ++ stale_rows d snap))) as [dE|e] eqn:E; [|discriminate].
  intros [= <-]. exact (proj2 (main_txn_keep _ _ _ _ _ E)).
Qed.

(* without stale entries the cached transaction is the plain one *)
Lemma main_txn_cached_plain snap x ks objs d : stale_rows d snap = [] ->
  main_txn_cached snap x ks objs d = main_txn x ks objs d.
Proof.
  intro H. unfold main_txn_cached. rewrite H, app_nil_r, set_rcs_self.
  destruct (main_txn x ks objs d) as [d'|e] eqn:E; [|reflexivity].
  rewrite <- (main_txn_rcs _ _ _ _ _ E), set_rcs_self. reflexivity.
Qed.


(* ================================================================ 2d. the shape of allocation threads *)
Definition has_wipe (l : list cons_in) : bool :=
  existsb (fun c => match ci_allocs c with [] => true | _ => false end) l.
Definition actx_of (t : tstate) : option actx :=
  match t with
  | TRi x _ | TCons x _ _ | TCreate x _ _ _ | TReload x _ _ _ | TObjs x _ _ _ | TMain x _ _ => Some x
  | _ => None
  end.
Definition alloc_state (t : tstate) : Prop :=
  match t with TProvRead _ | TProvWrite _ _ => False | _ => True end.
Definition wipe_ok (x : actx) (w : witem) : Prop :=
  match w with WWipe _ => has_wipe (x_all x) = true | WRp _ _ => True end.
Definition objs_ok (t : tstate) : Prop :=
  match t with TObjs x _ todo _ => Forall (wipe_ok x) todo | _ => True end.
(* a state of the thread whose context is x *)
Definition good (x : actx) (t : tstate) : Prop :=
  alloc_state t /\ objs_ok t /\ (forall x', actx_of t = Some x' -> x' = x).

Lemma work_items_wipe : forall ks l k, In (WWipe k) (work_items ks l) -> has_wipe l = true.
Proof.
  induction ks as [|k0 ks IH]; intros l k H; destruct l as [|c l]; cbn [work_items] in H; try contradiction.
  cbn [has_wipe existsb]. fold (has_wipe l). destruct (ci_allocs c) as [|a al] eqn:E.
  - reflexivity.
  - apply in_app_or in H. destruct H as [H|H].
    + apply in_map_iff in H. destruct H as [a' [Ha' _]]. discriminate.
    + rewrite (IH l k H). reflexivity.
Qed.

Lemma good_cod x us rs : good x (cleanup_or_done us rs).
Proof. destruct us; (split; [exact I|split; [exact I|intros x' H; discriminate]]). Qed.
Lemma good_after_cons x ks : good x (after_cons x ks).
Proof.
  unfold after_cons. destruct (work_items ks (x_all x)) as [|w ws] eqn:E.
  - split; [exact I|split; [exact I|intros x' [= <-]; reflexivity]].
  - split; [exact I|]. split; [|intros x' [= <-]; reflexivity].
    cbn [objs_ok]. apply Forall_forall. intros w0 Hw. destruct w0 as [k|k a]; [|exact I].
    cbn [wipe_ok]. apply (work_items_wipe ks (x_all x) k). rewrite E. exact Hw.
Qed.
Lemma good_cons_next x rest acc :
  good x (match rest with [] => after_cons x (rev acc) | _ => TCons x rest acc end).
Proof. destruct rest; [apply good_after_cons|]. split; [exact I|split; [exact I|intros x' [= <-]; reflexivity]]. Qed.
Lemma good_ri_next x : good x (match x_all x with [] => after_cons x [] | l => TCons x l [] end).
Proof. destruct (x_all x); [apply good_after_cons|]. split; [exact I|split; [exact I|intros x' [= <-]; reflexivity]]. Qed.
Lemma good_simple x t : alloc_state t -> objs_ok t -> actx_of t = Some x -> good x t.
Proof. intros H1 H2 H3. split; [exact H1|split; [exact H2|]]. intros x' H. rewrite H3 in H. injection H as <-. reflexivity. Qed.
Lemma good_done x rs : good x (TDone rs).
Proof. split; [exact I|split; [exact I|intros x' H; discriminate]]. Qed.

(* a transaction of an allocation thread: the context never changes *)
Lemma tstep_good d t d' t' x : objs_ok t -> actx_of t = Some x -> tstep t d = (d', t') -> good x t'.
Proof.
  intros Ho Hx E. destruct t; cbn [actx_of] in Hx; try discriminate; injection Hx as ->;
    cbv beta iota delta [tstep] in E.
  - (* TRi *)
    destruct todo as [|ri rest]; [inj E; apply good_ri_next|].
    destruct (find_rp d (ri_rp ri)) as [me|]; [|inj E; apply good_done].
    destruct (negb (ri_gen ri =? rp_gen me)); inj E; [apply good_done|].
    destruct rest; [apply good_ri_next|apply good_simple; try exact I; reflexivity].
  - (* TCons *)
    destruct todo as [|c rest]; [inj E; apply good_after_cons|].
    cbv zeta in E. destruct (rq_attrs (x_cf x) (x_v x) c) as [[pj us] ty].
    destruct (find_cons d (ci_uuid c)) as [k|].
    + destruct ((28 <=? x_v x) && negb (oeqb (Some (c_gen k)) (ci_gen c))); inj E;
        [apply good_cod|apply good_cons_next].
    + destruct ((28 <=? x_v x) && match ci_gen c with Some _ => true | None => false end); inj E;
        [apply good_cod|apply good_simple; try exact I; reflexivity].
  - (* TCreate *)
    destruct (rq_attrs (x_cf x) (x_v x) c) as [[pj us] ty].
    destruct (find_cons d (ci_uuid c)) as [k|]; inj E;
      [apply good_simple; try exact I; reflexivity|apply good_cons_next].
  - (* TReload *)
    destruct (rq_attrs (x_cf x) (x_v x) c) as [[pj us] ty].
    destruct (find_cons d (ci_uuid c)) as [k|]; [|inj E; apply good_cod].
    destruct (28 <=? x_v x); inj E; [apply good_cod|apply good_cons_next].
  - (* TObjs *)
    destruct todo as [|w rest]; [inj E; apply good_simple; try exact I; reflexivity|].
    cbv zeta in E. cbn [objs_ok] in Ho. inversion Ho as [|? ? Hw Hrest]; subst.
    assert (Hnext : forall objs', good x (match rest with [] => TMain x ks objs' | _ => TObjs x ks rest objs' end)).
    { intro objs'. destruct rest; apply good_simple; try exact I; try reflexivity. exact Hrest. }
    destruct w as [k|k a]; [inj E; apply Hnext|].
    destruct (find_rp d (ai_rp a)); inj E; [apply Hnext|apply good_cod].
  - (* TMain *)
    destruct (main_txn x ks objs d); inj E; apply good_cod.
Qed.

Lemma tstep_noctx d t d' t' : alloc_state t -> actx_of t = None -> tstep t d = (d', t') ->
  alloc_state t' /\ objs_ok t' /\ actx_of t' = None.
Proof.
  intros Ha Hx E. destruct t; cbn [actx_of] in Hx; try discriminate; cbn [alloc_state] in Ha; try contradiction;
    cbv beta iota delta [tstep] in E.
  - inj E. repeat split.
  - destruct todo as [|u rest]; [|destruct rest]; inj E; repeat split.
  - destruct (wipe_list d c); inj E; repeat split.
  - inj E. repeat split.
  - inj E. repeat split.
Qed.

Lemma alloc_state_cinv t : alloc_state t -> cinv t.
Proof. destruct t; cbn; intro H; try exact I; contradiction. Qed.

(* ================================================================ 2e. the cache *)
Lemma stale_rows_same d d' snap : rcs d' = rcs d -> stale_rows d' snap = stale_rows d snap.
Proof. intro H. unfold stale_rows, rc_row_exists. rewrite H. reflexivity. Qed.

Lemma filter_nil {A} (f : A -> bool) l : filter f l = [] <-> forall x, In x l -> f x = false.
Proof.
  induction l as [|a l IH]; cbn [filter]; [split; [intros _ x []|reflexivity]|].
  destruct (f a) eqn:E.
  - split; [discriminate|]. intro H. rewrite (H a) in E; [discriminate|left; reflexivity].
  - rewrite IH. split.
    + intros H x [<-|Hx]; [exact E|apply H; exact Hx].
    + intros H x Hx. apply H. right. exact Hx.
Qed.

Lemma stale_rows_frame d d' snap :
  (forall id, rc_row_exists d id = true -> rc_row_exists d' id = true) ->
  stale_rows d snap = [] -> stale_rows d' snap = [].
Proof.
  intros Hk. destruct snap as [s|]; [|reflexivity]. cbn [stale_rows]. rewrite !filter_nil.
  intros H x Hx. specialize (H x Hx). apply negb_false_iff in H. apply negb_false_iff. apply Hk. exact H.
Qed.

Lemma stale_rows_fresh d : stale_rows d (Some (rcs d)) = [].
Proof.
  cbn [stale_rows]. apply filter_nil. intros x Hx. apply negb_false_iff. unfold rc_row_exists.
  apply existsb_exists. exists x. split; [exact Hx|apply Z.eqb_refl].
Qed.


(* ================================================================ 3. provider create / update / delete *)
Lemma rp_update_rpk d me name np al d' : rp_update d me name np al = Ok d' -> rpk d' = rpk d.
Proof.
  intro E. unfold rp_update in E. apply bind_Ok in E. destruct E as [upd [_ E]].
  destruct (name_taken d name (rp_uuid me)); [discriminate|]. injection E as <-.
  unfold rpk. cbn [rps set_rps]. rewrite map_uuid_pres.
  2:{ intro r. destruct (rp_uuid r =? rp_uuid me) eqn:E; [apply Z.eqb_eq in E; cbn; auto|reflexivity]. }
  destruct upd as [[[par root] sub]|]; [|reflexivity].
  unfold set_roots. rewrite map_uuid_pres.
  2:{ intro r. destruct (memZ (rp_uuid r) sub); reflexivity. }
  rewrite map_uuid_pres; [reflexivity|].
  intro r. destruct (rp_uuid r =? rp_uuid me) eqn:E; [apply Z.eqb_eq in E; cbn; auto|reflexivity].
Qed.

Lemma h_rp_create_rpk d v u name parent : incl (rpk d) (rpk (fst (h_rp_create d v u name parent))).
Proof.
  unfold h_rp_create. destruct ((v <? 14) && _); [apply incl_refl|].
  destruct (rp_create d u name parent) as [d'|e] eqn:E; [|destruct e; apply incl_refl]. cbn [fst].
  unfold rp_create in E. apply bind_Ok in E. destruct E as [root [_ E]].
  destruct (existsb _ (rps d)); [discriminate|]. injection E as <-.
  unfold rpk. cbn [rps set_rps]. rewrite map_app. apply incl_appl, incl_refl.
Qed.

Lemma rp_delete_rpk d u d' w : rp_delete d u = Ok d' -> In w (rpk d) -> w <> u -> In w (rpk d').
Proof.
  unfold rp_delete. destruct (existsb _ (rps d)); [discriminate|].
  destruct (existsb (fun a => a_rp a =? u) (allocs d)); [discriminate|].
  destruct (find_rp d u); [|discriminate]. intros [= <-] Hw Hne.
  unfold rpk at 1. cbn [rps set_rp_traits set_rp_aggs set_invs set_rps]. apply rpk_filter; assumption.
Qed.

(* ================================================================ 4. resource classes and traits: the write
   transactions re-check exactly what referential integrity needs *)
Lemma rc_rename_by_id_RI d id new :
  RI2 d -> RI2 (set_rcs d (map (fun x => if fst x =? id then (id, new) else x) (rcs d))).
Proof.
  mono. intro rc. unfold rc_exists. cbn [rcs set_rcs]. rewrite existsb_map_fst; [auto|].
  intro x. destruct (fst x =? id) eqn:E; [apply Z.eqb_eq in E; cbn; auto|reflexivity].
Qed.

Lemma rc_destroy_by_id_RI d id :
  RI2 d -> existsb (fun i => i_rc i =? id) (invs d) = false ->
  RI2 (set_rcs d (filter (fun x => negb (fst x =? id)) (rcs d))).
Proof.
  intros [HA [HV [HT HG]]] Ei. split; [|split; [|split]]; [exact HA| |exact HT|exact HG].
  intros k Hk. destruct (HV k Hk) as [H1 H2]. split; [exact H1|].
  change (invk (set_rcs d (filter (fun x => negb (fst x =? id)) (rcs d)))) with (invk d) in Hk.
  unfold invk in Hk. apply in_map_iff in Hk. destruct Hk as [i [<- Hi]].
  pose proof (existsb_false_forall _ _ Ei i Hi) as F. cbv beta in F. cbn [snd ikey] in *.
  unfold rc_exists in *. cbn [rcs set_rcs]. apply orb_true_iff in H2. destruct H2 as [->|H2]; [reflexivity|].
  apply orb_true_iff. right. apply existsb_exists in H2. destruct H2 as [x [Hx Ex]].
  apply existsb_exists. exists x. split; [|exact Ex]. apply filter_In. split; [exact Hx|].
  apply Z.eqb_eq in Ex. rewrite Ex, F. reflexivity.
Qed.

Lemma trait_destroy_by_name_RI d t :
  RI2 d -> existsb (fun x => snd x =? t) (rp_traits d) = false ->
  RI2 (set_traits d (filter (fun x => negb (x =? t)) (traits d))).
Proof.
  intros [HA [HV [HT HG]]] Ex. split; [|split; [|split]]; [exact HA|exact HV| |exact HG].
  intros x Hx. destruct (HT x Hx) as [H1 H2]. split; [exact H1|].
  pose proof (existsb_false_forall _ _ Ex x Hx) as F. cbv beta in F.
  unfold trait_exists in *. cbn [traits set_traits]. apply orb_true_iff in H2. destruct H2 as [->|H2]; [reflexivity|].
  apply orb_true_iff. right. apply memZ_In. apply memZ_In in H2. apply filter_In. split; [exact H2|].
  rewrite F. reflexivity.
Qed.

Lemma rc_create_rps d n d' : rc_create d n = Ok d' -> rps d' = rps d.
Proof. unfold rc_create. destruct (rc_id_of_name d n); [discriminate|]. intros [= <-]. reflexivity. Qed.
Lemma trait_create_rps d t d' : trait_create d t = Ok d' -> rps d' = rps d.
Proof. unfold trait_create. destruct (trait_exists d t); [discriminate|]. intros [= <-]. reflexivity. Qed.
Lemma set_traits_chk_rpk d u g w d' : set_traits_chk d u g w = Ok d' -> rpk d' = rpk d.
Proof.
  unfold set_traits_chk. destruct (forallb _ _); [|discriminate]. intro H.
  apply C18.sameS_rpk. eapply C09c.set_traits_c_same. exact H.
Qed.

(* ================================================================ 5. the thread-local invariant and one step *)
Lemma rc_row_exists_app d e id : rc_row_exists d id = true -> rc_row_exists (set_rcs d (rcs d ++ e)) id = true.
Proof. unfold rc_row_exists. cbn [rcs set_rcs]. rewrite existsb_app. intros ->. reflexivity. Qed.
Lemma rc_create_rows d n d' id : rc_create d n = Ok d' -> rc_row_exists d id = true -> rc_row_exists d' id = true.
Proof.
  unfold rc_create. destruct (rc_id_of_name d n); [discriminate|]. intros [= <-]. apply rc_row_exists_app.
Qed.

Section Guard.
Variable W : Prop.          (* a POST /reshaper that wipes the allocations of a consumer is among the requests *)

(* the thread of an allocation write with its class cache *)
Definition cached_inv (d : db) (snap : option (list (Z * Z))) (t : tstate) : Prop :=
  alloc_state t /\ objs_ok t /\
  (forall x, actx_of t = Some x -> x_kind x = KReshape ->
     (has_wipe (x_all x) = true -> W) /\ (snap = None \/ (W /\ stale_rows d snap = []))).

Definition tinv' (t : tthread) : Prop :=
  match t with TTOther t0 => cinv t0 | _ => True end.
(* about to load the cache: for a reshaper this is a consumer being wiped *)
Definition load_inv (t : tstate) : Prop :=
  alloc_state t /\ objs_ok t /\
  (forall x, actx_of t = Some x -> x_kind x = KReshape -> (has_wipe (x_all x) = true -> W) /\ W).
Definition ainv (d : db) (t : athread) : Prop :=
  match t with
  | ATree t0 => tinv' t0
  | ACached snap t0 => cached_inv d snap t0
  | ACacheLoad t0 => load_inv t0
  | ADelLoad t0 => cinv t0
  | ARcDelLook _ | ARcDestroy _ => ~ W
  | _ => True
  end.
(* what a transaction must leave in place for the other threads' invariants: the class rows, when a wiping
   reshaper is around *)
Definition keeps (d d' : db) : Prop :=
  W -> forall id, rc_row_exists d id = true -> rc_row_exists d' id = true.

Lemma keeps_refl d : keeps d d.
Proof. intros _ id H; exact H. Qed.
Lemma keeps_eq d d' : rcs d' = rcs d -> keeps d d'.
Proof. intros E2 _ id H. unfold rc_row_exists in *. rewrite E2. exact H. Qed.

Lemma ainv_frame d d' t : keeps d d' -> ainv d t -> ainv d' t.
Proof.
  intros Hk Hi. destruct t; cbn [ainv] in *; try exact Hi.
  destruct Hi as [H1 [H2 H3]]. split; [exact H1|split; [exact H2|]]. intros x Hx Hr.
  destruct (H3 x Hx Hr) as [Hw [Hs|[HW Hs]]]; (split; [exact Hw|]); [left; exact Hs|right].
  split; [exact HW|]. eapply stale_rows_frame; [apply Hk; exact HW|exact Hs].
Qed.

Lemma ttstep_keep cf t d : C19.keep d (snd (ttstep cf t d)).
Proof.
  destruct t; cbn [ttstep].
  - apply C19.keep_refl.
  - unfold h_rp_create. destruct ((v <? 14) && _); [apply C19.keep_refl|].
    destruct (rp_create d u name parent) as [d1|e] eqn:Ec; [|destruct e; apply C19.keep_refl].
    exact (C19.rp_create_kp _ _ _ _ _ Ec).
  - destruct (find_rp d u); [destruct (_ && _)|]; apply C19.keep_refl.
  - destruct (find_rp d u) as [me|]; [|apply C19.keep_refl]. unfold rp_update_answer.
    destruct (rp_update d me name new_parent (37 <=? v)) as [d1|e] eqn:Eu; [|destruct e; apply C19.keep_refl].
    exact (C19.rp_update_kp _ _ _ _ _ _ Eu).
  - destruct (find_rp d u); apply C19.keep_refl.
  - unfold rp_delete_answer. destruct (rp_delete d u) as [d1|e] eqn:Ed; [|destruct e; apply C19.keep_refl].
    exact (C19.rp_delete_kp _ _ _ Ed).
  - pose proof (tstep_keep t d) as H. destruct (tstep t d) as [d1 t1]. exact H.
Qed.

Lemma ttstep_inv cf d t t' d' : RI2 d -> tinv' t -> ttstep cf t d = (t', d') ->
  RI2 d' /\ tinv' t' /\ keeps d d'.
Proof.
  intros Hri Hi E. pose proof (ttstep_keep cf t d) as Hk. rewrite E in Hk. cbn [snd] in Hk.
  assert (K : keeps d d') by (apply keeps_eq; exact (proj1 Hk)). clear Hk.
  destruct t; cbn [ttstep] in E; cbn [tinv'] in Hi.
  - (* TTDone *) inj E. split; [exact Hri|]. split; [exact I|exact K].
  - (* TTCreate *)
    pose proof (h_rp_create_RI d v u name parent Hri) as H1.
    destruct (h_rp_create d v u name parent) as [d1 r]. inj E. cbn [fst] in *.
    split; [exact H1|]. split; [exact I|exact K].
  - (* TTUpdLoad *)
    destruct (find_rp d u) as [me|]; [|inj E; split; [exact Hri|split; [exact I|exact K]]].
    destruct ((v <? 14) && _); inj E; (split; [exact Hri|split; [exact I|exact K]]).
  - (* TTUpdSave *)
    destruct (find_rp d u) as [me|]; [|inj E; split; [exact Hri|split; [exact I|exact K]]].
    unfold rp_update_answer in E.
    destruct (rp_update d me name new_parent (37 <=? v)) as [d1|e] eqn:Eu.
    + inj E. split; [eapply rp_update_RI; eassumption|]. split; [exact I|exact K].
    + destruct e; inj E; (split; [exact Hri|split; [exact I|exact K]]).
  - (* TTDelLoad *)
    destruct (find_rp d u); inj E; (split; [exact Hri|split; [exact I|exact K]]).
  - (* TTDelete *)
    unfold rp_delete_answer in E. destruct (rp_delete d u) as [d1|e] eqn:Ed.
    + inj E. split; [eapply rp_delete_RI; eassumption|]. split; [exact I|exact K].
    + destruct e; inj E; (split; [exact Hri|split; [exact I|exact K]]).
  - (* TTOther *)
    destruct (tstep t d) as [d1 t1] eqn:Et. inj E.
    destruct (tstep_RI d t d1 t1 Hri Hi Et) as [H1 H2].
    split; [exact H1|]. split; [exact H2|exact K].
Qed.

(* allocation writes with the class cache *)
Lemma cached_next d snap t d' t' : cached_inv d snap t -> tstep t d = (d', t') -> rcs d' = rcs d ->
  cached_inv d' snap t'.
Proof.
  intros [Ha [Ho Hc]] E Hr. destruct (actx_of t) as [x|] eqn:Ex.
  - destruct (tstep_good d t d' t' x Ho Ex E) as [G1 [G2 G3]]. split; [exact G1|split; [exact G2|]].
    intros x' Hx' Hk. rewrite (G3 x' Hx') in *. destruct (Hc x eq_refl Hk) as [Hw Hs]. split; [exact Hw|].
    destruct Hs as [Hs|[HW Hs]]; [left; exact Hs|right]. split; [exact HW|].
    rewrite (stale_rows_same d d' snap Hr). exact Hs.
  - destruct (tstep_noctx d t d' t' Ha Ex E) as [G1 [G2 G3]]. split; [exact G1|split; [exact G2|]].
    intros x' Hx'. rewrite G3 in Hx'. discriminate.
Qed.

Lemma cached_plain_step d snap t d' t' : RI2 d -> cached_inv d snap t -> tstep t d = (d', t') ->
  RI2 d' /\ cached_inv d' snap t' /\ keeps d d'.
Proof.
  intros Hri Hi E. pose proof (tstep_keep t d) as Hc. rewrite E in Hc. cbn [fst] in Hc.
  destruct (tstep_RI d t d' t' Hri (alloc_state_cinv t (proj1 Hi)) E) as [H1 _].
  split; [exact H1|]. split; [eapply cached_next; [exact Hi|exact E|exact (proj1 Hc)]|apply keeps_eq; exact (proj1 Hc)].
Qed.

Lemma cached_step_inv cf d snap t t' d' : RI2 d -> cached_inv d snap t ->
  astep cf (ACached snap t) d = (t', d') -> RI2 d' /\ ainv d' t' /\ keeps d d'.
Proof.
  intros Hri Hi E. cbn [astep] in E.
  assert (Hplain : forall t1 d1, tstep t d = (d1, t1) -> (t', d') = (ACached snap t1, d1) ->
            RI2 d' /\ ainv d' t' /\ keeps d d').
  { intros t1 d1 Et [= -> ->]. cbn [ainv]. eapply cached_plain_step; eassumption. }
  destruct t; try (destruct (tstep _ d) as [d1 t1] eqn:Et; eapply Hplain; [reflexivity|symmetry; exact E]).
  - (* TObjs *)
    destruct todo as [|w rest];
      [destruct (tstep _ d) as [d1 t1] eqn:Et; eapply Hplain; [reflexivity|symmetry; exact E]|].
    destruct w as [k|k a];
      [|destruct (tstep _ d) as [d1 t1] eqn:Et; eapply Hplain; [reflexivity|symmetry; exact E]].
    destruct (tstep (TObjs x ks (WWipe k :: rest) objs) d) as [d1 t1] eqn:Et.
    destruct (cached_plain_step d snap _ d1 t1 Hri Hi Et) as [H1 [[G1 [G2 G3]] H3]].
    destruct (cache_misses snap (wipe_list d (co_uuid k))); inj E;
      (split; [exact H1|]); (split; [|exact H3]); [|cbn [ainv]; split; [exact G1|split; [exact G2|exact G3]]].
    cbn [ainv]. split; [exact G1|split; [exact G2|]].
    intros x' Hx' Hk. destruct (G3 x' Hx' Hk) as [Hw _]. split; [exact Hw|].
    (* the context of the next state is x, and the head of the work list says that x wipes *)
    destruct Hi as [_ [Ho _]]. cbn [objs_ok] in Ho. inversion Ho as [|? ? Hhead _]; subst. cbn [wipe_ok] in Hhead.
    assert (Ex : x' = x).
    { destruct (tstep_good d (TObjs x ks (WWipe k :: rest) objs) d1 t1 x Ho eq_refl Et) as [_ [_ G]]. apply G. exact Hx'. }
    subst x'. apply Hw. exact Hhead.
  - (* TMain *)
    destruct Hi as [_ [_ Hc]].
    assert (Hst : x_kind x = KReshape -> stale_rows d snap = []).
    { intro Hk. destruct (Hc x eq_refl Hk) as [_ [->|[_ Hs]]]; [reflexivity|exact Hs]. }
    assert (Hcod : forall dd us rs, ainv dd (ACached snap (cleanup_or_done us rs))).
    { intros dd us rs. cbn [ainv]. destruct (good_cod x us rs) as [G1 [G2 G3]].
      split; [exact G1|split; [exact G2|]]. intros x' Hx'. destruct us; discriminate. }
    destruct (main_txn_cached snap x ks objs d) as [d1|e] eqn:Em; inj E.
    + split; [eapply main_txn_cached_RI; eassumption|]. split; [apply Hcod|].
      apply keeps_eq. eapply main_txn_cached_rcs; exact Em.
    + split; [exact Hri|]. split; [apply Hcod|apply keeps_refl].
Qed.

Ltac fin Hri := split; [exact Hri|split; [exact I|apply keeps_refl]].

Lemma astep_inv cf d t t' d' : RI2 d -> ainv d t -> astep cf t d = (t', d') ->
  RI2 d' /\ ainv d' t' /\ keeps d d'.
Proof.
  intros Hri Hi E. destruct t; try (eapply cached_step_inv; eassumption); cbn [astep] in E; cbn [ainv] in Hi.
  - (* ATree *) destruct (ttstep cf t d) as [t1 d1] eqn:Et. inj E.
    exact (ttstep_inv cf d t t1 d1 Hri Hi Et).
  - (* ACacheLoad *) inj E. split; [exact Hri|]. split; [|apply keeps_refl].
    destruct Hi as [G1 [G2 G3]]. cbn [ainv]. split; [exact G1|split; [exact G2|]].
    intros x Hx Hk. destruct (G3 x Hx Hk) as [Hw HW]. split; [exact Hw|]. right. split; [exact HW|apply stale_rows_fresh].
  - (* ADelRead *)
    destruct (tstep (TDelRead c) d) as [d1 t1] eqn:Et. inj E.
    pose proof (tstep_rcs (TDelRead c) d) as Hr. rewrite Et in Hr. cbn [fst] in Hr.
    destruct (tstep_RI d (TDelRead c) d1 t1 Hri I Et) as [H1 H2].
    split; [exact H1|]. split; [|apply keeps_eq; exact Hr]. destruct (tdone t1); exact H2.
  - (* ADelLoad *) inj E. split; [exact Hri|]. split; [exact Hi|apply keeps_refl].
  - (* ATraitsRead *)
    destruct (find_rp d u) as [me|]; [|inj E; fin Hri].
    destruct (negb (g =? rp_gen me)); inj E; fin Hri.
  - (* ATraitsLook *)
    destruct (negb (forallb (trait_exists d) ts)); inj E; fin Hri.
  - (* ATraitsWrite *)
    destruct (existsb (fun t => memZ t lost) ts); [inj E; fin Hri|].
    destruct (set_traits_chk d u g ts) as [d1|e] eqn:Es.
    + inj E. split; [eapply set_traits_chk_RI; eassumption|]. split; [exact I|].
      apply keeps_eq. unfold set_traits_chk in Es. destruct (forallb _ _); [|discriminate].
      eapply set_traits_c_rcs; exact Es.
    + destruct e; inj E; fin Hri.
  - (* AAggsRead *)
    destruct (find_rp d u) as [me|]; [|inj E; fin Hri].
    destruct ((19 <=? v) && negb (g =? rp_gen me)); inj E; fin Hri.
  - (* AAggsWrite: the write transaction has just seen the provider *)
    destruct (if gone then None else find_rp d u) as [me|] eqn:Ef; [|inj E; fin Hri].
    assert (Hu : In u (rpk d)).
    { destruct gone; [discriminate|]. eapply find_rp_rpk; exact Ef. }
    destruct (set_aggregates_txn d u g (dedup l) (19 <=? v)) as [d1|e] eqn:Es; inj E; [|fin Hri].
    split; [eapply set_aggregates_txn_RI; eassumption|]. split; [exact I|].
    apply keeps_eq. exact (proj1 (C19.set_aggregates_txn_kp _ _ _ _ _ _ Es)).
  - (* ARcCreate *)
    destruct (rc_create d n) as [d1|e] eqn:Ec; inj E; [|fin Hri].
    split; [eapply rc_create_RI; eassumption|]. split; [exact I|].
    intros _ id H. eapply rc_create_rows; eassumption.
  - (* ARcPutLook *) destruct (rc_id_of_name d n); inj E; fin Hri.
  - (* ARcPutCreate *)
    destruct (rc_create d n) as [d1|e] eqn:Ec; inj E; [|fin Hri].
    split; [eapply rc_create_RI; eassumption|]. split; [exact I|].
    intros _ id H. eapply rc_create_rows; eassumption.
  - (* ARcRenLook *)
    destruct (rc_id_of_name d old) as [id|]; [|inj E; fin Hri].
    destruct (id <? MIN_CUSTOM_RC_ID); inj E; fin Hri.
  - (* ARcRenSave *)
    destruct (negb (rc_row_exists d id)); [inj E; fin Hri|].
    destruct (_ || is_std_rc_name new); inj E; [fin Hri|].
    split; [apply rc_rename_by_id_RI; exact Hri|]. split; [exact I|].
    intros _ id0 H. unfold rc_row_exists in *. cbn [rcs set_rcs]. rewrite existsb_map_fst; [exact H|].
    intro y. destruct (fst y =? id) eqn:Ey; [apply Z.eqb_eq in Ey; cbn; auto|reflexivity].
  - (* ARcDelLook *)
    destruct (rc_id_of_name d n) as [id|]; [|inj E; fin Hri].
    destruct (id <? MIN_CUSTOM_RC_ID); inj E; [fin Hri|].
    split; [exact Hri|split; [exact Hi|apply keeps_refl]].
  - (* ARcDestroy *)
    destruct (existsb (fun i => i_rc i =? id) (invs d)) eqn:Ei; [inj E; fin Hri|].
    destruct (negb (rc_row_exists d id)); inj E; [fin Hri|].
    split; [apply rc_destroy_by_id_RI; assumption|]. split; [exact I|]. intro HW. contradiction.
  - (* ATraitPutLook *) destruct (trait_exists d t); inj E; fin Hri.
  - (* ATraitCreate *)
    destruct (trait_create d t) as [d1|e] eqn:Ec; inj E; [|fin Hri].
    split; [eapply trait_create_RI; eassumption|]. split; [exact I|].
    apply keeps_eq. unfold trait_create in Ec. destruct (trait_exists d t); [discriminate|].
    injection Ec as <-. reflexivity.
  - (* ATraitDelLook *)
    destruct (negb (trait_exists d t)); [inj E; fin Hri|].
    destruct (is_std_trait t); inj E; fin Hri.
  - (* ATraitDestroy: by the looked-up identity *)
    destruct stale; [inj E; fin Hri|].
    destruct (existsb (fun x => snd x =? t) (rp_traits d)) eqn:Ex; [inj E; fin Hri|].
    destruct (negb (memZ t (traits d))); inj E; [fin Hri|].
    split; [apply trait_destroy_by_name_RI; assumption|]. split; [exact I|apply keeps_eq; reflexivity].
Qed.

(* ================================================================ 6. schedules *)
Lemma a_step_raw_inv cf : forall i ts d ts' d', RI2 d -> Forall (ainv d) ts ->
  a_step_raw cf i ts d = (ts', d') -> RI2 d' /\ Forall (ainv d') ts' /\ keeps d d'.
Proof.
  induction i as [|i IH]; intros [|t ts] d ts' d' Hri Hf E; cbn [a_step_raw] in E.
  - inj E. split; [exact Hri|split; [constructor|apply keeps_refl]].
  - destruct (astep cf t d) as [t1 d1] eqn:Et. inj E. inversion Hf as [|? ? Ht Hts]; subst.
    destruct (astep_inv cf d t t1 d1 Hri Ht Et) as [H1 [H2 H3]].
    split; [exact H1|]. split; [|exact H3]. constructor; [exact H2|].
    eapply Forall_impl; [|exact Hts]. intros t0. apply ainv_frame. exact H3.
  - inj E. split; [exact Hri|split; [constructor|apply keeps_refl]].
  - destruct (a_step_raw cf i ts d) as [ts1 d1] eqn:Et. inj E. inversion Hf as [|? ? Ht Hts]; subst.
    destruct (IH ts d ts1 d1 Hri Hts Et) as [H1 [H2 H3]].
    split; [exact H1|]. split; [|exact H3]. constructor; [|exact H2].
    eapply ainv_frame; eassumption.
Qed.

(* the notes about deleted rows touch only threads that carry no invariant: their write transactions decide *)
Lemma ainv_anote d gt gp t : ainv d t -> ainv d (anote gt gp t).
Proof. destruct t; cbn [anote ainv]; intro H; exact H. Qed.

Lemma a_step_thread_inv cf i ts d ts' d' : RI2 d -> Forall (ainv d) ts ->
  a_step_thread cf i ts d = (ts', d') -> RI2 d' /\ Forall (ainv d') ts'.
Proof.
  intros Hri Hf E. unfold a_step_thread in E. destruct (a_step_raw cf i ts d) as [ts1 d1] eqn:Er. inj E.
  destruct (a_step_raw_inv cf i ts d ts1 d1 Hri Hf Er) as [H1 [H2 _]].
  split; [exact H1|]. apply Forall_forall. intros t Ht. apply in_map_iff in Ht. destruct Ht as [t1 [<- Ht1]].
  apply ainv_anote. rewrite Forall_forall in H2. exact (H2 t1 Ht1).
Qed.

Lemma a_run_sched_inv cf : forall s ts d, RI2 d -> Forall (ainv d) ts ->
  RI2 (snd (a_run_sched cf s ts d)) /\ Forall (ainv (snd (a_run_sched cf s ts d))) (fst (a_run_sched cf s ts d)).
Proof.
  induction s as [|i s IH]; intros ts d Hri Hf; cbn [a_run_sched]; [cbn [fst snd]; auto|].
  destruct (a_step_thread cf i ts d) as [ts1 d1] eqn:E.
  destruct (a_step_thread_inv cf i ts d ts1 d1 Hri Hf E) as [H1 H2].
  apply IH; assumption.
Qed.

(* the coarser granularity: a slot is one or two steps of the same thread *)
Lemma a_step_thread_coarse_inv cf i ts d ts' d' : RI2 d -> Forall (ainv d) ts ->
  a_step_thread_coarse cf i ts d = (ts', d') -> RI2 d' /\ Forall (ainv d') ts'.
Proof.
  intros Hri Hf E. unfold a_step_thread_coarse in E.
  destruct (nth_error ts i) as [t|]; [|inj E; split; assumption].
  destruct (loads t); [|eapply a_step_thread_inv; eassumption].
  destruct (a_step_thread cf i ts d) as [ts1 d1] eqn:E1.
  destruct (a_step_thread_inv cf i ts d ts1 d1 Hri Hf E1) as [H1 H2].
  eapply a_step_thread_inv; eassumption.
Qed.

Lemma a_run_sched_coarse_inv cf : forall s ts d, RI2 d -> Forall (ainv d) ts ->
  RI2 (snd (a_run_sched_coarse cf s ts d)).
Proof.
  induction s as [|i s IH]; intros ts d Hri Hf; cbn [a_run_sched_coarse]; [exact Hri|].
  destruct (a_step_thread_coarse cf i ts d) as [ts1 d1] eqn:E.
  destruct (a_step_thread_coarse_inv cf i ts d ts1 d1 Hri Hf E) as [H1 H2].
  apply IH; assumption.
Qed.

(* what the requests must satisfy for their initial threads to satisfy the invariant *)
Definition req_ok (r : req) : Prop :=
  (forall v ri al, r = Reshape v ri al -> has_wipe al = true -> W) /\ (forall v n, r = RcDelete v n -> ~ W).

Lemma cached_init d t : alloc_state t -> objs_ok t ->
  (forall x, actx_of t = Some x -> x_kind x = KReshape -> has_wipe (x_all x) = true -> W) ->
  cached_inv d None t.
Proof.
  intros H1 H2 H3. split; [exact H1|split; [exact H2|]]. intros x Hx Hk.
  split; [apply H3; assumption|left; reflexivity].
Qed.

Lemma ainit_inv cf d r : req_ok r -> ainv d (ainit cf r).
Proof.
  intros [Hw Hc].
  destruct r; cbn [ainit ttinit tinit prov_target prov_version_gate ainv tinv' cinv];
    repeat match goal with |- context [if ?b then _ else _] => destruct b end;
    cbn [ainv tinv' cinv ADone]; try exact I;
    try (split; [exact I|reflexivity]);
    try (apply cached_init; [exact I|exact I|]; intros x0 Hx0; try discriminate Hx0; injection Hx0 as <-;
         cbn [x_kind]; try discriminate).
  - cbn [x_all]. intros _ Hal. eapply Hw; [reflexivity|exact Hal].
  - eapply Hc. reflexivity.
Qed.
End Guard.

(* ================================================================ 7. RI as a computation *)
Lemma rp_exb_iff d u : rp_exb d u = true <-> rp_in d u.
Proof.
  unfold rp_exb, rp_in. destruct (find_rp d u) as [r|]; split; intro H; try reflexivity; try discriminate.
  - exists r. reflexivity.
  - destruct H as [r H]. discriminate.
Qed.
Lemma some_iff {A} (o : option A) : (match o with Some _ => true | None => false end) = true <-> exists x, o = Some x.
Proof. destruct o as [a|]; split; intro H; try reflexivity; try discriminate; [exists a; reflexivity|destruct H; discriminate]. Qed.

Lemma ri_b_spec d : ri_b d = true <-> RI d.
Proof.
  unfold ri_b, RI. rewrite !andb_true_iff, !forallb_forall. split.
  - intros [[[HA HV] HT] HG]. split; [|split; [|split]].
    + intros a Ha. specialize (HA a Ha). rewrite !andb_true_iff in HA. destruct HA as [[H1 H2] H3].
      apply rp_exb_iff in H1. apply some_iff in H2. apply some_iff in H3. auto.
    + intros i Hi. specialize (HV i Hi). rewrite andb_true_iff in HV. destruct HV as [H1 H2].
      apply rp_exb_iff in H1. auto.
    + intros x Hx. specialize (HT x Hx). rewrite andb_true_iff in HT. destruct HT as [H1 H2].
      apply rp_exb_iff in H1. auto.
    + intros x Hx. specialize (HG x Hx). rewrite andb_true_iff in HG. destruct HG as [H1 H2].
      apply rp_exb_iff in H1. apply memZ_In in H2. auto.
  - intros [HA [HV [HT HG]]]. repeat split.
    + intros a Ha. destruct (HA a Ha) as [H1 [H2 H3]]. rewrite !andb_true_iff.
      apply rp_exb_iff in H1. apply some_iff in H2. apply some_iff in H3. auto.
    + intros i Hi. destruct (HV i Hi) as [H1 H2]. rewrite andb_true_iff. apply rp_exb_iff in H1. auto.
    + intros x Hx. destruct (HT x Hx) as [H1 H2]. rewrite andb_true_iff. apply rp_exb_iff in H1. auto.
    + intros x Hx. destruct (HG x Hx) as [H1 H2]. rewrite andb_true_iff. apply rp_exb_iff in H1.
      apply memZ_In in H2. auto.
Qed.

Lemma ri_b_false d : ri_b d = false -> ~ RI d.
Proof. intros H Hri. apply ri_b_spec in Hri. congruence. Qed.

(* ================================================================ 8. THE THEOREM (partial) *)
(* a POST /reshaper one of whose consumers has "allocations": {} (its rows are re-read, which fills the class cache) *)
Definition wiping_reshape_in (reqs : list req) : Prop :=
  exists v ri al, In (Reshape v ri al) reqs /\ has_wipe al = true.
(* the excluded pair: such a request together with a DELETE /resource_classes/{name} *)
Definition no_reshape_class_delete_race (reqs : list req) : Prop :=
  wiping_reshape_in reqs -> forall v n, ~ In (RcDelete v n) reqs.
Definition race_free (reqs : list req) : Prop := no_reshape_class_delete_race reqs.

Lemma init_threads_inv cf reqs d : race_free reqs ->
  Forall (ainv (wiping_reshape_in reqs) d) (map (ainit cf) reqs).
Proof.
  intros Hnr. apply Forall_forall. intros t Ht. apply in_map_iff in Ht. destruct Ht as [r [<- Hr]].
  apply ainit_inv. split.
  - intros v ri al -> Hal. exists v, ri, al. split; assumption.
  - intros v n -> HW. exact (Hnr HW v n Hr).
Qed.

Theorem C08c_ri_all_schedules_partial :
  forall cf reqs s d, RI d -> Forall (fun r => req_wf r = true) reqs -> race_free reqs ->
    RI (snd (a_run_sched cf s (map (ainit cf) reqs) d)).
Proof.
  intros cf reqs s d Hri _ Hno. apply RI_RI2.
  apply (a_run_sched_inv (wiping_reshape_in reqs) cf s (map (ainit cf) reqs) d).
  - apply RI_RI2. exact Hri.
  - apply init_threads_inv. exact Hno.
Qed.

(* the same for schedulers that do not stop at the cache loads (a_run_sched_coarse) *)
Theorem C08c_ri_all_schedules_coarse_partial :
  forall cf reqs s d, RI d -> Forall (fun r => req_wf r = true) reqs -> race_free reqs ->
    RI (snd (a_run_sched_coarse cf s (map (ainit cf) reqs) d)).
Proof.
  intros cf reqs s d Hri _ Hno. apply RI_RI2.
  apply (a_run_sched_coarse_inv (wiping_reshape_in reqs) cf s (map (ainit cf) reqs) d).
  - apply RI_RI2. exact Hri.
  - apply init_threads_inv. exact Hno.
Qed.

(* readable instances of the hypothesis *)
Definition is_reshape (r : req) : bool := match r with Reshape _ _ _ => true | _ => false end.
Definition is_rc_delete (r : req) : bool := match r with RcDelete _ _ => true | _ => false end.

Corollary C08c_ri_all_schedules_no_reshape :
  forall cf reqs s d, RI d -> Forall (fun r => req_wf r = true) reqs ->
    Forall (fun r => is_reshape r = false) reqs ->
    RI (snd (a_run_sched cf s (map (ainit cf) reqs) d)).
Proof.
  intros cf reqs s d Hri Hwf Hn. apply C08c_ri_all_schedules_partial; try assumption.
  rewrite Forall_forall in Hn. intros [v [ri [al [Hin _]]]]. pose proof (Hn _ Hin) as H. discriminate.
Qed.

Corollary C08c_ri_all_schedules_no_class_delete :
  forall cf reqs s d, RI d -> Forall (fun r => req_wf r = true) reqs ->
    Forall (fun r => is_rc_delete r = false) reqs ->
    RI (snd (a_run_sched cf s (map (ainit cf) reqs) d)).
Proof.
  intros cf reqs s d Hri Hwf Hn. apply C08c_ri_all_schedules_partial; try assumption.
  rewrite Forall_forall in Hn. intros _ v n Hin. pose proof (Hn _ Hin) as H. discriminate.
Qed.

Theorem C08c_ri_every_prefix_partial :
  forall cf reqs s d k, RI d -> Forall (fun r => req_wf r = true) reqs -> race_free reqs ->
    RI (snd (a_exec cf reqs (firstn k s) d)).
Proof. intros. unfold a_exec. apply C08c_ri_all_schedules_partial; assumption. Qed.

Theorem C08c_ri_reachable_partial :
  forall cf setup reqs s, reqs_wf setup -> Forall (fun r => req_wf r = true) reqs -> race_free reqs ->
    RI (snd (a_exec cf reqs s (run cf db0 setup))).
Proof.
  intros cf setup reqs s Hs Hwf Hno. unfold a_exec. apply C08c_ri_all_schedules_partial; try assumption.
  apply (c08_invariant cf). exists setup. split; [exact Hs|reflexivity].
Qed.

(* prefixes really are the intermediate states *)
Lemma a_run_sched_app cf s1 : forall s2 ts d,
  a_run_sched cf (s1 ++ s2) ts d =
  a_run_sched cf s2 (fst (a_run_sched cf s1 ts d)) (snd (a_run_sched cf s1 ts d)).
Proof.
  induction s1 as [|i s1 IH]; intros s2 ts d; cbn [app a_run_sched fst snd]; [reflexivity|].
  destruct (a_step_thread cf i ts d) as [ts1 d1]. apply IH.
Qed.

(* the per-step statement, for any guard W (a wiping reshape is present) *)
Theorem C08c_step_ri :
  forall W cf t d, RI d -> ainv W d t -> RI (snd (astep cf t d)).
Proof.
  intros W cf t d Hri Hi. destruct (astep cf t d) as [t1 d1] eqn:E. cbn [snd].
  apply RI_RI2. apply RI_RI2 in Hri. exact (proj1 (astep_inv W cf d t t1 d1 Hri Hi E)).
Qed.

(* ================================================================ 9. the unrestricted statement is FALSE *)
Definition cf0 : cfg := mkCfg 0 0.
Definition statuses (ts : list athread) : list Z :=
  map (fun t => match a_done t with Some r => status r | None => -1 end) ts.

(* ---------------------------------------------------------------- the class cache (NOT repaired in the code).
   provider 1 with 8 VCPU, consumer 7 holding 1 VCPU there, custom class 10000 (CUSTOM_X) without inventory.
   thread 0: POST /reshaper {inventories of 1: VCPU and CUSTOM_X; allocations: {7: {"allocations": {}}}}
   thread 1: DELETE /resource_classes/CUSTOM_X
   schedule: 0 reads the provider, 0 reads the consumer, 0 re-reads the rows of 7, 0 loads the class table into its
   cache to translate their class ids (the cache now holds CUSTOM_X -> 10000), 1 looks CUSTOM_X up, 1 destroys it (no inventory refers to it), 0 runs
   its transaction, resolves CUSTOM_X from its cache and stores an inventory of a class that is gone *)
Definition rs_vcpu : inv_in := mkInvIn 0 8 0 1 8 1 1 0.
Definition rs_cust : inv_in := mkInvIn 10000 8 0 1 8 1 1 0.
Definition rs_setup : list req :=
  [RpCreate 37 1 11 None; InvSet 37 1 0 [rs_vcpu];
   AllocPut 37 (mkConsIn 7 [mkAllocIn 1 [(0, 1)]] (Some 5) (Some 6) None None); RcPut 37 1000].
Definition rs_d0 : db := run cf0 db0 rs_setup.
Definition rs_reqs : list req :=
  [Reshape 30 [mkRinvIn 1 2 [rs_vcpu; rs_cust]] [mkConsIn 7 [] (Some 5) (Some 6) (Some 1) None]; RcDelete 37 1000].
Definition rs_sched : list nat := [0; 0; 0; 0; 1; 1; 0]%nat.

Example C08c_ex_reshape_class_delete_race :
  let conc := a_exec cf0 rs_reqs rs_sched rs_d0 in
  statuses (fst conc) = [204; 204] /\ rcs (snd conc) = [] /\
  map i_rc (invs (snd conc)) = [0; 10000] /\ ri_b (snd conc) = false.
Proof. vm_compute. repeat split; reflexivity. Qed.

Theorem C08c_ri_refuted_reshape_vs_class_delete :
  reqs_wf rs_setup /\ Forall (fun r => req_wf r = true) rs_reqs /\
  ~ RI (snd (a_exec cf0 rs_reqs rs_sched (run cf0 db0 rs_setup))).
Proof.
  split; [repeat constructor|]. split; [repeat constructor|].
  apply ri_b_false. vm_compute. reflexivity.
Qed.

(* in the general form of the statement *)
Theorem C08c_ri_all_schedules_refuted :
  exists cf reqs s d, RI d /\ Forall (fun r => req_wf r = true) reqs /\
    ~ RI (snd (a_run_sched cf s (map (ainit cf) reqs) d)).
Proof.
  exists cf0, rs_reqs, rs_sched, rs_d0. split; [|split].
  - apply ri_b_spec. vm_compute. reflexivity.
  - repeat constructor.
  - apply ri_b_false. vm_compute. reflexivity.
Qed.

(* the other schedules of the same two requests: the delete first -> the reshape reloads the table inside its
   transaction, 400; the reshape first -> the delete re-counts the inventories, 409 *)
Example C08c_ex_reshape_class_delete_other_orders :
  statuses (fst (a_exec cf0 rs_reqs [0; 0; 1; 1; 0; 0; 0]%nat rs_d0)) = [400; 204] /\
  ri_b (snd (a_exec cf0 rs_reqs [0; 0; 1; 1; 0; 0; 0]%nat rs_d0)) = true /\
  (* the delete between the re-read of the rows and the cache load: the load no longer sees the class *)
  statuses (fst (a_exec cf0 rs_reqs [0; 0; 0; 1; 1; 0; 0]%nat rs_d0)) = [400; 204] /\
  ri_b (snd (a_exec cf0 rs_reqs [0; 0; 0; 1; 1; 0; 0]%nat rs_d0)) = true /\
  statuses (fst (a_exec cf0 rs_reqs [0; 0; 0; 0; 0; 1; 1]%nat rs_d0)) = [204; 409] /\
  ri_b (snd (a_exec cf0 rs_reqs [0; 0; 0; 0; 0; 1; 1]%nat rs_d0)) = true.
Proof. vm_compute. repeat split; reflexivity. Qed.

(* Model/Conc.v's thread (no cache: the transaction always looks at the class table) answers 400 on the racy
   schedule - the real application answers 204 and stores the dangling inventory *)
Example C08c_conc_reshape_thread_lacks_cache :
  let ts := [ATree (TTOther (tinit cf0 (nth 0 rs_reqs (RpDelete 0)))); ainit cf0 (RcDelete 37 1000)] in
  let conc := a_run_sched cf0 [0; 0; 0; 1; 1; 0]%nat ts rs_d0 in
  statuses (fst conc) = [400; 204] /\ ri_b (snd conc) = true.
Proof. vm_compute. split; reflexivity. Qed.

(* ================================================================ 9b. the two REPAIRED races: the schedules that
   broke RI before 09e8fa2 / 42072ba now preserve it, with the answers of the repaired code *)
Lemma no_reshape_race_free reqs : Forall (fun r => is_reshape r = false) reqs -> race_free reqs.
Proof.
  intro Hn. rewrite Forall_forall in Hn. intros [v [ri [al [Hin _]]]]. pose proof (Hn _ Hin) as H. discriminate.
Qed.

(* PUT /resource_providers/1/aggregates at 1.1 racing DELETE /resource_providers/1: read, read, delete, write *)
Definition ag_setup : list req := [RpCreate 37 1 11 None].
Definition ag_d0 : db := run cf0 db0 ag_setup.
Definition ag_reqs : list req := [AggsSet 1 1 0 [55]; RpDelete 1].
Definition ag_sched : list nat := [0; 1; 1; 0]%nat.

Theorem C08c_aggs_vs_provider_delete_repaired :
  let conc := a_exec cf0 ag_reqs ag_sched ag_d0 in
  statuses (fst conc) = [404; 204] /\ rps (snd conc) = [] /\ rp_aggs (snd conc) = [] /\ aggs (snd conc) = [] /\
  RI (snd conc) /\
  (* ... and so does every other schedule of these two requests, from every reachable state *)
  (forall setup s, reqs_wf setup -> RI (snd (a_exec cf0 ag_reqs s (run cf0 db0 setup)))).
Proof.
  cbv zeta. split; [vm_compute; reflexivity|]. split; [vm_compute; reflexivity|]. split; [vm_compute; reflexivity|].
  split; [vm_compute; reflexivity|]. split; [apply ri_b_spec; vm_compute; reflexivity|].
  intros setup s Hs. apply C08c_ri_reachable_partial; [exact Hs|repeat constructor|].
  apply no_reshape_race_free. repeat constructor.
Qed.

(* for EVERY PUT aggregates (any microversion, any list) racing the DELETE of its provider, any schedule *)
Theorem C08c_aggs_vs_provider_delete_all :
  forall cf v u g l s d, RI d -> RI (snd (a_exec cf [AggsSet v u g l; RpDelete u] s d)).
Proof.
  intros cf v u g l s d Hri. unfold a_exec. apply C08c_ri_all_schedules_partial; [exact Hri|repeat constructor|].
  apply no_reshape_race_free. repeat constructor.
Qed.

(* the same schedule at 1.19: the existence check comes before the generation check: 404 (it was 409) *)
Example C08c_ex_aggs_1_19 :
  let conc := a_exec cf0 [AggsSet 19 1 0 [55]; RpDelete 1] ag_sched ag_d0 in
  statuses (fst conc) = [404; 204] /\ rp_aggs (snd conc) = [] /\ ri_b (snd conc) = true.
Proof. vm_compute. repeat split; reflexivity. Qed.
(* the provider is deleted AND created again (same uuid, another row) between the read and the write: 404 *)
Example C08c_ex_aggs_provider_recreated :
  let conc := a_exec cf0 [AggsSet 1 1 0 [55]; RpDelete 1; RpCreate 37 1 11 None] [0; 1; 1; 2; 0]%nat ag_d0 in
  statuses (fst conc) = [404; 204; 200] /\ rp_aggs (snd conc) = [] /\ map rp_uuid (rps (snd conc)) = [1] /\
  ri_b (snd conc) = true.
Proof. vm_compute. repeat split; reflexivity. Qed.
(* the write first: the delete cascades to the associations *)
Example C08c_ex_aggs_then_delete :
  let conc := a_exec cf0 ag_reqs [0; 1; 0; 1]%nat ag_d0 in
  statuses (fst conc) = [200; 204] /\ rp_aggs (snd conc) = [] /\ aggs (snd conc) = [55] /\ ri_b (snd conc) = true.
Proof. vm_compute. repeat split; reflexivity. Qed.

(* Model/Conc.v's thread for PUT aggregates has no existence check: below 1.19 it still writes for the provider
   that is gone (and from 1.19 it answers 409 where the code answers 404) *)
Theorem C08c_conc_aggs_thread_lacks_recheck :
  let ts := [ATree (TTOther (tinit cf0 (AggsSet 1 1 0 [55]))); ainit cf0 (RpDelete 1)] in
  let conc := a_run_sched cf0 ag_sched ts ag_d0 in
  statuses (fst conc) = [200; 204] /\ rps (snd conc) = [] /\ rp_aggs (snd conc) = [(1, 55)] /\ ~ RI (snd conc).
Proof.
  cbv zeta. split; [vm_compute; reflexivity|]. split; [vm_compute; reflexivity|]. split; [vm_compute; reflexivity|].
  apply ri_b_false. vm_compute. reflexivity.
Qed.

(* DELETE /traits/T twice, PUT /traits/T, PUT /resource_providers/1/traits [T]:
   0 looks T up (row a); 1 looks it up and destroys it; 2 creates T again (row b); 3 associates provider 1 with
   it; 0 destroys BY THE ID it looked up: row a is gone, 404, row b and its association stay *)
Definition ta_setup : list req := [RpCreate 37 1 11 None; TraitPut 37 100000].
Definition ta_reqs : list req :=
  [TraitDelete 37 100000; TraitDelete 37 100000; TraitPut 37 100000; TraitsSet 37 1 0 [100000]].
Definition ta_sched : list nat := [0; 1; 1; 2; 2; 3; 3; 3; 0]%nat.

Theorem C08c_trait_recreated_repaired :
  let conc := a_exec cf0 ta_reqs ta_sched (run cf0 db0 ta_setup) in
  statuses (fst conc) = [404; 204; 201; 200] /\ traits (snd conc) = [100000] /\
  rp_traits (snd conc) = [(1, 100000)] /\ RI (snd conc) /\
  (forall setup s, reqs_wf setup -> RI (snd (a_exec cf0 ta_reqs s (run cf0 db0 setup)))).
Proof.
  cbv zeta. split; [vm_compute; reflexivity|]. split; [vm_compute; reflexivity|]. split; [vm_compute; reflexivity|].
  split; [apply ri_b_spec; vm_compute; reflexivity|].
  intros setup s Hs. apply C08c_ri_reachable_partial; [exact Hs|repeat constructor|].
  apply no_reshape_race_free. repeat constructor.
Qed.

Example C08c_ex_trait_deleted_twice :
  let conc := a_exec cf0 [TraitDelete 37 100000; TraitDelete 37 100000] [0; 1; 1; 0]%nat (run cf0 db0 ta_setup) in
  statuses (fst conc) = [404; 204] /\ traits (snd conc) = [] /\ ri_b (snd conc) = true.
Proof. vm_compute. repeat split; reflexivity. Qed.
(* the late destroy leaves the re-created trait alone *)
Example C08c_ex_trait_recreated_kept :
  let conc := a_exec cf0 [TraitDelete 37 100000; TraitDelete 37 100000; TraitPut 37 100000] [0; 1; 1; 2; 2; 0]%nat
                     (run cf0 db0 ta_setup) in
  statuses (fst conc) = [404; 204; 201] /\ traits (snd conc) = [100000] /\ ri_b (snd conc) = true.
Proof. vm_compute. repeat split; reflexivity. Qed.
(* PUT /resource_providers/1/traits holding the id of a row deleted (and re-created) after its look-up: 400 *)
Example C08c_ex_traits_write_lost_id :
  let conc := a_exec cf0 [TraitsSet 37 1 0 [100000]; TraitDelete 37 100000; TraitPut 37 100000]
                     [0; 0; 1; 1; 2; 2; 0]%nat (run cf0 db0 ta_setup) in
  statuses (fst conc) = [400; 204; 201] /\ traits (snd conc) = [100000] /\ rp_traits (snd conc) = [] /\
  ri_b (snd conc) = true.
Proof. vm_compute. repeat split; reflexivity. Qed.

(* the modelling gap of Model/Conc.v: its thread for PUT /resource_providers/{u}/traits (set_traits_c, without the
   re-verification the code has since 6eda2e3) associates a trait that DELETE /traits/{t} removed in between *)
Definition tr_setup : list req := [RpCreate 37 1 11 None; TraitPut 37 100000].
Definition tr_d0 : db := run cf0 db0 tr_setup.
Theorem C08c_conc_traits_thread_lacks_recheck :
  let ts := [ainit cf0 (TraitDelete 37 100000); ATree (TTOther (tinit cf0 (TraitsSet 37 1 0 [100000])))] in
  let conc := a_run_sched cf0 [0; 1; 0; 1]%nat ts tr_d0 in
  RI tr_d0 /\ statuses (fst conc) = [204; 200] /\ rp_traits (snd conc) = [(1, 100000)] /\
  traits (snd conc) = [] /\ ~ RI (snd conc).
Proof.
  cbv zeta. split; [apply ri_b_spec; vm_compute; reflexivity|].
  split; [vm_compute; reflexivity|]. split; [vm_compute; reflexivity|]. split; [vm_compute; reflexivity|].
  apply ri_b_false. vm_compute. reflexivity.
Qed.
(* ... the thread of this file (provider read, trait look-up, then the write transaction of the current code, which
   runs after the trait has been deleted) refuses: 400, nothing written *)
Example C08c_ex_traits_recheck :
  let conc := a_exec cf0 [TraitDelete 37 100000; TraitsSet 37 1 0 [100000]] [1; 1; 0; 0; 1]%nat tr_d0 in
  statuses (fst conc) = [204; 400] /\ rp_traits (snd conc) = [] /\ traits (snd conc) = [] /\ ri_b (snd conc) = true.
Proof. vm_compute. repeat split; reflexivity. Qed.

(* ================================================================ 10. a thread alone = the sequential handler *)
Definition is_ct_req (r : req) : Prop :=
  match r with
  | RcCreate _ _ | RcPut _ _ | RcRename _ _ _ | RcDelete _ _ | TraitPut _ _ | TraitDelete _ _ => True
  | _ => False
  end.

Lemma a_run_thread_done cf k r d : a_run_thread cf k (ADone r) d = (ADone r, d).
Proof. destruct k; reflexivity. Qed.

Lemma rc_id_row d n id : rc_id_of_name d n = Some id -> (id <? MIN_CUSTOM_RC_ID) = false -> rc_row_exists d id = true.
Proof.
  unfold rc_id_of_name, rc_row_exists. intros H Hid. apply Z.ltb_ge in Hid.
  destruct (is_std_rc_name n) eqn:Es.
  - injection H as <-. unfold is_std_rc_name in Es. apply andb_true_iff in Es. destruct Es as [_ Es].
    apply Z.ltb_lt in Es. unfold n_std_rc, MIN_CUSTOM_RC_ID in *. lia.
  - destruct (find (fun x => snd x =? n) (rcs d)) as [x|] eqn:Ef; [|discriminate]. injection H as <-.
    apply find_some in Ef. apply existsb_exists. exists x. split; [tauto|apply Z.eqb_refl].
Qed.

Lemma trait_custom_mem d t : trait_exists d t = true -> is_std_trait t = false -> memZ t (traits d) = true.
Proof. unfold trait_exists. intros H Hs. rewrite Hs in H. exact H. Qed.

Ltac stepA := cbn [a_run_thread a_done astep].
Ltac doneA := rewrite ?a_run_thread_done; reflexivity.

Lemma put_look_serial cf d v n k : (v <? 2) = false -> (v <? 7) = false -> is_std_rc_name n = false ->
  a_run_thread cf (S (S k)) (ARcPutLook n) d = (ADone (snd (h_rc_put d v n)), fst (h_rc_put d v n)).
Proof.
  intros H1 H2 H3. unfold h_rc_put. rewrite H1, H2, H3. stepA.
  destruct (rc_id_of_name d n); [doneA|]. stepA. destruct (rc_create d n); doneA.
Qed.

Theorem a_serial :
  forall cf d r k, is_ct_req r -> (2 <= k)%nat ->
    a_run_thread cf k (ainit cf r) d = (ADone (snd (step cf d r)), fst (step cf d r)).
Proof.
  intros cf d r k Hr Hk. destruct k as [|[|k]]; try lia.
  destruct r; try contradiction; cbn [ainit step].
  - (* RcCreate *) unfold h_rc_create. destruct (v <? 2); [doneA|]. destruct (is_std_rc_name n); [doneA|].
    stepA. destruct (rc_create d n); doneA.
  - (* RcPut *) destruct (v <? 2) eqn:E1; [unfold h_rc_put; rewrite E1; doneA|].
    destruct (v <? 7) eqn:E2; [unfold h_rc_put; rewrite E1, E2; doneA|].
    destruct (is_std_rc_name n) eqn:E3; [unfold h_rc_put; rewrite E1, E2, E3; doneA|].
    apply put_look_serial; assumption.
  - (* RcRename *) unfold h_rc_rename. destruct (v <? 2) eqn:E1; [doneA|].
    destruct (6 <? v) eqn:E6.
    + assert (E2 : (v <? 7) = false) by (apply Z.ltb_ge; apply Z.ltb_lt in E6; lia).
      destruct (is_std_rc_name old) eqn:E3; [unfold h_rc_put; rewrite E1, E2, E3; doneA|].
      apply put_look_serial; assumption.
    + destruct (is_std_rc_name new) eqn:E3; [doneA|]. stepA. unfold rc_rename.
      destruct (rc_id_of_name d old) as [id|] eqn:Ei; [|doneA].
      destruct (id <? MIN_CUSTOM_RC_ID) eqn:Em; [doneA|]. stepA.
      rewrite (rc_id_row d old id Ei Em). cbn [negb]. rewrite E3.
      destruct (existsb _ (rcs d) || false); doneA.
  - (* RcDelete *) unfold h_rc_delete. destruct (v <? 2); [doneA|]. stepA. unfold rc_destroy.
    destruct (rc_id_of_name d n) as [id|] eqn:Ei; [|doneA].
    destruct (id <? MIN_CUSTOM_RC_ID) eqn:Em; [doneA|]. stepA.
    destruct (existsb (fun i => i_rc i =? id) (invs d)); [doneA|].
    rewrite (rc_id_row d n id Ei Em). cbn [negb]. doneA.
  - (* TraitPut *) unfold h_trait_put. destruct (v <? 6); [doneA|]. destruct (is_std_trait t); [doneA|].
    stepA. unfold trait_create. destruct (trait_exists d t) eqn:Et; [doneA|]. stepA. unfold trait_create. rewrite Et. doneA.
  - (* TraitDelete *) unfold h_trait_delete. destruct (v <? 6); [doneA|]. stepA. unfold trait_destroy.
    destruct (trait_exists d t) eqn:Et; cbn [negb]; [|doneA].
    destruct (is_std_trait t) eqn:Es; [doneA|]. stepA.
    destruct (existsb (fun x => snd x =? t) (rp_traits d)); [doneA|].
    rewrite (trait_custom_mem d t Et Es). cbn [negb]. doneA.
Qed.

Corollary a_serial_2 : forall cf d r, is_ct_req r ->
  a_run_thread cf 2 (ainit cf r) d = (ADone (snd (step cf d r)), fst (step cf d r)).
Proof. intros. apply a_serial; [assumption|lia]. Qed.
Corollary a_serial_3 : forall cf d r, is_ct_req r ->
  a_run_thread cf 3 (ainit cf r) d = (ADone (snd (step cf d r)), fst (step cf d r)).
Proof. intros. apply a_serial; [assumption|lia]. Qed.

(* PUT /resource_providers/{u}/traits: the thread with the re-verifying write transaction, run alone, is the
   sequential handler (the re-verification never fires without interference) *)
Lemma forallb_filter {A} (p q : A -> bool) l : forallb p l = true -> forallb p (filter q l) = true.
Proof.
  intro H. rewrite forallb_forall in *. intros x Hx. apply filter_In in Hx. apply H. tauto.
Qed.

Lemma traits_gen_after d u me ts d' : find_rp d u = Some me -> set_traits_c d u (rp_gen me) ts = Ok d' ->
  match find_rp d' u with Some r => rp_gen r | None => -1 end =
  if traits_differ d u ts then rp_gen me + 1 else rp_gen me.
Proof.
  intros Hf H. apply C05.set_traits_c_spec in H. destruct H as [_ [[-> ->]|[-> Hb]]].
  - rewrite Hf. reflexivity.
  - apply C10.bumped_spec in Hb. destruct Hb as (_ & Hg & _). unfold gen_of in Hg.
    destruct (find_rp d' u) as [r|]; [|discriminate]. cbn in Hg. congruence.
Qed.

Lemma none_lost ts : existsb (fun t => memZ t []) ts = false.
Proof. induction ts as [|t ts IH]; [reflexivity|]. cbn [existsb memZ orb]. exact IH. Qed.

Theorem a_serial_traits_set :
  forall cf d v u g ts k, (3 <= k)%nat ->
    a_run_thread cf k (ainit cf (TraitsSet v u g ts)) d =
    (ADone (snd (step cf d (TraitsSet v u g ts))), fst (step cf d (TraitsSet v u g ts))).
Proof.
  intros cf d v u g ts k Hk. destruct k as [|[|[|k]]]; try lia. cbn [ainit step]. unfold h_traits_set.
  destruct (v <? 6); [doneA|]. stepA.
  destruct (find_rp d u) as [me|] eqn:Hf; [|doneA].
  destruct (negb (g =? rp_gen me)); [doneA|]. stepA.
  destruct (forallb (trait_exists d) ts) eqn:Ef; cbn [negb]; [|doneA]. stepA. rewrite none_lost.
  unfold set_traits_chk. rewrite (forallb_filter _ _ _ Ef).
  rewrite <- (C18.traits_c_eq d u me ts Hf).
  destruct (set_traits_c d u (rp_gen me) ts) as [d'|e] eqn:Es.
  - rewrite (traits_gen_after d u me ts d' Hf Es). doneA.
  - destruct e; try doneA.
    (* set_traits_c never raises TraitNotFound *)
    exfalso. unfold set_traits_c, set_traits_txn, incr_rp_gen in Es. cbv zeta in Es.
    repeat match type of Es with context [match ?x with _ => _ end] => destruct x end; discriminate.
Qed.

(* PUT /resource_providers/{u}/aggregates: the thread with the existence check, run alone, is the sequential
   handler (the check never fires without interference) *)
Theorem a_serial_aggs_set :
  forall cf d v u g l k, (2 <= k)%nat ->
    a_run_thread cf k (ainit cf (AggsSet v u g l)) d =
    (ADone (snd (step cf d (AggsSet v u g l))), fst (step cf d (AggsSet v u g l))).
Proof.
  intros cf d v u g l k Hk. destruct k as [|[|k]]; try lia. cbn [ainit step]. unfold h_aggs_set.
  destruct (v <? 1); [doneA|]. stepA.
  destruct (find_rp d u) as [me|] eqn:Hf; [|doneA].
  destruct ((19 <=? v) && negb (g =? rp_gen me)); [doneA|]. stepA. rewrite Hf.
  destruct (set_aggregates_txn d u (rp_gen me) (dedup l) (19 <=? v)); doneA.
Qed.

(* allocation writes: the thread with the class cache, run alone, is the thread of Model/Conc.v (nothing in the
   cache goes stale without interference); a cache load is a step of its own, so a Conc step costs at most two *)
Lemma astep_cached_alone cf d snap t : stale_rows d snap = [] ->
  (exists snap1, astep cf (ACached snap t) d = (ACached snap1 (snd (tstep t d)), fst (tstep t d)) /\
                 stale_rows (fst (tstep t d)) snap1 = []) \/
  astep cf (ACached snap t) d = (ACacheLoad (snd (tstep t d)), fst (tstep t d)).
Proof.
  intro Hs. pose proof (tstep_rcs t d) as Hr.
  assert (Hplain : (exists snap1, (let '(d', t') := tstep t d in (ACached snap t', d')) =
                                  (ACached snap1 (snd (tstep t d)), fst (tstep t d)) /\
                                 stale_rows (fst (tstep t d)) snap1 = []) \/
                   (let '(d', t') := tstep t d in (ACached snap t', d')) = (ACacheLoad (snd (tstep t d)), fst (tstep t d))).
  { left. exists snap. destruct (tstep t d) as [d1 t1]. cbn [fst snd] in *. split; [reflexivity|].
    rewrite (stale_rows_same d d1 snap Hr). exact Hs. }
  destruct t; try exact Hplain.
  - (* TObjs *) destruct todo as [|w rest]; [exact Hplain|]. destruct w as [k|k a]; [|exact Hplain].
    cbn [astep]. destruct (tstep (TObjs x ks (WWipe k :: rest) objs) d) as [d1 t1]. cbn [fst snd] in *.
    destruct (cache_misses snap (wipe_list d (co_uuid k))); [right; reflexivity|left].
    exists snap. split; [reflexivity|]. rewrite (stale_rows_same d d1 _ Hr). exact Hs.
  - (* TMain *) left. cbn [astep tstep]. rewrite (main_txn_cached_plain snap x ks objs d Hs). exists snap.
    destruct (main_txn x ks objs d) as [d1|e] eqn:E; cbn [fst snd]; (split; [reflexivity|]); [|exact Hs].
    rewrite (stale_rows_same d d1 snap (main_txn_rcs _ _ _ _ _ E)). exact Hs.
Qed.

Lemma a_run_thread_finished cf k t d r : a_done t = Some r -> a_run_thread cf k t d = (t, d).
Proof. intro H. destruct k; [reflexivity|]. cbn [a_run_thread]. rewrite H. reflexivity. Qed.

Lemma a_run_thread_more cf : forall n ta da tf df r,
  a_run_thread cf n ta da = (tf, df) -> a_done tf = Some r -> a_run_thread cf (S n) ta da = (tf, df).
Proof.
  induction n as [|n IH]; intros ta da tf df r E Hd.
  - cbn [a_run_thread] in E. injection E as -> ->. cbn [a_run_thread]. rewrite Hd. reflexivity.
  - cbn [a_run_thread] in E. change (a_run_thread cf (S (S n)) ta da) with
      (match a_done ta with Some _ => (ta, da) | None => let '(t', d') := astep cf ta da in a_run_thread cf (S n) t' d' end).
    destruct (a_done ta); [exact E|]. destruct (astep cf ta da) as [tb db]. eapply IH; eassumption.
Qed.

Theorem a_serial_cached :
  forall cf k snap t d r, stale_rows d snap = [] -> snd (run_thread k t d) = TDone r ->
    exists snap', a_run_thread cf (2 * k) (ACached snap t) d = (ACached snap' (TDone r), fst (run_thread k t d)).
Proof.
  intros cf. induction k as [|k IH]; intros snap t d r Hs Hd.
  - cbn [run_thread snd fst] in *. subst t. exists snap. reflexivity.
  - replace (2 * S k)%nat with (S (S (2 * k))) by lia. cbn [run_thread] in Hd |- *.
    destruct (tdone t) as [r0|] eqn:Et.
    + destruct t; try discriminate. cbn [snd fst] in *. injection Hd as <-. exists snap. reflexivity.
    + assert (Hrun : run_thread (S k) t d = let '(d', t') := tstep t d in run_thread k t' d')
        by (destruct t; try reflexivity; discriminate).
      cbn [run_thread] in Hrun. rewrite Hrun in *. clear Hrun.
      cbn [a_run_thread a_done]. rewrite Et.
      destruct (astep_cached_alone cf d snap t Hs) as [[snap1 [E1 E2]]|E1]; rewrite E1;
        destruct (tstep t d) as [d1 t1] eqn:Est; cbn [fst snd] in *.
      * destruct (IH snap1 t1 d1 r E2 Hd) as [snap' E']. exists snap'.
        (* one unit of fuel to spare *)
        eapply a_run_thread_more; [exact E'|reflexivity].
      * cbn [a_run_thread a_done astep].
        assert (E2 : stale_rows d1 (Some (rcs d1)) = []) by apply stale_rows_fresh.
        exact (IH (Some (rcs d1)) t1 d1 r E2 Hd).
Qed.

Corollary a_serial_alloc :
  forall cf k r d rs, (match r with AllocPut _ _ | AllocPost _ _ | Reshape _ _ _ => True | _ => False end) ->
    snd (run_thread k (tinit cf r) d) = TDone rs ->
    exists snap', a_run_thread cf (2 * k) (ainit cf r) d =
                  (ACached snap' (TDone rs), fst (run_thread k (tinit cf r) d)).
Proof.
  intros cf k r d rs Hr Hd. destruct r; try contradiction; cbn [ainit]; apply a_serial_cached; try reflexivity; exact Hd.
Qed.

(* DELETE /allocations/{c}: after the read (and, when there are rows, the cache load) the thread is Conc's *)
Theorem a_serial_alloc_delete :
  forall cf k c d,
    a_run_thread cf (S (S k)) (ainit cf (AllocDelete c)) d =
    match wipe_list d c with
    | [] => (ATree (TTOther (TDone (err 404 C_DEFAULT))), d)
    | _ => a_run_thread cf k (ATree (TTOther (snd (tstep (TDelRead c) d)))) d
    end.
Proof.
  intros cf k c d. cbn [ainit a_run_thread a_done astep tstep].
  destruct (wipe_list d c) as [|q rows]; cbn [tdone a_run_thread a_done tt_done astep snd]; reflexivity.
Qed.

(* every other request: the thread is the ConcTree thread, run alone it is ConcTree.tt_run_thread *)
Lemma tt_run_thread_other_done cf k r d : tt_run_thread cf k (TTOther (TDone r)) d = (TTOther (TDone r), d).
Proof. induction k as [|k IH]; [reflexivity|]. cbn [tt_run_thread ttstep tstep]. exact IH. Qed.

Theorem a_serial_tree :
  forall cf k t d, a_run_thread cf k (ATree t) d =
    (ATree (fst (tt_run_thread cf k t d)), snd (tt_run_thread cf k t d)).
Proof.
  intros cf. induction k as [|k IH]; intros t d; [reflexivity|].
  cbn [a_run_thread a_done astep].
  destruct t; cbn [tt_done tt_run_thread]; try reflexivity;
    try (destruct (ttstep cf _ d) as [t1 d1]; apply IH).
  destruct (tdone t) as [r|] eqn:Et.
  - destruct t; try discriminate. cbn [ttstep tstep]. rewrite tt_run_thread_other_done. reflexivity.
  - destruct (ttstep cf (TTOther t) d) as [t1 d1]. apply IH.
Qed.

Corollary a_serial_rp :
  forall cf d r k, C09c.is_rp_req r -> (2 <= k)%nat ->
    a_run_thread cf k (ainit cf r) d = (ADone (snd (step cf d r)), fst (step cf d r)).
Proof.
  intros cf d r k Hr Hk. assert (E : ainit cf r = ATree (ttinit cf r)) by (destruct r; try contradiction; reflexivity).
  rewrite E, a_serial_tree, (C09c.tt_serial cf d r k Hr Hk). reflexivity.
Qed.

(* ================================================================ 11. non-vacuity *)
(* provider 1 with 8 VCPU (class 0), custom class 10000 (name token 1000), custom trait 100000 *)
Definition vcpu : inv_in := mkInvIn 0 8 0 1 8 1 1 0.
Definition cust : inv_in := mkInvIn 10000 8 0 1 8 1 1 0.
Definition nv_setup : list req := [RpCreate 37 1 11 None; RcCreate 37 1000; TraitPut 37 100000; InvSet 37 1 0 [vcpu]].
Definition nv_d0 : db := run cf0 db0 nv_setup.

Lemma nv_setup_wf : reqs_wf nv_setup.
Proof. repeat constructor. Qed.

Ltac noreshape :=
  let v := fresh in let ri := fresh in let al := fresh in let Hin := fresh in let Hw := fresh in
  intros [v [ri [al [Hin Hw]]]]; cbv in Hin;
  repeat (destruct Hin as [Hin|Hin];
          [first [discriminate Hin | injection Hin as <- <- <-; cbv in Hw; discriminate Hw]|]);
  contradiction.
Ltac by_theorem :=
  apply C08c_ri_reachable_partial; [exact nv_setup_wf|repeat constructor|noreshape].

(* DELETE /resource_classes/CUSTOM_X racing PUT /resource_providers/1/inventories naming it *)
Definition cl_reqs : list req := [RcDelete 37 1000; InvSet 37 1 1 [vcpu; cust]].
(* look-up, provider read, inventory write, destroy: the destroy re-counts the inventories and is refused *)
Example C08c_ex_class_delete_refused :
  let conc := a_exec cf0 cl_reqs [0; 1; 1; 0]%nat nv_d0 in
  statuses (fst conc) = [409; 200] /\ rcs (snd conc) = [(10000, 1000)] /\
  map i_rc (invs (snd conc)) = [0; 10000] /\ ri_b (snd conc) = true.
Proof. vm_compute. repeat split; reflexivity. Qed.
(* provider read, look-up, destroy, inventory write: the write re-resolves the class and is refused (400) *)
Example C08c_ex_inventory_write_refused :
  let conc := a_exec cf0 cl_reqs [1; 0; 0; 1]%nat nv_d0 in
  statuses (fst conc) = [204; 400] /\ rcs (snd conc) = [] /\
  map i_rc (invs (snd conc)) = [0] /\ ri_b (snd conc) = true.
Proof. vm_compute. repeat split; reflexivity. Qed.
Example C08c_ex_class_delete_RI : forall s, RI (snd (a_exec cf0 cl_reqs s nv_d0)).
Proof. intro s. by_theorem. Qed.

(* DELETE /traits/CUSTOM_T racing PUT /resource_providers/1/traits naming it *)
Definition tt_reqs : list req := [TraitDelete 37 100000; TraitsSet 37 1 1 [100000]].
Example C08c_ex_trait_delete_refused :
  let conc := a_exec cf0 tt_reqs [0; 1; 1; 1; 0]%nat nv_d0 in
  statuses (fst conc) = [409; 200] /\ traits (snd conc) = [100000] /\
  rp_traits (snd conc) = [(1, 100000)] /\ ri_b (snd conc) = true.
Proof. vm_compute. repeat split; reflexivity. Qed.
Example C08c_ex_traits_write_refused :
  let conc := a_exec cf0 tt_reqs [1; 1; 0; 0; 1]%nat nv_d0 in
  statuses (fst conc) = [204; 400] /\ traits (snd conc) = [] /\
  rp_traits (snd conc) = [] /\ ri_b (snd conc) = true.
Proof. vm_compute. repeat split; reflexivity. Qed.
Example C08c_ex_trait_delete_RI : forall s, RI (snd (a_exec cf0 tt_reqs s nv_d0)).
Proof. intro s. by_theorem. Qed.

(* DELETE /resource_providers/1 racing a claim on it (PUT /allocations/7 at 1.37: consumer look-up, consumer
   insert, provider read, allocation write) *)
Definition claim (v c : Z) : req := AllocPut v (mkConsIn c [mkAllocIn 1 [(0, 1)]] (Some 5) (Some 6) None None).
Definition pd_reqs : list req := [RpDelete 1; claim 37 7].
(* the claim reads the provider, the provider is deleted, the claim's write fails on the provider generation (its
   retries re-read the provider: gone), its consumer is cleaned up *)
Example C08c_ex_provider_delete_wins :
  let conc := a_exec cf0 pd_reqs [1; 1; 1; 0; 0; 1; 1]%nat nv_d0 in
  statuses (fst conc) = [204; 409] /\ rps (snd conc) = [] /\ allocs (snd conc) = [] /\
  consumers (snd conc) = [] /\ ri_b (snd conc) = true.
Proof. vm_compute. repeat split; reflexivity. Qed.
(* the delete has looked the provider up, the claim commits, the delete re-counts the allocations: 409 *)
Example C08c_ex_claim_wins :
  let conc := a_exec cf0 pd_reqs [0; 1; 1; 1; 1; 0]%nat nv_d0 in
  statuses (fst conc) = [409; 204] /\ map rp_uuid (rps (snd conc)) = [1] /\
  allocs (snd conc) = [mkAlloc 7 1 0 1] /\ ri_b (snd conc) = true.
Proof. vm_compute. repeat split; reflexivity. Qed.
Example C08c_ex_provider_delete_RI : forall s, RI (snd (a_exec cf0 pd_reqs s nv_d0)).
Proof. intro s. by_theorem. Qed.

(* the clean-up of a rejected claim racing another claim for the same consumer: thread 0 asks for 100 VCPU
   (refused, it then removes the consumer it created - if it holds no allocations); thread 1 (1.27: no consumer
   generation in the body) found that consumer *)
Definition greedy (c : Z) : req := AllocPut 37 (mkConsIn c [mkAllocIn 1 [(0, 100)]] (Some 5) (Some 6) None None).
Definition cu_reqs : list req := [greedy 7; claim 27 7].
(* clean-up first: the claim's write compares-and-swaps the generation of a consumer that is gone: 409 *)
Example C08c_ex_cleanup_then_claim :
  let conc := a_exec cf0 cu_reqs [0; 0; 1; 0; 0; 0; 1; 1; 1]%nat nv_d0 in
  statuses (fst conc) = [409; 409] /\ consumers (snd conc) = [] /\ allocs (snd conc) = [] /\ ri_b (snd conc) = true.
Proof. vm_compute. repeat split; reflexivity. Qed.
(* claim first: the clean-up re-checks the allocations and keeps the consumer *)
Example C08c_ex_claim_then_cleanup :
  let conc := a_exec cf0 cu_reqs [0; 0; 1; 0; 0; 1; 1; 0; 1]%nat nv_d0 in
  statuses (fst conc) = [409; 204] /\ map c_uuid (consumers (snd conc)) = [7] /\
  allocs (snd conc) = [mkAlloc 7 1 0 1] /\ ri_b (snd conc) = true.
Proof. vm_compute. repeat split; reflexivity. Qed.
Example C08c_ex_cleanup_RI : forall s, RI (snd (a_exec cf0 cu_reqs s nv_d0)).
Proof. intro s. by_theorem. Qed.

(* PUT aggregates below 1.19 racing the DELETE (and re-creation) of its provider *)
Example C08c_ex_old_aggs_provider_delete_RI :
  forall s, RI (snd (a_exec cf0 [AggsSet 1 1 0 [55]; RpDelete 1; RpCreate 37 1 11 None] s nv_d0)).
Proof. intro s. by_theorem. Qed.

(* ---------------------------------------------------------------- anomalies that do NOT break RI *)
(* the rename (PUT /resource_classes/{old} at 1.2 - 1.6) of a class deleted after the look-up: _save fetches the
   row by id, finds none: 404 since cd58161 (it was a 500) *)
Example C08c_ex_rename_of_deleted_class_404 :
  let conc := a_exec cf0 [RcRename 6 1000 1002; RcDelete 37 1000] [0; 1; 1; 0]%nat nv_d0 in
  statuses (fst conc) = [404; 204] /\ rcs (snd conc) = [] /\ ri_b (snd conc) = true.
Proof. vm_compute. repeat split; reflexivity. Qed.
(* class ids are max(id) + 1, hence re-used: thread 0 looks CUSTOM_X up (id 10000), thread 1 deletes it, thread 2
   creates CUSTOM_Y (id 10000 again), thread 0's _destroy(10000) then deletes CUSTOM_Y and answers 204 *)
Example C08c_ex_class_id_reuse :
  let conc := a_exec cf0 [RcDelete 37 1000; RcDelete 37 1000; RcPut 37 1001] [0; 1; 1; 2; 2; 0]%nat nv_d0 in
  statuses (fst conc) = [204; 204; 201] /\ rcs (snd conc) = [] /\ ri_b (snd conc) = true.
Proof. vm_compute. repeat split; reflexivity. Qed.
(* ... unless an inventory of CUSTOM_Y exists by then: the re-count is by id as well, so RI survives *)
Example C08c_ex_class_id_reuse_in_use :
  let conc := a_exec cf0 [RcDelete 37 1000; RcDelete 37 1000; RcPut 37 1001; InvSet 37 1 1 [vcpu; cust]]
                     [0; 1; 1; 2; 2; 3; 3; 0]%nat nv_d0 in
  statuses (fst conc) = [409; 204; 201; 200] /\ rcs (snd conc) = [(10000, 1001)] /\ ri_b (snd conc) = true.
Proof. vm_compute. repeat split; reflexivity. Qed.

(* POST /reshaper WITHOUT a wiped consumer never fills the class cache before its transaction: it may race
   DELETE /resource_classes (the transaction then resolves the class from the table: 400 or 409) *)
Definition rn_reqs : list req :=
  [Reshape 30 [mkRinvIn 1 1 [vcpu; cust]] []; RcDelete 37 1000].
Example C08c_ex_reshape_without_wipe_RI : forall s, RI (snd (a_exec cf0 rn_reqs s nv_d0)).
Proof. intro s. by_theorem. Qed.
Example C08c_ex_reshape_without_wipe :
  statuses (fst (a_exec cf0 rn_reqs [0; 1; 1; 0]%nat nv_d0)) = [400; 204] /\
  statuses (fst (a_exec cf0 rn_reqs [0; 1; 0; 1]%nat nv_d0)) = [204; 409].
Proof. vm_compute. split; reflexivity. Qed.

(* DELETE /traits/T twice with a re-creating PUT and an associating PUT: covered since the delete is by id *)
Definition t4_reqs : list req :=
  [TraitDelete 37 100000; TraitDelete 37 100000; TraitPut 37 100000; TraitsSet 37 1 1 [100000]].
Example C08c_ex_trait_deletes_RI : forall s, RI (snd (a_exec cf0 t4_reqs s nv_d0)).
Proof. intro s. by_theorem. Qed.

(* an unfinished execution *)
Example C08c_ex_prefix :
  let conc := a_exec cf0 cl_reqs (firstn 2 [0; 1; 1; 0]%nat) nv_d0 in
  statuses (fst conc) = [-1; -1] /\ fst conc = [ARcDestroy 10000; ATree (TTOther (TProvWrite (InvSet 37 1 1 [vcpu; cust]) 1))].
Proof. vm_compute. split; reflexivity. Qed.

(* the harness entry point agrees with these observations *)
Example C08c_ex_sched_agrees :
  a_sched_agrees cf0 (nv_setup, cl_reqs, [0; 1; 1; 0], [409; 200],
                      dump (snd (a_exec cf0 cl_reqs [0; 1; 1; 0]%nat nv_d0))) = true /\
  a_sched_agrees cf0 (nv_setup, tt_reqs, [1; 1; 0; 0; 1], [204; 400],
                      [ [[1; 11; 1; -1; 1]]; [[1; 0; 8; 0; 1; 8; 1; 1; 0]]; []; []; []; []; [];
                        [[10000; 1000]]; []; []; []; [] ]) = true /\
  a_sched_agrees cf0 (ag_setup, ag_reqs, [0; 1; 1; 0], [404; 204],
                      [ []; []; []; []; []; []; []; []; []; []; []; [] ]) = true /\
  a_sched_agrees cf0 (ta_setup, ta_reqs, [0; 1; 1; 2; 2; 3; 3; 3; 0], [404; 204; 201; 200],
                      [ [[1; 11; 1; -1; 1]]; []; []; []; []; []; []; []; [[100000]]; []; []; [[1; 100000]] ]) = true /\
  a_sched_agrees cf0 (rs_setup, rs_reqs, [0; 0; 0; 0; 1; 1; 0], [204; 204],
                      [ [[1; 11; 5; -1; 1]]; [[1; 0; 8; 0; 1; 8; 1; 1; 0]; [1; 10000; 8; 0; 1; 8; 1; 1; 0]]; []; [];
                        [[5]]; [[6]]; []; []; []; []; []; [] ]) = true.
Proof. vm_compute. repeat split; reflexivity. Qed.

(* the coarser granularity (resource_classes is not a scheduling table): the cache load runs in the slot of the
   reshaper's write transaction, so the racing DELETE /resource_classes can only come before both: 400 *)
Example C08c_ex_coarse_granularity :
  let conc := a_run_sched_coarse cf0 [0; 0; 0; 1; 1; 0]%nat (map (ainit cf0) rs_reqs) rs_d0 in
  statuses (fst conc) = [400; 204] /\ ri_b (snd conc) = true /\
  fst (a_sched_result_coarse cf0 rs_setup rs_reqs [0; 0; 0; 0; 1; 1]) = [204; 409].
Proof. vm_compute. repeat split; reflexivity. Qed.

(* ================================================================ assumptions *)
Print Assumptions main_txn_RI'.
Print Assumptions replace_all_RI'.
Print Assumptions prov_write_RI.
Print Assumptions set_traits_chk_RI.
Print Assumptions tstep_RI.
Print Assumptions tstep_keep.
Print Assumptions main_txn_cached_RI.
Print Assumptions ttstep_inv.
Print Assumptions cached_step_inv.
Print Assumptions astep_inv.
Print Assumptions ainv_frame.
Print Assumptions ainv_anote.
Print Assumptions a_step_raw_inv.
Print Assumptions a_step_thread_inv.
Print Assumptions a_run_sched_inv.
Print Assumptions a_run_sched_coarse_inv.
Print Assumptions ainit_inv.
Print Assumptions ri_b_spec.
Print Assumptions a_run_sched_app.
Print Assumptions a_run_thread_more.
Print Assumptions C08c_ri_all_schedules_partial.
Print Assumptions C08c_ri_all_schedules_coarse_partial.
Print Assumptions C08c_ri_all_schedules_no_reshape.
Print Assumptions C08c_ri_all_schedules_no_class_delete.
Print Assumptions C08c_ri_every_prefix_partial.
Print Assumptions C08c_ri_reachable_partial.
Print Assumptions C08c_step_ri.
Print Assumptions C08c_ex_reshape_class_delete_race.
Print Assumptions C08c_ri_refuted_reshape_vs_class_delete.
Print Assumptions C08c_ri_all_schedules_refuted.
Print Assumptions C08c_ex_reshape_class_delete_other_orders.
Print Assumptions C08c_conc_reshape_thread_lacks_cache.
Print Assumptions C08c_aggs_vs_provider_delete_repaired.
Print Assumptions C08c_aggs_vs_provider_delete_all.
Print Assumptions C08c_ex_aggs_1_19.
Print Assumptions C08c_ex_aggs_provider_recreated.
Print Assumptions C08c_ex_aggs_then_delete.
Print Assumptions C08c_conc_aggs_thread_lacks_recheck.
Print Assumptions C08c_trait_recreated_repaired.
Print Assumptions C08c_ex_trait_deleted_twice.
Print Assumptions C08c_ex_trait_recreated_kept.
Print Assumptions C08c_ex_traits_write_lost_id.
Print Assumptions C08c_conc_traits_thread_lacks_recheck.
Print Assumptions C08c_ex_traits_recheck.
Print Assumptions a_serial.
Print Assumptions a_serial_2.
Print Assumptions a_serial_3.
Print Assumptions a_serial_traits_set.
Print Assumptions a_serial_aggs_set.
Print Assumptions a_serial_cached.
Print Assumptions a_serial_alloc.
Print Assumptions a_serial_alloc_delete.
Print Assumptions a_serial_tree.
Print Assumptions a_serial_rp.
Print Assumptions C08c_ex_class_delete_refused.
Print Assumptions C08c_ex_inventory_write_refused.
Print Assumptions C08c_ex_class_delete_RI.
Print Assumptions C08c_ex_trait_delete_refused.
Print Assumptions C08c_ex_traits_write_refused.
Print Assumptions C08c_ex_trait_delete_RI.
Print Assumptions C08c_ex_provider_delete_wins.
Print Assumptions C08c_ex_claim_wins.
Print Assumptions C08c_ex_provider_delete_RI.
Print Assumptions C08c_ex_cleanup_then_claim.
Print Assumptions C08c_ex_claim_then_cleanup.
Print Assumptions C08c_ex_cleanup_RI.
Print Assumptions C08c_ex_old_aggs_provider_delete_RI.
Print Assumptions C08c_ex_rename_of_deleted_class_404.
Print Assumptions C08c_ex_class_id_reuse.
Print Assumptions C08c_ex_class_id_reuse_in_use.
Print Assumptions C08c_ex_reshape_without_wipe_RI.
Print Assumptions C08c_ex_reshape_without_wipe.
Print Assumptions C08c_ex_trait_deletes_RI.
Print Assumptions C08c_ex_prefix.
Print Assumptions C08c_ex_sched_agrees.
Print Assumptions C08c_ex_coarse_granularity.
