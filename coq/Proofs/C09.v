(* C09 - the provider hierarchy is always a forest with correct root pointers: proofs. *)
From PV Require Import Proofs.Defs.

(* ================================================================ basics *)
Definition Forest_l (l : list rp) : Prop :=
  NoDup (map rp_uuid l) /\ forall r, In r l -> chain l (rp_uuid r) (rp_root r).

Lemma memZ_In x l : memZ x l = true <-> In x l.
Proof.
  unfold memZ. rewrite existsb_exists. split.
  - intros [y [Hy E]]. apply Z.eqb_eq in E. subst. exact Hy.
  - intro H. exists x. split; [exact H|apply Z.eqb_refl].
Qed.

Lemma find_rp_l_some l u r : find_rp_l l u = Some r -> In r l /\ rp_uuid r = u.
Proof.
  induction l as [|a l IH]; cbn [find_rp_l]; [discriminate|].
  destruct (rp_uuid a =? u) eqn:E.
  - intros [= <-]. split; [left; reflexivity|apply Z.eqb_eq; exact E].
  - intro H. destruct (IH H). split; [right|]; assumption.
Qed.

Lemma find_rp_l_nodup l r : NoDup (map rp_uuid l) -> In r l -> find_rp_l l (rp_uuid r) = Some r.
Proof.
  induction l as [|a l IH]; intros Hnd Hin; [destruct Hin|].
  cbn [map] in Hnd. inversion Hnd as [|? ? Hni Hnd']; subst. cbn [find_rp_l].
  destruct Hin as [->|Hin]; [rewrite Z.eqb_refl; reflexivity|].
  destruct (rp_uuid a =? rp_uuid r) eqn:E; [|apply IH; assumption].
  apply Z.eqb_eq in E. exfalso. apply Hni. rewrite E. apply in_map. exact Hin.
Qed.

Lemma find_rp_l_none l u : find_rp_l l u = None -> ~ In u (map rp_uuid l).
Proof.
  induction l as [|a l IH]; cbn [find_rp_l map]; [intros _ []|].
  destruct (rp_uuid a =? u) eqn:E; [discriminate|]. intros H [H1|H1].
  - apply Z.eqb_neq in E. contradiction.
  - exact (IH H H1).
Qed.

Lemma find_rp_l_map f l u : (forall r, rp_uuid (f r) = rp_uuid r) ->
  find_rp_l (map f l) u = option_map f (find_rp_l l u).
Proof.
  intro Hf. induction l as [|a l IH]; cbn [map find_rp_l]; [reflexivity|].
  rewrite Hf. destruct (rp_uuid a =? u); [reflexivity|exact IH].
Qed.

Lemma find_rp_l_app l1 l2 u :
  find_rp_l (l1 ++ l2) u = match find_rp_l l1 u with Some r => Some r | None => find_rp_l l2 u end.
Proof.
  induction l1 as [|a l1 IH]; cbn [app find_rp_l]; [reflexivity|].
  destruct (rp_uuid a =? u); [reflexivity|exact IH].
Qed.

(* ================================================================ chain / below *)
Lemma chain_fun l u t1 : chain l u t1 -> forall t2, chain l u t2 -> t1 = t2.
Proof.
  induction 1 as [u r Hf Hp|u r p top Hf Hp Hc IH]; intros t2 H2;
    inversion H2 as [u' r' Hf' Hp'|u' r' p' top' Hf' Hp' Hc']; subst;
    rewrite Hf in Hf'; injection Hf' as <-; rewrite Hp in Hp'; try discriminate.
  - reflexivity.
  - injection Hp' as <-. exact (IH _ Hc').
Qed.

Lemma chain_transfer l l' x t : chain l x t ->
  (forall v r, below l x v -> find_rp_l l v = Some r ->
     exists r', find_rp_l l' v = Some r' /\ rp_parent r' = rp_parent r) ->
  chain l' x t.
Proof.
  induction 1 as [u r Hf Hp|u r p top Hf Hp Hc IH]; intro Hext.
  - destruct (Hext u r (below_refl _ _) Hf) as [r' [Hf' Hp']].
    eapply chain_top; [exact Hf'|congruence].
  - destruct (Hext u r (below_refl _ _) Hf) as [r' [Hf' Hp']].
    eapply chain_up; [exact Hf'|rewrite Hp'; exact Hp|].
    apply IH. intros v rv Hb Hfv. apply Hext; [|exact Hfv].
    eapply below_up; eassumption.
Qed.

Lemma below_trans l x y z : below l x y -> below l y z -> below l x z.
Proof.
  induction 1 as [|u r q p Hf Hp Hb IH]; intro H; [exact H|].
  eapply below_up; [exact Hf|exact Hp|exact (IH H)].
Qed.

Lemma below_chain l x u t : below l x u -> chain l u t -> chain l x t.
Proof.
  induction 1 as [|u r q p Hf Hp Hb IH]; intro H; [exact H|].
  eapply chain_up; [exact Hf|exact Hp|exact (IH H)].
Qed.

Lemma below_transfer l l' x u : below l x u ->
  (forall v r, below l v u -> v <> u -> find_rp_l l v = Some r ->
     exists r', find_rp_l l' v = Some r' /\ rp_parent r' = rp_parent r) ->
  below l' x u.
Proof.
  induction 1 as [|u r q p Hf Hp Hb IH]; intro Hext; [constructor|].
  destruct (Z.eq_dec u p) as [->|Hne]; [constructor|].
  assert (Hbu : below l u p) by (eapply below_up; eassumption).
  destruct (Hext u r Hbu Hne Hf) as [r' [Hf' Hp']].
  eapply below_up; [exact Hf'|rewrite Hp'; exact Hp|exact (IH Hext)].
Qed.

(* ---------------------------------------------------------------- counted versions *)
Inductive chainn (l : list rp) : nat -> Z -> Z -> Prop :=
| chainn_top u r : find_rp_l l u = Some r -> rp_parent r = None -> chainn l O u u
| chainn_up n u r p top : find_rp_l l u = Some r -> rp_parent r = Some p -> chainn l n p top ->
    chainn l (S n) u top.

Inductive belown (l : list rp) : nat -> Z -> Z -> Prop :=
| belown_refl u : belown l O u u
| belown_up n u r q p : find_rp_l l u = Some r -> rp_parent r = Some q -> belown l n q p ->
    belown l (S n) u p.

Lemma chain_chainn l u t : chain l u t -> exists n, chainn l n u t.
Proof.
  induction 1 as [u r Hf Hp|u r p top Hf Hp Hc [n IH]].
  - exists O. eapply chainn_top; eassumption.
  - exists (S n). eapply chainn_up; eassumption.
Qed.

Lemma chainn_fun l n u t : chainn l n u t -> forall n' t', chainn l n' u t' -> n = n'.
Proof.
  induction 1 as [u r Hf Hp|n u r p top Hf Hp Hc IH]; intros n' t' H2;
    inversion H2 as [u' r' Hf' Hp'|m u' r' p' top' Hf' Hp' Hc']; subst;
    rewrite Hf in Hf'; injection Hf' as <-; rewrite Hp in Hp'; try discriminate.
  - reflexivity.
  - injection Hp' as <-. f_equal. exact (IH _ _ Hc').
Qed.

Lemma chainn_nodes l n u t : chainn l n u t ->
  exists ns, length ns = S n /\ NoDup ns /\
    forall v, In v ns -> In v (map rp_uuid l) /\ exists m t', (m <= n)%nat /\ chainn l m v t'.
Proof.
  induction 1 as [u r Hf Hp|n u r p top Hf Hp Hc IH].
  - exists [u]. split; [reflexivity|]. split; [constructor; [intros []|constructor]|].
    intros v [<-|[]]. split.
    + destruct (find_rp_l_some _ _ _ Hf) as [Hin <-]. apply in_map. exact Hin.
    + exists O, u. split; [lia|]. eapply chainn_top; eassumption.
  - destruct IH as [ns [Hlen [Hnd Hall]]]. exists (u :: ns).
    assert (Hme : chainn l (S n) u top) by (eapply chainn_up; eassumption).
    split; [cbn [length]; lia|]. split.
    + constructor; [|exact Hnd]. intro Hin. destruct (Hall u Hin) as [_ [m [t' [Hm Hc']]]].
      pose proof (chainn_fun _ _ _ _ Hme _ _ Hc'). lia.
    + intros v [<-|Hin].
      * split.
        -- destruct (find_rp_l_some _ _ _ Hf) as [Hin <-]. apply in_map. exact Hin.
        -- exists (S n), top. split; [lia|exact Hme].
      * destruct (Hall v Hin) as [H1 [m [t' [Hm Hc']]]]. split; [exact H1|].
        exists m, t'. split; [lia|exact Hc'].
Qed.

Lemma chainn_bound l n u t : chainn l n u t -> (S n <= length l)%nat.
Proof.
  intro H. destruct (chainn_nodes _ _ _ _ H) as [ns [Hlen [Hnd Hall]]].
  rewrite <- Hlen, <- (map_length rp_uuid l).
  apply NoDup_incl_length; [exact Hnd|]. intros v Hv. exact (proj1 (Hall v Hv)).
Qed.

Lemma below_belown l x u : below l x u -> exists n, belown l n x u.
Proof.
  induction 1 as [|u r q p Hf Hp Hb [n IH]].
  - exists O. constructor.
  - exists (S n). eapply belown_up; eassumption.
Qed.

Lemma belown_below l n x u : belown l n x u -> below l x u.
Proof.
  induction 1 as [|n u r q p Hf Hp Hb IH]; [constructor|].
  eapply below_up; eassumption.
Qed.

Lemma belown_chainn l k x u : belown l k x u -> forall m t, chainn l m u t -> chainn l (k + m) x t.
Proof.
  induction 1 as [|n u r q p Hf Hp Hb IH]; intros m t H; [exact H|].
  cbn [Nat.add]. eapply chainn_up; [exact Hf|exact Hp|exact (IH _ _ H)].
Qed.

Lemma belown_snoc l : forall k x u, belown l (S k) x u ->
  exists c rc, find_rp_l l c = Some rc /\ rp_parent rc = Some u /\ belown l k x c.
Proof.
  induction k as [|k IH]; intros x u H; inversion H as [|n u' r q p Hf Hp Hb]; subst.
  - inversion Hb; subst. exists x, r. split; [exact Hf|]. split; [exact Hp|constructor].
  - destruct (IH _ _ Hb) as [c [rc [Hfc [Hpc Hbc]]]]. exists c, rc.
    split; [exact Hfc|]. split; [exact Hpc|]. eapply belown_up; eassumption.
Qed.

(* ================================================================ subtree *)
Lemma subtree_sound l root : NoDup (map rp_uuid l) ->
  forall n x u, In x (subtree n l root u) -> below l x u.
Proof.
  intro Hnd. induction n as [|n IH]; intros x u Hin; cbn [subtree] in Hin.
  - destruct Hin as [<-|[]]. constructor.
  - destruct Hin as [<-|Hin]; [constructor|].
    apply in_flat_map in Hin. destruct Hin as [c [Hc Hx]].
    apply filter_In in Hc. destruct Hc as [Hc Hcond].
    apply andb_true_iff in Hcond. destruct Hcond as [_ Hpar].
    apply (below_trans _ _ (rp_uuid c)); [exact (IH _ _ Hx)|].
    eapply below_up; [apply find_rp_l_nodup; eassumption| |constructor].
    destruct (rp_parent c) as [q|]; cbn [oeqb] in Hpar; [|discriminate].
    apply Z.eqb_eq in Hpar. subst. reflexivity.
Qed.

Lemma subtree_complete l root : forall n k x u, (k <= n)%nat -> belown l k x u ->
  (forall y ry, below l y u -> find_rp_l l y = Some ry -> rp_root ry = root) ->
  In x (subtree n l root u).
Proof.
  induction n as [|n IH]; intros k x u Hk Hb Hroot.
  - assert (k = O) by lia. subst. inversion Hb; subst. left. reflexivity.
  - cbn [subtree]. destruct k as [|k]; [inversion Hb; subst; left; reflexivity|].
    right. destruct (belown_snoc _ _ _ _ Hb) as [c [rc [Hfc [Hpc Hbc]]]].
    destruct (find_rp_l_some _ _ _ Hfc) as [Hin Hu].
    assert (Hcu : below l c u) by (eapply below_up; [exact Hfc|exact Hpc|constructor]).
    apply in_flat_map. exists rc. split.
    + apply filter_In. split; [exact Hin|]. apply andb_true_iff. split.
      * apply Z.eqb_eq. exact (Hroot c rc Hcu Hfc).
      * rewrite Hpc. cbn [oeqb]. apply Z.eqb_refl.
    + rewrite Hu. apply (IH k); [lia|exact Hbc|].
      intros y ry Hy Hfy. apply (Hroot y ry); [|exact Hfy]. exact (below_trans _ _ _ _ Hy Hcu).
Qed.

Lemma forest_row_chain l u r : Forest_l l -> find_rp_l l u = Some r -> chain l u (rp_root r).
Proof.
  intros [_ Hch] Hf. destruct (find_rp_l_some _ _ _ Hf) as [Hin <-]. exact (Hch r Hin).
Qed.

Lemma subtree_iff l u me : Forest_l l -> find_rp_l l u = Some me ->
  forall x, In x (subtree (length l) l (rp_root me) u) <-> below l x u.
Proof.
  intros HF Hme x. split; [apply subtree_sound; exact (proj1 HF)|].
  intro Hb. pose proof (forest_row_chain _ _ _ HF Hme) as Hcu.
  destruct (below_belown _ _ _ Hb) as [k Hk].
  destruct (chain_chainn _ _ _ Hcu) as [m Hm].
  pose proof (chainn_bound _ _ _ _ (belown_chainn _ _ _ _ Hk _ _ Hm)) as Hbound.
  apply (subtree_complete l (rp_root me) (length l) k); [lia|exact Hk|].
  intros y ry Hy Hfy.
  apply (chain_fun l y); [exact (forest_row_chain _ _ _ HF Hfy)|exact (below_chain _ _ _ _ Hy Hcu)].
Qed.

(* ================================================================ structure-preserving changes *)
Definition proj (r : rp) : Z * option Z * Z := (rp_uuid r, rp_parent r, rp_root r).

Lemma proj_find l : forall l', map proj l = map proj l' ->
  forall u r, find_rp_l l u = Some r -> exists r', find_rp_l l' u = Some r' /\ proj r' = proj r.
Proof.
  induction l as [|a l IH]; intros [|a' l'] E u r Hf; cbn [map] in E; try discriminate.
  pose proof (f_equal (hd (proj a)) E) as Ea. pose proof (f_equal (@tl _) E) as El.
  cbn [hd tl] in Ea, El. cbn [find_rp_l] in *.
  assert (Hu : rp_uuid a' = rp_uuid a) by (unfold proj in Ea; congruence).
  rewrite Hu. destruct (rp_uuid a =? u).
  - injection Hf as <-. exists a'. split; [reflexivity|symmetry; exact Ea].
  - exact (IH _ El _ _ Hf).
Qed.

Lemma Forest_l_proj l l' : map proj l = map proj l' -> Forest_l l -> Forest_l l'.
Proof.
  intros E [Hnd Hch]. split.
  - replace (map rp_uuid l') with (map (fun x : Z * option Z * Z => fst (fst x)) (map proj l')).
    + rewrite <- E. rewrite map_map. exact Hnd.
    + rewrite map_map. reflexivity.
  - intros r' Hin'. apply (in_map proj) in Hin'. rewrite <- E in Hin'.
    apply in_map_iff in Hin'. destruct Hin' as [r [Hpr Hin]].
    replace (rp_uuid r') with (rp_uuid r) by (unfold proj in Hpr; congruence).
    replace (rp_root r') with (rp_root r) by (unfold proj in Hpr; congruence).
    apply (chain_transfer l); [exact (Hch r Hin)|].
    intros v rv _ Hfv. destruct (proj_find _ _ E _ _ Hfv) as [rv' [H1 H2]].
    exists rv'. split; [exact H1|unfold proj in H2; congruence].
Qed.

(* ================================================================ re-parenting *)
Lemma forest_reparent l u me newpar newroot sub f :
  Forest_l l -> find_rp_l l u = Some me ->
  (forall x, In x sub <-> below l x u) ->
  (forall r, rp_uuid (f r) = rp_uuid r) ->
  (forall r, rp_parent (f r) = if rp_uuid r =? u then newpar else rp_parent r) ->
  (forall r, rp_root (f r) = if memZ (rp_uuid r) sub then newroot else rp_root r) ->
  match newpar with
  | Some p => exists pr, find_rp_l l p = Some pr /\ ~ below l p u /\ newroot = rp_root pr
  | None => newroot = u
  end ->
  Forest_l (map f l).
Proof.
  intros HF Hme Hsub Hfu Hfp Hfr Hnew. split.
  - rewrite map_map. rewrite (map_ext _ rp_uuid Hfu). exact (proj1 HF).
  - assert (HA : forall v r, v <> u -> find_rp_l l v = Some r ->
                   exists r', find_rp_l (map f l) v = Some r' /\ rp_parent r' = rp_parent r).
    { intros v r Hne Hf. exists (f r). rewrite (find_rp_l_map f l v Hfu), Hf. split; [reflexivity|].
      rewrite Hfp. destruct (find_rp_l_some _ _ _ Hf) as [_ ->].
      apply Z.eqb_neq in Hne. rewrite Hne. reflexivity. }
    assert (HB : find_rp_l (map f l) u = Some (f me) /\ rp_parent (f me) = newpar).
    { rewrite (find_rp_l_map f l u Hfu), Hme. split; [reflexivity|].
      rewrite Hfp. destruct (find_rp_l_some _ _ _ Hme) as [_ ->]. rewrite Z.eqb_refl. reflexivity. }
    destruct HB as [HB1 HB2].
    assert (Hu : chain (map f l) u newroot).
    { destruct newpar as [p|].
      - destruct Hnew as [pr [Hfpr [Hnb ->]]].
        eapply chain_up; [exact HB1|exact HB2|].
        apply (chain_transfer l); [exact (forest_row_chain _ _ _ HF Hfpr)|].
        intros v r Hb Hf. apply HA; [|exact Hf]. intros ->. exact (Hnb Hb).
      - subst newroot. eapply chain_top; [exact HB1|exact HB2]. }
    intros r' Hin'. apply in_map_iff in Hin'. destruct Hin' as [r [<- Hin]].
    rewrite Hfu, Hfr. destruct (memZ (rp_uuid r) sub) eqn:E.
    + apply memZ_In in E. apply Hsub in E.
      apply (below_chain _ _ u); [|exact Hu].
      apply (below_transfer l); [exact E|]. intros v rv _ Hne Hf. exact (HA v rv Hne Hf).
    + assert (Hnb : ~ below l (rp_uuid r) u).
      { intro Hb. apply Hsub in Hb. apply memZ_In in Hb. congruence. }
      apply (chain_transfer l); [exact (proj2 HF r Hin)|].
      intros v rv Hb Hf. apply HA; [|exact Hf]. intros ->. exact (Hnb Hb).
Qed.

Definition g1 (u : Z) (par : option Z) (r : rp) : rp :=
  if rp_uuid r =? u then mkRp u (rp_name r) (rp_gen r) par (rp_root r) else r.
Definition g2 (sub : list Z) (root : Z) (r : rp) : rp :=
  if memZ (rp_uuid r) sub then mkRp (rp_uuid r) (rp_name r) (rp_gen r) (rp_parent r) root else r.
Definition g3 (u name : Z) (r : rp) : rp :=
  if rp_uuid r =? u then mkRp u name (rp_gen r) (rp_parent r) (rp_root r) else r.

Lemma g1_uuid u par r : rp_uuid (g1 u par r) = rp_uuid r.
Proof. unfold g1. destruct (rp_uuid r =? u) eqn:E; [apply Z.eqb_eq in E; symmetry; exact E|reflexivity]. Qed.
Lemma g2_uuid sub root r : rp_uuid (g2 sub root r) = rp_uuid r.
Proof. unfold g2. destruct (memZ _ _); reflexivity. Qed.
Lemma g3_uuid u name r : rp_uuid (g3 u name r) = rp_uuid r.
Proof. unfold g3. destruct (rp_uuid r =? u) eqn:E; [apply Z.eqb_eq in E; symmetry; exact E|reflexivity]. Qed.
Lemma g3_parent u name r : rp_parent (g3 u name r) = rp_parent r.
Proof. unfold g3. destruct (_ =? _); reflexivity. Qed.
Lemma g3_root u name r : rp_root (g3 u name r) = rp_root r.
Proof. unfold g3. destruct (_ =? _); reflexivity. Qed.
Lemma g2_parent sub root r : rp_parent (g2 sub root r) = rp_parent r.
Proof. unfold g2. destruct (memZ _ _); reflexivity. Qed.
Lemma g2_root sub root r : rp_root (g2 sub root r) = if memZ (rp_uuid r) sub then root else rp_root r.
Proof. unfold g2. destruct (memZ _ _); reflexivity. Qed.
Lemma g1_parent u par r : rp_parent (g1 u par r) = if rp_uuid r =? u then par else rp_parent r.
Proof. unfold g1. destruct (_ =? _); reflexivity. Qed.
Lemma g1_root u par r : rp_root (g1 u par r) = rp_root r.
Proof. unfold g1. destruct (_ =? _); reflexivity. Qed.

Lemma g3_proj u name l : map proj (map (g3 u name) l) = map proj l.
Proof.
  rewrite map_map. apply map_ext. intro r. unfold proj.
  rewrite g3_uuid, g3_parent, g3_root. reflexivity.
Qed.

Lemma rp_update_forest d me name np allow d' :
  Forest d -> find_rp d (rp_uuid me) = Some me -> rp_update d me name np allow = Ok d' -> Forest d'.
Proof.
  intros HF Hme H. unfold rp_update in H.
  set (u := rp_uuid me) in *.
  set (sub := subtree (length (rps d)) (rps d) (rp_root me) u) in *.
  assert (Hsub : forall x, In x sub <-> below (rps d) x u) by (apply subtree_iff; assumption).
  assert (Hgen : forall par root,
             match par with
             | Some p => exists pr, find_rp_l (rps d) p = Some pr /\ ~ below (rps d) p u /\ root = rp_root pr
             | None => root = u
             end ->
             Forest_l (map (g3 u name) (set_roots (map (fun r => if rp_uuid r =? u
                          then mkRp u (rp_name r) (rp_gen r) par (rp_root r) else r) (rps d)) sub root))).
  { intros par root Hpar.
    change (Forest_l (map (g3 u name) (map (g2 sub root) (map (g1 u par) (rps d))))).
    rewrite !map_map.
    apply (forest_reparent (rps d) u me par root sub); try assumption.
    - intro r. rewrite g3_uuid, g2_uuid, g1_uuid. reflexivity.
    - intro r. rewrite g3_parent, g2_parent, g1_parent. reflexivity.
    - intro r. rewrite g3_root, g2_root, g1_uuid, g1_root. reflexivity. }
  destruct np as [p|].
  - destruct (find_rp d p) as [pr|] eqn:Hp; [|discriminate].
    destruct (match rp_parent me with Some q => negb (q =? p) && negb allow | None => false end);
      [discriminate|].
    destruct (memZ p sub) eqn:Hm; [discriminate|]. cbn [bind] in H.
    destruct (name_taken d name u); [discriminate|]. injection H as <-.
    apply Hgen. exists pr. split; [exact Hp|]. split; [|reflexivity].
    intro Hb. apply Hsub in Hb. apply memZ_In in Hb. congruence.
  - destruct (rp_parent me) as [q|].
    + destruct (negb allow); [discriminate|]. cbn [bind] in H.
      destruct (name_taken d name u); [discriminate|]. injection H as <-.
      apply Hgen. reflexivity.
    + cbn [bind] in H. destruct (name_taken d name u); [discriminate|]. injection H as <-.
      apply (Forest_l_proj (rps d)); [|exact HF].
      symmetry. apply g3_proj.
Qed.

(* ================================================================ create / delete *)
Lemma NoDup_snoc (l : list Z) x : NoDup l -> ~ In x l -> NoDup (l ++ [x]).
Proof.
  induction l as [|a l IH]; intros Hnd Hni; cbn [app]; [constructor; [intros []|constructor]|].
  inversion Hnd as [|? ? Ha Hnd']; subst. constructor.
  - intro Hin. apply in_app_or in Hin. destruct Hin as [Hin|[<-|[]]]; [exact (Ha Hin)|].
    apply Hni. left. reflexivity.
  - apply IH; [exact Hnd'|]. intro Hin. apply Hni. right. exact Hin.
Qed.

Lemma rp_create_forest d u name parent d' :
  Forest d -> rp_create d u name parent = Ok d' -> Forest d'.
Proof.
  intros HF H. unfold rp_create in H.
  assert (Hold : forall n x t, chain (rps d) x t -> chain (rps d ++ [n]) x t).
  { intros n x t Hc. apply (chain_transfer (rps d)); [exact Hc|].
    intros v r _ Hf. exists r. rewrite find_rp_l_app, Hf. split; reflexivity. }
  assert (Hfin : forall root,
            existsb (fun r => (rp_uuid r =? u) || (rp_name r =? name)) (rps d) = false ->
            match parent with
            | None => root = u
            | Some p => exists pr, find_rp_l (rps d) p = Some pr /\ root = rp_root pr
            end -> Forest_l (rps d ++ [mkRp u name 0 parent root])).
  { intros root Hex Hpar.
    assert (Hnone : find_rp_l (rps d) u = None).
    { destruct (find_rp_l (rps d) u) as [r|] eqn:Hf; [|reflexivity].
      destruct (find_rp_l_some _ _ _ Hf) as [Hin Hu].
      assert (existsb (fun r => (rp_uuid r =? u) || (rp_name r =? name)) (rps d) = true); [|congruence].
      apply existsb_exists. exists r. split; [exact Hin|]. apply orb_true_iff. left. apply Z.eqb_eq. exact Hu. }
    set (n := mkRp u name 0 parent root).
    assert (Hfn : find_rp_l (rps d ++ [n]) u = Some n).
    { rewrite find_rp_l_app, Hnone. cbn [find_rp_l n rp_uuid]. rewrite Z.eqb_refl. reflexivity. }
    split.
    - rewrite map_app. cbn [map n rp_uuid]. apply NoDup_snoc; [exact (proj1 HF)|].
      apply find_rp_l_none. exact Hnone.
    - intros r Hin. apply in_app_or in Hin. destruct Hin as [Hin|[<-|[]]].
      + apply Hold. exact (proj2 HF r Hin).
      + cbn [n rp_uuid rp_root]. destruct parent as [p|].
        * destruct Hpar as [pr [Hfp ->]].
          eapply chain_up; [exact Hfn|reflexivity|]. apply Hold. exact (forest_row_chain _ _ _ HF Hfp).
        * subst root. eapply chain_top; [exact Hfn|reflexivity]. }
  destruct parent as [p|].
  - destruct (p =? u); [discriminate|]. destruct (find_rp d p) as [pr|] eqn:Hp; [|discriminate].
    cbn [bind] in H.
    destruct (existsb _ (rps d)) eqn:Hex; [discriminate|]. injection H as <-.
    apply Hfin; [reflexivity|]. exists pr. split; [exact Hp|reflexivity].
  - cbn [bind] in H.
    destruct (existsb _ (rps d)) eqn:Hex; [discriminate|]. injection H as <-.
    apply Hfin; reflexivity.
Qed.

Lemma find_rp_l_filter_ne l u v : v <> u ->
  find_rp_l (filter (fun r => negb (rp_uuid r =? u)) l) v = find_rp_l l v.
Proof.
  intro Hne. induction l as [|a l IH]; cbn [filter find_rp_l]; [reflexivity|].
  destruct (rp_uuid a =? u) eqn:E; cbn [negb find_rp_l].
  - apply Z.eqb_eq in E. destruct (rp_uuid a =? v) eqn:E2; [|exact IH].
    apply Z.eqb_eq in E2. congruence.
  - rewrite IH. reflexivity.
Qed.

Lemma NoDup_map_filter {A} (f : A -> Z) p l : NoDup (map f l) -> NoDup (map f (filter p l)).
Proof.
  induction l as [|a l IH]; cbn [map filter]; intro H; [constructor|].
  inversion H as [|? ? Ha Hnd]; subst. destruct (p a); [|exact (IH Hnd)].
  cbn [map]. constructor; [|exact (IH Hnd)].
  intro Hin. apply Ha. apply in_map_iff in Hin. destruct Hin as [b [Hb Hin]].
  apply filter_In in Hin. rewrite <- Hb. apply in_map. exact (proj1 Hin).
Qed.

Lemma rp_delete_forest d u d' : Forest d -> rp_delete d u = Ok d' -> Forest d'.
Proof.
  intros HF H. unfold rp_delete in H.
  destruct (existsb (fun r => oeqb (rp_parent r) (Some u)) (rps d)) eqn:Hch; [discriminate|].
  destruct (existsb _ (allocs d)); [discriminate|].
  destruct (find_rp d u) as [me|]; [|discriminate]. injection H as <-.
  unfold Forest. cbn [rps set_rp_traits set_rp_aggs set_invs set_rps].
  assert (Hnp : forall r, In r (rps d) -> rp_parent r <> Some u).
  { intros r Hin Hp.
    assert (existsb (fun r => oeqb (rp_parent r) (Some u)) (rps d) = true); [|congruence].
    apply existsb_exists. exists r. split; [exact Hin|]. rewrite Hp. cbn [oeqb]. apply Z.eqb_refl. }
  assert (Hanc : forall x v, below (rps d) x v -> x <> u -> v <> u).
  { induction 1 as [|x r q p Hf Hp Hb IH]; intro Hne; [exact Hne|].
    apply IH. intros ->. destruct (find_rp_l_some _ _ _ Hf) as [Hin _]. exact (Hnp r Hin Hp). }
  split.
  - apply NoDup_map_filter. exact (proj1 HF).
  - intros r Hin. apply filter_In in Hin. destruct Hin as [Hin Hne].
    apply negb_true_iff in Hne. apply Z.eqb_neq in Hne.
    apply (chain_transfer (rps d)); [exact (proj2 HF r Hin)|].
    intros v rv Hb Hf. exists rv. split; [|reflexivity].
    rewrite find_rp_l_filter_ne; [exact Hf|]. exact (Hanc _ _ Hb Hne).
Qed.

(* ================================================================ everything else keeps the structure *)
Definition sameS (d d' : db) : Prop := map proj (rps d) = map proj (rps d').

Lemma sameS_refl d : sameS d d.
Proof. reflexivity. Qed.
Lemma sameS_trans a b c : sameS a b -> sameS b c -> sameS a c.
Proof. unfold sameS. congruence. Qed.
Lemma sameS_rps d d' : rps d' = rps d -> sameS d d'.
Proof. unfold sameS. intros ->. reflexivity. Qed.
Lemma Forest_sameS d d' : sameS d d' -> Forest d -> Forest d'.
Proof. intros E HF. exact (Forest_l_proj _ _ E HF). Qed.

Lemma cas_rp_l_proj : forall l u g l', cas_rp_l l u g = Some l' -> map proj l = map proj l'.
Proof.
  induction l as [|a l IH]; intros u g l' H; cbn [cas_rp_l] in H; [discriminate|].
  destruct (rp_uuid a =? u).
  - destruct (rp_gen a =? g); [|discriminate]. injection H as <-. reflexivity.
  - destruct (cas_rp_l l u g) as [l''|] eqn:E; [|discriminate]. injection H as <-.
    cbn [map]. f_equal. exact (IH _ _ _ E).
Qed.

Lemma incr_rp_gen_same d u g d' : incr_rp_gen d u g = Ok d' -> sameS d d'.
Proof.
  unfold incr_rp_gen. destruct (cas_rp_l (rps d) u g) as [l|] eqn:E; [|discriminate].
  intros [= <-]. unfold sameS. cbn [rps set_rps]. exact (cas_rp_l_proj _ _ _ _ E).
Qed.

Lemma delete_inv_same d u l d' : delete_inventory_from_provider d u l = Ok d' -> sameS d d'.
Proof.
  unfold delete_inventory_from_provider. destruct (existsb _ l); [discriminate|].
  intros [= <-]. reflexivity.
Qed.

Lemma update_inv_same : forall l d u d', update_inventory_for_provider d u l = Ok d' -> sameS d d'.
Proof.
  induction l as [|x l IH]; intros d u d' H; cbn [update_inventory_for_provider] in H.
  - injection H as <-. reflexivity.
  - destruct (find_inv d u (ii_rc x)); [|discriminate].
    apply IH in H. exact H.
Qed.

Lemma set_inventory_same d u g l d' : set_inventory d u g l = Ok d' -> sameS d d'.
Proof.
  unfold set_inventory. destruct (negb _); [discriminate|].
  destruct (delete_inventory_from_provider d u _) as [d1|] eqn:E1; cbn [bind]; [|discriminate].
  destruct (update_inventory_for_provider _ u _) as [d3|] eqn:E3; cbn [bind]; [|discriminate].
  intro H. apply incr_rp_gen_same in H. apply update_inv_same in E3. apply delete_inv_same in E1.
  eapply sameS_trans; [exact E1|]. eapply sameS_trans; [|exact H]. exact E3.
Qed.

Lemma add_inventory_same d u g x d' : add_inventory d u g x = Ok d' -> sameS d d'.
Proof.
  unfold add_inventory. destruct (negb _); [discriminate|].
  destruct (find_inv d u (ii_rc x)); [discriminate|].
  intro H. apply incr_rp_gen_same in H. exact H.
Qed.

Lemma update_inventory_same d u g x d' : update_inventory d u g x = Ok d' -> sameS d d'.
Proof.
  unfold update_inventory. destruct (negb _); [discriminate|].
  destruct (update_inventory_for_provider d u [x]) as [d1|] eqn:E1; cbn [bind]; [|discriminate].
  intro H. apply incr_rp_gen_same in H. apply update_inv_same in E1.
  eapply sameS_trans; eassumption.
Qed.

Lemma delete_inventory_same d u g rc d' : delete_inventory d u g rc = Ok d' -> sameS d d'.
Proof.
  unfold delete_inventory. destruct (negb _); [discriminate|].
  destruct (delete_inventory_from_provider d u [rc]) as [d1|] eqn:E1; cbn [bind]; [|discriminate].
  destruct (find_inv d u rc); [|discriminate].
  intro H. apply incr_rp_gen_same in H. apply delete_inv_same in E1.
  eapply sameS_trans; eassumption.
Qed.

Lemma set_traits_txn_same d u g w d' : set_traits_txn d u g w = Ok d' -> sameS d d'.
Proof.
  unfold set_traits_txn.
  destruct (filter _ w); destruct (filter _ (traits_of d u)); intro H;
    try (injection H as <-; reflexivity); apply incr_rp_gen_same in H; exact H.
Qed.

Lemma set_aggregates_txn_same d u g w b d' : set_aggregates_txn d u g w b = Ok d' -> sameS d d'.
Proof.
  unfold set_aggregates_txn. destruct b; intro H.
  - apply incr_rp_gen_same in H. exact H.
  - injection H as <-. reflexivity.
Qed.

Lemma cas_rps_same : forall l d d', cas_rps d l = Ok d' -> sameS d d'.
Proof.
  induction l as [|[u g] l IH]; intros d d' H; cbn [cas_rps] in H.
  - injection H as <-. reflexivity.
  - destruct (incr_rp_gen d u g) as [d1|] eqn:E; cbn [bind] in H; [|discriminate].
    apply incr_rp_gen_same in E. apply IH in H. eapply sameS_trans; eassumption.
Qed.

Lemma incr_cons_gen_rps d u g d' : incr_cons_gen d u g = Ok d' -> rps d' = rps d.
Proof.
  unfold incr_cons_gen. destruct (cas_cons_l _ u g); [|discriminate]. intros [= <-]. reflexivity.
Qed.

Lemma cas_conss_rps : forall l d d', cas_conss d l = Ok d' -> rps d' = rps d.
Proof.
  induction l as [|[u g] l IH]; intros d d' H; cbn [cas_conss] in H.
  - injection H as <-. reflexivity.
  - destruct (incr_cons_gen d u g) as [d1|] eqn:E; cbn [bind] in H; [|discriminate].
    apply incr_cons_gen_rps in E. apply IH in H. congruence.
Qed.

Lemma set_allocations_same d l d' : set_allocations d l = Ok d' -> sameS d d'.
Proof.
  unfold set_allocations.
  destruct (check_capacity _ l); cbn [bind]; [|discriminate].
  destruct (cas_rps _ _) as [d3|] eqn:E3; cbn [bind]; [|discriminate].
  destruct (cas_conss d3 _) as [d4|] eqn:E4; cbn [bind]; [|discriminate].
  intros [= <-]. apply cas_rps_same in E3. apply cas_conss_rps in E4.
  unfold sameS in *. cbn [rps delete_consumers_if_no_allocations set_consumers set_allocs] in *.
  rewrite E4. exact E3.
Qed.

Lemma ensure_consumer_rps cf v d c : rps (fst (ensure_consumer cf v d c)) = rps d.
Proof.
  unfold ensure_consumer.
  destruct (find_cons _ (ci_uuid c)); destruct (_ && _); try reflexivity;
    destruct (38 <=? v); reflexivity.
Qed.

Lemma update_consumer_rps d k : rps (update_consumer d k) = rps d.
Proof. unfold update_consumer. destruct (_ || _); reflexivity. Qed.

Lemma fold_update_consumer_rps : forall ks d, rps (fold_left update_consumer ks d) = rps d.
Proof.
  induction ks as [|k ks IH]; intro d; cbn [fold_left]; [reflexivity|].
  rewrite IH. apply update_consumer_rps.
Qed.

Lemma delete_created_rps d ks : rps (delete_created d ks) = rps d.
Proof. reflexivity. Qed.

Lemma inspect_consumers_rps cf v : forall l d acc, rps (fst (inspect_consumers cf v d acc l)) = rps d.
Proof.
  induction l as [|c l IH]; intros d acc; cbn [inspect_consumers]; [reflexivity|].
  pose proof (ensure_consumer_rps cf v d c) as He.
  destruct (ensure_consumer cf v d c) as [d1 [k|]]; cbn [fst] in *.
  - rewrite IH. exact He.
  - exact He.
Qed.

Lemma reshape_interim_same : forall l d x, reshape_interim d l = Ok x -> sameS d (fst x).
Proof.
  induction l as [|r l IH]; intros d x H; cbn [reshape_interim] in H.
  - injection H as <-. reflexivity.
  - destruct (ri_invs r).
    + destruct (reshape_interim d l) as [y|] eqn:E; cbn [bind] in H; [|discriminate].
      injection H as <-. cbn [fst]. exact (IH _ _ E).
    + destruct (set_inventory d _ _ _) as [d1|] eqn:E1; cbn [bind] in H; [|discriminate].
      destruct (reshape_interim d1 l) as [y|] eqn:E; cbn [bind] in H; [|discriminate].
      injection H as <-. cbn [fst]. apply set_inventory_same in E1.
      eapply sameS_trans; [exact E1|exact (IH _ _ E)].
Qed.

Lemma reshape_final_same : forall l gens d d', reshape_final d l gens = Ok d' -> sameS d d'.
Proof.
  induction l as [|r l IH]; intros gens d d' H; cbn [reshape_final] in H.
  - injection H as <-. reflexivity.
  - destruct gens as [|[u g] gens]; [injection H as <-; reflexivity|].
    destruct (set_inventory d _ g _) as [d1|] eqn:E1; cbn [bind] in H; [|discriminate].
    apply set_inventory_same in E1. apply IH in H. eapply sameS_trans; eassumption.
Qed.

Lemma reshape_txn_same d ri objs d' : reshape_txn d ri objs = Ok d' -> sameS d d'.
Proof.
  unfold reshape_txn.
  destruct (reshape_interim d ri) as [[d1 gens]|] eqn:E1; cbn [bind]; [|discriminate].
  destruct (set_allocations d1 _) as [d2|] eqn:E2; cbn [bind]; [|discriminate].
  intro H. apply reshape_interim_same in E1. apply set_allocations_same in E2.
  apply reshape_final_same in H. cbn [fst] in E1.
  eapply sameS_trans; [exact E1|]. eapply sameS_trans; eassumption.
Qed.

Lemma rc_create_rps d n d' : rc_create d n = Ok d' -> rps d' = rps d.
Proof. unfold rc_create. destruct (rc_id_of_name d n); [discriminate|]. intros [= <-]. reflexivity. Qed.
Lemma rc_destroy_rps d n d' : rc_destroy d n = Ok d' -> rps d' = rps d.
Proof.
  unfold rc_destroy. destruct (rc_id_of_name d n); [|discriminate].
  destruct (_ <? _); [discriminate|]. destruct (existsb _ _); [discriminate|]. intros [= <-]. reflexivity.
Qed.
Lemma rc_rename_rps d o n d' : rc_rename d o n = Ok d' -> rps d' = rps d.
Proof.
  unfold rc_rename. destruct (rc_id_of_name d o); [|discriminate].
  destruct (_ <? _); [discriminate|]. destruct (_ || _); [discriminate|]. intros [= <-]. reflexivity.
Qed.
Lemma trait_create_rps d t d' : trait_create d t = Ok d' -> rps d' = rps d.
Proof. unfold trait_create. destruct (trait_exists d t); [discriminate|]. intros [= <-]. reflexivity. Qed.
Lemma trait_destroy_rps d t d' : trait_destroy d t = Ok d' -> rps d' = rps d.
Proof.
  unfold trait_destroy. destruct (negb _); [discriminate|]. destruct (is_std_trait t); [discriminate|].
  destruct (existsb _ _); [discriminate|]. intros [= <-]. reflexivity.
Qed.

(* ================================================================ handlers *)
Ltac brk :=
  repeat (cbn [fst];
    match goal with
    | |- sameS _ (fst (if ?b then _ else _)) => destruct b
    | |- sameS _ (fst (match ?x with _ => _ end)) => destruct x eqn:?
    end);
  cbn [fst]; try apply sameS_refl.

Lemma h_inv_set_same d v u g l : sameS d (fst (h_inv_set d v u g l)).
Proof. unfold h_inv_set. brk. eapply set_inventory_same; eassumption. Qed.
Lemma h_inv_post_same d v u x : sameS d (fst (h_inv_post d v u x)).
Proof. unfold h_inv_post. brk. eapply add_inventory_same; eassumption. Qed.
Lemma h_inv_put_same d v u g x : sameS d (fst (h_inv_put d v u g x)).
Proof. unfold h_inv_put. brk. eapply update_inventory_same; eassumption. Qed.
Lemma h_inv_delete_same d u rc : sameS d (fst (h_inv_delete d u rc)).
Proof. unfold h_inv_delete. brk. eapply delete_inventory_same; eassumption. Qed.
Lemma h_inv_delete_all_same d v u : sameS d (fst (h_inv_delete_all d v u)).
Proof. unfold h_inv_delete_all. brk. eapply set_inventory_same; eassumption. Qed.
Lemma h_traits_set_same d v u g ts : sameS d (fst (h_traits_set d v u g ts)).
Proof. unfold h_traits_set. brk. eapply set_traits_txn_same; eassumption. Qed.
Lemma h_traits_delete_same d v u : sameS d (fst (h_traits_delete d v u)).
Proof. unfold h_traits_delete. brk. eapply set_traits_txn_same; eassumption. Qed.
Lemma h_aggs_set_same d v u g l : sameS d (fst (h_aggs_set d v u g l)).
Proof. unfold h_aggs_set. brk. eapply set_aggregates_txn_same; eassumption. Qed.

Lemma h_alloc_put_same cf d v c : sameS d (fst (h_alloc_put cf d v c)).
Proof.
  unfold h_alloc_put. pose proof (ensure_consumer_rps cf v d c) as He.
  destruct (ensure_consumer cf v d c) as [d1 [k|]]; cbn [fst] in He.
  - brk.
    + apply set_allocations_same in Heqr. unfold sameS in *.
      cbn [rps delete_created set_consumers]. rewrite <- Heqr, update_consumer_rps, He. reflexivity.
    + apply sameS_rps. exact He.
    + apply sameS_rps. exact He.
  - cbn [fst]. apply sameS_rps. exact He.
Qed.

Lemma h_alloc_post_same cf d v l : sameS d (fst (h_alloc_post cf d v l)).
Proof.
  unfold h_alloc_post. destruct (v <? 13); [apply sameS_refl|].
  pose proof (inspect_consumers_rps cf v l d []) as He.
  destruct (inspect_consumers cf v d [] l) as [d1 [ks|]]; cbn [fst] in He.
  - brk.
    + apply set_allocations_same in Heqr. unfold sameS in *.
      cbn [rps delete_created set_consumers]. rewrite <- Heqr, fold_update_consumer_rps, He. reflexivity.
    + apply sameS_rps. exact He.
    + apply sameS_rps. exact He.
  - cbn [fst]. apply sameS_rps. exact He.
Qed.

Lemma h_alloc_delete_same d c : sameS d (fst (h_alloc_delete d c)).
Proof. unfold h_alloc_delete. destruct (wipe_list d c); [apply sameS_refl|reflexivity]. Qed.

Lemma h_reshape_same cf d v ri al : sameS d (fst (h_reshape cf d v ri al)).
Proof.
  unfold h_reshape. destruct (v <? 30); [apply sameS_refl|].
  destruct (reshape_precheck d ri); [apply sameS_refl|].
  pose proof (inspect_consumers_rps cf v al d []) as He.
  destruct (inspect_consumers cf v d [] al) as [d1 [ks|]]; cbn [fst] in He.
  - brk.
    + apply reshape_txn_same in Heqr. unfold sameS in *.
      cbn [rps delete_created set_consumers]. rewrite <- Heqr, fold_update_consumer_rps, He. reflexivity.
    + apply sameS_rps. exact He.
    + apply sameS_rps. exact He.
  - cbn [fst]. apply sameS_rps. exact He.
Qed.

Lemma h_rc_create_same d v n : sameS d (fst (h_rc_create d v n)).
Proof. unfold h_rc_create. brk. apply sameS_rps. eapply rc_create_rps; eassumption. Qed.
Lemma h_rc_put_same d v n : sameS d (fst (h_rc_put d v n)).
Proof. unfold h_rc_put. brk. apply sameS_rps. eapply rc_create_rps; eassumption. Qed.
Lemma h_rc_rename_same d v o n : sameS d (fst (h_rc_rename d v o n)).
Proof.
  unfold h_rc_rename. destruct (v <? 2); [apply sameS_refl|].
  destruct (6 <? v); [apply h_rc_put_same|].
  brk. apply sameS_rps. eapply rc_rename_rps; eassumption.
Qed.
Lemma h_rc_delete_same d v n : sameS d (fst (h_rc_delete d v n)).
Proof. unfold h_rc_delete. brk. apply sameS_rps. eapply rc_destroy_rps; eassumption. Qed.
Lemma h_trait_put_same d v t : sameS d (fst (h_trait_put d v t)).
Proof. unfold h_trait_put. brk. apply sameS_rps. eapply trait_create_rps; eassumption. Qed.
Lemma h_trait_delete_same d v t : sameS d (fst (h_trait_delete d v t)).
Proof. unfold h_trait_delete. brk. apply sameS_rps. eapply trait_destroy_rps; eassumption. Qed.

Lemma h_rp_create_forest d v u name parent : Forest d -> Forest (fst (h_rp_create d v u name parent)).
Proof.
  intro HF. unfold h_rp_create. destruct (_ && _); [exact HF|].
  destruct (rp_create d u name parent) as [d1|e] eqn:E.
  - cbn [fst]. eapply rp_create_forest; eassumption.
  - destruct e; exact HF.
Qed.

Lemma h_rp_update_forest d v u name parent : Forest d -> Forest (fst (h_rp_update d v u name parent)).
Proof.
  intro HF. unfold h_rp_update. destruct (find_rp d u) as [me|] eqn:Hme; [|exact HF].
  destruct (_ && _); [exact HF|].
  destruct (rp_update d me name _ (37 <=? v)) as [d1|e] eqn:E.
  - cbn [fst]. eapply rp_update_forest; [exact HF| |exact E].
    destruct (find_rp_l_some _ _ _ Hme) as [_ ->]. exact Hme.
  - destruct e; exact HF.
Qed.

Lemma h_rp_delete_forest d u : Forest d -> Forest (fst (h_rp_delete d u)).
Proof.
  intro HF. unfold h_rp_delete. destruct (find_rp d u); [|exact HF].
  destruct (rp_delete d u) as [d1|e] eqn:E.
  - cbn [fst]. eapply rp_delete_forest; eassumption.
  - destruct e; exact HF.
Qed.

Lemma step_forest cf d r : Forest d -> Forest (fst (step cf d r)).
Proof.
  intro HF. destruct r; cbn [step].
  - apply h_rp_create_forest; exact HF.
  - apply h_rp_update_forest; exact HF.
  - apply h_rp_delete_forest; exact HF.
  - eapply Forest_sameS; [apply h_inv_set_same|exact HF].
  - eapply Forest_sameS; [apply h_inv_post_same|exact HF].
  - eapply Forest_sameS; [apply h_inv_put_same|exact HF].
  - eapply Forest_sameS; [apply h_inv_delete_same|exact HF].
  - eapply Forest_sameS; [apply h_inv_delete_all_same|exact HF].
  - eapply Forest_sameS; [apply h_traits_set_same|exact HF].
  - eapply Forest_sameS; [apply h_traits_delete_same|exact HF].
  - eapply Forest_sameS; [apply h_aggs_set_same|exact HF].
  - eapply Forest_sameS; [apply h_alloc_put_same|exact HF].
  - eapply Forest_sameS; [apply h_alloc_post_same|exact HF].
  - eapply Forest_sameS; [apply h_alloc_delete_same|exact HF].
  - eapply Forest_sameS; [apply h_reshape_same|exact HF].
  - eapply Forest_sameS; [apply h_rc_create_same|exact HF].
  - eapply Forest_sameS; [apply h_rc_put_same|exact HF].
  - eapply Forest_sameS; [apply h_rc_rename_same|exact HF].
  - eapply Forest_sameS; [apply h_rc_delete_same|exact HF].
  - eapply Forest_sameS; [apply h_trait_put_same|exact HF].
  - eapply Forest_sameS; [apply h_trait_delete_same|exact HF].
Qed.

Lemma c09_step : forall cf d r d' rs, Forest d -> step cf d r = (d', rs) -> Forest d'.
Proof.
  intros cf d r d' rs HF H. pose proof (step_forest cf d r HF) as H1.
  rewrite H in H1. exact H1.
Qed.

Lemma c09_invariant : forall cf l, Forest (run cf db0 l).
Proof.
  intros cf l.
  assert (H0 : Forest db0) by (split; [constructor|intros r []]).
  revert H0. generalize db0. induction l as [|r l IH]; intros d HF; cbn [run]; [exact HF|].
  apply IH. apply step_forest. exact HF.
Qed.

(* ================================================================ rejections *)
Lemma c09_reject_loop :
  forall cf d v u name p d' rs, Forest d -> rp_in d u -> below (rps d) p u ->
    step cf d (RpUpdate v u name (Some (Some p))) = (d', rs) -> status rs = 400 /\ d' = d.
Proof.
  intros cf d v u name p d' rs HF [me Hme] Hb H. cbn [step] in H. unfold h_rp_update in H.
  rewrite Hme in H. destruct (_ && _); [injection H as <- <-; split; reflexivity|].
  assert (Hu : rp_uuid me = u) by exact (proj2 (find_rp_l_some _ _ _ Hme)).
  assert (Hp : exists pr, find_rp d p = Some pr).
  { inversion Hb as [|? r q ? Hf _ _]; subst; [exists me; exact Hme|exists r; exact Hf]. }
  destruct Hp as [pr Hp].
  assert (E : rp_update d me name (Some p) (37 <=? v) = Err EObjAction).
  { unfold rp_update. rewrite Hp.
    destruct (match rp_parent me with Some q => negb (q =? p) && negb (37 <=? v) | None => false end);
      [reflexivity|].
    rewrite Hu.
    assert (Hm : memZ p (subtree (length (rps d)) (rps d) (rp_root me) u) = true).
    { apply memZ_In. apply (subtree_iff (rps d) u me HF Hme). exact Hb. }
    rewrite Hm. reflexivity. }
  rewrite E in H. injection H as <- <-. split; reflexivity.
Qed.

Lemma c09_reject_missing_parent_create :
  forall cf d v u name p d' rs, find_rp d p = None ->
    step cf d (RpCreate v u name (Some p)) = (d', rs) -> status rs = 400 /\ d' = d.
Proof.
  intros cf d v u name p d' rs Hp H. cbn [step] in H. unfold h_rp_create in H.
  destruct (_ && _); [injection H as <- <-; split; reflexivity|].
  assert (E : rp_create d u name (Some p) = Err EObjAction).
  { unfold rp_create. destruct (p =? u); [reflexivity|]. rewrite Hp. reflexivity. }
  rewrite E in H. injection H as <- <-. split; reflexivity.
Qed.

Lemma c09_reject_missing_parent_update :
  forall cf d v u name p d' rs, rp_in d u -> find_rp d p = None ->
    step cf d (RpUpdate v u name (Some (Some p))) = (d', rs) -> status rs = 400 /\ d' = d.
Proof.
  intros cf d v u name p d' rs [me Hme] Hp H. cbn [step] in H. unfold h_rp_update in H.
  rewrite Hme in H. destruct (_ && _); [injection H as <- <-; split; reflexivity|].
  assert (E : rp_update d me name (Some p) (37 <=? v) = Err EObjAction).
  { unfold rp_update. rewrite Hp. reflexivity. }
  rewrite E in H. injection H as <- <-. split; reflexivity.
Qed.

Lemma c09_reject_delete_parent :
  forall cf d u d' rs, rp_in d u -> (exists r, In r (rps d) /\ rp_parent r = Some u) ->
    step cf d (RpDelete u) = (d', rs) -> status rs = 409 /\ d' = d.
Proof.
  intros cf d u d' rs [me Hme] [r [Hin Hpar]] H. cbn [step] in H. unfold h_rp_delete in H.
  rewrite Hme in H.
  assert (E : rp_delete d u = Err EHasChildren).
  { unfold rp_delete.
    assert (Hex : existsb (fun r => oeqb (rp_parent r) (Some u)) (rps d) = true).
    { apply existsb_exists. exists r. split; [exact Hin|]. rewrite Hpar. cbn [oeqb]. apply Z.eqb_refl. }
    rewrite Hex. reflexivity. }
  rewrite E in H. injection H as <- <-. split; reflexivity.
Qed.

Lemma c09_reject_reparent_old :
  forall cf d v u name me q newp d' rs, v < 37 -> find_rp d u = Some me -> rp_parent me = Some q ->
    newp <> Some q ->
    step cf d (RpUpdate v u name (Some newp)) = (d', rs) -> status rs = 400 /\ d' = d.
Proof.
  intros cf d v u name me q newp d' rs Hv Hme Hq Hne H. cbn [step] in H. unfold h_rp_update in H.
  rewrite Hme in H. destruct (_ && _); [injection H as <- <-; split; reflexivity|].
  assert (Hallow : (37 <=? v) = false) by (apply Z.leb_gt; exact Hv).
  assert (E : rp_update d me name newp (37 <=? v) = Err EObjAction).
  { unfold rp_update. rewrite Hallow, Hq. destruct newp as [p|].
    - destruct (find_rp d p); [|reflexivity].
      assert (Hqp : (q =? p) = false) by (apply Z.eqb_neq; congruence).
      rewrite Hqp. reflexivity.
    - reflexivity. }
  rewrite E in H. injection H as <- <-. split; reflexivity.
Qed.
