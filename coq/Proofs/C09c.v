(* C09c - the provider forest is preserved under ALL interleavings of provider create / update / delete
   (Model/ConcTree.v) with every thread of Model/Conc.v: proofs.
   Reuses the sequential lemmas of Proofs/C09.v (rp_create_forest, rp_update_forest, rp_delete_forest, sameS). *)
From PV Require Import Proofs.Defs Proofs.C09.
From PV Require Import Model.ConcTree.

(* ================================================================ 0. small tactics *)
Ltac same_done := try apply sameS_refl; try (unfold sameS; reflexivity).
Ltac brk2 :=
  repeat (cbn [fst];
    match goal with
    | |- sameS _ (fst (if ?b then _ else _)) => destruct b
    | |- sameS _ (fst (match ?x with _ => _ end)) => destruct x eqn:?
    end);
  cbn [fst]; same_done.

(* ================================================================ 1. a transaction of a Conc thread keeps the
   skeleton (uuid, parent, root) of the providers table: it can only bump generations (incr_rp_gen) *)
Lemma cas_rps_w_same : forall l d, sameS d (fst (cas_rps_w d l)).
Proof.
  induction l as [|[u g] l IH]; intro d; cbn [cas_rps_w]; [apply sameS_refl|].
  destruct (incr_rp_gen d u g) as [d1|e] eqn:E; [|apply sameS_refl].
  eapply sameS_trans; [eapply incr_rp_gen_same; exact E|apply IH].
Qed.

Lemma cas_conss_w_rps : forall l d, rps (fst (cas_conss_w d l)) = rps d.
Proof.
  induction l as [|[u g] l IH]; intro d; cbn [cas_conss_w]; [reflexivity|].
  destruct (incr_cons_gen d u g) as [d1|e] eqn:E; [|reflexivity].
  rewrite IH. eapply incr_cons_gen_rps; exact E.
Qed.

Lemma set_allocations_w_same d l : sameS d (fst (set_allocations_w d l)).
Proof.
  unfold set_allocations_w. cbv zeta.
  destruct (check_capacity _ l) as [x|e]; [|cbn [fst]; unfold sameS; reflexivity].
  match goal with |- context[cas_rps_w ?d2 ?L] =>
    pose proof (cas_rps_w_same L d2) as H3; destruct (cas_rps_w d2 L) as [d3 [e|]] end;
    cbn [fst] in H3.
  - cbn [fst]. eapply sameS_trans; [|exact H3]. unfold sameS. reflexivity.
  - match goal with |- context[cas_conss_w d3 ?L] =>
      pose proof (cas_conss_w_rps L d3) as H4; destruct (cas_conss_w d3 L) as [d4 [e|]] end;
      cbn [fst] in H4 |- *.
    + eapply sameS_trans; [|eapply sameS_trans; [exact H3|apply sameS_rps; exact H4]].
      unfold sameS. reflexivity.
    + eapply sameS_trans; [|eapply sameS_trans; [exact H3|]].
      * unfold sameS. reflexivity.
      * apply sameS_rps. cbn [rps delete_consumers_if_no_allocations set_consumers]. exact H4.
Qed.

Lemma replace_all_same : forall fuel c w l w', replace_all fuel c w l = Ok w' -> sameS w w'.
Proof.
  induction fuel as [|f IH]; intros c w l w' H; cbn [replace_all] in H; [discriminate|].
  pose proof (set_allocations_w_same w l) as Hs.
  destruct (set_allocations_w w l) as [w1 [e|]]; cbn [fst] in Hs.
  - destruct e; try discriminate.
    destruct (refresh c l) as [l1|]; [|discriminate].
    eapply sameS_trans; [exact Hs|]. eapply IH; exact H.
  - injection H as <-. exact Hs.
Qed.

Lemma reshape_txn_c_same c d ri objs d' : reshape_txn_c c d ri objs = Ok d' -> sameS d d'.
Proof.
  unfold reshape_txn_c.
  destruct (reshape_interim d ri) as [[d1 gens]|] eqn:E1; cbn [bind]; [|discriminate].
  destruct (replace_all retry_fuel c d1 _) as [d2|] eqn:E2; cbn [bind]; [|discriminate].
  intro H. apply reshape_interim_same in E1. apply replace_all_same in E2.
  apply reshape_final_same in H. cbn [fst] in E1.
  eapply sameS_trans; [exact E1|]. eapply sameS_trans; eassumption.
Qed.

Lemma main_txn_same x ks objs d d' : main_txn x ks objs d = Ok d' -> sameS d d'.
Proof.
  unfold main_txn. cbv zeta. intro H.
  assert (H0 : sameS d (fold_left update_consumer ks d))
    by (apply sameS_rps; apply fold_update_consumer_rps).
  eapply sameS_trans; [exact H0|].
  destruct (x_kind x).
  - eapply replace_all_same; exact H.
  - eapply replace_all_same; exact H.
  - eapply reshape_txn_c_same; exact H.
Qed.

Lemma set_traits_c_same d u g w d' : set_traits_c d u g w = Ok d' -> sameS d d'.
Proof.
  unfold set_traits_c.
  destruct (filter (fun t => negb (memZ t (traits_of d u))) w);
    destruct (filter (fun t => negb (memZ t w)) (traits_of d u)); intro H;
    try (eapply set_traits_txn_same; exact H).
  destruct (find_rp d u) as [r|]; [|discriminate].
  destruct (rp_gen r =? g); [|discriminate]. injection H as <-. apply sameS_refl.
Qed.

Lemma prov_write_same r g d : sameS d (fst (prov_write r g d)).
Proof.
  unfold prov_write. destruct r; try apply sameS_refl; brk2.
  - eapply set_inventory_same; eassumption.
  - eapply add_inventory_same; eassumption.
  - eapply update_inventory_same; eassumption.
  - eapply delete_inventory_same; eassumption.
  - eapply set_inventory_same; eassumption.
  - eapply set_traits_c_same; eassumption.
  - eapply set_traits_c_same; eassumption.
  - eapply set_aggregates_txn_same; eassumption.
Qed.

Lemma aux_names_rps cf v d c : rps (aux_names cf v d c) = rps d.
Proof. unfold aux_names. destruct (38 <=? v); reflexivity. Qed.

(* THE skeleton lemma for Conc threads *)
Lemma tstep_same t d : sameS d (fst (tstep t d)).
Proof.
  destruct t; cbn [tstep].
  - apply sameS_refl.
  - brk2.
  - pose proof (prov_write_same r g d) as H. destruct (prov_write r g d) as [d' rs]. exact H.
  - brk2.
  - destruct todo as [|c rest]; [apply sameS_refl|]. cbv zeta.
    destruct (rq_attrs (x_cf x) (x_v x) c) as [[pj us] ty].
    assert (Ha : sameS d (aux_names (x_cf x) (x_v x) d c)) by (apply sameS_rps; apply aux_names_rps).
    destruct (find_cons d (ci_uuid c)); destruct (_ && _); exact Ha.
  - destruct (rq_attrs (x_cf x) (x_v x) c) as [[pj us] ty].
    destruct (find_cons d (ci_uuid c)); cbn [fst]; same_done.
  - destruct (rq_attrs (x_cf x) (x_v x) c) as [[pj us] ty]. brk2.
  - destruct todo as [|w rest]; [apply sameS_refl|]. cbv zeta.
    destruct w; [apply sameS_refl|]. destruct (find_rp d (ai_rp a)); apply sameS_refl.
  - destruct (main_txn x ks objs d) as [d'|e] eqn:E; cbn [fst]; [|apply sameS_refl].
    eapply main_txn_same; exact E.
  - destruct todo; cbn [fst]; same_done.
  - destruct (wipe_list d c); apply sameS_refl.
  - cbn [fst]. same_done.
  - cbn [fst]. same_done.
Qed.

Lemma tstep_skeleton t d :
  map (fun r => (rp_uuid r, rp_parent r, rp_root r)) (rps (fst (tstep t d))) =
  map (fun r => (rp_uuid r, rp_parent r, rp_root r)) (rps d).
Proof. symmetry. exact (tstep_same t d). Qed.

(* Forest depends only on the skeleton *)
Lemma Forest_skeleton d d' :
  map (fun r => (rp_uuid r, rp_parent r, rp_root r)) (rps d') =
  map (fun r => (rp_uuid r, rp_parent r, rp_root r)) (rps d) ->
  Forest d -> Forest d'.
Proof. intro E. apply Forest_sameS. unfold sameS. symmetry. exact E. Qed.

(* ================================================================ 2. every step of every thread keeps the forest *)
Lemma ttstep_create_forest cf v u name parent d :
  Forest d -> Forest (snd (ttstep cf (TTCreate v u name parent) d)).
Proof.
  intro HF. cbn [ttstep]. pose proof (h_rp_create_forest d v u name parent HF) as H.
  destruct (h_rp_create d v u name parent) as [d' r]. exact H.
Qed.

Lemma ttstep_updload_same cf v u name parent d : snd (ttstep cf (TTUpdLoad v u name parent) d) = d.
Proof. cbn [ttstep]. destruct (find_rp d u); [destruct (_ && _)|]; reflexivity. Qed.

Lemma ttstep_updsave_forest cf v u name np g d :
  Forest d -> Forest (snd (ttstep cf (TTUpdSave v u name np g) d)).
Proof.
  intro HF. cbn [ttstep]. destruct (find_rp d u) as [me|] eqn:Hme; [|exact HF].
  unfold rp_update_answer.
  destruct (rp_update d me name np (37 <=? v)) as [d'|e] eqn:E.
  - cbn [snd]. eapply rp_update_forest; [exact HF| |exact E].
    destruct (find_rp_l_some _ _ _ Hme) as [_ ->]. exact Hme.
  - destruct e; exact HF.
Qed.

Lemma ttstep_delload_same cf u d : snd (ttstep cf (TTDelLoad u) d) = d.
Proof. cbn [ttstep]. destruct (find_rp d u); reflexivity. Qed.

Lemma ttstep_delete_forest cf u d : Forest d -> Forest (snd (ttstep cf (TTDelete u) d)).
Proof.
  intro HF. cbn [ttstep]. unfold rp_delete_answer.
  destruct (rp_delete d u) as [d'|e] eqn:E.
  - cbn [snd]. eapply rp_delete_forest; eassumption.
  - destruct e; exact HF.
Qed.

Lemma ttstep_other_forest cf t d : Forest d -> Forest (snd (ttstep cf (TTOther t) d)).
Proof.
  intro HF. cbn [ttstep]. pose proof (tstep_same t d) as H.
  destruct (tstep t d) as [d' t']. cbn [fst snd] in *. eapply Forest_sameS; eassumption.
Qed.

Theorem C09c_step_forest : forall cf t d, Forest d -> Forest (snd (ttstep cf t d)).
Proof.
  intros cf t d HF. destruct t.
  - exact HF.
  - apply ttstep_create_forest; exact HF.
  - rewrite ttstep_updload_same. exact HF.
  - apply ttstep_updsave_forest; exact HF.
  - rewrite ttstep_delload_same. exact HF.
  - apply ttstep_delete_forest; exact HF.
  - apply ttstep_other_forest; exact HF.
Qed.

(* ================================================================ 3. schedules *)
Lemma tt_step_thread_forest cf : forall i ts d, Forest d -> Forest (snd (tt_step_thread cf i ts d)).
Proof.
  induction i as [|i IH]; intros [|t ts] d HF; cbn [tt_step_thread snd]; try exact HF.
  - pose proof (C09c_step_forest cf t d HF) as H. destruct (ttstep cf t d) as [t' d']. exact H.
  - pose proof (IH ts d HF) as H. destruct (tt_step_thread cf i ts d) as [ts' d']. exact H.
Qed.

(* any initial thread states, any schedule *)
Lemma tt_run_sched_forest cf : forall s ts d, Forest d -> Forest (snd (tt_run_sched cf s ts d)).
Proof.
  induction s as [|i s IH]; intros ts d HF; cbn [tt_run_sched]; [exact HF|].
  pose proof (tt_step_thread_forest cf i ts d HF) as H.
  destruct (tt_step_thread cf i ts d) as [ts' d']. apply IH. exact H.
Qed.

(* THE THEOREM: any number of concurrent requests of any kind, any schedule (finished or not) *)
Theorem C09c_forest_all_schedules :
  forall cf reqs s d, Forest d -> Forest (snd (tt_run_sched cf s (map (ttinit cf) reqs) d)).
Proof. intros cf reqs s d HF. apply tt_run_sched_forest. exact HF. Qed.

(* ... in particular after every prefix of a schedule *)
Theorem C09c_forest_every_prefix :
  forall cf reqs s d k, Forest d -> Forest (snd (tt_exec cf reqs (firstn k s) d)).
Proof. intros cf reqs s d k HF. unfold tt_exec. apply C09c_forest_all_schedules. exact HF. Qed.

(* ... and from every state the sequential model reaches (the harness scenario: setup, then threads) *)
Theorem C09c_forest_reachable :
  forall cf setup reqs s, Forest (snd (tt_exec cf reqs s (run cf db0 setup))).
Proof. intros cf setup reqs s. unfold tt_exec. apply C09c_forest_all_schedules. apply c09_invariant. Qed.

(* prefixes really are the intermediate states: running s1 ++ s2 = running s1, then s2 *)
Lemma tt_run_sched_app cf s1 : forall s2 ts d,
  tt_run_sched cf (s1 ++ s2) ts d =
  tt_run_sched cf s2 (fst (tt_run_sched cf s1 ts d)) (snd (tt_run_sched cf s1 ts d)).
Proof.
  induction s1 as [|i s1 IH]; intros s2 ts d; cbn [app tt_run_sched fst snd]; [reflexivity|].
  destruct (tt_step_thread cf i ts d) as [ts1 d1]. apply IH.
Qed.

(* ---------------------------------------------------------------- rejected provider writes have no effect *)
Definition rp_thread (t : tthread) : Prop :=
  match t with TTOther _ => False | _ => True end.

Theorem C09c_rejected_no_effect :
  forall cf t d r d', rp_thread t -> ttstep cf t d = (TTDone r, d') -> 400 <= status r -> d' = d.
Proof.
  intros cf t d r d' Ht H Hs. destruct t; cbn [ttstep] in H; cbn [rp_thread] in Ht.
  - injection H as _ <-. reflexivity.
  - unfold h_rp_create in H. destruct (_ && _); [injection H as _ <-; reflexivity|].
    destruct (rp_create d u name parent) as [d1|e].
    + injection H as <- _. exfalso. revert Hs. destruct (20 <=? v); cbn; lia.
    + destruct e; injection H as _ <-; reflexivity.
  - destruct (find_rp d u); [destruct (_ && _)|]; try discriminate; injection H as _ <-; reflexivity.
  - destruct (find_rp d u) as [me|]; [|injection H as _ <-; reflexivity].
    unfold rp_update_answer in H. destruct (rp_update d me name new_parent (37 <=? v)) as [d1|e].
    + injection H as <- _. exfalso. revert Hs. cbn. lia.
    + destruct e; injection H as _ <-; reflexivity.
  - destruct (find_rp d u); [discriminate|]. injection H as _ <-. reflexivity.
  - unfold rp_delete_answer in H. destruct (rp_delete d u) as [d1|e].
    + injection H as <- _. exfalso. revert Hs. cbn. lia.
    + destruct e; injection H as _ <-; reflexivity.
  - contradiction.
Qed.

(* a step of a Conc thread never produces TTDone, so the hypothesis rp_thread is only there for readability *)
Lemma ttstep_other_not_done cf t d r d' : ttstep cf (TTOther t) d <> (TTDone r, d').
Proof. cbn [ttstep]. destruct (tstep t d). discriminate. Qed.

(* the same inside an execution: position of the schedule at which thread i is rejected *)
Lemma tt_step_thread_self cf : forall i ts d ts' d' t,
  tt_step_thread cf i ts d = (ts', d') -> nth_error ts i = Some t ->
  exists t', ttstep cf t d = (t', d') /\ nth_error ts' i = Some t'.
Proof.
  induction i as [|i IH]; intros [|t0 ts] d ts' d' t H Ht; cbn [tt_step_thread] in H; cbn [nth_error] in Ht;
    try discriminate.
  - injection Ht as ->. destruct (ttstep cf t d) as [t1 d1]. injection H as <- <-.
    exists t1. split; reflexivity.
  - destruct (tt_step_thread cf i ts d) as [ts1 d1] eqn:E. injection H as <- <-.
    cbn [nth_error]. eapply IH; eassumption.
Qed.

Theorem C09c_rejected_no_effect_sched :
  forall cf i ts d ts' d' t r,
    tt_step_thread cf i ts d = (ts', d') -> nth_error ts i = Some t -> rp_thread t ->
    nth_error ts' i = Some (TTDone r) -> 400 <= status r -> d' = d.
Proof.
  intros cf i ts d ts' d' t r H Ht Hrp Hr Hs.
  destruct (tt_step_thread_self cf i ts d ts' d' t H Ht) as [t' [Hst Ht']].
  rewrite Hr in Ht'. injection Ht' as <-.
  eapply C09c_rejected_no_effect; eassumption.
Qed.

(* ================================================================ 4. a thread alone = the sequential handler *)
Definition is_rp_req (r : req) : Prop :=
  match r with RpCreate _ _ _ _ | RpUpdate _ _ _ _ | RpDelete _ => True | _ => False end.

Theorem tt_serial :
  forall cf d r n, is_rp_req r -> (2 <= n)%nat ->
    tt_run_thread cf n (ttinit cf r) d = (TTDone (snd (step cf d r)), fst (step cf d r)).
Proof.
  intros cf d r n Hr Hn. destruct n as [|[|n]]; try lia.
  destruct r; try contradiction; cbn [ttinit step].
  - cbn [tt_run_thread ttstep]. destruct (h_rp_create d v u name parent) as [d' rs].
    cbn [tt_run_thread fst snd]. reflexivity.
  - cbn [tt_run_thread ttstep]. unfold h_rp_update.
    destruct (find_rp d u) as [me|] eqn:Hme; [|reflexivity].
    destruct ((v <? 14) && _); [reflexivity|].
    cbn [tt_run_thread ttstep]. rewrite Hme. unfold rp_update_answer.
    destruct (rp_update d me name _ (37 <=? v)) as [d'|e]; [|destruct e]; destruct n; reflexivity.
  - cbn [tt_run_thread ttstep]. unfold h_rp_delete.
    destruct (find_rp d u) as [me|] eqn:Hme; [|reflexivity].
    cbn [tt_run_thread ttstep]. unfold rp_delete_answer.
    destruct (rp_delete d u) as [d'|e]; [|destruct e]; destruct n; reflexivity.
Qed.

Corollary tt_serial_3 :
  forall cf d r, is_rp_req r ->
    tt_run_thread cf 3 (ttinit cf r) d = (TTDone (snd (step cf d r)), fst (step cf d r)).
Proof. intros cf d r Hr. apply tt_serial; [exact Hr|lia]. Qed.

(* every other request: the thread is the Conc thread, run alone it is Conc.run_thread *)
Lemma run_thread_done n r d : run_thread n (TDone r) d = (d, TDone r).
Proof. destruct n; reflexivity. Qed.

Theorem tt_serial_other :
  forall cf n t d, tt_run_thread cf n (TTOther t) d = (TTOther (snd (run_thread n t d)), fst (run_thread n t d)).
Proof.
  intros cf. induction n as [|n IH]; intros t d; [reflexivity|].
  cbn [tt_run_thread run_thread ttstep].
  destruct t; try (destruct (tstep _ d) as [d' t']; apply IH).
  cbn [tstep]. rewrite IH, run_thread_done. reflexivity.
Qed.

Corollary tt_serial_other_req :
  forall cf n r d, ~ is_rp_req r ->
    tt_run_thread cf n (ttinit cf r) d =
    (TTOther (snd (run_thread n (tinit cf r) d)), fst (run_thread n (tinit cf r) d)).
Proof.
  intros cf n r d Hr. destruct r; cbn [is_rp_req] in Hr; try (exfalso; apply Hr; exact I);
    cbn [ttinit]; apply tt_serial_other.
Qed.

(* ================================================================ 5. why serial equivalence is NOT claimed:
   a PUT without the parent key writes back the parent it LOADED *)
Require Import Coq.Sorting.Permutation.

Definition cf0 : cfg := mkCfg 0 0.
Definition statuses (ts : list tthread) : list Z :=
  map (fun t => match tt_done t with Some r => status r | None => -1 end) ts.
Definition parent_of (d : db) (u : Z) : option (option Z) := option_map rp_parent (find_rp d u).
Definition core_differs (d d' : db) : bool := negb (dump_eqb (core_dump (dump d)) (core_dump (dump d'))).
(* sequential run collecting the statuses *)
Fixpoint run_statuses (cf : cfg) (d : db) (l : list req) : list Z :=
  match l with
  | [] => []
  | r :: l' => status (snd (step cf d r)) :: run_statuses cf (fst (step cf d r)) l'
  end.

(* providers 1 and 2 are roots, 3 is a child of 1 *)
Definition rr_setup : list req := [RpCreate 37 1 11 None; RpCreate 37 2 12 None; RpCreate 37 3 13 (Some 1)].
Definition rr_d0 : db := run cf0 db0 rr_setup.
Definition rr_A : req := RpUpdate 37 3 33 None.                 (* PUT 3 {"name": n33}                    *)
Definition rr_B : req := RpUpdate 37 3 30 (Some (Some 2)).      (* PUT 3 {"name": n30, "parent_provider_uuid": 2} *)
Definition rr_sched : list nat := [0; 1; 1; 0]%nat.            (* load A, load B, save B, save A *)

Theorem C09c_rename_reverts_reparent :
  let conc := tt_exec cf0 [rr_A; rr_B] rr_sched rr_d0 in
  let mid := tt_exec cf0 [rr_A; rr_B] (firstn 3 rr_sched) rr_d0 in
  (* both requests are answered 200 *)
  map tt_done (fst conc) = [Some (okg 200 0); Some (okg 200 0)] /\
  (* the old parent is 1; when the re-parenting request has answered it is 2; at the end it is 1 again *)
  parent_of rr_d0 3 = Some (Some 1) /\
  statuses (fst mid) = [-1; 200] /\ parent_of (snd mid) 3 = Some (Some 2) /\
  parent_of (snd conc) 3 = Some (Some 1) /\
  (* no serial order of the two requests produces that state: both answer 200 twice and leave 3 under 2 *)
  (forall order, Permutation [rr_A; rr_B] order ->
     run_statuses cf0 rr_d0 order = [200; 200] /\
     parent_of (run cf0 rr_d0 order) 3 = Some (Some 2) /\
     core_differs (run cf0 rr_d0 order) (snd conc) = true).
Proof.
  cbv zeta.
  split; [vm_compute; reflexivity|]. split; [vm_compute; reflexivity|].
  split; [vm_compute; reflexivity|]. split; [vm_compute; reflexivity|].
  split; [vm_compute; reflexivity|].
  intros order H. apply Permutation_length_2_inv in H.
  destruct H as [->| ->]; vm_compute; repeat split; reflexivity.
Qed.

(* the forest invariant is NOT broken by that execution (instance of the theorem, and by computation) *)
Example C09c_rename_reverts_still_forest : Forest (snd (tt_exec cf0 [rr_A; rr_B] rr_sched rr_d0)).
Proof. apply C09c_forest_reachable. Qed.

(* below 1.37 the same race makes a pure rename fail: 3 is parentless, B gives it its first parent (allowed from
   1.14), A's save then carries the stale "no parent" = an un-parenting, which is refused: A is answered 400
   although in both serial orders it is answered 200 *)
Definition rq_setup : list req := [RpCreate 36 1 11 None; RpCreate 36 2 12 None; RpCreate 36 3 13 None].
Definition rq_d0 : db := run cf0 db0 rq_setup.
Definition rq_A : req := RpUpdate 36 3 33 None.
Definition rq_B : req := RpUpdate 36 3 30 (Some (Some 2)).

Example C09c_rename_rejected_below_1_37 :
  let conc := tt_exec cf0 [rq_A; rq_B] rr_sched rq_d0 in
  statuses (fst conc) = [400; 200] /\
  (forall order, Permutation [rq_A; rq_B] order -> run_statuses cf0 rq_d0 order = [200; 200]).
Proof.
  cbv zeta. split; [vm_compute; reflexivity|].
  intros order H. apply Permutation_length_2_inv in H. destruct H as [->| ->]; vm_compute; reflexivity.
Qed.

(* ================================================================ 6. non-vacuity *)
(* 1 and 2 are roots, 3 is a child of 2, 4 is a root.
   thread 0: PUT 2 {parent 1}   thread 1: PUT 1 {parent 3} (3 is below 2: together a loop)   thread 2: DELETE 4 *)
Definition lp_setup : list req :=
  [RpCreate 37 1 11 None; RpCreate 37 2 12 None; RpCreate 37 3 13 (Some 2); RpCreate 37 4 14 None].
Definition lp_d0 : db := run cf0 db0 lp_setup.
Definition lp_reqs : list req :=
  [RpUpdate 37 2 12 (Some (Some 1)); RpUpdate 37 1 11 (Some (Some 3)); RpDelete 4].
Definition lp_sched : list nat := [0; 1; 2; 0; 1; 2]%nat.      (* all three load, then save 0, save 1, delete *)
Definition lp_sched' : list nat := [0; 1; 2; 1; 0; 2]%nat.     (* ... save 1 first *)

Ltac chain_tac :=
  repeat first [ eapply chain_top; [vm_compute; reflexivity|reflexivity]
               | eapply chain_up; [vm_compute; reflexivity|reflexivity|] ].
Ltac nodup_tac := repeat constructor; cbn [In]; intuition discriminate.

(* both loads pass (neither request closes a loop on the state it read); the save that comes second re-reads
   the subtree, finds the new parent in it and is rejected with 400; the database stays a forest *)
Example C09c_ex_loop_rejected :
  let conc := tt_exec cf0 lp_reqs lp_sched lp_d0 in
  map tt_done (fst conc) = [Some (okg 200 0); Some (err 400 C_DEFAULT); Some (ok 204)] /\
  rps (snd conc) = [mkRp 1 11 0 None 1; mkRp 2 12 0 (Some 1) 1; mkRp 3 13 0 (Some 2) 1].
Proof. vm_compute. split; reflexivity. Qed.

(* ... proved directly on the computed state (not through the theorem) *)
Example C09c_ex_loop_rejected_forest : Forest (snd (tt_exec cf0 lp_reqs lp_sched lp_d0)).
Proof.
  unfold Forest. rewrite (proj2 C09c_ex_loop_rejected). split.
  - cbn [map rp_uuid]. nodup_tac.
  - intros r [<-|[<-|[<-|[]]]]; cbn [rp_uuid rp_root]; chain_tac.
Qed.

(* the other save order: now the re-parenting of 2 is the one that would close the loop *)
Example C09c_ex_loop_rejected' :
  let conc := tt_exec cf0 lp_reqs lp_sched' lp_d0 in
  map tt_done (fst conc) = [Some (err 400 C_DEFAULT); Some (okg 200 0); Some (ok 204)] /\
  rps (snd conc) = [mkRp 1 11 0 (Some 3) 2; mkRp 2 12 0 None 2; mkRp 3 13 0 (Some 2) 2].
Proof. vm_compute. split; reflexivity. Qed.

Example C09c_ex_loop_rejected_forest' : Forest (snd (tt_exec cf0 lp_reqs lp_sched' lp_d0)).
Proof.
  unfold Forest. rewrite (proj2 C09c_ex_loop_rejected'). split.
  - cbn [map rp_uuid]. nodup_tac.
  - intros r [<-|[<-|[<-|[]]]]; cbn [rp_uuid rp_root]; chain_tac.
Qed.

(* an unfinished execution (prefix of length 4: thread 0 has answered, 1 and 2 hold loaded objects) *)
Example C09c_ex_prefix :
  let conc := tt_exec cf0 lp_reqs (firstn 4 lp_sched) lp_d0 in
  statuses (fst conc) = [200; -1; -1] /\
  rps (snd conc) = [mkRp 1 11 0 None 1; mkRp 2 12 0 (Some 1) 1; mkRp 3 13 0 (Some 2) 1; mkRp 4 14 0 None 4].
Proof. vm_compute. split; reflexivity. Qed.

(* the rejected save of thread 1 (position 4 of lp_sched) left the database untouched *)
Example C09c_ex_rejected_step_no_effect :
  snd (tt_exec cf0 lp_reqs (firstn 5 lp_sched) lp_d0) = snd (tt_exec cf0 lp_reqs (firstn 4 lp_sched) lp_d0).
Proof. vm_compute. reflexivity. Qed.

(* the intended parent is deleted between load and save: 400, and the provider deleted between load and save
   of its own update: 404 *)
Example C09c_ex_parent_deleted :
  let conc := tt_exec cf0 [RpUpdate 37 2 12 (Some (Some 4)); RpDelete 4] [0; 1; 1; 0]%nat lp_d0 in
  map tt_done (fst conc) = [Some (err 400 C_DEFAULT); Some (ok 204)] /\ parent_of (snd conc) 2 = Some None.
Proof. vm_compute. split; reflexivity. Qed.
Example C09c_ex_self_deleted :
  let conc := tt_exec cf0 [RpUpdate 37 4 44 None; RpDelete 4] [0; 1; 1; 0]%nat lp_d0 in
  map tt_done (fst conc) = [Some (err 404 C_DEFAULT); Some (ok 204)] /\ parent_of (snd conc) 4 = None.
Proof. vm_compute. split; reflexivity. Qed.

(* a Conc thread (PUT inventories on 2, generation-guarded) interleaved with the re-parenting of 2: the write
   bumps the generation, the re-parenting answers the generation it loaded (0), the forest is kept *)
Definition mx_reqs : list req :=
  [RpUpdate 37 2 12 (Some (Some 1)); InvSet 37 2 0 [mkInvIn 0 8 0 1 8 1 1 0]].
Example C09c_ex_mixed :
  let conc := tt_exec cf0 mx_reqs [0; 1; 1; 0]%nat lp_d0 in
  map tt_done (fst conc) = [Some (okg 200 0); Some (okg 200 1)] /\
  find_rp (snd conc) 2 = Some (mkRp 2 12 1 (Some 1) 1) /\ find_rp (snd conc) 3 = Some (mkRp 3 13 0 (Some 2) 1).
Proof. vm_compute. repeat split; reflexivity. Qed.

(* the harness entry point agrees with these observations *)
Example C09c_ex_sched_agrees :
  tt_sched_agrees cf0 (lp_setup, lp_reqs, [0; 1; 2; 0; 1; 2], [200; 400; 204],
                       dump (snd (tt_exec cf0 lp_reqs lp_sched lp_d0))) = true /\
  tt_sched_agrees cf0 (rr_setup, [rr_A; rr_B], [0; 1; 1; 0], [200; 200],
                       [ [[1; 11; 0; -1; 1]; [2; 12; 0; -1; 2]; [3; 33; 0; 1; 1]]; []; []; []; []; []; []; []; []; []; []; [] ]) = true.
Proof. vm_compute. split; reflexivity. Qed.

(* ================================================================ assumptions *)
Print Assumptions tt_serial.
Print Assumptions tt_serial_3.
Print Assumptions tt_serial_other.
Print Assumptions tt_serial_other_req.
Print Assumptions tstep_skeleton.
Print Assumptions Forest_skeleton.
Print Assumptions C09c_step_forest.
Print Assumptions C09c_forest_all_schedules.
Print Assumptions C09c_forest_every_prefix.
Print Assumptions C09c_forest_reachable.
Print Assumptions tt_run_sched_app.
Print Assumptions C09c_rejected_no_effect.
Print Assumptions C09c_rejected_no_effect_sched.
Print Assumptions C09c_rename_reverts_reparent.
Print Assumptions C09c_rename_reverts_still_forest.
Print Assumptions C09c_rename_rejected_below_1_37.
Print Assumptions C09c_ex_loop_rejected.
Print Assumptions C09c_ex_loop_rejected_forest.
Print Assumptions C09c_ex_loop_rejected'.
Print Assumptions C09c_ex_loop_rejected_forest'.
Print Assumptions C09c_ex_prefix.
Print Assumptions C09c_ex_rejected_step_no_effect.
Print Assumptions C09c_ex_parent_deleted.
Print Assumptions C09c_ex_self_deleted.
Print Assumptions C09c_ex_mixed.
Print Assumptions C09c_ex_sched_agrees.
