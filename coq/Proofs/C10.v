(* C10 - generations move forward on every change and only then: proofs. *)
From PV Require Import Proofs.Defs.

(* ------------------------------------------------------------------ small tactics *)
Ltac inv H := inversion H; subst; clear H.
Ltac zb :=
  repeat match goal with
  | H : (_ =? _) = true |- _ => apply Z.eqb_eq in H
  | H : (_ =? _) = false |- _ => apply Z.eqb_neq in H
  end.

(* ------------------------------------------------------------------ order on optional generations *)
Definition ole (a b : option Z) : Prop := forall g, a = Some g -> exists g', b = Some g' /\ g <= g'.
Definition olt (a b : option Z) : Prop := forall g, a = Some g -> exists g', b = Some g' /\ g < g'.

Lemma ole_refl a : ole a a.
Proof. intros g H. exists g. split; [assumption|lia]. Qed.
Lemma ole_eq a b : b = a -> ole a b.
Proof. intros ->. apply ole_refl. Qed.
Lemma ole_trans a b c : ole a b -> ole b c -> ole a c.
Proof. intros H1 H2 g Hg. destruct (H1 g Hg) as (g1 & E1 & L1). destruct (H2 g1 E1) as (g2 & E2 & L2). exists g2. split; [assumption|lia]. Qed.
Lemma olt_ole a b : olt a b -> ole a b.
Proof. intros H g Hg. destruct (H g Hg) as (g1 & E1 & L1). exists g1. split; [assumption|lia]. Qed.
Lemma olt_ole_trans a b c : olt a b -> ole b c -> olt a c.
Proof. intros H1 H2 g Hg. destruct (H1 g Hg) as (g1 & E1 & L1). destruct (H2 g1 E1) as (g2 & E2 & L2). exists g2. split; [assumption|lia]. Qed.
Lemma ole_olt_trans a b c : ole a b -> olt b c -> olt a c.
Proof. intros H1 H2 g Hg. destruct (H1 g Hg) as (g1 & E1 & L1). destruct (H2 g1 E1) as (g2 & E2 & L2). exists g2. split; [assumption|lia]. Qed.

(* ------------------------------------------------------------------ list helpers *)
Lemma memZ_In x l : memZ x l = true <-> In x l.
Proof.
  unfold memZ. rewrite existsb_exists. split.
  - intros (y & Hy & E). apply Z.eqb_eq in E. subst. assumption.
  - intros H. exists x. split; [assumption|apply Z.eqb_refl].
Qed.
Lemma memZ_nIn x l : memZ x l = false <-> ~ In x l.
Proof. rewrite <- memZ_In. destruct (memZ x l); split; intros; congruence. Qed.

Lemma filter_all {A} (f : A -> bool) l : (forall x, In x l -> f x = true) -> filter f l = l.
Proof.
  induction l as [|a l IH]; intros H; cbn; [reflexivity|].
  rewrite (H a (or_introl eq_refl)). f_equal. apply IH. intros; apply H; right; assumption.
Qed.
Lemma filter_none {A} (f : A -> bool) l : (forall x, In x l -> f x = false) -> filter f l = [].
Proof.
  induction l as [|a l IH]; intros H; cbn; [reflexivity|].
  rewrite (H a (or_introl eq_refl)). apply IH. intros; apply H; right; assumption.
Qed.
Lemma filter_filter_imp {A} (f g : A -> bool) l :
  (forall x, f x = true -> g x = true) -> filter f (filter g l) = filter f l.
Proof.
  intros H. induction l as [|a l IH]; cbn; [reflexivity|].
  destruct (g a) eqn:G; cbn.
  - destruct (f a); [f_equal|]; assumption.
  - destruct (f a) eqn:F; [rewrite (H a F) in G; discriminate|assumption].
Qed.
Lemma filter_app_none {A} (f : A -> bool) l l2 :
  (forall x, In x l2 -> f x = false) -> filter f (l ++ l2) = filter f l.
Proof. intros H. rewrite filter_app, (filter_none f l2 H). apply app_nil_r. Qed.

(* ------------------------------------------------------------------ provider rows *)
Definition gl (l : list rp) (u : Z) : option Z := option_map rp_gen (find_rp_l l u).

Lemma gen_of_gl d u : gen_of d u = gl (rps d) u.
Proof. reflexivity. Qed.

Lemma find_rp_l_uuid l u r : find_rp_l l u = Some r -> rp_uuid r = u /\ In r l.
Proof.
  induction l as [|a l IH]; cbn; [discriminate|].
  destruct (rp_uuid a =? u) eqn:E.
  - intros [= <-]. zb. auto.
  - intros H. destruct (IH H). auto.
Qed.
Lemma find_rp_l_none l u : find_rp_l l u = None <-> forall r, In r l -> rp_uuid r <> u.
Proof.
  induction l as [|a l IH]; cbn.
  - split; [intros _ r []|reflexivity].
  - destruct (rp_uuid a =? u) eqn:E; zb.
    + split; [discriminate|]. intros H. exfalso. apply (H a); auto.
    + rewrite IH. split; intros H r; [intros [<-|Hr]; auto|intros Hr; apply H; auto].
Qed.

Lemma cas_rp_l_spec : forall l u g l', cas_rp_l l u g = Some l' ->
  gl l u = Some g /\ gl l' u = Some (g + 1) /\ forall x, x <> u -> gl l' x = gl l x.
Proof.
  induction l as [|r l IH]; intros u g l' H; cbn in H; [discriminate|].
  destruct (rp_uuid r =? u) eqn:E.
  - destruct (rp_gen r =? g) eqn:G; [|discriminate]. injection H as <-. zb.
    unfold gl; cbn. rewrite E, Z.eqb_refl. cbn. repeat split; [congruence|].
    intros x Hx. destruct (u =? x) eqn:X; zb; [congruence|reflexivity].
  - destruct (cas_rp_l l u g) as [l''|] eqn:C; [|discriminate]. injection H as <-.
    destruct (IH _ _ _ C) as (A & B & D). unfold gl in *; cbn. rewrite E. repeat split; auto.
    intros x Hx. destruct (rp_uuid r =? x); auto.
Qed.

Lemma gl_map (f : rp -> rp) l u :
  (forall r, rp_uuid (f r) = rp_uuid r) -> (forall r, rp_gen (f r) = rp_gen r) -> gl (map f l) u = gl l u.
Proof.
  intros Hu Hg. unfold gl. induction l as [|a l IH]; cbn; [reflexivity|].
  rewrite Hu. destruct (rp_uuid a =? u); cbn; [rewrite Hg; reflexivity|assumption].
Qed.
Lemma gl_filter (p : Z -> bool) l u :
  gl (filter (fun r => p (rp_uuid r)) l) u = if p u then gl l u else None.
Proof.
  unfold gl. induction l as [|a l IH]; cbn; [destruct (p u); reflexivity|].
  destruct (rp_uuid a =? u) eqn:E; zb.
  - subst u. destruct (p (rp_uuid a)) eqn:P; cbn; [rewrite Z.eqb_refl; reflexivity|].
    assumption.
  - destruct (p (rp_uuid a)); cbn; [|assumption]. apply Z.eqb_neq in E. rewrite E. assumption.
Qed.
Lemma gl_app1 l n u :
  gl (l ++ [n]) u = match gl l u with Some g => Some g | None => if rp_uuid n =? u then Some (rp_gen n) else None end.
Proof.
  unfold gl. induction l as [|a l IH]; cbn; [destruct (rp_uuid n =? u); reflexivity|].
  destruct (rp_uuid a =? u); cbn; [reflexivity|assumption].
Qed.

(* ------------------------------------------------------------------ consumer rows *)
Definition cgl (l : list consumer) (u : Z) : option Z := option_map c_gen (find_cons_l l u).

Lemma find_cons_l_uuid l u r : find_cons_l l u = Some r -> c_uuid r = u /\ In r l.
Proof.
  induction l as [|a l IH]; cbn; [discriminate|].
  destruct (c_uuid a =? u) eqn:E.
  - intros [= <-]. zb. auto.
  - intros H. destruct (IH H). auto.
Qed.
Lemma find_cons_l_none l u : find_cons_l l u = None <-> forall r, In r l -> c_uuid r <> u.
Proof.
  induction l as [|a l IH]; cbn.
  - split; [intros _ r []|reflexivity].
  - destruct (c_uuid a =? u) eqn:E; zb.
    + split; [discriminate|]. intros H. exfalso. apply (H a); auto.
    + rewrite IH. split; intros H r; [intros [<-|Hr]; auto|intros Hr; apply H; auto].
Qed.

Lemma cas_cons_l_spec : forall l u g l', cas_cons_l l u g = Some l' ->
  cgl l u = Some g /\ cgl l' u = Some (g + 1) /\ forall x, x <> u -> cgl l' x = cgl l x.
Proof.
  induction l as [|r l IH]; intros u g l' H; cbn in H; [discriminate|].
  destruct (c_uuid r =? u) eqn:E.
  - destruct (c_gen r =? g) eqn:G; [|discriminate]. injection H as <-. zb.
    unfold cgl; cbn. rewrite E, Z.eqb_refl. cbn. repeat split; [congruence|].
    intros x Hx. destruct (u =? x) eqn:X; zb; [congruence|reflexivity].
  - destruct (cas_cons_l l u g) as [l''|] eqn:C; [|discriminate]. injection H as <-.
    destruct (IH _ _ _ C) as (A & B & D). unfold cgl in *; cbn. rewrite E. repeat split; auto.
    intros x Hx. destruct (c_uuid r =? x); auto.
Qed.

Lemma cgl_map (f : consumer -> consumer) l u :
  (forall r, c_uuid (f r) = c_uuid r) -> (forall r, c_gen (f r) = c_gen r) -> cgl (map f l) u = cgl l u.
Proof.
  intros Hu Hg. unfold cgl. induction l as [|a l IH]; cbn; [reflexivity|].
  rewrite Hu. destruct (c_uuid a =? u); cbn; [rewrite Hg; reflexivity|assumption].
Qed.
Lemma cgl_filter (p : Z -> bool) l u :
  cgl (filter (fun r => p (c_uuid r)) l) u = if p u then cgl l u else None.
Proof.
  unfold cgl. induction l as [|a l IH]; cbn; [destruct (p u); reflexivity|].
  destruct (c_uuid a =? u) eqn:E; zb.
  - subst u. destruct (p (c_uuid a)) eqn:P; cbn; [rewrite Z.eqb_refl; reflexivity|].
    assumption.
  - destruct (p (c_uuid a)); cbn; [|assumption]. apply Z.eqb_neq in E. rewrite E. assumption.
Qed.
Lemma cgl_app1 l n u :
  cgl (l ++ [n]) u = match cgl l u with Some g => Some g | None => if c_uuid n =? u then Some (c_gen n) else None end.
Proof.
  unfold cgl. induction l as [|a l IH]; cbn; [destruct (c_uuid n =? u); reflexivity|].
  destruct (c_uuid a =? u); cbn; [reflexivity|assumption].
Qed.

(* ------------------------------------------------------------------ provider-side step relation *)
Definition psame (d d' : db) : Prop := rps d' = rps d /\ invs d' = invs d /\ rp_traits d' = rp_traits d.

Definition pstep (d d' : db) : Prop := forall u,
  ole (gen_of d u) (gen_of d' u) /\
  (invs_of d' u = invs_of d u \/ olt (gen_of d u) (gen_of d' u)) /\
  (rp_traits_of d' u = rp_traits_of d u \/ olt (gen_of d u) (gen_of d' u)).

Lemma psame_refl d : psame d d.
Proof. repeat split. Qed.
Lemma psame_trans d1 d2 d3 : psame d1 d2 -> psame d2 d3 -> psame d1 d3.
Proof. intros (A & B & C) (A' & B' & C'). repeat split; congruence. Qed.

Lemma pstep_refl d : pstep d d.
Proof. intros u. split; [apply ole_refl|]. split; left; reflexivity. Qed.
Lemma pstep_trans d1 d2 d3 : pstep d1 d2 -> pstep d2 d3 -> pstep d1 d3.
Proof.
  intros H1 H2 u. destruct (H1 u) as (A1 & B1 & C1). destruct (H2 u) as (A2 & B2 & C2).
  split; [eapply ole_trans; eauto|]. split.
  - destruct B1 as [B1|B1]; destruct B2 as [B2|B2];
      [left; congruence|right; eapply ole_olt_trans; eauto|right; eapply olt_ole_trans; eauto|right; eapply olt_ole_trans; eauto].
  - clear B1 B2. destruct C1 as [B1|B1]; destruct C2 as [B2|B2];
      [left; congruence|right; eapply ole_olt_trans; eauto|right; eapply olt_ole_trans; eauto|right; eapply olt_ole_trans; eauto].
Qed.
Lemma pstep_gens d d' : invs d' = invs d -> rp_traits d' = rp_traits d ->
  (forall u, ole (gen_of d u) (gen_of d' u)) -> pstep d d'.
Proof.
  intros B C H u. split; [apply H|]. unfold invs_of, rp_traits_of. rewrite B, C. split; left; reflexivity.
Qed.
Lemma psame_pstep d d' : psame d d' -> pstep d d'.
Proof.
  intros (A & B & C). apply pstep_gens; auto. intros u. unfold gen_of, find_rp. rewrite A. apply ole_refl.
Qed.
Lemma psame_gen d d' u : psame d d' -> gen_of d' u = gen_of d u.
Proof. intros (A & _). unfold gen_of, find_rp. rewrite A. reflexivity. Qed.

(* d' differs from d only in rows local to provider u (inventories, traits, aggregates) *)
Definition loc (u : Z) (d d' : db) : Prop :=
  rps d' = rps d /\ allocs d' = allocs d /\ consumers d' = consumers d /\
  (forall x, x <> u -> invs_of d' x = invs_of d x) /\
  (forall x, x <> u -> rp_traits_of d' x = rp_traits_of d x) /\
  (forall x, x <> u -> rp_aggs_of d' x = rp_aggs_of d x).

Lemma loc_refl u d : loc u d d.
Proof. repeat split. Qed.
Lemma loc_trans u d1 d2 d3 : loc u d1 d2 -> loc u d2 d3 -> loc u d1 d3.
Proof.
  intros (A & B & C & D & E & F) (A' & B' & C' & D' & E' & F').
  repeat split; try congruence; intros x Hx;
    [rewrite D', D|rewrite E', E|rewrite F', F]; auto.
Qed.

Lemma incr_rp_gen_inv d u g d' : incr_rp_gen d u g = Ok d' ->
  exists l', cas_rp_l (rps d) u g = Some l' /\ d' = set_rps d l'.
Proof.
  unfold incr_rp_gen. destruct (cas_rp_l (rps d) u g) as [l'|]; [|discriminate].
  intros [= <-]. eauto.
Qed.
Lemma incr_cons_gen_inv d u g d' : incr_cons_gen d u g = Ok d' ->
  exists l', cas_cons_l (consumers d) u g = Some l' /\ d' = set_consumers d l'.
Proof.
  unfold incr_cons_gen. destruct (cas_cons_l (consumers d) u g) as [l'|]; [|discriminate].
  intros [= <-]. eauto.
Qed.

Definition bumped (u g : Z) (d d' : db) : Prop := exists dm, loc u d dm /\ incr_rp_gen dm u g = Ok d'.

Lemma bumped_spec u g d d' : bumped u g d d' ->
  gen_of d u = Some g /\ gen_of d' u = Some (g + 1) /\ (forall x, x <> u -> gen_of d' x = gen_of d x) /\
  allocs d' = allocs d /\ consumers d' = consumers d /\
  (forall x, x <> u -> invs_of d' x = invs_of d x) /\
  (forall x, x <> u -> rp_traits_of d' x = rp_traits_of d x) /\
  (forall x, x <> u -> rp_aggs_of d' x = rp_aggs_of d x).
Proof.
  intros (dm & (A & B & C & D & E & F) & H). apply incr_rp_gen_inv in H. destruct H as (l' & H & ->).
  apply cas_rp_l_spec in H. destruct H as (H1 & H2 & H3). rewrite A in *.
  repeat split; auto.
Qed.

Lemma bumped_pstep u g d d' : bumped u g d d' -> pstep d d'.
Proof.
  intros H. apply bumped_spec in H. destruct H as (H1 & H2 & H3 & _ & _ & H4 & H5 & _).
  intros x. destruct (Z.eq_dec x u) as [->|Hx].
  - assert (L : olt (gen_of d u) (gen_of d' u)).
    { intros g0 Hg. rewrite H1 in Hg. injection Hg as <-. exists (g + 1). split; [assumption|lia]. }
    split; [apply olt_ole; assumption|]. split; right; assumption.
  - split; [apply ole_eq; auto|]. split; left; auto.
Qed.

(* ------------------------------------------------------------------ inventory transactions *)
Lemma delete_inv_loc d u to_del d1 : delete_inventory_from_provider d u to_del = Ok d1 -> loc u d d1.
Proof.
  unfold delete_inventory_from_provider. destruct (existsb _ _); [discriminate|]. intros [= <-].
  unfold loc; cbn. repeat split; auto. intros x Hx. unfold invs_of; cbn.
  apply filter_filter_imp. intros i Hi. zb. destruct (i_rp i =? u) eqn:E; zb; [congruence|reflexivity].
Qed.

Lemma add_inv_loc d u l : loc u d (add_inventory_to_provider d u l).
Proof.
  unfold loc, add_inventory_to_provider; cbn. repeat split; auto. intros x Hx. unfold invs_of; cbn.
  apply filter_app_none. intros i Hi. apply in_map_iff in Hi. destruct Hi as (y & <- & _). cbn.
  apply Z.eqb_neq. congruence.
Qed.

Lemma replace_inv_filter l n x : x <> i_rp n ->
  filter (fun i => i_rp i =? x) (replace_inv l n) = filter (fun i => i_rp i =? x) l.
Proof.
  intros Hx. induction l as [|i l IH]; cbn; [reflexivity|].
  destruct ((i_rp i =? i_rp n) && (i_rc i =? i_rc n)) eqn:E; cbn.
  - apply andb_true_iff in E. destruct E as [E _]. zb.
    assert (E1 : (i_rp n =? x) = false) by (apply Z.eqb_neq; congruence).
    assert (E2 : (i_rp i =? x) = false) by (apply Z.eqb_neq; congruence).
    rewrite E1, E2. reflexivity.
  - destruct (i_rp i =? x); [f_equal|]; assumption.
Qed.

Lemma update_inv_loc u : forall l d d', update_inventory_for_provider d u l = Ok d' -> loc u d d'.
Proof.
  induction l as [|x l IH]; intros d d' H; cbn in H.
  - injection H as <-. apply loc_refl.
  - destruct (find_inv d u (ii_rc x)); [|discriminate]. apply IH in H.
    eapply loc_trans; [|exact H]. unfold loc; cbn. repeat split; auto.
    intros y Hy. unfold invs_of; cbn. apply replace_inv_filter. cbn. assumption.
Qed.

Lemma set_inventory_bumped d u g l d' : set_inventory d u g l = Ok d' -> bumped u g d d'.
Proof.
  unfold set_inventory. destruct (negb _); [discriminate|]. cbv zeta.
  destruct (delete_inventory_from_provider d u _) as [d1|] eqn:E1; [|discriminate]. cbn [bind].
  destruct (update_inventory_for_provider _ u _) as [d3|] eqn:E3; [|discriminate]. cbn [bind].
  intros H. exists d3. split; [|assumption].
  eapply loc_trans; [eapply delete_inv_loc; eassumption|].
  eapply loc_trans; [apply add_inv_loc|]. eapply update_inv_loc; eassumption.
Qed.

Lemma add_inventory_bumped d u g x d' : add_inventory d u g x = Ok d' -> bumped u g d d'.
Proof.
  unfold add_inventory. destruct (negb _); [discriminate|]. destruct (find_inv d u (ii_rc x)); [discriminate|].
  intros H. eexists. split; [apply add_inv_loc|eassumption].
Qed.

Lemma update_inventory_bumped d u g x d' : update_inventory d u g x = Ok d' -> bumped u g d d'.
Proof.
  unfold update_inventory. destruct (negb _); [discriminate|].
  destruct (update_inventory_for_provider d u [x]) as [d1|] eqn:E; [|discriminate]. cbn [bind].
  intros H. exists d1. split; [eapply update_inv_loc; eassumption|assumption].
Qed.

Lemma delete_inventory_bumped d u g rc d' : delete_inventory d u g rc = Ok d' -> bumped u g d d'.
Proof.
  unfold delete_inventory. destruct (negb _); [discriminate|].
  destruct (delete_inventory_from_provider d u [rc]) as [d1|] eqn:E; [|discriminate]. cbn [bind].
  destruct (find_inv d u rc); [|discriminate].
  intros H. exists d1. split; [eapply delete_inv_loc; eassumption|assumption].
Qed.

(* ------------------------------------------------------------------ traits / aggregates transactions *)
Lemma traits_loc d u (P : Z * Z -> bool) add : (forall y, fst y <> u -> P y = true) ->
  loc u d (set_rp_traits d (filter P (rp_traits d) ++ map (fun t => (u, t)) add)).
Proof.
  intros HP. unfold loc; cbn. repeat split; auto. intros x Hx. unfold rp_traits_of; cbn.
  rewrite filter_app_none.
  - apply filter_filter_imp. intros y Hy. zb. apply HP. congruence.
  - intros y Hy. apply in_map_iff in Hy. destruct Hy as (t & <- & _). cbn. apply Z.eqb_neq. congruence.
Qed.

Lemma set_traits_txn_bumped d u g ts d' : set_traits_txn d u g ts = Ok d' -> d' = d \/ bumped u g d d'.
Proof.
  unfold set_traits_txn. cbv zeta. intros H.
  assert (L : forall add del, loc u d (set_rp_traits d
     (filter (fun x => negb ((fst x =? u) && memZ (snd x) del)) (rp_traits d) ++ map (fun t => (u, t)) add))).
  { intros add del. apply traits_loc. intros y Hy. apply Z.eqb_neq in Hy. rewrite Hy. reflexivity. }
  destruct (filter (fun t => negb (memZ t (traits_of d u))) ts) as [|a ta];
    destruct (filter (fun t => negb (memZ t ts)) (traits_of d u)) as [|b tb].
  - injection H as <-. left; reflexivity.
  - right. eexists. split; [apply L|exact H].
  - right. eexists. split; [apply L|exact H].
  - right. eexists. split; [apply L|exact H].
Qed.

Lemma set_aggregates_txn_bumped d u g want d' : set_aggregates_txn d u g want true = Ok d' -> bumped u g d d'.
Proof.
  unfold set_aggregates_txn. cbv zeta. intros H. eexists. split; [|exact H].
  unfold loc; cbn. repeat split; auto. intros x Hx. unfold rp_aggs_of; cbn.
  rewrite filter_app_none.
  - apply filter_filter_imp. intros y Hy. zb. assert (E : (fst y =? u) = false) by (apply Z.eqb_neq; congruence).
    rewrite E. reflexivity.
  - intros y Hy. apply in_map_iff in Hy. destruct Hy as (t & <- & _). cbn. apply Z.eqb_neq. congruence.
Qed.

(* ------------------------------------------------------------------ what the provider theorems need of one step *)
Definition pmono (d d' : db) : Prop := forall u g g', gen_of d u = Some g -> gen_of d' u = Some g' ->
  g <= g' /\ (invs_of d u <> invs_of d' u -> g < g') /\ (rp_traits_of d u <> rp_traits_of d' u -> g < g').

Lemma pstep_pmono d d' : pstep d d' -> pmono d d'.
Proof.
  intros H u g g' Hg Hg'. destruct (H u) as (A & B & C).
  destruct (A g Hg) as (g1 & E1 & L1). rewrite Hg' in E1. injection E1 as <-. split; [lia|]. split.
  - intros N. destruct B as [B|B]; [exfalso; apply N; congruence|].
    destruct (B g Hg) as (g2 & E2 & L2). rewrite Hg' in E2. injection E2 as <-. assumption.
  - intros N. destruct C as [C|C]; [exfalso; apply N; congruence|].
    destruct (C g Hg) as (g2 & E2 & L2). rewrite Hg' in E2. injection E2 as <-. assumption.
Qed.
Lemma pmono_refl d : pmono d d.
Proof. apply pstep_pmono, pstep_refl. Qed.

Ltac bmH H := match type of H with context[match ?x with _ => _ end] => destruct x eqn:? end.
Ltac rowfun := intros ?r; try match goal with |- context[if ?c then _ else _] => destruct c eqn:? end;
               cbn; zb; auto; congruence.

(* ------------------------------------------------------------------ provider CRUD *)
Lemma rp_create_spec d u name parent d' : rp_create d u name parent = Ok d' ->
  pstep d d' /\ gen_of d' u = Some 0.
Proof.
  unfold rp_create. intros H.
  match type of H with bind ?r _ = _ => destruct r as [root|e]; cbn [bind] in H; [|discriminate] end.
  destruct (existsb _ (rps d)) eqn:E; [discriminate|]. injection H as <-. split.
  - apply pstep_gens; auto. intros x. rewrite !gen_of_gl; cbn. rewrite gl_app1. intros g Hg. rewrite Hg.
    exists g; split; [reflexivity|lia].
  - rewrite gen_of_gl; cbn. rewrite gl_app1. cbn.
    assert (N : gl (rps d) u = None).
    { unfold gl. destruct (find_rp_l (rps d) u) as [r|] eqn:F; [exfalso|reflexivity].
      apply find_rp_l_uuid in F. destruct F as [F1 F2].
      assert (X : existsb (fun r => (rp_uuid r =? u) || (rp_name r =? name)) (rps d) = true); [|congruence].
      apply existsb_exists. exists r. split; [assumption|]. rewrite F1, Z.eqb_refl. reflexivity. }
    rewrite N, Z.eqb_refl. reflexivity.
Qed.

Lemma rp_update_spec d me name np ar d' : rp_update d me name np ar = Ok d' ->
  invs d' = invs d /\ rp_traits d' = rp_traits d /\ forall x, gen_of d' x = gen_of d x.
Proof.
  unfold rp_update. cbv zeta. intros H.
  match type of H with bind ?r _ = _ => destruct r as [upd|e]; cbn [bind] in H; [|discriminate] end.
  destruct (name_taken d name (rp_uuid me)); [discriminate|]. injection H as <-.
  repeat split. intros x. rewrite !gen_of_gl; cbn [rps set_rps].
  rewrite gl_map; [|rowfun|rowfun].
  destruct upd as [[[par root] sub]|]; [|reflexivity].
  unfold set_roots. rewrite gl_map; [|rowfun|rowfun]. rewrite gl_map; [reflexivity|rowfun|rowfun].
Qed.

Lemma rp_delete_spec d u d' : rp_delete d u = Ok d' ->
  gen_of d' u = None /\
  forall x, x <> u -> gen_of d' x = gen_of d x /\ invs_of d' x = invs_of d x /\ rp_traits_of d' x = rp_traits_of d x.
Proof.
  unfold rp_delete. destruct (existsb _ (rps d)); [discriminate|]. destruct (existsb _ (allocs d)); [discriminate|].
  destruct (find_rp d u); [|discriminate]. intros [= <-].
  pose proof (gl_filter (fun z => negb (z =? u)) (rps d)) as G. cbv beta in G.
  split.
  - rewrite gen_of_gl; cbn. rewrite G, Z.eqb_refl. reflexivity.
  - intros x Hx. assert (E : (x =? u) = false) by (apply Z.eqb_neq; assumption). split; [|split].
    + rewrite !gen_of_gl; cbn. rewrite G, E. reflexivity.
    + unfold invs_of; cbn. apply filter_filter_imp. intros i Hi. zb. subst x. rewrite (proj2 (Z.eqb_neq _ _) Hx). reflexivity.
    + unfold rp_traits_of; cbn. apply filter_filter_imp. intros i Hi. zb. subst x. rewrite (proj2 (Z.eqb_neq _ _) Hx). reflexivity.
Qed.

Lemma rp_delete_pmono d u d' : rp_delete d u = Ok d' -> pmono d d'.
Proof.
  intros H. apply rp_delete_spec in H. destruct H as (H1 & H2). intros x g g' Hg Hg'.
  destruct (Z.eq_dec x u) as [->|Hx]; [congruence|]. destruct (H2 x Hx) as (A & B & C).
  rewrite A, Hg in Hg'. injection Hg' as <-. split; [lia|]. split; intros N; exfalso; apply N; congruence.
Qed.

(* ------------------------------------------------------------------ non-allocation handlers *)
Ltac hbreak H := repeat (bmH H); try (inv H; apply pmono_refl).
Ltac use_bumped :=
  match goal with
  | E : set_inventory _ _ _ _ = Ok _ |- _ => apply set_inventory_bumped in E
  | E : add_inventory _ _ _ _ = Ok _ |- _ => apply add_inventory_bumped in E
  | E : update_inventory _ _ _ _ = Ok _ |- _ => apply update_inventory_bumped in E
  | E : delete_inventory _ _ _ _ = Ok _ |- _ => apply delete_inventory_bumped in E
  | E : set_aggregates_txn _ _ _ _ true = Ok _ |- _ => apply set_aggregates_txn_bumped in E
  end.

Lemma h_rp_create_pmono d v u name parent d' rs : h_rp_create d v u name parent = (d', rs) -> pmono d d'.
Proof.
  unfold h_rp_create. intros H. hbreak H; inv H.
  all: apply pstep_pmono; eapply rp_create_spec; eassumption.
Qed.
Lemma h_rp_update_pmono d v u name parent d' rs : h_rp_update d v u name parent = (d', rs) -> pmono d d'.
Proof.
  unfold h_rp_update. intros H. hbreak H; inv H.
  all: match goal with E : rp_update _ _ _ _ _ = Ok _ |- _ => apply rp_update_spec in E; destruct E as (A & B & C) end.
  all: apply pstep_pmono, pstep_gens; auto; intros x; apply ole_eq; auto.
Qed.
Lemma h_rp_delete_pmono d u d' rs : h_rp_delete d u = (d', rs) -> pmono d d'.
Proof.
  unfold h_rp_delete. intros H. hbreak H; inv H. eapply rp_delete_pmono; eassumption.
Qed.
Lemma h_inv_set_pmono d v u g l d' rs : h_inv_set d v u g l = (d', rs) -> pmono d d'.
Proof. unfold h_inv_set. intros H. hbreak H; inv H. use_bumped. eapply pstep_pmono, bumped_pstep; eassumption. Qed.
Lemma h_inv_post_pmono d v u x d' rs : h_inv_post d v u x = (d', rs) -> pmono d d'.
Proof. unfold h_inv_post. intros H. hbreak H; inv H. use_bumped. eapply pstep_pmono, bumped_pstep; eassumption. Qed.
Lemma h_inv_put_pmono d v u g x d' rs : h_inv_put d v u g x = (d', rs) -> pmono d d'.
Proof. unfold h_inv_put. intros H. hbreak H; inv H. use_bumped. eapply pstep_pmono, bumped_pstep; eassumption. Qed.
Lemma h_inv_delete_pmono d u rc d' rs : h_inv_delete d u rc = (d', rs) -> pmono d d'.
Proof. unfold h_inv_delete. intros H. hbreak H; inv H. use_bumped. eapply pstep_pmono, bumped_pstep; eassumption. Qed.
Lemma h_inv_delete_all_pmono d v u d' rs : h_inv_delete_all d v u = (d', rs) -> pmono d d'.
Proof. unfold h_inv_delete_all. intros H. hbreak H; inv H. use_bumped. eapply pstep_pmono, bumped_pstep; eassumption. Qed.
Lemma h_traits_set_pmono d v u g ts d' rs : h_traits_set d v u g ts = (d', rs) -> pmono d d'.
Proof.
  unfold h_traits_set. intros H. hbreak H; inv H.
  all: match goal with E : set_traits_txn _ _ _ _ = Ok _ |- _ => apply set_traits_txn_bumped in E; destruct E as [->|E] end.
  all: try apply pmono_refl. all: eapply pstep_pmono, bumped_pstep; eassumption.
Qed.
Lemma h_traits_delete_pmono d v u d' rs : h_traits_delete d v u = (d', rs) -> pmono d d'.
Proof.
  unfold h_traits_delete. intros H. hbreak H; inv H.
  all: match goal with E : set_traits_txn _ _ _ _ = Ok _ |- _ => apply set_traits_txn_bumped in E; destruct E as [->|E] end.
  all: try apply pmono_refl. all: eapply pstep_pmono, bumped_pstep; eassumption.
Qed.

Lemma set_aggregates_txn_false d u g want d' : set_aggregates_txn d u g want false = Ok d' -> psame d d'.
Proof. unfold set_aggregates_txn. cbv zeta. intros [= <-]. repeat split. Qed.

Lemma h_aggs_set_pmono d v u g l d' rs : h_aggs_set d v u g l = (d', rs) -> pmono d d'.
Proof.
  unfold h_aggs_set. intros H. hbreak H; inv H.
  all: try (use_bumped; eapply pstep_pmono, bumped_pstep; eassumption).
  all: match goal with E : set_aggregates_txn _ _ _ _ false = Ok _ |- _ => apply set_aggregates_txn_false in E end.
  all: apply pstep_pmono, psame_pstep; assumption.
Qed.
Lemma h_alloc_delete_pmono d c d' rs : h_alloc_delete d c = (d', rs) -> pmono d d'.
Proof.
  unfold h_alloc_delete. intros H. hbreak H; inv H. apply pstep_pmono, psame_pstep. repeat split.
Qed.
Ltac txn_same := intros H; repeat bmH H; inv H; repeat split.
Lemma rc_create_psame d n d' : rc_create d n = Ok d' -> psame d d'.
Proof. unfold rc_create. txn_same. Qed.
Lemma rc_destroy_psame d n d' : rc_destroy d n = Ok d' -> psame d d'.
Proof. unfold rc_destroy. txn_same. Qed.
Lemma rc_rename_psame d o n d' : rc_rename d o n = Ok d' -> psame d d'.
Proof. unfold rc_rename. txn_same. Qed.
Lemma trait_create_psame d n d' : trait_create d n = Ok d' -> psame d d'.
Proof. unfold trait_create. txn_same. Qed.
Lemma trait_destroy_psame d n d' : trait_destroy d n = Ok d' -> psame d d'.
Proof. unfold trait_destroy. txn_same. Qed.
Ltac same_tail H := hbreak H; inv H; apply pstep_pmono, psame_pstep;
  eauto using rc_create_psame, rc_destroy_psame, rc_rename_psame, trait_create_psame, trait_destroy_psame.
Lemma h_rc_create_pmono d v n d' rs : h_rc_create d v n = (d', rs) -> pmono d d'.
Proof. unfold h_rc_create. intros H. same_tail H. Qed.
Lemma h_rc_put_pmono d v n d' rs : h_rc_put d v n = (d', rs) -> pmono d d'.
Proof. unfold h_rc_put. intros H. same_tail H. Qed.
Lemma h_rc_rename_pmono d v o n d' rs : h_rc_rename d v o n = (d', rs) -> pmono d d'.
Proof. unfold h_rc_rename, h_rc_put. intros H. same_tail H. Qed.
Lemma h_rc_delete_pmono d v n d' rs : h_rc_delete d v n = (d', rs) -> pmono d d'.
Proof. unfold h_rc_delete. intros H. same_tail H. Qed.
Lemma h_trait_put_pmono d v n d' rs : h_trait_put d v n = (d', rs) -> pmono d d'.
Proof. unfold h_trait_put. intros H. same_tail H. Qed.
Lemma h_trait_delete_pmono d v n d' rs : h_trait_delete d v n = (d', rs) -> pmono d d'.
Proof. unfold h_trait_delete. intros H. same_tail H. Qed.

(* ------------------------------------------------------------------ aggregates (1.19+) *)
Lemma c10_aggregate_change_increments :
  forall cf d v u0 g0 l d' rs u g g', 19 <= v -> step cf d (AggsSet v u0 g0 l) = (d', rs) ->
    gen_of d u = Some g -> gen_of d' u = Some g' -> rp_aggs_of d u <> rp_aggs_of d' u -> g < g'.
Proof.
  intros cf d v u0 g0 l d' rs u g g' Hv H Hg Hg' N. cbn [step] in H. unfold h_aggs_set in H.
  assert (E19 : (19 <=? v) = true) by (apply Z.leb_le; assumption). rewrite E19 in H.
  repeat (bmH H); try (inv H; exfalso; apply N; reflexivity). inv H.
  use_bumped. match goal with E : bumped _ _ _ _ |- _ => apply bumped_spec in E; destruct E as (H1 & H2 & H3 & _ & _ & _ & _ & H4) end.
  destruct (Z.eq_dec u u0) as [->|Hu].
  - rewrite H1 in Hg. rewrite H2 in Hg'. inv Hg. inv Hg'. lia.
  - exfalso. apply N. symmetry. apply H4. assumption.
Qed.

(* ------------------------------------------------------------------ the reported generation *)
Lemma c10_response_generation :
  forall cf d r d' rs u, Forest d -> step cf d r = (d', rs) -> is_success rs -> 0 <= rgen rs ->
    gen_target r = Some u -> gen_of d' u = Some (rgen rs).
Proof.
  intros cf d r d' rs u _ H S R T. unfold is_success in S.
  destruct r; cbn in T; try discriminate; injection T as ->; cbn [step] in H.
  - unfold h_rp_create in H. repeat bmH H; inv H; cbn in S, R; try lia.
    eapply rp_create_spec; eassumption.
  - unfold h_rp_update in H. repeat bmH H; inv H; cbn in S, R; try lia.
    all: match goal with E : rp_update _ _ _ _ _ = Ok _ |- _ => apply rp_update_spec in E; destruct E as (_ & _ & C) end.
    all: cbn; rewrite C; unfold gen_of;
      match goal with E : find_rp _ _ = Some _ |- _ => rewrite E end; reflexivity.
  - unfold h_inv_set in H. repeat bmH H; inv H; cbn in S, R; try lia.
    use_bumped. match goal with E : bumped _ _ _ _ |- _ => apply bumped_spec in E; destruct E as (_ & E & _); exact E end.
  - unfold h_inv_post in H. repeat bmH H; inv H; cbn in S, R; try lia.
    use_bumped. match goal with E : bumped _ _ _ _ |- _ => apply bumped_spec in E; destruct E as (_ & E & _); exact E end.
  - unfold h_inv_put in H. repeat bmH H; inv H; cbn in S, R; try lia.
    use_bumped. match goal with E : bumped _ _ _ _ |- _ => apply bumped_spec in E; destruct E as (_ & E & _); exact E end.
  - unfold h_traits_set in H. repeat bmH H; inv H; cbn in S, R; try lia.
    cbn. unfold gen_of. match goal with E : find_rp _ _ = Some _ |- _ => rewrite E end. reflexivity.
  - unfold h_aggs_set in H. repeat bmH H; inv H; cbn in S, R; try lia.
    use_bumped. match goal with E : bumped _ _ _ _ |- _ => apply bumped_spec in E; destruct E as (_ & E & _); exact E end.
Qed.

(* ------------------------------------------------------------------ consumer-side relations *)
Definition cle_l (l l' : list consumer) : Prop := forall c, ole (cgl l c) (cgl l' c).
Definition csub_l (l l' : list consumer) : Prop := forall c g, cgl l' c = Some g -> cgl l c = Some g.

Lemma cle_l_refl l : cle_l l l.
Proof. intros c. apply ole_refl. Qed.
Lemma csub_l_refl l : csub_l l l.
Proof. intros c g H. exact H. Qed.
Lemma csub_l_trans l1 l2 l3 : csub_l l1 l2 -> csub_l l2 l3 -> csub_l l1 l3.
Proof. intros H1 H2 c g H. auto. Qed.
Lemma csub_filter (p : Z -> bool) l : csub_l l (filter (fun r => p (c_uuid r)) l).
Proof. intros c g H. rewrite cgl_filter in H. destruct (p c); [assumption|discriminate]. Qed.

(* everything the provider-side and wipe_list reasoning looks at, except the provider rows' generations *)
Definition dsame (d d' : db) : Prop :=
  rps d' = rps d /\ invs d' = invs d /\ allocs d' = allocs d /\ rp_traits d' = rp_traits d.
Lemma dsame_refl d : dsame d d.
Proof. repeat split. Qed.
Lemma dsame_trans d1 d2 d3 : dsame d1 d2 -> dsame d2 d3 -> dsame d1 d3.
Proof. intros (A & B & C & D) (A' & B' & C' & D'). repeat split; congruence. Qed.
Lemma dsame_psame d d' : dsame d d' -> psame d d'.
Proof. intros (A & B & C & D). repeat split; assumption. Qed.

(* ------------------------------------------------------------------ generation CAS loops *)
Lemma cas_rps_spec : forall l d d', cas_rps d l = Ok d' ->
  invs d' = invs d /\ allocs d' = allocs d /\ consumers d' = consumers d /\ rp_traits d' = rp_traits d /\
  (forall u, ole (gen_of d u) (gen_of d' u)) /\
  (forall u, In u (map fst l) -> olt (gen_of d u) (gen_of d' u)).
Proof.
  induction l as [|[u g] l IH]; intros d d' H; cbn in H.
  - injection H as <-. repeat split; auto using ole_refl. intros u [].
  - destruct (incr_rp_gen d u g) as [d1|] eqn:E; [|discriminate]. cbn [bind] in H.
    apply incr_rp_gen_inv in E. destruct E as (l' & E & ->). apply cas_rp_l_spec in E. destruct E as (E1 & E2 & E3).
    destruct (IH _ _ H) as (A & B & C & D & F & G). cbn in A, B, C, D.
    assert (L : olt (gen_of d u) (gen_of (set_rps d l') u)).
    { intros g0 Hg. rewrite gen_of_gl in *. cbn. rewrite E1 in Hg. inv Hg. exists (g0 + 1). split; [assumption|lia]. }
    assert (L' : forall x, ole (gen_of d x) (gen_of (set_rps d l') x)).
    { intros x. destruct (Z.eq_dec x u) as [->|Hx]; [apply olt_ole, L|]. apply ole_eq. rewrite !gen_of_gl; cbn. auto. }
    repeat split; auto.
    + intros x. eapply ole_trans; [apply L'|apply F].
    + intros x [<-|Hx]; cbn.
      * eapply olt_ole_trans; [apply L|apply F].
      * eapply ole_olt_trans; [apply L'|apply G; assumption].
Qed.

Lemma cas_conss_spec : forall l d d', cas_conss d l = Ok d' ->
  dsame d d' /\ cle_l (consumers d) (consumers d') /\
  (forall c, In c (map fst l) -> olt (cgl (consumers d) c) (cgl (consumers d') c)).
Proof.
  induction l as [|[u g] l IH]; intros d d' H; cbn in H.
  - injection H as <-. repeat split; auto using cle_l_refl. intros u [].
  - destruct (incr_cons_gen d u g) as [d1|] eqn:E; [|discriminate]. cbn [bind] in H.
    apply incr_cons_gen_inv in E. destruct E as (l' & E & ->). apply cas_cons_l_spec in E. destruct E as (E1 & E2 & E3).
    destruct (IH _ _ H) as ((A & B & C & D) & F & G). cbn in A, B, C, D, F, G.
    assert (L : olt (cgl (consumers d) u) (cgl l' u)).
    { intros g0 Hg. rewrite E1 in Hg. inv Hg. exists (g0 + 1). split; [assumption|lia]. }
    assert (L' : forall x, ole (cgl (consumers d) x) (cgl l' x)).
    { intros x. destruct (Z.eq_dec x u) as [->|Hx]; [apply olt_ole, L|]. apply ole_eq. auto. }
    split; [repeat split; assumption|]. split.
    + intros x. eapply ole_trans; [apply L'|apply F].
    + intros x [<-|Hx]; cbn.
      * eapply olt_ole_trans; [apply L|apply F].
      * eapply ole_olt_trans; [apply L'|apply G; assumption].
Qed.

Lemma first_by_In : forall l seen u, In u (map fst l) -> memZ u seen = false -> In u (map fst (first_by seen l)).
Proof.
  induction l as [|[k g] l IH]; intros seen u Hin Hs; cbn in *; [assumption|].
  destruct (memZ k seen) eqn:M.
  - destruct Hin as [<-|Hin]; [congruence|]. apply IH; assumption.
  - cbn. destruct (Z.eq_dec k u) as [->|Hk]; [left; reflexivity|]. right.
    destruct Hin as [Hin|Hin]; [congruence|]. apply IH; [assumption|].
    assert (E : (u =? k) = false) by (apply Z.eqb_neq; congruence).
    unfold memZ in *. cbn [existsb]. rewrite E, Hs. reflexivity.
Qed.

(* ------------------------------------------------------------------ what the allocation handlers need of the write transaction *)
Definition txn_ok (txn : db -> list areq -> result db) : Prop := forall d objs d2, txn d objs = Ok d2 ->
  pstep d d2 /\ (forall u, In u (map q_rp objs) -> olt (gen_of d u) (gen_of d2 u)) /\
  exists lm, cle_l (consumers d) lm /\
             (forall c, In c (map q_cons objs) -> olt (cgl (consumers d) c) (cgl lm c)) /\
             csub_l lm (consumers d2).

Lemma set_allocations_ok : txn_ok set_allocations.
Proof.
  intros d l d' H. unfold set_allocations in H. cbv zeta in H.
  destruct (check_capacity _ l) as [[]|]; [|discriminate]. cbn [bind] in H.
  destruct (cas_rps _ _) as [d3|] eqn:E3; [|discriminate]. cbn [bind] in H.
  destruct (cas_conss _ _) as [d4|] eqn:E4; [|discriminate]. cbn [bind] in H.
  injection H as <-.
  apply cas_rps_spec in E3. destruct E3 as (A3 & B3 & C3 & D3 & F3 & G3). cbn in A3, B3, C3, D3.
  apply cas_conss_spec in E4. destruct E4 as ((A4 & B4 & C4 & D4) & F4 & G4).
  assert (GE : forall u, gen_of d4 u = gen_of d3 u) by (intros u; unfold gen_of, find_rp; rewrite A4; reflexivity).
  split; [|split].
  - apply pstep_gens; cbn; [congruence|congruence|].
    intros u. apply ole_trans with (gen_of d3 u); [exact (F3 u)|apply ole_eq; rewrite <- GE; reflexivity].
  - intros u Hu. apply olt_ole_trans with (gen_of d3 u); [|apply ole_eq; rewrite <- GE; reflexivity].
    refine (G3 u _).
    apply first_by_In; [|reflexivity]. rewrite map_map. cbn. assumption.
  - exists (consumers d4). rewrite C3 in F4, G4. cbn in F4, G4. split; [assumption|]. split.
    + intros c Hc. apply G4. apply first_by_In; [|reflexivity]. rewrite map_map. cbn. assumption.
    + unfold delete_consumers_if_no_allocations. cbn [consumers set_consumers].
      match goal with |- csub_l _ (filter ?f _) =>
        match f with (fun c => negb (memZ _ ?cs && negb (existsb _ ?al))) =>
          apply (csub_filter (fun z => negb (memZ z cs && negb (existsb (fun a => a_cons a =? z) al)))) end end.
Qed.

(* ------------------------------------------------------------------ reshaper transaction *)
Lemma reshape_interim_spec : forall l d d1 gens, reshape_interim d l = Ok (d1, gens) ->
  pstep d d1 /\ consumers d1 = consumers d.
Proof.
  induction l as [|r l IH]; intros d d1 gens H; cbn in H.
  - inv H. split; [apply pstep_refl|reflexivity].
  - destruct (ri_invs r).
    + destruct (reshape_interim d l) as [[d2 g2]|] eqn:E; [|discriminate]. cbn in H. inv H. eapply IH; eauto.
    + destruct (set_inventory d (ri_rp r) (ri_gen r) _) as [d2|] eqn:E1; [|discriminate]. cbn [bind] in H.
      destruct (reshape_interim d2 l) as [[d3 g3]|] eqn:E; [|discriminate]. cbn in H. inv H.
      apply set_inventory_bumped in E1. destruct (IH _ _ _ E) as [P C]. split.
      * eapply pstep_trans; [eapply bumped_pstep; eauto|assumption].
      * apply bumped_spec in E1. destruct E1 as (_ & _ & _ & _ & E1 & _). congruence.
Qed.

Lemma reshape_final_spec : forall l gens d d', reshape_final d l gens = Ok d' ->
  pstep d d' /\ consumers d' = consumers d.
Proof.
  induction l as [|r l IH]; intros gens d d' H; cbn in H.
  - inv H. split; [apply pstep_refl|reflexivity].
  - destruct gens as [|[u g] gens]; [inv H; split; [apply pstep_refl|reflexivity]|].
    destruct (set_inventory d (ri_rp r) g (ri_invs r)) as [d2|] eqn:E1; [|discriminate]. cbn [bind] in H.
    apply set_inventory_bumped in E1. destruct (IH _ _ _ H) as [P C]. split.
    + eapply pstep_trans; [eapply bumped_pstep; eauto|assumption].
    + apply bumped_spec in E1. destruct E1 as (_ & _ & _ & _ & E1 & _). congruence.
Qed.

Lemma pstep_ole d d' u : pstep d d' -> ole (gen_of d u) (gen_of d' u).
Proof. intros H. apply (H u). Qed.

Lemma reshape_txn_ok ri : txn_ok (fun d objs => reshape_txn d ri objs).
Proof.
  intros d objs d' H. unfold reshape_txn in H.
  destruct (reshape_interim d ri) as [[d1 gens]|] eqn:E1; cbn [bind] in H; [|discriminate].
  destruct (set_allocations d1 _) as [d2|] eqn:E2; cbn [bind] in H; [|discriminate].
  apply reshape_interim_spec in E1. destruct E1 as [P1 C1].
  apply reshape_final_spec in H. destruct H as [P3 C3].
  apply set_allocations_ok in E2. destruct E2 as (P2 & G2 & lm & L1 & L2 & L3).
  split; [|split].
  - eapply pstep_trans; [exact P1|]. eapply pstep_trans; [exact P2|exact P3].
  - intros u Hu. eapply ole_olt_trans; [apply pstep_ole; exact P1|].
    eapply olt_ole_trans; [|apply pstep_ole; exact P3]. apply G2.
    rewrite map_map. rewrite <- (map_ext q_rp); [exact Hu|]. intros a. destruct (lookup_gen gens (q_rp a)); reflexivity.
  - exists lm. rewrite C3. rewrite C1 in L1, L2. split; [assumption|]. split; [|assumption].
    intros c Hc. apply L2.
    rewrite map_map. rewrite <- (map_ext q_cons); [exact Hc|]. intros a. destruct (lookup_gen gens (q_rp a)); reflexivity.
Qed.

(* ------------------------------------------------------------------ consumers created / removed by a request *)
Definition created_in (ks : list cobj) (c : Z) : Prop := exists k, In k ks /\ co_created k = true /\ co_uuid k = c.

Lemma created_memZ ks c : memZ c (map co_uuid (filter co_created ks)) = true <-> created_in ks c.
Proof.
  rewrite memZ_In, in_map_iff. split.
  - intros (k & E & Hk). apply filter_In in Hk. destruct Hk. exists k; auto.
  - intros (k & A & B & C). exists k. split; auto. apply filter_In; auto.
Qed.

Lemma delete_created_spec d ks :
  dsame d (delete_created d ks) /\
  forall c, cgl (consumers (delete_created d ks)) c =
            if memZ c (map co_uuid (filter co_created ks)) then None else cgl (consumers d) c.
Proof.
  split; [repeat split|]. intros c. unfold delete_created; cbn.
  pose proof (cgl_filter (fun z => negb (memZ z (map co_uuid (filter co_created ks)))) (consumers d) c) as G.
  cbv beta in G. rewrite G. destruct (memZ _ _); reflexivity.
Qed.
Lemma delete_created_csub d ks : csub_l (consumers d) (consumers (delete_created d ks)).
Proof.
  intros c g H. rewrite (proj2 (delete_created_spec d ks)) in H. destruct (memZ _ _); [discriminate|assumption].
Qed.

Lemma ensure_spec cf v d c d1 o : ensure_consumer cf v d c = (d1, o) ->
  dsame d d1 /\
  ( (consumers d1 = consumers d /\ forall k, o = Some k -> co_created k = false /\ co_uuid k = ci_uuid c)
    \/ (exists k n, o = Some k /\ co_created k = true /\ co_uuid k = ci_uuid c /\
                    cgl (consumers d) (ci_uuid c) = None /\ consumers d1 = consumers d ++ [n] /\ c_uuid n = ci_uuid c)).
Proof.
  unfold ensure_consumer. cbv zeta. unfold find_cons. cbn [consumers set_users set_projects].
  intros H. destruct (38 <=? v); destruct (find_cons_l (consumers d) (ci_uuid c)) as [k0|] eqn:F.
  1,3: apply find_cons_l_uuid in F; destruct F as [F _];
    repeat bmH H; inv H; (split; [repeat split|]); left; (split; [reflexivity|]); intros k E; inv E; cbn; auto.
  all: assert (N : cgl (consumers d) (ci_uuid c) = None) by (unfold cgl; rewrite F; reflexivity).
  all: repeat bmH H; inv H; (split; [repeat split|]).
  all: try (left; split; [reflexivity|intros k E; discriminate]).
  all: right; eexists; eexists; cbn; repeat split; auto.
Qed.

Definition Jinv (d0 d : db) (acc : list cobj) : Prop :=
  dsame d0 d /\
  (forall c, ~ created_in acc c -> cgl (consumers d) c = cgl (consumers d0) c) /\
  (forall c, created_in acc c -> cgl (consumers d0) c = None).

Lemma created_dec ks c : created_in ks c \/ ~ created_in ks c.
Proof.
  destruct (memZ c (map co_uuid (filter co_created ks))) eqn:M.
  - left; apply created_memZ; auto.
  - right; intros H; apply created_memZ in H; congruence.
Qed.

Lemma Jinv_init d : Jinv d d [].
Proof. split; [apply dsame_refl|]. split; [reflexivity|]. intros c (k & [] & _). Qed.

Lemma Jinv_step cf v d0 d acc c d1 o : Jinv d0 d acc -> ensure_consumer cf v d c = (d1, o) ->
  match o with Some k => Jinv d0 d1 (k :: acc) /\ co_uuid k = ci_uuid c | None => Jinv d0 d1 acc end.
Proof.
  intros (S & A & B) H. apply ensure_spec in H.
  destruct H as (S1 & [(C & K)|(k & n & -> & K1 & K2 & N & C & U)]).
  - assert (J : Jinv d0 d1 acc). { split; [eapply dsame_trans; eauto|]. rewrite C. split; assumption. }
    destruct o as [k|]; [|exact J]. destruct (K k eq_refl) as [K1 K2]. split; [|assumption].
    assert (Q : forall x, created_in (k :: acc) x <-> created_in acc x).
    { intros x. split.
      - intros (k' & [<-|I] & P1 & P2); [congruence|]. exists k'; auto.
      - intros (k' & I & P1 & P2). exists k'. split; [right|]; auto. }
    destruct J as (S' & A' & B'). split; [assumption|]. split; intros x Hx.
    + apply A'. rewrite <- Q. assumption.
    + apply B', Q. assumption.
  - split; [|assumption]. split; [eapply dsame_trans; eauto|].
    assert (Q : forall x, created_in (k :: acc) x <-> x = ci_uuid c \/ created_in acc x).
    { intros x. split.
      - intros (k' & [<-|I] & P1 & P2); [left; congruence|]. right. exists k'; auto.
      - intros [->|(k' & I & P1 & P2)]; [exists k; split; [left|]; auto|]. exists k'. split; [right|]; auto. }
    split.
    + intros x Hx. rewrite Q in Hx. rewrite C, cgl_app1.
      assert (E : (c_uuid n =? x) = false) by (apply Z.eqb_neq; intros X; apply Hx; left; congruence).
      rewrite E. rewrite <- (A x) by tauto. destruct (cgl (consumers d) x); reflexivity.
    + intros x Hx. apply Q in Hx. destruct Hx as [->|Hx]; [|apply B; assumption].
      destruct (created_dec acc (ci_uuid c)) as [Y|Y]; [apply B; assumption|]. rewrite <- (A _ Y). exact N.
Qed.

Lemma Jinv_rev d0 d acc : Jinv d0 d acc -> Jinv d0 d (rev acc).
Proof.
  assert (Q : forall x, created_in (rev acc) x <-> created_in acc x).
  { intros x. split; intros (k & I & P); exists k; (split; [|assumption]); [apply in_rev|apply in_rev in I]; assumption. }
  intros (S & A & B). split; [assumption|]. split; intros x Hx.
  - apply A. rewrite <- Q. assumption.
  - apply B, Q. assumption.
Qed.

Lemma Jinv_delete d0 d ks : Jinv d0 d ks ->
  dsame d0 (delete_created d ks) /\ forall c, cgl (consumers (delete_created d ks)) c = cgl (consumers d0) c.
Proof.
  intros (S & A & B). destruct (delete_created_spec d ks) as [S' E]. split; [eapply dsame_trans; eauto|].
  intros c. rewrite E. destruct (memZ _ _) eqn:M.
  - apply created_memZ in M. symmetry. apply B. assumption.
  - apply A. intros Y. apply created_memZ in Y. congruence.
Qed.

Lemma Jinv_pres d0 d ks c g : Jinv d0 d ks -> cgl (consumers d0) c = Some g -> cgl (consumers d) c = Some g.
Proof.
  intros (S & A & B) H. destruct (created_dec ks c) as [Y|Y]; [rewrite (B c Y) in H; discriminate|].
  rewrite (A c Y). assumption.
Qed.

Lemma inspect_spec cf v : forall l d0 d acc d1 o, Jinv d0 d acc -> inspect_consumers cf v d acc l = (d1, o) ->
  match o with
  | None => dsame d0 d1 /\ forall c, cgl (consumers d1) c = cgl (consumers d0) c
  | Some ks => Jinv d0 d1 ks /\ exists ks', ks = rev acc ++ ks' /\ Forall2 (fun k c => co_uuid k = ci_uuid c) ks' l
  end.
Proof.
  induction l as [|c l IH]; intros d0 d acc d1 o J H; cbn in H.
  - inv H. split; [apply Jinv_rev; assumption|]. exists []. split; [symmetry; apply app_nil_r|constructor].
  - destruct (ensure_consumer cf v d c) as [d2 [k|]] eqn:E.
    + pose proof (Jinv_step _ _ _ _ _ _ _ _ J E) as [J' U]. specialize (IH _ _ _ _ _ J' H).
      destruct o as [ks|]; [|assumption]. destruct IH as (J2 & ks' & -> & F). split; [assumption|].
      exists (k :: ks'). split; [cbn; rewrite <- app_assoc; reflexivity|]. constructor; assumption.
    + inv H. pose proof (Jinv_step _ _ _ _ _ _ _ _ J E) as J'. cbn in J'. apply Jinv_delete. assumption.
Qed.

Lemma update_consumer_spec d k :
  dsame d (update_consumer d k) /\ forall c, cgl (consumers (update_consumer d k)) c = cgl (consumers d) c.
Proof.
  unfold update_consumer. destruct (_ || _); [|split; [apply dsame_refl|reflexivity]].
  split; [repeat split|]. intros c. unfold consumer_update; cbn. apply cgl_map.
  - intros r. destruct ((c_uuid r =? co_uuid k) && (c_gen r =? co_gen k)) eqn:E; [|reflexivity].
    apply andb_true_iff in E. destruct E as [E _]. zb. cbn. congruence.
  - intros r. destruct ((c_uuid r =? co_uuid k) && (c_gen r =? co_gen k)); reflexivity.
Qed.
Lemma fold_update_spec : forall ks d,
  dsame d (fold_left update_consumer ks d) /\ forall c, cgl (consumers (fold_left update_consumer ks d)) c = cgl (consumers d) c.
Proof.
  induction ks as [|k ks IH]; intros d; cbn; [split; [apply dsame_refl|reflexivity]|].
  destruct (IH (update_consumer d k)) as [S E]. destruct (update_consumer_spec d k) as [S' E'].
  split; [eapply dsame_trans; eauto|]. intros c. rewrite E. apply E'.
Qed.

(* ------------------------------------------------------------------ the allocation objects of a request *)
Lemma new_allocs_In d k : forall l objs a, new_allocs d k l = Some objs -> In a l -> ai_res a <> [] ->
  exists q, In q objs /\ q_rp q = ai_rp a /\ q_cons q = co_uuid k.
Proof.
  induction l as [|a0 l IH]; intros objs a H Hin Hne; [destruct Hin|]. cbn in H.
  destruct (find_rp d (ai_rp a0)) as [r|]; [|discriminate].
  destruct (new_allocs d k l) as [rest|] eqn:E; [|discriminate]. injection H as <-.
  destruct Hin as [->|Hin].
  - destruct (ai_res a) as [|x xs]; [congruence|]. eexists. split; [apply in_or_app; left; cbn; left; reflexivity|]. cbn. auto.
  - destruct (IH _ _ eq_refl Hin Hne) as (q & Q1 & Q2). exists q. split; [apply in_or_app; right; assumption|assumption].
Qed.

Definition res_nonempty (l : list cons_in) : Prop :=
  forall ci a, In ci l -> In a (ci_allocs ci) -> ai_res a <> [].

Lemma alloc_list_placed d : forall ks l objs u rc amt,
  Forall2 (fun k c => co_uuid k = ci_uuid c) ks l -> alloc_list d ks l = Some objs ->
  placed_in l u rc amt -> In u (map q_rp objs).
Proof.
  intros ks l objs u rc amt F. revert objs. induction F as [|k ci ks l U F IH]; intros objs H (c & a & Hc & Ha & Hu & Hr).
  - destruct Hc.
  - cbn in H. destruct (alloc_objs d k (ci_allocs ci)) as [o1|] eqn:E1; [|discriminate].
    destruct (alloc_list d ks l) as [o2|] eqn:E2; [|discriminate]. injection H as <-.
    rewrite map_app. apply in_or_app. destruct Hc as [->|Hc].
    + left. assert (E : new_allocs d k (ci_allocs c) = Some o1).
      { unfold alloc_objs in E1. destruct (ci_allocs c); [destruct Ha|exact E1]. }
      destruct (new_allocs_In _ _ _ _ _ E Ha) as (q & Q1 & Q2 & _).
      { intros N. rewrite N in Hr. destruct Hr. }
      apply in_map_iff. exists q. split; [congruence|assumption].
    + right. apply (IH _ eq_refl). exists c, a. auto.
Qed.

Lemma alloc_list_named d : forall ks l objs c,
  Forall2 (fun k c => co_uuid k = ci_uuid c) ks l -> alloc_list d ks l = Some objs ->
  In c (map ci_uuid l) -> res_nonempty l -> (exists q, In q (wipe_list d c) /\ q_cons q = c) ->
  In c (map q_cons objs).
Proof.
  intros ks l objs c F. revert objs. induction F as [|k ci ks l U F IH]; intros objs H Hc Hne Hw.
  - destruct Hc.
  - cbn in H. destruct (alloc_objs d k (ci_allocs ci)) as [o1|] eqn:E1; [|discriminate].
    destruct (alloc_list d ks l) as [o2|] eqn:E2; [|discriminate]. injection H as <-.
    rewrite map_app. apply in_or_app. destruct Hc as [Hc|Hc].
    + left. unfold alloc_objs in E1. destruct (ci_allocs ci) as [|a0 al] eqn:EA.
      * injection E1 as <-. destruct Hw as (q & Q1 & Q2). apply in_map_iff. exists q. split; [assumption|].
        rewrite U, Hc. assumption.
      * destruct (new_allocs_In _ _ _ _ a0 E1 (or_introl eq_refl)) as (q & Q1 & _ & Q2).
        { apply (Hne ci); [left; reflexivity|rewrite EA; left; reflexivity]. }
        apply in_map_iff. exists q. split; [congruence|assumption].
    + right. apply (IH _ eq_refl Hc); [|assumption]. intros ci' a Hi. apply Hne. right. assumption.
Qed.

Lemma wipe_nonempty d c :
  (exists k, find_cons d c = Some k) ->
  (exists a, In a (allocs d) /\ a_cons a = c /\ exists r, find_rp d (a_rp a) = Some r) ->
  exists q, In q (wipe_list d c) /\ q_cons q = c.
Proof.
  intros (k & K) (a & A1 & A2 & r & A3). unfold wipe_list. rewrite K.
  eexists. split.
  - apply in_flat_map. exists a. split; [assumption|]. rewrite A2, Z.eqb_refl, A3. left. reflexivity.
  - reflexivity.
Qed.

(* ------------------------------------------------------------------ the common shape of the three allocation handlers *)
Definition alloc_core (cf : cfg) (v : Z) (d : db) (l : list cons_in)
           (txn : db -> list areq -> result db) (errf : exn -> resp) : db * resp :=
  match inspect_consumers cf v d [] l with
  | (d1, None) => (d1, err 409 C_CONCURRENT)
  | (d1, Some ks) =>
      match alloc_list d1 ks l with
      | None => (delete_created d1 ks, err 400 C_DEFAULT)
      | Some objs =>
          match txn (fold_left update_consumer ks d1) objs with
          | Ok d2 => (delete_created d2 (empty_created ks l), ok 204)
          | Err e => (delete_created d1 ks, errf e)
          end
      end
  end.

Lemma delete_created_nil d : delete_created d [] = d.
Proof.
  destruct d. unfold delete_created, set_consumers; cbn. f_equal. apply filter_all. reflexivity.
Qed.

Lemma h_alloc_put_core cf d v c : h_alloc_put cf d v c = alloc_core cf v d [c] set_allocations alloc_err.
Proof.
  unfold h_alloc_put, alloc_core. cbn [inspect_consumers].
  destruct (ensure_consumer cf v d c) as [d1 [k|]]; cbn.
  - destruct (alloc_objs d1 k (ci_allocs c)) as [objs|]; [|reflexivity]. rewrite app_nil_r. reflexivity.
  - rewrite delete_created_nil. reflexivity.
Qed.

Lemma core_main cf v d l txn errf d' rs :
  txn_ok txn -> (forall e, is_error (errf e)) -> alloc_core cf v d l txn errf = (d', rs) ->
  (is_error rs /\ dsame d d' /\ forall c, cgl (consumers d') c = cgl (consumers d) c) \/
  (rs = ok 204 /\ pstep d d' /\
   (forall u rc amt, placed_in l u rc amt -> olt (gen_of d u) (gen_of d' u)) /\
   (forall c g g', cgl (consumers d) c = Some g -> cgl (consumers d') c = Some g' ->
      g <= g' /\ (In c (map ci_uuid l) -> res_nonempty l -> ConsIff d -> RI d -> g < g'))).
Proof.
  intros OK ERR H. unfold alloc_core in H.
  destruct (inspect_consumers cf v d [] l) as [d1 [ks|]] eqn:EI.
  2:{ inv H. left. apply (inspect_spec _ _ _ _ _ _ _ _ (Jinv_init d)) in EI. destruct EI as [S E].
      split; [unfold is_error; cbn; lia|]. split; assumption. }
  apply (inspect_spec _ _ _ _ _ _ _ _ (Jinv_init d)) in EI. destruct EI as (J & ks' & EK & F). cbn in EK. subst ks'.
  destruct (alloc_list d1 ks l) as [objs|] eqn:EA.
  2:{ inv H. left. apply Jinv_delete in J. destruct J as [S E].
      split; [unfold is_error; cbn; lia|]. split; assumption. }
  destruct (txn (fold_left update_consumer ks d1) objs) as [d2|e] eqn:ET.
  2:{ inv H. left. apply Jinv_delete in J. destruct J as [S E]. split; [apply ERR|]. split; assumption. }
  inv H. right. split; [reflexivity|].
  destruct (fold_update_spec ks d1) as [SA EA']. set (dA := fold_left update_consumer ks d1) in *.
  destruct (OK _ _ _ ET) as (P & G & lm & L1 & L2 & L3).
  destruct (delete_created_spec d2 (empty_created ks l)) as [SD _].
  pose proof (delete_created_csub d2 (empty_created ks l)) as CD.
  set (d' := delete_created d2 (empty_created ks l)) in *.
  destruct J as (S1 & JA & JB).
  assert (GA : forall u, gen_of dA u = gen_of d u).
  { intros u. rewrite (psame_gen d1 dA u (dsame_psame _ _ SA)). apply psame_gen, dsame_psame. assumption. }
  assert (GD : forall u, gen_of d' u = gen_of d2 u) by (intros u; apply psame_gen, dsame_psame; assumption).
  split; [|split].
  - eapply pstep_trans; [apply psame_pstep, dsame_psame; exact S1|].
    eapply pstep_trans; [apply psame_pstep, dsame_psame; exact SA|].
    eapply pstep_trans; [exact P|]. apply psame_pstep, dsame_psame; exact SD.
  - intros u rc amt PL. rewrite <- GA, GD. apply G. eapply alloc_list_placed; eauto.
  - intros c g g' Hg Hg'.
    assert (H1 : cgl (consumers dA) c = Some g).
    { rewrite EA'. apply (Jinv_pres d d1 ks); [|exact Hg]. split; [exact S1|]. split; assumption. }
    destruct (L1 c g H1) as (g1 & E1 & LE). apply CD in Hg'. apply L3 in Hg'. rewrite Hg' in E1. injection E1 as <-.
    split; [assumption|]. intros Hc Hne CI RId.
    assert (Hin : In c (map q_cons objs)).
    { eapply alloc_list_named; eauto. destruct S1 as (R1 & _ & R3 & _).
      apply wipe_nonempty.
      - unfold find_cons. rewrite EA' in H1. unfold cgl in H1. destruct (find_cons_l (consumers d1) c); [eauto|discriminate].
      - unfold cgl in Hg. destruct (find_cons_l (consumers d) c) as [k0|] eqn:FK; [|discriminate].
        apply find_cons_l_uuid in FK. destruct FK as [FK1 FK2].
        assert (HC : has_consumer d c) by (exists k0; auto).
        apply CI in HC. destruct HC as (a & A1 & A2). destruct RId as (RA & _). destruct (RA a A1) as ((r & Hr) & _).
        exists a. rewrite R3. split; [assumption|]. split; [assumption|]. exists r. unfold find_rp in *. rewrite R1. assumption. }
    destruct (L2 c Hin g H1) as (g2 & E2 & LT). rewrite Hg' in E2. injection E2 as <-. assumption.
Qed.

(* ------------------------------------------------------------------ allocation requests *)
Definition is_alloc_req (r : req) : Prop :=
  match r with AllocPut _ _ | AllocPost _ _ | Reshape _ _ _ => True | _ => False end.

Lemma alloc_err_is_error e : is_error (alloc_err e).
Proof. destruct e; unfold is_error; cbn; lia. Qed.
Lemma reshape_err_is_error e : is_error (reshape_err e).
Proof. destruct e; unfold is_error; cbn; lia. Qed.
Lemma reshape_precheck_err d : forall ri r, reshape_precheck d ri = Some r -> is_error r.
Proof.
  induction ri as [|x ri IH]; cbn; intros r H; [discriminate|].
  destruct (find_rp d (ri_rp x)); [|inv H; unfold is_error; cbn; lia].
  destruct (negb _); [inv H; unfold is_error; cbn; lia|auto].
Qed.

Lemma alloc_req_core cf d r d' rs : is_alloc_req r -> step cf d r = (d', rs) ->
  (d' = d /\ is_error rs) \/
  exists txn errf, txn_ok txn /\ (forall e, is_error (errf e)) /\
     alloc_core cf (req_version r) d (req_consumers r) txn errf = (d', rs).
Proof.
  destruct r; cbn [is_alloc_req]; try contradiction; intros _ H; cbn [step req_version req_consumers] in *.
  - right. rewrite h_alloc_put_core in H. exists set_allocations, alloc_err.
    auto using set_allocations_ok, alloc_err_is_error.
  - change (h_alloc_post cf d v l) with
      (if v <? 13 then (d, err 404 C_DEFAULT) else alloc_core cf v d l set_allocations alloc_err) in H.
    destruct (v <? 13).
    + left. inv H. split; [reflexivity|unfold is_error; cbn; lia].
    + right. exists set_allocations, alloc_err. auto using set_allocations_ok, alloc_err_is_error.
  - change (h_reshape cf d v ri al) with
      (if v <? 30 then (d, err 404 C_DEFAULT) else
       match reshape_precheck d ri with
       | Some r => (d, r)
       | None => alloc_core cf v d al (fun d objs => reshape_txn d ri objs) reshape_err
       end) in H.
    destruct (v <? 30).
    + left. inv H. split; [reflexivity|unfold is_error; cbn; lia].
    + destruct (reshape_precheck d ri) as [r|] eqn:E.
      * left. inv H. split; [reflexivity|]. eapply reshape_precheck_err; eassumption.
      * right. exists (fun d objs => reshape_txn d ri objs), reshape_err.
        auto using reshape_txn_ok, reshape_err_is_error.
Qed.

Lemma cons_in_wf_ne c : cons_in_wf c = true -> forall a, In a (ci_allocs c) -> ai_res a <> [].
Proof.
  unfold cons_in_wf. intros H a Ha. apply andb_true_iff in H. destruct H as [H _].
  rewrite forallb_forall in H. specialize (H a Ha). unfold alloc_in_wf in H.
  apply andb_true_iff in H. destruct H as [_ H]. destruct (ai_res a); [discriminate|congruence].
Qed.
Lemma cons_list_wf_ne l : cons_list_wf l = true -> res_nonempty l.
Proof.
  unfold cons_list_wf. intros H ci a Hc Ha. apply andb_true_iff in H. destruct H as [H _].
  rewrite forallb_forall in H. eapply cons_in_wf_ne; eauto.
Qed.
Lemma req_wf_ne r : is_alloc_req r -> req_wf r = true -> res_nonempty (req_consumers r).
Proof.
  destruct r; cbn; try contradiction; intros _ H.
  - intros ci a [<-|[]] Ha. eapply cons_in_wf_ne; eauto.
  - apply cons_list_wf_ne; assumption.
  - apply andb_true_iff in H. destruct H as [_ H]. apply cons_list_wf_ne; assumption.
Qed.

Lemma alloc_req_main cf d r d' rs : is_alloc_req r -> step cf d r = (d', rs) ->
  (is_error rs /\ dsame d d' /\ forall c, cgl (consumers d') c = cgl (consumers d) c) \/
  (rs = ok 204 /\ pstep d d' /\
   (forall u rc amt, placed r u rc amt -> olt (gen_of d u) (gen_of d' u)) /\
   (forall c g g', cgl (consumers d) c = Some g -> cgl (consumers d') c = Some g' ->
      g <= g' /\ (names_consumer r c -> req_wf r = true -> ConsIff d -> RI d -> g < g'))).
Proof.
  intros A H. destruct (alloc_req_core _ _ _ _ _ A H) as [[-> E]|(txn & errf & OK & ERR & C)].
  - left. split; [assumption|]. split; [apply dsame_refl|reflexivity].
  - apply core_main in C; [|assumption|assumption]. destruct C as [C|(-> & P & Q & R)]; [left; assumption|].
    right. split; [reflexivity|]. split; [assumption|]. split.
    + intros u rc amt PL. apply (Q u rc amt). destruct r; try contradiction; exact PL.
    + intros c g g' Hg Hg'. destruct (R c g g' Hg Hg') as [R1 R2]. split; [assumption|].
      intros N W CI RId. apply R2; auto.
      * destruct r; try contradiction; cbn in *; auto.
      * apply req_wf_ne; assumption.
Qed.

(* ------------------------------------------------------------------ every step, provider side *)
Lemma step_pmono cf d r d' rs : step cf d r = (d', rs) -> pmono d d'.
Proof.
  intros H.
  assert (AL : is_alloc_req r -> pmono d d').
  { intros A. destruct (alloc_req_main _ _ _ _ _ A H) as [(_ & S & _)|(_ & P & _)].
    - apply pstep_pmono, psame_pstep, dsame_psame. assumption.
    - apply pstep_pmono. assumption. }
  destruct r; cbn [step] in H; try (apply AL; exact I);
    eauto using h_rp_create_pmono, h_rp_update_pmono, h_rp_delete_pmono, h_inv_set_pmono, h_inv_post_pmono,
      h_inv_put_pmono, h_inv_delete_pmono, h_inv_delete_all_pmono, h_traits_set_pmono, h_traits_delete_pmono,
      h_aggs_set_pmono, h_alloc_delete_pmono, h_rc_create_pmono, h_rc_put_pmono, h_rc_rename_pmono,
      h_rc_delete_pmono, h_trait_put_pmono, h_trait_delete_pmono.
Qed.

Lemma c10_provider_monotone :
  forall cf d r d' rs u g g', step cf d r = (d', rs) -> gen_of d u = Some g -> gen_of d' u = Some g' -> g <= g'.
Proof. intros cf d r d' rs u g g' H Hg Hg'. apply (step_pmono _ _ _ _ _ H u g g' Hg Hg'). Qed.

Lemma c10_inventory_change_increments :
  forall cf d r d' rs u g g', req_wf r = true -> step cf d r = (d', rs) ->
    gen_of d u = Some g -> gen_of d' u = Some g' -> invs_of d u <> invs_of d' u -> g < g'.
Proof. intros cf d r d' rs u g g' _ H Hg Hg'. apply (step_pmono _ _ _ _ _ H u g g' Hg Hg'). Qed.

Lemma c10_trait_change_increments :
  forall cf d r d' rs u g g', step cf d r = (d', rs) ->
    gen_of d u = Some g -> gen_of d' u = Some g' -> rp_traits_of d u <> rp_traits_of d' u -> g < g'.
Proof. intros cf d r d' rs u g g' H Hg Hg'. apply (step_pmono _ _ _ _ _ H u g g' Hg Hg'). Qed.

Lemma c10_alloc_write_increments_provider :
  forall cf d r d' rs u rc amt g, req_wf r = true -> step cf d r = (d', rs) -> is_success rs ->
    placed r u rc amt -> gen_of d u = Some g -> exists g', gen_of d' u = Some g' /\ g < g'.
Proof.
  intros cf d r d' rs u rc amt g _ H S PL Hg.
  assert (A : is_alloc_req r) by (destruct r; try contradiction; exact I).
  destruct (alloc_req_main _ _ _ _ _ A H) as [(E & _)|(_ & _ & Q & _)].
  - unfold is_error, is_success in *. lia.
  - apply (Q u rc amt PL g Hg).
Qed.

Lemma c10_alloc_write_increments_consumer :
  forall cf d r d' rs c g g', req_wf r = true -> ConsIff d -> RI d ->
    step cf d r = (d', rs) -> is_success rs -> names_consumer r c ->
    cgen_of d c = Some g -> cgen_of d' c = Some g' -> g < g'.
Proof.
  intros cf d r d' rs c g g' W CI RId H S N Hg Hg'.
  assert (A : is_alloc_req r) by (destruct r; try contradiction; exact I).
  destruct (alloc_req_main _ _ _ _ _ A H) as [(E & _)|(_ & _ & _ & R)].
  - unfold is_error, is_success in *. lia.
  - apply (R c g g' Hg Hg'); assumption.
Qed.

(* ------------------------------------------------------------------ the other requests, consumer side and errors *)
Lemma dcina_csub d cs : csub_l (consumers d) (consumers (delete_consumers_if_no_allocations d cs)).
Proof.
  unfold delete_consumers_if_no_allocations. cbn [consumers set_consumers].
  apply (csub_filter (fun z => negb (memZ z cs && negb (existsb (fun a => a_cons a =? z) (allocs d))))).
Qed.

Ltac txn_cons := intros H; unfold bind in H; repeat bmH H; inv H; reflexivity.
Lemma rp_create_cons d u n p d' : rp_create d u n p = Ok d' -> consumers d' = consumers d.
Proof. unfold rp_create. txn_cons. Qed.
Lemma rp_update_cons d me n p a d' : rp_update d me n p a = Ok d' -> consumers d' = consumers d.
Proof. unfold rp_update. cbv zeta. txn_cons. Qed.
Lemma rp_delete_cons d u d' : rp_delete d u = Ok d' -> consumers d' = consumers d.
Proof. unfold rp_delete. txn_cons. Qed.
Lemma rc_create_cons d n d' : rc_create d n = Ok d' -> consumers d' = consumers d.
Proof. unfold rc_create. txn_cons. Qed.
Lemma rc_destroy_cons d n d' : rc_destroy d n = Ok d' -> consumers d' = consumers d.
Proof. unfold rc_destroy. txn_cons. Qed.
Lemma rc_rename_cons d o n d' : rc_rename d o n = Ok d' -> consumers d' = consumers d.
Proof. unfold rc_rename. txn_cons. Qed.
Lemma trait_create_cons d n d' : trait_create d n = Ok d' -> consumers d' = consumers d.
Proof. unfold trait_create. txn_cons. Qed.
Lemma trait_destroy_cons d n d' : trait_destroy d n = Ok d' -> consumers d' = consumers d.
Proof. unfold trait_destroy. txn_cons. Qed.
Lemma set_aggregates_txn_false_cons d u g w d' : set_aggregates_txn d u g w false = Ok d' -> consumers d' = consumers d.
Proof. unfold set_aggregates_txn. cbv zeta. txn_cons. Qed.
Lemma bumped_cons u g d d' : bumped u g d d' -> consumers d' = consumers d.
Proof. intros H. apply bumped_spec in H. destruct H as (_ & _ & _ & _ & H & _). exact H. Qed.
Lemma set_traits_txn_cons d u g ts d' : set_traits_txn d u g ts = Ok d' -> consumers d' = consumers d.
Proof. intros H. apply set_traits_txn_bumped in H. destruct H as [->|H]; [reflexivity|eapply bumped_cons; eassumption]. Qed.

Lemma csub_of_eq (l l' : list consumer) : l' = l -> csub_l l l'.
Proof. intros ->. apply csub_l_refl. Qed.

Ltac nonalloc_tail H :=
  repeat bmH H; inv H; (split; [|try (intros; reflexivity); intros E; unfold is_error in E; cbn in E; lia]);
  try apply csub_l_refl; try refine (dcina_csub (set_allocs _ _) _);
  try (use_bumped; apply csub_of_eq; eapply bumped_cons; eassumption);
  apply csub_of_eq;
  eauto using rp_create_cons, rp_update_cons, rp_delete_cons, rc_create_cons, rc_destroy_cons, rc_rename_cons,
    trait_create_cons, trait_destroy_cons, set_aggregates_txn_false_cons, set_traits_txn_cons.

Lemma nonalloc_step cf d r d' rs : ~ is_alloc_req r -> step cf d r = (d', rs) ->
  csub_l (consumers d) (consumers d') /\ (is_error rs -> d' = d).
Proof.
  intros NA H. destruct r; cbn [step] in H; try (exfalso; apply NA; exact I).
  - unfold h_rp_create in H. nonalloc_tail H.
  - unfold h_rp_update in H. nonalloc_tail H.
  - unfold h_rp_delete in H. nonalloc_tail H.
  - unfold h_inv_set in H. nonalloc_tail H.
  - unfold h_inv_post in H. nonalloc_tail H.
  - unfold h_inv_put in H. nonalloc_tail H.
  - unfold h_inv_delete in H. nonalloc_tail H.
  - unfold h_inv_delete_all in H. nonalloc_tail H.
  - unfold h_traits_set in H. nonalloc_tail H.
  - unfold h_traits_delete in H. nonalloc_tail H.
  - unfold h_aggs_set in H. nonalloc_tail H.
  - unfold h_alloc_delete in H. nonalloc_tail H.
  - unfold h_rc_create in H. nonalloc_tail H.
  - unfold h_rc_put in H. nonalloc_tail H.
  - unfold h_rc_rename, h_rc_put in H. nonalloc_tail H.
  - unfold h_rc_delete in H. nonalloc_tail H.
  - unfold h_trait_put in H. nonalloc_tail H.
  - unfold h_trait_delete in H. nonalloc_tail H.
Qed.

Lemma is_alloc_dec r : is_alloc_req r \/ ~ is_alloc_req r.
Proof. destruct r; cbn; auto. Qed.

Lemma c10_consumer_monotone :
  forall cf d r d' rs c g g', req_wf r = true -> ConsIff d -> RI d ->
    step cf d r = (d', rs) -> cgen_of d c = Some g -> cgen_of d' c = Some g' -> g <= g'.
Proof.
  intros cf d r d' rs c g g' _ _ _ H Hg Hg'. destruct (is_alloc_dec r) as [A|NA].
  - destruct (alloc_req_main _ _ _ _ _ A H) as [(_ & _ & E)|(_ & _ & _ & R)].
    + change (cgl (consumers d') c = Some g') in Hg'. rewrite E in Hg'.
      change (cgl (consumers d) c = Some g) in Hg. rewrite Hg in Hg'. inv Hg'. lia.
    + apply (R c g g' Hg Hg').
  - destruct (nonalloc_step _ _ _ _ _ NA H) as [S _]. apply S in Hg'.
    change (cgl (consumers d) c = Some g) in Hg. rewrite Hg in Hg'. inv Hg'. lia.
Qed.

Lemma c10_error_no_change :
  forall cf d r d' rs, req_wf r = true -> step cf d r = (d', rs) -> is_error rs ->
    (forall u, gen_of d' u = gen_of d u) /\ (forall c, cgen_of d' c = cgen_of d c).
Proof.
  intros cf d r d' rs _ H E. destruct (is_alloc_dec r) as [A|NA].
  - destruct (alloc_req_main _ _ _ _ _ A H) as [(_ & S & C)|(-> & _)].
    + split; [intros u; apply psame_gen, dsame_psame; assumption|exact C].
    + unfold is_error in E. cbn in E. lia.
  - destruct (nonalloc_step _ _ _ _ _ NA H) as [_ S]. rewrite (S E). split; reflexivity.
Qed.
