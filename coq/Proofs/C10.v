(* C10 - generations move forward on every change and only then: proofs. *)
From PV Require Import Proofs.Defs.

(* ------------------------------------------------------------------ small tactics *)
Ltac inv H := inversion H; subst; clear H.
Ltac zb :=
  repeat match goal with
  | H : (_ =? _) = true |- _ => apply Z.eqb_eq in H
  | H : (_ =? _) = false |- _ => apply Z.eqb_neq in H
  end.

(* ------------------------------------------------------------------ order on optional generations *)
Definition ole (a b : option Z) : Prop := forall g, a = Some g -> exists g', b = Some g' /\ g <= g'.
Definition olt (a b : option Z) : Prop := forall g, a = Some g -> exists g', b = Some g' /\ g < g'.

Lemma ole_refl a : ole a a.
Proof. intros g H. exists g. split; [assumption|lia]. Qed.
Lemma ole_eq a b : b = a -> ole a b.
Proof. intros ->. apply ole_refl. Qed.
Lemma ole_trans a b c : ole a b -> ole b c -> ole a c.
Proof. intros H1 H2 g Hg. destruct (H1 g Hg) as (g1 & E1 & L1). destruct (H2 g1 E1) as (g2 & E2 & L2). exists g2. split; [assumption|lia]. Qed.
Lemma olt_ole a b : olt a b -> ole a b.
Proof. intros H g Hg. destruct (H g Hg) as (g1 & E1 & L1). exists g1. split; [assumption|lia]. Qed.
Lemma olt_ole_trans a b c : olt a b -> ole b c -> olt a c.
Proof. intros H1 H2 g Hg. destruct (H1 g Hg) as (g1 & E1 & L1). destruct (H2 g1 E1) as (g2 & E2 & L2). exists g2. split; [assumption|lia]. Qed.
Lemma ole_olt_trans a b c : ole a b -> olt b c -> olt a c.
Proof. intros H1 H2 g Hg. destruct (H1 g Hg) as (g1 & E1 & L1). destruct (H2 g1 E1) as (g2 & E2 & L2). exists g2. split; [assumption|lia]. Qed.

(* ------------------------------------------------------------------ list helpers *)
Lemma memZ_In x l : memZ x l = true <-> In x l.
Proof.
  unfold memZ. rewrite existsb_exists. split.
  - intros (y & Hy & E). apply Z.eqb_eq in E. subst. assumption.
  - intros H. exists x. split; [assumption|apply Z.eqb_refl].
Qed.
Lemma memZ_nIn x l : memZ x l = false <-> ~ In x l.
Proof. rewrite <- memZ_In. destruct (memZ x l); split; intros; congruence. Qed.

Lemma filter_all {A} (f : A -> bool) l : (forall x, In x l -> f x = true) -> filter f l = l.
Proof.
  induction l as [|a l IH]; intros H; cbn; [reflexivity|].
  rewrite (H a (or_introl eq_refl)). f_equal. apply IH. intros; apply H; right; assumption.
Qed.
Lemma filter_none {A} (f : A -> bool) l : (forall x, In x l -> f x = false) -> filter f l = [].
Proof.
  induction l as [|a l IH]; intros H; cbn; [reflexivity|].
  rewrite (H a (or_introl eq_refl)). apply IH. intros; apply H; right; assumption.
Qed.
Lemma filter_filter_imp {A} (f g : A -> bool) l :
  (forall x, f x = true -> g x = true) -> filter f (filter g l) = filter f l.
Proof.
  intros H. induction l as [|a l IH]; cbn; [reflexivity|].
  destruct (g a) eqn:G; cbn.
  - destruct (f a); [f_equal|]; assumption.
  - destruct (f a) eqn:F; [rewrite (H a F) in G; discriminate|assumption].
Qed.
Lemma filter_app_none {A} (f : A -> bool) l l2 :
  (forall x, In x l2 -> f x = false) -> filter f (l ++ l2) = filter f l.
Proof. intros H. rewrite filter_app, (filter_none f l2 H). apply app_nil_r. Qed.

(* ------------------------------------------------------------------ provider rows *)
Definition gl (l : list rp) (u : Z) : option Z := option_map rp_gen (find_rp_l l u).

Lemma gen_of_gl d u : gen_of d u = gl (rps d) u.
Proof. reflexivity. Qed.

Lemma find_rp_l_uuid l u r : find_rp_l l u = Some r -> rp_uuid r = u /\ In r l.
Proof.
  induction l as [|a l IH]; cbn; [discriminate|].
  destruct (rp_uuid a =? u) eqn:E.
  - intros [= <-]. zb. auto.
  - intros H. destruct (IH H). auto.
Qed.
Lemma find_rp_l_none l u : find_rp_l l u = None <-> forall r, In r l -> rp_uuid r <> u.
Proof.
  induction l as [|a l IH]; cbn.
  - split; [intros _ r []|reflexivity].
  - destruct (rp_uuid a =? u) eqn:E; zb.
    + split; [discriminate|]. intros H. exfalso. apply (H a); auto.
    + rewrite IH. split; intros H r; [intros [<-|Hr]; auto|intros Hr; apply H; auto].
Qed.

Lemma cas_rp_l_spec : forall l u g l', cas_rp_l l u g = Some l' ->
  gl l u = Some g /\ gl l' u = Some (g + 1) /\ forall x, x <> u -> gl l' x = gl l x.
Proof.
  induction l as [|r l IH]; intros u g l' H; cbn in H; [discriminate|].
  destruct (rp_uuid r =? u) eqn:E.
  - destruct (rp_gen r =? g) eqn:G; [|discriminate]. injection H as <-. zb.
    unfold gl; cbn. rewrite E, Z.eqb_refl. cbn. repeat split; [congruence|].
    intros x Hx. destruct (u =? x) eqn:X; zb; [congruence|reflexivity].
  - destruct (cas_rp_l l u g) as [l''|] eqn:C; [|discriminate]. injection H as <-.
    destruct (IH _ _ _ C) as (A & B & D). unfold gl in *; cbn. rewrite E. repeat split; auto.
    intros x Hx. destruct (rp_uuid r =? x); auto.
Qed.

Lemma gl_map (f : rp -> rp) l u :
  (forall r, rp_uuid (f r) = rp_uuid r) -> (forall r, rp_gen (f r) = rp_gen r) -> gl (map f l) u = gl l u.
Proof.
  intros Hu Hg. unfold gl. induction l as [|a l IH]; cbn; [reflexivity|].
  rewrite Hu. destruct (rp_uuid a =? u); cbn; [rewrite Hg; reflexivity|assumption].
Qed.
Lemma gl_filter (p : Z -> bool) l u :
  gl (filter (fun r => p (rp_uuid r)) l) u = if p u then gl l u else None.
Proof.
  unfold gl. induction l as [|a l IH]; cbn; [destruct (p u); reflexivity|].
  destruct (rp_uuid a =? u) eqn:E; zb.
  - subst u. destruct (p (rp_uuid a)) eqn:P; cbn; [rewrite Z.eqb_refl; reflexivity|].
    assumption.
  - destruct (p (rp_uuid a)); cbn; [|assumption]. apply Z.eqb_neq in E. rewrite E. assumption.
Qed.
Lemma gl_app1 l n u :
  gl (l ++ [n]) u = match gl l u with Some g => Some g | None => if rp_uuid n =? u then Some (rp_gen n) else None end.
Proof.
  unfold gl. induction l as [|a l IH]; cbn; [destruct (rp_uuid n =? u); reflexivity|].
  destruct (rp_uuid a =? u); cbn; [reflexivity|assumption].
Qed.

(* ------------------------------------------------------------------ consumer rows *)
Definition cgl (l : list consumer) (u : Z) : option Z := option_map c_gen (find_cons_l l u).

Lemma find_cons_l_uuid l u r : find_cons_l l u = Some r -> c_uuid r = u /\ In r l.
Proof.
  induction l as [|a l IH]; cbn; [discriminate|].
  destruct (c_uuid a =? u) eqn:E.
  - intros [= <-]. zb. auto.
  - intros H. destruct (IH H). auto.
Qed.
Lemma find_cons_l_none l u : find_cons_l l u = None <-> forall r, In r l -> c_uuid r <> u.
Proof.
  induction l as [|a l IH]; cbn.
  - split; [intros _ r []|reflexivity].
  - destruct (c_uuid a =? u) eqn:E; zb.
    + split; [discriminate|]. intros H. exfalso. apply (H a); auto.
    + rewrite IH. split; intros H r; [intros [<-|Hr]; auto|intros Hr; apply H; auto].
Qed.

Lemma cas_cons_l_spec : forall l u g l', cas_cons_l l u g = Some l' ->
  cgl l u = Some g /\ cgl l' u = Some (g + 1) /\ forall x, x <> u -> cgl l' x = cgl l x.
Proof.
  induction l as [|r l IH]; intros u g l' H; cbn in H; [discriminate|].
  destruct (c_uuid r =? u) eqn:E.
  - destruct (c_gen r =? g) eqn:G; [|discriminate]. injection H as <-. zb.
    unfold cgl; cbn. rewrite E, Z.eqb_refl. cbn. repeat split; [congruence|].
    intros x Hx. destruct (u =? x) eqn:X; zb; [congruence|reflexivity].
  - destruct (cas_cons_l l u g) as [l''|] eqn:C; [|discriminate]. injection H as <-.
    destruct (IH _ _ _ C) as (A & B & D). unfold cgl in *; cbn. rewrite E. repeat split; auto.
    intros x Hx. destruct (c_uuid r =? x); auto.
Qed.

Lemma cgl_map (f : consumer -> consumer) l u :
  (forall r, c_uuid (f r) = c_uuid r) -> (forall r, c_gen (f r) = c_gen r) -> cgl (map f l) u = cgl l u.
Proof.
  intros Hu Hg. unfold cgl. induction l as [|a l IH]; cbn; [reflexivity|].
  rewrite Hu. destruct (c_uuid a =? u); cbn; [rewrite Hg; reflexivity|assumption].
Qed.
Lemma cgl_filter (p : Z -> bool) l u :
  cgl (filter (fun r => p (c_uuid r)) l) u = if p u then cgl l u else None.
Proof.
  unfold cgl. induction l as [|a l IH]; cbn; [destruct (p u); reflexivity|].
  destruct (c_uuid a =? u) eqn:E; zb.
  - subst u. destruct (p (c_uuid a)) eqn:P; cbn; [rewrite Z.eqb_refl; reflexivity|].
    assumption.
  - destruct (p (c_uuid a)); cbn; [|assumption]. apply Z.eqb_neq in E. rewrite E. assumption.
Qed.
Lemma cgl_app1 l n u :
  cgl (l ++ [n]) u = match cgl l u with Some g => Some g | None => if c_uuid n =? u then Some (c_gen n) else None end.
Proof.
  unfold cgl. induction l as [|a l IH]; cbn; [destruct (c_uuid n =? u); reflexivity|].
  destruct (c_uuid a =? u); cbn; [reflexivity|assumption].
Qed.

(* ------------------------------------------------------------------ provider-side step relation *)
Definition psame (d d' : db) : Prop := rps d' = rps d /\ invs d' = invs d /\ rp_traits d' = rp_traits d.

Definition pstep (d d' : db) : Prop := forall u,
  ole (gen_of d u) (gen_of d' u) /\
  (invs_of d' u = invs_of d u \/ olt (gen_of d u) (gen_of d' u)) /\
  (rp_traits_of d' u = rp_traits_of d u \/ olt (gen_of d u) (gen_of d' u)).

Lemma psame_refl d : psame d d.
Proof. repeat split. Qed.
Lemma psame_trans d1 d2 d3 : psame d1 d2 -> psame d2 d3 -> psame d1 d3.
Proof. intros (A & B & C) (A' & B' & C'). repeat split; congruence. Qed.

Lemma pstep_refl d : pstep d d.
Proof. intros u. split; [apply ole_refl|]. split; left; reflexivity. Qed.
Lemma pstep_trans d1 d2 d3 : pstep d1 d2 -> pstep d2 d3 -> pstep d1 d3.
Proof.
  intros H1 H2 u. destruct (H1 u) as (A1 & B1 & C1). destruct (H2 u) as (A2 & B2 & C2).
  split; [eapply ole_trans; eauto|]. split.
  - destruct B1 as [B1|B1]; destruct B2 as [B2|B2];
      [left; congruence|right; eapply ole_olt_trans; eauto|right; eapply olt_ole_trans; eauto|right; eapply olt_ole_trans; eauto].
  - clear B1 B2. destruct C1 as [B1|B1]; destruct C2 as [B2|B2];
      [left; congruence|right; eapply ole_olt_trans; eauto|right; eapply olt_ole_trans; eauto|right; eapply olt_ole_trans; eauto].
Qed.
Lemma pstep_gens d d' : invs d' = invs d -> rp_traits d' = rp_traits d ->
  (forall u, ole (gen_of d u) (gen_of d' u)) -> pstep d d'.
Proof.
  intros B C H u. split; [apply H|]. unfold invs_of, rp_traits_of. rewrite B, C. split; left; reflexivity.
Qed.
Lemma psame_pstep d d' : psame d d' -> pstep d d'.
Proof.
  intros (A & B & C). apply pstep_gens; auto. intros u. unfold gen_of, find_rp. rewrite A. apply ole_refl.
Qed.
Lemma psame_gen d d' u : psame d d' -> gen_of d' u = gen_of d u.
Proof. intros (A & _). unfold gen_of, find_rp. rewrite A. reflexivity. Qed.

(* d' differs from d only in rows local to provider u (inventories, traits, aggregates) *)
Definition loc (u : Z) (d d' : db) : Prop :=
  rps d' = rps d /\ allocs d' = allocs d /\ consumers d' = consumers d /\
  (forall x, x <> u -> invs_of d' x = invs_of d x) /\
  (forall x, x <> u -> rp_traits_of d' x = rp_traits_of d x) /\
  (forall x, x <> u -> rp_aggs_of d' x = rp_aggs_of d x).

Lemma loc_refl u d : loc u d d.
Proof. repeat split. Qed.
Lemma loc_trans u d1 d2 d3 : loc u d1 d2 -> loc u d2 d3 -> loc u d1 d3.
Proof.
  intros (A & B & C & D & E & F) (A' & B' & C' & D' & E' & F').
  repeat split; try congruence; intros x Hx;
    [rewrite D', D|rewrite E', E|rewrite F', F]; auto.
Qed.

Lemma incr_rp_gen_inv d u g d' : incr_rp_gen d u g = Ok d' ->
  exists l', cas_rp_l (rps d) u g = Some l' /\ d' = set_rps d l'.
Proof.
  unfold incr_rp_gen. destruct (cas_rp_l (rps d) u g) as [l'|]; [|discriminate].
  intros [= <-]. eauto.
Qed.
Lemma incr_cons_gen_inv d u g d' : incr_cons_gen d u g = Ok d' ->
  exists l', cas_cons_l (consumers d) u g = Some l' /\ d' = set_consumers d l'.
Proof.
  unfold incr_cons_gen. destruct (cas_cons_l (consumers d) u g) as [l'|]; [|discriminate].
  intros [= <-]. eauto.
Qed.

Definition bumped (u g : Z) (d d' : db) : Prop := exists dm, loc u d dm /\ incr_rp_gen dm u g = Ok d'.

Lemma bumped_spec u g d d' : bumped u g d d' ->
  gen_of d u = Some g /\ gen_of d' u = Some (g + 1) /\ (forall x, x <> u -> gen_of d' x = gen_of d x) /\
  allocs d' = allocs d /\ consumers d' = consumers d /\
  (forall x, x <> u -> invs_of d' x = invs_of d x) /\
  (forall x, x <> u -> rp_traits_of d' x = rp_traits_of d x) /\
  (forall x, x <> u -> rp_aggs_of d' x = rp_aggs_of d x).
Proof.
  intros (dm & (A & B & C & D & E & F) & H). apply incr_rp_gen_inv in H. destruct H as (l' & H & ->).
  apply cas_rp_l_spec in H. destruct H as (H1 & H2 & H3). rewrite A in *.
  repeat split; auto.
Qed.

Lemma bumped_pstep u g d d' : bumped u g d d' -> pstep d d'.
Proof.
  intros H. apply bumped_spec in H. destruct H as (H1 & H2 & H3 & _ & _ & H4 & H5 & _).
  intros x. destruct (Z.eq_dec x u) as [->|Hx].
  - assert (L : olt (gen_of d u) (gen_of d' u)).
    { intros g0 Hg. rewrite H1 in Hg. injection Hg as <-. exists (g + 1). split; [assumption|lia]. }
    split; [apply olt_ole; assumption|]. split; right; assumption.
  - split; [apply ole_eq; auto|]. split; left; auto.
Qed.

(* ------------------------------------------------------------------ inventory transactions *)
Lemma delete_inv_loc d u to_del d1 : delete_inventory_from_provider d u to_del = Ok d1 -> loc u d d1.
Proof.
  unfold delete_inventory_from_provider. destruct (existsb _ _); [discriminate|]. intros [= <-].
  unfold loc; cbn. repeat split; auto. intros x Hx. unfold invs_of; cbn.
  apply filter_filter_imp. intros i Hi. zb. destruct (i_rp i =? u) eqn:E; zb; [congruence|reflexivity].
Qed.

Lemma add_inv_loc d u l : loc u d (add_inventory_to_provider d u l).
Proof.
  unfold loc, add_inventory_to_provider; cbn. repeat split; auto. intros x Hx. unfold invs_of; cbn.
  apply filter_app_none. intros i Hi. apply in_map_iff in Hi. destruct Hi as (y & <- & _). cbn.
  apply Z.eqb_neq. congruence.
Qed.

Lemma replace_inv_filter l n x : x <> i_rp n ->
  filter (fun i => i_rp i =? x) (replace_inv l n) = filter (fun i => i_rp i =? x) l.
Proof.
  intros Hx. induction l as [|i l IH]; cbn; [reflexivity|].
  destruct ((i_rp i =? i_rp n) && (i_rc i =? i_rc n)) eqn:E; cbn.
  - apply andb_true_iff in E. destruct E as [E _]. zb.
    assert (E1 : (i_rp n =? x) = false) by (apply Z.eqb_neq; congruence).
    assert (E2 : (i_rp i =? x) = false) by (apply Z.eqb_neq; congruence).
    rewrite E1, E2. reflexivity.
  - destruct (i_rp i =? x); [f_equal|]; assumption.
Qed.

Lemma update_inv_loc u : forall l d d', update_inventory_for_provider d u l = Ok d' -> loc u d d'.
Proof.
  induction l as [|x l IH]; intros d d' H; cbn in H.
  - injection H as <-. apply loc_refl.
  - destruct (find_inv d u (ii_rc x)); [|discriminate]. apply IH in H.
    eapply loc_trans; [|exact H]. unfold loc; cbn. repeat split; auto.
    intros y Hy. unfold invs_of; cbn. apply replace_inv_filter. cbn. assumption.
Qed.

Lemma set_inventory_bumped d u g l d' : set_inventory d u g l = Ok d' -> bumped u g d d'.
Proof.
  unfold set_inventory. destruct (negb _); [discriminate|]. cbv zeta.
  destruct (delete_inventory_from_provider d u _) as [d1|] eqn:E1; [|discriminate]. cbn [bind].
  destruct (update_inventory_for_provider _ u _) as [d3|] eqn:E3; [|discriminate]. cbn [bind].
  intros H. exists d3. split; [|assumption].
  eapply loc_trans; [eapply delete_inv_loc; eassumption|].
  eapply loc_trans; [apply add_inv_loc|]. eapply update_inv_loc; eassumption.
Qed.

Lemma add_inventory_bumped d u g x d' : add_inventory d u g x = Ok d' -> bumped u g d d'.
Proof.
  unfold add_inventory. destruct (negb _); [discriminate|]. destruct (find_inv d u (ii_rc x)); [discriminate|].
  intros H. eexists. split; [apply add_inv_loc|eassumption].
Qed.

Lemma update_inventory_bumped d u g x d' : update_inventory d u g x = Ok d' -> bumped u g d d'.
Proof.
  unfold update_inventory. destruct (negb _); [discriminate|].
  destruct (update_inventory_for_provider d u [x]) as [d1|] eqn:E; [|discriminate]. cbn [bind].
  intros H. exists d1. split; [eapply update_inv_loc; eassumption|assumption].
Qed.

Lemma delete_inventory_bumped d u g rc d' : delete_inventory d u g rc = Ok d' -> bumped u g d d'.
Proof.
  unfold delete_inventory. destruct (negb _); [discriminate|].
  destruct (delete_inventory_from_provider d u [rc]) as [d1|] eqn:E; [|discriminate]. cbn [bind].
  destruct (find_inv d u rc); [|discriminate].
  intros H. exists d1. split; [eapply delete_inv_loc; eassumption|assumption].
Qed.

(* ------------------------------------------------------------------ traits / aggregates transactions *)
Lemma traits_loc d u (P : Z * Z -> bool) add : (forall y, fst y <> u -> P y = true) ->
  loc u d (set_rp_traits d (filter P (rp_traits d) ++ map (fun t => (u, t)) add)).
Proof.
  intros HP. unfold loc; cbn. repeat split; auto. intros x Hx. unfold rp_traits_of; cbn.
  rewrite filter_app_none.
  - apply filter_filter_imp. intros y Hy. zb. apply HP. congruence.
  - intros y Hy. apply in_map_iff in Hy. destruct Hy as (t & <- & _). cbn. apply Z.eqb_neq. congruence.
Qed.

Lemma set_traits_txn_bumped d u g ts d' : set_traits_txn d u g ts = Ok d' -> d' = d \/ bumped u g d d'.
Proof.
  unfold set_traits_txn. cbv zeta. intros H.
  assert (L : forall add del, loc u d (set_rp_traits d
     (filter (fun x => negb ((fst x =? u) && memZ (snd x) del)) (rp_traits d) ++ map (fun t => (u, t)) add))).
  { intros add del. apply traits_loc. intros y Hy. apply Z.eqb_neq in Hy. rewrite Hy. reflexivity. }
  destruct (filter (fun t => negb (memZ t (traits_of d u))) ts) as [|a ta];
    destruct (filter (fun t => negb (memZ t ts)) (traits_of d u)) as [|b tb].
  - injection H as <-. left; reflexivity.
  - right. eexists. split; [apply L|exact H].
  - right. eexists. split; [apply L|exact H].
  - right. eexists. split; [apply L|exact H].
Qed.

Lemma set_aggregates_txn_bumped d u g want d' : set_aggregates_txn d u g want true = Ok d' -> bumped u g d d'.
Proof.
  unfold set_aggregates_txn. cbv zeta. intros H. eexists. split; [|exact H].
  unfold loc; cbn. repeat split; auto. intros x Hx. unfold rp_aggs_of; cbn.
  rewrite filter_app_none.
  - apply filter_filter_imp. intros y Hy. zb. assert (E : (fst y =? u) = false) by (apply Z.eqb_neq; congruence).
    rewrite E. reflexivity.
  - intros y Hy. apply in_map_iff in Hy. destruct Hy as (t & <- & _). cbn. apply Z.eqb_neq. congruence.
Qed.

(* ------------------------------------------------------------------ what the provider theorems need of one step *)
Definition pmono (d d' : db) : Prop := forall u g g', gen_of d u = Some g -> gen_of d' u = Some g' ->
  g <= g' /\ (invs_of d u <> invs_of d' u -> g < g') /\ (rp_traits_of d u <> rp_traits_of d' u -> g < g').

Lemma pstep_pmono d d' : pstep d d' -> pmono d d'.
Proof.
  intros H u g g' Hg Hg'. destruct (H u) as (A & B & C).
  destruct (A g Hg) as (g1 & E1 & L1). rewrite Hg' in E1. injection E1 as <-. split; [lia|]. split.
  - intros N. destruct B as [B|B]; [exfalso; apply N; congruence|].
    destruct (B g Hg) as (g2 & E2 & L2). rewrite Hg' in E2. injection E2 as <-. assumption.
  - intros N. destruct C as [C|C]; [exfalso; apply N; congruence|].
    destruct (C g Hg) as (g2 & E2 & L2). rewrite Hg' in E2. injection E2 as <-. assumption.
Qed.
Lemma pmono_refl d : pmono d d.
Proof. apply pstep_pmono, pstep_refl. Qed.

Ltac bmH H := match type of H with context[match ?x with _ => _ end] => destruct x eqn:? end.
Ltac rowfun := intros ?r; try match goal with |- context[if ?c then _ else _] => destruct c eqn:? end;
               cbn; zb; auto; congruence.

(* ------------------------------------------------------------------ provider CRUD *)
Lemma rp_create_spec d u name parent d' : rp_create d u name parent = Ok d' ->
  pstep d d' /\ gen_of d' u = Some 0.
Proof.
  unfold rp_create. intros H.
  match type of H with bind ?r _ = _ => destruct r as [root|e]; cbn [bind] in H; [|discriminate] end.
  destruct (existsb _ (rps d)) eqn:E; [discriminate|]. injection H as <-. split.
  - apply pstep_gens; auto. intros x. rewrite !gen_of_gl; cbn. rewrite gl_app1. intros g Hg. rewrite Hg.
    exists g; split; [reflexivity|lia].
  - rewrite gen_of_gl; cbn. rewrite gl_app1. cbn.
    assert (N : gl (rps d) u = None).
    { unfold gl. destruct (find_rp_l (rps d) u) as [r|] eqn:F; [exfalso|reflexivity].
      apply find_rp_l_uuid in F. destruct F as [F1 F2].
      assert (X : existsb (fun r => (rp_uuid r =? u) || (rp_name r =? name)) (rps d) = true); [|congruence].
      apply existsb_exists. exists r. split; [assumption|]. rewrite F1, Z.eqb_refl. reflexivity. }
    rewrite N, Z.eqb_refl. reflexivity.
Qed.

Lemma rp_update_spec d me name np ar d' : rp_update d me name np ar = Ok d' ->
  invs d' = invs d /\ rp_traits d' = rp_traits d /\ forall x, gen_of d' x = gen_of d x.
Proof.
  unfold rp_update. cbv zeta. intros H.
  match type of H with bind ?r _ = _ => destruct r as [upd|e]; cbn [bind] in H; [|discriminate] end.
  destruct (name_taken d name (rp_uuid me)); [discriminate|]. injection H as <-.
  repeat split. intros x. rewrite !gen_of_gl; cbn [rps set_rps].
  rewrite gl_map; [|rowfun|rowfun].
  destruct upd as [[[par root] sub]|]; [|reflexivity].
  unfold set_roots. rewrite gl_map; [|rowfun|rowfun]. rewrite gl_map; [reflexivity|rowfun|rowfun].
Qed.

Lemma rp_delete_spec d u d' : rp_delete d u = Ok d' ->
  gen_of d' u = None /\
  forall x, x <> u -> gen_of d' x = gen_of d x /\ invs_of d' x = invs_of d x /\ rp_traits_of d' x = rp_traits_of d x.
Proof.
  unfold rp_delete. destruct (existsb _ (rps d)); [discriminate|]. destruct (existsb _ (allocs d)); [discriminate|].
  destruct (find_rp d u); [|discriminate]. intros [= <-].
  pose proof (gl_filter (fun z => negb (z =? u)) (rps d)) as G. cbv beta in G.
  split.
  - rewrite gen_of_gl; cbn. rewrite G, Z.eqb_refl. reflexivity.
  - intros x Hx. assert (E : (x =? u) = false) by (apply Z.eqb_neq; assumption). split; [|split].
    + rewrite !gen_of_gl; cbn. rewrite G, E. reflexivity.
    + unfold invs_of; cbn. apply filter_filter_imp. intros i Hi. zb. subst x. rewrite (proj2 (Z.eqb_neq _ _) Hx). reflexivity.
    + unfold rp_traits_of; cbn. apply filter_filter_imp. intros i Hi. zb. subst x. rewrite (proj2 (Z.eqb_neq _ _) Hx). reflexivity.
Qed.

Lemma rp_delete_pmono d u d' : rp_delete d u = Ok d' -> pmono d d'.
Proof.
  intros H. apply rp_delete_spec in H. destruct H as (H1 & H2). intros x g g' Hg Hg'.
  destruct (Z.eq_dec x u) as [->|Hx]; [congruence|]. destruct (H2 x Hx) as (A & B & C).
  rewrite A, Hg in Hg'. injection Hg' as <-. split; [lia|]. split; intros N; exfalso; apply N; congruence.
Qed.

(* ------------------------------------------------------------------ non-allocation handlers *)
Ltac hbreak H := repeat (bmH H); try (inv H; apply pmono_refl).
Ltac use_bumped :=
  match goal with
  | E : set_inventory _ _ _ _ = Ok _ |- _ => apply set_inventory_bumped in E
  | E : add_inventory _ _ _ _ = Ok _ |- _ => apply add_inventory_bumped in E
  | E : update_inventory _ _ _ _ = Ok _ |- _ => apply update_inventory_bumped in E
  | E : delete_inventory _ _ _ _ = Ok _ |- _ => apply delete_inventory_bumped in E
  | E : set_aggregates_txn _ _ _ _ true = Ok _ |- _ => apply set_aggregates_txn_bumped in E
  end.

Lemma h_rp_create_pmono d v u name parent d' rs : h_rp_create d v u name parent = (d', rs) -> pmono d d'.
Proof.
  unfold h_rp_create. intros H. hbreak H; inv H.
  all: apply pstep_pmono; eapply rp_create_spec; eassumption.
Qed.
Lemma h_rp_update_pmono d v u name parent d' rs : h_rp_update d v u name parent = (d', rs) -> pmono d d'.
Proof.
  unfold h_rp_update. intros H. hbreak H; inv H.
  all: match goal with E : rp_update _ _ _ _ _ = Ok _ |- _ => apply rp_update_spec in E; destruct E as (A & B & C) end.
  all: apply pstep_pmono, pstep_gens; auto; intros x; apply ole_eq; auto.
Qed.
Lemma h_rp_delete_pmono d u d' rs : h_rp_delete d u = (d', rs) -> pmono d d'.
Proof.
  unfold h_rp_delete. intros H. hbreak H; inv H. eapply rp_delete_pmono; eassumption.
Qed.
Lemma h_inv_set_pmono d v u g l d' rs : h_inv_set d v u g l = (d', rs) -> pmono d d'.
Proof. unfold h_inv_set. intros H. hbreak H; inv H. use_bumped. eapply pstep_pmono, bumped_pstep; eassumption. Qed.
Lemma h_inv_post_pmono d v u x d' rs : h_inv_post d v u x = (d', rs) -> pmono d d'.
Proof. unfold h_inv_post. intros H. hbreak H; inv H. use_bumped. eapply pstep_pmono, bumped_pstep; eassumption. Qed.
Lemma h_inv_put_pmono d v u g x d' rs : h_inv_put d v u g x = (d', rs) -> pmono d d'.
Proof. unfold h_inv_put. intros H. hbreak H; inv H. use_bumped. eapply pstep_pmono, bumped_pstep; eassumption. Qed.
Lemma h_inv_delete_pmono d u rc d' rs : h_inv_delete d u rc = (d', rs) -> pmono d d'.
Proof. unfold h_inv_delete. intros H. hbreak H; inv H. use_bumped. eapply pstep_pmono, bumped_pstep; eassumption. Qed.
Lemma h_inv_delete_all_pmono d v u d' rs : h_inv_delete_all d v u = (d', rs) -> pmono d d'.
Proof. unfold h_inv_delete_all. intros H. hbreak H; inv H. use_bumped. eapply pstep_pmono, bumped_pstep; eassumption. Qed.
Lemma h_traits_set_pmono d v u g ts d' rs : h_traits_set d v u g ts = (d', rs) -> pmono d d'.
Proof.
  unfold h_traits_set. intros H. hbreak H; inv H.
  all: match goal with E : set_traits_txn _ _ _ _ = Ok _ |- _ => apply set_traits_txn_bumped in E; destruct E as [->|E] end.
  all: try apply pmono_refl. all: eapply pstep_pmono, bumped_pstep; eassumption.
Qed.
Lemma h_traits_delete_pmono d v u d' rs : h_traits_delete d v u = (d', rs) -> pmono d d'.
Proof.
  unfold h_traits_delete. intros H. hbreak H; inv H.
  all: match goal with E : set_traits_txn _ _ _ _ = Ok _ |- _ => apply set_traits_txn_bumped in E; destruct E as [->|E] end.
  all: try apply pmono_refl. all: eapply pstep_pmono, bumped_pstep; eassumption.
Qed.

Lemma set_aggregates_txn_false d u g want d' : set_aggregates_txn d u g want false = Ok d' -> psame d d'.
Proof. unfold set_aggregates_txn. cbv zeta. intros [= <-]. repeat split. Qed.

Lemma h_aggs_set_pmono d v u g l d' rs : h_aggs_set d v u g l = (d', rs) -> pmono d d'.
Proof.
  unfold h_aggs_set. intros H. hbreak H; inv H.
  all: try (use_bumped; eapply pstep_pmono, bumped_pstep; eassumption).
  all: match goal with E : set_aggregates_txn _ _ _ _ false = Ok _ |- _ => apply set_aggregates_txn_false in E end.
  all: apply pstep_pmono, psame_pstep; assumption.
Qed.
Lemma h_alloc_delete_pmono d c d' rs : h_alloc_delete d c = (d', rs) -> pmono d d'.
Proof.
  unfold h_alloc_delete. intros H. hbreak H; inv H. apply pstep_pmono, psame_pstep. repeat split.
Qed.
Ltac txn_same := intros H; repeat bmH H; inv H; repeat split.
Lemma rc_create_psame d n d' : rc_create d n = Ok d' -> psame d d'.
Proof. unfold rc_create. txn_same. Qed.
Lemma rc_destroy_psame d n d' : rc_destroy d n = Ok d' -> psame d d'.
Proof. unfold rc_destroy. txn_same. Qed.
Lemma rc_rename_psame d o n d' : rc_rename d o n = Ok d' -> psame d d'.
Proof. unfold rc_rename. txn_same. Qed.
Lemma trait_create_psame d n d' : trait_create d n = Ok d' -> psame d d'.
Proof. unfold trait_create. txn_same. Qed.
Lemma trait_destroy_psame d n d' : trait_destroy d n = Ok d' -> psame d d'.
Proof. unfold trait_destroy. txn_same. Qed.
Ltac same_tail H := hbreak H; inv H; apply pstep_pmono, psame_pstep;
  eauto using rc_create_psame, rc_destroy_psame, rc_rename_psame, trait_create_psame, trait_destroy_psame.
Lemma h_rc_create_pmono d v n d' rs : h_rc_create d v n = (d', rs) -> pmono d d'.
Proof. unfold h_rc_create. intros H. same_tail H. Qed.
Lemma h_rc_put_pmono d v n d' rs : h_rc_put d v n = (d', rs) -> pmono d d'.
Proof. unfold h_rc_put. intros H. same_tail H. Qed.
Lemma h_rc_rename_pmono d v o n d' rs : h_rc_rename d v o n = (d', rs) -> pmono d d'.
Proof. unfold h_rc_rename, h_rc_put. intros H. same_tail H. Qed.
Lemma h_rc_delete_pmono d v n d' rs : h_rc_delete d v n = (d', rs) -> pmono d d'.
Proof. unfold h_rc_delete. intros H. same_tail H. Qed.
Lemma h_trait_put_pmono d v n d' rs : h_trait_put d v n = (d', rs) -> pmono d d'.
Proof. unfold h_trait_put. intros H. same_tail H. Qed.
Lemma h_trait_delete_pmono d v n d' rs : h_trait_delete d v n = (d', rs) -> pmono d d'.
Proof. unfold h_trait_delete. intros H. same_tail H. Qed.

(* ------------------------------------------------------------------ aggregates (1.19+) *)
Lemma c10_aggregate_change_increments :
  forall cf d v u0 g0 l d' rs u g g', 19 <= v -> step cf d (AggsSet v u0 g0 l) = (d', rs) ->
    gen_of d u = Some g -> gen_of d' u = Some g' -> rp_aggs_of d u <> rp_aggs_of d' u -> g < g'.
Proof.
  intros cf d v u0 g0 l d' rs u g g' Hv H Hg Hg' N. cbn [step] in H. unfold h_aggs_set in H.
  assert (E19 : (19 <=? v) = true) by (apply Z.leb_le; assumption). rewrite E19 in H.
  repeat (bmH H); try (inv H; exfalso; apply N; reflexivity). inv H.
  use_bumped. match goal with E : bumped _ _ _ _ |- _ => apply bumped_spec in E; destruct E as (H1 & H2 & H3 & _ & _ & _ & _ & H4) end.
  destruct (Z.eq_dec u u0) as [->|Hu].
  - rewrite H1 in Hg. rewrite H2 in Hg'. inv Hg. inv Hg'. lia.
  - exfalso. apply N. symmetry. apply H4. assumption.
Qed.

(* ------------------------------------------------------------------ the reported generation *)
Lemma c10_response_generation :
  forall cf d r d' rs u, Forest d -> step cf d r = (d', rs) -> is_success rs -> 0 <= rgen rs ->
    gen_target r = Some u -> gen_of d' u = Some (rgen rs).
Proof.
  intros cf d r d' rs u _ H S R T. unfold is_success in S.
  destruct r; cbn in T; try discriminate; injection T as ->; cbn [step] in H.
  - unfold h_rp_create in H. repeat bmH H; inv H; cbn in S, R; try lia.
    eapply rp_create_spec; eassumption.
  - unfold h_rp_update in H. repeat bmH H; inv H; cbn in S, R; try lia.
    all: match goal with E : rp_update _ _ _ _ _ = Ok _ |- _ => apply rp_update_spec in E; destruct E as (_ & _ & C) end.
    all: cbn; rewrite C; unfold gen_of;
      match goal with E : find_rp _ _ = Some _ |- _ => rewrite E end; reflexivity.
  - unfold h_inv_set in H. repeat bmH H; inv H; cbn in S, R; try lia.
    use_bumped. match goal with E : bumped _ _ _ _ |- _ => apply bumped_spec in E; destruct E as (_ & E & _); exact E end.
  - unfold h_inv_post in H. repeat bmH H; inv H; cbn in S, R; try lia.
    use_bumped. match goal with E : bumped _ _ _ _ |- _ => apply bumped_spec in E; destruct E as (_ & E & _); exact E end.
  - unfold h_inv_put in H. repeat bmH H; inv H; cbn in S, R; try lia.
    use_bumped. match goal with E : bumped _ _ _ _ |- _ => apply bumped_spec in E; destruct E as (_ & E & _); exact E end.
  - unfold h_traits_set in H. repeat bmH H; inv H; cbn in S, R; try lia.
    cbn. unfold gen_of. match goal with E : find_rp _ _ = Some _ |- _ => rewrite E end. reflexivity.
  - unfold h_aggs_set in H. repeat bmH H; inv H; cbn in S, R; try lia.
    use_bumped. match goal with E : bumped _ _ _ _ |- _ => apply bumped_spec in E; destruct E as (_ & E & _); exact E end.
Qed.

(* ------------------------------------------------------------------ consumer-side relations *)
Definition cle_l (l l' : list consumer) : Prop := forall c, ole (cgl l c) (cgl l' c).
Definition csub_l (l l' : list consumer) : Prop := forall c g, cgl l' c = Some g -> cgl l c = Some g.

Lemma cle_l_refl l : cle_l l l.
Proof. intros c. apply ole_refl. Qed.
Lemma csub_l_refl l : csub_l l l.
Proof. intros c g H. exact H. Qed.
Lemma csub_l_trans l1 l2 l3 : csub_l l1 l2 -> csub_l l2 l3 -> csub_l l1 l3.
Proof. intros H1 H2 c g H. auto. Qed.
Lemma csub_filter (p : Z -> bool) l : csub_l l (filter (fun r => p (c_uuid r)) l).
Proof. intros c g H. rewrite cgl_filter in H. destruct (p c); [assumption|discriminate]. Qed.

(* everything the provider-side and wipe_list reasoning looks at, except the provider rows' generations *)
Definition dsame (d d' : db) : Prop :=
  rps d' = rps d /\ invs d' = invs d /\ allocs d' = allocs d /\ rp_traits d' = rp_traits d.
Lemma dsame_refl d : dsame d d.
Proof. repeat split. Qed.
Lemma dsame_trans d1 d2 d3 : dsame d1 d2 -> dsame d2 d3 -> dsame d1 d3.
Proof. intros (A & B & C & D) (A' & B' & C' & D'). repeat split; congruence. Qed.
Lemma dsame_psame d d' : dsame d d' -> psame d d'.
Proof. intros (A & B & C & D). repeat split; assumption. Qed.

(* ------------------------------------------------------------------ generation CAS loops *)
Lemma cas_rps_spec : forall l d d', cas_rps d l = Ok d' ->
  invs d' = invs d /\ allocs d' = allocs d /\ consumers d' = consumers d /\ rp_traits d' = rp_traits d /\
  (forall u, ole (gen_of d u) (gen_of d' u)) /\
  (forall u, In u (map fst l) -> olt (gen_of d u) (gen_of d' u)).
Proof.
  induction l as [|[u g] l IH]; intros d d' H; cbn in H.
  - injection H as <-. repeat split; auto using ole_refl. intros u [].
  - destruct (incr_rp_gen d u g) as [d1|] eqn:E; [|discriminate]. cbn [bind] in H.
    apply incr_rp_gen_inv in E. destruct E as (l' & E & ->). apply cas_rp_l_spec in E. destruct E as (E1 & E2 & E3).
    destruct (IH _ _ H) as (A & B & C & D & F & G). cbn in A, B, C, D.
    assert (L : olt (gen_of d u) (gen_of (set_rps d l') u)).
    { intros g0 Hg. rewrite gen_of_gl in *. cbn. rewrite E1 in Hg. inv Hg. exists (g0 + 1). split; [assumption|lia]. }
    assert (L' : forall x, ole (gen_of d x) (gen_of (set_rps d l') x)).
    { intros x. destruct (Z.eq_dec x u) as [->|Hx]; [apply olt_ole, L|]. apply ole_eq. rewrite !gen_of_gl; cbn. auto. }
    repeat split; auto.
    + intros x. eapply ole_trans; [apply L'|apply F].
    + intros x [<-|Hx]; cbn.
      * eapply olt_ole_trans; [apply L|apply F].
      * eapply ole_olt_trans; [apply L'|apply G; assumption].
Qed.

Lemma cas_conss_spec : forall l d d', cas_conss d l = Ok d' ->
  dsame d d' /\ cle_l (consumers d) (consumers d') /\
  (forall c, In c (map fst l) -> olt (cgl (consumers d) c) (cgl (consumers d') c)).
Proof.
  induction l as [|[u g] l IH]; intros d d' H; cbn in H.
  - injection H as <-. repeat split; auto using cle_l_refl. intros u [].
  - destruct (incr_cons_gen d u g) as [d1|] eqn:E; [|discriminate]. cbn [bind] in H.
    apply incr_cons_gen_inv in E. destruct E as (l' & E & ->). apply cas_cons_l_spec in E. destruct E as (E1 & E2 & E3).
    destruct (IH _ _ H) as ((A & B & C & D) & F & G). cbn in A, B, C, D, F, G.
    assert (L : olt (cgl (consumers d) u) (cgl l' u)).
    { intros g0 Hg. rewrite E1 in Hg. inv Hg. exists (g0 + 1). split; [assumption|lia]. }
    assert (L' : forall x, ole (cgl (consumers d) x) (cgl l' x)).
    { intros x. destruct (Z.eq_dec x u) as [->|Hx]; [apply olt_ole, L|]. apply ole_eq. auto. }
    split; [repeat split; assumption|]. split.
    + intros x. eapply ole_trans; [apply L'|apply F].
    + intros x [<-|Hx]; cbn.
      * eapply olt_ole_trans; [apply L|apply F].
      * eapply ole_olt_trans; [apply L'|apply G; assumption].
Qed.

Lemma first_by_In : forall l seen u, In u (map fst l) -> memZ u seen = false -> In u (map fst (first_by seen l)).
Proof.
  induction l as [|[k g] l IH]; intros seen u Hin Hs; cbn in *; [assumption|].
  destruct (memZ k seen) eqn:M.
  - destruct Hin as [<-|Hin]; [congruence|]. apply IH; assumption.
  - cbn. destruct (Z.eq_dec k u) as [->|Hk]; [left; reflexivity|]. right.
    destruct Hin as [Hin|Hin]; [congruence|]. apply IH; [assumption|].
    assert (E : (u =? k) = false) by (apply Z.eqb_neq; congruence).
    unfold memZ in *. cbn [existsb]. rewrite E, Hs. reflexivity.
Qed.

(* ------------------------------------------------------------------ what the allocation handlers need of the write transaction *)
Definition txn_ok (txn : db -> list areq -> result db) : Prop := forall d objs d2, txn d objs = Ok d2 ->
  pstep d d2 /\ (forall u, In u (map q_rp objs) -> olt (gen_of d u) (gen_of d2 u)) /\
  exists lm, cle_l (consumers d) lm /\
             (forall c, In c (map q_cons objs) -> olt (cgl (consumers d) c) (cgl lm c)) /\
             csub_l lm (consumers d2).

Lemma set_allocations_ok : txn_ok set_allocations.
Proof.
  intros d l d' H. unfold set_allocations in H. cbv zeta in H.
  destruct (check_capacity _ l) as [[]|]; [|discriminate]. cbn [bind] in H.
  destruct (cas_rps _ _) as [d3|] eqn:E3; [|discriminate]. cbn [bind] in H.
  destruct (cas_conss _ _) as [d4|] eqn:E4; [|discriminate]. cbn [bind] in H.
  injection H as <-.
  apply cas_rps_spec in E3. destruct E3 as (A3 & B3 & C3 & D3 & F3 & G3). cbn in A3, B3, C3, D3.
  apply cas_conss_spec in E4. destruct E4 as ((A4 & B4 & C4 & D4) & F4 & G4).
  assert (GE : forall u, gen_of d4 u = gen_of d3 u) by (intros u; unfold gen_of, find_rp; rewrite A4; reflexivity).
  split; [|split].
  - apply pstep_gens; cbn; [congruence|congruence|].
    intros u. rewrite gen_of_gl. cbn. rewrite <- gen_of_gl, GE. apply (F3 u).
  - intros u Hu. rewrite gen_of_gl. cbn. rewrite <- gen_of_gl, GE. apply (G3 u).
    apply first_by_In; [|reflexivity]. rewrite map_map. cbn. assumption.
  - exists (consumers d4). rewrite C3 in F4, G4. cbn in F4, G4. split; [assumption|]. split.
    + intros c Hc. apply G4. apply first_by_In; [|reflexivity]. rewrite map_map. cbn. assumption.
    + unfold delete_consumers_if_no_allocations. cbn [consumers set_consumers].
      match goal with |- csub_l _ (filter ?f _) =>
        match f with (fun c => negb (memZ _ ?cs && negb (existsb _ ?al))) =>
          apply (csub_filter (fun z => negb (memZ z cs && negb (existsb (fun a => a_cons a =? z) al)))) end end.
Qed.
