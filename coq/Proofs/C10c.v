(* C10 under interleaving (Model/ConcAll.v: every write request as a thread, one step per top-level transaction, any
   number of threads, any schedule): an accounting of provider generations.
     - every step of every thread either leaves every provider generation as it is, or is the ONE committing
       transaction of its request, after which the request's answer is fixed and is a success;
     - so the final generation of a provider that exists throughout is its initial generation plus the increments made
       by the committing transactions of the requests answered with success - requests answered >= 400 (and requests
       not finished) contribute nothing;
     - each successful request contributes what its documented meaning says (bounds per kind; exact for the kinds whose
       meaning does not depend on the state). *)
From PV Require Import Model.ConcAll Proofs.Defs Proofs.C10 Proofs.C05 Proofs.C07d Proofs.C07f Proofs.C07g.
From PV Require Proofs.C09 Proofs.C09c.

(* ================================================================ generations of the providers that stay *)
(* no provider that exists before and after changes its generation *)
Definition quiet (d d' : db) : Prop := forall u g g', gen_of d u = Some g -> gen_of d' u = Some g' -> g' = g.
Lemma quiet_rps d d' : rps d' = rps d -> quiet d d'.
Proof. intros E u g g' H1 H2. rewrite (gen_of_rps d d' u E) in H2. congruence. Qed.
Lemma quiet_refl d : quiet d d.
Proof. apply quiet_rps. reflexivity. Qed.

(* the increment of u's generation over one transaction (0 when u does not exist on one side) *)
Definition gdelta (d d' : db) (u : Z) : Z :=
  match gen_of d u, gen_of d' u with Some g, Some g' => g' - g | _, _ => 0 end.
Lemma quiet_gdelta d d' u : quiet d d' -> gdelta d d' u = 0.
Proof.
  intro H. unfold gdelta. destruct (gen_of d u) as [g|] eqn:E1; [|reflexivity].
  destruct (gen_of d' u) as [g'|] eqn:E2; [|reflexivity]. rewrite (H u g g' E1 E2). lia.
Qed.

(* ================================================================ the answer of a thread, once it is fixed *)
Definition t_resp (t : tstate) : option resp := match t with TDone r | TCleanup _ r => Some r | _ => None end.
Definition a_resp (t : athread) : option resp :=
  match t with
  | ATree (TTDone r) => Some r
  | ATree (TTOther t0) | ACached _ t0 => t_resp t0
  | _ => None
  end.
Lemma a_done_resp t r : a_done t = Some r -> a_resp t = Some r.
Proof.
  destruct t as [[]| | | | | | | | | | | | | | | | | | | |]; cbn [a_done a_resp tt_done]; try discriminate; auto;
    destruct t; cbn [tdone t_resp]; try discriminate; auto.
Qed.
Lemma anote_resp gt gp t : a_resp (anote gt gp t) = a_resp t.
Proof. destruct t; reflexivity. Qed.

Lemma cleanup_resp us r : t_resp (cleanup_or_done us r) = Some r.
Proof. destruct us; reflexivity. Qed.

(* ================================================================ transactions that do not touch the providers table *)
Lemma dcina_rps d l : rps (delete_consumers_if_no_allocations d l) = rps d.
Proof. reflexivity. Qed.

(* a thread of Model/Conc.v: every transaction but the committing ones (TProvWrite, TMain) leaves rps alone *)
Lemma tstep_rps t d : (match t with TProvWrite _ _ | TMain _ _ _ => False | _ => True end) -> rps (fst (tstep t d)) = rps d.
Proof.
  destruct t; cbn [tstep]; intro H; try contradiction; try reflexivity.
  - destruct (prov_target r); [|reflexivity]. destruct (find_rp d z); [|reflexivity]. destruct (prov_precheck r r0 d); reflexivity.
  - destruct todo as [|r rest]; [reflexivity|]. destruct (find_rp d (ri_rp r)); [|reflexivity]. destruct (negb _); reflexivity.
  - destruct todo as [|c rest]; [reflexivity|]. cbv zeta. destruct (rq_attrs (x_cf x) (x_v x) c) as [[pj us] ty].
    destruct (find_cons d (ci_uuid c)); destruct (_ && _); cbn [fst]; apply (proj1 (aux_names_rps _ _ _ _)).
  - destruct (rq_attrs (x_cf x) (x_v x) c) as [[pj us] ty]. destruct (find_cons d (ci_uuid c)); reflexivity.
  - destruct (rq_attrs (x_cf x) (x_v x) c) as [[pj us] ty]. destruct (find_cons d (ci_uuid c)); [|reflexivity].
    destruct (28 <=? x_v x); reflexivity.
  - destruct todo as [|w rest]; [reflexivity|]. cbv zeta. destruct w; [reflexivity|]. destruct (find_rp d (ai_rp a)); reflexivity.
  - destruct todo; reflexivity.
  - destruct (wipe_list d c); reflexivity.
Qed.

(* a settled thread of Model/Conc.v stays settled with the same answer, and its transactions are quiet *)
Lemma tstep_settled t d r : t_resp t = Some r -> t_resp (snd (tstep t d)) = Some r /\ rps (fst (tstep t d)) = rps d.
Proof.
  destruct t; cbn [t_resp]; try discriminate; intros [= ->]; cbn [tstep].
  - split; reflexivity.
  - destruct todo as [|u rest]; [split; reflexivity|]. cbn [fst snd]. split; [destruct rest; reflexivity|reflexivity].
Qed.

(* ================================================================ the committing transactions *)
(* exactly the generation of u0 moves, by one *)
Definition bump1 (u0 : Z) (d d' : db) : Prop :=
  (exists g, gen_of d u0 = Some g /\ gen_of d' u0 = Some (g + 1)) /\ forall x, x <> u0 -> gen_of d' x = gen_of d x.
Lemma bumped_bump1 u g d d' : bumped u g d d' -> bump1 u d d'.
Proof. intro H. apply bumped_spec in H. destruct H as (A & B & C & _). split; [eauto|exact C]. Qed.
Lemma bump1_gdelta u0 d d' u : bump1 u0 d d' -> gdelta d d' u = if u =? u0 then 1 else 0.
Proof.
  intros [[g [A B]] C]. unfold gdelta. destruct (u =? u0) eqn:E.
  - apply Z.eqb_eq in E. subst u. rewrite A, B. lia.
  - apply Z.eqb_neq in E. rewrite (C u E). destruct (gen_of d u); [lia|reflexivity].
Qed.

Lemma set_traits_c_class d u g w d' : set_traits_c d u g w = Ok d' -> d' = d \/ bump1 u d d'.
Proof.
  unfold set_traits_c.
  destruct (filter (fun t => negb (memZ t (traits_of d u))) w);
    destruct (filter (fun t => negb (memZ t w)) (traits_of d u)); intro H;
    try (apply set_traits_txn_bumped in H; destruct H as [H|H]; [left; exact H|right; eapply bumped_bump1; exact H]).
  destruct (find_rp d u) as [r|]; [|discriminate]. destruct (rp_gen r =? g); [|discriminate]. injection H as <-. left. reflexivity.
Qed.

(* the write transaction of a provider write (Model/Conc.v): nothing, or the target's generation + 1 with a success *)
Lemma prov_write_class r g d d' rs : prov_write r g d = (d', rs) ->
  d' = d \/ rps d' = rps d \/ (status rs < 300 /\ exists u0, prov_target r = Some u0 /\ bump1 u0 d d').
Proof.
  unfold prov_write. destruct r; try (intros [= <- <-]; left; reflexivity); cbn [prov_target].
  - destruct (set_inventory d u g l) as [d1|e] eqn:E; [|destruct e; intros [= <- <-]; left; reflexivity].
    intros [= <- <-]. right. right. split; [cbn; lia|]. exists u. split; [reflexivity|]. eapply bumped_bump1, set_inventory_bumped, E.
  - destruct (add_inventory d u g x) as [d1|e] eqn:E; [|destruct e; intros [= <- <-]; left; reflexivity].
    intros [= <- <-]. right. right. split; [cbn; lia|]. exists u. split; [reflexivity|]. eapply bumped_bump1, add_inventory_bumped, E.
  - destruct (update_inventory d u g x) as [d1|e] eqn:E; [|destruct e; intros [= <- <-]; left; reflexivity].
    intros [= <- <-]. right. right. split; [cbn; lia|]. exists u. split; [reflexivity|]. eapply bumped_bump1, update_inventory_bumped, E.
  - destruct (delete_inventory d u g rc) as [d1|e] eqn:E; [|destruct e; intros [= <- <-]; left; reflexivity].
    intros [= <- <-]. right. right. split; [cbn; lia|]. exists u. split; [reflexivity|]. eapply bumped_bump1, delete_inventory_bumped, E.
  - destruct (set_inventory d u g []) as [d1|e] eqn:E; [|destruct e; intros [= <- <-]; left; reflexivity].
    intros [= <- <-]. right. right. split; [cbn; lia|]. exists u. split; [reflexivity|]. eapply bumped_bump1, set_inventory_bumped, E.
  - destruct (set_traits_c d u g ts) as [d1|e] eqn:E; [|intros [= <- <-]; left; reflexivity].
    intros [= <- <-]. destruct (set_traits_c_class _ _ _ _ _ E) as [->|H]; [left; reflexivity|].
    right. right. split; [cbn; lia|]. exists u. split; [reflexivity|exact H].
  - destruct (set_traits_c d u g []) as [d1|e] eqn:E; [|intros [= <- <-]; left; reflexivity].
    intros [= <- <-]. destruct (set_traits_c_class _ _ _ _ _ E) as [->|H]; [left; reflexivity|].
    right. right. split; [cbn; lia|]. exists u. split; [reflexivity|exact H].
  - destruct (set_aggregates_txn d u g (dedup l) (19 <=? v)) as [d1|e] eqn:E; [|intros [= <- <-]; left; reflexivity].
    intros [= <- <-]. destruct (19 <=? v) eqn:Ev.
    + right. right. split; [cbn; lia|]. exists u. split; [reflexivity|]. eapply bumped_bump1, set_aggregates_txn_bumped, E.
    + right. left. apply set_aggregates_txn_false in E. apply E.
Qed.

(* the main transaction of PUT / POST /allocations: every provider of the allocation objects + 1, nothing else *)
Lemma replace_all_gens d d1 objs d' : rps d1 = rps d -> replace_all retry_fuel d d1 objs = Ok d' ->
  (forall u, In u (map q_rp objs) -> exists g, gen_of d u = Some g /\ gen_of d' u = Some (g + 1)) /\
  (forall u, ~ In u (map q_rp objs) -> gen_of d' u = gen_of d u).
Proof.
  intros E H.
  assert (Hle : gens_le d d1).
  { intros u g Hg. exists g. split; [rewrite (gen_of_rps d d1 u E); exact Hg|lia]. }
  pose proof (replace_all_fresh _ _ _ _ _ Hle H) as Hs. destruct (saw_ok_gens _ _ _ Hs) as [S1 S2].
  rewrite fresh_q_rp in S1, S2. split.
  - intros u Hu. destruct (S1 u Hu) as [g [A B]]. exists g. rewrite <- (gen_of_rps d d1 u E). auto.
  - intros u Hu. rewrite (S2 u Hu). apply gen_of_rps. exact E.
Qed.

(* ================================================================ what a request may still add to u's generation *)
Definition b01 (u0 u : Z) : Z := if u =? u0 then 1 else 0.
(* (least, greatest) increment of u by a successful request; greatest = None: not bounded here (POST /reshaper) *)
Definition req_bounds (r : req) (u : Z) : Z * option Z :=
  match r with
  | InvSet _ u0 _ _ | InvPost _ u0 _ | InvPut _ u0 _ _ | InvDelete u0 _ | InvDeleteAll _ u0 => (b01 u0 u, Some (b01 u0 u))
  | TraitsSet _ u0 _ _ | TraitsDelete _ u0 => (0, Some (b01 u0 u))
  | AggsSet v u0 _ _ => if 19 <=? v then (b01 u0 u, Some (b01 u0 u)) else (0, Some 0)
  | _ => (0, Some 0)
  end.
Definition in_bounds (b : Z * option Z) (z : Z) : Prop := fst b <= z /\ match snd b with Some h => z <= h | None => True end.
Definition kind_bounds (k : akind) : Z * option Z := match k with KReshape => (0, None) | _ => (0, Some 1) end.
Definition t_bounds (t : tstate) (u : Z) : Z * option Z :=
  match t with
  | TProvRead r | TProvWrite r _ => req_bounds r u
  | TRi x _ | TCons x _ _ | TCreate x _ _ _ | TReload x _ _ _ | TObjs x _ _ _ | TMain x _ _ => kind_bounds (x_kind x)
  | _ => (0, Some 0)
  end.
Definition a_bounds (t : athread) (u : Z) : Z * option Z :=
  match t with
  | ATree (TTOther t0) | ACached _ t0 | ACacheLoad t0 | ADelLoad t0 => t_bounds t0 u
  | ATraitsRead u0 _ _ | ATraitsLook u0 _ _ | ATraitsWrite u0 _ _ _ => (0, Some (b01 u0 u))
  | AAggsRead v u0 _ _ | AAggsWrite v u0 _ _ _ => if 19 <=? v then (b01 u0 u, Some (b01 u0 u)) else (0, Some 0)
  | _ => (0, Some 0)
  end.

Lemma b01_range u0 u : 0 <= b01 u0 u <= 1.
Proof. unfold b01. destruct (u =? u0); lia. Qed.
Lemma in_bounds_zero b : fst b = 0 -> (match snd b with Some h => 0 <= h | None => True end) -> in_bounds b 0.
Proof. intros H1 H2. unfold in_bounds. rewrite H1. split; [lia|exact H2]. Qed.

(* the outcome of one transaction of a thread whose answer is not fixed yet *)
Definition outcome (resp_after : option resp) (bounds_before bounds_after : Z * option Z) (d d' : db) (u : Z) : Prop :=
  (resp_after = None /\ quiet d d' /\ bounds_after = bounds_before) \/
  (exists r, resp_after = Some r /\ ((300 <= status r /\ quiet d d') \/ (status r < 300 /\ in_bounds bounds_before (gdelta d d' u)))).

Lemma outcome_err b b' d u s c : 300 <= s -> outcome (Some (err s c)) b b' d d u.
Proof. intro H. right. exists (err s c). split; [reflexivity|]. left. split; [exact H|apply quiet_refl]. Qed.
Lemma outcome_open b d d' u : rps d' = rps d -> outcome None b b d d' u.
Proof. intro H. left. split; [reflexivity|]. split; [apply quiet_rps; exact H|reflexivity]. Qed.
Lemma outcome_ok_quiet r b b' d d' u : status r < 300 -> rps d' = rps d -> fst b = 0 ->
  (match snd b with Some h => 0 <= h | None => True end) -> outcome (Some r) b b' d d' u.
Proof.
  intros Hs H H1 H2. right. exists r. split; [reflexivity|]. right. split; [exact Hs|].
  rewrite (quiet_gdelta d d' u (quiet_rps d d' H)). apply in_bounds_zero; assumption.
Qed.
Lemma alloc_err_status e : 300 <= status (alloc_err e).
Proof. destruct e; cbn; lia. Qed.
Lemma reshape_err_status e : 300 <= status (reshape_err e).
Proof. destruct e; cbn; lia. Qed.
Lemma kind_bounds_fst k : fst (kind_bounds k) = 0.
Proof. destruct k; reflexivity. Qed.
Lemma kind_bounds_snd k : match snd (kind_bounds k) with Some h => 0 <= h | None => True end.
Proof. destruct k; cbn; try lia; exact I. Qed.

(* the write transaction of a provider write, against the bounds of its request *)
Lemma prov_write_outcome r g d d' rs u : prov_write r g d = (d', rs) ->
  (300 <= status rs /\ d' = d) \/ (status rs < 300 /\ in_bounds (req_bounds r u) (gdelta d d' u)).
Proof.
  assert (Hb : forall u0 d1, bump1 u0 d d1 -> in_bounds (b01 u0 u, Some (b01 u0 u)) (gdelta d d1 u)).
  { intros u0 d1 H. rewrite (bump1_gdelta u0 d d1 u H). unfold in_bounds, b01. cbn [fst snd]. destruct (u =? u0); lia. }
  assert (Hb0 : forall u0 d1, bump1 u0 d d1 -> in_bounds (0, Some (b01 u0 u)) (gdelta d d1 u)).
  { intros u0 d1 H. rewrite (bump1_gdelta u0 d d1 u H). unfold in_bounds, b01. cbn [fst snd]. destruct (u =? u0); lia. }
  assert (Hq : forall u0, in_bounds (0, Some (b01 u0 u)) (gdelta d d u)).
  { intro u0. rewrite (quiet_gdelta d d u (quiet_refl d)). apply in_bounds_zero; [reflexivity|]. cbn. apply b01_range. }
  unfold prov_write. destruct r; try (intros [= <- <-]; left; split; [cbn; lia|reflexivity]); cbn [req_bounds].
  - destruct (set_inventory d u0 g l) as [d1|e] eqn:E; [|destruct e; (intros [= <- <-]; left; split; [cbn; lia|reflexivity])].
    intros [= <- <-]. right. split; [cbn; lia|]. eapply Hb, bumped_bump1, set_inventory_bumped, E.
  - destruct (add_inventory d u0 g x) as [d1|e] eqn:E; [|destruct e; (intros [= <- <-]; left; split; [cbn; lia|reflexivity])].
    intros [= <- <-]. right. split; [cbn; lia|]. eapply Hb, bumped_bump1, add_inventory_bumped, E.
  - destruct (update_inventory d u0 g x) as [d1|e] eqn:E; [|destruct e; (intros [= <- <-]; left; split; [cbn; lia|reflexivity])].
    intros [= <- <-]. right. split; [cbn; lia|]. eapply Hb, bumped_bump1, update_inventory_bumped, E.
  - destruct (delete_inventory d u0 g rc) as [d1|e] eqn:E; [|destruct e; (intros [= <- <-]; left; split; [cbn; lia|reflexivity])].
    intros [= <- <-]. right. split; [cbn; lia|]. eapply Hb, bumped_bump1, delete_inventory_bumped, E.
  - destruct (set_inventory d u0 g []) as [d1|e] eqn:E; [|destruct e; (intros [= <- <-]; left; split; [cbn; lia|reflexivity])].
    intros [= <- <-]. right. split; [cbn; lia|]. eapply Hb, bumped_bump1, set_inventory_bumped, E.
  - destruct (set_traits_c d u0 g ts) as [d1|e] eqn:E; [|intros [= <- <-]; left; split; [cbn; lia|reflexivity]].
    intros [= <- <-]. right. split; [destruct (traits_differ d u0 ts); cbn; lia|].
    destruct (set_traits_c_class _ _ _ _ _ E) as [->|H]; [apply Hq|apply Hb0; exact H].
  - destruct (set_traits_c d u0 g []) as [d1|e] eqn:E; [|intros [= <- <-]; left; split; [cbn; lia|reflexivity]].
    intros [= <- <-]. right. split; [cbn; lia|].
    destruct (set_traits_c_class _ _ _ _ _ E) as [->|H]; [apply Hq|apply Hb0; exact H].
  - destruct (set_aggregates_txn d u0 g (dedup l) (19 <=? v)) as [d1|e] eqn:E; [|intros [= <- <-]; left; split; [cbn; lia|reflexivity]].
    intros [= <- <-]. right. destruct (19 <=? v) eqn:Ev; (split; [cbn; lia|]).
    + eapply Hb, bumped_bump1, set_aggregates_txn_bumped, E.
    + apply set_aggregates_txn_false in E. rewrite (quiet_gdelta d d1 u (quiet_rps d d1 (proj1 E))).
      apply in_bounds_zero; [reflexivity|cbn; lia].
Qed.

Lemma gdelta_same d d' u : gen_of d' u = gen_of d u -> gdelta d d' u = 0.
Proof. intro E. unfold gdelta. rewrite E. destruct (gen_of d u); [lia|reflexivity]. Qed.
Lemma ole_gdelta d d' u : ole (gen_of d u) (gen_of d' u) -> 0 <= gdelta d d' u.
Proof.
  intro H. unfold gdelta. destruct (gen_of d u) as [g|] eqn:E; [|lia]. destruct (H g eq_refl) as [g' [E' Hle]]. rewrite E'. lia.
Qed.

Lemma main_txn_bounds x ks objs d d' u : main_txn x ks objs d = Ok d' -> in_bounds (kind_bounds (x_kind x)) (gdelta d d' u).
Proof.
  intro H.
  assert (Hmono : 0 <= gdelta d d' u).
  { apply ole_gdelta. apply (tstep_mono (TMain x ks objs) d d' (cleanup_or_done (created_uuids (empty_created ks (x_all x))) (ok 204))).
    cbn [tstep]. rewrite H. reflexivity. }
  assert (Hput : replace_all retry_fuel d (fold_left update_consumer ks d) objs = Ok d' -> in_bounds (0, Some 1) (gdelta d d' u)).
  { intro Hr. destruct (replace_all_gens d _ objs d' (C09.fold_update_consumer_rps ks d) Hr) as [S1 S2].
    destruct (in_dec Z.eq_dec u (map q_rp objs)) as [Hin|Hni].
    - destruct (S1 u Hin) as [g [A B]]. unfold gdelta. rewrite A, B. unfold in_bounds. cbn [fst snd]. lia.
    - rewrite (gdelta_same d d' u (S2 u Hni)). unfold in_bounds. cbn [fst snd]. lia. }
  unfold main_txn in H. cbv zeta in H. destruct (x_kind x); cbn [kind_bounds].
  - apply Hput. exact H.
  - apply Hput. exact H.
  - unfold in_bounds. cbn [fst snd]. auto.
Qed.

Lemma prov_precheck_status r me d e : prov_precheck r me d = Some e -> 300 <= status e.
Proof.
  unfold prov_precheck. destruct r; try discriminate;
    repeat match goal with |- context [if ?b then _ else _] => destruct b end; try discriminate; intros [= <-]; cbn; lia.
Qed.

Lemma after_cons_open x ks u : t_resp (after_cons x ks) = None /\ t_bounds (after_cons x ks) u = kind_bounds (x_kind x).
Proof. unfold after_cons. destruct (work_items ks (x_all x)); split; reflexivity. Qed.

(* one transaction of a thread of Model/Conc.v *)
Lemma t_acct t d u :
  match t_resp t with
  | Some r => t_resp (snd (tstep t d)) = Some r /\ quiet d (fst (tstep t d))
  | None => outcome (t_resp (snd (tstep t d))) (t_bounds t u) (t_bounds (snd (tstep t d)) u) d (fst (tstep t d)) u
  end.
Proof.
  destruct (t_resp t) as [r0|] eqn:Er.
  { destruct (tstep_settled t d r0 Er) as [A B]. split; [exact A|apply quiet_rps; exact B]. }
  assert (Hopen_ac : forall x ks d1, rps d1 = rps d ->
            outcome (t_resp (after_cons x ks)) (kind_bounds (x_kind x)) (t_bounds (after_cons x ks) u) d d1 u).
  { intros x ks d1 E. destruct (after_cons_open x ks u) as [A B]. rewrite A, B. apply outcome_open. exact E. }
  assert (Hcl : forall us s c b b' d1, 300 <= s -> rps d1 = rps d -> outcome (t_resp (cleanup_or_done us (err s c))) b b' d d1 u).
  { intros us s c b b' d1 Hs E. rewrite cleanup_resp. right. exists (err s c). split; [reflexivity|]. left. split; [exact Hs|apply quiet_rps; exact E]. }
  destruct t; cbn [t_resp] in Er; try discriminate; cbn [tstep t_bounds].
  - (* TProvRead *)
    destruct (prov_target r) as [u0|]; [|cbn [fst snd t_resp]; apply outcome_err; lia].
    destruct (find_rp d u0) as [me|]; [|cbn [fst snd t_resp]; apply outcome_err; lia].
    destruct (prov_precheck r me d) as [e|] eqn:Ep; cbn [fst snd t_resp t_bounds].
    + right. exists e. split; [reflexivity|]. left. split; [eapply prov_precheck_status; exact Ep|apply quiet_refl].
    + apply outcome_open. reflexivity.
  - (* TProvWrite *)
    destruct (prov_write r g d) as [d' rs] eqn:Ew. cbn [fst snd t_resp]. right. exists rs. split; [reflexivity|].
    destruct (prov_write_outcome r g d d' rs u Ew) as [[Hs ->]|[Hs Hb]]; [left; split; [exact Hs|apply quiet_refl]|right; auto].
  - (* TRi *)
    destruct todo as [|r rest]; cbn [fst snd].
    + destruct (x_all x) as [|c l]; [apply Hopen_ac; reflexivity|]. cbn [t_resp t_bounds]. apply outcome_open. reflexivity.
    + destruct (find_rp d (ri_rp r)) as [me|]; [|cbn [fst snd t_resp]; apply outcome_err; lia].
      destruct (negb (ri_gen r =? rp_gen me)); cbn [fst snd t_resp]; [apply outcome_err; lia|].
      destruct rest as [|r2 rest2]; [|cbn [t_resp t_bounds]; apply outcome_open; reflexivity].
      destruct (x_all x) as [|c l]; [apply Hopen_ac; reflexivity|]. cbn [t_resp t_bounds]. apply outcome_open. reflexivity.
  - (* TCons *)
    destruct todo as [|c rest]; cbn [fst snd]; [apply Hopen_ac; reflexivity|]. cbv zeta.
    destruct (rq_attrs (x_cf x) (x_v x) c) as [[pj us] ty].
    pose proof (proj1 (aux_names_rps (x_cf x) (x_v x) d c)) as Ea.
    destruct (find_cons d (ci_uuid c)) as [k|]; destruct (_ && _); cbn [fst snd]; try (apply Hcl; [lia|exact Ea]).
    + destruct rest as [|c2 rest2]; [apply Hopen_ac; exact Ea|]. cbn [t_resp t_bounds]. apply outcome_open. exact Ea.
    + cbn [t_resp t_bounds]. apply outcome_open. exact Ea.
  - (* TCreate *)
    destruct (rq_attrs (x_cf x) (x_v x) c) as [[pj us] ty].
    destruct (find_cons d (ci_uuid c)) as [k|]; cbn [fst snd]; [cbn [t_resp t_bounds]; apply outcome_open; reflexivity|].
    destruct todo as [|c2 rest2]; [apply Hopen_ac; reflexivity|]. cbn [t_resp t_bounds]. apply outcome_open. reflexivity.
  - (* TReload *)
    destruct (rq_attrs (x_cf x) (x_v x) c) as [[pj us] ty].
    destruct (find_cons d (ci_uuid c)) as [k|]; cbn [fst snd]; [|apply Hcl; [lia|reflexivity]].
    destruct (28 <=? x_v x); cbn [fst snd]; [apply Hcl; [lia|reflexivity]|].
    destruct todo as [|c2 rest2]; [apply Hopen_ac; reflexivity|]. cbn [t_resp t_bounds]. apply outcome_open. reflexivity.
  - (* TObjs *)
    destruct todo as [|w rest]; cbn [fst snd]; [cbn [t_resp t_bounds]; apply outcome_open; reflexivity|]. cbv zeta.
    destruct w as [k|k a].
    + cbn [fst snd]. destruct rest; cbn [t_resp t_bounds]; apply outcome_open; reflexivity.
    + destruct (find_rp d (ai_rp a)); cbn [fst snd]; [|apply Hcl; [lia|reflexivity]].
      destruct rest; cbn [t_resp t_bounds]; apply outcome_open; reflexivity.
  - (* TMain *)
    destruct (main_txn x ks objs d) as [d'|e] eqn:Em; cbn [fst snd]; rewrite cleanup_resp.
    + right. eexists. split; [reflexivity|]. right. split; [cbn; lia|]. apply (main_txn_bounds x ks objs d d' u Em).
    + right. eexists. split; [reflexivity|]. left. split; [|apply quiet_refl].
      unfold main_err. destruct (x_kind x); [apply alloc_err_status|apply alloc_err_status|apply reshape_err_status].
  - (* TDelRead *)
    destruct (wipe_list d c); cbn [fst snd t_resp t_bounds]; [apply outcome_err; lia|apply outcome_open; reflexivity].
  - (* TDelRows *) cbn [fst snd t_resp t_bounds]. apply outcome_open. reflexivity.
  - (* TDelCons *) cbn [fst snd t_resp]. apply outcome_ok_quiet; [cbn; lia|reflexivity|reflexivity|cbn; lia].
Qed.

(* ================================================================ provider create / update / delete are quiet *)
Lemma rp_create_quiet d u name parent d' : rp_create d u name parent = Ok d' -> quiet d d'.
Proof.
  unfold rp_create. intro H.
  match type of H with bind ?r _ = _ => destruct r as [root|e]; cbn [bind] in H; [|discriminate] end.
  destruct (existsb _ (rps d)); [discriminate|]. injection H as <-. intros x g g' H1 H2.
  rewrite gen_of_gl in H1, H2. cbn [rps set_rps] in H2. rewrite gl_app1, H1 in H2. congruence.
Qed.
Lemma h_rp_create_quiet d v u name parent : quiet d (fst (h_rp_create d v u name parent)).
Proof.
  unfold h_rp_create. destruct (_ && _); [apply quiet_refl|].
  destruct (rp_create d u name parent) as [d'|e] eqn:E; [cbn [fst]; eapply rp_create_quiet; exact E|destruct e; apply quiet_refl].
Qed.
Lemma rp_update_quiet d me name np ar d' : rp_update d me name np ar = Ok d' -> quiet d d'.
Proof. intro H. apply rp_update_spec in H. destruct H as (_ & _ & H). intros x g g' H1 H2. rewrite H in H2. congruence. Qed.
Lemma rp_delete_quiet d u d' : rp_delete d u = Ok d' -> quiet d d'.
Proof.
  intro H. apply rp_delete_spec in H. destruct H as [H0 H]. intros x g g' H1 H2.
  destruct (Z.eq_dec x u) as [->|Hx]; [congruence|]. rewrite (proj1 (H x Hx)) in H2. congruence.
Qed.

Lemma outcome_settle_quiet r b b' d d' u : quiet d d' -> fst b = 0 ->
  (match snd b with Some h => 0 <= h | None => True end) -> outcome (Some r) b b' d d' u.
Proof.
  intros Hq H1 H2. right. exists r. split; [reflexivity|]. destruct (Z_lt_le_dec (status r) 300) as [Hs|Hs].
  - right. split; [exact Hs|]. rewrite (quiet_gdelta d d' u Hq). apply in_bounds_zero; assumption.
  - left. auto.
Qed.

Lemma acached_default cf snap t0 d :
  (forall x ks k rest objs, t0 <> TObjs x ks (WWipe k :: rest) objs) -> (forall x ks objs, t0 <> TMain x ks objs) ->
  astep cf (ACached snap t0) d = (ACached snap (snd (tstep t0 d)), fst (tstep t0 d)).
Proof.
  intros H1 H2. cbn [astep].
  destruct t0 as [r|r|r g|x todo|x todo acc|x c todo acc|x c todo acc|x ks todo objs|x ks objs|todo r|c|c rows|c];
    try (destruct (tstep _ d); reflexivity).
  - destruct todo as [|[k|k a] rest]; try (destruct (tstep _ d); reflexivity). exfalso. eapply H1. reflexivity.
  - exfalso. eapply H2. reflexivity.
Qed.

(* one transaction of any thread of Model/ConcAll.v *)
Lemma a_acct cf t d u :
  match a_resp t with
  | Some r => a_resp (fst (astep cf t d)) = Some r /\ quiet d (snd (astep cf t d))
  | None => outcome (a_resp (fst (astep cf t d))) (a_bounds t u) (a_bounds (fst (astep cf t d)) u) d (snd (astep cf t d)) u
  end.
Proof.
  assert (Hwrap : forall t0 (W : tstate -> athread),
            (forall t1, a_resp (W t1) = t_resp t1) -> (forall t1, a_bounds (W t1) u = t_bounds t1 u) ->
            match t_resp t0 with
            | Some r => a_resp (W (snd (tstep t0 d))) = Some r /\ quiet d (fst (tstep t0 d))
            | None => outcome (a_resp (W (snd (tstep t0 d)))) (t_bounds t0 u) (a_bounds (W (snd (tstep t0 d))) u) d (fst (tstep t0 d)) u
            end).
  { intros t0 W H1 H2. pose proof (t_acct t0 d u) as H. rewrite H1, H2. exact H. }
  destruct t as [t0|snap t0|t0|c|t0|u0 g ts|u0 ts g|u0 ts g lost|v u0 g l|v u0 l g gone|n|n|n|old new|id new|n|id|t1|t1|t1|t1 stale].
  - (* ATree *)
    destruct t0 as [r|v u0 name parent|v u0 name parent|v u0 name np g|u0|u0|t0]; cbn [a_resp astep ttstep].
    + split; [reflexivity|apply quiet_refl].
    + destruct (h_rp_create d v u0 name parent) as [d' r] eqn:E. cbn [fst snd a_resp a_bounds].
      apply outcome_settle_quiet; [|reflexivity|cbn; lia]. pose proof (h_rp_create_quiet d v u0 name parent) as H. rewrite E in H. exact H.
    + destruct (find_rp d u0) as [me|]; cbn [fst snd a_resp]; [|apply outcome_err; lia].
      destruct (_ && _); cbn [fst snd a_resp a_bounds]; [apply outcome_err; lia|apply outcome_open; reflexivity].
    + destruct (find_rp d u0) as [me|]; cbn [fst snd a_resp]; [|apply outcome_err; lia].
      destruct (rp_update d me name np (37 <=? v)) as [d'|e] eqn:E; cbn [rp_update_answer fst snd a_resp a_bounds].
      * apply outcome_settle_quiet; [eapply rp_update_quiet; exact E|reflexivity|cbn; lia].
      * destruct e; cbn [fst snd a_resp]; apply outcome_err; lia.
    + destruct (find_rp d u0); cbn [fst snd a_resp a_bounds]; [apply outcome_open; reflexivity|apply outcome_err; lia].
    + destruct (rp_delete d u0) as [d'|e] eqn:E; cbn [rp_delete_answer fst snd a_resp a_bounds].
      * apply outcome_settle_quiet; [eapply rp_delete_quiet; exact E|reflexivity|cbn; lia].
      * destruct e; cbn [fst snd a_resp]; apply outcome_err; lia.
    + pose proof (Hwrap t0 (fun t1 => ATree (TTOther t1)) (fun _ => eq_refl) (fun _ => eq_refl)) as H.
      destruct (tstep t0 d) as [d' t']. exact H.
  - (* ACached *)
    cbn [a_resp].
    destruct t0 as [r|r|r g|x todo|x todo acc|x c todo acc|x c todo acc|x ks todo objs|x ks objs|todo r|c|c rows|c];
      try (rewrite acached_default by (intros; discriminate); cbn [fst snd];
           match goal with |- context [tstep ?tt d] => exact (Hwrap tt (fun t1 => ACached snap t1) (fun _ => eq_refl) (fun _ => eq_refl)) end).
    + (* TObjs *)
      destruct todo as [|[k|k a] rest];
        try (rewrite acached_default by (intros; discriminate); cbn [fst snd];
             match goal with |- context [tstep ?tt d] => exact (Hwrap tt (fun t1 => ACached snap t1) (fun _ => eq_refl) (fun _ => eq_refl)) end).
      cbn [astep tstep t_resp]. destruct (cache_misses snap (wipe_list d (co_uuid k)));
        destruct rest; cbn [fst snd a_resp a_bounds t_resp t_bounds]; apply outcome_open; reflexivity.
    + (* TMain *)
      cbn [astep t_resp a_bounds t_bounds]. unfold main_txn_cached.
      destruct (main_txn x ks objs (set_rcs d (rcs d ++ stale_rows d snap))) as [d'|e] eqn:Em; cbn [fst snd a_resp]; rewrite cleanup_resp.
      * right. eexists. split; [reflexivity|]. right. split; [cbn; lia|].
        exact (main_txn_bounds x ks objs _ d' u Em).
      * right. eexists. split; [reflexivity|]. left. split; [|apply quiet_refl].
        unfold main_err. destruct (x_kind x); [apply alloc_err_status|apply alloc_err_status|apply reshape_err_status].
  - (* ACacheLoad *)
    cbn [a_resp astep fst snd a_bounds]. destruct (t_resp t0) as [r|] eqn:Er; [|apply outcome_open; reflexivity].
    assert (Hb : t_bounds t0 u = (0, Some 0)) by (destruct t0; cbn [t_resp] in Er; try discriminate; reflexivity).
    rewrite Hb. apply outcome_settle_quiet; [apply quiet_refl|reflexivity|cbn; lia].
  - (* ADelRead *)
    cbn [a_resp astep tstep a_bounds]. destruct (wipe_list d c); cbn [tdone fst snd a_resp t_resp a_bounds t_bounds];
      [apply outcome_err; lia|apply outcome_open; reflexivity].
  - (* ADelLoad *)
    cbn [a_resp astep fst snd a_bounds]. destruct (t_resp t0) as [r|] eqn:Er; [|apply outcome_open; reflexivity].
    assert (Hb : t_bounds t0 u = (0, Some 0)) by (destruct t0; cbn [t_resp] in Er; try discriminate; reflexivity).
    rewrite Hb. apply outcome_settle_quiet; [apply quiet_refl|reflexivity|cbn; lia].
  - (* ATraitsRead *)
    cbn [a_resp astep a_bounds]. destruct (find_rp d u0) as [me|]; cbn [fst snd a_resp]; [|apply outcome_err; lia].
    destruct (negb (g =? rp_gen me)); cbn [fst snd a_resp a_bounds]; [apply outcome_err; lia|apply outcome_open; reflexivity].
  - (* ATraitsLook *)
    cbn [a_resp astep a_bounds]. destruct (negb _); cbn [fst snd a_resp a_bounds]; [apply outcome_err; lia|apply outcome_open; reflexivity].
  - (* ATraitsWrite *)
    cbn [a_resp astep a_bounds]. destruct (existsb _ ts); cbn [fst snd a_resp]; [apply outcome_err; lia|].
    unfold set_traits_chk. destruct (forallb _ _); cbn [fst snd a_resp]; [|apply outcome_err; lia].
    destruct (set_traits_c d u0 g ts) as [d'|e] eqn:E; cbn [fst snd a_resp]; [|destruct e; cbn [fst snd a_resp]; apply outcome_err; lia].
    right. eexists. split; [reflexivity|]. right. split; [destruct (traits_differ d u0 ts); cbn; lia|].
    destruct (set_traits_c_class _ _ _ _ _ E) as [->|H].
    + rewrite (quiet_gdelta d d u (quiet_refl d)). apply in_bounds_zero; [reflexivity|]. cbn. apply b01_range.
    + rewrite (bump1_gdelta u0 d d' u H). unfold in_bounds, b01. cbn [fst snd]. destruct (u =? u0); lia.
  - (* AAggsRead *)
    cbn [a_resp astep a_bounds]. destruct (find_rp d u0) as [me|]; cbn [fst snd a_resp]; [|apply outcome_err; lia].
    destruct (_ && _); cbn [fst snd a_resp a_bounds]; [apply outcome_err; lia|apply outcome_open; reflexivity].
  - (* AAggsWrite *)
    cbn [a_resp astep a_bounds]. destruct (if gone then None else find_rp d u0); cbn [fst snd a_resp]; [|apply outcome_err; lia].
    destruct (set_aggregates_txn d u0 g (dedup l) (19 <=? v)) as [d'|e] eqn:E; cbn [fst snd a_resp]; [|apply outcome_err; lia].
    right. eexists. split; [reflexivity|]. right. destruct (19 <=? v) eqn:Ev; (split; [cbn; lia|]).
    + pose proof (bumped_bump1 _ _ _ _ (set_aggregates_txn_bumped _ _ _ _ _ E)) as H.
      rewrite (bump1_gdelta u0 d d' u H). unfold in_bounds, b01. cbn [fst snd]. destruct (u =? u0); lia.
    + apply set_aggregates_txn_false in E. rewrite (quiet_gdelta d d' u (quiet_rps d d' (proj1 E))).
      apply in_bounds_zero; [reflexivity|cbn; lia].
  - (* ARcCreate *)
    cbn [a_resp astep a_bounds]. destruct (rc_create d n) as [d'|e] eqn:E; cbn [fst snd a_resp]; [|apply outcome_err; lia].
    apply outcome_ok_quiet; [cbn; lia|apply (rc_create_psame _ _ _ E)|reflexivity|cbn; lia].
  - (* ARcPutLook *)
    cbn [a_resp astep a_bounds]. destruct (rc_id_of_name d n); cbn [fst snd a_resp a_bounds];
      [apply outcome_ok_quiet; [cbn; lia|reflexivity|reflexivity|cbn; lia]|apply outcome_open; reflexivity].
  - (* ARcPutCreate *)
    cbn [a_resp astep a_bounds]. destruct (rc_create d n) as [d'|e] eqn:E; cbn [fst snd a_resp];
      (apply outcome_ok_quiet; [cbn; lia| |reflexivity|cbn; lia]); [apply (rc_create_psame _ _ _ E)|reflexivity].
  - (* ARcRenLook *)
    cbn [a_resp astep a_bounds]. destruct (rc_id_of_name d old) as [id|]; cbn [fst snd a_resp]; [|apply outcome_err; lia].
    destruct (id <? MIN_CUSTOM_RC_ID); cbn [fst snd a_resp a_bounds]; [apply outcome_err; lia|apply outcome_open; reflexivity].
  - (* ARcRenSave *)
    cbn [a_resp astep a_bounds]. destruct (negb _); cbn [fst snd a_resp]; [apply outcome_err; lia|].
    destruct (_ || _); cbn [fst snd a_resp]; [apply outcome_err; lia|].
    apply outcome_ok_quiet; [cbn; lia|reflexivity|reflexivity|cbn; lia].
  - (* ARcDelLook *)
    cbn [a_resp astep a_bounds]. destruct (rc_id_of_name d n) as [id|]; cbn [fst snd a_resp]; [|apply outcome_err; lia].
    destruct (id <? MIN_CUSTOM_RC_ID); cbn [fst snd a_resp a_bounds]; [apply outcome_err; lia|apply outcome_open; reflexivity].
  - (* ARcDestroy *)
    cbn [a_resp astep a_bounds]. destruct (existsb _ (invs d)); cbn [fst snd a_resp]; [apply outcome_err; lia|].
    destruct (negb _); cbn [fst snd a_resp]; [apply outcome_err; lia|].
    apply outcome_ok_quiet; [cbn; lia|reflexivity|reflexivity|cbn; lia].
  - (* ATraitPutLook *)
    cbn [a_resp astep a_bounds]. destruct (trait_exists d t1); cbn [fst snd a_resp a_bounds];
      [apply outcome_ok_quiet; [cbn; lia|reflexivity|reflexivity|cbn; lia]|apply outcome_open; reflexivity].
  - (* ATraitCreate *)
    cbn [a_resp astep a_bounds]. destruct (trait_create d t1) as [d'|e] eqn:E; cbn [fst snd a_resp];
      (apply outcome_ok_quiet; [cbn; lia| |reflexivity|cbn; lia]); [apply (trait_create_psame _ _ _ E)|reflexivity].
  - (* ATraitDelLook *)
    cbn [a_resp astep a_bounds]. destruct (negb _); cbn [fst snd a_resp]; [apply outcome_err; lia|].
    destruct (is_std_trait t1); cbn [fst snd a_resp a_bounds]; [apply outcome_err; lia|apply outcome_open; reflexivity].
  - (* ATraitDestroy *)
    cbn [a_resp astep a_bounds]. destruct stale; cbn [fst snd a_resp]; [apply outcome_err; lia|].
    destruct (existsb _ (rp_traits d)); cbn [fst snd a_resp]; [apply outcome_err; lia|].
    destruct (negb _); cbn [fst snd a_resp]; [apply outcome_err; lia|].
    apply outcome_ok_quiet; [cbn; lia|reflexivity|reflexivity|cbn; lia].
Qed.

(* ================================================================ schedules: a tally of increments per request *)
Fixpoint add_nth (i : nat) (z : Z) (l : list Z) : list Z :=
  match l, i with
  | [], _ => []
  | x :: r, O => (x + z) :: r
  | x :: r, S i' => x :: add_nth i' z r
  end.
Fixpoint sumZ (l : list Z) : Z := match l with [] => 0 | x :: r => x + sumZ r end.

(* a_run_sched, recording for every thread the increments of u's generation made by its own transactions *)
Fixpoint a_run_tally (cf : cfg) (u : Z) (s : list nat) (ts : list athread) (d : db) (tl : list Z)
  : list athread * db * list Z :=
  match s with
  | [] => (ts, d, tl)
  | i :: s' => let '(ts', d') := a_step_thread cf i ts d in a_run_tally cf u s' ts' d' (add_nth i (gdelta d d' u) tl)
  end.
Lemma a_run_tally_run cf u : forall s ts d tl, fst (a_run_tally cf u s ts d tl) = a_run_sched cf s ts d.
Proof.
  induction s as [|i s IH]; intros ts d tl; cbn [a_run_tally a_run_sched]; [reflexivity|].
  destruct (a_step_thread cf i ts d) as [ts' d']. apply IH.
Qed.

(* the state of one request: answer not fixed - nothing added yet; rejected - nothing added; accepted - within its bounds *)
Definition acct1 (u : Z) (t : athread) (z : Z) (b : Z * option Z) : Prop :=
  match a_resp t with
  | None => z = 0 /\ a_bounds t u = b
  | Some r => (300 <= status r /\ z = 0) \/ (status r < 300 /\ in_bounds b z)
  end.
Inductive acctL (u : Z) : list athread -> list Z -> list (Z * option Z) -> Prop :=
| acct_nil : acctL u [] [] []
| acct_cons t z b ts tl bs : acct1 u t z b -> acctL u ts tl bs -> acctL u (t :: ts) (z :: tl) (b :: bs).

Lemma anote_bounds gt gp t u : a_bounds (anote gt gp t) u = a_bounds t u.
Proof. destruct t; reflexivity. Qed.
Lemma acctL_anote u gt gp ts tl bs : acctL u ts tl bs -> acctL u (map (anote gt gp) ts) tl bs.
Proof.
  induction 1 as [|t z b ts tl bs H1 _ IH]; cbn [map]; constructor; [|exact IH].
  unfold acct1 in *. rewrite anote_resp, anote_bounds. exact H1.
Qed.

Lemma acct1_step cf u t z b d : acct1 u t z b ->
  acct1 u (fst (astep cf t d)) (z + gdelta d (snd (astep cf t d)) u) b.
Proof.
  intro H. pose proof (a_acct cf t d u) as A. unfold acct1 in *. destruct (a_resp t) as [r|] eqn:Er.
  - destruct A as [A1 A2]. rewrite A1, (quiet_gdelta _ _ u A2), Z.add_0_r. exact H.
  - destruct H as [-> Hb]. rewrite Hb in A. destruct A as [[A1 [A2 A3]]|[r [A1 A]]].
    + rewrite A1, (quiet_gdelta _ _ u A2). split; [reflexivity|exact A3].
    + rewrite A1. destruct A as [[Hs Hq]|[Hs Hin]].
      * left. rewrite (quiet_gdelta _ _ u Hq). auto.
      * right. cbn [Z.add]. auto.
Qed.

Lemma raw_step_acct cf u : forall ts tl bs, acctL u ts tl bs -> forall i d,
  acctL u (fst (a_step_raw cf i ts d)) (add_nth i (gdelta d (snd (a_step_raw cf i ts d)) u) tl) bs.
Proof.
  induction 1 as [|t z b ts tl bs H1 HL IH]; intros i d; [destruct i; constructor|].
  destruct i as [|i]; cbn [a_step_raw add_nth].
  - pose proof (acct1_step cf u t z b d H1) as H. destruct (astep cf t d) as [t' d']. cbn [fst snd] in *.
    constructor; assumption.
  - specialize (IH i d). destruct (a_step_raw cf i ts d) as [ts' d']. cbn [fst snd] in *. constructor; assumption.
Qed.

Lemma step_acct cf u ts tl bs i d : acctL u ts tl bs ->
  acctL u (fst (a_step_thread cf i ts d)) (add_nth i (gdelta d (snd (a_step_thread cf i ts d)) u) tl) bs.
Proof.
  intro H. pose proof (raw_step_acct cf u ts tl bs H i d) as R. unfold a_step_thread.
  destruct (a_step_raw cf i ts d) as [ts' d']. cbn [fst snd] in *. apply acctL_anote. exact R.
Qed.

Theorem run_acct cf u : forall s ts d tl bs, acctL u ts tl bs ->
  let '(ts', _, tl') := a_run_tally cf u s ts d tl in acctL u ts' tl' bs.
Proof.
  induction s as [|i s IH]; intros ts d tl bs H; cbn [a_run_tally]; [exact H|].
  pose proof (step_acct cf u ts tl bs i d H) as Hs. destruct (a_step_thread cf i ts d) as [ts' d']. cbn [fst snd] in Hs.
  apply IH. exact Hs.
Qed.

(* ---------------------------------------------------------------- the sum of the tally is the total increment *)
Lemma a_step_raw_range cf : forall ts i d, (length ts <= i)%nat -> a_step_raw cf i ts d = (ts, d).
Proof.
  induction ts as [|t ts IH]; intros i d H; [destruct i; reflexivity|]. destruct i as [|i]; cbn [length] in H; [lia|].
  cbn [a_step_raw]. rewrite IH by lia. reflexivity.
Qed.
Lemma a_step_raw_length cf : forall ts i d, length (fst (a_step_raw cf i ts d)) = length ts.
Proof.
  induction ts as [|t ts IH]; intros i d; [destruct i; reflexivity|]. destruct i as [|i]; cbn [a_step_raw].
  - destruct (astep cf t d). reflexivity.
  - specialize (IH i d). destruct (a_step_raw cf i ts d). cbn [fst length] in *. rewrite IH. reflexivity.
Qed.
Lemma sumZ_add_nth : forall l i z, (i < length l)%nat -> sumZ (add_nth i z l) = sumZ l + z.
Proof.
  induction l as [|x l IH]; intros i z H; cbn [length] in H; [lia|]. destruct i as [|i]; cbn [add_nth sumZ]; [lia|].
  rewrite IH by lia. lia.
Qed.
Lemma add_nth_range : forall l i z, (length l <= i)%nat -> add_nth i z l = l.
Proof.
  induction l as [|x l IH]; intros i z H; [destruct i; reflexivity|]. destruct i as [|i]; cbn [length] in H; [lia|].
  cbn [add_nth]. rewrite IH by lia. reflexivity.
Qed.
Lemma add_nth_length : forall l i z, length (add_nth i z l) = length l.
Proof. induction l as [|x l IH]; intros i z; [destruct i; reflexivity|]. destruct i; cbn [add_nth length]; [|rewrite IH]; reflexivity. Qed.

(* u exists in the start state and after every step of the schedule *)
Fixpoint alive (cf : cfg) (u : Z) (s : list nat) (ts : list athread) (d : db) : Prop :=
  gen_of d u <> None /\
  match s with
  | [] => True
  | i :: s' => let '(ts', d') := a_step_thread cf i ts d in alive cf u s' ts' d'
  end.

Theorem run_sum cf u : forall s ts d tl g, length tl = length ts -> alive cf u s ts d -> gen_of d u = Some g ->
  let '(_, d', tl') := a_run_tally cf u s ts d tl in gen_of d' u = Some (g + (sumZ tl' - sumZ tl)).
Proof.
  induction s as [|i s IH]; intros ts d tl g Hlen Hal Hg; cbn [a_run_tally].
  - rewrite Hg. f_equal. lia.
  - destruct Hal as [_ Hal]. pose proof (a_step_raw_length cf ts i d) as Hl. pose proof (a_step_raw_range cf ts i d) as Hr.
    unfold a_step_thread in *. destruct (a_step_raw cf i ts d) as [ts1 d1] eqn:Es. cbn [fst] in Hl.
    set (ts' := map (anote (gone_traits d d1) (gone_rps d d1)) ts1) in *.
    assert (Hg1 : exists g1, gen_of d1 u = Some g1).
    { assert (Hne : gen_of d1 u <> None) by (destruct s; cbn [alive] in Hal; apply Hal).
      destruct (gen_of d1 u) as [g1|]; [eauto|contradiction]. }
    destruct Hg1 as [g1 Hg1].
    assert (Hd : gdelta d d1 u = g1 - g) by (unfold gdelta; rewrite Hg, Hg1; reflexivity).
    specialize (IH ts' d1 (add_nth i (gdelta d d1 u) tl) g1).
    assert (Hlen' : length (add_nth i (gdelta d d1 u) tl) = length ts').
    { rewrite add_nth_length. unfold ts'. rewrite map_length, Hl. exact Hlen. }
    specialize (IH Hlen' Hal Hg1).
    destruct (a_run_tally cf u s ts' d1 (add_nth i (gdelta d d1 u) tl)) as [[tsf df] tlf]. rewrite IH. f_equal.
    destruct (le_lt_dec (length ts) i) as [Hge|Hlt].
    + assert (E : d1 = d) by (pose proof (Hr Hge) as E0; congruence). rewrite add_nth_range by lia.
      assert (g1 = g) by (rewrite E in Hg1; congruence). lia.
    + rewrite sumZ_add_nth by lia. lia.
Qed.

(* ================================================================ the accounting theorem *)
Lemma ainit_resp_err cf r r' : a_resp (ainit cf r) = Some r' -> 300 <= status r'.
Proof.
  destruct r; cbn [ainit ttinit tinit a_resp prov_target];
    repeat match goal with |- context [if ?b then _ else _] => destruct b end;
    try (unfold prov_version_gate; repeat match goal with |- context [if ?b then _ else _] => destruct b end);
    cbn [a_resp t_resp ADone]; try discriminate; intros [= <-]; cbn; lia.
Qed.
Lemma acctL_init cf u : forall reqs, acctL u (map (ainit cf) reqs) (map (fun _ => 0) reqs) (map (fun r => a_bounds (ainit cf r) u) reqs).
Proof.
  induction reqs as [|r reqs IH]; cbn [map]; constructor; [|exact IH]. unfold acct1.
  destruct (a_resp (ainit cf r)) as [r'|] eqn:E; [left; split; [eapply ainit_resp_err; exact E|reflexivity]|auto].
Qed.
Lemma sumZ_zero {A} (l : list A) : sumZ (map (fun _ => 0) l) = 0.
Proof. induction l as [|x l IH]; cbn [map sumZ]; lia. Qed.

(* For every start state, every list of requests and every schedule: with the tally tl of the increments of u's generation
   made by the transactions of each request,
     - u's final generation is its initial generation plus the sum of the tally (u existing throughout),
     - a request whose answer is not fixed yet, or is >= 300, has added nothing,
     - a request answered with success has added an amount within the bounds of its kind. *)
Theorem c10c_accounting : forall cf reqs s d u,
  let '(ts, d', tl) := a_run_tally cf u s (map (ainit cf) reqs) d (map (fun _ => 0) reqs) in
  a_exec cf reqs s d = (ts, d') /\
  acctL u ts tl (map (fun r => a_bounds (ainit cf r) u) reqs) /\
  (forall g, gen_of d u = Some g -> alive cf u s (map (ainit cf) reqs) d -> gen_of d' u = Some (g + sumZ tl)).
Proof.
  intros cf reqs s d u.
  pose proof (a_run_tally_run cf u s (map (ainit cf) reqs) d (map (fun _ => 0) reqs)) as Hrun.
  pose proof (run_acct cf u s _ d _ _ (acctL_init cf u reqs)) as Hacct.
  pose proof (fun g => run_sum cf u s (map (ainit cf) reqs) d (map (fun _ => 0) reqs) g) as Hsum.
  destruct (a_run_tally cf u s (map (ainit cf) reqs) d (map (fun _ => 0) reqs)) as [[ts d'] tl]. cbn [fst] in Hrun.
  split; [symmetry; exact Hrun|]. split; [exact Hacct|]. intros g Hg Hal.
  specialize (Hsum g). rewrite !map_length in Hsum. specialize (Hsum eq_refl Hal Hg). rewrite sumZ_zero in Hsum.
  rewrite Hsum. f_equal. lia.
Qed.

(* per request *)
Lemma acctL_nth u : forall ts tl bs i t, acctL u ts tl bs -> nth_error ts i = Some t ->
  exists z b, nth_error tl i = Some z /\ nth_error bs i = Some b /\ acct1 u t z b.
Proof.
  intros ts tl bs i t H. revert i. induction H as [|t0 z b ts tl bs H1 _ IH]; intros i Hi; [destruct i; discriminate|].
  destruct i as [|i]; cbn [nth_error] in *; [injection Hi as <-; eauto|apply IH; exact Hi].
Qed.
(* a request answered >= 300, or not answered, has added nothing *)
Corollary acct1_rejected u t z b r : acct1 u t z b -> a_resp t = Some r -> 300 <= status r -> z = 0.
Proof. unfold acct1. intros H E Hs. rewrite E in H. destruct H as [[_ H]|[H _]]; [exact H|lia]. Qed.
Corollary acct1_open u t z b : acct1 u t z b -> a_resp t = None -> z = 0.
Proof. unfold acct1. intros H E. rewrite E in H. apply H. Qed.
Corollary acct1_accepted u t z b r : acct1 u t z b -> a_resp t = Some r -> status r < 300 -> in_bounds b z.
Proof. unfold acct1. intros H E Hs. rewrite E in H. destruct H as [[H _]|[_ H]]; [lia|exact H]. Qed.

(* the bounds, request by request: exact (least = greatest) where the meaning does not depend on the state *)
Lemma bounds_table cf u :
  (forall v u0 g l, a_bounds (ainit cf (InvSet v u0 g l)) u = (b01 u0 u, Some (b01 u0 u))) /\
  (forall v u0 x, a_bounds (ainit cf (InvPost v u0 x)) u = (b01 u0 u, Some (b01 u0 u))) /\
  (forall v u0 g x, a_bounds (ainit cf (InvPut v u0 g x)) u = (b01 u0 u, Some (b01 u0 u))) /\
  (forall u0 rc, a_bounds (ainit cf (InvDelete u0 rc)) u = (b01 u0 u, Some (b01 u0 u))) /\
  (forall v u0, 5 <= v -> a_bounds (ainit cf (InvDeleteAll v u0)) u = (b01 u0 u, Some (b01 u0 u))) /\
  (forall v u0 g l, 19 <= v -> a_bounds (ainit cf (AggsSet v u0 g l)) u = (b01 u0 u, Some (b01 u0 u))) /\
  (forall v u0 g l, 1 <= v < 19 -> a_bounds (ainit cf (AggsSet v u0 g l)) u = (0, Some 0)) /\
  (forall v u0 g ts, 6 <= v -> a_bounds (ainit cf (TraitsSet v u0 g ts)) u = (0, Some (b01 u0 u))) /\
  (forall v u0, 6 <= v -> a_bounds (ainit cf (TraitsDelete v u0)) u = (0, Some (b01 u0 u))) /\
  (forall v c, a_bounds (ainit cf (AllocPut v c)) u = (0, Some 1)) /\
  (forall v l, 13 <= v -> a_bounds (ainit cf (AllocPost v l)) u = (0, Some 1)) /\
  (forall v ri al, 30 <= v -> a_bounds (ainit cf (Reshape v ri al)) u = (0, None)) /\
  (forall c, a_bounds (ainit cf (AllocDelete c)) u = (0, Some 0)) /\
  (forall v u0 n p, a_bounds (ainit cf (RpCreate v u0 n p)) u = (0, Some 0)) /\
  (forall v u0 n p, a_bounds (ainit cf (RpUpdate v u0 n p)) u = (0, Some 0)) /\
  (forall u0, a_bounds (ainit cf (RpDelete u0)) u = (0, Some 0)).
Proof.
  repeat split; intros; cbn [ainit ttinit tinit a_bounds t_bounds prov_target prov_version_gate req_bounds kind_bounds x_kind ADone];
    repeat match goal with
           | |- context [?a <? ?b] => let E := fresh in destruct (a <? b) eqn:E; [apply Z.ltb_lt in E; lia|]
           | |- context [?a <=? ?b] => let E := fresh in destruct (a <=? b) eqn:E; [|apply Z.leb_gt in E; try lia]
           end; cbn [a_bounds t_bounds req_bounds kind_bounds x_kind]; try reflexivity.
  all: try (match goal with H : (19 <=? _) = true |- _ => apply Z.leb_le in H; lia end).
  - assert (E : (19 <=? v) = true) by (apply Z.leb_le; lia). rewrite E. reflexivity.
  - assert (E : (19 <=? v) = false) by (apply Z.leb_gt; lia). rewrite E. reflexivity.
Qed.

(* ---------------------------------------------------------------- totals *)
Definition asucc (t : athread) : bool := match a_resp t with Some r => status r <? 300 | None => false end.
Fixpoint lo_sum (ts : list athread) (bs : list (Z * option Z)) : Z :=
  match ts, bs with t :: ts', b :: bs' => (if asucc t then fst b else 0) + lo_sum ts' bs' | _, _ => 0 end.
Fixpoint hi_sum (ts : list athread) (bs : list (Z * option Z)) : Z :=
  match ts, bs with
  | t :: ts', b :: bs' => (if asucc t then match snd b with Some h => h | None => 0 end else 0) + hi_sum ts' bs'
  | _, _ => 0
  end.
(* the total increment lies between the documented least and greatest increments of the ACCEPTED requests; when these
   coincide (no PUT traits / DELETE traits, no allocation write among the accepted requests touching u ...) it is exact *)
Theorem acct_totals u ts tl bs : acctL u ts tl bs ->
  lo_sum ts bs <= sumZ tl /\ (Forall (fun b => snd b <> None) bs -> sumZ tl <= hi_sum ts bs).
Proof.
  induction 1 as [|t z b ts tl bs H1 _ [IH1 IH2]]; cbn [lo_sum hi_sum sumZ]; [split; [lia|intros _; lia]|].
  assert (Hz : (if asucc t then fst b else 0) <= z /\ (snd b <> None -> z <= (if asucc t then match snd b with Some h => h | None => 0 end else 0))).
  { unfold acct1, asucc in *. destruct (a_resp t) as [r|].
    - destruct H1 as [[Hs ->]|[Hs [Hl Hh]]].
      + assert (E : (status r <? 300) = false) by (apply Z.ltb_ge; exact Hs). rewrite E. split; [lia|intros _; lia].
      + assert (E : (status r <? 300) = true) by (apply Z.ltb_lt; exact Hs). rewrite E. split; [exact Hl|].
        intro Hn. destruct (snd b); [exact Hh|contradiction].
    - destruct H1 as [-> _]. split; [lia|intros _; lia]. }
  destruct Hz as [Hz1 Hz2]. split; [lia|]. intro HF. inversion HF as [|? ? Hb HF']; subst. specialize (IH2 HF'). specialize (Hz2 Hb). lia.
Qed.

(* ================================================================ examples on the set-up of harness/conc_extra.py *)
Definition cx_setup : list req := [(RcCreate 39 1000); (RcCreate 39 1001); (TraitPut 39 100001); (TraitPut 39 100002); (RpCreate 39 1 1 None); (InvSet 39 1 0 [(mkInvIn 0 8 0 1 2147483647 1 1 0); (mkInvIn 2 100 0 1 2147483647 1 1 0)]); (RpCreate 39 2 2 None); (InvSet 39 2 0 [(mkInvIn 0 8 0 1 2147483647 1 1 0); (mkInvIn 10001 4 0 1 2147483647 1 1 0)]); (RpCreate 39 3 3 None); (RpCreate 39 4 4 (Some 1)); (InvSet 39 4 0 [(mkInvIn 2 50 0 1 2147483647 1 1 0)]); (RpCreate 39 5 5 (Some 4)); (RpCreate 39 6 6 None); (InvSet 39 6 0 [(mkInvIn 0 4 0 1 2147483647 1 1 0)]); (TraitsSet 39 1 1 [100002]); (AggsSet 39 1 2 [1]); (AggsSet 39 2 1 [1]); (AllocPut 39 (mkConsIn 2 [(mkAllocIn 2 [(0, 1)])] (Some 1) (Some 1) None (Some 1))); (AllocPut 39 (mkConsIn 3 [(mkAllocIn 1 [(0, 2)]); (mkAllocIn 4 [(2, 10)])] (Some 1) (Some 1) None (Some 1)))].
Definition cx_cf : cfg := mkCfg 0 0.
Definition cx_d0 : db := run cx_cf db0 cx_setup.
Definition cx_gen (d : db) (u : Z) : Z := match gen_of d u with Some g => g | None => -1 end.
Definition cx_status (t : athread) : Z := match a_done t with Some r => status r | None => -1 end.

(* claim vs inventory PUT on provider 6 (generation 1): under this schedule both succeed - the claim re-reads the
   generation on its server-side retry - and provider 6 ends at 1 + 1 + 1 *)
Definition cx_claim_vs_put : list req :=
  [AllocPut 39 (mkConsIn 5 [mkAllocIn 6 [(0, 1)]] (Some 1) (Some 1) None (Some 1)); InvPut 39 6 1 (mkInvIn 0 8 0 1 2147483647 1 1 0)].
Example c10c_example_claim_vs_put :
  let '(ts, d', tl) := a_run_tally cx_cf 6 [0; 0; 0; 1; 1; 0]%nat (map (ainit cx_cf) cx_claim_vs_put) cx_d0 [0; 0] in
  (map cx_status ts, cx_gen cx_d0 6, cx_gen d' 6, tl) = ([204; 200], 1, 3, [1; 1]).
Proof. timeout 120 vm_compute. reflexivity. Qed.

(* the recorded exception to "one increment per provider named" (C06 / C07 known finding: a clearing write overtaken by
   another clearing write succeeds without comparing anything): two PUT /allocations/2 {} with the same consumer
   generation both answer 204; the second finds no rows, so provider 2 (generation 3) is incremented ONCE - within the
   bounds (0, 1) of an allocation write, which are therefore the strongest true ones for clearing writes *)
Definition cx_two_clears : list req :=
  [AllocPut 39 (mkConsIn 2 [] (Some 1) (Some 1) (Some 1) (Some 1)); AllocPut 39 (mkConsIn 2 [] (Some 1) (Some 1) (Some 1) (Some 1))].
Example c10c_example_two_clears :
  let '(ts, d', tl) := a_run_tally cx_cf 2 [0; 0; 0; 1; 0; 1; 1]%nat (map (ainit cx_cf) cx_two_clears) cx_d0 [0; 0] in
  (map cx_status ts, cx_gen cx_d0 2, cx_gen d' 2, tl) = ([204; 204], 3, 4, [1; 0]).
Proof. timeout 120 vm_compute. reflexivity. Qed.

Print Assumptions c10c_accounting.
Print Assumptions acct_totals.
Print Assumptions bounds_table.
Print Assumptions c10c_example_claim_vs_put.
Print Assumptions c10c_example_two_clears.
