(* C10 under interleaving, exact increments (Model/ConcAll.v; continues Proofs/C10c.v and Proofs/C06a.v).
   1. A PUT / POST /allocations answered with success has added exactly 1 to the generation of every provider it names in a
      non-empty allocation (c10d_provider_exact), and any allocation write (POST /reshaper included) answered with success has
      added exactly 1 to the generation of every consumer it names with non-empty allocations (c10d_consumer_exact).
   2. The main transaction of POST /reshaper moves a provider named in its inventories section by
      (1 if its inventories are not empty) + (1 if an allocation object names it) + 1, any other provider by 1 if an allocation
      object names it (c10d_reshape_exact). *)
From PV Require Import Model.ConcAll Proofs.Defs Proofs.C04 Proofs.C10 Proofs.C05 Proofs.C07d Proofs.C07f Proofs.C07g
  Proofs.C10c Proofs.C05a Proofs.C06a Proofs.C12a.
From PV Require Proofs.C06 Proofs.C09.

(* ================================================================ lifting a per-request invariant over provider tallies *)
Section LiftG.
  Variables (cf : cfg) (u : Z) (A : Type) (P : athread -> Z -> A -> Prop).
  Hypothesis P_anote : forall gt gp t z a, P t z a -> P (anote gt gp t) z a.
  Hypothesis P_step : forall t z a d, P t z a -> P (fst (astep cf t d)) (z + gdelta d (snd (astep cf t d)) u) a.

  Inductive GL : list athread -> list Z -> list A -> Prop :=
  | GL_nil : GL [] [] []
  | GL_cons t z a ts tl al : P t z a -> GL ts tl al -> GL (t :: ts) (z :: tl) (a :: al).

  Lemma GL_anote gt gp ts tl al : GL ts tl al -> GL (map (anote gt gp) ts) tl al.
  Proof. induction 1 as [|t z a ts tl al H1 _ IH]; cbn [map]; constructor; [apply P_anote; exact H1|exact IH]. Qed.
  Lemma raw_step_GL : forall ts tl al, GL ts tl al -> forall i d,
    GL (fst (a_step_raw cf i ts d)) (add_nth i (gdelta d (snd (a_step_raw cf i ts d)) u) tl) al.
  Proof.
    induction 1 as [|t z a ts tl al H1 HL IH]; intros i d; [destruct i; constructor|].
    destruct i as [|i]; cbn [a_step_raw add_nth].
    - pose proof (P_step t z a d H1) as S1. destruct (astep cf t d) as [t' d']. constructor; assumption.
    - specialize (IH i d). destruct (a_step_raw cf i ts d) as [ts' d']. constructor; assumption.
  Qed.
  Theorem run_GL : forall s ts d tl al, GL ts tl al -> let '(ts', _, tl') := a_run_tally cf u s ts d tl in GL ts' tl' al.
  Proof.
    induction s as [|i s IH]; intros ts d tl al H; cbn [a_run_tally]; [exact H|].
    pose proof (raw_step_GL ts tl al H i d) as R. unfold a_step_thread. destruct (a_step_raw cf i ts d) as [ts' d']. cbn [fst snd] in R.
    apply IH. apply GL_anote. exact R.
  Qed.
  Lemma GL_nth : forall ts tl al, GL ts tl al -> forall i t, nth_error ts i = Some t ->
    exists z a, nth_error tl i = Some z /\ nth_error al i = Some a /\ P t z a.
  Proof.
    induction 1 as [|t0 z a ts tl al H1 _ IH]; intros i t Hi; [destruct i; discriminate|].
    destruct i as [|i]; cbn [nth_error] in *; [injection Hi as <-; eauto|apply IH; exact Hi].
  Qed.
End LiftG.

(* ================================================================ 1a. providers: PUT / POST /allocations *)
(* the request will have an allocation object for provider u: it names u in an allocation with resources (and is not a reshape) *)
Definition nmp (x : actx) (u : Z) : Prop :=
  exists e a, In e (x_all x) /\ In a (ci_allocs e) /\ ai_rp a = u /\ ai_res a <> [].
Definition t_wp (t : tstate) (u : Z) : Prop :=
  match t with
  | TCons x todo acc => x_kind x <> KReshape /\ (length acc + length todo = length (x_all x))%nat /\ nmp x u
  | TCreate x e todo acc | TReload x e todo acc =>
      x_kind x <> KReshape /\ (length acc + S (length todo) = length (x_all x))%nat /\ nmp x u
  | TObjs x ks todo objs =>
      x_kind x <> KReshape /\ (In u (map q_rp objs) \/ exists k a, In (WRp k a) todo /\ ai_rp a = u /\ ai_res a <> [])
  | TMain x ks objs => x_kind x <> KReshape /\ In u (map q_rp objs)
  | _ => False
  end.
Definition a_wp (t : athread) (u : Z) : Prop :=
  match t with ATree (TTOther t0) | ACached _ t0 | ACacheLoad t0 => t_wp t0 u | _ => False end.
Lemma anote_wp gt gp t u : a_wp (anote gt gp t) u <-> a_wp t u.
Proof. destruct t; cbn; tauto. Qed.

Lemma work_items_all : forall ks l, length ks = length l -> forall e a, In e l -> In a (ci_allocs e) ->
  exists k, In (WRp k a) (work_items ks l).
Proof.
  induction ks as [|k0 ks IH]; intros [|e0 l] Hl e a He Ha; cbn [length] in Hl; try discriminate; [destruct He|].
  cbn [work_items]. destruct He as [<-|He].
  - destruct (ci_allocs e0) as [|al als] eqn:Ea; [destruct Ha|]. exists k0. apply in_or_app. left. apply in_map. exact Ha.
  - destruct (IH l ltac:(lia) e a He Ha) as [k Hk]. exists k. destruct (ci_allocs e0); [right; exact Hk|apply in_or_app; right; exact Hk].
Qed.
Lemma wp_after_cons x ks u : x_kind x <> KReshape -> length ks = length (x_all x) -> nmp x u -> t_wp (after_cons x ks) u.
Proof.
  intros Hk Hl (e & a & He & Ha & Eu & Hne). destruct (work_items_all ks (x_all x) Hl e a He Ha) as [k Hw].
  unfold after_cons. destruct (work_items ks (x_all x)) as [|w ws] eqn:E; [destruct Hw|]. cbn [t_wp]. split; [exact Hk|].
  right. exists k, a. auto.
Qed.

Definition wp_after (resp' : option resp) (wp' : Prop) (d d' : db) (u : Z) : Prop :=
  (resp' = None -> wp') /\ (forall r, resp' = Some r -> status r < 300 -> gdelta d d' u = 1).
Lemma wpa_err us s cd (h : Prop) d d' u : 300 <= s -> wp_after (t_resp (cleanup_or_done us (err s cd))) h d d' u.
Proof. intro Hs. rewrite cleanup_resp. split; [discriminate|]. intros r [= <-] H. cbn in H. lia. Qed.
Lemma wpa_open t' d d' u : t_resp t' = None -> t_wp t' u -> wp_after (t_resp t') (t_wp t' u) d d' u.
Proof. intros E H. rewrite E. split; [intros _; exact H|discriminate]. Qed.

Lemma main_put_gen x ks objs d0 d' u : x_kind x <> KReshape -> In u (map q_rp objs) -> main_txn x ks objs d0 = Ok d' -> gdelta d0 d' u = 1.
Proof.
  intros Hk Hin H. unfold main_txn in H. cbv zeta in H.
  assert (Hput : replace_all retry_fuel d0 (fold_left update_consumer ks d0) objs = Ok d' -> gdelta d0 d' u = 1).
  { intro Hr. destruct (replace_all_gens d0 _ objs d' (C09.fold_update_consumer_rps ks d0) Hr) as [S1 _].
    destruct (S1 u Hin) as [g [A B]]. unfold gdelta. rewrite A, B. lia. }
  destruct (x_kind x); [apply Hput; exact H|apply Hput; exact H|contradiction Hk; reflexivity].
Qed.

Lemma t_wp_step t d u : t_resp t = None -> t_wp t u ->
  wp_after (t_resp (snd (tstep t d))) (t_wp (snd (tstep t d)) u) d (fst (tstep t d)) u.
Proof.
  intros Er Hh.
  destruct t as [r|r|r g0|x todo|x todo acc|x e todo acc|x e todo acc|x ks todo objs|x ks objs|todo r|c0|c0 rows|c0];
    cbn [t_wp] in Hh; try contradiction; cbn [tstep].
  - (* TCons *)
    destruct Hh as (Hk & Hl & Hn).
    destruct todo as [|e rest]; cbn [fst snd].
    { apply wpa_open; [apply (proj1 (after_cons_open x _ 0))|apply wp_after_cons; [exact Hk|rewrite rev_length; cbn [length] in Hl; lia|exact Hn]]. }
    cbv zeta. cbn [length] in Hl. destruct (rq_attrs (x_cf x) (x_v x) e) as [[pj us] ty].
    destruct (find_cons d (ci_uuid e)) as [k|]; destruct (_ && _); cbn [fst snd]; try (apply wpa_err; lia).
    + destruct rest as [|e2 rest2].
      * apply wpa_open; [apply (proj1 (after_cons_open x _ 0))|apply wp_after_cons; [exact Hk|rewrite rev_length; cbn [length] in *; lia|exact Hn]].
      * apply wpa_open; [reflexivity|]. cbn [t_wp length] in *. repeat split; auto; lia.
    + apply wpa_open; [reflexivity|]. cbn [t_wp]. repeat split; auto.
  - (* TCreate *)
    destruct Hh as (Hk & Hl & Hn). destruct (rq_attrs (x_cf x) (x_v x) e) as [[pj us] ty].
    destruct (find_cons d (ci_uuid e)) as [k|]; cbn [fst snd]; [apply wpa_open; [reflexivity|cbn [t_wp]; auto]|].
    destruct todo as [|e2 rest2].
    + apply wpa_open; [apply (proj1 (after_cons_open x _ 0))|apply wp_after_cons; [exact Hk|rewrite rev_length; cbn [length] in *; lia|exact Hn]].
    + apply wpa_open; [reflexivity|]. cbn [t_wp length] in *. repeat split; auto; lia.
  - (* TReload *)
    destruct Hh as (Hk & Hl & Hn). destruct (rq_attrs (x_cf x) (x_v x) e) as [[pj us] ty].
    destruct (find_cons d (ci_uuid e)) as [k|]; cbn [fst snd]; [|apply wpa_err; lia].
    destruct (28 <=? x_v x); cbn [fst snd]; [apply wpa_err; lia|].
    destruct todo as [|e2 rest2].
    + apply wpa_open; [apply (proj1 (after_cons_open x _ 0))|apply wp_after_cons; [exact Hk|rewrite rev_length; cbn [length] in *; lia|exact Hn]].
    + apply wpa_open; [reflexivity|]. cbn [t_wp length] in *. repeat split; auto; lia.
  - (* TObjs *)
    destruct Hh as (Hk & Hn).
    destruct todo as [|w rest]; cbn [fst snd].
    { apply wpa_open; [reflexivity|]. cbn [t_wp]. split; [exact Hk|]. destruct Hn as [Hn|(k & a & [] & _)]. exact Hn. }
    cbv zeta.
    assert (Hnext : forall objs' d1, (In u (map q_rp objs') \/ exists k a, In (WRp k a) rest /\ ai_rp a = u /\ ai_res a <> []) ->
              wp_after (t_resp (match rest with [] => TMain x ks objs' | _ :: _ => TObjs x ks rest objs' end))
                       (t_wp (match rest with [] => TMain x ks objs' | _ :: _ => TObjs x ks rest objs' end) u) d d1 u).
    { intros objs' d1 H. destruct rest; (apply wpa_open; [reflexivity|]); cbn [t_wp]; (split; [exact Hk|]); [|exact H].
      destruct H as [H|(k & a & [] & _)]. exact H. }
    destruct w as [k|k a].
    + cbn [fst snd]. apply Hnext. destruct Hn as [Hn|(k1 & a1 & [Hd|Hin] & H)]; [left; rewrite map_app; apply in_or_app; left; exact Hn|discriminate|right; eauto].
    + destruct (find_rp d (ai_rp a)) as [rp0|]; cbn [fst snd]; [|apply wpa_err; lia].
      apply Hnext. destruct Hn as [Hn|(k1 & a1 & [Hd|Hin] & Eu & Hne)]; [left; rewrite map_app; apply in_or_app; left; exact Hn| |right; eauto].
      injection Hd as <- <-. left. rewrite map_app. apply in_or_app. right. rewrite map_map. cbn [q_rp].
      destruct (ai_res a) as [|y ys]; [contradiction Hne; reflexivity|]. left. exact Eu.
  - (* TMain *)
    destruct Hh as (Hk & Hn).
    destruct (main_txn x ks objs d) as [d'|e0] eqn:Em; cbn [fst snd]; rewrite cleanup_resp.
    + split; [discriminate|]. intros r _ _. exact (main_put_gen _ _ _ _ _ _ Hk Hn Em).
    + split; [discriminate|]. intros r [= <-] H. pose proof (main_err_status x e0). lia.
Qed.

Lemma a_wp_step cf t d u : a_resp t = None -> a_wp t u ->
  wp_after (a_resp (fst (astep cf t d))) (a_wp (fst (astep cf t d)) u) d (snd (astep cf t d)) u.
Proof.
  intros Er Hh.
  destruct t as [t0|snap t0|t0|c0|t0|u0 g0 ts|u0 ts g0|u0 ts g0 lost|v u0 g0 l|v u0 l g0 gone|n|n|n|old new|id new|n|id|t1|t1|t1|t1 stale];
    cbn [a_wp] in Hh; try contradiction.
  - destruct t0 as [r|v u0 name parent|v u0 name parent|v u0 name np g0|u0|u0|t0]; try contradiction.
    cbn [a_resp] in Er. cbn [astep ttstep]. pose proof (t_wp_step t0 d u Er Hh) as H. destruct (tstep t0 d) as [d' t']. exact H.
  - cbn [a_resp] in Er.
    destruct t0 as [r|r|r g0|x todo|x todo acc|x e todo acc|x e todo acc|x ks todo objs|x ks objs|todo r|c1|c1 rows|c1];
      try (rewrite acached_default by (intros; discriminate); cbn [fst snd a_resp a_wp];
           match goal with |- context [tstep ?tt d] => exact (t_wp_step tt d u Er Hh) end).
    + destruct todo as [|[k|k a] rest];
        try (rewrite acached_default by (intros; discriminate); cbn [fst snd a_resp a_wp];
             match goal with |- context [tstep ?tt d] => exact (t_wp_step tt d u Er Hh) end).
      pose proof (t_wp_step (TObjs x ks (WWipe k :: rest) objs) d u Er Hh) as H. cbn [astep].
      destruct (tstep (TObjs x ks (WWipe k :: rest) objs) d) as [d' t'] eqn:Es. cbn [fst snd] in H.
      assert (Eo : t_resp t' = None) by (cbn [tstep] in Es; injection Es as _ <-; destruct rest; reflexivity).
      rewrite Eo in H. destruct (cache_misses snap (wipe_list d (co_uuid k))); cbn [fst snd a_resp a_wp]; [|rewrite Eo; exact H].
      split; [intros _; apply H; reflexivity|discriminate].
    + cbn [t_wp] in Hh. destruct Hh as (Hk & Hn). cbn [astep]. unfold main_txn_cached.
      destruct (main_txn x ks objs (set_rcs d (rcs d ++ stale_rows d snap))) as [d'|e0] eqn:Em; cbn [fst snd a_resp]; rewrite cleanup_resp.
      * split; [discriminate|]. intros r _ _. exact (main_put_gen _ _ _ _ _ _ Hk Hn Em).
      * split; [discriminate|]. intros r [= <-] H. pose proof (main_err_status x e0). lia.
  - cbn [astep fst snd a_resp a_wp]. split; [intros _; exact Hh|]. intros r E _. exfalso.
    destruct t0; cbn [t_wp] in Hh; try contradiction; discriminate E.
Qed.

(* one request: flagged (it will write provider u) - nothing added while open, exactly 1 once answered with success *)
Definition wp1 (u : Z) (t : athread) (z : Z) (f : Prop) : Prop :=
  f -> match a_resp t with None => z = 0 /\ a_wp t u | Some r => status r < 300 -> z = 1 end.
Lemma wp1_step cf u t z f d : wp1 u t z f -> wp1 u (fst (astep cf t d)) (z + gdelta d (snd (astep cf t d)) u) f.
Proof.
  intros H Hf. specialize (H Hf). pose proof (a_acct cf t d u) as A. destruct (a_resp t) as [r|] eqn:Er.
  - destruct A as [A1 A2]. rewrite A1, (quiet_gdelta _ _ u A2), Z.add_0_r. exact H.
  - destruct H as [-> Hw]. pose proof (a_wp_step cf t d u Er Hw) as [W1 W2].
    destruct A as [[A1 [A2 _]]|[r [A1 _]]].
    + rewrite A1, (quiet_gdelta _ _ u A2). split; [reflexivity|apply W1; exact A1].
    + rewrite A1. intro Hs. rewrite (W2 r A1 Hs). reflexivity.
Qed.
Lemma wp1_anote u gt gp t z f : wp1 u t z f -> wp1 u (anote gt gp t) z f.
Proof. unfold wp1. rewrite anote_resp. intros H Hf. specialize (H Hf). destruct (a_resp t); [exact H|]. rewrite anote_wp. exact H. Qed.
Lemma wp1_init cf u : forall reqs, GL Prop (wp1 u) (map (ainit cf) reqs) (map (fun _ => 0) reqs) (map (fun r => a_wp (ainit cf r) u) reqs).
Proof.
  induction reqs as [|r reqs IH]; cbn [map]; constructor; [|exact IH]. intro Hf.
  destruct (a_resp (ainit cf r)) as [r'|] eqn:E; [|auto]. intro Hs. pose proof (ainit_resp_err cf r r' E). lia.
Qed.

(* which requests: PUT /allocations and POST /allocations (from 1.13) naming u in an allocation with resources *)
Lemma wp_table cf u :
  (forall v e, a_wp (ainit cf (AllocPut v e)) u <-> exists a, In a (ci_allocs e) /\ ai_rp a = u /\ ai_res a <> []) /\
  (forall v l, 13 <= v -> (a_wp (ainit cf (AllocPost v l)) u <->
     exists e a, In e l /\ In a (ci_allocs e) /\ ai_rp a = u /\ ai_res a <> [])).
Proof.
  split.
  - intros v e. cbn [ainit tinit a_wp t_wp x_kind x_all length]. unfold nmp. cbn [x_all]. split.
    + intros (_ & _ & e0 & a & [<-|[]] & H). eauto.
    + intros (a & H). split; [discriminate|]. split; [reflexivity|]. exists e, a. split; [left; reflexivity|exact H].
  - intros v l Hv. cbn [ainit tinit]. destruct (v <? 13) eqn:E; [apply Z.ltb_lt in E; lia|]. cbn [a_wp t_wp x_kind x_all length]. unfold nmp. cbn [x_all].
    split; [intros (_ & _ & H); exact H|intro H; split; [discriminate|split; [reflexivity|exact H]]].
Qed.

(* 1a. any start state, any requests, any schedule: a PUT / POST /allocations that names provider u in an allocation with
   resources and is answered with success has added EXACTLY 1 to u's generation *)
Theorem c10d_provider_exact : forall cf reqs s d u,
  let '(ts, _, tl) := a_run_tally cf u s (map (ainit cf) reqs) d (map (fun _ => 0) reqs) in
  forall i r t rs, nth_error reqs i = Some r -> a_wp (ainit cf r) u ->
    nth_error ts i = Some t -> a_resp t = Some rs -> status rs < 300 -> nth_error tl i = Some 1.
Proof.
  intros cf reqs s d u.
  pose proof (run_GL cf u Prop (wp1 u) (wp1_anote u) (wp1_step cf u) s _ d _ _ (wp1_init cf u reqs)) as H.
  destruct (a_run_tally cf u s (map (ainit cf) reqs) d (map (fun _ => 0) reqs)) as [[ts d'] tl].
  intros i r t rs Hr Hf Ht Hrs Hs. destruct (GL_nth Prop (wp1 u) _ _ _ H i t Ht) as (z & a & Hz & Ha & Hp).
  rewrite nth_error_map, Hr in Ha. injection Ha as <-. specialize (Hp Hf). rewrite Hrs in Hp. rewrite Hz, (Hp Hs). reflexivity.
Qed.

(* ================================================================ 1b. consumers: every allocation write *)
(* the request will have an allocation object with a positive amount for consumer c: it names c with non-empty allocations *)
Definition nmc (x : actx) (c : Z) : Prop :=
  Forall ewf (x_all x) /\ exists e, In e (x_all x) /\ ci_uuid e = c /\ ci_allocs e <> [].
Definition posc (objs : list areq) (c : Z) : Prop := exists o, In o objs /\ q_cons o = c /\ 0 < q_amt o.
Definition t_ww (t : tstate) (c : Z) : Prop :=
  match t with
  | TRi x _ => nmc x c
  | TCons x todo acc => nmc x c /\ exists done, x_all x = done ++ todo /\ map co_uuid (rev acc) = map ci_uuid done
  | TCreate x e todo acc | TReload x e todo acc =>
      nmc x c /\ exists done, x_all x = done ++ e :: todo /\ map co_uuid (rev acc) = map ci_uuid done
  | TObjs x ks todo objs =>
      posc objs c \/ exists k a y, In (WRp k a) todo /\ co_uuid k = c /\ In y (ai_res a) /\ 0 < snd y
  | TMain x ks objs => posc objs c
  | _ => False
  end.
Definition a_ww (t : athread) (c : Z) : Prop :=
  match t with ATree (TTOther t0) | ACached _ t0 | ACacheLoad t0 => t_ww t0 c | _ => False end.
Lemma anote_ww gt gp t c : a_ww (anote gt gp t) c <-> a_ww t c.
Proof. destruct t; cbn; tauto. Qed.

Lemma work_items_named : forall ks l, map co_uuid ks = map ci_uuid l -> Forall ewf l ->
  forall e, In e l -> ci_allocs e <> [] ->
  exists k a y, In (WRp k a) (work_items ks l) /\ co_uuid k = ci_uuid e /\ In y (ai_res a) /\ 0 < snd y.
Proof.
  induction ks as [|k0 ks IH]; intros [|e0 l] Hm Hw e He Hne; cbn [map] in Hm; try discriminate; [destruct He|].
  injection Hm as Hu Hm. inversion Hw as [|? ? He0 Hw']. subst. cbn [work_items]. destruct He as [<-|He].
  - destruct (ci_allocs e0) as [|al als] eqn:Ea; [contradiction Hne; reflexivity|].
    destruct (He0 al) as (y & Hy & Hp); [rewrite Ea; left; reflexivity|]. exists k0, al, y. split; [apply in_or_app; left; left; reflexivity|auto].
  - destruct (IH l Hm Hw' e He Hne) as (k & a & y & H1 & H2). exists k, a, y. split; [|exact H2].
    destruct (ci_allocs e0); [right; exact H1|apply in_or_app; right; exact H1].
Qed.
Lemma ww_after_cons x ks c : nmc x c -> map co_uuid ks = map ci_uuid (x_all x) -> t_ww (after_cons x ks) c.
Proof.
  intros (Hw & e & He & Eu & Hne) Hm. destruct (work_items_named ks (x_all x) Hm Hw e He Hne) as (k & a & y & H1 & H2 & H3).
  unfold after_cons. destruct (work_items ks (x_all x)) as [|w ws] eqn:E; [destruct H1|]. cbn [t_ww]. right. exists k, a, y.
  split; [exact H1|]. split; [congruence|exact H3].
Qed.

Definition ww_after (resp' : option resp) (ww' : Prop) (d d' : db) (c : Z) : Prop :=
  (resp' = None -> ww') /\ (forall r, resp' = Some r -> status r < 300 -> cincr d d' c).
Lemma wwa_err us s cd (h : Prop) d d' c : 300 <= s -> ww_after (t_resp (cleanup_or_done us (err s cd))) h d d' c.
Proof. intro Hs. rewrite cleanup_resp. split; [discriminate|]. intros r [= <-] H. cbn in H. lia. Qed.
Lemma wwa_open t' d d' c : t_resp t' = None -> t_ww t' c -> ww_after (t_resp t') (t_ww t' c) d d' c.
Proof. intros E H. rewrite E. split; [intros _; exact H|discriminate]. Qed.

Lemma main_pos_incr x ks objs d0 d' c : posc objs c -> main_txn x ks objs d0 = Ok d' -> cincr d0 d' c.
Proof.
  intros (o & Ho & Ec & Hp) Em. destruct (main_cons_exact _ _ _ _ _ Em) as (X1 & _ & X3).
  assert (Hin : In c (map q_cons objs)) by (rewrite <- Ec; apply in_map; exact Ho).
  destruct (X1 c Hin) as (o1 & _ & _ & A & [B|B]); [exists (q_cgen o1); auto|]. exfalso. apply (X3 o Ho Hp). rewrite Ec. exact B.
Qed.

Lemma pair_next x (done rest : list cons_in) e (acc : list cobj) k' :
  x_all x = done ++ e :: rest -> map co_uuid (rev acc) = map ci_uuid done -> co_uuid k' = ci_uuid e ->
  x_all x = (done ++ [e]) ++ rest /\ map co_uuid (rev (k' :: acc)) = map ci_uuid (done ++ [e]).
Proof.
  intros H1 H2 H3. split; [rewrite <- app_assoc; exact H1|]. cbn [rev]. rewrite !map_app, H2. cbn [map]. rewrite H3. reflexivity.
Qed.

Lemma t_ww_step t d c : t_resp t = None -> t_ww t c ->
  ww_after (t_resp (snd (tstep t d))) (t_ww (snd (tstep t d)) c) d (fst (tstep t d)) c.
Proof.
  intros Er Hh.
  assert (Hfin : forall x (done : list cons_in) acc d1, nmc x c -> x_all x = done ++ [] -> map co_uuid (rev acc) = map ci_uuid done ->
            ww_after (t_resp (after_cons x (rev acc))) (t_ww (after_cons x (rev acc)) c) d d1 c).
  { intros x done acc d1 Hn H1 H2. apply wwa_open; [apply (proj1 (after_cons_open x _ 0))|]. apply ww_after_cons; [exact Hn|].
    rewrite H2, H1, app_nil_r. reflexivity. }
  destruct t as [r|r|r g0|x todo|x todo acc|x e todo acc|x e todo acc|x ks todo objs|x ks objs|todo r|c0|c0 rows|c0];
    cbn [t_ww] in Hh; try contradiction; cbn [tstep].
  - (* TRi *)
    assert (Hnext : forall d1, ww_after (t_resp (match x_all x with [] => after_cons x [] | c1 :: l1 => TCons x (c1 :: l1) [] end))
                                        (t_ww (match x_all x with [] => after_cons x [] | c1 :: l1 => TCons x (c1 :: l1) [] end) c) d d1 c).
    { intro d1. destruct (x_all x) as [|e l] eqn:El.
      - destruct Hh as (_ & e0 & He0 & _). rewrite El in He0. destruct He0.
      - apply wwa_open; [reflexivity|]. cbn [t_ww]. split; [exact Hh|]. exists []. rewrite El. split; reflexivity. }
    destruct todo as [|r rest]; cbn [fst snd]; [apply Hnext|].
    destruct (find_rp d (ri_rp r)) as [me|]; [|apply (wwa_err []); lia].
    destruct (negb (ri_gen r =? rp_gen me)); cbn [fst snd]; [apply (wwa_err []); lia|].
    destruct rest as [|r2 rest2]; [apply Hnext|apply wwa_open; [reflexivity|exact Hh]].
  - (* TCons *)
    destruct Hh as (Hn & done & H1 & H2).
    destruct todo as [|e rest]; cbn [fst snd]; [apply (Hfin x done acc d Hn H1 H2)|]. cbv zeta.
    destruct (rq_attrs (x_cf x) (x_v x) e) as [[pj us] ty].
    destruct (find_cons d (ci_uuid e)) as [k|] eqn:F.
    + destruct (_ && _); cbn [fst snd]; [apply wwa_err; lia|].
      destruct (pair_next x done rest e acc (mkCobj (c_uuid k) (c_gen k) (c_proj k) (c_user k) (c_type k) false pj us ty) H1 H2 (fc_uuid _ _ _ F)) as [P1 P2].
      destruct rest as [|e2 rest2]; [apply (Hfin x _ _ _ Hn P1 P2)|]. apply wwa_open; [reflexivity|]. cbn [t_ww]. split; [exact Hn|eauto].
    + destruct (_ && _); cbn [fst snd]; [apply wwa_err; lia|]. apply wwa_open; [reflexivity|]. cbn [t_ww]. split; [exact Hn|eauto].
  - (* TCreate *)
    destruct Hh as (Hn & done & H1 & H2). destruct (rq_attrs (x_cf x) (x_v x) e) as [[pj us] ty].
    destruct (find_cons d (ci_uuid e)) as [k|] eqn:F; cbn [fst snd]; [apply wwa_open; [reflexivity|cbn [t_ww]; split; [exact Hn|eauto]]|].
    destruct (pair_next x done todo e acc (mkCobj (ci_uuid e) 0 pj us ty true pj us ty) H1 H2 eq_refl) as [P1 P2].
    destruct todo as [|e2 rest2]; [apply (Hfin x _ _ _ Hn P1 P2)|]. apply wwa_open; [reflexivity|]. cbn [t_ww]. split; [exact Hn|eauto].
  - (* TReload *)
    destruct Hh as (Hn & done & H1 & H2). destruct (rq_attrs (x_cf x) (x_v x) e) as [[pj us] ty].
    destruct (find_cons d (ci_uuid e)) as [k|] eqn:F; cbn [fst snd]; [|apply wwa_err; lia].
    destruct (28 <=? x_v x); cbn [fst snd]; [apply wwa_err; lia|].
    destruct (pair_next x done todo e acc (mkCobj (c_uuid k) (c_gen k) (c_proj k) (c_user k) (c_type k) false pj us ty) H1 H2 (fc_uuid _ _ _ F)) as [P1 P2].
    destruct todo as [|e2 rest2]; [apply (Hfin x _ _ _ Hn P1 P2)|]. apply wwa_open; [reflexivity|]. cbn [t_ww]. split; [exact Hn|eauto].
  - (* TObjs *)
    destruct todo as [|w rest]; cbn [fst snd].
    { apply wwa_open; [reflexivity|]. cbn [t_ww]. destruct Hh as [Hh|(k & a & y & [] & _)]. exact Hh. }
    cbv zeta.
    assert (Hnext : forall objs' d1, (posc objs' c \/ exists k a y, In (WRp k a) rest /\ co_uuid k = c /\ In y (ai_res a) /\ 0 < snd y) ->
              ww_after (t_resp (match rest with [] => TMain x ks objs' | _ :: _ => TObjs x ks rest objs' end))
                       (t_ww (match rest with [] => TMain x ks objs' | _ :: _ => TObjs x ks rest objs' end) c) d d1 c).
    { intros objs' d1 H. destruct rest; (apply wwa_open; [reflexivity|]); cbn [t_ww]; [|exact H].
      destruct H as [H|(k & a & y & [] & _)]. exact H. }
    assert (Hkeep : forall more, posc objs c -> posc (objs ++ more) c).
    { intros more (o & Ho & H). exists o. split; [apply in_or_app; left; exact Ho|exact H]. }
    destruct w as [k|k a].
    + cbn [fst snd]. apply Hnext. destruct Hh as [Hh|(k1 & a1 & y & [Hd|Hin] & H)]; [left; apply Hkeep; exact Hh|discriminate|right; eauto 6].
    + destruct (find_rp d (ai_rp a)) as [rp0|]; cbn [fst snd]; [|apply wwa_err; lia].
      apply Hnext. destruct Hh as [Hh|(k1 & a1 & y & [Hd|Hin] & Ec & Hy & Hp)]; [left; apply Hkeep; exact Hh| |right; eauto 8].
      injection Hd as <- <-. left. exists (mkAreq (co_uuid k) (co_gen k) (ai_rp a) (rp_gen rp0) (fst y) (snd y)).
      split; [apply in_or_app; right; apply in_map_iff; exists y; auto|cbn; auto].
  - (* TMain *)
    destruct (main_txn x ks objs d) as [d'|e0] eqn:Em; cbn [fst snd]; rewrite cleanup_resp.
    + split; [discriminate|]. intros r _ _. exact (main_pos_incr _ _ _ _ _ _ Hh Em).
    + split; [discriminate|]. intros r [= <-] H. pose proof (main_err_status x e0). lia.
Qed.

Lemma a_ww_step cf t d c : a_resp t = None -> a_ww t c ->
  ww_after (a_resp (fst (astep cf t d))) (a_ww (fst (astep cf t d)) c) d (snd (astep cf t d)) c.
Proof.
  intros Er Hh.
  destruct t as [t0|snap t0|t0|c0|t0|u0 g0 ts|u0 ts g0|u0 ts g0 lost|v u0 g0 l|v u0 l g0 gone|n|n|n|old new|id new|n|id|t1|t1|t1|t1 stale];
    cbn [a_ww] in Hh; try contradiction.
  - destruct t0 as [r|v u0 name parent|v u0 name parent|v u0 name np g0|u0|u0|t0]; try contradiction.
    cbn [a_resp] in Er. cbn [astep ttstep]. pose proof (t_ww_step t0 d c Er Hh) as H. destruct (tstep t0 d) as [d' t']. exact H.
  - cbn [a_resp] in Er.
    destruct t0 as [r|r|r g0|x todo|x todo acc|x e todo acc|x e todo acc|x ks todo objs|x ks objs|todo r|c1|c1 rows|c1];
      try (rewrite acached_default by (intros; discriminate); cbn [fst snd a_resp a_ww];
           match goal with |- context [tstep ?tt d] => exact (t_ww_step tt d c Er Hh) end).
    + destruct todo as [|[k|k a] rest];
        try (rewrite acached_default by (intros; discriminate); cbn [fst snd a_resp a_ww];
             match goal with |- context [tstep ?tt d] => exact (t_ww_step tt d c Er Hh) end).
      pose proof (t_ww_step (TObjs x ks (WWipe k :: rest) objs) d c Er Hh) as H. cbn [astep].
      destruct (tstep (TObjs x ks (WWipe k :: rest) objs) d) as [d' t'] eqn:Es. cbn [fst snd] in H.
      assert (Eo : t_resp t' = None) by (cbn [tstep] in Es; injection Es as _ <-; destruct rest; reflexivity).
      rewrite Eo in H. destruct (cache_misses snap (wipe_list d (co_uuid k))); cbn [fst snd a_resp a_ww]; [|rewrite Eo; exact H].
      split; [intros _; apply H; reflexivity|discriminate].
    + cbn [t_ww] in Hh. cbn [astep]. unfold main_txn_cached.
      destruct (main_txn x ks objs (set_rcs d (rcs d ++ stale_rows d snap))) as [d'|e0] eqn:Em; cbn [fst snd a_resp]; rewrite cleanup_resp.
      * split; [discriminate|]. intros r _ _. exact (main_pos_incr _ _ _ _ _ _ Hh Em).
      * split; [discriminate|]. intros r [= <-] H. pose proof (main_err_status x e0). lia.
  - cbn [astep fst snd a_resp a_ww]. split; [intros _; exact Hh|]. intros r E _. exfalso.
    destruct t0; cbn [t_ww] in Hh; try contradiction; discriminate E.
Qed.

Definition ww1 (c : Z) (t : athread) (z : Z) (f : Prop) : Prop :=
  f -> match a_resp t with None => z = 0 /\ a_ww t c | Some r => status r < 300 -> z = 1 end.
Lemma ww1_step cf c t z f d : ww1 c t z f -> ww1 c (fst (astep cf t d)) (z + cdelta d (snd (astep cf t d)) c) f /\ True.
Proof.
  intro H. split; [|exact I]. intro Hf. specialize (H Hf). pose proof (a_cacct cf t d c) as A. unfold c_outcome in A.
  destruct (a_resp t) as [r|] eqn:Er.
  - destruct A as [A1 A2]. assert (E : cdelta d (snd (astep cf t d)) c = 0) by (destruct A2; [apply csame_cdelta|apply cend_cdelta]; assumption).
    rewrite A1, E, Z.add_0_r. exact H.
  - destruct H as [-> Hw]. pose proof (a_ww_step cf t d c Er Hw) as [W1 W2].
    destruct A as [[A1 A2]|[r [A1 _]]].
    + assert (E : cdelta d (snd (astep cf t d)) c = 0) by (destruct A2; [apply csame_cdelta|apply ccreate_cdelta]; assumption).
      rewrite A1, E. split; [reflexivity|apply W1; exact A1].
    + rewrite A1. intro Hs. rewrite (cincr_cdelta _ _ _ (W2 r A1 Hs)). reflexivity.
Qed.
Lemma ww1_anote c gt gp t z f : ww1 c t z f -> ww1 c (anote gt gp t) z f.
Proof. unfold ww1. rewrite anote_resp. intros H Hf. specialize (H Hf). destruct (a_resp t); [exact H|]. rewrite anote_ww. exact H. Qed.
Lemma ww1_init cf c : forall reqs, PL Prop (ww1 c) (map (ainit cf) reqs) (map (fun _ => 0) reqs) (map (fun r => a_ww (ainit cf r) c) reqs).
Proof.
  induction reqs as [|r reqs IH]; cbn [map]; constructor; [|exact IH]. intro Hf.
  destruct (a_resp (ainit cf r)) as [r'|] eqn:E; [|auto]. intro Hs. pose proof (ainit_resp_err cf r r' E). lia.
Qed.

(* which requests: a well-formed PUT / POST /allocations (from 1.13) / POST /reshaper (from 1.30) with an entry for c whose
   allocations are not empty *)
Lemma ww_table cf c r : req_wf r = true ->
  (exists e, In e (req_consumers r) /\ ci_uuid e = c /\ ci_allocs e <> []) ->
  match r with AllocPost v _ => 13 <= v | Reshape v _ _ => 30 <= v | _ => True end ->
  a_ww (ainit cf r) c.
Proof.
  intros Hwf Hn Hv. destruct (C06.req_wf_consumers r Hwf) as [_ Hc].
  assert (Hf : Forall ewf (req_consumers r)) by (apply Forall_forall; intros e He; apply wf_ewf, Hc, He).
  destruct r; cbn [req_consumers] in Hn, Hf; try (exfalso; destruct Hn as (e0 & He0 & _); exact He0); cbn [ainit tinit].
  - cbn [a_ww t_ww]. split; [split; [exact Hf|exact Hn]|]. exists []. split; reflexivity.
  - destruct (v <? 13) eqn:E; [apply Z.ltb_lt in E; lia|]. cbn [a_ww t_ww]. split; [split; [exact Hf|exact Hn]|]. exists []. split; reflexivity.
  - destruct (v <? 30) eqn:E; [apply Z.ltb_lt in E; lia|]. cbn [a_ww t_ww]. split; [exact Hf|exact Hn].
Qed.

(* 1b. any start state, any requests, any schedule: an allocation write that names consumer c with non-empty allocations and is
   answered with success has added EXACTLY 1 to c's generation (in the transaction that fixed its answer: a_ww_step) *)
Theorem c10d_consumer_exact : forall cf reqs s d c,
  let '(ts, _, tl) := c_run_tally cf c s (map (ainit cf) reqs) d (map (fun _ => 0) reqs) in
  forall i r t rs, nth_error reqs i = Some r -> a_ww (ainit cf r) c ->
    nth_error ts i = Some t -> a_resp t = Some rs -> status rs < 300 -> nth_error tl i = Some 1.
Proof.
  intros cf reqs s d c.
  pose proof (run_PL cf c Prop (ww1 c) (fun _ _ _ _ => True) (ww1_anote c) (ww1_step cf c) s _ d _ _ (ww1_init cf c reqs)) as H.
  destruct (c_run_tally cf c s (map (ainit cf) reqs) d (map (fun _ => 0) reqs)) as [[ts d'] tl].
  intros i r t rs Hr Hf Ht Hrs Hs. destruct (PL_nth Prop (ww1 c) _ _ _ H i t Ht) as (z & a & Hz & Ha & Hp).
  rewrite nth_error_map, Hr in Ha. injection Ha as <-. specialize (Hp Hf). rewrite Hrs in Hp. rewrite Hz, (Hp Hs). reflexivity.
Qed.

(* ================================================================ 2. the provider generations of POST /reshaper, exactly *)
Lemma replace_all_gens_le c w objs d' : gens_le c w -> replace_all retry_fuel c w objs = Ok d' ->
  (forall u, In u (map q_rp objs) -> exists g, gen_of w u = Some g /\ gen_of d' u = Some (g + 1)) /\
  (forall u, ~ In u (map q_rp objs) -> gen_of d' u = gen_of w u).
Proof.
  intros Hle H. pose proof (replace_all_fresh _ _ _ _ _ Hle H) as Hs. destruct (saw_ok_gens _ _ _ Hs) as [S1 S2].
  rewrite fresh_q_rp in S1, S2. auto.
Qed.

Lemma reshape_final_gens : forall l d gens d', reshape_final d l gens = Ok d' -> length gens = length l -> NoDup (map ri_rp l) ->
  (forall r, In r l -> exists g, gen_of d (ri_rp r) = Some g /\ gen_of d' (ri_rp r) = Some (g + 1)) /\
  (forall u, ~ In u (map ri_rp l) -> gen_of d' u = gen_of d u).
Proof.
  induction l as [|r l IH]; intros d gens d' H Hl Hnd; cbn [reshape_final] in H.
  - injection H as <-. split; [intros r []|reflexivity].
  - destruct gens as [|[u0 g] gens]; [discriminate Hl|]. cbn [length] in Hl.
    destruct (set_inventory d (ri_rp r) g (ri_invs r)) as [d1|] eqn:E; cbn [bind] in H; [|discriminate].
    apply set_inventory_bumped, bumped_spec in E. destruct E as (B1 & B2 & B3 & _).
    cbn [map] in Hnd. inversion Hnd as [|? ? Hni Hnd']. subst. destruct (IH d1 gens d' H ltac:(lia) Hnd') as [I1 I2]. split.
    + intros r0 [<-|Hr0].
      * exists g. split; [exact B1|]. rewrite (I2 _ Hni). exact B2.
      * destruct (I1 r0 Hr0) as (g0 & A & B). exists g0. split; [|exact B]. rewrite <- A. symmetry. apply B3.
        intros E. apply Hni. rewrite <- E. apply in_map. exact Hr0.
    + intros u Hu. cbn [map] in Hu. rewrite I2 by (intro Hx; apply Hu; right; exact Hx). apply B3. intros ->. apply Hu. left. reflexivity.
Qed.

Definition is_nil {A} (l : list A) : bool := match l with [] => true | _ => false end.
(* what POST /reshaper adds to provider u: 1 for the interim inventory (when u is named with inventories), 1 for the allocation
   replacement (when an allocation object is on u), 1 for the final inventory (when u is named) *)
Definition reshape_incr (ri : list rinv_in) (objs : list areq) (u : Z) : Z :=
  (if existsb (fun r => (ri_rp r =? u) && negb (is_nil (ri_invs r))) ri then 1 else 0) +
  (if memZ u (map q_rp objs) then 1 else 0) +
  (if memZ u (map ri_rp ri) then 1 else 0).
Lemma reshape_incr_range ri objs u : 0 <= reshape_incr ri objs u <= 3.
Proof. unfold reshape_incr. destruct (existsb _ ri); destruct (memZ u (map q_rp objs)); destruct (memZ u (map ri_rp ri)); lia. Qed.

Theorem c10d_reshape_exact x ks objs d d' : x_kind x = KReshape -> nodupb (map ri_rp (x_ri x)) = true ->
  main_txn x ks objs d = Ok d' ->
  forall u g, gen_of d u = Some g -> gen_of d' u = Some (g + reshape_incr (x_ri x) objs u).
Proof.
  intros Hk Hnd H u g Hg. unfold main_txn in H. cbv zeta in H. rewrite Hk in H.
  pose proof (C09.fold_update_consumer_rps ks d) as Er. set (d1 := fold_left update_consumer ks d) in *.
  unfold reshape_txn_c in H.
  destruct (reshape_interim d1 (x_ri x)) as [[dB gens]|] eqn:E1; cbn [bind] in H; [|discriminate].
  match type of H with context [replace_all _ _ _ ?o] => set (objs' := o) in * end.
  destruct (replace_all retry_fuel d dB objs') as [dC|] eqn:E2; cbn [bind] in H; [|discriminate].
  destruct (reshape_interim_gens _ _ _ _ Hnd E1) as (Eg & G1 & G2 & G3 & Gle).
  assert (Hle : gens_le d dB).
  { intros u0 g0 H0. apply Gle. rewrite (gen_of_rps d d1 u0 Er). exact H0. }
  destruct (replace_all_gens_le _ _ _ _ Hle E2) as [R1 R2].
  assert (Eo : map q_rp objs' = map q_rp objs) by (apply strip_rps; apply strip_lookup).
  apply (proj1 (nodupb_NoDup _)) in Hnd.
  destruct (reshape_final_gens _ _ _ _ H ltac:(rewrite map_length, Eg, map_length; reflexivity) Hnd) as [F1 F2].
  rewrite <- (gen_of_rps d d1 u Er) in Hg. unfold reshape_incr.
  (* phase 1 *)
  assert (P1 : gen_of dB u = Some (g + (if existsb (fun r => (ri_rp r =? u) && negb (is_nil (ri_invs r))) (x_ri x) then 1 else 0))).
  { destruct (existsb _ (x_ri x)) eqn:Ex.
    - apply existsb_exists in Ex. destruct Ex as (r & Hr & Er'). apply andb_true_iff in Er'. destruct Er' as [Eu En]. apply Z.eqb_eq in Eu.
      assert (Hne : ri_invs r <> []) by (destruct (ri_invs r); [discriminate|discriminate]).
      destruct (G1 r Hr Hne) as [A B]. rewrite Eu in A, B. rewrite A in Hg. injection Hg as <-. exact B.
    - rewrite Z.add_0_r. destruct (in_dec Z.eq_dec u (map ri_rp (x_ri x))) as [Hin|Hni]; [|rewrite (G3 u Hni); exact Hg].
      apply in_map_iff in Hin. destruct Hin as (r & Eu & Hr). rewrite <- Eu. rewrite (G2 r Hr); [rewrite Eu; exact Hg|].
      destruct (ri_invs r) eqn:Ei; [reflexivity|]. exfalso.
      assert (X : existsb (fun r0 => (ri_rp r0 =? u) && negb (is_nil (ri_invs r0))) (x_ri x) = true); [|congruence].
      apply existsb_exists. exists r. split; [exact Hr|]. rewrite Eu, Z.eqb_refl, Ei. reflexivity. }
  (* phase 2 *)
  assert (P2 : gen_of dC u = Some (g + (if existsb (fun r => (ri_rp r =? u) && negb (is_nil (ri_invs r))) (x_ri x) then 1 else 0)
                                     + (if memZ u (map q_rp objs) then 1 else 0))).
  { rewrite <- Eo. destruct (memZ u (map q_rp objs')) eqn:M.
    - apply memZ_In in M. destruct (R1 u M) as (g1 & A & B). rewrite P1 in A. injection A as <-. exact B.
    - apply memZ_nIn in M. rewrite (R2 u M), Z.add_0_r. exact P1. }
  (* phase 3 *)
  destruct (memZ u (map ri_rp (x_ri x))) eqn:M.
  - apply memZ_In in M. apply in_map_iff in M. destruct M as (r & Eu & Hr). destruct (F1 r Hr) as (g1 & A & B).
    rewrite Eu in A, B. rewrite P2 in A. injection A as <-. rewrite B. f_equal. lia.
  - apply memZ_nIn in M. rewrite (F2 u M), P2. f_equal. lia.
Qed.

(* the step of the thread (with the request's class cache): at most 3, and exactly reshape_incr, for a provider that stays *)
Corollary c10d_reshape_step snap x ks objs d d' u : x_kind x = KReshape -> nodupb (map ri_rp (x_ri x)) = true ->
  main_txn_cached snap x ks objs d = Ok d' -> gen_of d u <> None ->
  gdelta d d' u = reshape_incr (x_ri x) objs u /\ 0 <= gdelta d d' u <= 3.
Proof.
  intros Hk Hnd H Hne. unfold main_txn_cached in H.
  destruct (main_txn x ks objs (set_rcs d (rcs d ++ stale_rows d snap))) as [d1|] eqn:Em; [|discriminate]. injection H as <-.
  destruct (gen_of d u) as [g|] eqn:Hg; [|contradiction]. pose proof (c10d_reshape_exact _ _ _ _ _ Hk Hnd Em u g Hg) as E.
  assert (Ed : gdelta d (set_rcs d1 (rcs d)) u = reshape_incr (x_ri x) objs u).
  { unfold gdelta. rewrite Hg. change (gen_of (set_rcs d1 (rcs d)) u) with (gen_of d1 u). rewrite E. lia. }
  rewrite Ed. split; [reflexivity|apply reshape_incr_range].
Qed.

Print Assumptions c10d_provider_exact.
Print Assumptions c10d_consumer_exact.
Print Assumptions c10d_reshape_exact.
Print Assumptions c10d_reshape_step.
Print Assumptions wp_table.
Print Assumptions ww_table.
