(* C11 - reads report exactly the state produced by the successful writes: proofs.
   Model/Reads.v (the read handlers on the database) refines Spec/ApiSpec.v (the reads on the
   abstract state, with usages, roots and totals derived). *)
From Coq Require Import Permutation.
From PV Require Import Proofs.Defs Spec.ApiSpec.
From PV Require Proofs.C04 Proofs.C08 Proofs.C09 Proofs.C12 Proofs.C07d Proofs.C07e Proofs.C11n.

(* ================================================================ the row order *)
Lemma row_leb_total : forall a b, row_leb a b = false -> row_leb b a = true.
Proof.
  induction a as [|x a IH]; intros [|y b]; cbn [row_leb]; try congruence.
  destruct (x <? y) eqn:E1; [discriminate|]. destruct (y <? x) eqn:E2; [reflexivity|]. apply IH.
Qed.

Lemma row_leb_antisym : forall a b, row_leb a b = true -> row_leb b a = true -> a = b.
Proof.
  induction a as [|x a IH]; intros [|y b]; cbn [row_leb]; try congruence.
  destruct (x <? y) eqn:E1; destruct (y <? x) eqn:E2; try discriminate.
  - apply Z.ltb_lt in E1. apply Z.ltb_lt in E2. lia.
  - intros H1 H2. apply Z.ltb_ge in E1. apply Z.ltb_ge in E2.
    assert (x = y) by lia. subst. f_equal. apply IH; assumption.
Qed.

Lemma row_leb_trans : forall a b c, row_leb a b = true -> row_leb b c = true -> row_leb a c = true.
Proof.
  induction a as [|x a IH]; intros [|y b] [|z c]; cbn [row_leb]; try congruence.
  destruct (Z.ltb_spec x y), (Z.ltb_spec y x), (Z.ltb_spec y z), (Z.ltb_spec z y),
           (Z.ltb_spec x z), (Z.ltb_spec z x); intros Ha Hb;
    try lia; try discriminate; try reflexivity.
  exact (IH _ _ Ha Hb).
Qed.

(* insertion commutes, hence the sorted list depends only on the multiset of rows *)
Lemma insert_comm a b : forall l, insert_row a (insert_row b l) = insert_row b (insert_row a l).
Proof.
  assert (AB : row_leb a b = true -> row_leb b a = true -> a = b) by apply row_leb_antisym.
  induction l as [|x l IH]; cbn [insert_row].
  - destruct (row_leb a b) eqn:E1; destruct (row_leb b a) eqn:E2; try reflexivity.
    + rewrite (AB eq_refl eq_refl). reflexivity.
    + apply row_leb_total in E1. congruence.
  - destruct (row_leb b x) eqn:Ebx; destruct (row_leb a x) eqn:Eax; cbn [insert_row];
      rewrite ?Ebx, ?Eax.
    + destruct (row_leb a b) eqn:E1; destruct (row_leb b a) eqn:E2; try reflexivity.
      * rewrite (AB eq_refl eq_refl). reflexivity.
      * apply row_leb_total in E1. congruence.
    + destruct (row_leb a b) eqn:E1.
      * rewrite (row_leb_trans _ _ _ E1 Ebx) in Eax. discriminate.
      * reflexivity.
    + destruct (row_leb b a) eqn:E1.
      * rewrite (row_leb_trans _ _ _ E1 Eax) in Ebx. discriminate.
      * reflexivity.
    + f_equal. exact IH.
Qed.

Lemma sort_rows_perm l l' : Permutation l l' -> sort_rows l = sort_rows l'.
Proof.
  induction 1 as [|x l l' _ IH|x y l|l1 l2 l3 _ IH1 _ IH2]; unfold sort_rows in *; cbn [fold_right].
  - reflexivity.
  - f_equal. exact IH.
  - apply insert_comm.
  - congruence.
Qed.

Lemma insert_row_perm r l : Permutation (insert_row r l) (r :: l).
Proof.
  induction l as [|x l IH]; cbn [insert_row]; [reflexivity|].
  destruct (row_leb r x); [reflexivity|].
  etransitivity; [apply perm_skip; exact IH|apply perm_swap].
Qed.

Lemma sort_rows_is_perm l : Permutation (sort_rows l) l.
Proof.
  induction l as [|x l IH]; unfold sort_rows in *; cbn [fold_right]; [reflexivity|].
  etransitivity; [apply insert_row_perm|apply perm_skip; exact IH].
Qed.

Lemma sort_rows_In x l : In x (sort_rows l) <-> In x l.
Proof.
  split; apply Permutation_in; [apply sort_rows_is_perm|symmetry; apply sort_rows_is_perm].
Qed.

(* ================================================================ list utilities *)
Lemma flat_map_nil {A B} (l : list A) : flat_map (fun _ => @nil B) l = [].
Proof. induction l as [|x l IH]; cbn [flat_map]; [reflexivity|exact IH]. Qed.

Lemma flat_map_ext_in {A B} (f g : A -> list B) l :
  (forall x, In x l -> f x = g x) -> flat_map f l = flat_map g l.
Proof.
  induction l as [|x l IH]; intro H; cbn [flat_map]; [reflexivity|].
  rewrite (H x (or_introl eq_refl)), IH; [reflexivity|]. intros y Hy. apply H. right. exact Hy.
Qed.

Lemma flat_map_map {A B C} (h : A -> B) (f : B -> list C) l :
  flat_map f (map h l) = flat_map (fun x => f (h x)) l.
Proof. induction l as [|x l IH]; cbn [map flat_map]; [reflexivity|rewrite IH; reflexivity]. Qed.

Lemma flat_map_single {A B} (f : A -> B) l : flat_map (fun x => [f x]) l = map f l.
Proof. induction l as [|x l IH]; cbn [map flat_map]; [reflexivity|rewrite IH; reflexivity]. Qed.

Lemma flat_map_filter {A B} (p : A -> bool) (f : A -> list B) l :
  flat_map f (filter p l) = flat_map (fun x => if p x then f x else []) l.
Proof.
  induction l as [|x l IH]; cbn [filter flat_map]; [reflexivity|].
  destruct (p x); cbn [flat_map app]; rewrite IH; reflexivity.
Qed.

Lemma flat_map_app_perm {A B} (f g : A -> list B) l :
  Permutation (flat_map (fun x => f x ++ g x) l) (flat_map f l ++ flat_map g l).
Proof.
  induction l as [|x l IH]; cbn [flat_map]; [reflexivity|].
  rewrite <- !app_assoc. apply Permutation_app_head.
  etransitivity; [apply Permutation_app_head; exact IH|].
  rewrite !app_assoc. apply Permutation_app_tail. apply Permutation_app_comm.
Qed.

Lemma find_map {A B} (h : A -> B) (p : B -> bool) l :
  find p (map h l) = option_map h (find (fun x => p (h x)) l).
Proof.
  induction l as [|x l IH]; cbn [map find]; [reflexivity|].
  destruct (p (h x)); [reflexivity|exact IH].
Qed.

Lemma find_filter {A} (p q : A -> bool) l :
  find p (filter q l) = find (fun x => q x && p x) l.
Proof.
  induction l as [|x l IH]; cbn [filter find]; [reflexivity|].
  destruct (q x); cbn [find andb]; [destruct (p x); [reflexivity|exact IH]|exact IH].
Qed.

(* ================================================================ lookups in the abstraction *)
Lemma find_rp_l_find l u : find_rp_l l u = find (fun r => rp_uuid r =? u) l.
Proof. induction l as [|r l IH]; cbn [find_rp_l find]; [reflexivity|]. destruct (rp_uuid r =? u); [reflexivity|exact IH]. Qed.
Lemma find_cons_l_find l u : find_cons_l l u = find (fun k => c_uuid k =? u) l.
Proof. induction l as [|r l IH]; cbn [find_cons_l find]; [reflexivity|]. destruct (c_uuid r =? u); [reflexivity|exact IH]. Qed.

Lemma s_prov_abs d u : s_prov (abs d) u = option_map (abs_prov d) (find_rp d u).
Proof.
  unfold s_prov, abs, find_rp. cbn [as_provs]. rewrite find_map, find_rp_l_find. reflexivity.
Qed.
Lemma s_cons_abs d c : s_cons (abs d) c = option_map (abs_cons d) (find_cons d c).
Proof.
  unfold s_cons, abs, find_cons. cbn [as_conss]. rewrite find_map, find_cons_l_find. reflexivity.
Qed.

Lemma find_rp_uuid d u r : find_rp d u = Some r -> rp_uuid r = u.
Proof. intro H. exact (proj2 (C09.find_rp_l_some _ _ _ H)). Qed.
Lemma find_cons_uuid d c k : find_cons d c = Some k -> c_uuid k = c.
Proof. intro H. exact (proj1 (C12.find_cons_l_some _ _ _ H)). Qed.

(* ================================================================ roots and parents under Forest *)
Lemma chain_top_exists l u t : chain l u t -> exists r, find_rp_l l t = Some r.
Proof. induction 1 as [u r Hf _|u r p top _ _ _ IH]; [exists r; exact Hf|exact IH]. Qed.

Lemma chain_parent_exists l u t r p :
  chain l u t -> find_rp_l l u = Some r -> rp_parent r = Some p -> exists q, find_rp_l l p = Some q.
Proof.
  intros Hc Hf Hp. inversion Hc as [u' r' Hf' Hp'|u' r' p' top Hf' Hp' Hc']; subst;
    rewrite Hf in Hf'; injection Hf' as <-; rewrite Hp in Hp'; [discriminate|].
  injection Hp' as <-. inversion Hc' as [? q Hq _|? q ? ? Hq _ _]; subst; exists q; exact Hq.
Qed.

Lemma top_of_chainn d : forall n u t, C09.chainn (rps d) n u t ->
  forall fuel, (n <= fuel)%nat -> top_of (abs d) fuel u = t.
Proof.
  induction 1 as [u r Hf Hp|n u r p top Hf Hp Hc IH]; intros fuel Hle.
  - destruct fuel as [|f]; cbn [top_of]; [reflexivity|].
    rewrite s_prov_abs. unfold find_rp. rewrite Hf. cbn [option_map abs_prov p_parent]. rewrite Hp. reflexivity.
  - destruct fuel as [|f]; [lia|]. cbn [top_of].
    rewrite s_prov_abs. unfold find_rp. rewrite Hf. cbn [option_map abs_prov p_parent]. rewrite Hp.
    apply IH. lia.
Qed.

Lemma forest_chain d u r : Forest d -> find_rp d u = Some r -> chain (rps d) u (rp_root r).
Proof. intros HF Hf. exact (C09.forest_row_chain _ _ _ HF Hf). Qed.

Lemma s_root_abs d u r : Forest d -> find_rp d u = Some r -> s_root (abs d) u = rp_root r.
Proof.
  intros HF Hf. pose proof (forest_chain _ _ _ HF Hf) as Hc.
  destruct (C09.chain_chainn _ _ _ Hc) as [n Hn]. unfold s_root.
  apply (top_of_chainn d n u _ Hn). pose proof (C09.chainn_bound _ _ _ _ Hn) as Hb.
  unfold abs. cbn [as_provs]. rewrite map_length. lia.
Qed.

Lemma get_rp_forest d u : Forest d -> get_rp d u = find_rp d u.
Proof.
  intro HF. unfold get_rp. destruct (find_rp d u) as [r|] eqn:Hf; [|reflexivity].
  destruct (chain_top_exists _ _ _ (forest_chain _ _ _ HF Hf)) as [q Hq].
  unfold find_rp. rewrite Hq. reflexivity.
Qed.

Lemma parent_uuid_forest d u r : Forest d -> find_rp d u = Some r -> parent_uuid d r = rp_parent r.
Proof.
  intros HF Hf. unfold parent_uuid. destruct (rp_parent r) as [p|] eqn:Hp; [|reflexivity].
  destruct (chain_parent_exists _ _ _ _ _ (forest_chain _ _ _ HF Hf) Hf Hp) as [q Hq].
  unfold find_rp. rewrite Hq. reflexivity.
Qed.

(* ================================================================ allocations grouped by consumer *)
Definition CN (d : db) : Prop := NoDup (map c_uuid (consumers d)).

Section Join.
Context {B : Type}.

Lemma pick_consumer (f : consumer -> list B) c : forall cl, NoDup (map c_uuid cl) ->
  flat_map (fun k => if c =? c_uuid k then f k else []) cl =
  match find_cons_l cl c with Some k => f k | None => [] end.
Proof.
  induction cl as [|k cl IH]; intro ND; cbn [flat_map find_cons_l map]; [reflexivity|].
  cbn [map] in ND. inversion ND as [|? ? Hn ND']; subst. rewrite (Z.eqb_sym (c_uuid k) c).
  destruct (c =? c_uuid k) eqn:E.
  - apply Z.eqb_eq in E. subst c.
    rewrite (flat_map_ext_in _ (fun _ => [])), flat_map_nil, app_nil_r; [reflexivity|].
    intros k' Hk'. destruct (c_uuid k =? c_uuid k') eqn:E'; [|reflexivity].
    apply Z.eqb_eq in E'. exfalso. apply Hn. rewrite E'. apply in_map. exact Hk'.
  - cbn [app]. apply IH. exact ND'.
Qed.

Lemma join_perm (g : consumer -> alloc -> list B) cl : NoDup (map c_uuid cl) -> forall al,
  Permutation (flat_map (fun a => match find_cons_l cl (a_cons a) with Some k => g k a | None => [] end) al)
              (flat_map (fun k => flat_map (g k) (filter (fun a => a_cons a =? c_uuid k) al)) cl).
Proof.
  intros ND. induction al as [|a al IH]; cbn [flat_map].
  - cbn [filter flat_map]. rewrite flat_map_nil. reflexivity.
  - assert (H : forall k, flat_map (g k) (filter (fun a0 => a_cons a0 =? c_uuid k) (a :: al)) =
                          (if a_cons a =? c_uuid k then g k a else []) ++
                          flat_map (g k) (filter (fun a0 => a_cons a0 =? c_uuid k) al)).
    { intro k. cbn [filter]. destruct (a_cons a =? c_uuid k); reflexivity. }
    rewrite (flat_map_ext _ _ H).
    etransitivity; [|symmetry; apply flat_map_app_perm].
    rewrite (pick_consumer (fun k => g k a) (a_cons a) cl ND).
    apply Permutation_app_head. exact IH.
Qed.
End Join.

(* ================================================================ usage = sum over consumers *)
Definition triple (a : alloc) : Z * Z * Z := (a_rp a, a_rc a, a_used a).
Definition acl (al : list alloc) (k : consumer) : acons :=
  mkAcons (c_uuid k) (c_proj k) (c_user k) (c_type k) (c_gen k)
    (map triple (filter (fun a => a_cons a =? c_uuid k) al)).
Lemma abs_cons_acl d k : abs_cons d k = acl (allocs d) k.
Proof. reflexivity. Qed.

Definition contrib (a : alloc) (u rc : Z) : Z := if (a_rp a =? u) && (a_rc a =? rc) then a_used a else 0.
Fixpoint pick_sum (cl : list consumer) (c x : Z) : Z :=
  match cl with [] => 0 | k :: cl' => (if c =? c_uuid k then x else 0) + pick_sum cl' c x end.

Lemma pick_sum_none cl c x : ~ In c (map c_uuid cl) -> pick_sum cl c x = 0.
Proof.
  induction cl as [|k cl IH]; cbn [pick_sum map]; intro H; [reflexivity|].
  destruct (c =? c_uuid k) eqn:E.
  - apply Z.eqb_eq in E. exfalso. apply H. left. symmetry. exact E.
  - rewrite IH; [reflexivity|]. intro H'. apply H. right. exact H'.
Qed.

Lemma pick_sum_one cl c x : NoDup (map c_uuid cl) -> In c (map c_uuid cl) -> pick_sum cl c x = x.
Proof.
  induction cl as [|k cl IH]; cbn [pick_sum map]; intros ND H; [destruct H|].
  inversion ND as [|? ? Hn ND']; subst. destruct (c =? c_uuid k) eqn:E.
  - apply Z.eqb_eq in E. subst c. rewrite pick_sum_none by exact Hn. lia.
  - destruct H as [H|H]; [apply Z.eqb_neq in E; congruence|]. rewrite IH by assumption. lia.
Qed.

Lemma s_usage_l_nil cl u rc : s_usage_l (map (acl []) cl) u rc = 0.
Proof. induction cl as [|k cl IH]; cbn [map s_usage_l]; [reflexivity|]. rewrite IH. reflexivity. Qed.

Lemma s_usage_l_step a al cl u rc :
  s_usage_l (map (acl (a :: al)) cl) u rc =
  pick_sum cl (a_cons a) (contrib a u rc) + s_usage_l (map (acl al) cl) u rc.
Proof.
  induction cl as [|k cl IH]; cbn [map s_usage_l pick_sum]; [reflexivity|]. rewrite IH.
  unfold held, acl at 1 3. cbn [k_allocs filter]. destruct (a_cons a =? c_uuid k).
  - cbn [map held_l triple]. unfold contrib. lia.
  - lia.
Qed.

Lemma usage_l_sum cl u rc : NoDup (map c_uuid cl) -> forall al,
  (forall a, In a al -> In (a_cons a) (map c_uuid cl)) ->
  usage_l al u rc = s_usage_l (map (acl al) cl) u rc.
Proof.
  intros ND. induction al as [|a al IH]; intro H.
  - rewrite s_usage_l_nil. reflexivity.
  - rewrite s_usage_l_step, pick_sum_one; [|exact ND|apply H; left; reflexivity].
    rewrite <- IH by (intros; apply H; right; assumption).
    cbn [usage_l]. unfold contrib. destruct ((a_rp a =? u) && (a_rc a =? rc)); lia.
Qed.

Lemma RI_alloc_cons d a : RI d -> In a (allocs d) -> In (a_cons a) (map c_uuid (consumers d)).
Proof.
  intros [HA _] Hin. destruct (HA a Hin) as [_ [_ Hk]]. apply C08.find_cons_l_In. exact Hk.
Qed.
Lemma RI_alloc_rp d a : RI d -> In a (allocs d) -> exists r, find_rp d (a_rp a) = Some r.
Proof. intros [HA _] Hin. exact (proj1 (HA a Hin)). Qed.

Lemma usage_abs d u rc : RI d -> CN d -> usage d u rc = s_usage (abs d) u rc.
Proof.
  intros HR HN. unfold usage, s_usage, abs. cbn [as_conss].
  rewrite (map_ext (abs_cons d) (acl (allocs d)) (abs_cons_acl d)).
  apply usage_l_sum; [exact HN|]. intros a Ha. exact (RI_alloc_cons _ _ HR Ha).
Qed.

(* ================================================================ GROUP BY is order-independent *)
Lemma j_sum_perm J J' k rc : Permutation J J' -> j_sum J k rc = j_sum J' k rc.
Proof.
  induction 1 as [|x l l' _ IH|x y l|l1 l2 l3 _ IH1 _ IH2]; unfold j_sum in *; cbn [fold_right].
  - reflexivity.
  - rewrite IH. reflexivity.
  - destruct ((j_key y =? k) && (j_rc y =? rc)), ((j_key x =? k) && (j_rc x =? rc)); lia.
  - congruence.
Qed.

Lemma filter_perm {A} (p : A -> bool) l l' : Permutation l l' -> Permutation (filter p l) (filter p l').
Proof.
  induction 1 as [|x l l' _ IH|x y l|l1 l2 l3 _ IH1 _ IH2]; cbn [filter].
  - reflexivity.
  - destruct (p x); [apply perm_skip|]; exact IH.
  - destruct (p x), (p y); try reflexivity. apply perm_swap.
  - etransitivity; eassumption.
Qed.

Lemma NoDup_dedup l : NoDup (dedup l).
Proof.
  induction l as [|x l IH]; cbn; [constructor|].
  fold (dedup l). destruct (memZ x (dedup l)) eqn:E; [exact IH|].
  constructor; [apply C08.memZ_nIn; exact E|exact IH].
Qed.

Lemma dedup_length_perm l l' : Permutation l l' -> length (dedup l) = length (dedup l').
Proof.
  intro H. apply Permutation_length. apply NoDup_Permutation; try apply NoDup_dedup.
  intro x. rewrite !C12.dedup_In. split; apply Permutation_in; [exact H|symmetry; exact H].
Qed.

Lemma j_count_perm J J' k : Permutation J J' -> j_count J k = j_count J' k.
Proof.
  intro H. unfold j_count. f_equal. apply dedup_length_perm. apply Permutation_map. apply filter_perm. exact H.
Qed.

Lemma group_rows_perm b J J' : Permutation J J' -> group_rows b J = group_rows b J'.
Proof.
  intro H. unfold group_rows. f_equal. apply sort_rows_perm. apply Permutation_app.
  - rewrite (map_ext (fun j => [j_key j; j_rc j; j_sum J (j_key j) (j_rc j)])
                     (fun j => [j_key j; j_rc j; j_sum J' (j_key j) (j_rc j)]))
      by (intro j; rewrite (j_sum_perm _ _ _ _ H); reflexivity).
    apply Permutation_map. exact H.
  - destruct b; [|reflexivity].
    rewrite (map_ext (fun j => [j_key j; RC_COUNT; j_count J (j_key j)])
                     (fun j => [j_key j; RC_COUNT; j_count J' (j_key j)]))
      by (intro j; rewrite (j_count_perm _ _ _ H); reflexivity).
    apply Permutation_map. exact H.
Qed.

(* ================================================================ the reads refine the specification *)
Lemma refine_rp d v u : Forest d -> v_rp d v u = sp_rp (abs d) v u.
Proof.
  intro HF. unfold v_rp, sp_rp. rewrite (get_rp_forest _ _ HF), s_prov_abs.
  destruct (find_rp d u) as [r|] eqn:Hf; cbn [option_map]; [|reflexivity].
  cbn [abs_prov p_name p_gen p_parent].
  rewrite (parent_uuid_forest _ _ _ HF Hf), (s_root_abs _ _ _ HF Hf). reflexivity.
Qed.

Lemma refine_invs d u : Forest d -> v_invs d u = sp_invs (abs d) u.
Proof.
  intro HF. unfold v_invs, sp_invs. rewrite (get_rp_forest _ _ HF), s_prov_abs.
  destruct (find_rp d u) as [r|] eqn:Hf; cbn [option_map]; [|reflexivity].
  cbn [abs_prov p_gen p_invs]. rewrite (find_rp_uuid _ _ _ Hf), map_map. reflexivity.
Qed.

Lemma refine_inv d u rc : Forest d -> v_inv d u rc = sp_inv (abs d) u rc.
Proof.
  intro HF. unfold v_inv, sp_inv. rewrite (get_rp_forest _ _ HF), s_prov_abs.
  destruct (find_rp d u) as [r|] eqn:Hf; cbn [option_map]; [|reflexivity].
  cbn [abs_prov p_gen p_invs]. rewrite (find_rp_uuid _ _ _ Hf), find_map. cbn [fst].
  unfold invs_of_rp. destruct (find _ _) as [i|]; reflexivity.
Qed.

Lemma refine_rp_usages d u : RI d -> Forest d -> CN d -> v_rp_usages d u = sp_rp_usages (abs d) u.
Proof.
  intros HR HF HN. unfold v_rp_usages, sp_rp_usages. rewrite (get_rp_forest _ _ HF), s_prov_abs.
  destruct (find_rp d u) as [r|] eqn:Hf; cbn [option_map]; [|reflexivity].
  cbn [abs_prov p_gen p_invs]. rewrite (find_rp_uuid _ _ _ Hf), map_map. cbn [fst].
  unfold invs_of_rp. f_equal. f_equal. apply map_ext. intro i. rewrite (usage_abs _ _ _ HR HN). reflexivity.
Qed.

Lemma refine_rp_allocs d v u : Forest d -> CN d -> v_rp_allocs d v u = sp_rp_allocs (abs d) v u.
Proof.
  intros HF HN. unfold v_rp_allocs, sp_rp_allocs. rewrite (get_rp_forest _ _ HF), s_prov_abs.
  destruct (find_rp d u) as [r|] eqn:Hf; cbn [option_map]; [|reflexivity].
  cbn [abs_prov p_gen]. f_equal. apply sort_rows_perm.
  set (g := fun (k : consumer) (a : alloc) =>
              if a_rp a =? u then [[a_cons a; a_rc a; a_used a] ++ (if 28 <=? v then [c_gen k] else [])] else []).
  unfold rp_alloc_rows, abs. cbn [as_conss]. rewrite flat_map_map.
  etransitivity; [|etransitivity; [apply (join_perm g (consumers d) HN (allocs d))|]].
  - apply Permutation_refl'. apply flat_map_ext. intro a. unfold g, find_cons.
    destruct (a_rp a =? u); [reflexivity|]. destruct (find_cons_l _ _); reflexivity.
  - apply Permutation_refl'. apply flat_map_ext. intro k.
    cbn [abs_cons k_allocs k_uuid k_gen]. rewrite flat_map_map. apply flat_map_ext_in.
    intros a Ha. apply filter_In in Ha. destruct Ha as [_ Ha]. apply Z.eqb_eq in Ha.
    unfold g. rewrite Ha. reflexivity.
Qed.

Lemma refine_rp_traits d v u : Forest d -> v_rp_traits d v u = sp_rp_traits (abs d) v u.
Proof.
  intro HF. unfold v_rp_traits, sp_rp_traits. destruct (v <? 6); [reflexivity|].
  rewrite (get_rp_forest _ _ HF), s_prov_abs.
  destruct (find_rp d u) as [r|] eqn:Hf; cbn [option_map]; [|reflexivity].
  cbn [abs_prov p_gen p_traits]. rewrite (find_rp_uuid _ _ _ Hf). reflexivity.
Qed.

Lemma aggs_of_known d u : RI d -> filter (fun a => memZ a (aggs d)) (aggs_of d u) = aggs_of d u.
Proof.
  intros [_ [_ [_ HG]]]. apply C12.filter_all. intros a Ha. unfold aggs_of in Ha.
  apply in_map_iff in Ha. destruct Ha as [x [<- Hx]]. apply filter_In in Hx.
  apply C08.memZ_In. exact (proj2 (HG x (proj1 Hx))).
Qed.

Lemma refine_rp_aggs d v u : RI d -> Forest d -> v_rp_aggs d v u = sp_rp_aggs (abs d) v u.
Proof.
  intros HR HF. unfold v_rp_aggs, sp_rp_aggs. destruct (v <? 1); [reflexivity|].
  rewrite (get_rp_forest _ _ HF), s_prov_abs.
  destruct (find_rp d u) as [r|] eqn:Hf; cbn [option_map]; [|reflexivity].
  cbn [abs_prov p_gen p_aggs]. rewrite (find_rp_uuid _ _ _ Hf), (aggs_of_known _ _ HR). reflexivity.
Qed.

Lemma cons_rows_none d c : find_cons d c = None -> cons_alloc_rows d c = [].
Proof.
  intro Hk. unfold cons_alloc_rows. rewrite (flat_map_ext _ (fun _ => [])); [apply flat_map_nil|].
  intro a. destruct (a_cons a =? c); [|reflexivity]. rewrite Hk. destruct (find_rp d (a_rp a)); reflexivity.
Qed.

Lemma s_gen_abs d u r : find_rp d u = Some r -> s_gen (abs d) u = rp_gen r.
Proof. intro H. unfold s_gen. rewrite s_prov_abs, H. reflexivity. Qed.

Lemma cons_rows_some d c k : find_cons d c = Some k -> forall al,
  (forall a, In a al -> exists r, find_rp d (a_rp a) = Some r) ->
  flat_map (fun a => if a_cons a =? c then
                       match find_rp d (a_rp a), find_cons d c with
                       | Some r, Some _ => [[a_rp a; rp_gen r; a_rc a; a_used a]]
                       | _, _ => []
                       end
                     else []) al =
  map (fun x => let '(u, rc, amt) := x in [u; s_gen (abs d) u; rc; amt])
      (map triple (filter (fun a => a_cons a =? c) al)).
Proof.
  intros Hk. induction al as [|a al IH]; intro H; cbn [flat_map filter map]; [reflexivity|].
  rewrite IH by (intros; apply H; right; assumption).
  destruct (a_cons a =? c); [|reflexivity].
  destruct (H a (or_introl eq_refl)) as [r Hr]. rewrite Hr, Hk. cbn [map triple app].
  rewrite (s_gen_abs _ _ _ Hr). reflexivity.
Qed.

Lemma refine_cons_allocs d v c : RI d -> v_cons_allocs d v c = sp_cons_allocs (abs d) v c.
Proof.
  intro HR. unfold v_cons_allocs, sp_cons_allocs. rewrite s_cons_abs.
  destruct (find_cons d c) as [k|] eqn:Hk; cbn [option_map].
  - pose proof (find_cons_uuid _ _ _ Hk) as Hu.
    unfold cons_alloc_rows. rewrite (cons_rows_some d c k Hk (allocs d)) by (intros a Ha; exact (RI_alloc_rp _ _ HR Ha)).
    cbn [abs_cons k_allocs k_proj k_user k_gen k_type]. rewrite Hu.
    destruct (filter (fun a => a_cons a =? c) (allocs d)) as [|a l]; reflexivity.
  - rewrite (cons_rows_none _ _ Hk). reflexivity.
Qed.

Lemma usage_join_perm d p user keep key : CN d ->
  Permutation (usage_join d p user keep key) (s_join (abs d) p user keep key).
Proof.
  intro HN.
  set (cond := fun k : consumer => (c_proj k =? p) && (match user with Some w => c_user k =? w | None => true end)
                                   && keep (c_type k)).
  set (g := fun (k : consumer) (a : alloc) =>
              if cond k then [mkJ (key (c_type k)) (a_cons a) (a_rc a) (a_used a)] else []).
  unfold usage_join, s_join, abs. cbn [as_conss]. rewrite flat_map_map.
  etransitivity; [apply (join_perm g (consumers d) HN (allocs d))|].
  apply Permutation_refl'. apply flat_map_ext. intro k.
  cbn [abs_cons k_allocs k_uuid k_proj k_user k_type]. unfold g. fold (cond k).
  destruct (cond k).
  - rewrite map_map, <- flat_map_single. apply flat_map_ext_in.
    intros a Ha. apply filter_In in Ha. destruct Ha as [_ Ha]. apply Z.eqb_eq in Ha.
    cbn [triple]. rewrite Ha. reflexivity.
  - apply flat_map_nil.
Qed.

Lemma refine_usages d v p user ct : CN d -> v_usages d v p user ct = sp_usages (abs d) v p user ct.
Proof.
  intro HN. unfold v_usages, sp_usages.
  destruct (v <? 9); [reflexivity|]. destruct (v <? 38).
  - destruct ct; [reflexivity|]. f_equal. f_equal. apply group_rows_perm. apply usage_join_perm. exact HN.
  - destruct ct as [t|].
    + destruct (t =? CT_ALL); [|destruct (t =? CT_UNKNOWN)];
        f_equal; apply group_rows_perm; apply usage_join_perm; exact HN.
    + f_equal. apply group_rows_perm. apply usage_join_perm. exact HN.
Qed.

(* main refinement theorem; the class and trait reads are in Proofs/C11n.v.  Only
   GET /traits?associated=true needs more than RI: trait names must be unique (traits_unique, an
   invariant: C11n.c11_traits_unique) *)
Lemma c11_reads_refine :
  forall d, RI d -> Forest d -> NoDup (map c_uuid (consumers d)) ->
  forall q v, (needs_unique_traits q = true -> traits_unique d) -> view q v d = spec_view q v (abs d).
Proof.
  intros d HR HF HN [u|u|u rc|u|u|u|u|c|p user ct|names assoc|t| |n] v HU; cbn [view spec_view].
  - apply refine_rp; assumption.
  - apply refine_invs; assumption.
  - apply refine_inv; assumption.
  - apply refine_rp_usages; assumption.
  - apply refine_rp_allocs; assumption.
  - apply refine_rp_traits; assumption.
  - apply refine_rp_aggs; assumption.
  - apply refine_cons_allocs; assumption.
  - apply refine_usages; assumption.
  - apply C11n.refine_traits; [exact HR|]. intros ->. apply HU. reflexivity.
  - apply C11n.refine_trait.
  - apply C11n.refine_classes.
  - apply C11n.refine_class.
Qed.

(* ================================================================ consumer uuids stay unique *)
Lemma CN_consumers d d' : consumers d' = consumers d -> CN d -> CN d'.
Proof. unfold CN. intros ->. auto. Qed.
Lemma CN_keys d d' : map c_uuid (consumers d') = map c_uuid (consumers d) -> CN d -> CN d'.
Proof. unfold CN. intros ->. auto. Qed.
Lemma CN_filter d p : CN d -> CN (set_consumers d (filter p (consumers d))).
Proof. unfold CN. cbn [consumers set_consumers]. apply C09.NoDup_map_filter. Qed.

Lemma ensure_CN cf v d c : CN d -> CN (fst (ensure_consumer cf v d c)).
Proof.
  intro HN. unfold ensure_consumer.
  set (d0 := set_users _ _).
  assert (C0 : consumers d0 = consumers d) by reflexivity.
  assert (F0 : find_cons d0 (ci_uuid c) = find_cons d (ci_uuid c)) by reflexivity.
  rewrite F0. destruct (find_cons d (ci_uuid c)) as [k0|] eqn:F.
  - destruct (_ && _); cbn [fst]; [exact (CN_consumers _ _ C0 HN)|].
    destruct (38 <=? v); cbn [fst]; apply (CN_consumers d); [reflexivity|exact HN|reflexivity|exact HN].
  - destruct (_ && _); cbn [fst]; [exact (CN_consumers _ _ C0 HN)|].
    apply C12.find_cons_l_none in F.
    destruct (38 <=? v); cbn [fst]; unfold CN; cbn [consumers set_consumers set_ctypes]; rewrite map_app;
      cbn [map c_uuid]; apply C09.NoDup_snoc; assumption.
Qed.

Lemma delete_created_CN d ks : CN d -> CN (delete_created d ks).
Proof. intro H. unfold delete_created. apply CN_filter. exact H. Qed.

Lemma inspect_CN cf v : forall l d acc, CN d -> CN (fst (inspect_consumers cf v d acc l)).
Proof.
  induction l as [|c l IH]; intros d acc HN; cbn [inspect_consumers fst]; [exact HN|].
  pose proof (ensure_CN cf v d c HN) as H1.
  destruct (ensure_consumer cf v d c) as [d1 [k|]]; cbn [fst] in *.
  - apply IH. exact H1.
  - apply delete_created_CN. exact H1.
Qed.

Lemma update_consumer_keys d k : map c_uuid (consumers (update_consumer d k)) = map c_uuid (consumers d).
Proof.
  unfold update_consumer. destruct (_ || _); [|reflexivity].
  unfold consumer_update. cbn [consumers set_consumers]. rewrite map_map. apply map_ext_in.
  intros x _. destruct ((c_uuid x =? co_uuid k) && (c_gen x =? co_gen k)) eqn:E; [|reflexivity].
  apply andb_true_iff in E. destruct E as [E _]. apply Z.eqb_eq in E. cbn [c_uuid]. symmetry. exact E.
Qed.

Lemma fold_update_keys ks : forall d,
  map c_uuid (consumers (fold_left update_consumer ks d)) = map c_uuid (consumers d).
Proof.
  induction ks as [|k ks IH]; intro d; cbn [fold_left]; [reflexivity|].
  rewrite IH. apply update_consumer_keys.
Qed.

Lemma sa_spec_CN d0 objs d2 : C12.sa_spec d0 objs d2 -> CN d0 -> CN d2.
Proof.
  intros [_ [cl [Hc Hd]]] HN. unfold CN in *. rewrite Hd. apply C09.NoDup_map_filter.
  rewrite (C12.cinfo_uuid _ _ Hc). exact HN.
Qed.

Lemma post_core_CN cf d v l txn ef :
  (forall d0 objs d2, txn d0 objs = Ok d2 -> C12.sa_spec d0 objs d2) ->
  CN d -> CN (fst (C12.post_core cf d v l txn ef)).
Proof.
  intros Htxn HN. unfold C12.post_core.
  pose proof (inspect_CN cf v l d [] HN) as H1.
  destruct (inspect_consumers cf v d [] l) as [d1 [ks|]]; cbn [fst] in *; [|exact H1].
  destruct (alloc_list d1 ks l) as [objs|]; cbn [fst]; [|apply delete_created_CN; exact H1].
  destruct (txn (fold_left update_consumer ks d1) objs) as [d2|e] eqn:Et; cbn [fst].
  - apply delete_created_CN. apply (sa_spec_CN _ _ _ (Htxn _ _ _ Et)).
    exact (CN_keys _ _ (fold_update_keys ks d1) H1).
  - apply delete_created_CN. exact H1.
Qed.

Lemma step_CN cf d r : CN d -> CN (fst (step cf d r)).
Proof.
  intro HN.
  assert (simple : match r with AllocPut _ _ | AllocPost _ _ | AllocDelete _ | Reshape _ _ _ => False | _ => True end ->
                   CN (fst (step cf d r))).
  { intro T. destruct (step cf d r) as [d' rs] eqn:E. cbn [fst].
    pose proof (C12.simple_step_ac cf d r d' rs T E) as Hac. unfold C12.ac in Hac.
    injection Hac as _ Hc. exact (CN_consumers _ _ Hc HN). }
  destruct r; try (apply simple; exact I); cbn [step].
  - rewrite C12.h_alloc_put_core. apply post_core_CN; [apply C12.set_allocations_spec|exact HN].
  - rewrite C12.h_alloc_post_core. destruct (v <? 13); [exact HN|].
    apply post_core_CN; [apply C12.set_allocations_spec|exact HN].
  - unfold h_alloc_delete. destruct (wipe_list d c); cbn [fst]; [exact HN|].
    unfold delete_consumers_if_no_allocations. cbn [consumers set_allocs].
    apply (CN_filter (set_allocs d _)). exact HN.
  - rewrite C12.h_reshape_core. destruct (v <? 30); [exact HN|].
    destruct (reshape_precheck d ri); [exact HN|].
    apply post_core_CN; [intros d0 objs d2; apply C12.reshape_txn_spec|exact HN].
Qed.

Lemma run_CN cf : forall l d, CN d -> CN (run cf d l).
Proof. induction l as [|r l IH]; intros d H; cbn [run]; [exact H|]. apply IH. apply step_CN. exact H. Qed.

Lemma c11_consumers_unique : forall cf l, NoDup (map c_uuid (consumers (run cf db0 l))).
Proof. intros cf l. apply (run_CN cf l db0). constructor. Qed.

(* the refinement on every reachable state *)
Lemma c11_reads_refine_reachable :
  forall cf l q v, reqs_wf l -> view q v (run cf db0 l) = spec_view q v (abs (run cf db0 l)).
Proof.
  intros cf l q v Hwf. apply c11_reads_refine.
  - apply (C08.run_RI cf l db0); [|exact Hwf].
    unfold RI. cbn. split; [|split; [|split]]; intros x Hx; destruct Hx.
  - apply C09.c09_invariant.
  - apply c11_consumers_unique.
  - intros _. apply C11n.c11_traits_unique.
Qed.

(* ================================================================ usage is the sum of the allocations *)
Lemma usage_l_fold al u rc :
  usage_l al u rc = sumZ (map a_used (filter (fun a => (a_rp a =? u) && (a_rc a =? rc)) al)).
Proof.
  induction al as [|a al IH]; cbn [usage_l filter]; [reflexivity|].
  destruct ((a_rp a =? u) && (a_rc a =? rc)); cbn [map sumZ fold_right]; rewrite IH; reflexivity.
Qed.

Lemma c11_usage_is_sum :
  forall d v u, rv_status (view (QRpUsages u) v d) = 200 ->
  forall rc x,
    In [rc; x] (rv_rows (view (QRpUsages u) v d)) <->
    ((exists i, In i (invs d) /\ i_rp i = u /\ i_rc i = rc) /\
     x = sumZ (map a_used (filter (fun a => (a_rp a =? u) && (a_rc a =? rc)) (allocs d)))).
Proof.
  intros d v u Hs rc x. cbn [view] in *. unfold v_rp_usages in *.
  destruct (get_rp d u) as [r|]; [|cbn in Hs; discriminate]. cbn [rv_rows].
  rewrite sort_rows_In, in_map_iff, <- usage_l_fold. fold (usage d u rc). unfold invs_of_rp. split.
  - intros [i [E Hi]]. apply filter_In in Hi. destruct Hi as [Hi Hu]. apply Z.eqb_eq in Hu.
    injection E as <- <-. split; [exists i; auto|reflexivity].
  - intros [[i [Hi [Hu <-]]] ->]. exists i. split; [reflexivity|].
    apply filter_In. split; [exact Hi|apply Z.eqb_eq; exact Hu].
Qed.

Lemma rows_amount_perm u rc l l' : Permutation l l' -> rows_amount u rc l = rows_amount u rc l'.
Proof.
  induction 1 as [|x l l' _ IH|x y l|l1 l2 l3 _ IH1 _ IH2]; cbn [rows_amount]; try lia.
Qed.

Lemma rows_amount_held s u rc l :
  rows_amount u rc (map (fun x => let '(u', rc', amt) := x in [u'; s_gen s u'; rc'; amt]) l) = held_l l u rc.
Proof.
  induction l as [|[[u' rc'] amt] l IH]; cbn [map rows_amount held_l]; [reflexivity|]. rewrite IH. reflexivity.
Qed.

Lemma find_cons_l_nodup l k : NoDup (map c_uuid l) -> In k l -> find_cons_l l (c_uuid k) = Some k.
Proof.
  induction l as [|a l IH]; cbn [map find_cons_l]; intros ND Hin; [destruct Hin|].
  inversion ND as [|? ? Hn ND']; subst. destruct Hin as [->|Hin]; [rewrite Z.eqb_refl; reflexivity|].
  destruct (c_uuid a =? c_uuid k) eqn:E; [|exact (IH ND' Hin)].
  apply Z.eqb_eq in E. exfalso. apply Hn. rewrite E. apply in_map. exact Hin.
Qed.

Lemma cons_view_amount d v k u rc : RI d -> CN d -> In k (consumers d) ->
  rows_amount u rc (rv_rows (view (QConsAllocs (c_uuid k)) v d)) = held (abs_cons d k) u rc.
Proof.
  intros HR HN Hk. cbn [view]. rewrite (refine_cons_allocs _ _ _ HR). unfold sp_cons_allocs.
  rewrite s_cons_abs. unfold find_cons. rewrite (find_cons_l_nodup _ _ HN Hk). cbn [option_map rv_rows].
  rewrite (rows_amount_perm _ _ _ _ (sort_rows_is_perm _)). apply rows_amount_held.
Qed.

Lemma s_usage_l_map d u rc : forall cl,
  s_usage_l (map (abs_cons d) cl) u rc = sumZ (map (fun k => held (abs_cons d k) u rc) cl).
Proof. induction cl as [|k cl IH]; cbn [map s_usage_l sumZ fold_right]; [reflexivity|]. rewrite IH. reflexivity. Qed.

Lemma c11_usage_is_sum_of_consumers :
  forall d v v' u rc x, RI d -> NoDup (map c_uuid (consumers d)) ->
    In [rc; x] (rv_rows (view (QRpUsages u) v d)) ->
    x = sumZ (map (fun k => rows_amount u rc (rv_rows (view (QConsAllocs (c_uuid k)) v' d))) (consumers d)).
Proof.
  intros d v v' u rc x HR HN Hin. cbn [view] in Hin. unfold v_rp_usages in Hin.
  destruct (get_rp d u) as [r|]; [|destruct Hin]. cbn [rv_rows] in Hin.
  rewrite sort_rows_In in Hin. apply in_map_iff in Hin. destruct Hin as [i [E _]]. injection E as <- <-.
  rewrite (usage_abs _ _ _ HR HN). unfold s_usage, abs. cbn [as_conss]. rewrite s_usage_l_map.
  f_equal. apply map_ext_in. intros k Hk. symmetry. apply cons_view_amount; assumption.
Qed.

(* ================================================================ the two views of allocations agree *)
Lemma c11_views_agree :
  forall d, Forest d -> forall c u rc amt v v',
    (exists g, In [u; g; rc; amt] (rv_rows (view (QConsAllocs c) v d))) <->
    (exists tl, In ([c; rc; amt] ++ tl) (rv_rows (view (QRpAllocs u) v' d))).
Proof.
  intros d HF c u rc amt v v'. cbn [view]. unfold v_cons_allocs, v_rp_allocs. cbn [rv_rows].
  rewrite (get_rp_forest _ _ HF). split.
  - intros [g Hin]. rewrite sort_rows_In in Hin. unfold cons_alloc_rows in Hin.
    apply in_flat_map in Hin. destruct Hin as [a [Ha Hin]].
    destruct (a_cons a =? c) eqn:Ec; [|destruct Hin]. apply Z.eqb_eq in Ec.
    destruct (find_rp d (a_rp a)) as [r|] eqn:Hr; [|destruct Hin].
    destruct (find_cons d c) as [k|] eqn:Hk; [|destruct Hin].
    destruct Hin as [E|[]]. injection E as <- <- <- <-. rewrite Hr. cbn [rv_rows].
    exists (if 28 <=? v' then [c_gen k] else []). rewrite sort_rows_In. unfold rp_alloc_rows.
    apply in_flat_map. exists a. split; [exact Ha|]. rewrite Z.eqb_refl, Ec, Hk. left. reflexivity.
  - intros [tl Hin]. destruct (find_rp d u) as [r|] eqn:Hr; [|destruct Hin]. cbn [rv_rows] in Hin.
    rewrite sort_rows_In in Hin. unfold rp_alloc_rows in Hin.
    apply in_flat_map in Hin. destruct Hin as [a [Ha Hin]].
    destruct (a_rp a =? u) eqn:Eu; [|destruct Hin]. apply Z.eqb_eq in Eu.
    destruct (find_cons d (a_cons a)) as [k|] eqn:Hk; [|destruct Hin].
    destruct Hin as [E|[]]. cbn [app] in E. injection E as <- <- <- _.
    exists (rp_gen r). rewrite sort_rows_In. unfold cons_alloc_rows.
    apply in_flat_map. exists a. split; [exact Ha|]. rewrite Z.eqb_refl, Eu, Hr, Hk. left. reflexivity.
Qed.

(* ================================================================ reads only depend on the core tables *)
Lemma c11_view_core_eq : forall d d' q v, core_eq d d' -> view q v d = view q v d'.
Proof.
  intros [r1 i1 a1 c1 p1 u1 t1 rc1 tr1 ag1 ra1 rt1] [r2 i2 a2 c2 p2 u2 t2 rc2 tr2 ag2 ra2 rt2] q v H.
  unfold core_eq in H. cbn in H. destruct H as (-> & -> & -> & -> & -> & -> & -> & -> & ->).
  destruct q; reflexivity.
Qed.

(* ================================================================ read after write *)
Lemma not_success_err s c : ~ is_success (err s c) \/ s < 300.
Proof. unfold is_success. cbn. lia. Qed.

Lemma sameS_find d d' u r : C09.sameS d d' -> find_rp d u = Some r -> exists r', find_rp d' u = Some r'.
Proof.
  intros HS Hf. destruct (C09.proj_find _ _ HS _ _ Hf) as [r' [Hr' _]]. exists r'. exact Hr'.
Qed.

Lemma in_single_rows (t : Z) (X : list Z) : In [t] (sort_rows (map (fun t => [t]) X)) <-> In t X.
Proof.
  rewrite sort_rows_In, in_map_iff. split.
  - intros [y [E Hy]]. injection E as ->. exact Hy.
  - intro H. exists t. split; [reflexivity|exact H].
Qed.

Lemma c11_raw_inventory :
  forall cf d v u g l d' rs v',
    inv_keys_nodup d -> Forest d -> req_wf (InvSet v u g l) = true ->
    step cf d (InvSet v u g l) = (d', rs) -> is_success rs ->
    exists g', gen_of d' u = Some g' /\
      view (QInvs u) v' d' = mkView 200 [g'] (sort_rows (map (fun x => inv_row (to_inv u x)) l)).
Proof.
  intros cf d v u g l d' rs v' HK HF Hwf H Hs.
  pose proof (fun x => C04.c04_inventory_complete cf d v u g l d' rs x HK Hwf H Hs) as HC.
  pose proof (C04.step_keys cf d _ d' rs Hwf H HK) as HK'.
  pose proof (C09.c09_step cf d _ d' rs HF H) as HF'.
  assert (Hr : exists r', find_rp d' u = Some r').
  { pose proof (C09.h_inv_set_same d v u g l) as HS. cbn [step] in H. rewrite H in HS. cbn [fst] in HS.
    unfold h_inv_set in H. destruct (find_rp d u) as [me|] eqn:Hme.
    - exact (sameS_find _ _ _ _ HS Hme).
    - injection H as _ <-. unfold is_success in Hs. cbn in Hs. lia. }
  destruct Hr as [r' Hr']. exists (rp_gen r'). split; [unfold gen_of; rewrite Hr'; reflexivity|].
  cbn [view]. unfold v_invs. rewrite (get_rp_forest _ _ HF'), Hr'. f_equal.
  apply sort_rows_perm. rewrite <- (map_map (to_inv u) inv_row). apply Permutation_map.
  cbn [req_wf] in Hwf. unfold inv_list_wf in Hwf. apply andb_true_iff in Hwf. destruct Hwf as [_ Hnd].
  apply C04.nodupb_NoDup in Hnd.
  apply NoDup_Permutation.
  - unfold invs_of_rp. apply NoDup_filter. exact (NoDup_map_inv _ _ HK').
  - apply (NoDup_map_inv i_rc). rewrite map_map. cbn [to_inv i_rc]. exact Hnd.
  - intro x. unfold invs_of_rp. rewrite filter_In, (HC x), Z.eqb_eq. split.
    + intros [[Hx|[_ Hne]] Hu]; [exact Hx|congruence].
    + intro Hx. split; [left; exact Hx|]. apply in_map_iff in Hx. destruct Hx as [y [<- _]]. reflexivity.
Qed.

Lemma traits_of_In d u t : In t (traits_of d u) <-> In (u, t) (rp_traits d).
Proof.
  unfold traits_of. rewrite in_map_iff. split.
  - intros [[u' t'] [E Hx]]. apply filter_In in Hx. destruct Hx as [Hx Hu]. cbn [fst snd] in *.
    apply Z.eqb_eq in Hu. subst. exact Hx.
  - intro H. exists (u, t). split; [reflexivity|]. apply filter_In. split; [exact H|apply Z.eqb_refl].
Qed.
Lemma aggs_of_In d u a : In a (aggs_of d u) <-> In (u, a) (rp_aggs d).
Proof.
  unfold aggs_of. rewrite in_map_iff. split.
  - intros [[u' t'] [E Hx]]. apply filter_In in Hx. destruct Hx as [Hx Hu]. cbn [fst snd] in *.
    apply Z.eqb_eq in Hu. subst. exact Hx.
  - intro H. exists (u, a). split; [reflexivity|]. apply filter_In. split; [exact H|apply Z.eqb_refl].
Qed.

Lemma c11_raw_traits :
  forall cf d v u g ts d' rs v',
    Forest d -> step cf d (TraitsSet v u g ts) = (d', rs) -> is_success rs -> 6 <= v' ->
    rv_status (view (QRpTraits u) v' d') = 200 /\
    forall t, In [t] (rv_rows (view (QRpTraits u) v' d')) <-> In t ts.
Proof.
  intros cf d v u g ts d' rs v' HF H Hs Hv.
  pose proof (fun t => C04.c04_traits_complete cf d v u g ts d' rs t H Hs) as HC.
  pose proof (C09.c09_step cf d _ d' rs HF H) as HF'.
  assert (Hr : exists r', find_rp d' u = Some r').
  { pose proof (C09.h_traits_set_same d v u g ts) as HS. cbn [step] in H. rewrite H in HS. cbn [fst] in HS.
    unfold h_traits_set in H. destruct (v <? 6); [injection H as _ <-; unfold is_success in Hs; cbn in Hs; lia|].
    destruct (find_rp d u) as [me|] eqn:Hme.
    - exact (sameS_find _ _ _ _ HS Hme).
    - injection H as _ <-. unfold is_success in Hs. cbn in Hs. lia. }
  destruct Hr as [r' Hr']. cbn [view]. unfold v_rp_traits.
  replace (v' <? 6) with false by (symmetry; apply Z.ltb_ge; lia).
  rewrite (get_rp_forest _ _ HF'), Hr'. cbn [rv_status rv_rows]. split; [reflexivity|].
  intro t. rewrite in_single_rows, traits_of_In. apply HC.
Qed.

Lemma c11_raw_aggregates :
  forall cf d v u g l d' rs v',
    RI d -> Forest d -> step cf d (AggsSet v u g l) = (d', rs) -> is_success rs -> 1 <= v' ->
    rv_status (view (QRpAggs u) v' d') = 200 /\
    forall a, In [a] (rv_rows (view (QRpAggs u) v' d')) <-> In a l.
Proof.
  intros cf d v u g l d' rs v' HR HF H Hs Hv.
  pose proof (fun a => C04.c04_aggregates_complete cf d v u g l d' rs a H Hs) as HC.
  pose proof (C09.c09_step cf d _ d' rs HF H) as HF'.
  pose proof (C08.c08_step cf d (AggsSet v u g l) d' rs HR eq_refl H) as HR'.
  assert (Hr : exists r', find_rp d' u = Some r').
  { pose proof (C09.h_aggs_set_same d v u g l) as HS. cbn [step] in H. rewrite H in HS. cbn [fst] in HS.
    unfold h_aggs_set in H. destruct (v <? 1); [injection H as _ <-; unfold is_success in Hs; cbn in Hs; lia|].
    destruct (find_rp d u) as [me|] eqn:Hme.
    - exact (sameS_find _ _ _ _ HS Hme).
    - injection H as _ <-. unfold is_success in Hs. cbn in Hs. lia. }
  destruct Hr as [r' Hr']. cbn [view]. unfold v_rp_aggs.
  replace (v' <? 1) with false by (symmetry; apply Z.ltb_ge; lia).
  rewrite (get_rp_forest _ _ HF'), Hr', (aggs_of_known _ _ HR'). cbn [rv_status rv_rows]. split; [reflexivity|].
  intro a. rewrite in_single_rows, aggs_of_In. apply HC.
Qed.

(* a row of GET /allocations/{c} is an allocation record of c *)
Lemma cons_view_rows_iff d v c u rc amt : RI d ->
  (exists g, In [u; g; rc; amt] (rv_rows (view (QConsAllocs c) v d))) <-> In (mkAlloc c u rc amt) (allocs d).
Proof.
  intro HR. cbn [view]. unfold v_cons_allocs. cbn [rv_rows]. split.
  - intros [g Hin]. rewrite sort_rows_In in Hin. unfold cons_alloc_rows in Hin.
    apply in_flat_map in Hin. destruct Hin as [a [Ha Hin]].
    destruct (a_cons a =? c) eqn:Ec; [|destruct Hin]. apply Z.eqb_eq in Ec.
    destruct (find_rp d (a_rp a)) as [r|]; [|destruct Hin].
    destruct (find_cons d c) as [k|]; [|destruct Hin].
    destruct Hin as [E|[]]. injection E as <- _ <- <-. subst c. destruct a; exact Ha.
  - intro Ha. destruct (RI_alloc_rp _ _ HR Ha) as [r Hr]. cbn [a_rp] in Hr.
    destruct HR as [HA _]. destruct (HA _ Ha) as [_ [_ [k Hk]]]. cbn [a_cons] in Hk.
    exists (rp_gen r). rewrite sort_rows_In. unfold cons_alloc_rows. apply in_flat_map.
    exists (mkAlloc c u rc amt). split; [exact Ha|]. cbn [a_cons a_rp a_rc a_used].
    rewrite Z.eqb_refl, Hr, Hk. left. reflexivity.
Qed.

Lemma c11_raw_allocations :
  forall cf d v l d' rs c u rc amt v',
    RI d -> req_wf (AllocPost v l) = true -> step cf d (AllocPost v l) = (d', rs) -> is_success rs ->
    In c l ->
    ((exists g, In [u; g; rc; amt] (rv_rows (view (QConsAllocs (ci_uuid c)) v' d'))) <->
     exists a, In a (ci_allocs c) /\ ai_rp a = u /\ In (rc, amt) (ai_res a)).
Proof.
  intros cf d v l d' rs c u rc amt v' HR Hwf H Hs Hc.
  pose proof (C08.c08_step cf d _ d' rs HR Hwf H) as HR'.
  rewrite (cons_view_rows_iff _ _ _ _ _ _ HR').
  exact (C04.c04_allocs_complete cf d v l d' rs c u rc amt HR Hwf H Hs Hc).
Qed.

(* PUT /allocations/{c} is POST /allocations with the single consumer c (below 1.13, where POST does
   not exist yet, with the semantics POST has at 1.13: nothing depends on the version below 1.28) *)
Lemma ensure_consumer_low cf v d c : v < 28 -> ensure_consumer cf v d c = ensure_consumer cf 13 d c.
Proof.
  intro Hv. unfold ensure_consumer.
  replace (28 <=? v) with false by (symmetry; apply Z.leb_gt; lia).
  replace (38 <=? v) with false by (symmetry; apply Z.leb_gt; lia).
  reflexivity.
Qed.

Lemma put_as_post cf d v c : step cf d (AllocPut v c) = step cf d (AllocPost (Z.max v 13) [c]).
Proof.
  cbn [step]. rewrite C12.h_alloc_post_core.
  replace (Z.max v 13 <? 13) with false by (symmetry; apply Z.ltb_ge; lia).
  rewrite <- C12.h_alloc_put_core. destruct (Z.max_spec v 13) as [[Hlt ->]|[Hge ->]]; [|reflexivity].
  unfold h_alloc_put. rewrite (ensure_consumer_low cf v d c) by lia. reflexivity.
Qed.

Lemma c11_raw_allocation_put :
  forall cf d v c d' rs u rc amt v',
    RI d -> req_wf (AllocPut v c) = true -> step cf d (AllocPut v c) = (d', rs) -> is_success rs ->
    ((exists g, In [u; g; rc; amt] (rv_rows (view (QConsAllocs (ci_uuid c)) v' d'))) <->
     exists a, In a (ci_allocs c) /\ ai_rp a = u /\ In (rc, amt) (ai_res a)).
Proof.
  intros cf d v c d' rs u rc amt v' HR Hwf H Hs. rewrite put_as_post in H.
  apply (c11_raw_allocations cf d (Z.max v 13) [c] d' rs c u rc amt v' HR); try assumption.
  - cbn [req_wf] in *. apply C12.cons_list_wf_single. exact Hwf.
  - left. reflexivity.
Qed.

(* the attributes reported with a consumer's allocations are those of the accepted request *)
Lemma c11_raw_consumer_attrs :
  forall cf d r d' rs c v',
    ConsIff d -> RI d -> req_wf r = true -> step cf d r = (d', rs) -> is_success rs ->
    In c (req_consumers r) -> 12 <= v' ->
    rv_rows (view (QConsAllocs (ci_uuid c)) v' d') <> [] ->
    exists tl,
      rv_hdr (view (QConsAllocs (ci_uuid c)) v' d') =
      [match ci_proj c with Some p => p | None => incomplete_proj cf end;
       match ci_proj c with Some _ => oz (ci_user c) | None => incomplete_user cf end] ++ tl /\
      (38 <= req_version r -> 38 <= v' -> exists g, tl = [g; oz (ci_type c)]).
Proof.
  intros cf d r d' rs c v' HC HR Hwf H Hs Hc Hv Hne. cbn [view] in *. unfold v_cons_allocs in *.
  cbn [rv_rows rv_hdr] in *.
  destruct (cons_alloc_rows d' (ci_uuid c)) as [|row rows] eqn:Er; [exfalso; apply Hne; reflexivity|].
  destruct (find_cons d' (ci_uuid c)) as [k|] eqn:Hk; [|rewrite (cons_rows_none _ _ Hk) in Er; discriminate].
  destruct (C12.c12_attrs cf d r d' rs c k HC HR Hwf H Hs Hc Hk) as [Hp [Hu Ht]].
  replace (12 <=? v') with true by (symmetry; apply Z.leb_le; lia).
  rewrite Hp, Hu. eexists. split; [reflexivity|].
  intros H38 Hv38. rewrite (Ht H38).
  replace (28 <=? v') with true by (symmetry; apply Z.leb_le; lia).
  replace (38 <=? v') with true by (symmetry; apply Z.leb_le; lia).
  exists (c_gen k). reflexivity.
Qed.

(* a rejected request changes no read *)
Lemma c11_rejected_reads_unchanged :
  forall cf d r d' rs q v, req_wf r = true -> step cf d r = (d', rs) -> is_error rs ->
    view q v d' = view q v d.
Proof.
  intros cf d r d' rs q v Hwf H He. symmetry. apply c11_view_core_eq.
  exact (C04.c04_rejected_no_trace cf d r d' rs Hwf H He).
Qed.

(* ================================================================ only the successful requests matter *)
(* every handler commutes with replacing the auxiliary name tables (projects / users / consumer
   types), which nothing but the get-or-create of names touches: so requests answer the same and
   leave core_eq states when started from core_eq states *)
Import C07d C07e.

Lemma cas_conss_aux l : forall d p u c, cas_conss (with_aux d p u c) l = rmap (cas_conss d l) p u c.
Proof.
  induction l as [|[x g] l IH]; intros; [reflexivity|].
  cbn [cas_conss]. rewrite incr_cons_gen_aux. destruct (incr_cons_gen d x g); [|reflexivity].
  cbn [rmap bind]. apply IH.
Qed.

Lemma set_allocations_aux d l p u c :
  set_allocations (with_aux d p u c) l = rmap (set_allocations d l) p u c.
Proof.
  unfold set_allocations.
  change (set_allocs (with_aux d p u c) (filter (fun a => negb (memZ (a_cons a) (map q_cons l))) (allocs (with_aux d p u c))))
    with (with_aux (set_allocs d (filter (fun a => negb (memZ (a_cons a) (map q_cons l))) (allocs d))) p u c).
  set (d1 := set_allocs d _).
  rewrite check_capacity_aux.
  destruct (check_capacity d1 l); [|reflexivity]. cbn [bind].
  match goal with |- context [cas_rps (set_allocs (with_aux d1 p u c) ?X) ?L] =>
    change (set_allocs (with_aux d1 p u c) X) with (with_aux (set_allocs d1 X) p u c) end.
  auxn. rewrite cas_rps_aux.
  destruct (cas_rps _ _) as [d3|e]; [|reflexivity].
  cbn [rmap bind]. rewrite cas_conss_aux.
  destruct (cas_conss _ _) as [d4|e]; reflexivity.
Qed.

Lemma reshape_txn_aux d ri objs p u c :
  reshape_txn (with_aux d p u c) ri objs = rmap (reshape_txn d ri objs) p u c.
Proof.
  unfold reshape_txn. rewrite reshape_interim_aux.
  destruct (reshape_interim d ri) as [[d1 gens]|e]; [|reflexivity].
  cbn [rmap2 bind fst snd]. rewrite set_allocations_aux.
  destruct (set_allocations d1 _) as [d2|e]; [|reflexivity].
  cbn [rmap bind]. apply reshape_final_aux.
Qed.

Lemma rp_create_aux d x name parent p u c :
  rp_create (with_aux d p u c) x name parent = rmap (rp_create d x name parent) p u c.
Proof.
  unfold rp_create. rewrite find_rp_aux. auxn.
  match goal with |- bind ?M _ = _ => destruct M as [root|e] end; [|reflexivity].
  cbn [bind]. destruct (existsb _ (rps d)); reflexivity.
Qed.

Lemma rp_update_aux d me name np al p u c :
  rp_update (with_aux d p u c) me name np al = rmap (rp_update d me name np al) p u c.
Proof.
  unfold rp_update, name_taken. rewrite find_rp_aux. auxn.
  match goal with |- bind ?M _ = _ => destruct M as [upd|e] end; [|reflexivity].
  cbn [bind]. destruct (existsb _ (rps d)); reflexivity.
Qed.

Lemma rp_delete_aux d x p u c : rp_delete (with_aux d p u c) x = rmap (rp_delete d x) p u c.
Proof.
  unfold rp_delete. rewrite find_rp_aux. auxn.
  destruct (existsb _ (rps d)); [reflexivity|]. destruct (existsb _ (allocs d)); [reflexivity|].
  destruct (find_rp d x); reflexivity.
Qed.

Lemma rc_create_aux d n p u c : rc_create (with_aux d p u c) n = rmap (rc_create d n) p u c.
Proof. unfold rc_create. change (rc_id_of_name (with_aux d p u c) n) with (rc_id_of_name d n).
  destruct (rc_id_of_name d n); reflexivity. Qed.
Lemma rc_destroy_aux d n p u c : rc_destroy (with_aux d p u c) n = rmap (rc_destroy d n) p u c.
Proof. unfold rc_destroy. change (rc_id_of_name (with_aux d p u c) n) with (rc_id_of_name d n).
  destruct (rc_id_of_name d n) as [id|]; [|reflexivity]. destruct (id <? _); [reflexivity|]. auxn.
  destruct (existsb _ (invs d)); reflexivity. Qed.
Lemma rc_rename_aux d o n p u c : rc_rename (with_aux d p u c) o n = rmap (rc_rename d o n) p u c.
Proof. unfold rc_rename. change (rc_id_of_name (with_aux d p u c) o) with (rc_id_of_name d o).
  destruct (rc_id_of_name d o) as [id|]; [|reflexivity]. destruct (id <? _); [reflexivity|]. auxn.
  destruct (_ || _); reflexivity. Qed.
Lemma trait_create_aux d t p u c : trait_create (with_aux d p u c) t = rmap (trait_create d t) p u c.
Proof. unfold trait_create. rewrite trait_exists_aux. destruct (trait_exists d t); reflexivity. Qed.
Lemma trait_destroy_aux d t p u c : trait_destroy (with_aux d p u c) t = rmap (trait_destroy d t) p u c.
Proof. unfold trait_destroy. rewrite trait_exists_aux. destruct (negb _); [reflexivity|].
  destruct (is_std_trait t); [reflexivity|]. auxn. destruct (existsb _ (rp_traits d)); reflexivity. Qed.

(* the shape of the claim for handlers *)
Definition auxc (f : db -> db * resp) : Prop :=
  forall d p u c, exists p' u' c', f (with_aux d p u c) = (with_aux (fst (f d)) p' u' c', snd (f d)).
Ltac same := intros d p u c; exists p, u, c.

Lemma h_rp_create_auxc v x name parent : auxc (fun d => h_rp_create d v x name parent).
Proof.
  same. unfold h_rp_create. destruct (_ && _); [reflexivity|]. rewrite rp_create_aux.
  destruct (rp_create d x name parent) as [d'|[]]; reflexivity.
Qed.
Lemma h_rp_update_auxc v x name parent : auxc (fun d => h_rp_update d v x name parent).
Proof.
  same. unfold h_rp_update. rewrite find_rp_aux. destruct (find_rp d x) as [me|]; [|reflexivity].
  destruct (_ && _); [reflexivity|]. rewrite rp_update_aux.
  destruct (rp_update d me name _ _) as [d'|[]]; reflexivity.
Qed.
Lemma h_rp_delete_auxc x : auxc (fun d => h_rp_delete d x).
Proof.
  same. unfold h_rp_delete. rewrite find_rp_aux. destruct (find_rp d x) as [me|]; [|reflexivity].
  rewrite rp_delete_aux. destruct (rp_delete d x) as [d'|[]]; reflexivity.
Qed.
Lemma h_inv_set_auxc v x g l : auxc (fun d => h_inv_set d v x g l).
Proof.
  same. unfold h_inv_set. rewrite find_rp_aux. destruct (find_rp d x) as [me|]; [|reflexivity].
  destruct (negb _); [reflexivity|]. destruct (existsb _ l); [reflexivity|]. rewrite set_inventory_aux.
  destruct (set_inventory d x (rp_gen me) l) as [d'|[]]; reflexivity.
Qed.
Lemma h_inv_post_auxc v x i : auxc (fun d => h_inv_post d v x i).
Proof.
  same. unfold h_inv_post. rewrite find_rp_aux. destruct (find_rp d x) as [me|]; [|reflexivity].
  destruct (bad_capacity v i); [reflexivity|]. rewrite add_inventory_aux.
  destruct (add_inventory d x (rp_gen me) i) as [d'|[]]; reflexivity.
Qed.
Lemma h_inv_put_auxc v x g i : auxc (fun d => h_inv_put d v x g i).
Proof.
  same. unfold h_inv_put. rewrite find_rp_aux. destruct (find_rp d x) as [me|]; [|reflexivity].
  destruct (negb _); [reflexivity|]. destruct (bad_capacity v i); [reflexivity|]. rewrite update_inventory_aux.
  destruct (update_inventory d x (rp_gen me) i) as [d'|[]]; reflexivity.
Qed.
Lemma h_inv_delete_auxc x rc : auxc (fun d => h_inv_delete d x rc).
Proof.
  same. unfold h_inv_delete. rewrite find_rp_aux. destruct (find_rp d x) as [me|]; [|reflexivity].
  rewrite delete_inventory_aux. destruct (delete_inventory d x (rp_gen me) rc) as [d'|[]]; reflexivity.
Qed.
Lemma h_inv_delete_all_auxc v x : auxc (fun d => h_inv_delete_all d v x).
Proof.
  same. unfold h_inv_delete_all. destruct (v <? 5); [reflexivity|].
  rewrite find_rp_aux. destruct (find_rp d x) as [me|]; [|reflexivity].
  rewrite set_inventory_aux. destruct (set_inventory d x (rp_gen me) []) as [d'|[]]; reflexivity.
Qed.
Lemma h_traits_set_auxc v x g ts : auxc (fun d => h_traits_set d v x g ts).
Proof.
  same. unfold h_traits_set. destruct (v <? 6); [reflexivity|].
  rewrite find_rp_aux. destruct (find_rp d x) as [me|]; [|reflexivity].
  destruct (negb (g =? _)); [reflexivity|].
  replace (forallb (trait_exists (with_aux d p u c)) ts) with (forallb (trait_exists d) ts) by reflexivity.
  destruct (negb (forallb _ ts)); [reflexivity|]. rewrite set_traits_txn_aux.
  destruct (set_traits_txn d x (rp_gen me) ts) as [d'|[]]; reflexivity.
Qed.
Lemma h_traits_delete_auxc v x : auxc (fun d => h_traits_delete d v x).
Proof.
  same. unfold h_traits_delete. destruct (v <? 6); [reflexivity|].
  rewrite find_rp_aux. destruct (find_rp d x) as [me|]; [|reflexivity].
  rewrite set_traits_txn_aux. destruct (set_traits_txn d x (rp_gen me) []) as [d'|[]]; reflexivity.
Qed.
Lemma h_aggs_set_auxc v x g l : auxc (fun d => h_aggs_set d v x g l).
Proof.
  same. unfold h_aggs_set. destruct (v <? 1); [reflexivity|].
  rewrite find_rp_aux. destruct (find_rp d x) as [me|]; [|reflexivity].
  destruct (_ && _); [reflexivity|]. rewrite set_aggregates_txn_aux.
  destruct (set_aggregates_txn d x (rp_gen me) (dedup l) (19 <=? v)) as [d'|[]]; reflexivity.
Qed.
Lemma h_alloc_delete_auxc x : auxc (fun d => h_alloc_delete d x).
Proof.
  same. unfold h_alloc_delete. rewrite wipe_list_aux. destruct (wipe_list d x); reflexivity.
Qed.
Lemma h_rc_create_auxc v n : auxc (fun d => h_rc_create d v n).
Proof.
  same. unfold h_rc_create. destruct (v <? 2); [reflexivity|]. destruct (is_std_rc_name n); [reflexivity|].
  rewrite rc_create_aux. destruct (rc_create d n) as [d'|[]]; reflexivity.
Qed.
Lemma h_rc_put_auxc v n : auxc (fun d => h_rc_put d v n).
Proof.
  same. unfold h_rc_put. destruct (v <? 2); [reflexivity|]. destruct (v <? 7); [reflexivity|].
  destruct (is_std_rc_name n); [reflexivity|].
  change (rc_id_of_name (with_aux d p u c) n) with (rc_id_of_name d n).
  destruct (rc_id_of_name d n); [reflexivity|].
  rewrite rc_create_aux. destruct (rc_create d n) as [d'|[]]; reflexivity.
Qed.
Lemma h_rc_rename_auxc v o n : auxc (fun d => h_rc_rename d v o n).
Proof.
  intros d p u c. unfold h_rc_rename. destruct (v <? 2); [exists p, u, c; reflexivity|].
  destruct (6 <? v); [apply (h_rc_put_auxc v o)|]. exists p, u, c.
  destruct (is_std_rc_name n); [reflexivity|].
  rewrite rc_rename_aux. destruct (rc_rename d o n) as [d'|[]]; reflexivity.
Qed.
Lemma h_rc_delete_auxc v n : auxc (fun d => h_rc_delete d v n).
Proof.
  same. unfold h_rc_delete. destruct (v <? 2); [reflexivity|].
  rewrite rc_destroy_aux. destruct (rc_destroy d n) as [d'|[]]; reflexivity.
Qed.
Lemma h_trait_put_auxc v t : auxc (fun d => h_trait_put d v t).
Proof.
  same. unfold h_trait_put. destruct (v <? 6); [reflexivity|]. destruct (is_std_trait t); [reflexivity|].
  rewrite trait_create_aux. destruct (trait_create d t) as [d'|[]]; reflexivity.
Qed.
Lemma h_trait_delete_auxc v t : auxc (fun d => h_trait_delete d v t).
Proof.
  same. unfold h_trait_delete. destruct (v <? 6); [reflexivity|].
  rewrite trait_destroy_aux. destruct (trait_destroy d t) as [d'|[]]; reflexivity.
Qed.

Lemma ensure_consumer_aux cf v k d p u c : exists p' u' c',
  ensure_consumer cf v (with_aux d p u c) k =
  (with_aux (fst (ensure_consumer cf v d k)) p' u' c', snd (ensure_consumer cf v d k)).
Proof.
  destruct d as [r i a cs pp uu tt rc tr ag ra rt].
  unfold ensure_consumer, with_aux, find_cons, set_users, set_projects, set_ctypes, set_consumers.
  cbn [rps invs allocs consumers projects users ctypes rcs traits aggs rp_aggs rp_traits].
  destruct (find_cons_l cs (ci_uuid k)) as [k0|].
  - destruct (_ && _); [do 3 eexists; reflexivity|]. destruct (38 <=? v); do 3 eexists; reflexivity.
  - destruct (_ && _); [do 3 eexists; reflexivity|]. destruct (38 <=? v); do 3 eexists; reflexivity.
Qed.

Lemma inspect_consumers_aux cf v : forall l d acc p u c, exists p' u' c',
  inspect_consumers cf v (with_aux d p u c) acc l =
  (with_aux (fst (inspect_consumers cf v d acc l)) p' u' c', snd (inspect_consumers cf v d acc l)).
Proof.
  induction l as [|k l IH]; intros d acc p u c; [exists p, u, c; reflexivity|].
  destruct (ensure_consumer_aux cf v k d p u c) as (p1 & u1 & c1 & E).
  cbn [inspect_consumers]. rewrite E.
  destruct (ensure_consumer cf v d k) as [d1 [ko|]]; cbn [fst snd]; [apply IH|].
  exists p1, u1, c1. reflexivity.
Qed.

Lemma new_allocs_aux d k p u c : forall l, new_allocs (with_aux d p u c) k l = new_allocs d k l.
Proof.
  induction l as [|a l IH]; [reflexivity|]. cbn [new_allocs]. rewrite IH, find_rp_aux. reflexivity.
Qed.
Lemma alloc_objs_aux d k l p u c : alloc_objs (with_aux d p u c) k l = alloc_objs d k l.
Proof. destruct l; cbn [alloc_objs]; [rewrite wipe_list_aux; reflexivity|apply new_allocs_aux]. Qed.
Lemma alloc_list_aux d p u c : forall ks l, alloc_list (with_aux d p u c) ks l = alloc_list d ks l.
Proof.
  induction ks as [|k ks IH]; intros [|x l]; try reflexivity.
  cbn [alloc_list]. rewrite IH, alloc_objs_aux. reflexivity.
Qed.
Lemma reshape_precheck_aux d p u c : forall ri, reshape_precheck (with_aux d p u c) ri = reshape_precheck d ri.
Proof.
  induction ri as [|r ri IH]; [reflexivity|]. cbn [reshape_precheck]. rewrite IH, find_rp_aux. reflexivity.
Qed.

Lemma post_core_auxc cf v l txn ef :
  (forall d objs p u c, txn (with_aux d p u c) objs = rmap (txn d objs) p u c) ->
  auxc (fun d => C12.post_core cf d v l txn ef).
Proof.
  intros Htxn d p u c. unfold C12.post_core.
  destruct (inspect_consumers_aux cf v l d [] p u c) as (p1 & u1 & c1 & E). rewrite E.
  destruct (inspect_consumers cf v d [] l) as [d1 [ks|]]; cbn [fst snd]; [|exists p1, u1, c1; reflexivity].
  rewrite alloc_list_aux. destruct (alloc_list d1 ks l) as [objs|]; [|exists p1, u1, c1; reflexivity].
  rewrite fold_update_consumer_aux, Htxn.
  destruct (txn (fold_left update_consumer ks d1) objs) as [d2|e]; exists p1, u1, c1; reflexivity.
Qed.

Lemma step_auxc cf r : auxc (fun d => step cf d r).
Proof.
  destruct r; cbn [step].
  - apply h_rp_create_auxc.
  - apply h_rp_update_auxc.
  - apply h_rp_delete_auxc.
  - apply h_inv_set_auxc.
  - apply h_inv_post_auxc.
  - apply h_inv_put_auxc.
  - apply h_inv_delete_auxc.
  - apply h_inv_delete_all_auxc.
  - apply h_traits_set_auxc.
  - apply h_traits_delete_auxc.
  - apply h_aggs_set_auxc.
  - intros d p u c0. rewrite !C12.h_alloc_put_core.
    apply (post_core_auxc cf v [c] set_allocations alloc_err set_allocations_aux).
  - intros d p u c. rewrite !C12.h_alloc_post_core. destruct (v <? 13); [exists p, u, c; reflexivity|].
    apply (post_core_auxc cf v l set_allocations alloc_err set_allocations_aux).
  - apply h_alloc_delete_auxc.
  - intros d p u c. rewrite !C12.h_reshape_core. destruct (v <? 30); [exists p, u, c; reflexivity|].
    rewrite reshape_precheck_aux. destruct (reshape_precheck d ri); [exists p, u, c; reflexivity|].
    apply (post_core_auxc cf v al (fun d0 objs => reshape_txn d0 ri objs) reshape_err).
    intros. apply reshape_txn_aux.
  - apply h_rc_create_auxc.
  - apply h_rc_put_auxc.
  - apply h_rc_rename_auxc.
  - apply h_rc_delete_auxc.
  - apply h_trait_put_auxc.
  - apply h_trait_delete_auxc.
Qed.

Lemma step_core_eq cf r d1 d2 : core_eq d1 d2 ->
  core_eq (fst (step cf d1 r)) (fst (step cf d2 r)) /\ snd (step cf d1 r) = snd (step cf d2 r).
Proof.
  intro H. rewrite (core_eq_is_with_aux _ _ H).
  destruct (step_auxc cf r d1 (projects d2) (users d2) (ctypes d2)) as (p' & u' & c' & E).
  rewrite E. cbn [fst snd]. split; [apply core_eq_with_aux|reflexivity].
Qed.

Lemma run_successes cf : forall l d1 d2, reqs_wf l -> core_eq d1 d2 ->
  core_eq (run cf d1 l) (run cf d2 (successes cf d1 l)).
Proof.
  induction l as [|r l IH]; intros d1 d2 Hwf He; [exact He|].
  inversion Hwf as [|? ? Hr Hl]; subst. cbn [run successes].
  destruct (step cf d1 r) as [d1' rs] eqn:E. cbn [fst].
  destruct (status rs <? 400) eqn:Es.
  - cbn [run]. apply IH; [exact Hl|].
    pose proof (step_core_eq cf r d1 d2 He) as [Hc _]. rewrite E in Hc. exact Hc.
  - apply IH; [exact Hl|]. apply Z.ltb_ge in Es.
    apply core_eq_trans with d1; [|exact He]. apply core_eq_sym.
    exact (C04.c04_rejected_no_trace cf d1 r d1' rs Hr E Es).
Qed.

Lemma c11_only_successes_matter :
  forall cf l q v, reqs_wf l ->
    view q v (run cf db0 l) = view q v (run cf db0 (successes cf db0 l)).
Proof.
  intros cf l q v Hwf. apply c11_view_core_eq. apply run_successes; [exact Hwf|apply core_eq_refl].
Qed.

Lemma successes_wf cf : forall l d, reqs_wf l -> reqs_wf (successes cf d l).
Proof.
  induction l as [|r l IH]; intros d Hwf; [constructor|].
  inversion Hwf as [|? ? Hr Hl]; subst. cbn [successes].
  destruct (step cf d r) as [d' rs]. destruct (status rs <? 400); [constructor; [exact Hr|]|]; apply IH; exact Hl.
Qed.

(* C11 in one statement: what is read after a history is the reference semantics applied to the
   abstract state produced by the successful requests alone *)
Lemma c11_reads_are_successful_writes :
  forall cf l q v, reqs_wf l ->
    view q v (run cf db0 l) = spec_view q v (abs (run cf db0 (successes cf db0 l))).
Proof.
  intros cf l q v Hwf. rewrite (c11_only_successes_matter cf l q v Hwf).
  apply c11_reads_refine_reachable. apply successes_wf. exact Hwf.
Qed.
