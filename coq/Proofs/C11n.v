(* C11, class and trait reads: GET /traits[?name=in:..][&associated=..], GET /traits/{name},
   GET /resource_classes, GET /resource_classes/{name}.
   Refinement of Model/Reads.v (v_traits, v_trait, v_classes, v_class) to Spec/ApiSpec.v (the sp_ functions), the
   invariant behind it (traits_unique), membership characterisations, read-after-write. *)
From PV Require Import Proofs.Defs Spec.ApiSpec Model.Names.
From PV Require Proofs.C04 Proofs.C08 Proofs.C19.

(* ================================================================ lists *)
Lemma insert_row_In x r : forall l, In x (insert_row r l) <-> x = r \/ In x l.
Proof.
  induction l as [|y l IH]; cbn [insert_row In]; [intuition congruence|].
  destruct (row_leb r y); cbn [In]; [intuition congruence|]. rewrite IH. intuition congruence.
Qed.
Lemma srt_In x : forall l, In x (sort_rows l) <-> In x l.
Proof.
  induction l as [|y l IH]; cbn [sort_rows fold_right In]; [tauto|].
  fold (sort_rows l). rewrite insert_row_In, IH. intuition congruence.
Qed.
Lemma in_singles (t : Z) (X : list Z) : In [t] (sort_rows (map (fun t => [t]) X)) <-> In t X.
Proof.
  rewrite srt_In, in_map_iff. split.
  - intros [y [E Hy]]. injection E as ->. exact Hy.
  - intro H. exists t. split; [reflexivity|exact H].
Qed.

Lemma bool_ext (a b : bool) : (a = true <-> b = true) -> a = b.
Proof. destruct a, b; intuition congruence. Qed.

Lemma memZ_app x a b : memZ x (a ++ b) = memZ x a || memZ x b.
Proof. unfold memZ. apply existsb_app. Qed.

Lemma memZ_false x l : memZ x l = false <-> ~ In x l.
Proof.
  rewrite <- C08.memZ_In. destruct (memZ x l); intuition congruence.
Qed.

Lemma filter_filter' {A} (p q : A -> bool) : forall l, filter p (filter q l) = filter (fun x => q x && p x) l.
Proof.
  induction l as [|x l IH]; [reflexivity|]. cbn [filter].
  destruct (q x); cbn [filter andb]; [destruct (p x)|]; rewrite IH; reflexivity.
Qed.

Lemma filter_true {A} (l : list A) : filter (fun _ => true) l = l.
Proof. induction l as [|x l IH]; [reflexivity|]. cbn [filter]. rewrite IH. reflexivity. Qed.

Lemma dedup_In x : forall l, In x (dedup l) <-> In x l.
Proof.
  unfold dedup. induction l as [|y l IH]; cbn [fold_right In]; [tauto|].
  destruct (memZ y (fold_right _ [] l)) eqn:M.
  - rewrite IH. split; [tauto|]. intros [<-|H]; [|assumption]. apply IH.
    apply C08.memZ_In in M. exact M.
  - cbn [In]. rewrite IH. tauto.
Qed.

(* DISTINCT over a block of copies of t followed by rows that do not mention t *)
Lemma dedup_block t : forall a rest, (forall y, In y a -> y = t) -> ~ In t rest ->
  dedup (a ++ rest) = match a with [] => dedup rest | _ :: _ => t :: dedup rest end.
Proof.
  induction a as [|y a IH]; intros rest Ha Hr; [reflexivity|].
  assert (Ey : y = t) by (apply Ha; left; reflexivity). subst y.
  assert (Ha' : forall y, In y a -> y = t) by (intros y Hy; apply Ha; right; exact Hy).
  specialize (IH rest Ha' Hr).
  change (dedup ((t :: a) ++ rest))
    with (if memZ t (dedup (a ++ rest)) then dedup (a ++ rest) else t :: dedup (a ++ rest)).
  rewrite IH. destruct a as [|z a].
  - assert (M : memZ t (dedup rest) = false) by (apply memZ_false; rewrite dedup_In; exact Hr).
    rewrite M. reflexivity.
  - assert (M : memZ t (t :: dedup rest) = true) by (apply C08.memZ_In; left; reflexivity).
    rewrite M. reflexivity.
Qed.

(* ================================================================ traits: tables *)
Lemma memZ_zseq n t : memZ t (zseq (Z.to_nat n) 0) = (0 <=? t) && (t <? n).
Proof.
  apply bool_ext. rewrite C08.memZ_In, C19.zseq_In, andb_true_iff, Z.leb_le, Z.ltb_lt. lia.
Qed.

Lemma memZ_trait_rows d t : memZ t (trait_rows d) = trait_exists d t.
Proof. unfold trait_rows, trait_exists, is_std_trait. rewrite memZ_app, memZ_zseq. reflexivity. Qed.

Lemma trait_rows_In d t : In t (trait_rows d) <-> trait_exists d t = true.
Proof. rewrite <- memZ_trait_rows. symmetry. apply C08.memZ_In. Qed.

Lemma trait_rows_NoDup d : traits_unique d -> NoDup (trait_rows d).
Proof.
  intros [Hn Hs]. unfold trait_rows. apply C19.NoDup_app_intro; [apply C19.zseq_NoDup|exact Hn|].
  intros x Hz Hx. specialize (Hs x Hx). apply C08.memZ_In in Hz. rewrite memZ_zseq in Hz.
  unfold is_std_trait in Hs. congruence.
Qed.

(* the association rows of trait t *)
Definition assoc_rows (d : db) (t : Z) : list Z := flat_map (fun x => if snd x =? t then [t] else []) (rp_traits d).
Definition has_assoc (d : db) (t : Z) : bool := existsb (fun x => snd x =? t) (rp_traits d).

Lemma assoc_rows_all d t y : In y (assoc_rows d t) -> y = t.
Proof.
  unfold assoc_rows. intro H. apply in_flat_map in H. destruct H as [x [_ H]].
  destruct (snd x =? t); [destruct H as [<-|[]]; reflexivity|destruct H].
Qed.

Lemma assoc_rows_nil d t : assoc_rows d t = [] <-> has_assoc d t = false.
Proof.
  unfold assoc_rows, has_assoc. induction (rp_traits d) as [|x l IH]; cbn [flat_map existsb]; [tauto|].
  destruct (snd x =? t); cbn [orb app]; [split; discriminate|exact IH].
Qed.

Lemma has_assoc_iff d t : has_assoc d t = true <-> exists u, In (u, t) (rp_traits d).
Proof.
  unfold has_assoc. rewrite existsb_exists. split.
  - intros [[u t'] [Hx E]]. cbn [snd] in E. apply Z.eqb_eq in E. subst t'. exists u. exact Hx.
  - intros [u Hx]. exists (u, t). split; [exact Hx|apply Z.eqb_refl].
Qed.

Lemma trait_join_In d t : forall l, In t (trait_join d l) <-> In t l /\ has_assoc d t = true.
Proof.
  intro l. unfold trait_join. rewrite in_flat_map. split.
  - intros [t0 [H0 H]]. change (In t (assoc_rows d t0)) in H. pose proof (assoc_rows_all _ _ _ H) as E. subst t0.
    split; [exact H0|]. destruct (has_assoc d t) eqn:A; [reflexivity|].
    apply assoc_rows_nil in A. rewrite A in H. destruct H.
  - intros [H0 A]. exists t. split; [exact H0|]. change (In t (assoc_rows d t)).
    destruct (assoc_rows d t) as [|y r] eqn:E; [apply assoc_rows_nil in E; congruence|].
    left. apply (assoc_rows_all d t). rewrite E. left. reflexivity.
Qed.

(* JOIN .. DISTINCT = the rows that have at least one association record, when names are unique *)
Lemma dedup_join d : forall l, NoDup l -> dedup (trait_join d l) = filter (has_assoc d) l.
Proof.
  induction l as [|t l IH]; intro Hn; [reflexivity|].
  inversion Hn as [|? ? Ht Hl]; subst.
  change (trait_join d (t :: l)) with (assoc_rows d t ++ trait_join d l).
  rewrite (dedup_block t).
  - cbn [filter]. rewrite (IH Hl). destruct (assoc_rows d t) as [|y r] eqn:E.
    + apply assoc_rows_nil in E. rewrite E. reflexivity.
    + destruct (has_assoc d t) eqn:A; [reflexivity|]. apply assoc_rows_nil in A. congruence.
  - apply assoc_rows_all.
  - intro H. apply trait_join_In in H. tauto.
Qed.

Lemma find_rp_l_some u r : forall l, find_rp_l l u = Some r -> In r l /\ rp_uuid r = u.
Proof.
  induction l as [|x l IH]; cbn [find_rp_l]; [discriminate|].
  destruct (rp_uuid x =? u) eqn:E.
  - intros [= ->]. split; [left; reflexivity|apply Z.eqb_eq; exact E].
  - intro H. destruct (IH H) as [H1 H2]. split; [right; exact H1|exact H2].
Qed.

(* "some provider carries t" in the abstract state = "some association record names t" (no record
   dangles: RI) *)
Lemma assoc_abs d t : RI d -> s_associated (abs d) t = has_assoc d t.
Proof.
  intros [_ [_ [HT _]]]. apply bool_ext. unfold s_associated. rewrite has_assoc_iff, existsb_exists. split.
  - intros [p [Hp M]]. cbn [abs as_provs] in Hp. apply in_map_iff in Hp. destruct Hp as [r [<- Hr]].
    cbn [abs_prov p_traits] in M. apply C08.memZ_In in M. unfold traits_of in M.
    apply in_map_iff in M. destruct M as [[u t'] [E Hx]]. cbn [snd] in E. subst t'.
    apply filter_In in Hx. exists u. tauto.
  - intros [u Hx]. destruct (HT _ Hx) as [[r Hr] _]. cbn [fst] in Hr.
    apply find_rp_l_some in Hr. destruct Hr as [Hr Eu].
    exists (abs_prov d r). split; [cbn [abs as_provs]; apply in_map; exact Hr|].
    cbn [abs_prov p_traits]. apply C08.memZ_In. unfold traits_of. apply in_map_iff.
    exists (u, t). split; [reflexivity|]. apply filter_In. split; [exact Hx|]. cbn [fst]. rewrite Eu. apply Z.eqb_refl.
Qed.

(* ================================================================ traits: refinement *)
Lemma refine_traits d v names assoc :
  RI d -> (assoc = Some true -> traits_unique d) -> v_traits d v names assoc = sp_traits (abs d) v names assoc.
Proof.
  intros HR HU. unfold v_traits, sp_traits. destruct (v <? 6); [reflexivity|].
  f_equal. f_equal. f_equal.
  change (s_all_traits (abs d)) with (trait_rows d).
  rewrite (filter_ext _ (fun t => match names with Some ns => memZ t ns | None => true end &&
                                  match assoc with Some b => Bool.eqb (has_assoc d t) b | None => true end)).
  2:{ intro t. destruct assoc as [b|]; [|reflexivity]. rewrite (assoc_abs _ _ HR). reflexivity. }
  unfold traits_listed.
  set (cand := match names with Some ns => filter (fun t => memZ t ns) (trait_rows d) | None => trait_rows d end).
  assert (Ec : cand = filter (fun t => match names with Some ns => memZ t ns | None => true end) (trait_rows d)).
  { unfold cand. destruct names; [reflexivity|]. symmetry. apply filter_true. }
  destruct assoc as [[|]|].
  - rewrite dedup_join.
    + rewrite Ec, filter_filter'. apply filter_ext. intro t. destruct (has_assoc d t); reflexivity.
    + rewrite Ec. apply C19.NoDup_filter. apply trait_rows_NoDup. apply HU. reflexivity.
  - change (fun t => negb (existsb (fun x => snd x =? t) (rp_traits d))) with (fun t => negb (has_assoc d t)).
    rewrite Ec, filter_filter'. apply filter_ext. intro t. destruct (has_assoc d t); reflexivity.
  - rewrite Ec. apply filter_ext. intro t. rewrite andb_true_r. reflexivity.
Qed.

Lemma refine_trait d v t : v_trait d v t = sp_trait (abs d) v t.
Proof. unfold v_trait, sp_trait. rewrite memZ_trait_rows. reflexivity. Qed.

(* ================================================================ classes: refinement *)
Definition class_exists (d : db) (n : Z) : bool := is_std_rc_name n || memZ n (map snd (rcs d)).

Lemma rc_rows_names d : map snd (rc_rows d) = zseq (Z.to_nat n_std_rc) 0 ++ map snd (rcs d).
Proof.
  unfold rc_rows. rewrite map_app, map_map. cbn [snd]. rewrite map_id. reflexivity.
Qed.

Lemma refine_classes d v : v_classes d v = sp_classes (abs d) v.
Proof.
  unfold v_classes, sp_classes. destruct (v <? 2); [reflexivity|]. f_equal. f_equal.
  cbn [abs as_classes]. rewrite <- rc_rows_names, map_map. reflexivity.
Qed.

Lemma class_exists_rows d n : class_exists d n = memZ n (map snd (rc_rows d)).
Proof. unfold class_exists, is_std_rc_name. rewrite rc_rows_names, memZ_app, memZ_zseq. reflexivity. Qed.

Lemma v_class_exists d v n : v_class d v n =
  if v <? 2 then v_404 else if class_exists d n then mkView 200 [n] [] else v_404.
Proof.
  unfold v_class. destruct (v <? 2); [reflexivity|]. rewrite class_exists_rows.
  destruct (find (fun x => snd x =? n) (rc_rows d)) as [x|] eqn:F.
  - apply find_some in F. destruct F as [Hx E]. apply Z.eqb_eq in E.
    assert (M : memZ n (map snd (rc_rows d)) = true).
    { apply C08.memZ_In. rewrite <- E. apply in_map. exact Hx. }
    rewrite M, E. reflexivity.
  - assert (M : memZ n (map snd (rc_rows d)) = false).
    { apply memZ_false. intro H. apply in_map_iff in H. destruct H as [x [E Hx]].
      pose proof (find_none _ _ F x Hx) as N. cbn beta in N. rewrite E, Z.eqb_refl in N. discriminate. }
    rewrite M. reflexivity.
Qed.

Lemma refine_class d v n : v_class d v n = sp_class (abs d) v n.
Proof. rewrite v_class_exists. reflexivity. Qed.

(* ================================================================ trait names stay unique *)
Lemma rc_destroy_traits d n d' : rc_destroy d n = Ok d' -> traits d' = traits d /\ rp_traits d' = rp_traits d.
Proof.
  unfold rc_destroy. destruct (rc_id_of_name d n); [|discriminate].
  destruct (_ <? _); [discriminate|]. destruct (existsb _ _); [discriminate|]. intros [= <-]. split; reflexivity.
Qed.
Lemma rc_rename_traits d o n d' : rc_rename d o n = Ok d' -> traits d' = traits d /\ rp_traits d' = rp_traits d.
Proof.
  unfold rc_rename. destruct (rc_id_of_name d o); [|discriminate].
  destruct (_ <? _); [discriminate|]. destruct (_ || _); [discriminate|]. intros [= <-]. split; reflexivity.
Qed.

Lemma traits_unique_eq d d' : traits d' = traits d -> traits_unique d -> traits_unique d'.
Proof. unfold traits_unique. intros ->. tauto. Qed.

Lemma traits_unique_step cf d r d' rs : traits_unique d -> step cf d r = (d', rs) -> traits_unique d'.
Proof.
  intros HU H. destruct (C19.rc_trait_req r) eqn:Hr.
  2:{ destruct (C19.step_other_kp _ _ _ _ _ Hr H) as [_ E]. exact (traits_unique_eq _ _ E HU). }
  destruct r; try discriminate Hr; clear Hr; cbn [step] in H.
  - (* RcCreate *) unfold h_rc_create in H. destruct (v <? 2); [injection H as <- _; exact HU|].
    destruct (is_std_rc_name n); [injection H as <- _; exact HU|].
    destruct (rc_create d n) as [dx|e] eqn:E; injection H as <- _; [|exact HU].
    apply C19.rc_create_spec in E. exact (traits_unique_eq _ _ (proj2 (proj2 E)) HU).
  - (* RcPut *) apply C19.h_rc_put_step in H. exact (traits_unique_eq _ _ (proj2 H) HU).
  - (* RcRename *) unfold h_rc_rename in H. destruct (v <? 2); [injection H as <- _; exact HU|].
    destruct (6 <? v); [apply C19.h_rc_put_step in H; exact (traits_unique_eq _ _ (proj2 H) HU)|].
    destruct (is_std_rc_name new); [injection H as <- _; exact HU|].
    destruct (rc_rename d old new) as [dx|e] eqn:E.
    + injection H as <- _. exact (traits_unique_eq _ _ (proj1 (rc_rename_traits _ _ _ _ E)) HU).
    + destruct e; injection H as <- _; exact HU.
  - (* RcDelete *) unfold h_rc_delete in H. destruct (v <? 2); [injection H as <- _; exact HU|].
    destruct (rc_destroy d n) as [dx|e] eqn:E.
    + injection H as <- _. exact (traits_unique_eq _ _ (proj1 (rc_destroy_traits _ _ _ E)) HU).
    + destruct e; injection H as <- _; exact HU.
  - (* TraitPut *) unfold h_trait_put in H. destruct (v <? 6); [injection H as <- _; exact HU|].
    destruct (is_std_trait t) eqn:S; [injection H as <- _; exact HU|].
    unfold trait_create in H. destruct (trait_exists d t) eqn:X; injection H as <- _; [exact HU|].
    destruct HU as [Hn Hs]. unfold traits_unique. cbn [traits set_traits]. split.
    + apply C19.NoDup_app_intro; [exact Hn|repeat constructor; intros []|].
      intros x Hx [<-|[]]. unfold trait_exists in X. apply orb_false_iff in X. destruct X as [_ X].
      apply memZ_false in X. exact (X Hx).
    + intros x Hx. apply in_app_iff in Hx. destruct Hx as [Hx|[<-|[]]]; [exact (Hs x Hx)|exact S].
  - (* TraitDelete *) unfold h_trait_delete in H. destruct (v <? 6); [injection H as <- _; exact HU|].
    destruct (trait_destroy d t) as [dx|e] eqn:E.
    2:{ destruct e; injection H as <- _; exact HU. }
    injection H as <- _. unfold trait_destroy in E.
    destruct (negb _); [discriminate|]. destruct (is_std_trait t); [discriminate|].
    destruct (existsb _ _); [discriminate|]. injection E as <-.
    destruct HU as [Hn Hs]. unfold traits_unique. cbn [traits set_traits]. split.
    + apply C19.NoDup_filter. exact Hn.
    + intros x Hx. apply filter_In in Hx. apply Hs. tauto.
Qed.

Lemma traits_unique_run cf : forall l d, traits_unique d -> traits_unique (run cf d l).
Proof.
  induction l as [|r l IH]; intros d Hd; cbn [run]; [exact Hd|].
  apply IH. destruct (step cf d r) as [d' rs] eqn:E. cbn [fst]. eapply traits_unique_step; eassumption.
Qed.

Lemma c11_traits_unique : forall cf l, traits_unique (run cf db0 l).
Proof.
  intros cf l. apply traits_unique_run. unfold traits_unique, db0. cbn [traits]. split; [constructor|intros t []].
Qed.

(* ================================================================ what a listing contains *)
Definition names_ok (names : option (list Z)) (t : Z) : Prop :=
  match names with Some ns => In t ns | None => True end.
Definition assoc_ok (d : db) (assoc : option bool) (t : Z) : Prop :=
  match assoc with
  | Some true => exists u, In (u, t) (rp_traits d)
  | Some false => ~ exists u, In (u, t) (rp_traits d)
  | None => True
  end.

Lemma c11_traits_listed_iff :
  forall d v names assoc t, 6 <= v ->
    (In [t] (rv_rows (view (QTraits names assoc) v d)) <->
     trait_exists d t = true /\ names_ok names t /\ assoc_ok d assoc t).
Proof.
  intros d v names assoc t Hv. cbn [view]. unfold v_traits.
  replace (v <? 6) with false by (symmetry; apply Z.ltb_ge; lia). cbn [rv_rows].
  rewrite in_singles. unfold traits_listed.
  set (cand := match names with Some ns => filter (fun t => memZ t ns) (trait_rows d) | None => trait_rows d end).
  assert (Hc : In t cand <-> trait_exists d t = true /\ names_ok names t).
  { unfold cand, names_ok. destruct names as [ns|].
    - rewrite filter_In, trait_rows_In, C08.memZ_In. tauto.
    - rewrite trait_rows_In. tauto. }
  unfold assoc_ok. destruct assoc as [[|]|].
  - rewrite dedup_In, trait_join_In, Hc, has_assoc_iff. tauto.
  - rewrite filter_In, Hc. change (existsb (fun x => snd x =? t) (rp_traits d)) with (has_assoc d t).
    rewrite negb_true_iff, <- has_assoc_iff. destruct (has_assoc d t); intuition congruence.
  - rewrite Hc. tauto.
Qed.

Lemma c11_trait_show :
  forall d v t, 6 <= v ->
    view (QTrait t) v d = if trait_exists d t then mkView 204 [] [] else v_404.
Proof.
  intros d v t Hv. cbn [view]. unfold v_trait.
  replace (v <? 6) with false by (symmetry; apply Z.ltb_ge; lia). rewrite memZ_trait_rows. reflexivity.
Qed.

Lemma c11_classes_listed_iff :
  forall d v n, 2 <= v -> (In [n] (rv_rows (view QClasses v d)) <-> class_exists d n = true).
Proof.
  intros d v n Hv. cbn [view]. unfold v_classes.
  replace (v <? 2) with false by (symmetry; apply Z.ltb_ge; lia). cbn [rv_rows].
  rewrite <- (map_map snd (fun n => [n])), in_singles, class_exists_rows. symmetry. apply C08.memZ_In.
Qed.

Lemma c11_class_show :
  forall d v n, 2 <= v ->
    view (QClass n) v d = if class_exists d n then mkView 200 [n] [] else v_404.
Proof.
  intros d v n Hv. cbn [view]. rewrite v_class_exists.
  replace (v <? 2) with false by (symmetry; apply Z.ltb_ge; lia). reflexivity.
Qed.

(* below the microversion that introduced them the routes do not exist, whatever the state *)
Lemma c11_names_unavailable :
  forall d v, (v < 6 -> forall names assoc t, view (QTraits names assoc) v d = v_404 /\ view (QTrait t) v d = v_404) /\
              (v < 2 -> forall n, view QClasses v d = v_404 /\ view (QClass n) v d = v_404).
Proof.
  intros d v. split; intro Hv; intros; cbn [view]; unfold v_traits, v_trait, v_classes, v_class.
  - replace (v <? 6) with true by (symmetry; apply Z.ltb_lt; lia). split; reflexivity.
  - replace (v <? 2) with true by (symmetry; apply Z.ltb_lt; lia). split; reflexivity.
Qed.

(* ================================================================ read after write: traits *)
Ltac not_ok Hs := exfalso; unfold is_success in Hs; cbn in Hs; lia.

Lemma c11_raw_trait_put :
  forall cf d v t d' rs v',
    step cf d (TraitPut v t) = (d', rs) -> is_success rs -> 6 <= v' ->
    view (QTrait t) v' d' = mkView 204 [] [] /\
    (forall names, names_ok names t -> In [t] (rv_rows (view (QTraits names None) v' d'))) /\
    (forall t' names assoc, t' <> t ->
       (In [t'] (rv_rows (view (QTraits names assoc) v' d')) <->
        In [t'] (rv_rows (view (QTraits names assoc) v' d)))).
Proof.
  intros cf d v t d' rs v' H Hs Hv.
  assert (HE : trait_exists d' t = true /\ rp_traits d' = rp_traits d /\
               forall t', t' <> t -> trait_exists d' t' = trait_exists d t').
  { cbn [step] in H. unfold h_trait_put in H. destruct (v <? 6); [injection H as _ <-; not_ok Hs|].
    destruct (is_std_trait t); [injection H as _ <-; not_ok Hs|].
    unfold trait_create in H. destruct (trait_exists d t) eqn:X; injection H as <- _.
    - split; [exact X|]. split; reflexivity.
    - unfold trait_exists. cbn [traits set_traits rp_traits]. split; [|split; [reflexivity|]].
      + rewrite memZ_app. apply orb_true_iff. right. apply orb_true_iff. right.
        apply C08.memZ_In. left. reflexivity.
      + intros t' Hn. rewrite memZ_app. f_equal.
        assert (M : memZ t' [t] = false) by (apply memZ_false; intros [E|[]]; congruence).
        rewrite M. apply orb_false_r. }
  destruct HE as [He [Hrt Hf]]. split; [|split].
  - rewrite (c11_trait_show _ _ _ Hv), He. reflexivity.
  - intros names Hn. apply c11_traits_listed_iff; [exact Hv|]. split; [exact He|]. split; [exact Hn|exact I].
  - intros t' names assoc Hne. rewrite !c11_traits_listed_iff by exact Hv. rewrite (Hf _ Hne).
    unfold assoc_ok. rewrite Hrt. tauto.
Qed.

Lemma c11_raw_trait_delete :
  forall cf d v t d' rs v',
    step cf d (TraitDelete v t) = (d', rs) -> is_success rs -> 6 <= v' ->
    view (QTrait t) v' d' = v_404 /\
    (forall names assoc, ~ In [t] (rv_rows (view (QTraits names assoc) v' d'))) /\
    (forall t' names assoc, t' <> t ->
       (In [t'] (rv_rows (view (QTraits names assoc) v' d')) <->
        In [t'] (rv_rows (view (QTraits names assoc) v' d)))).
Proof.
  intros cf d v t d' rs v' H Hs Hv.
  assert (HE : trait_exists d' t = false /\ rp_traits d' = rp_traits d /\
               forall t', t' <> t -> trait_exists d' t' = trait_exists d t').
  { cbn [step] in H. unfold h_trait_delete in H. destruct (v <? 6); [injection H as _ <-; not_ok Hs|].
    destruct (trait_destroy d t) as [dx|e] eqn:E.
    2:{ destruct e; injection H as _ <-; not_ok Hs. }
    injection H as <- _. unfold trait_destroy in E.
    destruct (negb _); [discriminate|]. destruct (is_std_trait t) eqn:S; [discriminate|].
    destruct (existsb _ _); [discriminate|]. injection E as <-.
    unfold trait_exists. cbn [traits set_traits rp_traits]. split; [|split; [reflexivity|]].
    - rewrite S. cbn [orb]. apply memZ_false. intro Hin. apply filter_In in Hin.
      destruct Hin as [_ Hin]. rewrite Z.eqb_refl in Hin. discriminate.
    - intros t' Hn. f_equal. apply bool_ext. rewrite !C08.memZ_In, filter_In.
      assert (N : negb (t' =? t) = true) by (apply negb_true_iff; apply Z.eqb_neq; exact Hn). tauto. }
  destruct HE as [He [Hrt Hf]]. split; [|split].
  - rewrite (c11_trait_show _ _ _ Hv), He. reflexivity.
  - intros names assoc Hin. apply c11_traits_listed_iff in Hin; [|exact Hv]. destruct Hin as [Hin _]. congruence.
  - intros t' names assoc Hne. rewrite !c11_traits_listed_iff by exact Hv. rewrite (Hf _ Hne).
    unfold assoc_ok. rewrite Hrt. tauto.
Qed.

(* a successful PUT /resource_providers/{u}/traits: every trait of the request is listed as associated
   and not as unassociated *)
Lemma c11_raw_traits_associated :
  forall cf d v u g ts d' rs v' t,
    step cf d (TraitsSet v u g ts) = (d', rs) -> is_success rs -> 6 <= v' -> In t ts ->
    forall names, names_ok names t ->
      In [t] (rv_rows (view (QTraits names (Some true)) v' d')) /\
      ~ In [t] (rv_rows (view (QTraits names (Some false)) v' d')).
Proof.
  intros cf d v u g ts d' rs v' t H Hs Hv Ht names Hn.
  pose proof (proj2 (C04.c04_traits_complete cf d v u g ts d' rs t H Hs) Ht) as Hin.
  assert (He : trait_exists d' t = true).
  { cbn [step] in H. unfold h_traits_set in H. destruct (v <? 6); [injection H as _ <-; not_ok Hs|].
    destruct (find_rp d u) as [me|]; [|injection H as _ <-; not_ok Hs].
    destruct (negb (g =? rp_gen me)); [injection H as _ <-; not_ok Hs|].
    destruct (forallb (trait_exists d) ts) eqn:F; cbn [negb] in H; [|injection H as _ <-; not_ok Hs].
    destruct (set_traits_txn d u (rp_gen me) ts) as [dx|e] eqn:E; [|injection H as _ <-; not_ok Hs].
    injection H as <- _. destruct (C19.set_traits_txn_kp _ _ _ _ _ E) as [_ Et].
    unfold trait_exists. rewrite Et. rewrite forallb_forall in F. exact (F t Ht). }
  split.
  - apply c11_traits_listed_iff; [exact Hv|]. split; [exact He|]. split; [exact Hn|]. exists u. exact Hin.
  - intro Hl. apply c11_traits_listed_iff in Hl; [|exact Hv]. destruct Hl as [_ [_ Hl]]. apply Hl. exists u. exact Hin.
Qed.

(* ================================================================ read after write: classes *)
Lemma class_exists_In d n : class_exists d n = true <-> is_std_rc_name n = true \/ exists id, In (id, n) (rcs d).
Proof.
  unfold class_exists. rewrite orb_true_iff, C08.memZ_In, in_map_iff. split.
  - intros [H|[[id n'] [E Hx]]]; [left; exact H|]. cbn [snd] in E. subst n'. right. exists id. exact Hx.
  - intros [H|[id Hx]]; [left; exact H|]. right. exists (id, n). split; [reflexivity|exact Hx].
Qed.

(* rc_id_of_name on a custom class: the row found *)
Lemma rc_id_custom d n id : rc_id_of_name d n = Some id -> MIN_CUSTOM_RC_ID <= id ->
  is_std_rc_name n = false /\ In (id, n) (rcs d).
Proof.
  unfold rc_id_of_name. intros H Hid. destruct (is_std_rc_name n) eqn:S.
  - injection H as ->. apply C19.is_std_rc_name_iff in S. pose proof C19.n_std_le_min. lia.
  - split; [reflexivity|]. destruct (find _ (rcs d)) as [[i m]|] eqn:F; [|discriminate].
    injection H as <-. apply find_some in F. destruct F as [Hx E]. cbn [fst snd] in *.
    apply Z.eqb_eq in E. subst m. exact Hx.
Qed.

Lemma rc_id_some_exists d n id : rc_id_of_name d n = Some id -> class_exists d n = true.
Proof.
  unfold rc_id_of_name. intro H. apply class_exists_In. destruct (is_std_rc_name n); [left; reflexivity|].
  right. destruct (find _ (rcs d)) as [[i m]|] eqn:F; [|discriminate].
  apply find_some in F. destruct F as [Hx E]. cbn [snd] in E. apply Z.eqb_eq in E. subst m. exists i. exact Hx.
Qed.

Lemma snd_unique (l : list (Z * Z)) x y : NoDup (map snd l) -> In x l -> In y l -> snd x = snd y -> x = y.
Proof.
  induction l as [|z l IH]; intros Hn Hx Hy E; [destruct Hx|].
  cbn [map] in Hn. inversion Hn as [|? ? Hz Hl]; subst.
  destruct Hx as [<-|Hx]; destruct Hy as [<-|Hy].
  - reflexivity.
  - exfalso. apply Hz. rewrite E. apply in_map. exact Hy.
  - exfalso. apply Hz. rewrite <- E. apply in_map. exact Hx.
  - apply IH; assumption.
Qed.

Lemma fst_unique (l : list (Z * Z)) x y : NoDup (map fst l) -> In x l -> In y l -> fst x = fst y -> x = y.
Proof.
  induction l as [|z l IH]; intros Hn Hx Hy E; [destruct Hx|].
  cbn [map] in Hn. inversion Hn as [|? ? Hz Hl]; subst.
  destruct Hx as [<-|Hx]; destruct Hy as [<-|Hy].
  - reflexivity.
  - exfalso. apply Hz. rewrite E. apply in_map. exact Hy.
  - exfalso. apply Hz. rewrite <- E. apply in_map. exact Hx.
  - apply IH; assumption.
Qed.

Lemma class_created cf d r n d' rs :
  (r = (fun v => RcCreate v n) (match r with RcCreate v _ => v | _ => 0 end) \/
   r = (fun v => RcPut v n) (match r with RcPut v _ => v | _ => 0 end)) ->
  step cf d r = (d', rs) -> is_success rs ->
  class_exists d' n = true /\ forall n', n' <> n -> class_exists d' n' = class_exists d n'.
Proof.
  assert (Hnew : forall id, class_exists (set_rcs d (rcs d ++ [(id, n)])) n = true /\
                  forall n', n' <> n -> class_exists (set_rcs d (rcs d ++ [(id, n)])) n' = class_exists d n').
  { intro id. unfold class_exists. cbn [rcs set_rcs]. rewrite map_app. cbn [map snd]. split.
    - rewrite memZ_app. apply orb_true_iff. right. apply orb_true_iff. right. apply C08.memZ_In. left. reflexivity.
    - intros n' Hn. rewrite memZ_app. f_equal.
      assert (M : memZ n' [n] = false) by (apply memZ_false; intros [E|[]]; congruence).
      rewrite M. apply orb_false_r. }
  assert (Hput : forall v, h_rc_put d v n = (d', rs) -> is_success rs ->
                 class_exists d' n = true /\ forall n', n' <> n -> class_exists d' n' = class_exists d n').
  { intros v H Hs. unfold h_rc_put in H. destruct (v <? 2); [injection H as _ <-; not_ok Hs|].
    destruct (v <? 7); [injection H as _ <-; not_ok Hs|].
    destruct (is_std_rc_name n); [injection H as _ <-; not_ok Hs|].
    destruct (rc_id_of_name d n) as [id|] eqn:I.
    - injection H as <- _. split; [exact (rc_id_some_exists _ _ _ I)|reflexivity].
    - unfold rc_create in H. rewrite I in H. injection H as <- _. apply Hnew. }
  intros [E|E] H Hs; destruct r; try discriminate E; injection E as ->; cbn [step] in H.
  - unfold h_rc_create in H. destruct (v <? 2); [injection H as _ <-; not_ok Hs|].
    destruct (is_std_rc_name n); [injection H as _ <-; not_ok Hs|].
    unfold rc_create in H. destruct (rc_id_of_name d n); [injection H as _ <-; not_ok Hs|].
    injection H as <- _. apply Hnew.
  - exact (Hput _ H Hs).
Qed.

Lemma c11_raw_class_create :
  forall cf d v n d' rs v',
    step cf d (RcCreate v n) = (d', rs) -> is_success rs -> 2 <= v' ->
    view (QClass n) v' d' = mkView 200 [n] [] /\ In [n] (rv_rows (view QClasses v' d')) /\
    forall n', n' <> n -> view (QClass n') v' d' = view (QClass n') v' d.
Proof.
  intros cf d v n d' rs v' H Hs Hv.
  destruct (class_created cf d (RcCreate v n) n d' rs (or_introl eq_refl) H Hs) as [He Hf].
  split; [|split].
  - rewrite (c11_class_show _ _ _ Hv), He. reflexivity.
  - apply c11_classes_listed_iff; assumption.
  - intros n' Hn. rewrite !c11_class_show by exact Hv. rewrite (Hf _ Hn). reflexivity.
Qed.

(* PUT /resource_classes/{n} from 1.7 (create if absent) *)
Lemma c11_raw_class_put :
  forall cf d v n d' rs v',
    step cf d (RcPut v n) = (d', rs) -> is_success rs -> 2 <= v' ->
    view (QClass n) v' d' = mkView 200 [n] [] /\ In [n] (rv_rows (view QClasses v' d')) /\
    forall n', n' <> n -> view (QClass n') v' d' = view (QClass n') v' d.
Proof.
  intros cf d v n d' rs v' H Hs Hv.
  destruct (class_created cf d (RcPut v n) n d' rs (or_intror eq_refl) H Hs) as [He Hf].
  split; [|split].
  - rewrite (c11_class_show _ _ _ Hv), He. reflexivity.
  - apply c11_classes_listed_iff; assumption.
  - intros n' Hn. rewrite !c11_class_show by exact Hv. rewrite (Hf _ Hn). reflexivity.
Qed.

Lemma c11_raw_class_delete :
  forall cf d v n d' rs v',
    C19.rcs_ok d -> step cf d (RcDelete v n) = (d', rs) -> is_success rs -> 2 <= v' ->
    view (QClass n) v' d' = v_404 /\ ~ In [n] (rv_rows (view QClasses v' d')) /\
    forall n', n' <> n -> view (QClass n') v' d' = view (QClass n') v' d.
Proof.
  intros cf d v n d' rs v' [Hfd [Hnd _]] H Hs Hv.
  assert (HE : class_exists d' n = false /\ forall n', n' <> n -> class_exists d' n' = class_exists d n').
  { cbn [step] in H. unfold h_rc_delete in H. destruct (v <? 2); [injection H as _ <-; not_ok Hs|].
    destruct (rc_destroy d n) as [dx|e] eqn:E.
    2:{ destruct e; injection H as _ <-; not_ok Hs. }
    injection H as <- _. unfold rc_destroy in E.
    destruct (rc_id_of_name d n) as [id|] eqn:I; [|discriminate].
    destruct (id <? MIN_CUSTOM_RC_ID) eqn:L; [discriminate|]. apply Z.ltb_ge in L.
    destruct (existsb _ _); [discriminate|]. injection E as <-.
    destruct (rc_id_custom _ _ _ I L) as [S Hx]. split.
    - destruct (class_exists _ n) eqn:X; [|reflexivity]. exfalso.
      apply class_exists_In in X. destruct X as [X|[id' X]]; [congruence|].
      cbn [rcs set_rcs] in X. apply filter_In in X. destruct X as [X N]. cbn [fst] in N.
      pose proof (snd_unique _ _ _ Hnd X Hx eq_refl) as Eq. injection Eq as ->.
      rewrite Z.eqb_refl in N. discriminate.
    - intros n' Hn. apply bool_ext. rewrite !class_exists_In. cbn [rcs set_rcs]. split.
      + intros [X|[id' X]]; [left; exact X|]. right. exists id'. apply filter_In in X. tauto.
      + intros [X|[id' X]]; [left; exact X|]. right. exists id'. apply filter_In. split; [exact X|].
        cbn [fst]. apply negb_true_iff. apply Z.eqb_neq. intros ->.
        pose proof (fst_unique _ _ _ Hfd X Hx eq_refl) as Eq. injection Eq as ->. exact (Hn eq_refl). }
  destruct HE as [He Hf]. split; [|split].
  - rewrite (c11_class_show _ _ _ Hv), He. reflexivity.
  - intro Hin. apply c11_classes_listed_iff in Hin; [|exact Hv]. congruence.
  - intros n' Hn. rewrite !c11_class_show by exact Hv. rewrite (Hf _ Hn). reflexivity.
Qed.

(* PUT /resource_classes/{old} {"name": new} at 1.2 - 1.6: the rename *)
Lemma c11_raw_class_rename :
  forall cf d v old new d' rs v',
    C19.rcs_ok d -> v <= 6 -> step cf d (RcRename v old new) = (d', rs) -> is_success rs -> 2 <= v' ->
    view (QClass new) v' d' = mkView 200 [new] [] /\ In [new] (rv_rows (view QClasses v' d')) /\
    (old <> new -> view (QClass old) v' d' = v_404 /\ ~ In [old] (rv_rows (view QClasses v' d'))) /\
    forall n', n' <> old -> n' <> new -> view (QClass n') v' d' = view (QClass n') v' d.
Proof.
  intros cf d v old new d' rs v' [Hfd [Hnd _]] Hv6 H Hs Hv.
  assert (HE : class_exists d' new = true /\ (old <> new -> class_exists d' old = false) /\
               forall n', n' <> old -> n' <> new -> class_exists d' n' = class_exists d n').
  { cbn [step] in H. unfold h_rc_rename in H. destruct (v <? 2); [injection H as _ <-; not_ok Hs|].
    replace (6 <? v) with false in H by (symmetry; apply Z.ltb_ge; lia).
    destruct (is_std_rc_name new); [injection H as _ <-; not_ok Hs|].
    destruct (rc_rename d old new) as [dx|e] eqn:E.
    2:{ destruct e; injection H as _ <-; not_ok Hs. }
    injection H as <- _. unfold rc_rename in E.
    destruct (rc_id_of_name d old) as [id|] eqn:I; [|discriminate].
    destruct (id <? MIN_CUSTOM_RC_ID) eqn:L; [discriminate|]. apply Z.ltb_ge in L.
    destruct (_ || _); [discriminate|]. injection E as <-.
    destruct (rc_id_custom _ _ _ I L) as [S Hx].
    set (f := fun x : Z * Z => if fst x =? id then (id, new) else x).
    assert (Hrows : forall i m, In (i, m) (map f (rcs d)) <->
                    (i = id /\ m = new) \/ (i <> id /\ In (i, m) (rcs d))).
    { intros i m. rewrite in_map_iff. split.
      - intros [[i0 m0] [Ef H0]]. unfold f in Ef. cbn [fst] in Ef. destruct (i0 =? id) eqn:Ei.
        + injection Ef as <- <-. left. split; reflexivity.
        + injection Ef as <- <-. right. split; [apply Z.eqb_neq; exact Ei|exact H0].
      - intros [[-> ->]|[Hne H0]].
        + exists (id, old). split; [|exact Hx]. unfold f. cbn [fst]. rewrite Z.eqb_refl. reflexivity.
        + exists (i, m). split; [|exact H0]. unfold f. cbn [fst].
          replace (i =? id) with false by (symmetry; apply Z.eqb_neq; exact Hne). reflexivity. }
    split; [|split].
    - apply class_exists_In. right. exists id. cbn [rcs set_rcs]. apply Hrows. left. split; reflexivity.
    - intro Hne. destruct (class_exists _ old) eqn:X; [|reflexivity]. exfalso.
      apply class_exists_In in X. destruct X as [X|[i X]]; [congruence|].
      cbn [rcs set_rcs] in X. apply Hrows in X. destruct X as [[_ X]|[Hi X]]; [exact (Hne X)|].
      pose proof (snd_unique _ _ _ Hnd X Hx eq_refl) as Eq. injection Eq as ->. exact (Hi eq_refl).
    - intros n' Ho Hn. apply bool_ext. rewrite !class_exists_In. cbn [rcs set_rcs]. split.
      + intros [X|[i X]]; [left; exact X|]. right. apply Hrows in X.
        destruct X as [[_ X]|[_ X]]; [congruence|]. exists i. exact X.
      + intros [X|[i X]]; [left; exact X|]. right. exists i. apply Hrows. right. split; [|exact X].
        intros ->. pose proof (fst_unique _ _ _ Hfd X Hx eq_refl) as Eq. injection Eq as ->. exact (Ho eq_refl). }
  destruct HE as [He [Ho Hf]]. split; [|split; [|split]].
  - rewrite (c11_class_show _ _ _ Hv), He. reflexivity.
  - apply c11_classes_listed_iff; assumption.
  - intro Hne. split.
    + rewrite (c11_class_show _ _ _ Hv), (Ho Hne). reflexivity.
    + intro Hin. apply c11_classes_listed_iff in Hin; [|exact Hv]. rewrite (Ho Hne) in Hin. discriminate.
  - intros n' H1 H2. rewrite !c11_class_show by exact Hv. rewrite (Hf _ H1 H2). reflexivity.
Qed.
