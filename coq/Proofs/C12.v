(* C12 - consumers exist exactly while they hold allocations: proofs over the sequential model. *)
From PV Require Import Proofs.Defs.

(* ================================================================ basics *)
Lemma memZ_In x l : memZ x l = true <-> In x l.
Proof.
  unfold memZ. rewrite existsb_exists. split.
  - intros [y [H1 H2]]. apply Z.eqb_eq in H2. subst; auto.
  - intros H; exists x; split; auto. apply Z.eqb_refl.
Qed.

Lemma memZ_nIn x l : memZ x l = false <-> ~ In x l.
Proof.
  rewrite <- memZ_In. destruct (memZ x l); split; intros; congruence.
Qed.

Lemma nodupb_NoDup l : nodupb l = true -> NoDup l.
Proof.
  induction l as [|x l IH]; cbn; intros H; [constructor|].
  apply andb_true_iff in H. destruct H as [H1 H2].
  constructor; auto. apply negb_true_iff in H1. apply memZ_nIn in H1. exact H1.
Qed.

Lemma dedup_In x l : In x (dedup l) <-> In x l.
Proof.
  induction l as [|y l IH]; cbn; [tauto|].
  fold (dedup l). destruct (memZ y (dedup l)) eqn:E.
  - apply memZ_In in E. rewrite IH. split; auto. intros [->|H]; auto. apply IH; auto.
  - cbn. rewrite IH. tauto.
Qed.

Lemma NoDup_map_inj {A} (f : A -> Z) l a b :
  NoDup (map f l) -> In a l -> In b l -> f a = f b -> a = b.
Proof.
  induction l as [|x l IH]; cbn; intros N Ha Hb E; [tauto|].
  inversion N as [|? ? N1 N2]; subst.
  destruct Ha as [->|Ha], Hb as [->|Hb]; auto.
  - exfalso. apply N1. rewrite E. apply in_map; auto.
  - exfalso. apply N1. rewrite <- E. apply in_map; auto.
Qed.

Lemma in_combine_ex_l {A B} (ks : list A) (l : list B) k :
  length ks = length l -> In k ks -> exists c, In (k, c) (combine ks l).
Proof.
  revert l. induction ks as [|k0 ks IH]; intros [|c0 l]; cbn; intros L H; try tauto; try discriminate.
  destruct H as [->|H]; [exists c0; auto|].
  destruct (IH l) as [c Hc]; auto. exists c; auto.
Qed.

Lemma in_combine_ex_r {A B} (ks : list A) (l : list B) c :
  length ks = length l -> In c l -> exists k, In (k, c) (combine ks l).
Proof.
  revert l. induction ks as [|k0 ks IH]; intros [|c0 l]; cbn; intros L H; try tauto; try discriminate.
  destruct H as [->|H]; [exists k0; auto|].
  destruct (IH l) as [k Hk]; auto. exists k; auto.
Qed.

(* ================================================================ find_cons *)
Lemma find_cons_l_some l u r : find_cons_l l u = Some r -> c_uuid r = u /\ In r l.
Proof.
  induction l as [|a l IH]; cbn; [discriminate|].
  destruct (c_uuid a =? u) eqn:E.
  - intros [= <-]. apply Z.eqb_eq in E. auto.
  - intros H. destruct (IH H); auto.
Qed.

Lemma find_cons_l_none l u : find_cons_l l u = None <-> ~ In u (map c_uuid l).
Proof.
  induction l as [|a l IH]; cbn; [tauto|].
  destruct (c_uuid a =? u) eqn:E.
  - apply Z.eqb_eq in E. split; [discriminate|]. intros H; exfalso; auto.
  - apply Z.eqb_neq in E. rewrite IH. tauto.
Qed.

Lemma find_cons_l_in l u : In u (map c_uuid l) -> exists r, find_cons_l l u = Some r.
Proof.
  intros H. destruct (find_cons_l l u) eqn:E; eauto.
  apply find_cons_l_none in E. tauto.
Qed.

Lemma find_cons_l_app_some l l' u r : find_cons_l l u = Some r -> find_cons_l (l ++ l') u = Some r.
Proof.
  induction l as [|a l IH]; cbn; [discriminate|]. destruct (c_uuid a =? u); auto.
Qed.

Lemma find_cons_l_app_none l l' u : find_cons_l l u = None -> find_cons_l (l ++ l') u = find_cons_l l' u.
Proof.
  induction l as [|a l IH]; cbn; auto. destruct (c_uuid a =? u); auto. discriminate.
Qed.

Lemma find_cons_l_map f l u :
  (forall x, c_uuid (f x) = c_uuid x) -> find_cons_l (map f l) u = option_map f (find_cons_l l u).
Proof.
  intros Hf. induction l as [|a l IH]; cbn; auto. rewrite Hf. destruct (c_uuid a =? u); auto.
Qed.

Lemma find_cons_l_filter (g : Z -> bool) l u :
  find_cons_l (filter (fun c => g (c_uuid c)) l) u = if g u then find_cons_l l u else None.
Proof.
  induction l as [|a l IH]; cbn; [destruct (g u); auto|].
  destruct (c_uuid a =? u) eqn:E.
  - apply Z.eqb_eq in E. rewrite E. destruct (g u) eqn:G; cbn.
    + rewrite E, Z.eqb_refl. auto.
    + exact IH.
  - destruct (g (c_uuid a)); cbn; rewrite ?E; auto.
Qed.

Lemma in_map_filter_uuid (g : Z -> bool) l x :
  In x (map c_uuid (filter (fun c => g (c_uuid c)) l)) <-> In x (map c_uuid l) /\ g x = true.
Proof.
  rewrite !in_map_iff. split.
  - intros [r [E H]]. apply filter_In in H. destruct H as [H1 H2]. subst. split; eauto.
  - intros [[r [E H]] G]. exists r. split; auto. apply filter_In. subst; auto.
Qed.

(* ================================================================ C12_recreate *)
Lemma c12_recreate :
  forall cf v d c, find_cons d (ci_uuid c) = None -> ci_gen c = None ->
    snd (ensure_consumer cf v d c) <> None.
Proof.
  intros cf v d c H G. unfold ensure_consumer.
  unfold find_cons in *. cbn [consumers set_users set_projects]. rewrite H, G.
  rewrite andb_false_r. destruct (38 <=? v); cbn; discriminate.
Qed.

(* ================================================================ requests that touch neither table *)
Definition ac (d : db) := (allocs d, consumers d).

Lemma incr_rp_gen_ac d u g d' : incr_rp_gen d u g = Ok d' -> ac d' = ac d.
Proof. unfold incr_rp_gen. destruct (cas_rp_l _ _ _); intros [= <-]; reflexivity. Qed.

Lemma del_inv_ac d u l d' : delete_inventory_from_provider d u l = Ok d' -> ac d' = ac d.
Proof. unfold delete_inventory_from_provider. destruct (existsb _ _); intros [= <-]; reflexivity. Qed.

Lemma upd_inv_ac l : forall d u d', update_inventory_for_provider d u l = Ok d' -> ac d' = ac d.
Proof.
  induction l as [|x l IH]; cbn; intros d u d'.
  - intros [= <-]; reflexivity.
  - destruct (find_inv d u (ii_rc x)); [|discriminate]. intros H. apply IH in H. exact H.
Qed.

Lemma set_inventory_ac d u g l d' : set_inventory d u g l = Ok d' -> ac d' = ac d.
Proof.
  unfold set_inventory, bind. destruct (negb _); [discriminate|].
  destruct (delete_inventory_from_provider _ _ _) as [d1|] eqn:E1; [|discriminate].
  destruct (update_inventory_for_provider _ _ _) as [d3|] eqn:E3; [|discriminate].
  intros H. apply incr_rp_gen_ac in H. apply upd_inv_ac in E3. apply del_inv_ac in E1.
  rewrite H, E3. exact E1.
Qed.

Lemma add_inventory_ac d u g x d' : add_inventory d u g x = Ok d' -> ac d' = ac d.
Proof.
  unfold add_inventory. destruct (negb _); [discriminate|].
  destruct (find_inv _ _ _); [discriminate|]. intros H. apply incr_rp_gen_ac in H. exact H.
Qed.

Lemma update_inventory_ac d u g x d' : update_inventory d u g x = Ok d' -> ac d' = ac d.
Proof.
  unfold update_inventory, bind. destruct (negb _); [discriminate|].
  destruct (update_inventory_for_provider _ _ _) as [d1|] eqn:E1; [|discriminate].
  intros H. apply incr_rp_gen_ac in H. apply upd_inv_ac in E1. congruence.
Qed.

Lemma delete_inventory_ac d u g rc d' : delete_inventory d u g rc = Ok d' -> ac d' = ac d.
Proof.
  unfold delete_inventory, bind. destruct (negb _); [discriminate|].
  destruct (delete_inventory_from_provider _ _ _) as [d1|] eqn:E1; [|discriminate].
  destruct (find_inv _ _ _); [|discriminate].
  intros H. apply incr_rp_gen_ac in H. apply del_inv_ac in E1. congruence.
Qed.

Lemma set_traits_txn_ac d u g w d' : set_traits_txn d u g w = Ok d' -> ac d' = ac d.
Proof.
  unfold set_traits_txn.
  destruct (filter _ w); destruct (filter _ (traits_of d u)); intros H;
    try (injection H as <-; reflexivity); apply incr_rp_gen_ac in H; exact H.
Qed.

Lemma set_aggregates_txn_ac d u g w b d' : set_aggregates_txn d u g w b = Ok d' -> ac d' = ac d.
Proof.
  unfold set_aggregates_txn. destruct b; intros H.
  - apply incr_rp_gen_ac in H. exact H.
  - injection H as <-. reflexivity.
Qed.

Lemma rp_create_ac d u n p d' : rp_create d u n p = Ok d' -> ac d' = ac d.
Proof.
  unfold rp_create, bind.
  destruct (match p with Some _ => _ | None => _ end); [|discriminate].
  destruct (existsb _ _); intros [= <-]; reflexivity.
Qed.

Lemma rp_update_ac d me n p b d' : rp_update d me n p b = Ok d' -> ac d' = ac d.
Proof.
  unfold rp_update, bind.
  destruct (match p with Some _ => _ | None => _ end); [|discriminate].
  destruct (name_taken _ _ _); intros [= <-]; reflexivity.
Qed.

Lemma rp_delete_ac d u d' : rp_delete d u = Ok d' -> ac d' = ac d.
Proof.
  unfold rp_delete. destruct (existsb _ _); [discriminate|].
  destruct (existsb _ _); [discriminate|]. destruct (find_rp _ _); intros [= <-]; reflexivity.
Qed.

Lemma rc_create_ac d n d' : rc_create d n = Ok d' -> ac d' = ac d.
Proof. unfold rc_create. destruct (rc_id_of_name _ _); intros [= <-]; reflexivity. Qed.

Lemma rc_destroy_ac d n d' : rc_destroy d n = Ok d' -> ac d' = ac d.
Proof.
  unfold rc_destroy. destruct (rc_id_of_name _ _); [|discriminate].
  destruct (_ <? _); [discriminate|]. destruct (existsb _ _); intros [= <-]; reflexivity.
Qed.

Lemma rc_rename_ac d o n d' : rc_rename d o n = Ok d' -> ac d' = ac d.
Proof.
  unfold rc_rename. destruct (rc_id_of_name _ _); [|discriminate].
  destruct (_ <? _); [discriminate|]. destruct (_ || _); intros [= <-]; reflexivity.
Qed.

Lemma trait_create_ac d t d' : trait_create d t = Ok d' -> ac d' = ac d.
Proof. unfold trait_create. destruct (trait_exists _ _); intros [= <-]; reflexivity. Qed.

Lemma trait_destroy_ac d t d' : trait_destroy d t = Ok d' -> ac d' = ac d.
Proof.
  unfold trait_destroy. destruct (negb _); [discriminate|]. destruct (is_std_trait _); [discriminate|].
  destruct (existsb _ _); intros [= <-]; reflexivity.
Qed.

Global Hint Resolve incr_rp_gen_ac set_inventory_ac add_inventory_ac update_inventory_ac delete_inventory_ac
  set_traits_txn_ac set_aggregates_txn_ac rp_create_ac rp_update_ac rp_delete_ac rc_create_ac rc_destroy_ac
  rc_rename_ac trait_create_ac trait_destroy_ac : acdb.

Ltac hbreak H :=
  repeat match type of H with
         | (if ?x then _ else _) = _ => destruct x
         | (match ?x with _ => _ end) = _ => destruct x eqn:?
         end.
Ltac hsolve H := cbv zeta in H; hbreak H; injection H as <- <-; first [reflexivity | eauto with acdb].

Lemma simple_step_ac cf d r d' rs :
  match r with AllocPut _ _ | AllocPost _ _ | AllocDelete _ | Reshape _ _ _ => False | _ => True end ->
  step cf d r = (d', rs) -> ac d' = ac d.
Proof.
  destruct r; cbn [step]; intros T H; try tauto; clear T.
  - unfold h_rp_create in H. hsolve H.
  - unfold h_rp_update in H. hsolve H.
  - unfold h_rp_delete in H. hsolve H.
  - unfold h_inv_set in H. hsolve H.
  - unfold h_inv_post in H. hsolve H.
  - unfold h_inv_put in H. hsolve H.
  - unfold h_inv_delete in H. hsolve H.
  - unfold h_inv_delete_all in H. hsolve H.
  - unfold h_traits_set in H. hsolve H.
  - unfold h_traits_delete in H. hsolve H.
  - unfold h_aggs_set in H. hsolve H.
  - unfold h_rc_create in H. hsolve H.
  - unfold h_rc_put in H. hsolve H.
  - unfold h_rc_rename, h_rc_put in H. hsolve H.
  - unfold h_rc_delete in H. hsolve H.
  - unfold h_trait_put in H. hsolve H.
  - unfold h_trait_delete in H. hsolve H.
Qed.

(* ================================================================ ConsIff through uuid lists *)
Definition cu (d : db) : list Z := map c_uuid (consumers d).
Definition au (d : db) : list Z := map a_cons (allocs d).

Lemma has_consumer_cu d c : has_consumer d c <-> In c (cu d).
Proof.
  unfold has_consumer, cu. rewrite in_map_iff. split; intros [k [H1 H2]]; exists k; tauto.
Qed.
Lemma holds_allocs_au d c : holds_allocs d c <-> In c (au d).
Proof.
  unfold holds_allocs, au. rewrite in_map_iff. split; intros [k [H1 H2]]; exists k; tauto.
Qed.
Lemma ConsIff_alt d : ConsIff d <-> forall c, In c (cu d) <-> In c (au d).
Proof.
  unfold ConsIff. split; intros H c; specialize (H c);
    rewrite has_consumer_cu, holds_allocs_au in *; exact H.
Qed.

Lemma ConsIff_ac d d' : ac d' = ac d -> ConsIff d -> ConsIff d'.
Proof.
  intros H. injection H as Ha Hc. rewrite !ConsIff_alt. unfold cu, au. rewrite Ha, Hc. auto.
Qed.

Lemma find_cons_none_cu d u : find_cons d u = None <-> ~ In u (cu d).
Proof. apply find_cons_l_none. Qed.

(* ================================================================ generations do not matter *)
Definition cinfo (c : consumer) := (c_uuid c, c_proj c, c_user c, c_type c).

Lemma cinfo_uuid l l' : map cinfo l = map cinfo l' -> map c_uuid l = map c_uuid l'.
Proof.
  intros H.
  assert (E : forall l, map c_uuid l = map (fun p => fst (fst (fst p))) (map cinfo l)).
  { intros l0. rewrite map_map. apply map_ext. reflexivity. }
  rewrite (E l), (E l'), H. reflexivity.
Qed.

Lemma find_cons_l_cinfo cl : forall l0 u r, map cinfo cl = map cinfo l0 -> find_cons_l cl u = Some r ->
  exists r0, find_cons_l l0 u = Some r0 /\ cinfo r0 = cinfo r.
Proof.
  induction cl as [|a cl IH]; intros [|b l0] u r; cbn; intros H; try discriminate H;
    [intros F; discriminate F|].
  pose proof (f_equal (hd (cinfo a)) H) as H1. pose proof (f_equal (@tl _) H) as H2. cbn in H1, H2.
  assert (U : c_uuid a = c_uuid b) by (unfold cinfo in H1; congruence).
  rewrite <- U. destruct (c_uuid a =? u).
  - intros [= <-]. exists b. split; [reflexivity|congruence].
  - apply IH; auto.
Qed.

Lemma cas_cons_l_cinfo l : forall u g l', cas_cons_l l u g = Some l' -> map cinfo l' = map cinfo l.
Proof.
  induction l as [|c l IH]; cbn; intros u g l'; [discriminate|].
  destruct (c_uuid c =? u).
  - destruct (c_gen c =? g); [|discriminate]. intros [= <-]. reflexivity.
  - destruct (cas_cons_l l u g) eqn:E; [|discriminate]. intros [= <-]. cbn. f_equal. eauto.
Qed.

Lemma cas_conss_spec l : forall d d', cas_conss d l = Ok d' ->
  allocs d' = allocs d /\ map cinfo (consumers d') = map cinfo (consumers d).
Proof.
  induction l as [|[u g] l IH]; cbn; intros d d'.
  - intros [= <-]; auto.
  - unfold bind, incr_cons_gen. destruct (cas_cons_l _ _ _) eqn:E; [|discriminate].
    intros H. apply IH in H. destruct H as [H1 H2]. cbn in *. split; auto.
    rewrite H2. eapply cas_cons_l_cinfo; eauto.
Qed.

Lemma cas_rps_ac l : forall d d', cas_rps d l = Ok d' -> ac d' = ac d.
Proof.
  induction l as [|[u g] l IH]; cbn; intros d d'.
  - intros [= <-]; auto.
  - unfold bind. destruct (incr_rp_gen d u g) eqn:E; [|discriminate].
    intros H. apply IH in H. apply incr_rp_gen_ac in E. congruence.
Qed.

(* ================================================================ what _set_allocations does to the two tables *)
Definition aq (a : areq) := mkAlloc (q_cons a) (q_rp a) (q_rc a) (q_amt a).
Definition tc (objs : list areq) : list Z :=
  filter (fun c => negb (memZ c (map q_cons (filter (fun a => 0 <? q_amt a) objs)))) (dedup (map q_cons objs)).
Definition sa_allocs (al : list alloc) (objs : list areq) : list alloc :=
  filter (fun a => negb (memZ (a_cons a) (map q_cons objs))) al
  ++ map aq (filter (fun a => negb (q_amt a =? 0)) objs).
Definition keepc (objs : list areq) (al : list alloc) (x : Z) : bool :=
  negb (memZ x (tc objs) && negb (existsb (fun a => a_cons a =? x) al)).
Definition sa_spec (d0 : db) (objs : list areq) (d2 : db) : Prop :=
  allocs d2 = sa_allocs (allocs d0) objs /\
  exists cl, map cinfo cl = map cinfo (consumers d0) /\
    consumers d2 = filter (fun c => keepc objs (allocs d2) (c_uuid c)) cl.

Lemma set_allocations_spec d objs d2 : set_allocations d objs = Ok d2 -> sa_spec d objs d2.
Proof.
  unfold set_allocations, bind.
  destruct (check_capacity _ _); [|discriminate].
  destruct (cas_rps _ _) as [d3|] eqn:E3; [|discriminate].
  destruct (cas_conss _ _) as [d4|] eqn:E4; [|discriminate].
  intros [= <-]. apply cas_rps_ac in E3. apply cas_conss_spec in E4. destruct E4 as [A4 C4].
  injection E3 as A3 C3. cbn [allocs consumers set_allocs] in A3, C3.
  unfold sa_spec. cbn [allocs consumers delete_consumers_if_no_allocations set_consumers].
  split.
  - rewrite A4, A3. reflexivity.
  - exists (consumers d4). split; [congruence|]. reflexivity.
Qed.

Lemma filter_map_comm {A B} (p : B -> bool) (g : A -> B) l :
  filter p (map g l) = map g (filter (fun x => p (g x)) l).
Proof. induction l as [|a l IH]; cbn; auto. destruct (p (g a)); cbn; congruence. Qed.

Lemma sa_spec_map d0 objs g d2 :
  (forall a, q_cons (g a) = q_cons a /\ q_rp (g a) = q_rp a /\ q_rc (g a) = q_rc a /\ q_amt (g a) = q_amt a) ->
  sa_spec d0 (map g objs) d2 -> sa_spec d0 objs d2.
Proof.
  intros Hg.
  assert (Q : map q_cons (map g objs) = map q_cons objs).
  { rewrite map_map. apply map_ext. intros a. apply Hg. }
  assert (T : tc (map g objs) = tc objs).
  { unfold tc. rewrite Q. rewrite filter_map_comm, map_map.
    replace (filter (fun x => 0 <? q_amt (g x)) objs) with (filter (fun a => 0 <? q_amt a) objs).
    - erewrite (map_ext (fun x => q_cons (g x))); [reflexivity|]. intros a; apply Hg.
    - apply filter_ext. intros a. destruct (Hg a) as (_ & _ & _ & ->). reflexivity. }
  assert (S : forall al, sa_allocs al (map g objs) = sa_allocs al objs).
  { intros al. unfold sa_allocs. rewrite Q. f_equal. rewrite filter_map_comm, map_map.
    replace (filter (fun x => negb (q_amt (g x) =? 0)) objs) with (filter (fun a => negb (q_amt a =? 0)) objs).
    - apply map_ext. intros a. unfold aq. destruct (Hg a) as (-> & -> & -> & ->). reflexivity.
    - apply filter_ext. intros a. destruct (Hg a) as (_ & _ & _ & ->). reflexivity. }
  unfold sa_spec, keepc. rewrite T, S. auto.
Qed.

Lemma reshape_interim_ac l : forall d x, reshape_interim d l = Ok x -> ac (fst x) = ac d.
Proof.
  induction l as [|r l IH]; cbn; intros d x.
  - intros [= <-]; reflexivity.
  - destruct (ri_invs r); unfold bind.
    + destruct (reshape_interim d l) eqn:E; [|discriminate]. intros [= <-]. cbn. eauto.
    + destruct (set_inventory _ _ _ _) as [d1|] eqn:E1; [|discriminate].
      destruct (reshape_interim d1 l) eqn:E; [|discriminate]. intros [= <-]. cbn.
      apply IH in E. apply set_inventory_ac in E1. congruence.
Qed.

Lemma reshape_final_ac l : forall d gens d', reshape_final d l gens = Ok d' -> ac d' = ac d.
Proof.
  induction l as [|r l IH]; cbn; intros d gens d'.
  - intros [= <-]; reflexivity.
  - destruct gens as [|[u g] gens]; [intros [= <-]; reflexivity|].
    unfold bind. destruct (set_inventory _ _ _ _) as [d1|] eqn:E1; [|discriminate].
    intros H. apply IH in H. apply set_inventory_ac in E1. congruence.
Qed.

Lemma sa_spec_ac d0 d0' objs d2 d2' :
  ac d0' = ac d0 -> ac d2' = ac d2 -> sa_spec d0' objs d2 -> sa_spec d0 objs d2'.
Proof.
  intros [= A0 C0] [= A2 C2]. unfold sa_spec. rewrite A0, C0, A2, C2. auto.
Qed.

Lemma reshape_txn_spec d ri objs d2 : reshape_txn d ri objs = Ok d2 -> sa_spec d objs d2.
Proof.
  unfold reshape_txn, bind.
  destruct (reshape_interim d ri) as [[d1 gens]|] eqn:E1; [|discriminate].
  destruct (set_allocations d1 _) as [dm|] eqn:E2; [|discriminate].
  intros E3. apply reshape_final_ac in E3. apply reshape_interim_ac in E1. cbn in E1.
  apply set_allocations_spec in E2. apply sa_spec_map in E2.
  - eapply sa_spec_ac; eauto.
  - intros a. destruct (lookup_gen gens (q_rp a)); cbn; auto.
Qed.

(* ================================================================ ensure_consumer / inspect_consumers *)
Definition reads (k : cobj) (row : consumer) : Prop :=
  co_uuid k = c_uuid row /\ co_gen k = c_gen row /\ co_proj k = c_proj row /\
  co_user k = c_user row /\ co_type k = c_type row.
Definition req_proj (cf : cfg) (c : cons_in) : Z :=
  match ci_proj c with Some p => p | None => incomplete_proj cf end.
Definition req_user (cf : cfg) (c : cons_in) : Z :=
  match ci_proj c with Some _ => oz (ci_user c) | None => incomplete_user cf end.
Definition rq_ok (cf : cfg) (v : Z) (k : cobj) (c : cons_in) : Prop :=
  co_uuid k = ci_uuid c /\ rq_proj k = req_proj cf c /\ rq_user k = req_user cf c /\
  (38 <= v -> rq_type k = Some (oz (ci_type c))).

Lemma ensure_none cf v d c d1 : ensure_consumer cf v d c = (d1, None) -> ac d1 = ac d.
Proof.
  unfold ensure_consumer. destruct (find_cons _ _).
  - destruct (_ && _); [intros [= <-]; reflexivity|]. destruct (38 <=? v); discriminate.
  - destruct (_ && _); [intros [= <-]; reflexivity|]. destruct (38 <=? v); discriminate.
Qed.

Lemma ensure_some cf v d c d1 k : ensure_consumer cf v d c = (d1, Some k) ->
  allocs d1 = allocs d /\ rps d1 = rps d /\ rq_ok cf v k c /\
  (exists extra, consumers d1 = consumers d ++ extra /\
                 forall r, In r extra -> c_uuid r = ci_uuid c /\ co_created k = true) /\
  (co_created k = true -> find_cons d (ci_uuid c) = None) /\
  (co_created k = false -> consumers d1 = consumers d) /\
  (exists row, find_cons d1 (ci_uuid c) = Some row /\ reads k row).
Proof.
  unfold ensure_consumer. fold (req_proj cf c). fold (req_user cf c).
  set (d0 := set_users _ _).
  assert (F0 : find_cons d0 (ci_uuid c) = find_cons d (ci_uuid c)) by reflexivity.
  rewrite F0. destruct (find_cons d (ci_uuid c)) as [k0|] eqn:F.
  - destruct (_ && _); [discriminate|].
    destruct (find_cons_l_some _ _ _ F) as [U _].
    assert (V : 38 <= v -> (38 <=? v) = true) by (intros; apply Z.leb_le; auto).
    destruct (38 <=? v); intros [= <- <-]; cbn;
      (split; [reflexivity|]); (split; [reflexivity|]);
      (split; [unfold rq_ok; cbn; repeat split; auto; intros X; apply V in X; discriminate || reflexivity|]);
      (split; [exists []; rewrite app_nil_r; split; [reflexivity|intros r []]|]);
      (split; [discriminate|]); (split; [reflexivity|]);
      exists k0; (split; [exact F|]); unfold reads; cbn; auto.
  - destruct (_ && _); [discriminate|].
    assert (V : 38 <= v -> (38 <=? v) = true) by (intros; apply Z.leb_le; auto).
    destruct (38 <=? v); intros [= <- <-]; cbn;
      (split; [reflexivity|]); (split; [reflexivity|]);
      (split; [unfold rq_ok; cbn; repeat split; auto; intros X; apply V in X; discriminate || reflexivity|]);
      (split; [eexists; split; [reflexivity|intros r [<-|[]]; cbn; auto]|]);
      (split; [auto|]); (split; [discriminate|]);
      (eexists; split; [unfold find_cons; cbn; rewrite find_cons_l_app_none by exact F; cbn; rewrite Z.eqb_refl; reflexivity|]);
      unfold reads; cbn; auto.
Qed.

Section Chain.
Variables (cf : cfg) (v : Z).

Inductive chain : db -> list cons_in -> list cobj -> db -> Prop :=
| ch_nil d : chain d [] [] d
| ch_cons d c l d1 k ks d2 :
    ensure_consumer cf v d c = (d1, Some k) -> chain d1 l ks d2 -> chain d (c :: l) (k :: ks) d2.

Lemma inspect_some l : forall d acc d1 ks, inspect_consumers cf v d acc l = (d1, Some ks) ->
  exists ks', ks = rev acc ++ ks' /\ chain d l ks' d1.
Proof.
  induction l as [|c l IH]; cbn; intros d acc d1 ks H.
  - injection H as <- <-. exists []. rewrite app_nil_r. split; auto. constructor.
  - destruct (ensure_consumer cf v d c) as [d0 [k|]] eqn:E; [|discriminate].
    apply IH in H. destruct H as [ks' [-> Hc]]. exists (k :: ks'). cbn [rev]. rewrite <- app_assoc.
    split; auto. econstructor; eauto.
Qed.

Lemma inspect_none l : forall d acc d1, inspect_consumers cf v d acc l = (d1, None) ->
  exists l1 ks' dm c dm', chain d l1 ks' dm /\ ensure_consumer cf v dm c = (dm', None) /\
                          d1 = delete_created dm' (rev ks' ++ acc).
Proof.
  induction l as [|c l IH]; cbn; intros d acc d1 H; [discriminate|].
  destruct (ensure_consumer cf v d c) as [d0 [k|]] eqn:E.
  - apply IH in H. destruct H as (l1 & ks' & dm & c' & dm' & Hc & He & ->).
    exists (c :: l1), (k :: ks'), dm, c', dm'. split; [econstructor; eauto|]. split; auto.
    cbn [rev]. rewrite <- app_assoc. reflexivity.
  - injection H as <-. exists [], [], d, c, d0. split; [constructor|]. split; auto.
Qed.

Lemma chain_facts d l ks d1 : chain d l ks d1 ->
  allocs d1 = allocs d /\ rps d1 = rps d /\ length ks = length l /\ map co_uuid ks = map ci_uuid l /\
  (forall k c, In (k, c) (combine ks l) -> rq_ok cf v k c) /\
  (exists extra, consumers d1 = consumers d ++ extra /\
     forall r, In r extra -> exists k, In k ks /\ co_created k = true /\ co_uuid k = c_uuid r) /\
  (forall k, In k ks -> co_created k = true -> find_cons d (co_uuid k) = None) /\
  (forall k, In k ks -> exists row, find_cons d1 (co_uuid k) = Some row /\ reads k row).
Proof.
  induction 1 as [d|d c l d1 k ks d2 E Hc IH].
  - do 4 (split; [reflexivity|]). split; [intros k c []|]. split; [|split; intros k []].
    exists []. rewrite app_nil_r. split; auto. intros r [].
  - destruct (ensure_some _ _ _ _ _ _ E) as (A1 & R1 & Q1 & (ex1 & X1 & X1') & N1 & _ & (row & F1 & Rd1)).
    destruct IH as (A2 & R2 & L2 & M2 & Q2 & (ex2 & X2 & X2') & N2 & F2).
    assert (U : co_uuid k = ci_uuid c) by apply Q1.
    split; [congruence|]. split; [congruence|]. split; [cbn; congruence|]. split; [cbn; congruence|].
    split; [|split; [|split]].
    + intros k' c' [[= <- <-]|H]; auto.
    + exists (ex1 ++ ex2). split; [rewrite X2, X1, app_assoc; reflexivity|].
      intros r H. apply in_app_or in H. destruct H as [H|H].
      * destruct (X1' r H) as [H1 H2]. exists k. split; [left; auto|]. split; auto. congruence.
      * destruct (X2' r H) as [k' [H1 H2]]. exists k'. split; [right; auto|]. auto.
    + intros k' [<-|H] Cr.
      * rewrite U. auto.
      * specialize (N2 k' H Cr). unfold find_cons in *. rewrite X1 in N2.
        destruct (find_cons_l (consumers d) (co_uuid k')) eqn:G; auto.
        rewrite (find_cons_l_app_some _ _ _ _ G) in N2. discriminate.
    + intros k' [<-|H]; auto.
      exists row. split; auto. rewrite U. unfold find_cons in *. rewrite X2.
      apply find_cons_l_app_some. exact F1.
Qed.

Lemma chain_notcreated d l ks d1 : chain d l ks d1 -> NoDup (map ci_uuid l) ->
  forall k, In k ks -> co_created k = false -> find_cons d (co_uuid k) <> None.
Proof.
  induction 1 as [d|d c l d1 k ks d2 E Hc IH]; intros N k' H Cr; [destruct H|].
  destruct (ensure_some _ _ _ _ _ _ E) as (A1 & R1 & Q1 & (ex1 & X1 & X1') & N1 & S1 & (row & F1 & Rd1)).
  inversion N as [|? ? N1' N2']; subst.
  destruct H as [<-|H].
  - unfold find_cons in *. rewrite <- (S1 Cr). destruct Q1 as [-> _]. congruence.
  - specialize (IH N2' k' H Cr). intros G. apply IH. unfold find_cons in *. rewrite X1.
    rewrite find_cons_l_app_none by exact G.
    apply find_cons_l_none. intros I. apply in_map_iff in I. destruct I as [r [I1 I2]].
    destruct (X1' r I2) as [I3 _]. apply N1'.
    destruct (chain_facts _ _ _ _ Hc) as (_ & _ & _ & M & _). rewrite <- M.
    rewrite <- I3, I1. apply in_map; auto.
Qed.
End Chain.

(* ================================================================ update_consumer *)
Lemma update_consumer_basic d k :
  allocs (update_consumer d k) = allocs d /\ rps (update_consumer d k) = rps d /\
  cu (update_consumer d k) = cu d.
Proof.
  unfold update_consumer. destruct (_ || _); auto.
  unfold consumer_update, cu. cbn. repeat split; auto.
  rewrite map_map. apply map_ext. intros x.
  destruct (c_uuid x =? co_uuid k) eqn:E; cbn; auto. destruct (c_gen x =? co_gen k); cbn; auto.
  apply Z.eqb_eq in E. auto.
Qed.

Lemma fold_update_basic ks : forall d,
  allocs (fold_left update_consumer ks d) = allocs d /\ rps (fold_left update_consumer ks d) = rps d /\
  cu (fold_left update_consumer ks d) = cu d.
Proof.
  induction ks as [|k ks IH]; cbn; intros d; auto.
  destruct (IH (update_consumer d k)) as (A & B & C).
  destruct (update_consumer_basic d k) as (A' & B' & C'). repeat split; congruence.
Qed.

Lemma consumer_update_find d c g p us ty u :
  find_cons (consumer_update d c g p us ty) u =
  option_map (fun x => if (c_uuid x =? c) && (c_gen x =? g) then mkCons c p us ty (c_gen x) else x) (find_cons d u).
Proof.
  unfold find_cons, consumer_update. cbn. apply find_cons_l_map.
  intros x. destruct (c_uuid x =? c) eqn:E; cbn; auto. destruct (c_gen x =? g); cbn; auto.
  apply Z.eqb_eq in E. auto.
Qed.

Lemma update_find_other d k u : co_uuid k <> u -> find_cons (update_consumer d k) u = find_cons d u.
Proof.
  intros N. unfold update_consumer. destruct (_ || _); auto.
  rewrite consumer_update_find. destruct (find_cons d u) as [r|] eqn:F; cbn; auto.
  apply find_cons_l_some in F. destruct F as [F _].
  destruct (c_uuid r =? co_uuid k) eqn:E; cbn; auto. apply Z.eqb_eq in E. congruence.
Qed.

Lemma fold_update_find_other ks : forall d u, ~ In u (map co_uuid ks) ->
  find_cons (fold_left update_consumer ks d) u = find_cons d u.
Proof.
  induction ks as [|k ks IH]; cbn; intros d u N; auto.
  rewrite IH by tauto. apply update_find_other. tauto.
Qed.

Definition good (k : cobj) (row : consumer) : Prop :=
  c_proj row = rq_proj k /\ c_user row = rq_user k /\ (forall t, rq_type k = Some t -> c_type row = Some t).

Lemma update_find_self d k row : find_cons d (co_uuid k) = Some row -> reads k row ->
  exists row', find_cons (update_consumer d k) (co_uuid k) = Some row' /\ good k row'.
Proof.
  intros F (R1 & R2 & R3 & R4 & R5). unfold update_consumer.
  destruct (negb (rq_proj k =? co_proj k) || negb (rq_user k =? co_user k)) eqn:D1;
  destruct (match rq_type k with Some t => negb (oeqb (Some t) (co_type k)) | None => false end) eqn:D2; cbn [orb].
  1-3: rewrite consumer_update_find, F; cbn [option_map]; rewrite <- R1, <- R2, !Z.eqb_refl; cbn [andb];
       eexists; split; [reflexivity|]; unfold good; cbn.
  - repeat split; auto.
  - repeat split; auto. intros t Ht. rewrite Ht in D2. apply negb_false_iff in D2.
    destruct (co_type k) as [t'|]; cbn in D2; [|discriminate]. apply Z.eqb_eq in D2. congruence.
  - apply orb_false_iff in D1. destruct D1 as [D1 D1']. apply negb_false_iff in D1, D1'.
    apply Z.eqb_eq in D1, D1'. repeat split; auto.
  - exists row. split; auto. apply orb_false_iff in D1. destruct D1 as [D1 D1']. apply negb_false_iff in D1, D1'.
    apply Z.eqb_eq in D1, D1'. unfold good. split; [congruence|]. split; [congruence|].
    intros t Ht. rewrite Ht in D2. apply negb_false_iff in D2.
    destruct (co_type k) as [t'|] eqn:CT; cbn in D2; [|discriminate]. apply Z.eqb_eq in D2. congruence.
Qed.

Lemma fold_update_attrs ks : forall d, NoDup (map co_uuid ks) ->
  (forall k, In k ks -> exists row, find_cons d (co_uuid k) = Some row /\ reads k row) ->
  forall k, In k ks -> exists row', find_cons (fold_left update_consumer ks d) (co_uuid k) = Some row' /\ good k row'.
Proof.
  induction ks as [|k0 ks IH]; cbn; intros d N H k Hk; [destruct Hk|].
  inversion N as [|? ? N1 N2]; subst.
  destruct Hk as [<-|Hk].
  - rewrite fold_update_find_other by exact N1.
    destruct (H k0 (or_introl eq_refl)) as [row [F R]]. eapply update_find_self; eauto.
  - apply IH; auto. intros k' Hk'. rewrite update_find_other.
    + apply H; auto.
    + intros E. apply N1. rewrite E. apply in_map; auto.
Qed.

(* ================================================================ delete_created *)
Lemma delete_created_allocs d ks : allocs (delete_created d ks) = allocs d.
Proof. reflexivity. Qed.

Lemma delete_created_nil d : delete_created d [] = d.
Proof.
  unfold delete_created. cbn. destruct d; unfold set_consumers; cbn. f_equal.
  induction consumers as [|a l IH]; cbn; congruence.
Qed.

Lemma delete_created_cu d ks x :
  In x (cu (delete_created d ks)) <-> In x (cu d) /\ ~ In x (map co_uuid (filter co_created ks)).
Proof.
  unfold delete_created, cu. cbn.
  rewrite (in_map_filter_uuid (fun u => negb (memZ u (map co_uuid (filter co_created ks))))).
  rewrite negb_true_iff, memZ_nIn. tauto.
Qed.

Lemma delete_created_find d ks u r : find_cons (delete_created d ks) u = Some r -> find_cons d u = Some r.
Proof.
  unfold delete_created, find_cons. cbn.
  rewrite (find_cons_l_filter (fun u => negb (memZ u (map co_uuid (filter co_created ks))))).
  destruct (negb _); auto. discriminate.
Qed.

Lemma filter_all {A} (p : A -> bool) l : (forall x, In x l -> p x = true) -> filter p l = l.
Proof.
  induction l as [|a l IH]; cbn; intros H; auto. rewrite (H a) by auto. f_equal. apply IH. auto.
Qed.

Lemma filter_none {A} (p : A -> bool) l : (forall x, In x l -> p x = false) -> filter p l = [].
Proof.
  induction l as [|a l IH]; cbn; intros H; auto. rewrite (H a) by auto. apply IH. auto.
Qed.

(* rows the request created are removed again: the table is back to the one before *)
Lemma delete_created_undo d dm ks extra :
  consumers dm = consumers d ++ extra ->
  (forall r, In r extra -> exists k, In k ks /\ co_created k = true /\ co_uuid k = c_uuid r) ->
  (forall k, In k ks -> co_created k = true -> find_cons d (co_uuid k) = None) ->
  consumers (delete_created dm ks) = consumers d.
Proof.
  intros X X' N. unfold delete_created. cbn. rewrite X, filter_app.
  replace (filter _ extra) with (@nil consumer).
  - rewrite app_nil_r. apply filter_all. intros r Hr.
    apply negb_true_iff. apply memZ_nIn. intros I. apply in_map_iff in I. destruct I as [k [I1 I2]].
    apply filter_In in I2. destruct I2 as [I2 I3]. specialize (N k I2 I3).
    apply find_cons_none_cu in N. apply N. rewrite I1. unfold cu. apply in_map; auto.
  - symmetry. apply filter_none. intros r Hr.
    destruct (X' r Hr) as [k (K1 & K2 & K3)].
    apply negb_false_iff. apply memZ_In. rewrite <- K3. apply in_map. apply filter_In. auto.
Qed.

(* ================================================================ the allocation objects of a request *)
Lemma wipe_list_in d x o : In o (wipe_list d x) <->
  exists kk a r, find_cons d x = Some kk /\ In a (allocs d) /\ a_cons a = x /\ find_rp d (a_rp a) = Some r /\
                 o = mkAreq x (c_gen kk) (a_rp a) (rp_gen r) (a_rc a) 0.
Proof.
  unfold wipe_list. destruct (find_cons d x) as [kk|].
  - rewrite in_flat_map. split.
    + intros [a [Ha Ho]]. destruct (a_cons a =? x) eqn:E; [|destruct Ho].
      destruct (find_rp d (a_rp a)) as [r|] eqn:F; [|destruct Ho].
      destruct Ho as [<-|[]]. apply Z.eqb_eq in E. exists kk, a, r. auto.
    + intros (kk' & a & r & [= <-] & Ha & E & F & ->). exists a. split; auto.
      rewrite <- E, Z.eqb_refl, F. left; reflexivity.
  - split; [intros []|]. intros (kk' & a & r & H & _). discriminate.
Qed.

Lemma new_allocs_in d k la : forall oc, new_allocs d k la = Some oc ->
  forall o, In o oc -> q_cons o = co_uuid k /\ exists a p, In a la /\ In p (ai_res a) /\ q_amt o = snd p.
Proof.
  induction la as [|a la IH]; cbn; intros oc H o Ho.
  - injection H as <-. destruct Ho.
  - destruct (find_rp d (ai_rp a)) as [r|]; [|discriminate].
    destruct (new_allocs d k la) as [rest|]; [|discriminate]. injection H as <-.
    apply in_app_or in Ho. destruct Ho as [Ho|Ho].
    + apply in_map_iff in Ho. destruct Ho as [p [<- Hp]]. cbn. split; auto. exists a, p. auto.
    + destruct (IH _ eq_refl o Ho) as [H1 (a' & p & H2 & H3 & H4)]. split; auto. exists a', p. auto.
Qed.

Lemma new_allocs_nonempty d k la oc : new_allocs d k la = Some oc -> la <> [] ->
  (forall a, In a la -> ai_res a <> []) -> oc <> [].
Proof.
  destruct la as [|a la]; cbn; [congruence|]. intros H _ N.
  destruct (find_rp d (ai_rp a)) as [r|]; [|discriminate].
  destruct (new_allocs d k la) as [rest|]; [|discriminate]. injection H as <-.
  specialize (N a (or_introl eq_refl)). destruct (ai_res a); [congruence|]. cbn. discriminate.
Qed.

Lemma alloc_list_facts d ks : forall l objs, length ks = length l -> alloc_list d ks l = Some objs ->
  (forall o, In o objs -> exists k c oc, In (k, c) (combine ks l) /\
                                        alloc_objs d k (ci_allocs c) = Some oc /\ In o oc) /\
  (forall k c, In (k, c) (combine ks l) -> exists oc, alloc_objs d k (ci_allocs c) = Some oc /\ incl oc objs).
Proof.
  induction ks as [|k ks IH]; intros [|c l] objs L H; cbn in *; try discriminate.
  - injection H as <-. split; [intros o []|intros k c []].
  - destruct (alloc_objs d k (ci_allocs c)) as [oc|] eqn:E; [|discriminate].
    destruct (alloc_list d ks l) as [rest|] eqn:E'; [|discriminate]. injection H as <-.
    destruct (IH l rest) as [I1 I2]; auto. split.
    + intros o Ho. apply in_app_or in Ho. destruct Ho as [Ho|Ho].
      * exists k, c, oc. auto.
      * destruct (I1 o Ho) as (k' & c' & oc' & H1 & H2 & H3). exists k', c', oc'. auto.
    + intros k' c' [[= <- <-]|H].
      * exists oc. split; auto. apply incl_appl, incl_refl.
      * destruct (I2 k' c' H) as (oc' & H1 & H2). exists oc'. split; auto. apply incl_appr; auto.
Qed.

Lemma empty_created_in ks : forall l k, length ks = length l ->
  (In k (empty_created ks l) <-> exists c, In (k, c) (combine ks l) /\ ci_allocs c = []).
Proof.
  induction ks as [|k0 ks IH]; intros [|c0 l] k L; cbn in *; try discriminate.
  - split; [intros []|intros [c [[] _]]].
  - injection L as L. destruct (ci_allocs c0) eqn:E.
    + cbn. rewrite IH by auto. split.
      * intros [<-|[c [H1 H2]]]; [exists c0; auto|exists c; auto].
      * intros [c [[[= <- <-]|H1] H2]]; [auto|right; exists c; auto].
    + rewrite IH by auto. split.
      * intros [c [H1 H2]]. exists c; auto.
      * intros [c [[[= <- <-]|H1] H2]]; [congruence|exists c; auto].
Qed.

(* ================================================================ well-formedness *)
Lemma cons_list_wf_facts l : cons_list_wf l = true ->
  NoDup (map ci_uuid l) /\
  forall c a, In c l -> In a (ci_allocs c) -> ai_res a <> [] /\ forall p, In p (ai_res a) -> 1 <= snd p.
Proof.
  unfold cons_list_wf. intros H. apply andb_true_iff in H. destruct H as [H1 H2].
  split; [apply nodupb_NoDup; auto|]. intros c a Hc Ha.
  rewrite forallb_forall in H1. specialize (H1 c Hc). unfold cons_in_wf in H1.
  apply andb_true_iff in H1. destruct H1 as [H1 _]. rewrite forallb_forall in H1. specialize (H1 a Ha).
  unfold alloc_in_wf in H1. apply andb_true_iff in H1. destruct H1 as [H1 H3].
  apply andb_true_iff in H1. destruct H1 as [H1 _]. split.
  - destruct (ai_res a); [discriminate|congruence].
  - intros p Hp. rewrite forallb_forall in H1. apply Z.leb_le. auto.
Qed.

Lemma alloc_objs_cons d k la oc : alloc_objs d k la = Some oc -> forall o, In o oc -> q_cons o = co_uuid k.
Proof.
  destruct la as [|a la]; cbn [alloc_objs].
  - intros [= <-] o Ho. apply wipe_list_in in Ho. destruct Ho as (kk & a & r & _ & _ & _ & _ & ->). reflexivity.
  - intros H o Ho. eapply new_allocs_in in H; eauto. tauto.
Qed.

Lemma existsb_cons_au al x : existsb (fun a => a_cons a =? x) al = true <-> In x (map a_cons al).
Proof.
  rewrite existsb_exists, in_map_iff. split; intros [a [H1 H2]]; exists a.
  - apply Z.eqb_eq in H2. auto.
  - split; auto. apply Z.eqb_eq; auto.
Qed.

Lemma tc_In objs x : In x (tc objs) <->
  In x (map q_cons objs) /\ ~ In x (map q_cons (filter (fun a => 0 <? q_amt a) objs)).
Proof.
  unfold tc. rewrite filter_In, dedup_In, negb_true_iff, memZ_nIn. tauto.
Qed.

Lemma keepc_iff objs al x : keepc objs al x = true <-> (In x (tc objs) -> In x (map a_cons al)).
Proof.
  unfold keepc. rewrite negb_true_iff, andb_false_iff, negb_false_iff, memZ_nIn, existsb_cons_au.
  split; [tauto|]. intros H. destruct (memZ x (tc objs)) eqn:E.
  - apply memZ_In in E. auto.
  - apply memZ_nIn in E. auto.
Qed.

Lemma sa_allocs_au al objs x : In x (map a_cons (sa_allocs al objs)) <->
  (In x (map a_cons al) /\ ~ In x (map q_cons objs)) \/
  In x (map q_cons (filter (fun a => negb (q_amt a =? 0)) objs)).
Proof.
  unfold sa_allocs. rewrite map_app, in_app_iff, map_map. cbn [aq a_cons].
  assert (E : In x (map a_cons (filter (fun a => negb (memZ (a_cons a) (map q_cons objs))) al)) <->
              In x (map a_cons al) /\ ~ In x (map q_cons objs)).
  { split.
    - intros H. apply in_map_iff in H. destruct H as [a [<- H]]. apply filter_In in H. destruct H as [H1 H2].
      apply negb_true_iff, memZ_nIn in H2. split; auto. apply in_map; auto.
    - intros [H N]. apply in_map_iff in H. destruct H as [a [<- H]]. apply in_map. apply filter_In. split; auto.
      apply negb_true_iff, memZ_nIn. auto. }
  rewrite E. tauto.
Qed.

(* ================================================================ the common shape of PUT / POST / reshape *)
Definition post_core (cf : cfg) (d : db) (v : Z) (l : list cons_in)
           (txn : db -> list areq -> result db) (ef : exn -> resp) : db * resp :=
  match inspect_consumers cf v d [] l with
  | (d1, None) => (d1, err 409 C_CONCURRENT)
  | (d1, Some ks) =>
      match alloc_list d1 ks l with
      | None => (delete_created d1 ks, err 400 C_DEFAULT)
      | Some objs =>
          match txn (fold_left update_consumer ks d1) objs with
          | Ok d2 => (delete_created d2 (empty_created ks l), ok 204)
          | Err e => (delete_created d1 ks, ef e)
          end
      end
  end.

Lemma h_alloc_put_core cf d v c : h_alloc_put cf d v c = post_core cf d v [c] set_allocations alloc_err.
Proof.
  unfold h_alloc_put, post_core. cbn [inspect_consumers].
  destruct (ensure_consumer cf v d c) as [d1 [k|]].
  - cbn [rev app alloc_list fold_left].
    destruct (alloc_objs d1 k (ci_allocs c)) as [objs|]; [|reflexivity].
    rewrite app_nil_r. reflexivity.
  - rewrite delete_created_nil. reflexivity.
Qed.

Lemma chain_undo cf v d l ks dm dm' ks' :
  chain cf v d l ks dm -> ac dm' = ac dm -> (forall k, In k ks' <-> In k ks) ->
  ac (delete_created dm' ks') = ac d.
Proof.
  intros Hc [= A C] I.
  destruct (chain_facts _ _ _ _ _ _ Hc) as (A1 & _ & _ & _ & _ & (extra & X1 & X1') & N1 & _).
  unfold ac. f_equal.
  - cbn. congruence.
  - eapply delete_created_undo with (extra := extra).
    + congruence.
    + intros r Hr. destruct (X1' r Hr) as [k [K1 K2]]. exists k. split; auto. apply I; auto.
    + intros k Hk. apply N1. apply I; auto.
Qed.

Section Core.
Variables (cf : cfg) (v : Z) (d : db) (l : list cons_in) (ks : list cobj) (d1 : db) (objs : list areq) (d2 : db).
Hypothesis CI : ConsIff d.
Hypothesis RI0 : RI d.
Hypothesis WF : cons_list_wf l = true.
Hypothesis Hc : chain cf v d l ks d1.
Hypothesis Hal : alloc_list d1 ks l = Some objs.
Hypothesis Hsa : sa_spec (fold_left update_consumer ks d1) objs d2.

Lemma post_success : ConsIff (delete_created d2 (empty_created ks l)).
Proof.
  destruct (cons_list_wf_facts _ WF) as [ND WFa].
  destruct (chain_facts _ _ _ _ _ _ Hc) as (A1 & R1 & L1 & M1 & Q1 & (extra & X1 & X1') & N1 & F1).
  pose proof (chain_notcreated _ _ _ _ _ _ Hc ND) as NC.
  destruct (alloc_list_facts _ _ _ _ L1 Hal) as [AL1 AL2].
  destruct (fold_update_basic ks d1) as (A0 & R0 & C0).
  destruct Hsa as [SA [cl [CL1 CL2]]].
  set (EC := map co_uuid (filter co_created (empty_created ks l))).
  set (Q := map q_cons objs).
  set (WA := map q_cons (filter (fun a => 0 <? q_amt a) objs)).
  set (Pos := map q_cons (filter (fun a => negb (q_amt a =? 0)) objs)).
  set (U := map ci_uuid l).
  pose proof (proj1 (ConsIff_alt d) CI) as CI'.
  apply ConsIff_alt. intros x.
  assert (E2 : In x (au d2) <-> (In x (au d) /\ ~ In x Q) \/ In x Pos).
  { unfold au. rewrite SA, A0, A1. apply sa_allocs_au. }
  assert (E1 : In x (cu (delete_created d2 (empty_created ks l))) <->
               In x (cu d1) /\ ((In x Q /\ ~ In x WA) -> In x (au d2)) /\ ~ In x EC).
  { rewrite delete_created_cu. fold EC. unfold cu at 1. rewrite CL2.
    rewrite (in_map_filter_uuid (keepc objs (allocs d2))). rewrite keepc_iff, tc_In.
    rewrite (cinfo_uuid _ _ CL1). fold (cu (fold_left update_consumer ks d1)). rewrite C0.
    fold Q. fold WA. fold (au d2). tauto. }
  change (au (delete_created d2 (empty_created ks l))) with (au d2).
  (* every object belongs to a consumer of the request *)
  assert (OB : forall o, In o objs -> exists k c oc, In (k, c) (combine ks l) /\ In c l /\
                 alloc_objs d1 k (ci_allocs c) = Some oc /\ In o oc /\ q_cons o = ci_uuid c /\ co_uuid k = ci_uuid c).
  { intros o Ho. destruct (AL1 o Ho) as (k & c & oc & H1 & H2 & H3). exists k, c, oc.
    pose proof (Q1 _ _ H1) as [Uk _]. repeat split; auto.
    - eapply in_combine_r; eauto.
    - rewrite <- Uk. eapply alloc_objs_cons; eauto. }
  assert (PQ : In x Pos -> In x Q).
  { unfold Pos, Q. rewrite !in_map_iff. intros [o [H1 H2]]. apply filter_In in H2. exists o; tauto. }
  assert (ECk : In x EC -> exists k c, In (k, c) (combine ks l) /\ ci_allocs c = [] /\ co_created k = true /\ co_uuid k = x).
  { unfold EC. rewrite in_map_iff. intros [k [H1 H2]]. apply filter_In in H2. destruct H2 as [H2 H3].
    apply empty_created_in in H2; auto. destruct H2 as [c [H4 H5]]. exists k, c. auto. }
  destruct (in_dec Z.eq_dec x U) as [HU|HU].
  - unfold U in HU. apply in_map_iff in HU. destruct HU as [c [Ux Hcl]].
    destruct (in_combine_ex_r ks l c L1 Hcl) as [k Hkc].
    pose proof (in_combine_l _ _ _ _ Hkc) as Hk.
    pose proof (Q1 _ _ Hkc) as [Uk _]. rewrite Ux in Uk.
    destruct (F1 k Hk) as [row [Frow _]]. rewrite Uk in Frow.
    assert (CU1 : In x (cu d1)).
    { apply find_cons_l_some in Frow. destruct Frow as [<- I]. unfold cu. apply in_map; auto. }
    (* objects of x come from c *)
    assert (SAME : forall k' c', In (k', c') (combine ks l) -> ci_uuid c' = x -> c' = c).
    { intros k' c' H1 H2. eapply NoDup_map_inj; eauto. eapply in_combine_r; eauto. congruence. }
    destruct (AL2 _ _ Hkc) as [oc [AO INC]].
    destruct (ci_allocs c) as [|a la] eqn:CA.
    + cbn [alloc_objs] in AO. injection AO as <-. rewrite Uk in INC.
      assert (W : forall o, In o objs -> q_cons o = x -> In o (wipe_list d1 x)).
      { intros o Ho Hx. destruct (OB o Ho) as (k' & c' & oc' & H1 & H2 & H3 & H4 & H5 & H6).
        assert (c' = c) by (eapply SAME; eauto; congruence). subst c'.
        rewrite CA in H3. cbn [alloc_objs] in H3. injection H3 as <-. congruence. }
      assert (W0 : forall o, In o objs -> q_cons o = x -> q_amt o = 0).
      { intros o Ho Hx. apply W in Ho; auto. apply wipe_list_in in Ho.
        destruct Ho as (kk & a & r & _ & _ & _ & _ & ->). reflexivity. }
      assert (NPos : ~ In x Pos).
      { unfold Pos. rewrite in_map_iff. intros [o [H1 H2]]. apply filter_In in H2. destruct H2 as [H2 H3].
        rewrite (W0 o H2 H1) in H3. discriminate. }
      assert (NWA : ~ In x WA).
      { unfold WA. rewrite in_map_iff. intros [o [H1 H2]]. apply filter_In in H2. destruct H2 as [H2 H3].
        rewrite (W0 o H2 H1) in H3. discriminate. }
      assert (QA : In x Q <-> In x (au d)).
      { unfold Q, au. rewrite !in_map_iff. split.
        - intros [o [H1 H2]]. apply W in H2; auto. apply wipe_list_in in H2.
          destruct H2 as (kk & a & r & _ & Ha & Hx & _ & _). exists a. split; auto. congruence.
        - intros [a [H1 H2]]. destruct RI0 as [RIa _]. destruct (RIa a H2) as [[r Hr] _].
          exists (mkAreq x (c_gen row) (a_rp a) (rp_gen r) (a_rc a) 0). split; [reflexivity|].
          apply INC. apply wipe_list_in. exists row, a, r. repeat split; auto.
          + congruence.
          + unfold find_rp in *. congruence. }
      assert (ECx : In x EC <-> ~ In x (cu d)).
      { split.
        - intros H. destruct (ECk H) as (k' & c' & H1 & H2 & H3 & H4).
          apply find_cons_none_cu. rewrite <- H4. apply N1; auto. eapply in_combine_l; eauto.
        - intros H. apply find_cons_none_cu in H.
          assert (co_created k = true).
          { destruct (co_created k) eqn:Cr; auto. exfalso. apply (NC k Hk Cr). congruence. }
          unfold EC. apply in_map_iff. exists k. split; auto. apply filter_In. split; auto.
          apply empty_created_in; auto. exists c. auto. }
      specialize (CI' x). rewrite E1, E2. tauto.
    + cbn [alloc_objs] in AO.
      assert (NE : oc <> []).
      { eapply new_allocs_nonempty; eauto; [discriminate|]. intros a' Ha'. rewrite <- CA in Ha'.
        apply (WFa c a' Hcl Ha'). }
      destruct oc as [|o oc']; [congruence|].
      destruct (new_allocs_in _ _ _ _ AO o (or_introl eq_refl)) as [Ho1 (a' & p & Ha' & Hp & Hamt)].
      rewrite <- CA in Ha'. destruct (WFa c a' Hcl Ha') as [_ Hge]. specialize (Hge p Hp).
      assert (Ho : In o objs) by (apply INC; left; auto).
      assert (IPos : In x Pos).
      { unfold Pos. apply in_map_iff. exists o. split; [congruence|]. apply filter_In. split; auto.
        apply negb_true_iff, Z.eqb_neq. lia. }
      assert (IWA : In x WA).
      { unfold WA. apply in_map_iff. exists o. split; [congruence|]. apply filter_In. split; auto.
        apply Z.ltb_lt. lia. }
      assert (NEC : ~ In x EC).
      { intros H. destruct (ECk H) as (k' & c' & H1 & H2 & H3 & H4).
        assert (c' = c). { eapply SAME; eauto. pose proof (Q1 _ _ H1) as [Uk' _]. congruence. }
        subst c'. congruence. }
      rewrite E1, E2. tauto.
  - assert (NQ : ~ In x Q).
    { unfold Q. rewrite in_map_iff. intros [o [H1 H2]].
      destruct (OB o H2) as (k' & c' & oc' & _ & H3 & _ & _ & H5 & _). apply HU. unfold U.
      rewrite <- H1, H5. apply in_map; auto. }
    assert (NEC : ~ In x EC).
    { intros H. destruct (ECk H) as (k' & c' & H1 & _ & _ & H4). apply HU. unfold U.
      rewrite <- M1, <- H4. apply in_map. eapply in_combine_l; eauto. }
    assert (CUx : In x (cu d1) <-> In x (cu d)).
    { unfold cu. rewrite X1, map_app, in_app_iff. split; auto. intros [H|H]; auto. exfalso.
      apply in_map_iff in H. destruct H as [r [H1 H2]]. destruct (X1' r H2) as [k' [H3 [_ H4]]].
      apply HU. unfold U. rewrite <- M1, <- H1, <- H4. apply in_map; auto. }
    specialize (CI' x). rewrite E1, E2. tauto.
Qed.
End Core.

Lemma post_core_consiff cf d v l txn ef d' rs :
  (forall d0 objs d2, txn d0 objs = Ok d2 -> sa_spec d0 objs d2) ->
  ConsIff d -> RI d -> cons_list_wf l = true ->
  post_core cf d v l txn ef = (d', rs) -> ConsIff d'.
Proof.
  intros T CI RI0 WF. unfold post_core.
  destruct (inspect_consumers cf v d [] l) as [d1 [ks|]] eqn:EI.
  - apply inspect_some in EI. destruct EI as [ks' [-> Hc]]. cbn [rev app] in *.
    destruct (alloc_list d1 ks' l) as [objs|] eqn:EA.
    + destruct (txn _ objs) as [d2|e] eqn:ET; intros [= <- <-].
      * eapply post_success; eauto.
      * eapply ConsIff_ac; [|exact CI]. eapply chain_undo; eauto. tauto.
    + intros [= <- <-]. eapply ConsIff_ac; [|exact CI]. eapply chain_undo; eauto. tauto.
  - apply inspect_none in EI. destruct EI as (l1 & ks' & dm & c & dm' & Hc & He & ->). intros [= <- <-].
    eapply ConsIff_ac; [|exact CI]. eapply chain_undo; eauto.
    + apply ensure_none in He; auto.
    + intros k. rewrite app_nil_r. rewrite <- in_rev. tauto.
Qed.

Lemma h_alloc_post_core cf d v l :
  h_alloc_post cf d v l = if v <? 13 then (d, err 404 C_DEFAULT) else post_core cf d v l set_allocations alloc_err.
Proof. reflexivity. Qed.

Lemma h_reshape_core cf d v ri al :
  h_reshape cf d v ri al =
  if v <? 30 then (d, err 404 C_DEFAULT) else
  match reshape_precheck d ri with
  | Some r => (d, r)
  | None => post_core cf d v al (fun d0 objs => reshape_txn d0 ri objs) reshape_err
  end.
Proof. reflexivity. Qed.

Lemma cons_list_wf_single c : cons_in_wf c = true -> cons_list_wf [c] = true.
Proof. intros H. unfold cons_list_wf. cbn. rewrite H. reflexivity. Qed.

Lemma alloc_delete_consiff d c d' rs : ConsIff d -> RI d -> h_alloc_delete d c = (d', rs) -> ConsIff d'.
Proof.
  intros CI RI0. unfold h_alloc_delete. destruct (wipe_list d c) as [|o wl] eqn:W.
  - intros [= <- <-]; auto.
  - intros [= <- <-]. apply ConsIff_alt. intros x. pose proof (proj1 (ConsIff_alt d) CI x) as CIx.
    set (d1 := set_allocs d _).
    assert (A : In x (au d1) <-> In x (au d) /\ x <> c).
    { unfold au, d1. cbn [allocs set_allocs]. split.
      - intros H. apply in_map_iff in H. destruct H as [a [<- H]]. apply filter_In in H. destruct H as [H1 H2].
        destruct RI0 as [RIa _]. destruct (RIa a H1) as [[r Hr] _]. rewrite Hr, andb_true_r in H2.
        apply negb_true_iff, Z.eqb_neq in H2. split; auto. apply in_map; auto.
      - intros [H N]. apply in_map_iff in H. destruct H as [a [<- H]]. apply in_map. apply filter_In. split; auto.
        apply negb_true_iff. apply andb_false_iff. left. apply Z.eqb_neq; auto. }
    unfold delete_consumers_if_no_allocations.
    change (au (set_consumers d1 _)) with (au d1). unfold cu. cbn [consumers set_consumers].
    rewrite (in_map_filter_uuid (fun u => negb (memZ u [c] && negb (existsb (fun a => a_cons a =? u) (allocs d1))))).
    rewrite negb_true_iff, andb_false_iff, negb_false_iff, memZ_nIn, existsb_cons_au.
    fold (au d1). change (map c_uuid (consumers d1)) with (cu d).
    assert (S : In x [c] <-> x = c) by (cbn; intuition congruence).
    rewrite S, A. destruct (Z.eq_dec x c); tauto.
Qed.

Lemma c12_step :
  forall cf d r d' rs, ConsIff d -> RI d -> req_wf r = true -> step cf d r = (d', rs) -> ConsIff d'.
Proof.
  intros cf d r d' rs CI RI0 WF H.
  destruct r;
    try (eapply ConsIff_ac; [eapply simple_step_ac; [|exact H]; exact I|exact CI]);
    cbn [step] in H; cbn [req_wf] in WF.
  - rewrite h_alloc_put_core in H.
    eapply post_core_consiff; eauto using set_allocations_spec, cons_list_wf_single.
  - rewrite h_alloc_post_core in H. destruct (v <? 13).
    + injection H as <- <-; auto.
    + eapply post_core_consiff; eauto using set_allocations_spec.
  - eapply alloc_delete_consiff; eauto.
  - rewrite h_reshape_core in H. destruct (v <? 30); [injection H as <- <-; auto|].
    destruct (reshape_precheck d ri); [injection H as <- <-; auto|].
    apply andb_true_iff in WF. destruct WF as [_ WF].
    eapply post_core_consiff; [| | |exact WF|exact H]; auto.
    intros d0 objs d2. apply reshape_txn_spec.
Qed.

(* ================================================================ C12_attrs *)
Lemma post_attrs cf v d l ks d1 objs d2 c kk :
  cons_list_wf l = true -> chain cf v d l ks d1 ->
  sa_spec (fold_left update_consumer ks d1) objs d2 -> In c l ->
  find_cons (delete_created d2 (empty_created ks l)) (ci_uuid c) = Some kk ->
  c_proj kk = req_proj cf c /\ c_user kk = req_user cf c /\ (38 <= v -> c_type kk = Some (oz (ci_type c))).
Proof.
  intros WF Hc [SA [cl [CL1 CL2]]] Hcl F.
  destruct (cons_list_wf_facts _ WF) as [ND _].
  destruct (chain_facts _ _ _ _ _ _ Hc) as (_ & _ & L1 & M1 & Q1 & _ & _ & F1).
  apply delete_created_find in F. unfold find_cons in F. rewrite CL2 in F.
  rewrite (find_cons_l_filter (keepc objs (allocs d2))) in F.
  destruct (keepc objs (allocs d2) (ci_uuid c)); [|discriminate].
  destruct (find_cons_l_cinfo _ _ _ _ CL1 F) as [r0 [F0 I0]].
  destruct (in_combine_ex_r ks l c L1 Hcl) as [k Hkc].
  pose proof (in_combine_l _ _ _ _ Hkc) as Hk.
  destruct (Q1 _ _ Hkc) as (Uk & Rp & Ru & Rt).
  assert (NDk : NoDup (map co_uuid ks)) by (rewrite M1; exact ND).
  destruct (fold_update_attrs ks d1 NDk F1 k Hk) as [row' [F' (G1 & G2 & G3)]].
  rewrite Uk in F'. unfold find_cons in F'. rewrite F0 in F'. injection F' as <-.
  unfold cinfo in I0. injection I0 as _ I1 I2 I3.
  split; [congruence|]. split; [congruence|]. intros V. rewrite <- I3. apply G3. auto.
Qed.

Lemma post_core_attrs cf d v l txn ef d' rs c kk :
  (forall d0 objs d2, txn d0 objs = Ok d2 -> sa_spec d0 objs d2) ->
  (forall e, 400 <= status (ef e)) ->
  cons_list_wf l = true ->
  post_core cf d v l txn ef = (d', rs) -> is_success rs -> In c l ->
  find_cons d' (ci_uuid c) = Some kk ->
  c_proj kk = req_proj cf c /\ c_user kk = req_user cf c /\ (38 <= v -> c_type kk = Some (oz (ci_type c))).
Proof.
  intros T EF WF. unfold post_core, is_success.
  destruct (inspect_consumers cf v d [] l) as [d1 [ks|]] eqn:EI.
  - apply inspect_some in EI. destruct EI as [ks' [-> Hc]]. cbn [rev app] in *.
    destruct (alloc_list d1 ks' l) as [objs|] eqn:EA.
    + destruct (txn _ objs) as [d2|e] eqn:ET; intros [= <- <-] S.
      * intros Hcl F. eapply post_attrs; eauto.
      * specialize (EF e). lia.
    + intros [= <- <-] S. cbn in S. lia.
  - intros [= <- <-] S. cbn in S. lia.
Qed.

Lemma alloc_err_status e : 400 <= status (alloc_err e).
Proof. destruct e; cbn; lia. Qed.
Lemma reshape_err_status e : 400 <= status (reshape_err e).
Proof. destruct e; cbn; lia. Qed.
Lemma reshape_precheck_status d ri r : reshape_precheck d ri = Some r -> 400 <= status r.
Proof.
  induction ri as [|x ri IH]; cbn; [discriminate|].
  destruct (find_rp d (ri_rp x)); [|intros [= <-]; cbn; lia].
  destruct (negb _); [intros [= <-]; cbn; lia|auto].
Qed.

Lemma c12_attrs :
  forall cf d r d' rs c k, ConsIff d -> RI d -> req_wf r = true ->
    step cf d r = (d', rs) -> is_success rs -> In c (req_consumers r) ->
    find_cons d' (ci_uuid c) = Some k ->
    c_proj k = (match ci_proj c with Some p => p | None => incomplete_proj cf end) /\
    c_user k = (match ci_proj c with Some _ => oz (ci_user c) | None => incomplete_user cf end) /\
    (38 <= req_version r -> c_type k = Some (oz (ci_type c))).
Proof.
  intros cf d r d' rs c k _ _ WF H S Hc F.
  destruct r; cbn [req_consumers] in Hc; try (destruct Hc; fail);
    cbn [step] in H; cbn [req_wf] in WF; cbn [req_version].
  - rewrite h_alloc_put_core in H.
    eapply post_core_attrs in H; eauto using set_allocations_spec, cons_list_wf_single, alloc_err_status.
  - rewrite h_alloc_post_core in H. destruct (v <? 13).
    + injection H as <- <-. unfold is_success in S. cbn in S. lia.
    + eapply post_core_attrs in H; eauto using set_allocations_spec, alloc_err_status.
  - rewrite h_reshape_core in H. destruct (v <? 30).
    { injection H as <- <-. unfold is_success in S. cbn in S. lia. }
    destruct (reshape_precheck d ri) eqn:P.
    { injection H as <- <-. apply reshape_precheck_status in P. unfold is_success in S. lia. }
    apply andb_true_iff in WF. destruct WF as [_ WF].
    eapply post_core_attrs in H; eauto using reshape_err_status.
    intros d0 objs d2. apply reshape_txn_spec.
Qed.
